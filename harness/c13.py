"""C13 - temperature schedules are followed faithfully.

proof:          coq/C13/Properties.v (21 theorems about the real instance of coq/C13/Model.v: np.interp
                hits break points / is linear between / clamps / never overshoots, the schedule object
                with seconds in and hours in the table, recorded temperature = schedule(recorded time) at
                every step, constructor object = setter (flag, incubation model, any observable of a
                run), diffusion package, and the lookup-table refresh rule: for EVERY sequence of
                growth-rate calls / recordings / re-meshes every tabulated composition and the
                equilibrium compositions were computed within maxTempChange of the temperature they are
                used at); coq/C13/Examples.v refutes both clauses for the code before the two repairs.
correspondence: (a) TemperatureParameters of both packages, built through the constructor, through the
                    setter of a default object and through the setter of an object that held another
                    schedule, are evaluated at break points / between / outside / random times; the model
                    (exact rationals, vm_compute) must give the same flag and the same temperatures;
                (b) the REAL PrecipitateModel._growthRateBinary / _createLookupBinary /
                    _updateParticleSizeDistribution (stub binary backend that logs the temperature of
                    every interfacial-composition query) are driven with scripted temperature
                    sequences (slow / fast ramps, cooling, zig-zag, holds, exact ties, RK-like stage
                    patterns, scripted re-meshes) and observed after every operation (dTemp, _lookupTemp,
                    the temperature every table entry was computed at, the temperature the returned
                    equilibrium compositions were computed at); the model machine is stepped on the
                    same operations inside Coq and must agree after every operation;
                (c) full precipitation runs (Euler and RK4, one and two precipitate phases, tables /
                    functions / constants through constructor and setter, several step-size limits) are
                    observed the same way; their operation sequences and recorded time / temperature
                    arrays are checked against the model in Coq;
                    the same for runs made of SEVERAL solve() calls with the specification changed in
                    between (constant -> constant, table/function -> constant, constant -> table/function,
                    ...; through model.setTemperature, the kind-specific setter of the parameter object,
                    setTemperatureParameters, or a new parameter object), each treatment run twice with
                    different but equivalent ways of changing it: every step must carry the schedule IN FORCE
                    during its own solve call (model: run_segs / C13_recorded_T_segments, recs_case);
                (d) SinglePhaseModel runs (also multi-solve, specification changed in between) with a logging cache: temperature used at every flux
                    evaluation; both diffusion models' _getFluxes are checked (ast) to obtain T from
                    self.temperatureParameters(self.z, t) only.
search:         oracles written from the property text, independent of the Coq model: exact piecewise
                linear reference schedule (fractions), "constant <=> isothermal", constructor run ==
                setter run bit for bit, |T_now - T_entry| <= maxTempChange for every table entry and for
                the equilibrium compositions (temperature recovered from the stub's closed form).
"""
import ast, contextlib, copy, inspect, io, json, math, textwrap, time
from fractions import Fraction
import numpy as np
from common import *
import stubs

LEVEL = 'proof'
SITE_TP = 'PrecipitationParameters.TemperatureParameters'
SITE_DTP = 'DiffusionParameters.TemperatureParameters'
SITE_LK = 'KWNEuler._growthRateBinary'
SITE_RUN = 'KWNBase.postProcess'

HEADER = '''From Coq Require Import QArith List ZArith Bool.
Require Import Kawin.Common.Ops Kawin.Common.Vec Kawin.Common.Out Kawin.C13.Model Kawin.C13.Corr.
Import ListNotations.
Open Scope Q_scope.
'''
RT = '(1 # 68719476736)'       # 2^-36
RT0 = '(0 # 1)'
GAS = stubs.R


class StopRun(Exception):
    pass


@contextlib.contextmanager
def quiet():
    with contextlib.redirect_stdout(io.StringIO()):
        yield


# ------------------------------------------------------------------------------------------
# schedule specifications  (JSON-able):  const / table (hours, kelvin) / func a + b*t + c*t*t
# The user's argument OBJECTS matter, not only their values: break points may come as lists, tuples, float or
# integer numpy arrays, and the same objects are normally used for several specifications (constructor object of
# one model, setter of the next, a sweep that re-applies the schedule).  Inside `shared_args()` every specification
# of one input is made with the SAME argument objects, and afterwards they must still hold what the user wrote.
CONTAINERS = ('list', 'f64', 'tuple', 'mixed', 'int')
_POOL = {'on': False, 'objs': {}}


@contextlib.contextmanager
def shared_args():
    prev = dict(_POOL)
    _POOL['on'], _POOL['objs'] = True, {}
    try:
        yield _POOL['objs']
    finally:
        _POOL['on'], _POOL['objs'] = prev['on'], prev['objs']


def _box(values, how):
    if how in ('f64',):
        return np.array(values, dtype=np.float64)
    if how == 'tuple':
        return tuple(values)
    if how == 'int' and all(float(v).is_integer() for v in values):
        return np.array([int(v) for v in values], dtype=np.int64)
    return list(values)


def make_args(spec, pkg):
    k = spec['kind']
    if k == 'const':
        return (spec['T'],)
    if k == 'table':
        c = spec.get('container', 'list')
        return (_box(spec['hours'], 'f64' if c == 'mixed' else c), _box(spec['kelvin'], 'list' if c == 'mixed' else c))
    a, b, c = spec['a'], spec['b'], spec['c']
    if pkg == 'precip':
        return (lambda t: a + b * t + c * t * t,)
    return (lambda z, t: a + b * t + c * np.asarray(z, dtype=float),)


def spec_args(spec, pkg='precip'):
    if not _POOL['on']:
        return make_args(spec, pkg)
    key = (json.dumps({k: v for k, v in spec.items() if k != 'why'}, sort_keys=True), pkg)
    if key not in _POOL['objs']:
        _POOL['objs'][key] = (spec, make_args(spec, pkg))
    return _POOL['objs'][key][1]


def args_oracle(pool, site_of):
    """the argument objects still hold what the user wrote"""
    v = []
    for (key, pkg), (spec, args) in pool.items():
        if spec['kind'] != 'table':
            continue
        for name, obj, want in (('times (hours)', args[0], spec['hours']), ('temperatures', args[1], spec['kelvin'])):
            now = [float(x) for x in obj]
            if now != [float(x) for x in want]:
                v.append(('arguments_unchanged', site_of(pkg), type(obj).__name__,
                          'the %s the user passed (%s %r) read %r after the specification was made' % (name, type(obj).__name__, [float(x) for x in want][:4], now[:4])))
                break
    return v


def coq_args(spec, pkg='precip'):
    k = spec['kind']
    if pkg == 'precip':
        if k == 'const':
            return '(AConst Qops %s)' % qlit(spec['T'])
        if k == 'table':
            return '(ATable Qops %s %s)' % (qlist(spec['hours']), qlist(spec['kelvin']))
        return '(AFunc Qops (poly %s %s %s))' % (qlit(spec['a']), qlit(spec['b']), qlit(spec['c']))
    if k == 'const':
        return '(DAConst Qops %s)' % qlit(spec['T'])
    if k == 'table':
        return '(DATable Qops %s %s)' % (qlist(spec['hours']), qlist(spec['kelvin']))
    return '(DAFunc Qops (dpoly %s %s %s))' % (qlit(spec['a']), qlit(spec['b']), qlit(spec['c']))


def coq_tp(spec, route, prev=None):
    """term of type tparams Qops for the object built through `route`"""
    if route == 'ctor':
        return '(ctor Qops %s)' % coq_args(spec)
    if route in ('setter', 'interleaved'):
        return '(via_setter Qops %s)' % coq_args(spec)
    if route == 'twice':
        return '(setTemperatureParameters Qops (ctor Qops %s) %s)' % (coq_args(spec), coq_args(spec))
    return '(setTemperatureParameters Qops (ctor Qops %s) %s)' % (coq_args(prev), coq_args(spec))


def coq_dk(spec, route, prev=None):
    if route == 'ctor':
        return '(dctor Qops %s)' % coq_args(spec, 'diff')
    if route in ('setter', 'interleaved'):
        return '(dvia_setter Qops (dctor Qops DA0) %s)' % coq_args(spec, 'diff')
    if route == 'twice':
        return '(dvia_setter Qops (dctor Qops %s) %s)' % (coq_args(spec, 'diff'), coq_args(spec, 'diff'))
    return '(dvia_setter Qops (dctor Qops %s) %s)' % (coq_args(prev, 'diff'), coq_args(spec, 'diff'))


def _evaluate(pkg, tp, times, z):
    if pkg == 'precip':
        return [float(tp(t)) for t in times]
    return [[float(v) for v in np.atleast_1d(tp(np.array(z), t))] for t in times]


def _bare_model(pkg):
    """a model built WITHOUT a parameter object of its own (the default one is installed)"""
    if pkg == 'precip':
        from kawin.precipitation import PrecipitateModel
        return PrecipitateModel(phases=['B1'], elements=['B'])
    from kawin.diffusion import SinglePhaseModel
    return SinglePhaseModel([0, 1e-4], 5, ['A', 'B'], ['P'], record=False)


def _model_set(pkg, m, spec):
    args = spec_args(spec, pkg)
    if pkg == 'precip':
        m.setTemperature(*args)
    else:
        {'const': m.setTemperature, 'table': m.setTemperatureArray, 'func': m.setTemperatureFunction}[spec['kind']](*args)


def build_tp(pkg, spec, route, prev=None, times=(), z=()):
    """the kawin object, built through
       ctor         the constructor,
       setter       the setter of a default object,
       reset        the setter of an object that held `prev` AND was evaluated with it at the same times (history on one object),
       twice        the same specification applied again to an object that was evaluated in between,
       interleaved  model.setTemperature of a model built without its own object, while a second such model is alive and
                    is given `prev` afterwards (two objects in one process)"""
    if route == 'interleaved':
        with quiet():
            m1, m2 = _bare_model(pkg), _bare_model(pkg)
            _model_set(pkg, m1, spec)
            _model_set(pkg, m2, prev)
        tp = m1.temperatureParameters
        tp._c13_keep = (m1, m2)
        tp._c13_shared = m1.temperatureParameters is m2.temperatureParameters
        return tp
    if pkg == 'precip':
        from kawin.precipitation import TemperatureParameters as TP
        with quiet():
            if route == 'ctor':
                return TP(*spec_args(spec))
            tp = TP() if route == 'setter' else TP(*spec_args(spec if route == 'twice' else prev))
            if route != 'setter':
                try:
                    _evaluate(pkg, tp, times, z)
                except Exception:
                    pass
            tp.setTemperatureParameters(*spec_args(spec))      # what model.setTemperature(*args) calls
            return tp
    from kawin.diffusion.DiffusionParameters import TemperatureParameters as DTP
    args = spec_args(spec, 'diff')
    if route == 'ctor':
        return DTP(*args)
    tp = DTP() if route == 'setter' else DTP(*spec_args(spec if route == 'twice' else prev, 'diff'))
    if route != 'setter':
        try:
            _evaluate(pkg, tp, times, z)
        except Exception:
            pass
    # what DiffusionModel.setTemperature / setTemperatureArray / setTemperatureFunction call
    {'const': tp.setIsothermalTemperature, 'table': tp.setTemperatureArray, 'func': tp.setTemperatureFunction}[spec['kind']](*args)
    return tp


# ---- reference schedule written from the property text (exact fractions) ---------------------
def ref_table(hours, kelvin, x):
    """(lo, hi) of the admissible temperature at x hours: the break-point value at a break point (either
    side of an instantaneous jump), the straight line between neighbours, first / last value outside"""
    h = [frac(v) for v in hours]
    k = [frac(v) for v in kelvin]
    if x < h[0]:
        return k[0], k[0]
    if x > h[-1]:
        return k[-1], k[-1]
    at = [k[i] for i in range(len(h)) if h[i] == x]
    if at:
        return min(at), max(at)
    for i in range(len(h) - 1):
        if h[i] < x < h[i + 1]:
            v = k[i] + (k[i + 1] - k[i]) * (x - h[i]) / (h[i + 1] - h[i])
            return v, v
    raise AssertionError('break points are not sorted')


def ref_sched(spec, t, exact=False, z=None):
    """admissible range of the temperature at t seconds"""
    t = frac(t)
    eps = Fraction(0) if exact else Fraction(1, 2 ** 44)
    k = spec['kind']
    if k == 'const':
        return frac(spec['T']), frac(spec['T'])
    pts = [t] if exact else [t * (1 - eps), t, t * (1 + eps)]
    if k == 'table':
        # extreme values over the neighbourhood are taken at its ends or at a break point inside it
        lo_t, hi_t = min(pts), max(pts)
        pts = pts + [3600 * frac(h) for h in spec['hours'] if lo_t <= 3600 * frac(h) <= hi_t]
        r = [ref_table(spec['hours'], spec['kelvin'], p / 3600) for p in pts]
    else:
        a, b, c = frac(spec['a']), frac(spec['b']), frac(spec['c'])
        if z is None:
            r = [(a + b * p + c * p * p,) * 2 for p in pts]
        else:
            r = [(a + b * p + c * frac(z),) * 2 for p in pts]
    lo, hi = min(x[0] for x in r), max(x[1] for x in r)
    slack = eps * 64 * (abs(lo) + abs(hi))
    if k == 'func' and not exact:
        a, b, c = frac(spec['a']), frac(spec['b']), frac(spec['c'])
        slack = eps * 64 * (abs(a) + abs(b * t) + abs(c * t * t if z is None else c * frac(z)))
    return lo - slack, hi + slack


def gen_spec(rng, exact=None):
    kind = str(rng.choice(['const', 'table', 'table', 'func']))
    if exact is None:
        exact = bool(rng.random() < 0.4)
    if kind == 'const':
        return {'kind': 'const', 'T': float(rng.integers(500, 1100)) if exact else float(rng.uniform(500, 1100)), 'exact': exact}
    if kind == 'table':
        n = int(rng.choice([1, 2, 3, 4, 5, 6], p=[0.08, 0.2, 0.25, 0.22, 0.15, 0.1]))
        if exact:
            h0 = float(rng.choice([0.0, 0.0, 0.5, -1.0]))
            inc = rng.choice([0.0, 0.125, 0.25, 0.5, 1.0, 2.0], size=n - 1, p=[0.18, 0.12, 0.2, 0.2, 0.2, 0.1])
            kel = rng.integers(500, 1100, n).astype(float)
        else:
            h0 = float(rng.choice([0.0, rng.uniform(0, 1), -rng.uniform(0, 1)]))
            inc = 10 ** rng.uniform(-3, 1, n - 1)
            inc[rng.random(n - 1) < 0.15] = 0.0
            kel = rng.uniform(500, 1100, n)
        if n > 1 and rng.random() < 0.25:
            j = int(rng.integers(0, n - 1))
            kel[j + 1] = kel[j]                       # a hold
        hours = np.concatenate(([h0], h0 + np.cumsum(inc)))
        return {'kind': 'table', 'hours': [float(x) for x in hours], 'kelvin': [float(x) for x in kel], 'exact': exact,
                'container': str(rng.choice(CONTAINERS, p=[0.3, 0.35, 0.1, 0.15, 0.1]))}
    if exact:
        return {'kind': 'func', 'a': float(rng.integers(600, 900)), 'b': float(rng.choice([-0.25, -0.03125, 0.0, 0.0625, 0.5])),
                'c': float(rng.choice([0.0, 2.0 ** -14, -2.0 ** -15])), 'exact': True}
    return {'kind': 'func', 'a': float(rng.uniform(600, 900)), 'b': float(rng.uniform(-0.03, 0.03)), 'c': float(rng.uniform(-3e-6, 3e-6)), 'exact': False}


def gen_times(rng, spec):
    exact = spec.get('exact', False)
    ts = []
    if spec['kind'] == 'table':
        h = spec['hours']
        for x in h:
            ts.append(3600.0 * x)                       # at the break points
        for a, b in zip(h[:-1], h[1:]):
            ts.append(3600.0 * (0.5 * (a + b)))
            if not exact:
                ts.append(3600.0 * (a + (b - a) * float(rng.uniform(0, 1))))
        ts += [3600.0 * (h[0] - 0.5), 3600.0 * (h[-1] + 0.25), 3600.0 * (h[-1] + 64.0)]
    if exact:
        ts += [225.0 * float(rng.integers(-8, 80)) for _ in range(3)]
    else:
        ts += [float(rng.uniform(-100, 20000)) for _ in range(3)] + [0.0, float(10 ** rng.uniform(-6, 0))]
    return [float(t) for t in ts]


# ------------------------------------------------------------------------------------------
# (a) schedule evaluation: implementation, oracle, model
ROUTES = ('ctor', 'setter', 'reset', 'twice', 'interleaved')       # twice: the same specification applied again to the object


def conventions(pkg, tp, times, z, vals):
    """the same evaluation with the time given as numpy scalar, 0-d array, integer (when it is one) and, for the
    diffusion package, the nodes as list / tuple: all must give what the plain call gave; returns a description or None"""
    for i, t in enumerate(times):
        alts = [('numpy float64', np.float64(t)), ('0-d array', np.array(t))]
        if float(t).is_integer() and abs(t) < 2 ** 40:
            alts += [('python int', int(t)), ('numpy int64', np.int64(int(t)))]
        for name, tt in alts:
            try:
                if pkg == 'precip':
                    got = float(tp(tt))
                else:
                    got = [float(v) for v in np.atleast_1d(tp(np.array(z), tt))]
            except Exception as e:
                return 'time given as %s (%r): %s: %s' % (name, t, type(e).__name__, e)
            if got != vals[i]:
                return 'time given as %s: T(%r) = %r, as python float %r' % (name, t, got, vals[i])
        if pkg == 'diff':
            for name, zz in (('list', list(z)), ('tuple', tuple(z))):
                try:
                    got = [float(v) for v in np.atleast_1d(tp(zz, t))]
                except Exception as e:
                    return 'nodes given as %s: %s: %s' % (name, type(e).__name__, e)
                if got != vals[i]:
                    return 'nodes given as %s: T(z, %r) = %r, as array %r' % (name, t, got, vals[i])
    return None


def eval_route(pkg, spec, route, prev, times, z):
    out = {'route': route}
    try:
        tp = build_tp(pkg, spec, route, prev, times, z)
        out['tp'] = tp
        out['shared'] = getattr(tp, '_c13_shared', False)
        out['flag'] = getattr(tp, '_isIsothermal', None) if pkg == 'precip' else None
        out['vals'] = _evaluate(pkg, tp, times, z)
        out['conv'] = conventions(pkg, tp, times, z, out['vals']) if route in ('ctor', 'reset') else None
        out['err'] = None
    except Exception as e:
        out['err'] = type(e).__name__ + ': ' + str(e)
    return out


def sched_oracle(case, res):
    """list of (clause, site, cls, message)"""
    spec, pkg, times, z = case['spec'], case['pkg'], case['times'], case['z']
    site = SITE_TP if pkg == 'precip' else SITE_DTP
    exact = spec.get('exact', False)
    v = []
    for r in res:
        if r['err']:
            v.append(('schedule_value', site, 'exception', '%s route: %s' % (r['route'], r['err'])))
            return v
    # the schedule is followed
    for r in res:
        for i, t in enumerate(times):
            vals = [r['vals'][i]] if pkg == 'precip' else r['vals'][i]
            if pkg == 'diff' and len(vals) != len(z):
                v.append(('schedule_value', site, 'shape', '%s route: %d temperatures for %d nodes at t=%r' % (r['route'], len(vals), len(z), t)))
                break
            bad = None
            for j, x in enumerate(vals):
                lo, hi = ref_sched(spec, t, exact, None if pkg == 'precip' or spec['kind'] != 'func' else z[j])
                if not (lo <= frac(x) <= hi):
                    bad = (j, x, lo, hi)
                    break
            if bad:
                v.append(('schedule_value', site, spec['kind'],
                          '%s schedule (%s route) gives %r at t=%r s, the specification gives %r' % (spec['kind'], r['route'], bad[1], t, float(bad[2]) if bad[2] == bad[3] else (float(bad[2]), float(bad[3])))))
                break
        else:
            continue
        break
    # constructor object == setter, bit for bit, and same isothermal treatment
    base = res[0]
    for r in res[1:]:
        if r['vals'] != base['vals']:
            v.append(('ctor_eq_setter', site, 'value', '%s schedule: %s and %s routes evaluate differently' % (spec['kind'], base['route'], r['route'])))
        if pkg == 'precip' and r['flag'] != base['flag']:
            v.append(('ctor_eq_setter', site, 'flag',
                      '%s schedule: _isIsothermal is %r through the %s route and %r through the %s route' % (spec['kind'], base['flag'], base['route'], r['flag'], r['route'])))
    for r in res:
        if r.get('conv'):
            v.append(('schedule_value', site, 'calling convention', '%s schedule (%s route): %s' % (spec['kind'], r['route'], r['conv'])))
            break
    for r in res:
        if r.get('shared'):
            v.append(('ctor_eq_setter', site, 'shared object', 'two models built without a parameter object of their own share ONE TemperatureParameters object: the setter of the second changes the schedule of the first'))
            break
    for r in res:
        if r.get('stable') is False:
            v.append(('schedule_value', site, 'changed by a later specification',
                      '%s schedule (%s route, %s arguments) evaluates differently after the same arguments were used for another specification'
                      % (spec['kind'], r['route'], spec.get('container', 'list'))))
            break
    v += res[0].get('arg_hits', [])
    if pkg == 'precip':
        want = spec['kind'] == 'const'
        for r in res:
            if r['flag'] is not want and not any(x[0] == 'ctor_eq_setter' and x[2] == 'flag' for x in v):
                v.append(('isothermal_flag', site, 'flag', '%s schedule through the %s route is treated as %s' % (spec['kind'], r['route'], 'isothermal' if r['flag'] else 'non-isothermal')))
                break
    return v


def gen_sched_case(rng):
    spec = gen_spec(rng)
    prev = gen_spec(rng, exact=spec['exact'])
    pkg = str(rng.choice(['precip', 'diff'], p=[0.6, 0.4]))
    times = gen_times(rng, spec)
    z = [float(x) for x in (rng.integers(0, 8, int(rng.integers(1, 5))) / 8.0 if spec['exact'] else rng.uniform(0, 1e-3, int(rng.integers(1, 5))))]
    return {'type': 'sched', 'spec': spec, 'prev': prev, 'pkg': pkg, 'times': times, 'z': z}


def run_sched_case(case):
    """all routes with the SAME argument objects, one after the other; afterwards every object is evaluated again
    (a specification made later must not change one made earlier) and the arguments are inspected"""
    pkg, times, z = case['pkg'], case['times'], case['z']
    with shared_args() as pool:
        res = [eval_route(pkg, case['spec'], r, case['prev'], times, z) for r in ROUTES]
        for r in res:
            tp = r.pop('tp', None)
            if r['err'] is None:
                try:
                    again = [float(tp(t)) for t in times] if pkg == 'precip' else [[float(v) for v in np.atleast_1d(tp(np.array(z), t))] for t in times]
                except Exception as e:
                    again = type(e).__name__
                r['stable'] = again == r['vals']
        arg_hits = args_oracle(pool, lambda k: SITE_TP if k == 'precip' else SITE_DTP)
    if res:
        res[0]['arg_hits'] = arg_hits
    return res


def sched_terms(case, res):
    """Coq terms, one per route"""
    spec, pkg, times, z = case['spec'], case['pkg'], case['times'], case['z']
    rt = RT0 if spec.get('exact') else RT
    terms = []
    for r in res:
        if pkg == 'precip':
            pts = '[' + '; '.join('(%s, %s)' % (qlit(t), qlit(x)) for t, x in zip(times, r['vals'])) + ']'
            terms.append('sched_case %s %s %s' % (rt, coq_tp(spec, r['route'], case['prev']), pts))
        else:
            pts = '[' + '; '.join('(%s, %s)' % (qlit(t), qlist(x)) for t, x in zip(times, r['vals'])) + ']'
            terms.append('map (fun sv => dsched_case %s %s %s (fst sv) (snd sv)) %s' % (rt, coq_dk(spec, r['route'], case['prev']), qlist(z), pts))
    return terms


def sched_compare(case, res, mods):
    dis = []
    for r, m in zip(res, mods):
        if case['pkg'] == 'precip':
            flag, call, bad = m
            if flag != r['flag']:
                dis.append('%s route: _isIsothermal implementation %r, model %r' % (r['route'], r['flag'], flag))
            if not call:
                dis.append('%s route: model object is not callable' % r['route'])
            if bad is not None:
                i = bad[1]
                dis.append('%s route: T(%r s) implementation %r differs from the model' % (r['route'], case['times'][i], r['vals'][i]))
        else:
            for i, (samelen, bad) in enumerate(m):
                if not samelen:
                    dis.append('%s route: model returns another number of node temperatures at t=%r' % (r['route'], case['times'][i]))
                if bad is not None:
                    dis.append('%s route: T(z, %r s) implementation %r differs from the model' % (r['route'], case['times'][i], r['vals'][i]))
    return dis


# ------------------------------------------------------------------------------------------
# instrumented precipitation model (b), (c)
class LogStub(stubs.StubBinary):
    hook = None

    def getInterfacialComposition(self, T, gExtra=0, precPhase=None):
        r = stubs.StubBinary.getInterfacialComposition(self, T, gExtra, precPhase)
        if self.hook is not None:
            self.hook(float(np.atleast_1d(T)[0]), np.ndim(gExtra) == 0, int(np.size(gExtra)), precPhase, r)
        return r

    def inv_xeq(self, x, ph):
        """temperature at which the planar equilibrium composition x was computed (closed form)"""
        xb, H, S = self.P[ph]
        return -H / (GAS * (math.log(x) - S))


class ProxyTherm:
    """forwards to a real (pycalphad-backed) BinaryThermodynamics and reports every interfacial-composition
    query to the hook, like LogStub"""
    hook = None

    def __init__(self, real):
        self.__dict__['_real'] = real

    def __getattr__(self, name):
        return getattr(self.__dict__['_real'], name)

    def getInterfacialComposition(self, T, gExtra=0, precPhase=None):
        r = self._real.getInterfacialComposition(T, gExtra, precPhase=precPhase)
        if self.hook is not None and r is not None and r[0] is not None:
            self.hook(float(np.atleast_1d(T)[0]), np.ndim(gExtra) == 0, int(np.size(gExtra)), precPhase, r)
        return r

    def inv_xeq(self, x, ph):
        return None


def alzr_backend():
    """a FRESH backend for every run: the pycalphad-backed object keeps caches between queries (property
    C09), two runs sharing one would not be comparable bit for bit"""
    from kawin.tests.datasets import ALZR_TDB
    from kawin.thermo import BinaryThermodynamics
    th = BinaryThermodynamics(ALZR_TDB, ['AL', 'ZR'], ['FCC_A1', 'AL3ZR'], drivingForceMethod='tangent')
    th.setDFSamplingDensity(2000)
    th.setEQSamplingDensity(500)
    th.setDiffusivity(lambda T: 0.0768 * np.exp(-242000 / (8.314 * T)), 'FCC_A1')
    return th


def make_alzr(cfg, tp_route):
    """the Al-Zr example of the kawin test suite (real CALPHAD backend), schedule from cfg"""
    from kawin.precipitation import PrecipitateModel, VolumeParameter, TemperatureParameters
    spec = cfg['spec']
    with quiet():
        if tp_route == 'ctor':
            m = PrecipitateModel(phases=['AL3ZR'], elements=['ZR'], temperatureParameters=TemperatureParameters(*spec_args(spec)))
        else:
            m = PrecipitateModel(phases=['AL3ZR'], elements=['ZR'])
            m.setTemperature(*spec_args(spec))
    m.setPBMParameters(cMin=1e-10, cMax=1e-8, bins=75, minBins=50, maxBins=100)
    m.setInitialComposition(4e-3)
    m.setInterfacialEnergy(0.1)
    a = 0.405e-9
    m.setVolumeAlpha(a ** 3, VolumeParameter.ATOMIC_VOLUME, 4)
    m.setVolumeBeta(a ** 3, VolumeParameter.ATOMIC_VOLUME, 4)
    m.setNucleationDensity(grainSize=1, dislocationDensity=1e15)
    m.setNucleationSite('dislocations')
    if cfg.get('constraints'):
        m.setConstraints(**cfg['constraints'])
    st = ProxyTherm(alzr_backend())
    m.setThermodynamics(st)
    return m, st


def make_model(cfg, tp_route='setter'):
    """PrecipitateModel on the stub backend; the schedule goes in through the constructor parameter
    object or through setTemperature"""
    from kawin.precipitation import PrecipitateModel, VolumeParameter, TemperatureParameters
    if cfg.get('backend') == 'alzr':
        return make_alzr(cfg, tp_route)
    phases = list(cfg.get('phases', ['B1']))
    spec = cfg['spec']
    with quiet():
        if tp_route == 'ctor':
            m = PrecipitateModel(phases=phases, elements=['B'], temperatureParameters=TemperatureParameters(*spec_args(spec)))
        else:
            m = PrecipitateModel(phases=phases, elements=['B'])
            m.setTemperature(*spec_args(spec))
    cmin, cmax, nb, minb, maxb = cfg.get('bins', (1e-10, 1e-8, 30, 20, 40))
    m.setPBMParameters(cMin=cmin, cMax=cmax, bins=nb, minBins=minb, maxBins=maxb, adaptive=cfg.get('adaptive', True))
    m.setInitialComposition(cfg.get('x0', 2e-2))
    a = 0.4e-9
    m.setVolumeAlpha(a ** 3, VolumeParameter.ATOMIC_VOLUME, 4)
    gam = cfg.get('gammas', [0.15, 0.13, 0.16])
    for i, p in enumerate(phases):
        m.setInterfacialEnergy(gam[i], phase=p)
        m.setVolumeBeta(a ** 3, VolumeParameter.ATOMIC_VOLUME, 4, phase=p)
        m.setNucleationSite('dislocations', phase=p)
    m.setNucleationDensity(grainSize=1, dislocationDensity=1e15)
    cons = dict(cfg.get('constraints', {}))
    if cons:
        m.setConstraints(**cons)
    if cfg.get('beta2'):
        m.setBetaBinary(2)
    st = LogStub(phases)
    m.setThermodynamics(st)
    return m, st


class Rig:
    """Observes the lookup table of a PrecipitateModel through instance-level wrappers (no source change):
    every _growthRateBinary call, every _createLookupBinary call, every interfacial-composition query of
    the backend (with its temperature), every record."""
    def __init__(self, cfg, tp_route='setter'):
        self.cfg = cfg
        self.m, self.st = make_model(cfg, tp_route)
        m = self.m
        self.phases = [str(p) for p in m.phases]
        self.maxdT = float(m.constraints.maxTempChange)
        self.events = []              # (op tuple, obs dict)
        self.ent = [[] for _ in self.phases]
        self.planar = {}              # (phase index, value) -> set of temperatures
        self.in_create = self.in_growth = self.in_psd = 0
        self.started = False
        self.T0 = None
        self.sizes0 = None
        self.hits = []                # oracle: (clause, cls, message, event index)
        self.worst = 0.0
        self.rebuilds = 0
        self.st.hook = self._ic
        self._wrap()

    # -- backend queries
    def _ic(self, T, planar, n, phase, result):
        p = self.phases.index(phase)
        if planar:
            if self.in_create:
                val = float(np.atleast_1d(result[0])[0])
                self.planar.setdefault((p, val), set()).add(T)
            return
        if self.in_create:
            self.ent[p] = [T] * n
        elif self.in_psd:
            newlen = int(self.m.PBM[p].bins) + 1
            a = newlen - n
            self.ent[p] = self.ent[p][:a] + [T] * n
            self._emit(('RE', p, a, newlen))
        # other queries (betaBinary1 asks for the planar composition at the current temperature) do not
        # touch the table

    def _wrap(self):
        m = self.m
        orig_create, orig_growth, orig_psd = m._createLookupBinary, m._growthRateBinary, m._updateParticleSizeDistribution

        def create(T):
            self.in_create += 1
            try:
                r = orig_create(T)
            finally:
                self.in_create -= 1
            built = set(e[0] for e in self.ent if e)
            self.table_T = built.pop() if len(built) == 1 else float(T)
            if self.in_growth:
                self.rebuilt = True
            elif not self.started:
                self.started = True
                self.T0 = float(T)
                self.sizes0 = [len(e) for e in self.ent]
            else:
                self._emit(('RF', [len(e) for e in self.ent]))
            return r

        def growth(Y):
            T = float(Y.temperature[0])
            self.in_growth += 1
            self.rebuilt = False
            try:
                g, Y2 = orig_growth(Y)
            finally:
                self.in_growth -= 1
            if self.rebuilt:
                self.rebuilds += 1
            self._emit(('G', T), out=np.array(Y2.xEqAlpha, dtype=float).copy())
            return g, Y2

        def psd(t, x):
            self.in_psd += 1
            try:
                return orig_psd(t, x)
            finally:
                self.in_psd -= 1
        m._createLookupBinary, m._growthRateBinary, m._updateParticleSizeDistribution = create, growth, psd
        self._wrap_pdata()

    def _wrap_pdata(self):
        pd = self.m.pData
        orig_app, orig_set = pd.appendToArrays, pd.setSlice

        def app(newData):
            orig_app(newData)
            self._emit(('Rc',))

        def sets(sliceData, N=0):
            orig_set(sliceData, N)
            self._emit(('Rc',))
        pd.appendToArrays, pd.setSlice = app, sets

    def restart(self):
        """model.reset() (the way TTPCalculator and parameter sweeps re-use a model): results are dropped, the
        configuration stays; observation starts again"""
        m = self.m
        with quiet():
            m.reset()
        cmin, cmax, nb, minb, maxb = self.cfg.get('bins', (1e-10, 1e-8, 30, 20, 40))
        m.setPBMParameters(cMin=cmin, cMax=cmax, bins=nb, minBins=minb, maxBins=maxb, adaptive=self.cfg.get('adaptive', True))
        self.events, self.ent, self.planar = [], [[] for _ in self.phases], {}
        self.started, self.T0, self.sizes0, self.hits, self.worst, self.rebuilds = False, None, None, [], 0.0, 0
        self.table_T = None
        self._wrap_pdata()

    # -- observation + oracle after every operation
    def _emit(self, op, out=None):
        m = self.m
        # temperature of the table in use: the temperature of the backend queries of the last complete build (what the
        # user-supplied thermodynamics object saw), not a private attribute of the model
        lk = getattr(self, 'table_T', None)
        dT = getattr(m, 'dTemp', None)
        if dT is None and lk is not None and op[0] == 'G':
            dT = op[1] - lk
        obs = {'dTemp': float(dT or 0.0), 'lookup': None if lk is None else float(lk),
               'tabs': [(len(e), min(e), max(e)) if e else (0, 0.0, 0.0) for e in self.ent], 'out': None}
        k = len(self.events)
        if op[0] == 'G':
            T = op[1]
            cands = None
            for p in range(len(self.phases)):
                val = float(out[0, p, 0])
                c = self.planar.get((p, val))
                if c is None:
                    if val == 0.0:
                        continue          # backend reported no two-phase equilibrium: nothing was tabulated
                    c = set()
                cands = set(c) if cands is None else (cands & c)
            if cands is not None:
                obs['out'] = (min(cands), max(cands)) if cands else (1.0, 0.0)
            # oracle, from the property text: every tabulated composition in use for this growth rate and the
            # equilibrium compositions handed to the step were computed within maxTempChange of T
            lim = self.maxdT * (1 + 1e-12)
            for p, e in enumerate(self.ent):
                if e:
                    dev = max(abs(T - min(e)), abs(T - max(e)))
                    self.worst = max(self.worst, dev)
                    if dev > lim:
                        self.hits.append(('table_within_maxTempChange', 'table',
                                          'growth rate at %.6f K uses interfacial compositions of phase %s tabulated at %.6f K (maxTempChange %.6g K)'
                                          % (T, self.phases[p], min(e) if abs(T - min(e)) > abs(T - max(e)) else max(e), self.maxdT), k))
                        break
            if cands is not None:
                dev = min(abs(T - c) for c in cands) if cands else float('inf')
                if dev > lim:
                    self.hits.append(('table_within_maxTempChange', 'xeq',
                                      'equilibrium compositions handed to the step at %.6f K were computed at %s K (maxTempChange %.6g K)'
                                      % (T, sorted(cands)[:2], self.maxdT), k))
        self.events.append((op, obs))

    # -- Coq term
    def term(self, exact, chk=True):
        prev = {'lookup': 'unset', 'tabs': None}

        def ob(o):
            if o['tabs'] == prev['tabs']:
                tabs = 'None'
            else:
                tabs = '(Some [' + '; '.join('(%s, %s, %s)' % (natlit(n), qlit(lo), qlit(hi)) for n, lo, hi in o['tabs']) + '])'
            if o['lookup'] is None:
                lk = 'LkMissing'
            elif o['lookup'] == prev['lookup']:
                lk = 'LkSame'
            else:
                lk = '(LkVal %s)' % qlit(o['lookup'])
            prev['lookup'], prev['tabs'] = o['lookup'], o['tabs']
            if o['out'] is None:
                out = 'None'
            elif o['out'][0] == o['out'][1]:
                out = '(Some (%s, None))' % qlit(o['out'][0])
            else:
                out = '(Some (%s, Some %s))' % (qlit(o['out'][0]), qlit(o['out'][1]))
            return '(mkObs %s %s %s %s)' % (qlit(o['dTemp']), lk, tabs, out)

        def opt(op):
            if op[0] == 'G':
                return '(G %s)' % qlit(op[1])
            if op[0] == 'Rc':
                return 'Rc'
            if op[0] == 'RF':
                return '(RF [%s])' % '; '.join(natlit(n) for n in op[1])
            return '(RE %s %s %s)' % (natlit(op[1]), natlit(op[2]), natlit(op[3]))
        body = '[' + ';\n '.join('(%s, %s)' % (opt(o), ob(b)) for o, b in self.events) + ']'
        return 'ops_case %s %s %s [%s] %s %s' % (RT0 if exact else RT, qlit(self.maxdT), qlit(self.T0),
                                                 '; '.join(natlit(n) for n in self.sizes0), boollit(chk), body)


# ---- (b) scripted temperature sequences through the real methods -------------------------------
def gen_seq(rng, quick):
    kind = str(rng.choice(['slow', 'fast', 'cool', 'zigzag', 'hold', 'exact', 'rk', 'random', 'turn']))
    maxdT = float(rng.choice([1.0, 1.0, 0.5, 2.0, 0.25, float(rng.uniform(0.05, 5))]))
    exact = kind == 'exact'
    if exact:
        maxdT = float(rng.choice([1.0, 0.5, 2.0]))
    T0 = float(rng.integers(620, 780)) if exact else float(rng.uniform(620, 780))
    n = int(rng.integers(6, 26 if quick else 60))
    acts = []
    T = T0
    sign = float(rng.choice([-1, 1]))
    for i in range(n):
        if kind == 'slow':
            T += sign * maxdT * float(rng.uniform(0.05, 0.95))
        elif kind == 'fast':
            T += sign * maxdT * float(rng.uniform(1.05, 6))
        elif kind == 'cool':
            T += (1 if i < n // 2 else -1) * maxdT * float(rng.uniform(0.2, 1.6))
        elif kind == 'zigzag':
            T += float(rng.choice([-1, 1])) * maxdT * float(rng.uniform(0.1, 1.4))
        elif kind == 'hold':
            if rng.random() < 0.4:
                T += sign * maxdT * float(rng.uniform(0.3, 3))
        elif kind == 'exact':
            T += maxdT * float(rng.integers(-6, 7)) / 4.0        # exact ties |T - T_table| = maxTempChange occur
        elif kind == 'turn':
            # after a rebuild: creep back in steps below the limit (the unrepaired rule loses the table here)
            T += (maxdT * 1.5 if i == 0 else -maxdT * 0.6)
        else:
            T += float(rng.normal(0, 1)) * maxdT * 1.5
        T = float(min(max(T, 560.0), 860.0))
        if kind == 'rk' or (kind == 'random' and rng.random() < 0.3):
            # stage pattern of an RK step: results of all but the last call are discarded
            Th = T - sign * maxdT * float(rng.uniform(0, 0.8))
            acts += [['G', Th, False], ['G', Th, False], ['G', T, False], ['G', T, True]]
        else:
            acts.append(['G', T, True])
        r = rng.random()
        if r < 0.12:
            acts.append(['RE', int(rng.integers(0, 2)), int(rng.integers(1, 6))])
        elif r < 0.2:
            acts.append(['RF', int(rng.integers(0, 2)), int(rng.integers(8, 20)), float(rng.choice([0.5, 1.0, 2.0]))])
    nph = int(rng.choice([1, 2], p=[0.6, 0.4]))
    return {'type': 'ops', 'kind': kind, 'maxdT': maxdT, 'T0': T0, 'phases': ['B1', 'B2'][:nph], 'acts': acts, 'exact': exact,
            'bins': int(rng.integers(6, 16))}


def run_seq(case):
    """drive the real methods with the scripted operations"""
    nb = case['bins']
    cfg = {'spec': {'kind': 'const', 'T': case['T0']}, 'phases': case['phases'], 'bins': (1e-10, 5e-9, nb, nb, 4 * nb),
           'constraints': {'maxTempChange': case['maxdT']}}
    rig = Rig(cfg)
    m = rig.m
    with quiet():
        m.setup()
    P = len(rig.phases)
    for a in case['acts']:
        n = m.pData.n
        if a[0] == 'G':
            Y = m.pData.copySlice(n)
            Y.time = np.array([m.pData.time[n] + 1.0])
            Y.temperature = np.array([a[1]])
            m.growth, Y = m._growthRate(Y)
            if a[2]:
                m._appendArrays(Y)
        else:
            p = a[1] % P
            pbm = m.PBM[p]
            if a[0] == 'RE':
                def scripted(check=False, pbm=pbm, k=a[2]):
                    nb0 = pbm.bins
                    pbm.addSizeClasses(k)
                    return True, nb0
            else:
                def scripted(check=False, pbm=pbm, nbins=a[2], f=a[3]):
                    pbm.changeSizeClasses(pbm.PSDbounds[0], pbm.PSDbounds[0] + f * (pbm.PSDbounds[-1] - pbm.PSDbounds[0]), nbins)
                    return True, None
            pbm.adjustSizeClassesEuler = scripted
            try:
                m._updateParticleSizeDistribution(float(m.pData.time[n]), [np.array(m.PBM[q].PSD, dtype=float).copy() for q in range(P)])
            finally:
                del pbm.adjustSizeClassesEuler
    return rig


# ---- (c) full runs -----------------------------------------------------------------------------
def gen_run(rng, quick, force=None):
    force = force or {}
    tf = float(force.get('tf', rng.choice([30.0, 60.0, 120.0])))
    shape = str(force.get('shape', rng.choice(['slow_up', 'slow_down', 'fast_up', 'fast_down', 'hold_ramp_hold', 'up_down', 'jump', 'func', 'const'])))
    T0 = float(rng.uniform(680, 720))
    h = tf / 3600.0
    if shape in ('slow_up', 'slow_down'):
        d = float(rng.uniform(2, 6)) * (1 if shape == 'slow_up' else -1)
        spec = {'kind': 'table', 'hours': [0.0, h], 'kelvin': [T0, T0 + d]}
    elif shape in ('fast_up', 'fast_down'):
        d = float(rng.uniform(30, 120)) * (1 if shape == 'fast_up' else -1)
        spec = {'kind': 'table', 'hours': [0.0, h], 'kelvin': [T0, T0 + d]}
    elif shape == 'hold_ramp_hold':
        d = float(rng.uniform(-40, 40))
        spec = {'kind': 'table', 'hours': [0.0, h / 4, h / 2, h], 'kelvin': [T0, T0, T0 + d, T0 + d]}
    elif shape == 'up_down':
        d = float(rng.uniform(3, 30))
        spec = {'kind': 'table', 'hours': [0.0, h / 3, 2 * h / 3, h], 'kelvin': [T0, T0 + d, T0 - d / 2, T0]}
    elif shape == 'jump':
        d = float(rng.uniform(-15, 15))
        spec = {'kind': 'table', 'hours': [0.0, h / 2, h / 2, h], 'kelvin': [T0, T0 + 1.5, T0 + 1.5 + d, T0 + d]}
    elif shape == 'func':
        spec = {'kind': 'func', 'a': T0, 'b': float(rng.uniform(-20, 20)) / tf, 'c': float(rng.uniform(-10, 10)) / tf ** 2}
    else:
        spec = {'kind': 'const', 'T': T0}
    cons = {'maxTempChange': float(rng.choice([1.0, 1.0, 0.5, 2.0, 5.0]))}
    r = rng.random()
    if r < 0.25:
        cons['maxNonIsothermalDT'] = float(rng.choice([0.25, 5.0]))
    elif r < 0.4:
        cons['checkTemperature'] = False
    elif r < 0.5:
        cons['maxDTFraction'] = 0.02
    cfg = {'type': 'run', 'shape': shape, 'spec': spec, 'tf': tf, 'constraints': cons,
           'phases': ['B1', 'B2'][:int(rng.choice([1, 2], p=[0.7, 0.3]))],
           'solver': str(force.get('solver', rng.choice(['euler', 'euler', 'euler', 'rk4']))),
           'maxsteps': int(force.get('maxsteps', 220 if quick else 1500)),
           'bins': [1e-10, 1e-8, 30, 20, 40] if quick else [1e-10, 1e-8, 75, 50, 100],
           'beta2': False}
    cfg.update({k: v for k, v in force.items() if k in ('spec', 'constraints', 'phases')})
    if cfg['solver'] == 'rk4':
        cfg['maxsteps'] = min(cfg['maxsteps'], 100 if quick else 400)      # four growth-rate calls per step
    return cfg


LATER_HOWS = ('model', 'param', 'generic', 'object')


def apply_spec(m, pkg, spec, how):
    """change the temperature specification of an existing model between two solve() calls:
    'model'   the model's setter(s),            'param'   the kind-specific setter of the parameter object,
    'generic' setTemperatureParameters(*args)   'object'  a new parameter object (as the constructor takes it)"""
    args = spec_args(spec, pkg)
    k = spec['kind']
    if pkg == 'precip':
        from kawin.precipitation import TemperatureParameters as TP
        tp = m.temperatureParameters
        with quiet():
            if how == 'model':
                m.setTemperature(*args)
            elif how == 'param':
                {'const': tp.setIsothermalTemperature, 'table': tp.setTemperatureArray, 'func': tp.setTemperatureFunction}[k](*args)
            elif how == 'generic':
                tp.setTemperatureParameters(*args)
            else:
                m.temperatureParameters = TP(*args)
    else:
        from kawin.diffusion.DiffusionParameters import TemperatureParameters as DTP
        tp = m.temperatureParameters
        if how == 'model':
            {'const': m.setTemperature, 'table': m.setTemperatureArray, 'func': m.setTemperatureFunction}[k](*args)
        elif how in ('param', 'generic'):
            {'const': tp.setIsothermalTemperature, 'table': tp.setTemperatureArray, 'func': tp.setTemperatureFunction}[k](*args)
        else:
            m.temperatureParameters = DTP(*args)


def stages_of(cfg):
    return cfg['stages'] if 'stages' in cfg else [{'spec': cfg['spec'], 'dt': cfg['tf']}]


def coq_tp_stages(stages, hows):
    """Coq terms (tparams Qops) of the parameter object in force in each stage"""
    out = []
    for k, (st, how) in enumerate(zip(stages, hows)):
        if k == 0:
            out.append(coq_tp(st['spec'], 'ctor' if how == 'ctor' else 'setter'))
        elif how == 'object':
            out.append('(ctor Qops %s)' % coq_args(st['spec']))
        else:
            out.append('(setTemperatureParameters Qops %s %s)' % (out[-1], coq_args(st['spec'])))
    return out


def run_model(cfg, route, hows=None):
    """one observed run = one solve() call per stage, the temperature specification changed in between
    (a plain run has one stage); returns dict with the recorded arrays, the rig and the oracle hits"""
    from kawin.solver.Iterators import ExplicitEulerIterator, RK4Iterator
    stages = stages_of(cfg)
    hows = [route] + list(hows or ['model'] * (len(stages) - 1))
    first = cfg.get('first') if route == 'setter' else None
    rig = Rig(dict(cfg, spec=first['spec'] if first else stages[0]['spec']), route)
    m, st = rig.m, rig.st
    if first:
        # history on ONE model (TTPCalculator / parameter sweep pattern): solve with another specification, reset(),
        # new specification through a setter, solve - must equal the run of a fresh model given the final specification
        try:
            with quiet():
                m.solve(first['tf'], solverType=ExplicitEulerIterator if cfg['solver'] == 'euler' else RK4Iterator, verbose=False)
        except Exception:
            pass
        rig.restart()
        apply_spec(m, 'precip', stages[0]['spec'], first.get('how', 'model'))
    bystander = None
    if route == 'setter':
        # a second model alive in the same process, built the same way and given ANOTHER schedule afterwards
        T_other = 655.0 + 3.0 * len(stages)
        bystander = make_model(dict(cfg, backend=None, phases=['B1'], spec={'kind': 'table', 'hours': [0.0, 1.0], 'kelvin': [T_other, T_other + 90.0]}), 'setter')
    maxdT = rig.maxdT
    hits = []
    count = [0]

    class Obs:
        def updateCoupledModel(self, model):
            n = model.pData.n
            Tn = float(model.pData.temperature[n])
            lim = maxdT * (1 + 1e-12)
            # every tabulated composition in use at the end of the step
            for p, e in enumerate(rig.ent):
                if e and max(abs(Tn - min(e)), abs(Tn - max(e))) > lim and not any(h[1] == 'table' for h in hits):
                    hits.append(('table_within_maxTempChange', 'table',
                                 'step %d at %.6f K: interfacial compositions of phase %s were tabulated at %.6f .. %.6f K (maxTempChange %.6g K)'
                                 % (n, Tn, rig.phases[p], min(e), max(e), maxdT)))
            # the recorded equilibrium composition, temperature recovered from the closed form of the backend
            for p, ph in enumerate(rig.phases):
                x = float(model.pData.xEqAlpha[n, p, 0])
                Te = st.inv_xeq(x, ph) if x > 0 else None
                if Te is not None:
                    rig.worst = max(rig.worst, abs(Te - Tn))
                    if abs(Te - Tn) > lim + 1e-6 and not any(h[1] == 'xeq' for h in hits):
                        hits.append(('table_within_maxTempChange', 'xeq',
                                     'step %d at %.6f K: recorded xEqAlpha of phase %s is the equilibrium composition at %.6f K (maxTempChange %.6g K)'
                                     % (n, Tn, ph, Te, maxdT)))
            count[0] += 1
            if count[0] >= cfg['maxsteps']:
                raise StopRun()
    m.addCouplingModel(Obs())
    err = None
    bounds, flags = [], []
    for k, stg in enumerate(stages):
        if k > 0:
            try:
                apply_spec(m, 'precip', stg['spec'], hows[k])
            except Exception as e:
                err = type(e).__name__ + ': ' + str(e)
                break
        count[0] = 0
        try:
            with quiet():
                m.solve(stg['dt'], solverType=ExplicitEulerIterator if cfg['solver'] == 'euler' else RK4Iterator, verbose=False)
        except StopRun:
            pass
        except Exception as e:
            err = type(e).__name__ + ': ' + str(e)
            break
        bounds.append(int(m.pData.n))
        flags.append(getattr(m.temperatureParameters, '_isIsothermal', None))
    n = m.pData.n
    out = {'rig': rig, 'err': err, 'n': n, 'flag': flags[-1] if flags else None, 'flags': flags, 'bounds': bounds, 'hows': hows, 'bystander': bystander,
           'data': {k: np.array(getattr(m.pData, k)[:n + 1]).copy() for k in m.pData.ATTRIBUTES}}
    # the recorded temperature is the schedule IN FORCE when the step was made, at the recorded time
    # (step 0: setup, first specification; steps bounds[k-1]+1 .. bounds[k]: specification of stage k)
    tt, TT = out['data']['time'], out['data']['temperature']
    lo_i = 0
    for k, nb in enumerate(bounds):
        spec = stages[k]['spec']
        for i in range(lo_i, nb + 1):
            lo, hi = ref_sched(spec, float(tt[i]))
            if not (lo <= frac(float(TT[i])) <= hi):
                where = '' if len(stages) == 1 else ' (solve call %d of %d, %s specification%s)' % (
                    k + 1, len(stages), spec['kind'], '' if k == 0 else ' set through %s after a %s one' % (
                        {'model': 'model.setTemperature', 'param': 'the setter of the parameter object', 'generic': 'temperatureParameters.setTemperatureParameters',
                         'object': 'a new TemperatureParameters object'}[hows[k]], stages[k - 1]['spec']['kind']))
                hits.append(('recorded_T_is_schedule', spec['kind'] if len(stages) == 1 else '%s->%s' % (stages[k - 1]['spec']['kind'] if k else 'setup', spec['kind']),
                             'step %d%s: recorded temperature %r K at time %r s, the schedule in force gives %r K' % (i, where, float(TT[i]), float(tt[i]), float(lo))))
                break
        else:
            lo_i = nb + 1
            continue
        break
    for k, fl in enumerate(flags):
        want = stages[k]['spec']['kind'] == 'const'
        if fl is not want:
            hits.append(('isothermal_flag', 'flag', '%s schedule through the %s route%s: incubation is treated as %s'
                         % (stages[k]['spec']['kind'], {'ctor': 'constructor', 'setter': 'setter'}.get(hows[k], hows[k]),
                            '' if len(stages) == 1 else ' (solve call %d)' % (k + 1), 'isothermal' if fl else 'non-isothermal')))
            break
    out['hits'] = [(c, SITE_LK if c == 'table_within_maxTempChange' else SITE_RUN if c == 'recorded_T_is_schedule' else SITE_TP, cls, msg)
                   for (c, cls, msg) in hits]
    out['hits'] += [(c, SITE_LK, cls, msg) for (c, cls, msg, k) in rig.hits[:1] if not any(h[0] == c and h[2] == cls for h in out['hits'])]
    return out


def gen_stages(rng, quick, idx):
    """a run made of 2-3 solve() calls; the specification changes in between"""
    seqs = [('const', 'const'), ('table', 'const'), ('func', 'const'), ('const', 'table'), ('const', 'func', 'const'),
            ('table', 'table', 'const'), ('const', 'const', 'table'), ('func', 'table')]
    kinds = seqs[idx % len(seqs)]
    T = float(rng.uniform(685, 715))
    t = 0.0
    stages = []
    for k, kind in enumerate(kinds):
        dt = float(rng.choice([4.0, 8.0, 16.0])) if k == 0 else float(rng.choice([1.0, 3.0, 6.0]))
        T += float(rng.choice([-1, 1])) * float(rng.uniform(3, 12)) if k else 0.0      # the new specification starts elsewhere
        if kind == 'const':
            spec = {'kind': 'const', 'T': T}
        elif kind == 'table':
            d = float(rng.uniform(-8, 8))
            spec = {'kind': 'table', 'hours': [t / 3600.0, (t + dt / 2) / 3600.0, (t + dt) / 3600.0], 'kelvin': [T, T + d, T + d / 3]}
            T = T + d / 3
        else:
            b = float(rng.uniform(-6, 6)) / dt
            spec = {'kind': 'func', 'a': T - b * t, 'b': b, 'c': 0.0}
            T = T + b * dt
        stages.append({'spec': spec, 'dt': dt})
        t += dt
    la = [LATER_HOWS[(idx + k) % 4] for k in range(len(kinds) - 1)]
    lb = [LATER_HOWS[(idx + k + 1 + (k % 2)) % 4] for k in range(len(kinds) - 1)]
    return {'type': 'stages', 'shape': '->'.join(kinds), 'stages': stages, 'hows_a': la, 'hows_b': lb,
            'constraints': {'maxTempChange': float(rng.choice([1.0, 0.5, 2.0]))},
            'phases': ['B1', 'B2'][:int(rng.choice([1, 2], p=[0.75, 0.25]))], 'solver': 'rk4' if idx % 5 == 4 else 'euler',
            'maxsteps': (60 if idx % 5 == 4 else 150) if quick else 600, 'bins': [1e-10, 1e-8, 30, 20, 40], 'beta2': False}


def pair_oracle(cfg, a, b):
    """constructor run vs setter run: identical, bit for bit"""
    v = []
    if a['err'] or b['err']:
        if a['err'] != b['err']:
            v.append(('ctor_eq_setter', SITE_TP, 'exception', 'constructor run: %s; setter run: %s' % (a['err'], b['err'])))
        return v
    if 'spec' not in cfg:
        cfg = dict(cfg, spec={'kind': cfg['shape'] + ' (specification changed between solve calls: %s vs %s)' % (a['hows'], b['hows'])})
    if a['flag'] != b['flag'] or a.get('flags') != b.get('flags'):
        v.append(('ctor_eq_setter', SITE_TP, 'flag', '%s schedule: _isIsothermal is %r when given to the constructor and %r when given to setTemperature'
                  % (cfg['spec']['kind'], a.get('flags', a['flag']), b.get('flags', b['flag']))))
    if a['n'] != b['n']:
        v.append(('ctor_eq_setter', SITE_TP, 'run', '%s schedule: the constructor run has %d steps, the setter run %d' % (cfg['spec']['kind'], a['n'], b['n'])))
    else:
        for k in a['data']:
            if not np.array_equal(a['data'][k], b['data'][k], equal_nan=True):
                i = int(np.argmax(np.any(np.reshape(a['data'][k] != b['data'][k], (a['n'] + 1, -1)), axis=1)))
                v.append(('ctor_eq_setter', SITE_TP, 'run', '%s schedule: constructor and setter runs differ in pData.%s from step %d on (%r vs %r)'
                          % (cfg['spec']['kind'], k, i, np.ravel(a['data'][k][i])[0], np.ravel(b['data'][k][i])[0])))
                break
    return v


def recs_term(cfg, out):
    """several solve calls: per segment the object in force and the (time, temperature) records"""
    stages = stages_of(cfg)
    tps = coq_tp_stages(stages, out['hows'])
    tt = [float(x) for x in out['data']['time']]
    TT = [float(x) for x in out['data']['temperature']]
    segs, lo = [], 1
    for k, nb in enumerate(out['bounds']):
        segs.append('(%s, [%s])' % (tps[k], '; '.join('(%s, %s)' % (qlit(tt[i]), qlit(TT[i])) for i in range(lo, nb + 1))))
        lo = nb + 1
    return 'recs_case %s %s %s %s [%s]' % (RT, tps[0], qlit(tt[0]), qlit(TT[0]), ';\n '.join(segs))


def rec_term(cfg, route, out):
    return 'rec_case %s %s %s %s' % (RT, coq_tp(cfg['spec'], route), qlist([float(x) for x in out['data']['time']]),
                                     qlist([float(x) for x in out['data']['temperature']]))


# ---- (d) diffusion -----------------------------------------------------------------------------
class LogTable:
    """stands in for model.hashTable: never caches, logs the temperature of every query"""
    def __init__(self):
        self.log = []

    def retrieveFromHashTable(self, x, T):
        self.log.append(float(T))
        return None

    def addToHashTable(self, x, T, v):
        pass

    def clearCache(self):
        pass

    def setHashSensitivity(self, s):
        pass


class StubDiff:
    def clearCache(self):
        pass

    def getInterdiffusivity(self, x, T, phase=None):
        return 1e-9 * math.exp(-3000.0 / T) * (1 + float(np.atleast_1d(x)[0]))


def gen_diff(rng):
    spec = gen_spec(rng, exact=False)
    if spec['kind'] == 'table':
        # put the break points inside the run
        n = len(spec['hours'])
        spec['hours'] = [float(x) for x in np.sort(rng.uniform(0, 40.0 / 3600, n))]
    if spec['kind'] == 'func':
        spec.update(b=float(rng.uniform(-1, 1)), c=float(rng.uniform(-1e4, 1e4)))
    return {'type': 'diff', 'spec': spec, 'N': int(rng.integers(4, 12)), 'tf': 40.0}


def run_diff(cfg, route, hows=None):
    from kawin.diffusion import SinglePhaseModel
    from kawin.diffusion.DiffusionParameters import TemperatureParameters as DTP
    stages = stages_of(cfg)
    hows = [route] + list(hows or ['model'] * (len(stages) - 1))
    spec = stages[0]['spec']
    args = spec_args(spec, 'diff')
    if route == 'ctor':
        m = SinglePhaseModel([0, 1e-4], cfg['N'], ['A', 'B'], ['P'], thermodynamics=StubDiff(), temperatureParameters=DTP(*args), record=False)
    else:
        m = SinglePhaseModel([0, 1e-4], cfg['N'], ['A', 'B'], ['P'], thermodynamics=StubDiff(), record=False)
        {'const': m.setTemperature, 'table': m.setTemperatureArray, 'func': m.setTemperatureFunction}[spec['kind']](*args)
    m.setCompositionStep(0.1, 0.4, 0.5e-4, 'B')
    if cfg.get('first') and route == 'setter':
        # history on one model: solve with another specification, reset(), final specification, solve
        m2 = m
        apply_spec(m2, 'diff', cfg['first']['spec'], 'model')
        try:
            with quiet():
                m2.solve(cfg['first']['tf'], verbose=False)
        except Exception:
            pass
        m2.reset()
        apply_spec(m2, 'diff', spec, cfg['first'].get('how', 'model'))
    bystander = None
    if route == 'setter':
        bystander = SinglePhaseModel([0, 1e-4], cfg['N'], ['A', 'B'], ['P'], thermodynamics=StubDiff(), record=False)
        bystander.setTemperatureArray([0.0, 1.0], [411.0, 512.0])
    m.hashTable = LogTable()
    calls = []
    stage = [0]
    orig = m._getFluxes

    def gf(t, x):
        i0 = len(m.hashTable.log)
        r = orig(t, x)
        calls.append((float(t), list(m.hashTable.log[i0:]), stage[0]))
        return r
    m._getFluxes = gf
    err = None
    for k, stg in enumerate(stages):
        stage[0] = k
        try:
            if k > 0:
                apply_spec(m, 'diff', stg['spec'], hows[k])
            with quiet():
                m.solve(stg['dt'], verbose=False)
        except Exception as e:
            err = type(e).__name__ + ': ' + str(e)
            break
    return {'err': err, 'calls': calls, 'z': [float(x) for x in m.z], 'x': np.array(m.x, dtype=float).copy(), 'hows': hows, 'bystander': bystander}


def gen_dstages(rng, idx):
    seqs = [('const', 'const'), ('table', 'const'), ('const', 'func'), ('func', 'const', 'table')]
    kinds = seqs[idx % len(seqs)]
    T, t, stages = float(rng.uniform(700, 900)), 0.0, []
    for k, kind in enumerate(kinds):
        dt = float(rng.choice([10.0, 20.0]))
        T += float(rng.choice([-1, 1])) * float(rng.uniform(20, 80)) if k else 0.0
        if kind == 'const':
            spec = {'kind': 'const', 'T': T}
        elif kind == 'table':
            d = float(rng.uniform(-50, 50))
            spec = {'kind': 'table', 'hours': [t / 3600.0, (t + dt) / 3600.0], 'kelvin': [T, T + d]}
            T += d
        else:
            b = float(rng.uniform(-40, 40)) / dt
            spec = {'kind': 'func', 'a': T - b * t, 'b': b, 'c': float(rng.uniform(-1e4, 1e4))}
            T += b * dt
        stages.append({'spec': spec, 'dt': dt})
        t += dt
    three = ('model', 'param', 'object')
    return {'type': 'dstages', 'shape': '->'.join(kinds), 'stages': stages, 'N': int(rng.integers(4, 10)),
            'hows_a': [three[(idx + k) % 3] for k in range(len(kinds) - 1)], 'hows_b': [three[(idx + k + 1) % 3] for k in range(len(kinds) - 1)]}


def diff_oracle(cfg, a, b):
    v = []
    stages = stages_of(cfg)
    for name, r in (('constructor', a), ('setter', b)):
        if r['err']:
            v.append(('diffusion_schedule', SITE_DTP, 'exception', '%s run: %s' % (name, r['err'])))
            return v
        for (t, Ts, k) in r['calls']:
            spec = stages[k]['spec']
            if len(stages) > 1:
                name = '%s run, solve call %d of %d, %s specification%s,' % (name.split(' run')[0], k + 1, len(stages), spec['kind'], '' if k == 0 else ' set through ' + r['hows'][k])
            if len(Ts) != len(r['z']):
                v.append(('diffusion_schedule', SITE_DTP, 'shape', '%s run: %d temperatures used for %d nodes at t=%r' % (name, len(Ts), len(r['z']), t)))
                return v
            for j, T in enumerate(Ts):
                lo, hi = ref_sched(spec, t, False, r['z'][j] if spec['kind'] == 'func' else None)
                if not (lo <= frac(T) <= hi):
                    v.append(('diffusion_schedule', SITE_DTP, spec['kind'] if len(stages) == 1 else '%s->%s' % (stages[k - 1]['spec']['kind'] if k else 'setup', spec['kind']),
                              '%s run: node %d uses %r K at t=%r s, the schedule in force gives %r K' % (name, j, T, t, float(lo))))
                    return v
    if not np.array_equal(a['x'], b['x']) or [c[0] for c in a['calls']] != [c[0] for c in b['calls']]:
        v.append(('ctor_eq_setter', SITE_DTP, 'run', '%s schedule: constructor and setter diffusion runs end with different profiles' % (cfg['spec']['kind'] if 'spec' in cfg else cfg['shape'])))
    return v


def fluxes_ast_check():
    """both diffusion models take the temperature of a flux evaluation from
    self.temperatureParameters(self.z, t) with t the time argument, and nowhere else; returns problems"""
    from kawin.diffusion import SinglePhaseModel, HomogenizationModel
    bad = []
    for cls in (SinglePhaseModel, HomogenizationModel):
        try:
            fn = ast.parse(textwrap.dedent(inspect.getsource(cls._getFluxes))).body[0]
        except Exception as e:
            bad.append('%s._getFluxes: source not available (%s)' % (cls.__name__, e))
            continue
        tname = fn.args.args[1].arg
        calls = [n for n in ast.walk(fn) if isinstance(n, ast.Call) and isinstance(n.func, ast.Attribute)
                 and n.func.attr == 'temperatureParameters']
        ok = len(calls) == 1 and len(calls[0].args) == 2 and not calls[0].keywords \
            and ast.unparse(calls[0].args[0]) == 'self.z' and ast.unparse(calls[0].args[1]) == tname
        assigns = [n for n in ast.walk(fn) if isinstance(n, ast.Assign) and any(isinstance(t, ast.Name) and t.id == 'T' for t in n.targets)]
        ok = ok and len(assigns) == 1 and assigns[0].value is calls[0]
        if not ok:
            bad.append('%s._getFluxes no longer reads `T = self.temperatureParameters(self.z, %s)` exactly once' % (cls.__name__, tname))
    return bad


# ------------------------------------------------------------------------------------------
# one input (generated, corpus or replay) through implementation + oracle
def set_containers(cfg, i):
    """how the break points of every table in this input are handed over (list / tuple / float array / integer array)"""
    cyc = ('f64', 'list', 'mixed', 'f64', 'tuple', 'int')
    for j, sp in enumerate([cfg['spec']] if 'spec' in cfg else [st['spec'] for st in cfg['stages']]):
        if sp['kind'] == 'table' and 'container' not in sp:
            sp['container'] = cyc[(i + j) % len(cyc)]
    return cfg


def check_input(case):
    """returns (oracle hits [(clause, site, cls, msg)], artefacts for the correspondence); every specification made
    for one input uses the same argument objects (see shared_args)"""
    t = case['type']
    if t == 'sched':
        res = run_sched_case(case)
        return sched_oracle(case, res), {'res': res}
    if t == 'ops':
        rig = run_seq(case)
        return [(c, SITE_LK, cls, msg) for (c, cls, msg, k) in rig.hits[:1]], {'rig': rig}
    with shared_args() as pool:
        if t in ('run', 'stages'):
            # the same (staged) treatment twice: first specification through the constructor object / the setter, later
            # ones through two different (equivalent) ways: every step must carry the schedule in force, the two runs
            # must be identical
            a = run_model(case, 'ctor', case.get('hows_a'))
            b = run_model(case, 'setter', case.get('hows_b'))
            hits = list(a['hits'])
            hits += [h for h in b['hits'] if not any(x[0] == h[0] and x[2] == h[2] for x in hits)]
            hits += pair_oracle(case, a, b)
        elif t in ('diff', 'dstages'):
            a = run_diff(case, 'ctor', case.get('hows_a'))
            b = run_diff(case, 'setter', case.get('hows_b'))
            hits = diff_oracle(case, a, b)
        else:
            raise ValueError('unknown input type %r' % t)
        hits += args_oracle(pool, lambda k: SITE_TP if k == 'precip' else SITE_DTP)
    return hits, {'a': a, 'b': b}


def corpus_cases():
    out = []
    p = os.path.join(VERIF, 'corpus', 'C13')
    if os.path.isdir(p):
        for f in sorted(os.listdir(p)):
            if f.endswith('.json'):
                c = json.load(open(os.path.join(p, f)))
                c['corpus'] = f
                out.append(c)
    return out


def report(ctx, case, hits):
    for (clause, site, cls, msg) in hits:
        inp = {k: v for k, v in case.items()}
        ctx.violation(clause, {'site': site, 'cls': cls},
                      {'kind': 'input' if case['type'] in ('sched', 'ops') else 'history', 'input': inp, 'observed': msg,
                       'oracle': 'independent recomputation from the property text (harness/c13.py: sched_oracle / Rig._emit / run_model / pair_oracle / diff_oracle)'},
                      msg)


def shrink_ops(case, clause, cls):
    """drop operations from the end / the front while the oracle keeps failing"""
    def fails(c):
        try:
            return any(h[0] == clause and h[2] == cls for h in check_input(c)[0])
        except Exception:
            return False
    cur = case
    changed = True
    while changed and len(cur['acts']) > 1:
        changed = False
        for i in range(len(cur['acts']) - 1, -1, -1):
            c = dict(cur)
            c['acts'] = cur['acts'][:i] + cur['acts'][i + 1:]
            if fails(c):
                cur = c
                changed = True
                break
    return cur


# ------------------------------------------------------------------------------------------
def run(ctx):
    quick = ctx.quick
    rng = ctx.rng
    ctx.cov['rule'] = ('schedule cases: kind const/table/func x package x 3 routes, exact dyadic and random; operation sequences by kind '
                       '(slow/fast/cool/zigzag/hold/exact/rk/random/turn) with scripted re-meshes; full runs by schedule shape, solver, '
                       'phases and step-size limits; a case is non-trivial when the schedule is not constant (schedule cases) / the '
                       'temperature leaves the table temperature by more than 0 (sequences, runs); distinct by hash of the input')
    tm = ctx.notes.setdefault('timing_s', {})
    t_last = [time.time()]

    def mark(name):
        tm[name] = round(time.time() - t_last[0], 1)
        t_last[0] = time.time()
    axioms, failed = ctx.prove(['C13/Properties.v', 'C13/Examples.v', 'C13/Bridge.v'])
    mark('prove')
    dis_all = []          # (case, text)
    nhits = 0

    # ---- corpus first: each input through implementation + oracle ------------------------------
    for c in corpus_cases():
        hits, art = check_input(c)
        ctx.count(c, True)
        ctx.hist('type', 'corpus:' + c['type'])
        report(ctx, c, hits)
        nhits += len(hits)

    mark('corpus')
    # ---- (a) schedules -----------------------------------------------------------------------------
    ncase = 40 if quick else 400
    cases = [c for c in corpus_cases() if c['type'] == 'sched'] + [gen_sched_case(rng) for _ in range(ncase)]
    results = [run_sched_case(c) for c in cases]
    terms, owner = [], []
    for i, (c, res) in enumerate(zip(cases, results)):
        if 'corpus' not in c:
            ctx.count(c, c['spec']['kind'] != 'const')
            ctx.hist('type', 'sched')
        ctx.hist('schedule', c['pkg'] + ':' + c['spec']['kind'] + (':exact' if c['spec']['exact'] else ''))
        hits = sched_oracle(c, res)
        report(ctx, c, hits)
        nhits += len(hits)
        if all(r['err'] is None for r in res):
            tt = sched_terms(c, res)
            terms += tt
            owner += [i] * len(tt)
        else:
            dis_all.append((c, 'implementation raised: ' + str([r['err'] for r in res if r['err']][0])))
        if i < 2:
            ctx.sample({'schedule': c['spec'], 'package': c['pkg'], 't': c['times'][:4], 'T_ctor': res[0].get('vals', [])[:4], 'flag_ctor': res[0].get('flag')})
    mods = ctx.coq_eval('sched', HEADER, terms)
    k = 0
    for i, (c, res) in enumerate(zip(cases, results)):
        if all(r['err'] is None for r in res):
            for d in sched_compare(c, res, mods[k:k + len(res)]):
                dis_all.append((c, d))
            k += len(res)

    mark('schedules')
    # ---- (b) scripted operation sequences ----------------------------------------------------------
    nseq = 70 if quick else 700
    seqs = [gen_seq(rng, quick) for _ in range(nseq)]
    rigs = []
    for c in seqs:
        rig = run_seq(c)
        rigs.append(rig)
        ctx.count(c, rig.worst > 0)
        ctx.hist('type', 'ops')
        ctx.hist('sequence', c['kind'])
        if rig.hits:
            clause, cls, msg, kk = rig.hits[0]
            small = shrink_ops(c, clause, cls)
            h2 = check_input(small)[0]
            report(ctx, small, h2 if h2 else [(clause, SITE_LK, cls, msg)])
            nhits += 1
    mark('sequences_impl')
    ctx.notes['sequence_rebuilds'] = int(sum(r.rebuilds for r in rigs))
    ctx.notes['sequence_operations'] = int(sum(len(r.events) for r in rigs))
    mods = ctx.coq_eval('ops', HEADER, [r.term(c['exact']) for c, r in zip(seqs, rigs)], shard=5)
    ties = 0
    old_like = 0
    for c, r, mo in zip(seqs, rigs, mods):
        new, old, within = mo
        if isinstance(new, tuple) and new[0] == 'NearTie':
            ties += 1
        elif new != 'Agree':
            kk = new[1]
            op, ob = r.events[kk]
            if old == 'Agree':
                old_like += 1
            dis_all.append((c, 'operation %d %r: implementation state (dTemp %r, _lookupTemp %r, table temperatures %r) differs from the repaired machine of coq/C13/Model.v%s'
                            % (kk, op, ob['dTemp'], ob['lookup'], [t[1:] for t in ob['tabs']], ' (and agrees with the unrepaired machine step_old throughout)' if old == 'Agree' else '')))
        if not within:
            dis_all.append((c, 'model machine left the maxTempChange band (contradicts C13_table_within_maxTempChange)'))
    ctx.notes['indeterminate_near_tie'] = ties

    mark('sequences_coq')
    # ---- (c) full runs -----------------------------------------------------------------------------
    shapes = ['slow_up', 'fast_down', 'hold_ramp_hold', 'up_down', 'jump', 'func', 'slow_down', 'fast_up', 'const']
    nrun = 9 if quick else 60
    runs = [gen_run(rng, quick, {'shape': shapes[i % len(shapes)], 'solver': 'rk4' if i % 4 == 3 else 'euler'}) for i in range(nrun)]
    # the Al-Zr example of the kawin test suite on its real CALPHAD backend, under a ramp
    for i in range(1 if quick else 4):
        T0 = 723.15 + float(rng.uniform(-5, 5))
        d = [6.0, -40.0, 25.0, -4.0][i] * float(rng.uniform(0.8, 1.2))
        runs.append({'type': 'run', 'shape': 'alzr_ramp', 'backend': 'alzr', 'spec': {'kind': 'table', 'hours': [0.0, 0.5, 1.0], 'kelvin': [T0, T0 + d, T0 + d / 2]},
                     'tf': 3600.0, 'constraints': {'maxTempChange': [1.0, 2.0, 0.5, 1.0][i]}, 'phases': ['AL3ZR'], 'solver': 'euler',
                     'maxsteps': 250 if quick else 1500, 'beta2': False})
    # several solve() calls with the specification changed in between (constant -> constant, schedule -> constant, ...)
    runs += [gen_stages(rng, quick, i) for i in range(6 if quick else 32)]
    runs = [set_containers(c, i) for i, c in enumerate(runs)]
    # every third treatment: the setter run is made on a model that was already used (other specification, solve, reset())
    for i, c in enumerate(runs):
        if i % 3 == 1 and c.get('backend') != 'alzr':
            Tf = 640.0 + 7.0 * i
            c['first'] = {'spec': [{'kind': 'const', 'T': Tf}, {'kind': 'table', 'hours': [0.0, 0.01], 'kelvin': [Tf, Tf + 30.0], 'container': 'f64'},
                                   {'kind': 'func', 'a': Tf, 'b': 0.5, 'c': 0.0}][(i // 3) % 3],
                          'tf': 0.5, 'how': LATER_HOWS[(i // 3) % 4]}
    terms, meta = [], []
    for c in runs:
        hits, art = check_input(c)
        a, b = art['a'], art['b']
        ctx.count(c, a['rig'].worst > 0)
        ctx.cov['traces_validated_against_impl'] += 2
        ctx.hist('type', c['type'])
        ctx.hist('run', c['shape'] + ':' + c['solver'] + ':%dph' % len(c['phases']))
        ctx.hist('containers', ','.join(sorted(set(sp.get('container', '-') for sp in ([c['spec']] if 'spec' in c else [st['spec'] for st in c['stages']]) if sp['kind'] == 'table'))) or 'no table')
        ctx.notes['run_steps'] = ctx.notes.get('run_steps', 0) + a['n'] + b['n']
        ctx.notes['run_rebuilds'] = ctx.notes.get('run_rebuilds', 0) + a['rig'].rebuilds + b['rig'].rebuilds
        report(ctx, c, hits)
        nhits += len(hits)
        # the second run of a pair that is identical to the first one (records bit for bit, same operations and
        # observations) would be the same computation in Coq again: ship it only when it differs
        same = (not a['err'] and not b['err'] and a['n'] == b['n'] and a['flags'] == b['flags']
                and all(np.array_equal(a['data'][k], b['data'][k], equal_nan=True) for k in a['data'])
                and a['rig'].events == b['rig'].events)
        ctx.notes['pairs_identical'] = ctx.notes.get('pairs_identical', 0) + int(same)
        for route, o in (('ctor', a),) if same else (('ctor', a), ('setter', b)):
            if o['err']:
                dis_all.append((c, '%s run raised %s' % (route, o['err'])))
                continue
            terms.append(o['rig'].term(False, chk=False))
            meta.append((c, route, o, 'ops'))
            terms.append(rec_term(c, route, o) if c['type'] == 'run' else recs_term(c, o))
            meta.append((c, route, o, 'rec' if c['type'] == 'run' else 'recs'))
        if len(ctx.cov['samples']) < 5:
            ctx.sample({'run': {k: c[k] for k in ('shape', 'spec', 'stages', 'hows_a', 'solver', 'constraints', 'phases') if k in c}, 'steps': a['n'],
                        'rebuilds': a['rig'].rebuilds, 'largest |T - T_table| seen (K)': a['rig'].worst})
    mark('runs_impl')
    mods = ctx.coq_eval('runs', HEADER, terms, shard=2)
    mark('runs_coq')
    for (c, route, o, what), mo in zip(meta, mods):
        if what == 'ops':
            new, old, within = mo
            if isinstance(new, tuple) and new[0] == 'NearTie':
                ties += 1
            elif new != 'Agree':
                kk = new[1]
                op, ob = o['rig'].events[kk]
                dis_all.append((c, '%s run, operation %d %r: implementation state (dTemp %r, _lookupTemp %r) differs from the repaired machine of coq/C13/Model.v%s'
                                % (route, kk, op, ob['dTemp'], ob['lookup'], ' (and agrees with the unrepaired machine step_old throughout)' if old == 'Agree' else '')))
        elif what == 'recs':
            flags, samelen, bad = mo
            if list(flags) != list(o['flags']):
                dis_all.append((c, '%s run: _isIsothermal per solve call: implementation %r, model %r' % (route, o['flags'], flags)))
            if not samelen:
                dis_all.append((c, '%s run: model records other times / another number of steps' % route))
            if bad is not None:
                i = bad[1]
                dis_all.append((c, '%s run: recorded temperature %r at step %d (t=%r) differs from the model of the schedule in force' % (route, float(o['data']['temperature'][i]), i, float(o['data']['time'][i]))))
        else:
            flag, samelen, bad = mo
            if flag != o['flag']:
                dis_all.append((c, '%s run: _isIsothermal implementation %r, model %r' % (route, o['flag'], flag)))
            if not samelen:
                dis_all.append((c, '%s run: model records another number of steps' % route))
            if bad is not None:
                i = bad[1]
                dis_all.append((c, '%s run: recorded temperature %r at step %d (t=%r) differs from the model' % (route, float(o['data']['temperature'][i]), i, float(o['data']['time'][i]))))
    ctx.notes['indeterminate_near_tie'] = ties

    # ---- (d) diffusion -----------------------------------------------------------------------------
    for msg in fluxes_ast_check():
        ctx.violation('diffusion_schedule', {'site': 'diffusion._getFluxes', 'cls': 'source'},
                      {'broken': {'tie': 'ast check of _getFluxes', 'what': msg}}, msg, no_input=True)
    for i in range(4 if quick else 30):
        c = gen_diff(rng)
        if i % 2 == 1:
            c['first'] = {'spec': {'kind': 'const', 'T': 432.0 + i}, 'tf': 5.0, 'how': ('model', 'param', 'object')[i % 3]}
        hits, art = check_input(c)
        ctx.count(c, c['spec']['kind'] != 'const')
        ctx.hist('type', 'diff')
        ctx.notes['diffusion_flux_evaluations'] = ctx.notes.get('diffusion_flux_evaluations', 0) + len(art['a']['calls']) + len(art['b']['calls'])
        report(ctx, c, hits)
        nhits += len(hits)

    for i in range(3 if quick else 16):
        c = set_containers(gen_dstages(rng, i), i)
        hits, art = check_input(c)
        ctx.count(c, True)
        ctx.hist('type', 'dstages')
        ctx.hist('run', 'diffusion:' + c['shape'])
        ctx.notes['diffusion_flux_evaluations'] = ctx.notes.get('diffusion_flux_evaluations', 0) + len(art['a']['calls']) + len(art['b']['calls'])
        report(ctx, c, hits)
        nhits += len(hits)
    mark('diffusion')
    # ---- theorems that no longer check / model no longer followed --------------------------------
    for t in failed:
        ctx.violation(t, {'site': 'coq/C13', 'cls': 'proof'}, {'broken': {'theorem': t, 'file': 'coq/C13/Properties.v, Examples.v or Bridge.v'}},
                      'theorem %s no longer checks' % t, no_input=True)
    if dis_all and nhits == 0:
        # the implementation no longer behaves like the model the theorems are about and the oracle saw
        # nothing on the standard budget: search harder before reporting without an input
        extra = []
        for _ in range(300):
            c = gen_seq(rng, quick)
            h, _a = check_input(c)
            ctx.cov['evaluations'] += 1
            if h:
                extra.append((c, h))
                break
        for _ in range(0 if extra else 6):
            c = gen_run(rng, quick)
            h, _a = check_input(c)
            ctx.cov['evaluations'] += 1
            if h:
                extra.append((c, h))
                break
        if extra:
            report(ctx, extra[0][0], extra[0][1])
        else:
            c, d = dis_all[0]
            ctx.violation('correspondence', {'site': 'coq/C13/Model.v', 'cls': c['type']},
                          {'broken': {'correspondence': 'coq/C13/Model.v vs kawin temperature handling', 'first_disagreement': d},
                           'input': c, 'disagreements': len(dis_all)},
                          'model and implementation disagree (%d cases), e.g. %s' % (len(dis_all), d), no_input=True)
    ctx.notes['disagreements'] = len(dis_all)
    ctx.notes['disagreement_examples'] = [d for _, d in dis_all[:3]]
    ctx.notes['oracle_hits'] = nhits
    ctx.notes['unrepaired_machine_matches'] = old_like
    ctx.assumptions += [
        'binary64 rounding of t/3600, of np.interp and of the user function is not modelled: the implementation value must lie in the range of the exact model over a 2^-36 relative neighbourhood of the time; exact dyadic cases are compared with zero tolerance',
        'the model tracks the TEMPERATURE at which each tabulated / equilibrium composition was computed; the harness recovers it from the backend query log (table entries) and from value identity with the logged planar queries (equilibrium compositions); compositions themselves come from the stub backend, pycalphad is not involved',
        'the refresh decision |T - T_table| > maxTempChange is compared exactly; a decision within 2^-36 of a tie in a non-dyadic case is counted as indeterminate',
        'betaBinary2 (non-default) would read the equilibrium compositions of the PREVIOUS growth-rate call when the nucleation rate of a step is computed (KWNBase._calculateDependentTerms computes nucleation before growth); it raises TypeError for every binary model on the unmodified tree (unrelated to temperature), so that one-call lag is outside the model, the oracle and the runs',
        'HomogenizationModel is tied by the ast check of _getFluxes only (no run); SinglePhaseModel by runs']
    ctx.cov['trusted_base'] += ['Coq 8.16.1 kernel and vm_compute', 'hand-written model coq/C13/Model.v (incl. the model of numpy.interp) + correspondence harness harness/c13.py',
                                'closed-form stub backend harness/stubs.py (StubBinary) and the instance-level wrappers of harness/c13.py (Rig)',
                                'float -> Q transport (float.as_integer_ratio) and output parser in harness/common.py']


def replay(ctx, obj):
    case = obj['input']
    hits, _ = check_input(case)
    for h in hits:
        print('replay:', h)
    print('replay: %d oracle violations on this input' % len(hits))
    return 1 if hits else 0
