"""C14 - nucleation quantities obey classical nucleation theory for every site type.

tie (translator): kawin/precipitation/parameters/Nucleation.py is translated to Gallina on EVERY run
                (harness/c14_translate.py -> build/C14/Nucleation_gen.v): factor formulas of the five
                descriptions, maxRatio, the validity mask, Rcrit/Gcrit, the comparison of _validateGBk
                and the reset table of the cached factors.  coq/C14/run/Bridge.v proves generated = Spec,
                run/GenProperties*.v restate the theorems for the generated text.
tie (enclosure): for sampled exact inputs the running Python functions (description methods, scalar and
                array calls; NucleationBarrierParameters.Rcrit/Gcrit; every function of
                kawin/precipitation/NucleationRate.py) are compared with the generated definitions / the
                hand model by goals  |f(x) - y| <= tol  proved by interval arithmetic in Coq.
tie (execution): _calcNucleationSites vs the exact-rational instance of the model (vm_compute); random
                sequences of setter calls and reads on NucleationBarrierParameters vs the state machine
                of Model.v executed with the generated reset table.
proof:          coq/C14/Properties.v, PropertiesAnalysis.v, run/GenPropertiesA.v, run/GenPropertiesB.v
search/oracle:  written from the property text and from the geometry of the nucleus (intersection of
                equal spheres, numerical quadrature), independent of the code under test.
"""
import json, math, copy, io, contextlib, concurrent.futures, warnings
from fractions import Fraction
import numpy as np
from common import *
import c14_translate as tr

LEVEL = 'proof'
SITES = ['bulk', 'dislocations', 'grain boundaries', 'grain edges', 'grain corners']
SHORT = {'bulk': 'Bulk', 'dislocations': 'Dislocation', 'grain boundaries': 'GrainBoundary',
         'grain edges': 'GrainEdge', 'grain corners': 'GrainCorner'}
COQSITE = {'bulk': 'Bulk', 'dislocations': 'Disl', 'grain boundaries': 'GB', 'grain edges': 'Edge', 'grain corners': 'Corner'}
GBSITES = SITES[2:]
FACTORS = ['areaFactor', 'gbRemoval', 'volumeFactor', 'areaRemoval']
NSRC = 'kawin/precipitation/parameters/Nucleation.py'
KB = 8.314 / 6.022e23
NAV = 6.022e23


def kmax_of(site):
    return {'grain boundaries': 1.0, 'grain edges': math.sqrt(3) / 2, 'grain corners': math.sqrt(2 / 3)}.get(site, math.inf)


# ==========================================================================================
# access to the implementation
def impl():
    import kawin.precipitation.parameters.Nucleation as N
    import kawin.precipitation.NucleationRate as NR
    from kawin.precipitation import PrecipitateParameters, MatrixParameters
    return N, NR, PrecipitateParameters, MatrixParameters


def description(site):
    N = impl()[0]
    return {'bulk': N.BulkDescription, 'dislocations': N.DislocationDescription, 'grain boundaries': N.GrainBoundaryDescription,
            'grain edges': N.GrainEdgeDescription, 'grain corners': N.GrainCornerDescription}[site]()


def quiet(fn, *a, **k):
    with warnings.catch_warnings():
        warnings.simplefilter('ignore')
        with np.errstate(all='ignore'):
            return fn(*a, **k)


def make_prec(c):
    """PrecipitateParameters for a 'cnt' / 'params' case"""
    _, _, PP, MP = impl()
    p = PP('beta')
    p.gamma = c['gamma']
    p.volume.setVolume(c.get('Vm', 1e-5), 'VM', 4)
    p.Rmin = c.get('Rmin', 3e-10)
    p.nucleation.gbEnergy = c['gbEnergy']
    p.nucleation.setNucleationType(c['site'])
    return p


def make_matrix(c):
    MP = impl()[3]
    m = MP(['B'])
    m.volume.setVolume(c.get('VmAlpha', 1e-5), 'VM', 4)
    m.theta = c.get('theta', 2)
    return m


class StubTherm:
    """prescribed driving force and tracer diffusivities (binary)"""
    numElements = 2

    def __init__(self, dG, D0, D1, xa, xb):
        self.dG, self.D0, self.D1, self.xa, self.xb = np.atleast_1d(np.array(dG, dtype=float)), D0, D1, xa, xb

    def getDrivingForce(self, x, T, precPhase=None, removeCache=False, **k):
        n = len(np.atleast_1d(T))
        dg = self.dG if len(self.dG) == n else np.repeat(self.dG, n)[:n]
        return np.squeeze(dg.copy()), np.squeeze(self.xb * np.ones(n))

    def getTracerDiffusivity(self, x, T, removeCache=True, phase=None):
        n = len(np.atleast_1d(T))
        return np.squeeze(np.array([self.D0 * np.ones(n), self.D1 * np.ones(n)]).T)

    def getInterfacialComposition(self, T, gExtra=0, precPhase=None):
        n = len(np.atleast_1d(T))
        return np.squeeze(self.xa * np.ones(n)), np.squeeze(self.xb * np.ones(n))


# ==========================================================================================
# independent geometry: the nucleus is the intersection of equal unit spheres, one per grain, whose
# centres lie at distance k from each boundary plane of "their" grain, on the far side
def _grain_axes(site):
    if site == 'grain boundaries':
        return np.array([[0, 0, 1.0], [0, 0, -1.0]])
    if site == 'grain edges':
        return np.array([[math.cos(a), math.sin(a), 0.0] for a in (0, 2 * math.pi / 3, 4 * math.pi / 3)])
    return np.array([[1, 1, 1], [1, -1, -1], [-1, 1, -1], [-1, -1, 1]]) / math.sqrt(3)


def _centres(site, k):
    E = _grain_axes(site)
    c = float(E[0] @ E[1])
    rho = k / math.sqrt((1 - c) / 2)
    return E, -rho * E


def geom_volume(site, k, n=500):
    E, C = _centres(site, k)
    # integrate the chord length along the first grain axis difference (any direction works): use z
    xs = (np.arange(n) + 0.5) / n * 2 - 1
    X, Y = np.meshgrid(xs, xs, indexing='ij')
    lo = -np.inf * np.ones_like(X)
    hi = np.inf * np.ones_like(X)
    ok = np.ones_like(X, bool)
    for c in C:
        d2 = 1 - (X - c[0]) ** 2 - (Y - c[1]) ** 2
        ok &= d2 > 0
        s = np.sqrt(np.where(d2 > 0, d2, 0))
        lo = np.maximum(lo, c[2] - s)
        hi = np.minimum(hi, c[2] + s)
    L = np.where(ok, np.maximum(hi - lo, 0), 0)
    return float(L.sum() * (2.0 / n) ** 2)


def geom_gb_area(site, k, n=900):
    E, C = _centres(site, k)
    nrm = E[0] - E[1]
    nrm = nrm / np.linalg.norm(nrm)
    t = np.array([1.0, 0, 0]) if abs(nrm[0]) < 0.9 else np.array([0, 1.0, 0])
    u = np.cross(nrm, t)
    u /= np.linalg.norm(u)
    v = np.cross(nrm, u)
    xs = (np.arange(n) + 0.5) / n * 2 - 1
    A, B = np.meshgrid(xs, xs, indexing='ij')
    P = A[..., None] * u + B[..., None] * v
    inside = np.ones(A.shape, bool)
    for c in C:
        inside &= ((P - c) ** 2).sum(-1) < 1
    dots = P @ E.T
    onb = np.ones(A.shape, bool)
    for m in range(2, len(E)):
        onb &= dots[..., 0] >= dots[..., m]
    npairs = len(E) * (len(E) - 1) // 2
    return float(npairs * (inside & onb).sum() * (2.0 / n) ** 2)


SPHERE_GB_AREA = {'grain boundaries': math.pi, 'grain edges': 3 * math.pi / 2, 'grain corners': 3 * math.acos(-1 / 3)}


# ==========================================================================================
# oracle 1: geometric factors of one description on a sweep of ratios
def eval_factors(site, ks, scalar=False):
    d = description(site)
    ks = np.array(ks, dtype=float)
    out = {}
    for f in FACTORS:
        if scalar:
            out[f] = np.array([float(quiet(getattr(d, f), float(k), False)) for k in ks])
        else:
            out[f] = np.atleast_1d(quiet(getattr(d, f), ks.copy(), False)).astype(float)
    return out


def oracle_factors(c):
    """c = {kind:'factors', site, ks}; returns list of (clause, cls, message)"""
    site, ks = c['site'], [float(k) for k in c['ks']]
    v = []
    try:
        arr = eval_factors(site, ks)
        sca = eval_factors(site, ks, scalar=True)
    except Exception as e:
        return [('no_internal_error', 'exception', 'factor methods of %s raised %s: %s' % (site, type(e).__name__, e))]
    km = kmax_of(site)
    def noise(k):          # cancellation noise of the trigonometric formulas, amplified by 1/(k_max - k) next to the limit
        return 1e-10 + (2e-14 / (1 - k / km) if k < km and not math.isinf(km) else 0.0)
    for f in FACTORS:
        # vectorised and scalar numpy kernels may round differently in the last place
        tol_as = np.array([1e-12 * abs(y) + (noise(k) - 1e-10) for k, y in zip(ks, sca[f])]) if len(arr[f]) == len(ks) else 0
        same = (np.abs(arr[f] - sca[f]) <= tol_as) | (arr[f] == sca[f]) | (np.isnan(arr[f]) & np.isnan(sca[f])) if len(arr[f]) == len(ks) else np.array([False])
        if len(arr[f]) != len(ks) or not np.all(same):
            i = int(np.argmin(same)) if len(arr[f]) == len(ks) else 0
            v.append(('array_scalar', f, '%s.%s: array call gives %r, scalar call %r at k=%r' % (site, f, arr[f][i] if len(arr[f]) > i else None, sca[f][i], ks[i])))
    adm = [i for i, k in enumerate(ks) if 0 <= k < km]
    for i in adm:
        k = ks[i]
        a, b, cc, r = (sca[f][i] for f in FACTORS)
        for f, val in zip(FACTORS, (a, b, cc, r)):
            if not math.isfinite(val) or val < -noise(k):
                if f == 'areaRemoval' and math.isnan(val) and -noise(k) <= b < 0:
                    continue       # sqrt of rounding noise
                v.append(('factor_nonneg', f, '%s.%s(k=%r) = %r is negative or not finite (admissible: 0 <= k < %r)' % (site, f, k, val, km)))
        if site in GBSITES or True:
            sc = abs(a) + abs(2 * k * b) + abs(3 * cc)
            if abs(a - 2 * k * b - 3 * cc) > 1e-11 * sc + 1e-13 + noise(k):
                v.append(('cf_identity', site, '%s at k=%r: area factor %r - 2k*removed boundary %r = %r, 3*volume factor = %r' % (site, k, a, b, a - 2 * k * b, 3 * cc)))
        if k == 0:
            exp_b = SPHERE_GB_AREA.get(site, 0.0)
            for nm, val, ex in (('areaFactor', a, 4 * math.pi), ('volumeFactor', cc, 4 * math.pi / 3), ('gbRemoval', b, exp_b),
                                ('areaRemoval', r, math.sqrt(exp_b / math.pi) if site in GBSITES else 1.0)):
                if abs(val - ex) > 1e-12 * (1 + abs(ex)):
                    v.append(('cf_at_zero', nm, '%s.%s(k=0) = %r, value for a sphere on this site = %r' % (site, nm, val, ex)))
    # volume factor does not increase with k
    order = sorted(adm, key=lambda i: ks[i])
    for i, j in zip(order, order[1:]):
        if ks[j] > ks[i] and sca['volumeFactor'][j] > sca['volumeFactor'][i] + noise(ks[j]) + noise(ks[i]):
            v.append(('cf_volume_decreasing', site, '%s: volume factor rises from %r at k=%r to %r at k=%r' % (site, sca['volumeFactor'][i], ks[i], sca['volumeFactor'][j], ks[j])))
            break
    # geometry (numerical quadrature of the intersection of spheres), a few ratios per case
    if site in GBSITES:
        gk = [ks[i] for i in adm if ks[i] <= 0.97 * km][:: max(1, len(adm) // 4)][:5]
        for k in gk:
            i = ks.index(k)
            gv, ga = geom_volume(site, k), geom_gb_area(site, k)
            if abs(sca['volumeFactor'][i] - gv) > 4e-3 * gv + 2e-3:
                v.append(('geometry', 'volumeFactor', '%s.volumeFactor(k=%r) = %r, volume of the nucleus (intersection of unit spheres, quadrature) = %.5f' % (site, k, sca['volumeFactor'][i], gv)))
            if abs(sca['gbRemoval'][i] - ga) > 4e-3 * ga + 4e-3:
                v.append(('geometry', 'gbRemoval', '%s.gbRemoval(k=%r) = %r, boundary area inside the nucleus (quadrature) = %.5f' % (site, k, sca['gbRemoval'][i], ga)))
    # outside the admissible range the wrappers return the placeholder / nan, never a formula value
    for i, k in enumerate(ks):
        if k >= km:
            for f in FACTORS:
                if sca[f][i] != -1.0:
                    v.append(('invalid_marked', f, '%s.%s(k=%r, setInvalidToNan=False) = %r for a ratio at or above the limit %r' % (site, f, k, sca[f][i], km)))
    return _dedupe(v)


def _dedupe(v):
    seen, out = set(), []
    for h in v:
        if (h[0], h[1]) not in seen:
            seen.add((h[0], h[1]))
            out.append((h[0], h[1], re.sub(r'np\.float64\(([^()]*)\)', r'\1', h[2])))
    return out


# ==========================================================================================
# oracle 2: the parameter object never hands out the placeholder
def read_params(site, gamma, gbE, via_prec=False):
    """factors of a FRESH NucleationBarrierParameters; each entry a float or the name of the exception"""
    N = impl()[0]
    out = {}
    nbp = N.NucleationBarrierParameters(site=site, gamma=gamma, gbEnergy=gbE)
    for f in ['GBk'] + FACTORS:
        try:
            out[f] = float(quiet(getattr, nbp, f))
        except Exception as e:
            out[f] = type(e).__name__
    return out


def oracle_params(c):
    site, g, e = c['site'], c['gamma'], c['gbEnergy']
    v = []
    r = read_params(site, g, e)
    k = e / (2 * g) if (g and e is not None) else None
    km = kmax_of(site)
    for f in FACTORS:
        val = r[f]
        if isinstance(val, str):
            if val != 'ValueError':
                v.append(('no_internal_error', 'exception', 'reading %s of %s parameters (gamma=%r, gbEnergy=%r) raised %s' % (f, site, g, e, val)))
            elif k is not None and 0 <= k < km * (1 - 1e-12):
                v.append(('admissible_rejected', f, '%s: ratio %r below the limit %r is rejected' % (site, k, km)))
        else:
            cls = 'ratio equal to the limit' if k == km else ('ratio above the limit' if k is not None and k > km else 'ratio below the limit')
            if not math.isfinite(val) or val < -1e-10:
                v.append(('cached_factor_nonneg', cls, 'NucleationBarrierParameters(%s, gamma=%r, gbEnergy=%r): ratio %r, %s = %r (limit %r)' % (site, g, e, k, f, val, km)))
    return _dedupe(v)


# ==========================================================================================
# oracle 3: classical-nucleation quantities of NucleationRate.py
def run_cnt(c, scalar=False):
    """runs every function of NucleationRate.py on the case; returns dict of arrays (or 'err')"""
    N, NR, _, _ = impl()
    out = {'err': None}
    try:
        p = make_prec(c)
        m = make_matrix(c)
        dG = np.array(c['dG'], dtype=float)
        n = len(dG)
        T = c['T'] * np.ones(n)
        x = c['x'] * np.ones(n)
        therm = StubTherm(dG, c['D0'], c['D1'], c['xa'], c['xb'])
        out['vf'] = float(quiet(getattr, p.nucleation, 'volumeFactor'))
        out['af'] = float(quiet(getattr, p.nucleation, 'areaFactor'))
        out['gbr'] = float(quiet(getattr, p.nucleation, 'gbRemoval'))
        out['Vm'], out['a'] = float(p.volume.Vm), float(m.volume.a)

        def call(fn, per_item):
            if not scalar:
                return np.atleast_1d(np.array(quiet(fn), dtype=float))
            return np.array([float(np.squeeze(quiet(per_item, i))) for i in range(n)])
        bar = quiet(NR.nucleationBarrier, dG, p) if not scalar else None
        if scalar:
            pairs = [quiet(NR.nucleationBarrier, float(dG[i]), p) for i in range(n)]
            Rc = np.array([float(a) for a, _ in pairs])
            Gc = np.array([float(b) for _, b in pairs])
        else:
            Rc, Gc = np.atleast_1d(bar[0]).astype(float), np.atleast_1d(bar[1]).astype(float)
        out['Rcrit'], out['Gcrit'] = Rc, Gc
        out['Z'] = call(lambda: NR.zeldovich(T, Rc, p), lambda i: NR.zeldovich(float(T[i]), float(Rc[i]), p))
        out['beta1'] = call(lambda: NR.betaBinary1(therm, x, T, Rc, m, p), lambda i: NR.betaBinary1(therm, float(x[i]), float(T[i]), float(Rc[i]), m, p))
        out['beta2'] = call(lambda: NR.betaBinary2(therm, x, T, Rc, m, p), lambda i: NR.betaBinary2(therm, float(x[i]), float(T[i]), float(Rc[i]), m, p))
        beta = out['beta1'] if c.get('betaFunc', 1) == 1 else out['beta2']
        out['beta'] = beta
        out['tau'] = call(lambda: NR.incubationTime(beta, out['Z'], m), lambda i: NR.incubationTime(float(beta[i]), float(out['Z'][i]), m))
        out['rate_ss'] = call(lambda: NR.nucleationRate(out['Z'], beta, Gc, T, out['tau']),
                              lambda i: NR.nucleationRate(float(out['Z'][i]), float(beta[i]), float(Gc[i]), float(T[i]), float(out['tau'][i])))
        out['rate_t'] = [call(lambda: NR.nucleationRate(out['Z'], beta, Gc, T, out['tau'], time=t),
                              lambda i: NR.nucleationRate(float(out['Z'][i]), float(beta[i]), float(Gc[i]), float(T[i]), float(out['tau'][i]), time=t))
                         for t in c['times']]
        out['Rnuc'] = call(lambda: NR.nucleationRadius(T, Rc, p), lambda i: NR.nucleationRadius(float(T[i]), float(Rc[i]), p))
        if not scalar:
            # the stub returns the chemical driving force dG * Vm; volumetricDrivingForce divides by Vm again
            thermp = StubTherm(dG * p.volume.Vm, c['D0'], c['D1'], c['xa'], c['xb'])
            nd = quiet(NR.computeSteadyStateNucleation, thermp, x, T, p, m)
            out['pipe_dG'] = np.atleast_1d(np.array(nd.volumetric_driving_force, dtype=float))
            out['pipe_rate'] = np.atleast_1d(np.array(nd.nucleation_rate, dtype=float))
            out['pipe_Rcrit'] = np.atleast_1d(np.array(nd.Rcrit, dtype=float))
    except Exception as e:
        out['err'] = type(e).__name__ + ': ' + str(e)
    return out


def oracle_cnt(c):
    v = []
    site = c['site']
    isgb = site in GBSITES
    site_cls = 'grain-boundary sites' if isgb else 'bulk sites'
    k = c['gbEnergy'] / (2 * c['gamma'])
    if isgb and not (0 <= k < kmax_of(site)):
        return []
    o = run_cnt(c)
    if o['err']:
        return [('no_internal_error', 'exception', 'NucleationRate functions raised %s on %s' % (o['err'], {q: c[q] for q in ('site', 'gamma', 'gbEnergy', 'T', 'Rmin')}))]
    os_ = run_cnt(c, scalar=True)
    if os_['err']:
        return [('no_internal_error', 'exception', 'NucleationRate functions (scalar arguments) raised %s' % os_['err'])]
    dG = np.array(c['dG'], dtype=float)
    n = len(dG)
    pos = dG > 0
    g, Rmin, T = c['gamma'], c['Rmin'], c['T']
    names = ['Rcrit', 'Gcrit', 'Z', 'beta1', 'beta2', 'tau', 'rate_ss', 'Rnuc']
    for nm in names:
        a, b = o[nm], os_[nm]
        eq = ((np.abs(a - b) <= 1e-10 * np.abs(b)) | (a == b) | (np.isnan(a) & np.isnan(b))) if len(a) == n else np.array([False])
        if len(a) != n or not np.all(eq):
            i = int(np.argmin(eq)) if len(a) == n else 0
            v.append(('array_scalar', nm, '%s: array call gives %r, scalar call %r at dG=%r' % (nm, a[i] if len(a) > i else None, b[i], dG[i])))
    for nm, title in (('Gcrit', 'barrier'), ('Z', 'Zeldovich factor'), ('beta1', 'impingement rate'), ('beta2', 'impingement rate (2)'),
                      ('tau', 'incubation time'), ('rate_ss', 'nucleation rate'), ('Rcrit', 'critical radius')):
        bad = ~np.isfinite(o[nm]) | (o[nm] < 0)
        if np.any(bad):
            i = int(np.argmax(bad))
            v.append((title.split(' (')[0].replace(' ', '_') + '_nonneg', site_cls,
                      '%s = %r at dG=%r (site %s, k=%r, gamma=%r, Rmin=%r, T=%r): must be finite and non-negative' % (title, o[nm][i], dG[i], site, k, g, Rmin, T)))
    bad = pos & (o['Rcrit'] < Rmin)
    if np.any(bad):
        i = int(np.argmax(bad))
        v.append(('rcrit_ge_rmin', site_cls, 'critical radius %r below the minimum radius %r at dG=%r' % (o['Rcrit'][i], Rmin, dG[i])))
    for nm in ('Rcrit', 'Gcrit', 'rate_ss'):
        bad = (~pos) & (o[nm] != 0)
        if np.any(bad):
            i = int(np.argmax(bad))
            v.append(('rate_zero_for_nonpositive_dg', nm, '%s = %r for driving force %r <= 0' % (nm, o[nm][i], dG[i])))
    for t_, tr_ in zip(c['times'], o['rate_t']):
        badf = ~np.isfinite(tr_) | (tr_ < 0)
        if np.any(badf):
            i = int(np.argmax(badf))
            v.append(('nucleation_rate_nonneg', 'transient', 'transient rate %r at time %r, dG=%r (site %s): must be finite and non-negative' % (tr_[i], t_, dG[i], site)))
    for tr_ in o['rate_t']:
        bad = (~pos) & (tr_ != 0)
        if np.any(bad):
            v.append(('rate_zero_for_nonpositive_dg', 'transient', 'transient rate %r for driving force %r <= 0' % (tr_[int(np.argmax(bad))], dG[int(np.argmax(bad))])))
    # positive driving force with valid parameters: the rate is strictly what CNT says, in particular > 0 unless it underflows
    zb = o['Z'] * o['beta']
    with np.errstate(all='ignore'):
        expo = np.where(pos, np.exp(-np.where(pos, o['Gcrit'], 0) / (KB * T)), 0)
    bad = pos & (o['rate_ss'] > zb * (1 + 1e-9))
    if np.any(bad):
        i = int(np.argmax(bad))
        v.append(('rate_le_Zbeta', site_cls, 'steady-state rate %r exceeds Z*beta = %r at dG=%r (barrier %r)' % (o['rate_ss'][i], zb[i], dG[i], o['Gcrit'][i])))
    bad = pos & (zb > 0) & (expo > 1e-280) & (o['rate_ss'] == 0)
    if np.any(bad):
        i = int(np.argmax(bad))
        v.append(('rate_positive', site_cls, 'steady-state rate is 0 at positive driving force %r although Z*beta = %r and exp(-G*/kT) = %r (barrier %r)' % (dG[i], zb[i], expo[i], o['Gcrit'][i])))
    # grain-boundary sites: radius of a sphere, barrier = spherical barrier * c / (4 pi / 3)
    if isgb and np.any(pos):
        sph_R = np.maximum(2 * g / np.where(pos, dG, 1), Rmin)
        sph_G = 4 * math.pi / 3 * g * sph_R ** 2 * (o['vf'] / (4 * math.pi / 3))
        bad = pos & (np.abs(o['Rcrit'] - sph_R) > 1e-9 * sph_R)
        if np.any(bad):
            i = int(np.argmax(bad))
            v.append(('gb_rcrit_is_sphere', site, 'critical radius %r on %s (k=%r) differs from the sphere value max(2 gamma/dG, Rmin) = %r at dG=%r' % (o['Rcrit'][i], site, k, sph_R[i], dG[i])))
        bad = pos & (np.abs(o['Gcrit'] - sph_G) > 1e-8 * np.abs(sph_G))
        if np.any(bad) and not any(h[0] == 'barrier_nonneg' for h in v):
            i = int(np.argmax(bad))
            clamp = 'radius raised to Rmin' if sph_R[i] == Rmin else 'unclamped radius'
            v.append(('gb_barrier_is_sphere_scaled', clamp, 'barrier %r on %s (k=%r) differs from spherical barrier * volume factor/(4pi/3) = %r at dG=%r (%s)' % (o['Gcrit'][i], site, k, sph_G[i], dG[i], clamp)))
    # incubation factor in [0,1] and rising with time
    times = list(c['times'])
    base = zb * expo
    prev = None
    for t, tr_ in zip(times, o['rate_t']):
        with np.errstate(all='ignore'):
            fac = np.where(base > 0, tr_ / np.where(base > 0, base, 1), 0)
        bad = pos & ((fac < 0) | (fac > 1 + 1e-9) | ~np.isfinite(fac))
        if np.any(bad):
            i = int(np.argmax(bad))
            v.append(('incubation_factor_unit_interval', 'value', 'incubation factor %r at t=%r, dG=%r outside [0,1]' % (fac[i], t, dG[i])))
        if prev is not None:
            bad = pos & (fac < prev * (1 - 1e-9))
            if np.any(bad):
                i = int(np.argmax(bad))
                v.append(('incubation_factor_monotone', 'time', 'incubation factor falls from %r to %r between the times %r' % (prev[i], fac[i], times)))
        prev = fac
    # steady-state rate does not decrease with the driving force (same temperature, same site)
    order = np.argsort(dG, kind='stable')
    r = o['rate_ss'][order]
    d = dG[order]
    for i in range(len(r) - 1):
        if d[i + 1] > d[i] and r[i + 1] < r[i] * (1 - 1e-9) and np.isfinite(r[i]) and np.isfinite(r[i + 1]):
            v.append(('steady_rate_monotone_in_dg', site_cls, 'steady-state rate falls from %r at dG=%r to %r at dG=%r (site %s, k=%r, gamma=%r, Rmin=%r, T=%r)' % (r[i], d[i], r[i + 1], d[i + 1], site, k, g, Rmin, T)))
            break
    bad = o['Rnuc'] < o['Rcrit']
    if np.any(bad):
        v.append(('nucleation_radius_ge_rcrit', 'value', 'nucleation radius %r below the critical radius %r' % (o['Rnuc'][int(np.argmax(bad))], o['Rcrit'][int(np.argmax(bad))])))
    if 'pipe_rate' in o:
        # the pipeline (default impingement function betaBinary2) obeys the same sign / zero / radius clauses
        pr, pR, pd = o['pipe_rate'], o['pipe_Rcrit'], o['pipe_dG']
        if len(pr) != n:
            v.append(('array_scalar', 'computeSteadyStateNucleation', 'computeSteadyStateNucleation returns %d rates for %d driving forces' % (len(pr), n)))
        else:
            badr = (pd > 0) & (pR < Rmin)
            if np.any(badr):
                i = int(np.argmax(badr))
                v.append(('rcrit_ge_rmin', 'computeSteadyStateNucleation', 'computeSteadyStateNucleation: critical radius %r below the minimum radius %r at driving force %r' % (pR[i], Rmin, pd[i])))
            bad = ~np.isfinite(pr) | (pr < 0) | ((pd <= 0) & (pr != 0))
            if np.any(bad):
                i = int(np.argmax(bad))
                v.append(('nucleation_rate_nonneg', 'computeSteadyStateNucleation', 'computeSteadyStateNucleation: rate %r, critical radius %r at driving force %r' % (pr[i], pR[i], pd[i])))
    return _dedupe(v)


# ==========================================================================================
# oracle 4: number of available nucleation sites
def build_sites_model(c):
    """PrecipitateModel with one phase per entry of c['phases'] = [{site, gamma, N: [...]}]"""
    import stubs
    names = ['B1', 'B2', 'B3'][:len(c['phases'])]
    with contextlib.redirect_stdout(io.StringIO()):
        m = stubs.make_binary_model(phases=names, gammas=[p['gamma'] for p in c['phases']], sites=[p['site'] for p in c['phases']],
                                    bins=(1e-10, 1e-8, c['bins'], c['bins'], c['bins'] * 2))
        m.setGrainBoundaryEnergy(c['gbEnergy'])
        m.setNucleationDensity(grainSize=c['grainSize'], aspectRatio=c['aspect'], dislocationDensity=c['dislocationDensity'], bulkN0=c.get('bulkN0'))
        for i, ph in enumerate(c['phases']):
            if ph.get('parents'):
                m.setParentPhases(names[i], [names[j] for j in ph['parents']])
        m.setup()
    return m


ORDER = {'bulk': 0, 'dislocations': 0, 'grain boundaries': 2, 'grain edges': 1, 'grain corners': 0}


class TieBroken(Exception):
    """an observation point of the harness is gone (renamed private name, ...): not a violation of the property by the code"""


TIE_BROKEN = []


def pool_of(site):
    """phases competing for the same sites.  Bulk and dislocation phases share one pool (number of particles against
    bulkN0): DislocationDescription derives from BulkDescription and `_calcNucleationSites` tests BulkDescription first
    (see notes/C14.md, observation (a)); the oracle follows the code there and is independent for everything else"""
    return 'bulk' if site in ('bulk', 'dislocations') else site


def sites_setup(c):
    """model + per-phase occupation weights (computed here from public attributes, not by the code under test)"""
    m = build_sites_model(c)
    ns = m.matrixParameters.nucleationSites
    VmA = m.matrixParameters.volume.Vm
    info = []
    for i, ph in enumerate(c['phases']):
        st = ph['site']
        nuc = m.precipitateParameters[i].nucleation
        w = {'grain boundaries': lambda: float(nuc.gbRemoval) * (NAV / VmA) ** (2 / 3),
             'grain edges': lambda: float(np.sqrt(1 - nuc.GBk ** 2)) * (NAV / VmA) ** (1 / 3)}.get(st, lambda: 1.0)()
        tot = float({'grain boundaries': ns.GBareaN0, 'grain edges': ns.GBedgeN0, 'grain corners': ns.GBcornerN0}.get(st, ns.bulkN0))
        info.append({'w': w, 'tot': tot, 'order': ORDER[st], 'pool': pool_of(st), 'r': np.array(m.PBM[i].PSDsize, dtype=float),
                     'surf': (NAV / m.precipitateParameters[i].volume.Vm) ** (2 / 3)})
    return m, info


def sites_populations(c, info, scale=None):
    """the populations of the case are shapes; they are rescaled so that phase i occupies the fraction c['fill'][i] / (phases
    in its pool) of the sites of its pool (otherwise nearly every random case is either empty or exhausted and a wrong
    occupied-site formula would be invisible)"""
    x = []
    for i, ph in enumerate(c['phases']):
        N = np.array(ph['N'], dtype=float)
        occ = info[i]['w'] * float(np.sum(N * info[i]['r'] ** info[i]['order']))
        same = sum(1 for q in info if q['pool'] == info[i]['pool'])
        if occ > 0:
            N = N * (c['fill'][i] * info[i]['tot'] / occ / same)
        x.append(N * (1.0 if scale is None else scale[i]))
    return x


def run_sites(c, scale=None, setup=None):
    m, info = setup or sites_setup(c)
    x = sites_populations(c, info, scale)
    fn = getattr(m, '_calcNucleationSites', None)      # the mechanism the property names; private, hence looked up defensively
    if fn is None:
        raise TieBroken('PrecipitateModel has no method _calcNucleationSites any more: the number of available sites cannot be observed')
    return m, x, [float(quiet(fn, 0.0, [a.copy() for a in x], p)) for p in range(len(c['phases']))]


def expected_sites(c, info, x, p):
    """property text: sites of the type, minus what the precipitates of ALL phases on that type occupy, never negative
    (+ the surface sites of the parent phases)"""
    occ = [info[q]['w'] * float(np.sum(x[q] * info[q]['r'] ** info[q]['order'])) for q in range(len(x)) if info[q]['pool'] == info[p]['pool']]
    par = sum(4 * math.pi * float(np.sum(x[q] * info[q]['r'] ** 2)) * info[q]['surf'] for q in c['phases'][p].get('parents', []))
    return max(par + info[p]['tot'] - sum(occ), 0.0), info[p]['tot'] + sum(occ) + par, sum(occ)


def oracle_sites(c):
    v = []
    nph = len(c['phases'])
    try:
        setup = sites_setup(c)
        m, x, s0 = run_sites(c, setup=setup)
        grown = []          # every phase's population varied on its own, then all together
        for q in range(nph):
            sc = [c['grow'][q] if i == q else 1.0 for i in range(nph)]
            grown.append((q, sc, run_sites(c, scale=sc, setup=setup)[2]))
        grown.append((None, c['grow'], run_sites(c, scale=c['grow'], setup=setup)[2]))
    except TieBroken as e:
        if str(e) not in TIE_BROKEN:
            TIE_BROKEN.append(str(e))
        return []
    except Exception as e:
        return [('no_internal_error', 'exception', '_calcNucleationSites raised %s: %s' % (type(e).__name__, e))]
    info = setup[1]
    for p, ph in enumerate(c['phases']):
        shared = sum(1 for q in info if q['pool'] == info[p]['pool'])
        cls = ph['site'] + (', several phases on this site type' if shared > 1 else '')
        if not math.isfinite(s0[p]) or s0[p] < 0 or any(g[2][p] < 0 for g in grown):
            v.append(('sites_nonneg', ph['site'], 'available sites for phase %d (%s) = %r' % (p, ph['site'], s0[p])))
        exp, mag, occ = expected_sites(c, info, x, p)
        if abs(s0[p] - exp) > 1e-9 * mag:
            v.append(('sites_value', cls, 'phase %d on %s: %r sites available; the %d phase(s) on this site type occupy %r of its %r sites, which leaves %r'
                      % (p, ph['site'], s0[p], shared, occ, info[p]['tot'], exp)))
        if ph.get('parents'):
            continue
        for q, sc, s1 in grown:
            if s1[p] > s0[p] * (1 + 1e-12):
                who = 'every population grows by the factors %r' % (sc,) if q is None else 'the population of phase %d (%s) grows by the factor %r' % (q, c['phases'][q]['site'], sc[q])
                v.append(('sites_decreasing', cls, 'available sites for phase %d (%s) rise from %r to %r when %s' % (p, ph['site'], s0[p], s1[p], who)))
                break
            if q is not None and q != p and info[q]['pool'] == info[p]['pool'] and sc[q] > 1 and s0[p] > 0:
                # precipitates of another phase on the same site type take sites away
                occ_q = info[q]['w'] * float(np.sum(x[q] * info[q]['r'] ** info[q]['order']))
                lost = min((sc[q] - 1) * occ_q, s0[p])
                if lost > 1e-6 * mag and s0[p] - s1[p] < 0.5 * lost:
                    v.append(('sites_decreasing', cls, 'available sites for phase %d (%s) go from %r to %r when phase %d on the same site type occupies %r more sites'
                              % (p, ph['site'], s0[p], s1[p], q, (sc[q] - 1) * occ_q)))
                    break
    return _dedupe(v)


# ==========================================================================================
# oracle 5: cached factors follow the setters
def make_holder(holder):
    """holder of the parameter object: 'owned' = the one PrecipitateParameters creates (its validate() callback is registered),
    'standalone' = NucleationBarrierParameters used on its own (public constructor, exported from kawin.precipitation),
    'attached' = built by the user and assigned as prec.nucleation afterwards (no callback registered).
    All three start from the state of a new PrecipitateParameters: dislocations, gamma None, gbEnergy 0.3"""
    N, _, PP, _ = impl()
    if holder == 'standalone':
        return None, N.NucleationBarrierParameters(site=N.DislocationDescription(), gamma=None, gbEnergy=0.3)
    prec = PP('beta')
    if holder == 'attached':
        prec.nucleation = N.NucleationBarrierParameters(site=N.DislocationDescription(), gamma=None, gbEnergy=0.3)
    return prec, prec.nucleation


def _call_public(prec, nbp, name, args):
    """public computations that use the cached factors and must not change them"""
    NR = impl()[1]
    if name == 'nucleationBarrier' and prec is not None:
        dg = np.array(args[0], dtype=float)
        given = dg.copy()
        R, G = quiet(NR.nucleationBarrier, dg, prec)
        if not np.array_equal(dg, given):
            return 'argument modified'
        return [float(x) for x in np.atleast_1d(R)] + [float(x) for x in np.atleast_1d(G)]
    if name == 'Gcrit':
        return [float(np.squeeze(quiet(nbp.Gcrit, float(args[0][0]), float(args[1]))))]
    return [float(np.squeeze(quiet(nbp.Rcrit, float(args[0][0]))))]


def apply_op(prec, nbp, op, arg):
    try:
        if op == 'desc':
            nbp.setNucleationType(arg)
            return None
        if op == 'gamma' or (op == 'pgamma' and prec is None):
            if prec is not None:
                prec.gamma = arg       # keep the owner consistent through its public setter (its callback copies gamma back) ...
            nbp.gamma = arg            # ... and exercise the setter of the parameter object itself
            return None
        if op == 'pgamma':
            prec.gamma = arg
            return None
        if op == 'gbEnergy':
            nbp.gbEnergy = arg
            return None
        if op == 'call':
            return _call_public(prec, nbp, arg[0], arg[1:])
        return float(quiet(getattr, nbp, arg))
    except Exception as e:
        return type(e).__name__


def run_cache_impl(c):
    """c['ops'] = list of ['desc', site] | ['gamma', v] | ['gbEnergy', v] | ['pgamma', v] | ['read', name] |
    ['call', [function, dG list, (R)]]; returns for every op None (setter), the value(s) returned or the exception name"""
    prec, nbp = make_holder(c.get('holder', 'owned'))
    return [apply_op(prec, nbp, op, arg) for op, arg in c['ops']]


def run_cache_interleaved(c):
    """two parameter objects alive at the same time, their histories interleaved operation by operation"""
    A = make_holder(c.get('holder', 'owned'))
    B = make_holder(c['other'].get('holder', 'owned'))
    oa, ob = [], []
    ia, ib = iter(c['ops']), iter(c['other']['ops'])
    while True:
        x, y = next(ia, None), next(ib, None)
        if x is None and y is None:
            break
        if x is not None:
            oa.append(apply_op(A[0], A[1], x[0], x[1]))
        if y is not None:
            ob.append(apply_op(B[0], B[1], y[0], y[1]))
    return oa, ob


def cache_params_trace(c):
    """parameters in force at every op (site, gamma, gbEnergy): initial PrecipitateParameters state"""
    site, g, e = 'dislocations', None, 0.3
    tr_ = []
    for op, arg in c['ops']:
        if op == 'desc':
            site = arg
        elif op in ('gamma', 'pgamma'):
            g = arg
        elif op == 'gbEnergy':
            e = arg
        tr_.append((site, g, e))
    return tr_


def fresh_call(holder, site, g, e, arg):
    """the same public call on a freshly built object with the given parameters"""
    N, _, PP, _ = impl()
    try:
        if holder == 'standalone':
            prec, nbp = None, N.NucleationBarrierParameters(site=site, gamma=g, gbEnergy=e)
        else:
            prec = PP('beta')
            if g is not None:
                prec.gamma = g
            prec.nucleation.gbEnergy = e
            prec.nucleation.setNucleationType(site)
            if g is None:
                prec.nucleation.gamma = None
            nbp = prec.nucleation
        return _call_public(prec, nbp, arg[0], arg[1:])
    except Exception as ex:
        return type(ex).__name__


def _same_result(a, b):
    if isinstance(a, list) and isinstance(b, list):
        return len(a) == len(b) and all((x == y) or (math.isnan(x) and math.isnan(y)) or abs(x - y) <= 1e-12 * abs(y) for x, y in zip(a, b))
    if isinstance(a, float) and isinstance(b, float):
        return a == b or (math.isnan(a) and math.isnan(b))
    return a == b


def oracle_cache(c):
    v = []
    holder = c.get('holder', 'owned')
    got = run_cache_impl(c)

    def after(i):
        last = [o for o in c['ops'][:i] if o[0] != 'read'][-1:] or [['(initial)', None]]
        what = 'a public computation (Rcrit / Gcrit / nucleationBarrier)' if last[0][0] == 'call' else ('setting ' + last[0][0].replace('pgamma', 'gamma'))
        return 'after ' + what + ('' if holder == 'owned' or last[0][0] == 'call' else ', %s object' % holder)
    for i, ((op, arg), (site, g, e), val) in enumerate(zip(c['ops'], cache_params_trace(c), got)):
        if op == 'call':
            exp = fresh_call(holder, site, g, e, arg)
            if not _same_result(exp, val):
                prev = [o for o in c['ops'][:i] if o[0] == 'call']
                v.append(('cache_coherent', after(i),
                          '%s NucleationBarrierParameters: %s(%s) as operation %d (after %d earlier public calls, no setter needed in between) returns %r; a fresh object with the '
                          'current parameters (site %s, gamma %r, gbEnergy %r) returns %r' % (holder, arg[0], ', '.join(repr(a) for a in arg[1:]), i, len(prev), val, site, g, e, exp)))
            continue
        if op != 'read':
            if val is not None:
                v.append(('no_internal_error', 'setter', 'setting %s = %r raised %s' % (op, arg, val)))
            continue
        exp = read_params(site, g, e)[arg]
        if not _same_result(exp, val):
            v.append(('cache_coherent', after(i),
                      '%s NucleationBarrierParameters: read of %s after %d operations returns %r; a fresh object with the current parameters (site %s, gamma %r, gbEnergy %r) returns %r'
                      % (holder, arg, i, val, site, g, e, exp)))
    if c.get('other'):
        alone_b = run_cache_impl(c['other'])
        ia, ib = run_cache_interleaved(c)
        for nm, x, y, ops in (('first', got, ia, c['ops']), ('second', alone_b, ib, c['other']['ops'])):
            bad = [k for k, (p_, q_) in enumerate(zip(x, y)) if not _same_result(p_, q_)]
            if bad:
                k = bad[0]
                v.append(('instances_independent', 'two parameter objects',
                          'two parameter objects used alternately: operation %d of the %s object (%r) returns %r, the same history on that object alone returns %r' % (k, nm, ops[k], y[k], x[k])))
    return _dedupe(v)


# ==========================================================================================
# oracle 6: the result does not depend on how the numbers are passed (Python int / float, integer or float32
# arrays, lists, 0-d arrays): every call is compared with the float64-array call on the same values
def _variants(vals, intlike, f32ok):
    """(label, scalar?, constructor of the argument for index set idx) for a list of float values"""
    out = [('list of floats', False, lambda v: [float(a) for a in v]),
           ('0-d float array', True, lambda v: np.array(float(v[0]))),
           ('Python float', True, lambda v: float(v[0]))]
    if intlike:
        out += [('Python int', True, lambda v: int(v[0])), ('numpy int64 scalar', True, lambda v: np.int64(v[0])),
                ('int64 array', False, lambda v: np.array([int(a) for a in v], dtype=np.int64)),
                ('int32 array', False, lambda v: np.array([int(a) for a in v], dtype=np.int32)),
                ('list of ints', False, lambda v: [int(a) for a in v]),
                ('0-d int array', True, lambda v: np.array(int(v[0]))),
                ('list mixing int and float', False, lambda v: [int(a) if i % 2 == 0 else float(a) for i, a in enumerate(v)])]
    if f32ok:
        out += [('float32 array', False, lambda v: np.array(v, dtype=np.float32)), ('float32 scalar', True, lambda v: np.float32(v[0]))]
    return out


def oracle_dtype(c):
    """c: a 'cnt'-like parameter set with integer-valued driving forces / temperature / times that are exact in float32"""
    N, NR, _, _ = impl()
    v = []
    try:
        p = make_prec(c)
        m = make_matrix(c)
    except Exception as e:
        return [('no_internal_error', 'exception', 'building the parameters raised %s' % e)]
    dG = [float(d) for d in c['dG']]
    n = len(dG)
    T = float(c['T'])
    therm = StubTherm(np.array(dG), c['D0'], c['D1'], c['xa'], c['xb'])

    def cmp(fname, label, ref, got, rtol, arg_desc):
        ref = [np.atleast_1d(np.array(r, dtype=float)) for r in (ref if isinstance(ref, tuple) else (ref,))]
        try:
            got = got()
        except Exception as e:
            v.append(('dtype_agreement', fname, '%s(%s) raised %s: %s; the float64 array call returns %r' % (fname, arg_desc, type(e).__name__, e, [list(r[:3]) for r in ref])))
            return
        got = [np.atleast_1d(np.array(g, dtype=float)) for g in (got if isinstance(got, tuple) else (got,))]
        for r, g in zip(ref, got):
            if r.shape != g.shape or not np.all((np.abs(r - g) <= rtol * np.abs(r)) | (r == g) | (np.isnan(r) & np.isnan(g))):
                v.append(('dtype_agreement', fname, '%s called with %s (%s) returns %r; with the same values as a float64 array it returns %r'
                          % (fname, label, arg_desc, [float(a) for a in g[:4]], [float(a) for a in r[:4]])))
                return
    # reference values (float64 arrays)
    dGa = np.array(dG)
    Rc, Gc = (np.atleast_1d(a).astype(float) for a in quiet(NR.nucleationBarrier, dGa, p))
    Ta = T * np.ones(n)
    Z = np.atleast_1d(quiet(NR.zeldovich, Ta, Rc, p)).astype(float)
    xa_ = c['x'] * np.ones(n)
    b1 = np.atleast_1d(quiet(NR.betaBinary1, therm, xa_, Ta, Rc, m, p)).astype(float)
    tau = np.atleast_1d(quiet(NR.incubationTime, b1, Z, m)).astype(float)
    tt = float(c['times'][0])
    rate = np.atleast_1d(quiet(NR.nucleationRate, Z, b1, Gc, Ta, tau, tt)).astype(float)
    rnuc = np.atleast_1d(quiet(NR.nucleationRadius, Ta, Rc, p)).astype(float)
    for label, scalar, mk in _variants(dG, True, True):
        idxs = [[i] for i in range(n)] if scalar else [list(range(n))]
        rt = 2e-6 if 'float32' in label else 1e-12
        for idx in idxs:
            sub = [dG[i] for i in idx]
            cmp('nucleationBarrier', label, (Rc[idx], Gc[idx]), lambda: quiet(NR.nucleationBarrier, mk(sub), p), rt, 'dG = %r' % (mk(sub),))
            # temperature passed the same way (integer kelvin)
            Tv = [T] * len(idx)
            cmp('zeldovich', label, Z[idx], lambda: quiet(NR.zeldovich, mk(Tv), Rc[idx] if not scalar else float(Rc[idx][0]), p), rt, 'T = %r' % (mk(Tv),))
            cmp('nucleationRadius', label, rnuc[idx], lambda: quiet(NR.nucleationRadius, mk(Tv), Rc[idx] if not scalar else float(Rc[idx][0]), p), rt, 'T = %r' % (mk(Tv),))
            cmp('betaBinary1', label, b1[idx], lambda: quiet(NR.betaBinary1, therm, (xa_[idx] if not scalar else float(xa_[idx][0])), mk(Tv),
                                                            Rc[idx] if not scalar else float(Rc[idx][0]), m, p), rt, 'T = %r' % (mk(Tv),))
            cmp('nucleationRate', label, rate[idx],
                lambda: quiet(NR.nucleationRate, Z[idx] if not scalar else float(Z[idx][0]), b1[idx] if not scalar else float(b1[idx][0]),
                              Gc[idx] if not scalar else float(Gc[idx][0]), mk(Tv), tau[idx] if not scalar else float(tau[idx][0]), int(tt)),
                # a float32 temperature enters the exponent G*/kT: its rounding is amplified by the size of the exponent
                rt * (1 + np.abs(Gc[idx]) / (KB * T)) if 'float32' in label else rt, 'T = %r, time = %r' % (mk(Tv), int(tt)))
    # float-valued arguments as lists / 0-d arrays / float32
    for label, scalar, mk in _variants([0.0], False, False):
        idxs = [[i] for i in range(n)] if scalar else [list(range(n))]
        for idx in idxs:
            cmp('zeldovich', label, Z[idx], lambda: quiet(NR.zeldovich, mk(list(Ta[idx])), mk(list(Rc[idx])), p), 1e-12, 'T, Rcrit as %s' % label)
            cmp('incubationTime', label, tau[idx], lambda: quiet(NR.incubationTime, mk(list(b1[idx])), mk(list(Z[idx])), m), 1e-12, 'beta, Z as %s' % label)
            cmp('nucleationRate', label, rate[idx], lambda: quiet(NR.nucleationRate, mk(list(Z[idx])), mk(list(b1[idx])), mk(list(Gc[idx])), mk(list(Ta[idx])), mk(list(tau[idx])), tt), 1e-12, 'all arguments as %s' % label)
    # factor methods of the description of this case: ratios 0 and 1 as integers, 1/2 and 1/4 exactly representable
    d = description(c['site'])
    for fct in FACTORS:
        for ks, intlike in (([0.0, 1.0, 0.0], True), ([0.5, 0.25, 0.0], False)):
            ref = np.atleast_1d(quiet(getattr(d, fct), np.array(ks), False)).astype(float)
            for label, scalar, mk in _variants(ks, intlike, True):
                idxs = [[i] for i in range(len(ks))] if scalar else [list(range(len(ks)))]
                for idx in idxs:
                    sub = [ks[i] for i in idx]
                    cmp('%s' % fct, label, ref[idx], lambda: quiet(getattr(d, fct), mk(sub), False), 2e-6 if 'float32' in label else 1e-12, '%s, gbk = %r' % (c['site'], mk(sub)))
    return _dedupe(v)


def gen_dtype(rng, site):
    c = gen_cnt(rng, site, True)
    # integer-valued, exactly representable in float32 and int32: multiples of 1e8 J/m3 up to 2e9, 0 and a negative one
    ks = sorted(set(int(a) for a in rng.integers(1, 21, 5)))
    c['dG'] = [float(k * 10 ** 8) for k in ks] + [0.0, -float(int(rng.integers(1, 10)) * 10 ** 8), float(10 ** 9)]
    c['T'] = float(int(rng.integers(300, 1200)))
    c['times'] = [float(int(10 ** rng.uniform(0, 6)))]
    c['kind'] = 'dtype'
    return c


ORACLES = {'factors': oracle_factors, 'params': oracle_params, 'cnt': oracle_cnt, 'sites': oracle_sites, 'cache': oracle_cache, 'dtype': oracle_dtype}


def evaluate_case(c):
    return ORACLES[c['kind']](c)


# ==========================================================================================
# generators (every random choice from ctx.rng)
def gen_factors(rng, site, quick):
    km = kmax_of(site)
    if math.isinf(km):
        ks = [0.0] + [float(x) for x in rng.uniform(0, 3, 6)]
    else:
        n = 14 if quick else 60
        ks = [0.0, 0.5, float(rng.choice([0.25, 0.125, 0.75, 0.0625]))]
        ks += [float(x) for x in rng.uniform(0, km, n)]
        ks += [float(km * (1 - 10 ** (-e))) for e in rng.uniform(1, 9, 5)]          # towards k_max (1 - 1e-9)
        ks += [float(km * (1 - 1e-9)), float(km), float(np.nextafter(km, 2)), float(km * rng.uniform(1.0, 1.5))]
    return {'kind': 'factors', 'site': site, 'ks': sorted(set(ks))}


def gen_params(rng, site):
    km = kmax_of(site)
    mode = rng.choice(['below', 'equal', 'above', 'dyadic'], p=[0.45, 0.25, 0.15, 0.15])
    g = float(rng.choice([0.03, 0.05, 0.1, 0.15, 0.2, 0.25, 0.5, float(rng.uniform(0.02, 0.6))]))
    if math.isinf(km):
        e = float(rng.uniform(0, 1))
    elif mode == 'equal':
        e = 2 * g * km                      # ratio exactly the limit whenever the float product / quotient round-trips
        if e / (2 * g) != km:
            e = float(np.nextafter(e, 0)) if e / (2 * g) > km else float(np.nextafter(e, 10))
    elif mode == 'above':
        e = 2 * g * km * float(rng.uniform(1.0001, 2))
    elif mode == 'dyadic':
        g = float(rng.choice([0.125, 0.25, 0.5]))
        e = 2 * g * float(rng.choice([0.25, 0.5, 0.75, 1.0]))
    else:
        e = 2 * g * km * float(rng.uniform(0, 0.999))
    return {'kind': 'params', 'site': site, 'gamma': g, 'gbEnergy': float(e)}


def gen_cnt(rng, site, quick):
    km = kmax_of(site)
    g = float(rng.choice([0.03, 0.05, 0.1, 0.2, float(10 ** rng.uniform(-2, -0.3))]))
    k = float(rng.uniform(0, 0.97 * km)) if not math.isinf(km) else float(rng.uniform(0, 1.5))
    if rng.random() < 0.25 and not math.isinf(km):
        k = 0.5
    Rmin = float(rng.choice([3e-10, 1e-10, 5e-10, 0.0 if rng.random() < 0.3 else 3e-10]))
    T = float(rng.uniform(300, 1200))
    n = 10 if quick else 30
    dG = list(10 ** rng.uniform(6, 10.5, n)) + [0.0, -float(10 ** rng.uniform(5, 9)), 3 * g / max(Rmin, 1e-10), 2 * g / max(Rmin, 1e-10)]
    dG += [float(2 * g / max(Rmin, 1e-10) * f) for f in (0.5, 1.4, 1.6, 3.0)]
    dG = [float(d) for d in rng.permutation(np.array(dG))]
    xa = float(10 ** rng.uniform(-4, -1.5))
    return {'kind': 'cnt', 'site': site, 'gamma': g, 'gbEnergy': 2 * k * g, 'Vm': float(rng.uniform(0.7e-5, 1.5e-5)),
            'VmAlpha': float(rng.uniform(0.7e-5, 1.5e-5)), 'T': T, 'Rmin': Rmin, 'dG': dG, 'x': float(xa * rng.uniform(1.5, 20)),
            'D0': float(10 ** rng.uniform(-22, -12)), 'D1': float(10 ** rng.uniform(-22, -12)), 'xa': xa, 'xb': float(rng.uniform(0.2, 0.8)),
            'theta': float(rng.choice([2, 1, 4])), 'betaFunc': int(rng.choice([1, 2])),
            'times': [0.0] + sorted([float(t) for t in 10 ** rng.uniform(-3, 8, 3)] + ([1e-300, 1e300] if rng.random() < 0.3 else []))}


def gen_sites(rng, quick, shared=None):
    """shared = a site type: 2-3 phases all on that type (bulk / dislocations: a mix of the two, one pool)"""
    if shared is None and rng.random() < 0.5:
        shared = str(rng.choice(SITES))
    nph = int(rng.integers(2, 4)) if shared else int(rng.integers(1, 4))
    bins = int(rng.choice([5, 12, 30]))
    phases = []
    for i in range(nph):
        site = str(rng.choice(SITES))
        if shared:
            site = str(rng.choice(['bulk', 'dislocations'])) if shared in ('bulk', 'dislocations') and i > 0 else shared
        N = 10 ** rng.uniform(8, 24, bins)
        N[rng.random(bins) < 0.3] = 0
        ph = {'site': site, 'gamma': float(rng.uniform(0.17, 0.5)), 'N': [float(v) for v in N]}
        phases.append(ph)
    if nph > 1 and rng.random() < 0.3:
        phases[-1]['parents'] = [int(rng.integers(0, nph - 1))]
    return {'kind': 'sites', 'phases': phases, 'bins': bins, 'gbEnergy': float(rng.uniform(0.05, 0.25)),
            'grainSize': float(10 ** rng.uniform(-1, 2.5)), 'aspect': float(rng.uniform(1, 3)),
            'dislocationDensity': float(10 ** rng.uniform(10, 16)), 'bulkN0': (None if rng.random() < 0.6 else float(10 ** rng.uniform(20, 28))),
            'grow': [float(rng.uniform(1.2, 3.0)) for _ in range(nph)],
            'fill': [float(rng.choice([rng.uniform(0.05, 0.95), rng.uniform(0.05, 0.95), rng.uniform(1.0, 3.0)])) for _ in range(nph)]}


def gen_cache(rng, quick, twin=True):
    gvals = [0.03, 0.1, 0.15, 0.2, 0.4, 0.125]
    evals = [0.05, 0.1, 0.3, 0.25, 0.6]
    nops = int(rng.integers(4, 18))
    ops = []
    if rng.random() < 0.85:
        ops.append([str(rng.choice(['gamma', 'pgamma'])), float(rng.choice(gvals))])
    for _ in range(nops):
        r = rng.random()
        if r < 0.45:
            ops.append(['read', str(rng.choice(['GBk'] + FACTORS))])
        elif r < 0.62:
            ops.append([str(rng.choice(['gamma', 'pgamma'])), float(rng.choice(gvals)) if rng.random() < 0.93 else (None if rng.random() < 0.5 else 0.0)])
        elif r < 0.8:
            ops.append(['gbEnergy', float(rng.choice(evals)) if rng.random() < 0.95 else None])
        else:
            ops.append(['desc', str(rng.choice(SITES))])
        if rng.random() < 0.25:
            # a public computation that uses the cached factors (must leave them alone)
            dgs = [float(x) for x in rng.choice([1e8, 5e8, 2e9, 3e7], int(rng.integers(1, 3)), replace=False)]
            fn = str(rng.choice(['Rcrit', 'Gcrit', 'nucleationBarrier']))
            ops.append(['call', [fn, dgs] + ([float(rng.choice([3e-10, 1e-9, 4e-9]))] if fn == 'Gcrit' else [])])
        if rng.random() < 0.2:
            # read a factor, change ONE parameter, read the same factor again
            f = str(rng.choice(FACTORS))
            ch = [['desc', str(rng.choice(SITES))], ['gamma', float(rng.choice(gvals))], ['gbEnergy', float(rng.choice(evals))]][int(rng.integers(0, 3))]
            ops += [['read', f], ch, ['read', f]]
    ops.append(['read', str(rng.choice(FACTORS))])
    c = {'kind': 'cache', 'ops': ops, 'holder': str(rng.choice(['owned', 'standalone', 'attached']))}
    if twin and rng.random() < 0.3:
        c['other'] = gen_cache(rng, quick, twin=False)      # a second object alive at the same time, used alternately
        c['other'].pop('kind')
    return c


def gen_search(rng, quick, budget=1.0):
    cases = []
    rep = max(1, int((1 if quick else 6) * budget))
    for _ in range(rep):
        for s in SITES:
            cases.append(gen_factors(rng, s, quick))
    for _ in range(int((12 if quick else 120) * budget)):
        cases.append(gen_params(rng, str(rng.choice(GBSITES))))
    for _ in range(int((4 if quick else 30) * budget)):
        for s in SITES:
            cases.append(gen_cnt(rng, s, quick))
    for _ in range(max(1, int((1 if quick else 6) * budget))):
        for st in SITES:
            cases.append(gen_dtype(rng, st))
    for _ in range(max(1, int((1 if quick else 8) * budget))):
        for st in SITES:
            cases.append(gen_sites(rng, quick, shared=st))
    for _ in range(int((6 if quick else 60) * budget)):
        cases.append(gen_sites(rng, quick))
    for _ in range(int((30 if quick else 400) * budget)):
        cases.append(gen_cache(rng, quick))
    return cases


def corpus_cases():
    out = []
    p = os.path.join(VERIF, 'corpus', 'C14')
    if os.path.isdir(p):
        for f in sorted(os.listdir(p)):
            if f.endswith('.json'):
                c = json.load(open(os.path.join(p, f)))
                c = c.get('input', c)
                c['from_corpus'] = f
                out.append(c)
    return out


def hexcase(c):
    """exact (hex) rendering of every float of a case, next to the decimal one"""
    def h(o):
        if isinstance(o, float):
            return o.hex()
        if isinstance(o, list):
            return [h(x) for x in o]
        if isinstance(o, dict):
            return {k: h(v2) for k, v2 in o.items()}
        return o
    return {'case': c, 'hex': h({k: v2 for k, v2 in c.items() if k != 'from_corpus'})}


def _fails(c, clause, cls):
    try:
        return any(h[0] == clause and h[1] == cls for h in evaluate_case(c))
    except Exception:
        return False


def shrink(c, clause, cls):
    """smaller case that still violates the same clause"""
    cur = copy.deepcopy(c)
    cur.pop('from_corpus', None)
    if c['kind'] == 'factors':
        for k in c['ks']:
            d = dict(cur, ks=[k])
            if _fails(d, clause, cls):
                return d
        for i in range(len(c['ks']) - 1):
            d = dict(cur, ks=c['ks'][i:i + 2])
            if _fails(d, clause, cls):
                return d
    elif c['kind'] == 'dtype':
        for d_ in c['dG']:
            d = dict(cur, dG=[d_])
            if _fails(d, clause, cls):
                return d
    elif c['kind'] == 'cnt':
        for n in (1, 2):
            for i in range(len(c['dG']) - n + 1):
                d = dict(cur, dG=sorted(c['dG'])[i:i + n], times=c['times'][:2])
                if _fails(d, clause, cls):
                    return d
    elif c['kind'] == 'cache':
        ops = list(c['ops'])
        changed = True
        while changed:
            changed = False
            for i in range(len(ops)):
                d = dict(cur, ops=ops[:i] + ops[i + 1:])
                if d['ops'] and _fails(d, clause, cls):
                    ops = d['ops']
                    changed = True
                    break
        return dict(cur, ops=ops)
    elif c['kind'] == 'sites':
        if not any(p.get('parents') for p in c['phases']) and len(c['phases']) > 2:
            for i in range(len(c['phases'])):
                for j in range(i + 1, len(c['phases'])):
                    d = dict(cur, phases=[c['phases'][i], c['phases'][j]], grow=[c['grow'][i], c['grow'][j]], fill=[c['fill'][i], c['fill'][j]])
                    if _fails(d, clause, cls):
                        return d
        for i in range(len(c['phases'])):
            if c['phases'][i].get('parents') or any(p.get('parents') for p in c['phases']):
                continue
            d = dict(cur, phases=[c['phases'][i]], grow=[c['grow'][i]], fill=[c['fill'][i]])
            if _fails(d, clause, cls):
                return d
    return cur


# ==========================================================================================
# Coq side
def rlit(x):
    """exact real literal (R_scope) of a float / Fraction"""
    f = frac(x)
    if f.denominator == 1:
        return '(%d)' % f.numerator
    return '(%d / %d)' % (f.numerator, f.denominator)


GEN_UNFOLD = ('cbv beta zeta delta [' + ' '.join('%s_%s_gen' % (s, m) for s in SHORT.values() for m in FACTORS)
              + ' GrainEdge_alpha_gen GrainEdge_beta_gen GrainCorner_K_gen GrainCorner_phi_gen GrainCorner_delta_gen'
              + ' NBP_Rcrit_gen NBP_Gcrit_gen gbRatio_gen createArrays_valid_gen NBP_validateGBk_raises_gen invalid_value_gen]')

ENC_HEADER = '''From Coq Require Import Reals List Lra.
From Interval Require Import Tactic.
Require Import Kawin.C14.Model Kawin.C14.Analysis Kawin.C14.Enclose.
%s
Open Scope R_scope.
Ltac unf := %s.
'''


def run_enclosures(ctx, name, goals, gen=True, shards=16):
    """goals: list of Coq propositions (strings).  Each is decided inside Coq (kernel-checked proof or
    'not proved'); returns a list of booleans."""
    if not goals:
        return []
    header = ENC_HEADER % ('Require Import KawinRun.Nucleation_gen.' if gen else '', GEN_UNFOLD if gen else 'idtac')
    per = max(1, -(-len(goals) // shards))
    files = []
    for s in range(0, len(goals), per):
        path = os.path.join(ctx.build, '%s_%d.v' % (name, s // per))
        with open(path, 'w') as f:
            f.write(header)
            for i, g in enumerate(goals[s:s + per]):
                f.write('Definition v%d : {%s} + {True}.\nProof. decide_enclosure ltac:(unf; enclose_all). Defined.\nEval vm_compute in (verdict v%d).\n' % (i, g, i))
        files.append(path)
    with concurrent.futures.ThreadPoolExecutor(max_workers=16) as ex:
        res = list(ex.map(lambda p: ctx.coqc(p, timeout=900), files))
    out = []
    for p, (ok, o) in zip(files, res):
        if not ok:
            raise RuntimeError('enclosure file %s did not compile:\n%s' % (p, o[-1500:]))
        out += [parse_coq(b) for b in split_evals(o)]
    if len(out) != len(goals):
        raise RuntimeError('expected %d verdicts from Coq, got %d' % (len(goals), len(out)))
    return out


def regenerate(ctx):
    try:
        text, info = tr.translate(open(os.path.join(REPO, NSRC)).read())
    except tr.TranslationError as e:
        return False, 'translator: ' + str(e)
    except Exception as e:
        return False, 'translator failed unexpectedly: %s: %s' % (type(e).__name__, e)
    path = os.path.join(ctx.build, 'Nucleation_gen.v')
    open(path, 'w').write(text)
    ok, out = ctx.coqc(path)
    if not ok:
        return False, 'generated file does not compile: ' + out[-600:]
    return True, info


STATIC_FILES = ['C14/Properties.v', 'C14/PropertiesAnalysis.v']
RUN_FILES = ['C14/run/GenPropertiesA.v', 'C14/run/GenPropertiesB.v']


def theorems_of(rel):
    return re.findall(r'^\s*Theorem\s+([A-Za-z_0-9\']+)', open(os.path.join(COQ, rel)).read(), re.M)


def prove_parallel(ctx, files):
    """like ctx.prove, but the files are compiled concurrently (Print Assumptions over the Interval
    library costs seconds per theorem); returns (axioms, failed theorem names)"""
    def one(rel):
        src = os.path.join(COQ, rel)
        dst = os.path.join(ctx.build, os.path.basename(rel))
        shutil.copy(src, dst)
        ok, out = ctx.coqc(dst, timeout=1500)
        if not ok and not re.search(r'^Error|\nError', out):
            # killed / timed out without a Coq error (overloaded machine): not a verdict about the theorems; once more
            ctx.notes.setdefault('coq_retry', []).append({'file': rel, 'output': out[-300:]})
            ok, out = ctx.coqc(dst, timeout=1500)
        return rel, open(src).read(), ok, out
    with concurrent.futures.ThreadPoolExecutor(max_workers=len(files)) as ex:
        res = list(ex.map(one, files))
    axioms, failed = {}, []
    for rel, text, ok, out in res:
        thms = re.findall(r'^\s*Theorem\s+([A-Za-z_0-9\']+)', text, re.M)
        seen = ctx._parse_assumptions(out, text)
        axioms.update(seen)
        ctx.cov['obligations'] += len(thms)
        bad = [t for t in thms if t not in seen] if not ok else []
        if not ok:
            ctx.notes.setdefault('coq_errors', []).append({'file': rel, 'output': out[-1500:]})
        failed += bad
        ctx.cov['discharged'] += len(thms) - len(bad)
    used = sorted(set(a for v in axioms.values() for a in v))
    prim = [a for a in used if a.startswith(('Uint63.', 'PrimInt63.', 'PrimFloat.', 'FloatAxioms.', 'FloatOps.', 'Sint63.', 'SpecFloat.', 'PrimFloat', 'Float'))
            or 'Float' in a.split('.')[0] or 'Int63' in a]
    for a in used:
        if a in STD_AXIOMS:
            tb = 'axiom %s: %s' % (a, STD_AXIOMS[a])
        elif a in prim:
            continue
        else:
            tb = 'axiom/assumption reported by Print Assumptions: %s' % a
        if tb not in ctx.cov['trusted_base']:
            ctx.cov['trusted_base'].append(tb)
    if prim:
        tb = ('kernel primitive 63-bit integers and binary64 floats with their specification axioms (%d names such as %s), '
              'used by the Interval library in the proofs of the edge / corner theorems' % (len(prim), ', '.join(prim[:3])))
        if tb not in ctx.cov['trusted_base']:
            ctx.cov['trusted_base'].append(tb)
    short = {t: ([a for a in v if a not in prim] + (['<%d primitive int/float axioms>' % len([a for a in v if a in prim])] if any(a in prim for a in v) else []))
             for t, v in axioms.items()}
    ctx.notes.setdefault('print_assumptions', {}).update(short)
    ctx.cov['checker_cmd'] = 'coqc -R coq Kawin -R build/C14 KawinRun <file>.v (Coq 8.16.1 kernel; full .vo build, no -vos)'
    return axioms, failed


# ==========================================================================================
# correspondence 1: generated factor definitions vs the description methods
def corr_factors(ctx, quick):
    goals, meta = [], []
    rng = ctx.rng
    for site in SITES:
        d = description(site)
        km = kmax_of(site)
        short = SHORT[site]
        if math.isinf(km):
            ks = [0.0, 0.5, float(rng.uniform(0, 3))]
        else:
            ks = [0.0, 0.5, float(rng.choice([0.25, 0.125, 0.75])), float(km * (1 - 1e-3)), float(km * (1 - 10 ** (-rng.uniform(3, 6))))]
            ks += [float(x) for x in rng.uniform(0, km, 3 if quick else 20)]
            ks += [float(km * rng.uniform(1.001, 1.5))]
            if site == 'grain boundaries':
                ks.append(1.0)
        ks = sorted(set(ks))
        arr = {f: np.atleast_1d(quiet(getattr(d, f), np.array(ks), False)).astype(float) for f in FACTORS}
        mlit = {'grain boundaries': '1', 'grain edges': '(sqrt 3 / 2)', 'grain corners': '(sqrt (2 / 3))'}.get(site)
        for i, k in enumerate(ks):
            for f in FACTORS:
                y = float(arr[f][i])
                if not math.isfinite(y):
                    meta.append((site, f, k, y, 'nonfinite'))
                    goals.append('False')
                    continue
                if mlit is not None and y == -1.0 and k >= km * (1 - 1e-12):
                    g = '~ createArrays_valid_gen %s %s /\\ Rabs (invalid_value_gen - %s) <= 0' % (rlit(k), mlit, rlit(y))
                    kind = 'placeholder'
                else:
                    tol = 1e-9 * (1 + abs(y)) + (2e-14 / (1 - k / km) if not math.isinf(km) and k < km else 0)
                    g = 'Rabs (%s_%s_gen %s - %s) <= %s' % (short, f, rlit(k), rlit(y), rlit(tol))
                    if mlit is not None:
                        g = 'createArrays_valid_gen %s %s /\\ %s' % (rlit(k), mlit, g)
                    kind = 'formula'
                goals.append(g)
                meta.append((site, f, k, y, kind))
    verdicts = run_enclosures(ctx, 'enc_factors', ['(%s)' % g if '/\\' not in g else g for g in goals])
    dis = []
    for (site, f, k, y, kind), ok in zip(meta, verdicts):
        ctx.count({'corr': 'factor', 'site': site, 'f': f, 'k': k.hex()}, k > 0)
        ctx.hist('factor_enclosure', site + '/' + kind)
        if not ok:
            dis.append(('factor', {'kind': 'factors', 'site': site, 'ks': [k]},
                        '%s.%s(k=%r) = %r is not within tolerance of the generated definition %s_%s_gen (%s branch)' % (site, f, k, y, SHORT[site], f, kind)))
    return dis


# correspondence 2: NucleationBarrierParameters.Rcrit / Gcrit and every function of NucleationRate.py
def corr_cnt(ctx, quick):
    rng = ctx.rng
    goals, meta = [], []
    ncase = 2 if quick else 12
    REL = 1e-9
    for site in SITES:
        for _ in range(ncase):
            c = gen_cnt(rng, site, True)
            nd = 4 if quick else 6          # quick tier: 4 driving forces per case (negative / zero / unclamped / clamped)
            sd = sorted(c['dG'])
            c['dG'] = [sd[int(round(j))] for j in np.linspace(0, len(sd) - 1, nd)]
            o = run_cnt(c, scalar=True)
            if o['err']:
                meta.append((c, 'run', 0, None))
                goals.append('False')
                continue
            p = make_prec(c)
            g, gbE, Rmin, T = c['gamma'], c['gbEnergy'], c['Rmin'], c['T']
            a, b, vf, Vm, lat = o['af'], o['gbr'], o['vf'], o['Vm'], o['a']
            isgb = site in GBSITES

            def enc(expr, y, what, i, floor=1e-300):
                if not math.isfinite(y):
                    goals.append('False')
                else:
                    goals.append('(Rabs (%s - %s) <= %s)' % (expr, rlit(y), rlit(REL * abs(y) + floor)))
                meta.append((c, what, i, y))
            if isgb:
                dg0 = float(c['dG'][-1]) if c['dG'][-1] > 0 else 1e8
                r0 = float(quiet(p.nucleation.Rcrit, dg0))
                enc('NBP_Rcrit_gen %s %s %s %s %s %s' % tuple(rlit(v) for v in (a, g, b, gbE, vf, dg0)), r0, 'NBP.Rcrit', -1)
                rr = float(rng.choice([r0, 3e-9, 2 * r0]))
                g0 = float(quiet(p.nucleation.Gcrit, dg0, rr))
                sc = rr ** 2 * (abs(a * g) + abs(b * gbE) + abs(vf * dg0 * rr))
                goals.append('(Rabs (NBP_Gcrit_gen %s %s %s %s %s %s %s - %s) <= %s)' % (tuple(rlit(v) for v in (a, g, b, gbE, vf, dg0, rr, g0)) + (rlit(REL * sc),)))
                meta.append((c, 'NBP.Gcrit', -1, g0))
            for i, dg in enumerate(c['dG']):
                Rc, Gc, Z = float(o['Rcrit'][i]), float(o['Gcrit'][i]), float(o['Z'][i])
                b1, b2, tau, rss, rn = float(o['beta1'][i]), float(o['beta2'][i]), float(o['tau'][i]), float(o['rate_ss'][i]), float(o['Rnuc'][i])
                beta = float(o['beta'][i])
                if isgb:
                    bar = 'barrier_gb %s %s %s %s %s %s %s' % tuple(rlit(v) for v in (a, g, b, gbE, vf, Rmin, dg))
                else:
                    bar = 'barrier_bulk 1 %s %s %s' % tuple(rlit(v) for v in (g, Rmin, dg))
                enc('fst (%s)' % bar, Rc, 'nucleationBarrier.Rcrit', i, 0)
                enc('snd (%s)' % bar, Gc, 'nucleationBarrier.Gcrit', i, 0)
                enc('zeldovich %s %s %s %s %s' % tuple(rlit(v) for v in (vf, Vm, g, T, Rc)), Z, 'zeldovich', i, 0)
                enc('beta1 %s %s %s %s %s' % tuple(rlit(v) for v in (a, Rc, c['x'], c['D1'], lat)), b1, 'betaBinary1', i, 0)
                enc('beta2 %s %s %s %s %s %s %s' % tuple(rlit(v) for v in (a, Rc, c['xa'], c['xb'], c['D0'], c['D1'], lat)), b2, 'betaBinary2', i, 0)
                enc('incubationTime %s %s %s' % tuple(rlit(v) for v in (c['theta'], beta, Z)), tau, 'incubationTime', i, 0)
                enc('nucleationRate_ss %s %s %s %s' % tuple(rlit(v) for v in (Z, beta, Gc, T)), rss, 'nucleationRate(steady)', i)
                pt = [j for j, tj in enumerate(c['times']) if tj > 0]
                j = pt[i % len(pt)]
                enc('nucleationRate %s %s %s %s %s %s' % tuple(rlit(v) for v in (Z, beta, Gc, T, tau, c['times'][j])), float(o['rate_t'][j][i]), 'nucleationRate(t)', i)
                if 0.0 in c['times'] and (Gc == 0 or tau > 0):
                    # first evaluation of a run: time = 0 (exp(-tau/0) = 0 in binary64; masked entries stay 0)
                    enc('nucleationRate_ext %s %s %s %s %s 0' % tuple(rlit(v) for v in (Z, beta, Gc, T, tau)), float(o['rate_t'][c['times'].index(0.0)][i]), 'nucleationRate(t=0)', i, 0)
                enc('nucleationRadius %s %s %s' % tuple(rlit(v) for v in (T, Rc, g)), rn, 'nucleationRadius', i, 0)
    verdicts = run_enclosures(ctx, 'enc_cnt', goals)
    dis = []
    for (c, what, i, y), ok in zip(meta, verdicts):
        ctx.count({'corr': 'cnt', 'what': what, 'i': i, 'c': hexcase(c)['hex']}, i >= 0 and c['dG'][i] > 0 if i >= 0 else True)
        ctx.hist('cnt_enclosure', what)
        if not ok:
            d = dict(c)
            if i >= 0:
                d['dG'] = [c['dG'][i]]
            dis.append(('cnt:' + what, d, '%s returned %r; not within relative tolerance 1e-9 of the model (site %s, gamma=%r, gbEnergy=%r, Rmin=%r, T=%r, dG=%r)'
                        % (what, y, c['site'], c['gamma'], c['gbEnergy'], c['Rmin'], c['T'], c['dG'][i] if i >= 0 else None)))
    return dis


# correspondence 3: _calcNucleationSites vs the exact-rational model
SITES_HEADER = '''From Coq Require Import QArith List ZArith.
Require Import Kawin.Common.Ops Kawin.Common.Vec Kawin.Common.Out Kawin.C14.Model Kawin.C14.Corr.
Import ListNotations.
Open Scope Q_scope.
'''


def corr_sites(ctx, quick):
    rng = ctx.rng
    terms, meta = [], []
    for _ in range(12 if quick else 150):
        c = gen_sites(rng, quick)
        try:
            m, x, s = run_sites(c)
        except TieBroken as e:
            if str(e) not in TIE_BROKEN:
                TIE_BROKEN.append(str(e))
            continue
        except Exception as e:
            meta.append((c, None, 'raised %s' % e))
            continue
        ns = m.matrixParameters.nucleationSites
        VmA = m.matrixParameters.volume.Vm
        M = '(@mkMatrix Qops %s %s %s %s %s %s %s %s)' % tuple(qlit(v) for v in (
            ns.bulkN0, ns.dislocationN0, ns.GBareaN0, ns.GBedgeN0, ns.GBcornerN0, (NAV / VmA) ** (1 / 3), (NAV / VmA) ** (2 / 3), 4 * np.pi))
        phs = []
        for i, ph in enumerate(c['phases']):
            nuc = m.precipitateParameters[i].nucleation
            gbr = float(nuc.gbRemoval) if ph['site'] == 'grain boundaries' else 0.0
            ew = float(np.sqrt(1 - nuc.GBk ** 2)) if ph['site'] == 'grain edges' else 0.0
            surf = (NAV / m.precipitateParameters[i].volume.Vm) ** (2 / 3)
            phs.append('(@mkPhase Qops %s %s %s %s %s %s)' % (COQSITE[ph['site']], qlist(m.PBM[i].PSDsize), qlist(x[i]), qlit(gbr), qlit(ew), qlit(surf)))
        for p, ph in enumerate(c['phases']):
            par = '[' + '; '.join(natlit(j) for j in ph.get('parents', [])) + ']'
            terms.append('check_sites (1 # 68719476736) %s [%s] %s %s %s' % (M, '; '.join(phs), par, COQSITE[ph['site']], qlit(s[p])))
            meta.append((c, p, s[p]))
    res = iter(ctx.coq_eval('sites', SITES_HEADER, terms, shard=max(2, -(-len(terms) // 16))))
    dis = []
    for c, p, s in meta:
        if p is None:
            dis.append(('sites', c, '_calcNucleationSites ' + s))
            continue
        ok, tie, ap = next(res)
        ctx.count({'corr': 'sites', 'c': hexcase(c)['hex'], 'p': p}, s > 0)
        ctx.hist('sites', c['phases'][p]['site'] + ('/parents' if c['phases'][p].get('parents') else '') + ('/exhausted' if s == 0 else ''))
        if tie and not ok:
            ctx.notes['indeterminate_near_tie'] = ctx.notes.get('indeterminate_near_tie', 0) + 1
        elif not ok:
            dis.append(('sites', c, '_calcNucleationSites(phase %d, %s) = %r, model %r' % (p, c['phases'][p]['site'], s, float(tofrac(ap)))))
    return dis


# correspondence 4: cached factors, state machine with the generated reset table vs the object
CACHE_HEADER = '''From Coq Require Import ZArith List.
Require Import Kawin.C14.Model KawinRun.CorrCache.
Import ListNotations.
Open Scope Z_scope.
'''
SLOT = {'GBk': 'SGBk', 'areaFactor': 'SArea', 'volumeFactor': 'SVol', 'gbRemoval': 'SGbRem', 'areaRemoval': 'SAreaRem'}
SLOTR = {v: k for k, v in SLOT.items()}
SITER = {v: k for k, v in COQSITE.items()}


def corr_cache(ctx, quick):
    rng = ctx.rng
    cases = [gen_cache(rng, quick) for _ in range(40 if quick else 600)]
    terms, tabs = [], []
    for c in cases:
        gv, ev = [None, 0.0], [None]

        def code(tab, v):
            if v not in tab:
                tab.append(v)
            return tab.index(v)
        ops = []
        idx = []            # position of every case operation in the model's operation list (None: no model operation)
        code(ev, 0.3)
        cur_site = 'dislocations'
        for op, arg in c['ops']:
            idx.append(len(ops))
            if op == 'desc':
                ops.append('SetDesc %s' % COQSITE[arg])
                cur_site = arg
            elif op in ('gamma', 'pgamma'):
                ops.append('SetGamma %d' % code(gv, arg))
            elif op == 'gbEnergy':
                ops.append('SetGbE %d' % code(ev, arg))
            elif op == 'call':
                # a public computation is, for the cache, the reads it performs (area factor, removed boundary, volume factor);
                # nucleationBarrier touches the factors only for grain-boundary sites
                if arg[0] != 'nucleationBarrier' or c.get('holder') == 'standalone' or cur_site in GBSITES:
                    ops += ['Read SArea', 'Read SGbRem', 'Read SVol']
                else:
                    idx[-1] = None
            else:
                ops.append('Read %s' % SLOT[arg])
        c['_idx'] = idx
        bad = []
        for s in GBSITES:
            for ei, e in enumerate(ev):
                for gi, g in enumerate(gv):
                    if e is not None and g and e / (2 * g) >= kmax_of(s):
                        bad.append('(%s, %d, %d)' % (COQSITE[s], ei, gi))
        terms.append('cache_run [%s] Disl 0 %d [%s]' % ('; '.join(bad), ev.index(0.3), '; '.join(ops)))
        tabs.append((gv, ev))
    res = ctx.coq_eval('cache', CACHE_HEADER, terms, shard=max(2, -(-len(terms) // 8)))
    dis = []
    for c, (gv, ev), model in zip(cases, tabs, res):
        idx_ = c.pop('_idx')
        got = run_cache_impl(c)
        c['_idx'] = idx_
        ctx.count({'corr': 'cache', 'ops': c['ops']}, sum(1 for o in c['ops'] if o[0] != 'read') >= 2)
        ctx.hist('cache_ops', '<=8' if len(c['ops']) <= 8 else '9-14' if len(c['ops']) <= 14 else '>14')
        ctx.hist('cache_holder', c.get('holder', 'owned'))
        idx = c.pop('_idx')
        for i, ((op, arg), val) in enumerate(zip(c['ops'], got)):
            if op != 'read':
                continue
            mo = model[idx[i]]
            if mo == 'Raised':
                exp = 'ValueError'
            else:
                slot, site, (ei, gi) = mo[1]
                exp = read_params(SITER[site] if slot != 'SGBk' else 'bulk', gv[gi], ev[ei])[SLOTR[slot]]
            if exp != val and not (isinstance(exp, float) and isinstance(val, float) and math.isnan(exp) and math.isnan(val)):
                dis.append(('cache', c, '%s object, operation %d (read %s): implementation %r, state machine with the generated reset table %r' % (c.get('holder', 'owned'), i, arg, val, exp)))
                break
    return dis


# ==========================================================================================
def site_of(c, clause):
    return {'factors': NSRC + ':' + SHORT.get(c.get('site', ''), '') + 'Description', 'params': NSRC + ':NucleationBarrierParameters',
            'cnt': 'kawin/precipitation/NucleationRate.py', 'sites': 'kawin/precipitation/KWNEuler.py:_calcNucleationSites',
            'cache': NSRC + ':NucleationBarrierParameters', 'dtype': 'kawin/precipitation/NucleationRate.py'}[c['kind']]


def report_hits(ctx, hits):
    seen = set()
    for c, clause, cls, msg in hits:
        site = site_of(c, clause)
        if (clause, cls, site) in seen:
            continue
        seen.add((clause, cls, site))
        small = c if c.get('from_corpus') else shrink(c, clause, cls)
        msgs = [h[2] for h in evaluate_case(small) if h[0] == clause and h[1] == cls] if small is not c else [msg]
        rep = hexcase({k: v for k, v in small.items() if k != 'from_corpus'})
        ctx.violation(clause, {'site': site, 'cls': cls},
                      {'kind': 'input', 'input': rep['case'], 'input_hex': rep['hex'], 'observed': msgs[0] if msgs else msg,
                       'corpus': c.get('from_corpus'),
                       'oracle': 'independent recomputation from the property text / geometry of the nucleus (harness/c14.py: oracle_%s)' % c['kind']},
                      msgs[0] if msgs else msg)


def search(ctx, cases):
    hits = []
    for c in cases:
        try:
            hs = evaluate_case(c)
        except Exception as e:
            hs = [('no_internal_error', 'exception', 'evaluating a %s case raised %s: %s' % (c['kind'], type(e).__name__, e))]
        nontrivial = {'factors': c.get('site') in GBSITES, 'params': True, 'cache': True, 'sites': True, 'dtype': True,
                      'cnt': any(d > 0 for d in c.get('dG', []))}[c['kind']]
        ctx.count(hexcase({k: v for k, v in c.items() if k != 'from_corpus'})['hex'], nontrivial)
        ctx.hist('search_kind', c['kind'] + ('/' + c['holder'] if c.get('holder') else '') + ('/corpus' if c.get('from_corpus') else ''))
        if 'site' in c:
            ctx.hist('search_site', c['site'])
        hits += [(c, *h) for h in hs]
    return hits


def run(ctx):
    quick = ctx.quick
    ctx.cov['rule'] = ('search: per site type sweeps of the energy ratio (0, 0.5, random, towards k_max(1-1e-9), k_max, above), parameter objects with '
                       'ratios below / equal to / above the limit, classical-nucleation cases (5 site types; gamma, Rmin, T, volumes, diffusivities random; driving '
                       'forces from -1e9 to 3e10 J/m3 including 0 and the values where the radius is clamped; array and scalar calls; 4 times), nucleation-site cases '
                       '(1-3 phases, all site types, parent phases, exhausted sites), random setter/read sequences; correspondences: pointwise enclosures of every '
                       'factor method / Rcrit / Gcrit / NucleationRate function, exact-rational site counts, state-machine runs.  Non-trivial = grain-boundary, edge '
                       'or corner site, a positive driving force, a sequence with >= 2 setter calls; distinct by hash of the exact input')
    import time as _t
    T0 = _t.time()
    tm = ctx.notes.setdefault('timing_s', {})
    # ---- 1. regenerate --------------------------------------------------------------------------
    tie_ok, info = regenerate(ctx)
    failed = []
    bridge_ok = False
    if tie_ok:
        ctx.notes['translator'] = {k: info[k] for k in ('definitions', 'Rcrit_signature', 'Gcrit_signature')}
        ctx.notes['generated_sha256'] = info['sha256']
        for fn in ('Bridge.v', 'CorrCache.v'):
            shutil.copy(os.path.join(COQ, 'C14', 'run', fn), os.path.join(ctx.build, fn))
        bridge_ok, bout = ctx.coqc(os.path.join(ctx.build, 'Bridge.v'))
        if not bridge_ok:
            ctx.notes.setdefault('coq_errors', []).append({'file': 'C14/run/Bridge.v', 'output': bout[-1500:]})
    else:
        ctx.notes['tie_broken'] = info
    # ---- 2. prove (in the background: Print Assumptions over Interval is slow) ---------------------
    pool = concurrent.futures.ThreadPoolExecutor(max_workers=1)
    files = STATIC_FILES + (RUN_FILES if bridge_ok else [])
    fut = pool.submit(prove_parallel, ctx, files)
    # ---- 3. corpus + search with the independent oracle (always) -----------------------------------
    tm['regenerate+bridge'] = round(_t.time() - T0, 1)
    hits = search(ctx, corpus_cases() + gen_search(ctx.rng, quick))
    tm['search'] = round(_t.time() - T0, 1)
    # ---- 4. correspondences ---------------------------------------------------------------------
    dis = []

    def attempt(name, fn):
        try:
            t1 = _t.time()
            r = fn(ctx, quick)
            tm['corr_' + name] = round(_t.time() - t1, 1)
            return r
        except Exception as e:
            return [(name + '-crash', None, 'correspondence %s could not be evaluated: %s' % (name, str(e)[-600:]))]
    if tie_ok:
        dis += attempt('factors', corr_factors)
    dis += attempt('cnt', corr_cnt if tie_ok else (lambda c, q: []))
    dis += attempt('sites', corr_sites)
    if bridge_ok:
        ok, out = ctx.coqc(os.path.join(ctx.build, 'CorrCache.v'))
        dis += attempt('cache', corr_cache) if ok else [('cache-build', None, 'run/CorrCache.v does not compile: ' + out[-300:])]
    axioms, failed = fut.result()
    tm['all_incl_proofs'] = round(_t.time() - T0, 1)
    pool.shutdown()
    dependent = []          # theorems about the generated text that cannot be checked because the tie itself is broken
    if not bridge_ok:
        for rel in RUN_FILES:
            thms = theorems_of(rel)
            ctx.cov['obligations'] += len(thms)
            dependent += thms
    ctx.cov['traces_validated_against_impl'] = ctx.cov['evaluations']
    ctx.notes['disagreements'] = len(dis)
    ctx.notes['disagreement_examples'] = [d[2] for d in dis[:5]]
    ctx.notes['oracle_hits'] = len(hits)
    # ---- 5. something broke and the search found nothing: search harder ----------------------------
    if (not tie_ok or failed or dependent or dis) and not hits:
        # the inputs on which the correspondence failed first, then a larger random budget
        more = [d[1] for d in dis if d[1] is not None]
        hits = search(ctx, more) + search(ctx, gen_search(ctx.rng, quick, budget=4.0))
    report_hits(ctx, hits)
    if not hits:
        # ONE line for a broken tie (the theorems about the generated text that depend on it are listed in the replay file)
        if not tie_ok:
            ctx.violation('translator', {'site': 'harness/c14_translate.py', 'cls': 'unsupported source'},
                          {'broken': {'tie': 'translator', 'error': info, 'file': NSRC, 'unchecked_theorems': dependent}},
                          'tie broken: the source is outside the translated subset (%s); %d theorems about the generated text could not be re-checked; the search found no failing input'
                          % (info, len(dependent)), no_input=True)
        elif not bridge_ok:
            err = (ctx.notes.get('coq_errors') or [{}])[0].get('output', '')
            m_ = re.search(r'File "[^"]*Bridge\.v", line (\d+)', err)
            ctx.violation('bridge', {'site': 'coq/C14/run/Bridge.v', 'cls': 'generated text differs from the specification'},
                          {'broken': {'tie': 'bridge', 'file': 'coq/C14/run/Bridge.v', 'error': err[-800:], 'unchecked_theorems': dependent}},
                          'tie broken: the definitions generated from the current source are no longer provably equal to the specification (coq/C14/run/Bridge.v%s); '
                          '%d theorems about the generated text could not be re-checked; the search found no failing input' % (' line ' + m_.group(1) if m_ else '', len(dependent)), no_input=True)
        for t in failed:
            ctx.violation(t, {'site': 'coq/C14', 'cls': 'proof'}, {'broken': {'theorem': t, 'errors': ctx.notes.get('coq_errors', [])[:2]}},
                          'theorem %s no longer checks against the text generated from the current source' % t, no_input=True)
    elif failed or dependent or not tie_ok:
        ctx.notes['unchecked_theorems'] = failed + dependent
    for msg in TIE_BROKEN:
        ctx.violation('observation', {'site': 'harness/c14.py', 'cls': 'observation point missing'}, {'broken': {'tie': 'observation', 'error': msg}},
                      'tie broken: ' + msg, no_input=True)
    # a correspondence that broke is reported unless the search produced a failing input of the same kind
    hit_kinds = set(h[0]['kind'] for h in hits)
    kinds = set()
    for kind, c, d in dis:
        ck = {'factor': 'factors', 'sites': 'sites', 'cache': 'cache'}.get(kind, 'cnt' if kind.startswith('cnt') else None)
        if kind in kinds or (ck in hit_kinds):
            continue
        kinds.add(kind)
        nk = len([x for x in dis if x[0] == kind])
        ctx.violation('correspondence', {'site': 'coq/C14/Model.v', 'cls': kind},
                      {'broken': {'correspondence': 'model / generated definitions vs implementation', 'first_disagreement': d},
                       'input': c, 'disagreements': nk},
                      'model and implementation disagree (%d cases of this kind), e.g. %s' % (nk, d), no_input=True)
    ctx.assumptions += [
        'edge / corner sign and monotonicity theorems hold on [0, 0.865] resp. [0, 0.8155]; the last 1e-3 below sqrt(3)/2 resp. sqrt(2/3) are sampled only (sweeps to k_max (1 - 1e-9)); there the binary64 evaluation of the corner formulas carries an absolute error of about 3.5e-15 / (1 - k/k_max) (measured against 60-digit arithmetic), which the oracle tolerates',
        'the real-number model has no NaN / inf: "finite" is proved as "denominators do not vanish for valid parameters" and sampled on the implementation (overflow of exp, 0/0)',
        'NucleationRate.py is modelled by hand (coq/C14/Model.v section 3) and tied by pointwise enclosures only (relative tolerance 1e-9, proved by interval arithmetic on exact inputs); a defect smaller than the tolerance is invisible',
        'the translator maps numpy elementwise functions to Reals functions (np.arcsin -> asin, ...); array calls are sampled against scalar calls',
        'monotonicity of the steady-state rate is proved for an impingement rate of the form kbeta * Rcrit^2 with kbeta independent of the driving force (betaBinary1/2 and betaMulti at fixed composition and temperature)',
        'the number of sites is proved non-increasing only without parent phases (sites on parent precipitates grow with the parent population by design)',
        'cache coherence: the reset table (which setter calls _resetFactors, which slots it clears, shape of every cached property) is read off the source by the translator; callbacks into PrecipitateParameters.validate are sampled (setter path "pgamma")',
        'geometry oracle: volume and boundary area of the nucleus by midpoint quadrature of the intersection of unit spheres (relative tolerance 4e-3)']
    ctx.cov['trusted_base'] += ['Coq 8.16.1 kernel, vm_compute, Interval 4 / Coquelicot libraries',
                                'translator harness/c14_translate.py (fail-closed; its output is compared with the running Python methods by enclosure goals on every run)',
                                'hand model coq/C14/Model.v of NucleationRate.py, _calcNucleationSites and the cache state machine + harness/c14.py',
                                'float -> exact rational transport (float.as_integer_ratio) and the Coq output parser in harness/common.py',
                                'stub thermodynamics (prescribed driving force, constant tracer diffusivities) for the impingement functions']


def replay(ctx, obj):
    c = obj.get('input') or obj
    if 'kind' not in c or c['kind'] not in ORACLES:
        print('replay: no failing input in this file (%s)' % obj.get('kind'))
        return 1
    if obj.get('input_hex'):
        def unh(o):
            if isinstance(o, str):
                try:
                    return float.fromhex(o) if ('0x' in o and 'p' in o) else o
                except ValueError:
                    return o
            if isinstance(o, list):
                return [unh(x) for x in o]
            if isinstance(o, dict):
                return {k: unh(v) for k, v in o.items()}
            return o
        c = unh(obj['input_hex'])
    hits = evaluate_case(c)
    for h in hits:
        print('replay:', h)
    print('replay: %d oracle violations on this input' % len(hits))
    return 1 if hits else 0
