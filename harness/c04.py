"""C04 - diffusion conserves every component and honours boundary conditions.

proof:          coq/C04/Properties.v (theorems about the real instance of coq/C04/Model.v; interior face
                fluxes are arbitrary oracles, one per Runge-Kutta stage)
correspondence: SinglePhaseModel / HomogenizationModel of the repository are run (stub interdiffusivities,
                scripted mobility tables, optionally real pycalphad databases); every `_getFluxes` call and
                every solver step is logged through public extension points (a logging subclass, a wrapped
                iterator passed as `solverType`, an observer registered with `addCouplingModel`).  The same
                inputs, shipped exactly, are evaluated by the model on exact rationals inside Coq:
                  applyBoundaryConditionsToFluxes, getdXdt, one Euler / RK4 step incl. stage profiles and the
                  postProcess clip, SinglePhaseModel._getFluxes, HomogenizationModel._getFluxes, setup (twice).
search:         an oracle written from the property text (exact rational mesh sums, prescribed boundary
                values, fixed nodes, bounds, nothing happens between solve calls) is evaluated on the runs.
"""
import copy, json, math
from fractions import Fraction
import numpy as np
from common import *

LEVEL = 'proof'
RT = '(1 # 68719476736)'          # 2^-36
TOL = Fraction(1, 2 ** 40)        # oracle: relative to summed magnitudes

HEADER = '''From Coq Require Import QArith List ZArith Floats.
Require Import Kawin.Common.Ops Kawin.Common.Vec Kawin.Common.Out Kawin.C04.Model Kawin.C04.Corr.
Import ListNotations.
Open Scope Q_scope.
'''
ELS = ['A', 'B', 'CC', 'D']        # 'CC': not an interstitial name ('C' is)
GAS = None


# ------------------------------------------------------------------------------------------
# stubs (thermodynamics are oracles of the model: any function will do)
class StubD:
    """interdiffusivity: a deterministic function of the (composition, temperature) key that
    kawin's own cache uses, so that a cache hit and a fresh call return the same value"""
    def __init__(self, ne, base, a, off):
        self.ne, self.base, self.a, self.off = ne, base, a, off

    def clearCache(self):
        pass

    def getInterdiffusivity(self, x, T, phase=None):
        k = (np.concatenate((np.atleast_1d(x), [T])) * 1e4).astype(np.int32)
        xs = k[:-1] / 1e4
        f = self.base * math.exp(-1000.0 / (k[-1] / 1e4))
        if self.ne == 1:
            return f * (1 + self.a * xs[0])
        D = np.zeros((self.ne, self.ne))
        for i in range(self.ne):
            for j in range(self.ne):
                D[i, j] = f * ((2.0 if i == j else self.off) + self.a * xs[j] * (1 if i == j else -1))
        return D


class ScriptedTable:
    """stands in for model.hashTable of a HomogenizationModel: every query returns scripted mobility
    data (two phases), so the repository's homogenisation functions run without pycalphad"""
    def __init__(self, nall, scale, skew):
        self.nall, self.scale, self.skew = nall, scale, skew
        self.phases = np.array(['P1', 'P2'])

    def retrieveFromHashTable(self, x, T):
        from kawin.diffusion.DiffusionParameters import MobilityData
        x = np.atleast_1d(x)
        xf = np.concatenate(([1 - np.sum(x)], x))
        mob = np.array([[self.scale * (1 + k + self.skew * p) * (1 + xf[k]) for k in range(self.nall)]
                        for p in range(2)]) * math.exp(-1000.0 / T)
        f1 = min(max(0.3 + 0.4 * x[0], 0.05), 0.95)
        mu = 8.314 * T * np.log(np.clip(xf, 1e-12, 1)) + 1000 * xf
        return MobilityData(mobility=mob, phases=self.phases, phase_fractions=np.array([f1, 1 - f1]),
                            chemical_potentials=mu)

    def addToHashTable(self, x, T, v):
        pass

    def clearCache(self):
        pass

    def setHashSensitivity(self, s):
        pass

    def enableCaching(self, b):
        pass


class ThermStub:
    def __init__(self, elements):
        self.elements = list(elements) + ['VA']
        self.numElements = len(elements)
        self.phases = ['P1', 'P2']

    def clearCache(self):
        pass


class Observer:
    def __init__(self):
        self.log = []

    def updateCoupledModel(self, model):
        self.log.append((float(model.t), np.array(model.x, copy=True)))


class StopRun(Exception):
    pass


STEP_CAP = 250


class WrapIter:
    """iterator with the public iterator signature that forwards to the repository's own iterator and
    records what goes in and what comes out"""
    def __init__(self, model, kind):
        from kawin.solver.Iterators import ExplicitEulerIterator, RK4Iterator
        self.it = ExplicitEulerIterator if kind == 'euler' else RK4Iterator
        self.model = model
        self.log = []

    def __call__(self, f, t, X, updateX):
        if len(self.log) >= STEP_CAP:
            raise StopRun()
        X0 = np.array(X, copy=True)
        i0 = len(self.model.fluxlog)
        Xn, dt = self.it(f, t, X, updateX)
        self.log.append({'t': float(t), 'X0': X0, 'Xn': np.array(Xn, copy=True), 'dt': float(dt),
                         'calls': (i0, len(self.model.fluxlog))})
        return Xn, dt


_logging_cache = {}


def logging_class(kind):
    from kawin.diffusion import SinglePhaseModel, HomogenizationModel
    if kind not in _logging_cache:
        base = SinglePhaseModel if kind == 'sp' else HomogenizationModel

        class L(base):
            def _getFluxes(self, t, x_curr):
                fl = super()._getFluxes(t, x_curr)
                self.fluxlog.append((float(t), np.array(x_curr[0], copy=True), np.array(fl, copy=True)))
                return fl
        _logging_cache[kind] = L
    return _logging_cache[kind]


# ------------------------------------------------------------------------------------------
# configurations
def tfunc(spec):
    kind = spec[0]
    if kind == 'func':
        _, T0, gz, dT, tau = spec
        return lambda z, t: T0 + gz * np.asarray(z) + dT * t / (t + tau)
    raise ValueError(kind)


def pfunc(spec):
    name, p = spec[0], spec[1:]
    if name == 'gauss':
        amp, c, w, base = p
        return lambda z: base + amp * np.exp(-((z - c) / w) ** 2)
    if name == 'ramp':
        a, b, z0, z1 = p
        return lambda z: a + (b - a) * (z - z0) / (z1 - z0)
    raise ValueError(name)


def gen_cfg(rng, quick, force=None):
    force = force or {}
    kind = force.get('kind', str(rng.choice(['sp', 'hom'], p=[0.6, 0.4])))
    ne = int(force.get('ne', rng.choice([1, 2, 3], p=[0.45, 0.4, 0.15]) if kind == 'sp' else rng.choice([1, 2], p=[0.5, 0.5])))
    nmax = 24 if quick else 80
    N = int(force.get('N', rng.choice([2, 3, 4, int(rng.integers(5, nmax + 1))], p=[0.05, 0.07, 0.08, 0.8])))
    L = float(10 ** rng.uniform(-4, -2))
    z0 = float(rng.choice([0.0, -L]))
    zlim = [z0, z0 + (L if z0 == 0.0 else 2 * L)]
    span = zlim[1] - zlim[0]
    els = ELS[:ne + 1]
    if kind == 'hom' and ne >= 2 and rng.random() < 0.4:
        els = els[:-1] + ['C']          # an interstitial: not part of the volume-fixed frame sum
    cap = 0.9 / ne
    profiles = {}
    for e in els[1:]:
        steps = []
        for _ in range(int(rng.choice([1, 2], p=[0.8, 0.2]))):
            t = str(rng.choice(['step', 'linear', 'bounded', 'function', 'data', 'single']))
            v1, v2 = float(rng.uniform(0, cap)), float(rng.uniform(0, cap))
            if rng.random() < 0.25:
                v1 = 0.0
            if t == 'step':
                steps.append(['step', v1, v2, float(zlim[0] + span * rng.uniform(0.1, 0.9))])
            elif t == 'linear':
                steps.append(['linear', v1, v2])
            elif t == 'bounded':
                a, b = sorted(rng.uniform(0, 1, 2))
                if not steps:
                    steps.append(['linear', v2, v2])
                steps.append(['bounded', v1, float(zlim[0] + span * a), float(zlim[0] + span * b)])
            elif t == 'single':
                if not steps:
                    steps.append(['linear', v2, v2])
                steps.append(['single', v1, float(zlim[0] + span * rng.uniform(0, 1))])
            elif t == 'function':
                if rng.random() < 0.5:
                    steps.append(['function', 'gauss', float(rng.uniform(0, cap / 2)), float(zlim[0] + span * rng.uniform(0.2, 0.8)),
                                  float(span * rng.uniform(0.05, 0.3)), float(rng.uniform(0, cap / 2))])
                else:
                    steps.append(['function', 'ramp', v1, v2, zlim[0], zlim[1]])
            else:
                k = int(rng.integers(2, 6))
                zs = np.sort(rng.uniform(zlim[0] - 0.1 * span, zlim[1] + 0.1 * span, k))
                steps.append(['data', [float(q) for q in zs], [float(q) for q in rng.uniform(0, cap, k)]])
        profiles[e] = steps
    minc = float(rng.choice([1e-8, 1e-6, 1e-4], p=[0.7, 0.15, 0.15]))
    # diffusivity / mobility scale and the flux magnitude that goes with it
    if kind == 'sp':
        stub = {'base': float(10 ** rng.uniform(-15, -11)), 'a': float(rng.uniform(0, 1.5)), 'off': float(rng.uniform(-0.4, 0.4))}
    else:
        stub = {'scale': float(10 ** rng.uniform(-19, -16)), 'skew': float(rng.uniform(0, 3))}
    Tspec = [['iso', float(rng.uniform(600, 1600))],
             ['array', [0.0, float(rng.uniform(0.1, 10)), float(rng.uniform(20, 100))], [float(rng.uniform(700, 1500)) for _ in range(3)]],
             ['func', float(rng.uniform(800, 1200)), float(rng.uniform(-50, 50) / max(abs(zlim[0]), abs(zlim[1]))), float(rng.uniform(-100, 100)),
              float(10 ** rng.uniform(2, 6))]][int(rng.choice(3, p=[0.5, 0.2, 0.3]))]
    bc = {}
    for e in els[1:]:
        d = {}
        for side in ('L', 'R'):
            r = rng.random()
            if r < 0.4:
                d[side] = ['flux', 0.0]
            elif r < 0.7:
                d[side] = ['flux', None]          # magnitude filled in below, relative to the interior fluxes
            else:
                d[side] = ['comp', float(rng.choice([rng.uniform(0, cap), 0.0, cap], p=[0.8, 0.1, 0.1]))]
        bc[e] = d
    api = str(rng.choice(['ctor', 'setBC'], p=[0.4, 0.6]))
    if ne == 1 and rng.random() < 0.3:
        api = 'setBC_none'
    if force.get('family') == 'two_models':
        bc = {e: {'L': ['flux', 0.0], 'R': ['flux', 0.0]} for e in els[1:]}
    if all(b == ['flux', 0.0] for d in bc.values() for b in d.values()) and (rng.random() < 0.6 or force.get('family') == 'two_models'):
        api = 'default'             # no boundary condition is given at all: the documented default is closed boundaries
    # other models living in the same process (built before and after this one, with their own boundary conditions)
    neighbour = None
    if rng.random() < 0.35 or force.get('family') == 'two_models':
        neighbour = {'comp': float(rng.uniform(0.05, cap)), 'flux': float(10 ** rng.uniform(-13, -9))}
    cfg = {'kind': kind, 'ne': ne, 'N': N, 'zlim': zlim, 'elements': els, 'profiles': profiles, 'minc': minc,
           'stub': stub, 'T': Tspec, 'bc': bc, 'api': api, 'neighbour': neighbour,
           'iterator': str(rng.choice(['euler', 'rk4'])),
           'hom': {'fn': str(rng.choice(['wiener upper', 'wiener lower', 'hashin upper', 'hashin lower', 'lab'])),
                   'lab': int(rng.choice([1, 2])), 'eps': float(rng.choice([0.0, 0.01, 0.05]))},
           'explicit_setup': bool(rng.random() < 0.3),
           'maxDtFrac': float(rng.choice([1.0, 0.3, 0.1])),
           'nsteps': [int(rng.integers(1, 7)) for _ in range(int(rng.choice([1, 2, 3], p=[0.35, 0.45, 0.2])))]}
    cfg.update({k: v for k, v in force.items() if k in cfg})
    # constraints edited after construction (the usual way: m.constraints.minComposition = ...)
    cfg['minc_post'] = None
    if rng.random() < 0.35:
        cfg['minc_post'] = float(rng.choice([v for v in (1e-6, 1e-4, 1e-3) if v != minc]))
    add_threshold_values(cfg, rng, 0.3 if force.get('family') == 'trace_window' else 0.12)
    if force.get('family') == 'trace_window':
        # a trace component: one side of a step sits in the neighbourhood of the thresholds of the setup rule
        e = els[1]
        zmid = 0.5 * (zlim[0] + zlim[1])
        cfg['profiles'][e] = [['step', threshold_value(cfg, rng), float(rng.uniform(0.1, cap)), zmid]]
    fill_scales(cfg, rng)
    gen_changes(cfg, rng)
    fam = force.get('family')
    if fam and fam != 'trace_window':
        apply_family(cfg, fam, rng)
    return cfg


def threshold_value(cfg, rng, high=False):
    """a composition in the neighbourhood of the comparisons the setup / clip rules make: multiples of the
    minimum composition that is live at setup (k*min for k around 0, 1, len(allElements), len(allElements)+1),
    or - for a binary - 1 minus such a multiple"""
    m = cfg['minc_post'] if cfg.get('minc_post') is not None else cfg['minc']
    nall = len(cfg['elements'])
    k = float(rng.choice([0.5, 1.0, 1.0 + 2.0 ** -30, 1.25, 1.5, nall - 0.5, nall, nall + 0.5, nall + 1 - 2.0 ** -30, nall + 1,
                          nall + 1.5, rng.uniform(0, nall + 2)]))
    v = k * m
    return float(1 - v) if high else float(v)


def add_threshold_values(cfg, rng, p):
    """replace some of the values the profile builders and the composition conditions use by threshold values"""
    binary = cfg['ne'] == 1 and cfg['kind'] == 'sp'

    def tv():
        return threshold_value(cfg, rng, high=binary and rng.random() < 0.25)
    for e, steps in cfg['profiles'].items():
        for st in steps:
            t = st[0]
            idxs = {'step': [1, 2], 'linear': [1, 2], 'bounded': [1], 'single': [1]}.get(t, [])
            if t == 'function':
                idxs = [5] if st[1] == 'gauss' else [2, 3]
            for i in idxs:
                if rng.random() < p:
                    st[i] = tv() if not (t == 'function' and st[1] == 'gauss') else threshold_value(cfg, rng)
            if t == 'data':
                st[2] = [tv() if rng.random() < p else v for v in st[2]]
    for e in cfg['bc']:
        for side in ('L', 'R'):
            b = cfg['bc'][e][side]
            if b[0] == 'comp' and rng.random() < 2 * p:
                b[1] = tv()


def draw_bc(rng, cap, jmag):
    r = rng.random()
    if r < 0.4:
        return ['flux', 0.0]
    if r < 0.7:
        return ['flux', float(jmag * 10 ** rng.uniform(-2, 0.3) * rng.choice([-1, 1]))]
    return ['comp', float(rng.uniform(0, cap))]


def gen_changes(cfg, rng):
    """what the user edits between consecutive solve calls: boundary conditions (type and value, per element
    and side) and constraints"""
    cap = 0.9 / cfg['ne']
    changes = []
    for k in range(1, len(cfg['calls'])):
        if rng.random() < 0.65:
            ch = {'bc': {}, 'minc': None, 'api': str(rng.choice(['setBC', 'side']))}
            for e in cfg['elements'][1:]:
                for side in ('L', 'R'):
                    if rng.random() < 0.5:
                        ch['bc'].setdefault(e, {})[side] = draw_bc(rng, cap, cfg.get('jmag', 1e-12))
            if rng.random() < 0.45:
                ch['minc'] = float(rng.choice([1e-8, 1e-6, 1e-4, 1e-3]))
            changes.append(ch)
        else:
            changes.append(None)
    cfg['changes'] = changes


def apply_family(cfg, fam, rng):
    """targeted histories (still randomised): every run contains a few of each"""
    els = cfg['elements'][1:]
    e = els[0]
    jm = cfg.get('jmag', 1e-12)
    if len(cfg['calls']) < 2:
        cfg['calls'] = [cfg['calls'][0], cfg['calls'][0]]
        cfg['nsteps'] = [cfg['nsteps'][0], cfg['nsteps'][0]]
    cfg['changes'] = [None] * (len(cfg['calls']) - 1)
    if fam == 'bc_switch':
        # a composition condition at setup, replaced by a (zero or non-zero) flux condition before a later call
        side = str(rng.choice(['L', 'R']))
        cfg['bc'][e][side] = ['comp', float(rng.uniform(0.05, 0.9 / cfg['ne']))]
        k = int(rng.integers(0, len(cfg['changes'])))
        cfg['changes'][k] = {'bc': {e: {side: ['flux', 0.0] if rng.random() < 0.5 else ['flux', float(jm * rng.uniform(0.1, 1) * rng.choice([-1, 1]))]}},
                             'minc': None, 'api': str(rng.choice(['setBC', 'side']))}
    elif fam == 'min_raised_between':
        # an absent component (profile value 0 -> nodes at the minimum), minimum raised before a later call
        zmid = 0.5 * (cfg['zlim'][0] + cfg['zlim'][1])
        cfg['profiles'][e] = [['step', 0.0, float(rng.uniform(0.1, 0.9 / cfg['ne'])), zmid]]
        cfg['minc'], cfg['minc_post'] = 1e-8, None
        k = int(rng.integers(0, len(cfg['changes'])))
        cfg['changes'][k] = {'bc': {}, 'minc': float(rng.choice([1e-5, 1e-4, 1e-3])), 'api': 'setBC'}
    elif fam == 'min_raised_after_ctor':
        # minimum raised after construction; a trace component with an outward flux is pushed below it
        zmid = 0.5 * (cfg['zlim'][0] + cfg['zlim'][1])
        cfg['profiles'][e] = [['step', 0.0, float(rng.uniform(0.1, 0.9 / cfg['ne'])), zmid]]
        cfg['minc'], cfg['minc_post'] = 1e-8, float(rng.choice([1e-5, 1e-4, 1e-3]))
        cfg['bc'][e]['L'] = ['flux', -abs(float(jm * rng.uniform(0.2, 2)))]        # negative left flux = outflow
        if cfg['api'] == 'ctor':
            cfg['api'] = 'setBC'


def fill_scales(cfg, rng):
    """choose simulation times (a few steps per call) and non-zero boundary flux values from a twin model"""
    for e in cfg['bc']:
        for side in ('L', 'R'):
            if cfg['bc'][e][side][0] == 'flux' and cfg['bc'][e][side][1] is None:
                cfg['bc'][e][side][1] = 0.0
                cfg['bc'][e][side].append('fill')
    twin = copy.deepcopy(cfg)
    twin['api'] = 'ctor'
    try:
        m, _ = build_model(twin)
        m.setup()
        fl, dt0 = m.getFluxes()
        jmag = float(np.max(np.abs(fl))) if np.max(np.abs(fl)) > 0 else 1e-12
        dt0 = float(dt0) if np.isfinite(dt0) and dt0 > 0 else 1.0
    except Exception:
        jmag, dt0 = 1e-12, 1.0
    for e in cfg['bc']:
        for side in ('L', 'R'):
            b = cfg['bc'][e][side]
            if len(b) == 3:
                b[1] = float(jmag * 10 ** rng.uniform(-2, 0.3) * rng.choice([-1, 1]))
                del b[2]
    cfg['calls'] = [float(dt0 * n * rng.uniform(0.6, 1.0)) for n in cfg['nsteps']]
    cfg['jmag'] = jmag


def make_neighbour(cfg):
    """another model of the same kind and elements in the same process, default-constructed and given its own
    boundary conditions; it is never solved and must not influence the model under test"""
    nb = cfg.get('neighbour')
    if not nb:
        return None
    from kawin.diffusion import SinglePhaseModel, HomogenizationModel
    from kawin.diffusion.DiffusionParameters import BoundaryConditions as B
    els = cfg['elements']
    other = (SinglePhaseModel if cfg['kind'] == 'sp' else HomogenizationModel)(cfg['zlim'], max(2, cfg['N'] // 2), els, ['P'] if cfg['kind'] == 'sp' else ['P1', 'P2'])
    for e in els[1:]:
        other.setBC(B.COMPOSITION_BC, nb['comp'], B.FLUX_BC, nb['flux'], element=e)
    return other


def build_model(cfg):
    from kawin.diffusion.DiffusionParameters import BoundaryConditions, CompositionProfile, TemperatureParameters, DiffusionConstraints
    from kawin.diffusion.HomogenizationParameters import HomogenizationParameters
    els = cfg['elements']
    ne = cfg['ne']
    cp = CompositionProfile()
    for e in els[1:]:
        for st in cfg['profiles'][e]:
            t = st[0]
            if t == 'step':
                cp.addStepCompositionStep(e, st[1], st[2], st[3])
            elif t == 'linear':
                cp.addLinearCompositionStep(e, st[1], st[2])
            elif t == 'bounded':
                cp.addBoundedCompositionStep(e, st[1], st[2], st[3])
            elif t == 'single':
                cp.addSingleCompositionStep(e, st[1], st[2])
            elif t == 'function':
                cp.addFunctionCompositionStep(e, pfunc(st[1:]))
            elif t == 'data':
                cp.addProfileCompositionStep(e, st[2], st[1])
    T = cfg['T']
    if T[0] == 'iso':
        tp = TemperatureParameters(T[1])
    elif T[0] == 'array':
        tp = TemperatureParameters(T[1], T[2])
    else:
        tp = TemperatureParameters(tfunc(T))
    cons = DiffusionConstraints()
    cons.minComposition = cfg['minc']
    code = {'flux': BoundaryConditions.FLUX_BC, 'comp': BoundaryConditions.COMPOSITION_BC}
    bcobj = None
    if cfg['api'] == 'ctor':
        bcobj = BoundaryConditions()
        for e in els[1:]:
            for side, sc in (('L', BoundaryConditions.LEFT), ('R', BoundaryConditions.RIGHT)):
                b = cfg['bc'][e][side]
                if not (b[0] == 'flux' and b[1] == 0.0):
                    bcobj.setBoundaryCondition(sc, code[b[0]], b[1], e)
    cls = logging_class(cfg['kind'])
    closed = all(b[0] == 'flux' and b[1] == 0.0 for d in cfg['bc'].values() for b in d.values())
    api = cfg['api'] if not (cfg['api'] == 'default' and not closed) else 'setBC'
    kw = {'temperatureParameters': tp, 'compositionProfile': cp, 'constraints': cons}
    if bcobj is not None:
        kw['boundaryConditions'] = bcobj        # otherwise the argument is left out: the constructor's own default
    make_neighbour(cfg)
    if cfg['kind'] == 'sp':
        therm = StubD(ne, cfg['stub']['base'], cfg['stub']['a'], cfg['stub']['off'])
        m = cls(cfg['zlim'], cfg['N'], els, ['P'], thermodynamics=therm, **kw)
    else:
        hp = HomogenizationParameters(cfg['hom']['fn'], labyrinthFactor=cfg['hom']['lab'], eps=cfg['hom']['eps'])
        m = cls(cfg['zlim'], cfg['N'], els, ['P1', 'P2'], thermodynamics=ThermStub(els), homogenizationParameters=hp, **kw)
        m.hashTable = ScriptedTable(ne + 1, cfg['stub']['scale'], cfg['stub']['skew'])
    make_neighbour(cfg)
    m.fluxlog = []
    if cfg.get('minc_post') is not None:
        m.constraints.minComposition = cfg['minc_post']
    if api in ('setBC', 'setBC_none'):
        for e in els[1:]:
            l, r = cfg['bc'][e]['L'], cfg['bc'][e]['R']
            if api == 'setBC_none':
                m.setBC(code[l[0]], l[1], code[r[0]], r[1])            # element left to its default
            else:
                m.setBC(code[l[0]], l[1], code[r[0]], r[1], element=e)
    return m, None


def apply_change(m, cfg, ch, bc_now):
    """edit boundary conditions / constraints of a model that has already been solved, through the public API"""
    from kawin.diffusion.DiffusionParameters import BoundaryConditions as B
    code = {'flux': B.FLUX_BC, 'comp': B.COMPOSITION_BC}
    for e, sides in (ch.get('bc') or {}).items():
        for side, b in sides.items():
            bc_now[e][side] = list(b)
        l, r = bc_now[e]['L'], bc_now[e]['R']
        if cfg['api'] == 'setBC_none':
            m.setBC(code[l[0]], l[1], code[r[0]], r[1])
        elif ch.get('api') == 'side':
            for side, b in sides.items():
                m.boundaryConditions.setBoundaryCondition(B.LEFT if side == 'L' else B.RIGHT, code[b[0]], b[1], e)
        else:
            m.setBC(code[l[0]], l[1], code[r[0]], r[1], element=e)
    if ch.get('minc') is not None:
        m.constraints.minComposition = ch['minc']


def run_cfg(cfg):
    """runs the configuration on the repository code; returns the model and the logs"""
    rec = {'err': None, 'calls': [], 'setup_x': None, 'env': []}
    m = obs = it = None
    try:
        m, _ = build_model(cfg)
        obs = Observer()
        m.addCouplingModel(obs)
        it = WrapIter(m, cfg['iterator'])
        if cfg['explicit_setup']:
            m.setup()
            rec['setup_x'] = np.array(m.x, copy=True)
        bc_now = copy.deepcopy(cfg['bc'])
        changes = cfg.get('changes') or []
        for k, simTime in enumerate(cfg['calls']):
            ch = changes[k - 1] if 0 < k <= len(changes) else None
            if ch:
                apply_change(m, cfg, ch, bc_now)
            n0 = len(it.log)
            rec['env'].append({'bc': copy.deepcopy(bc_now), 'minc': float(m.constraints.minComposition), 'bcs_term': None})
            try:
                m.solve(simTime, solverType=it, maxDtFrac=cfg['maxDtFrac'])
            finally:
                rec['calls'].append((n0, len(it.log)))
                try:
                    rec['env'][-1]['bcs_term'] = bcs_term(m)       # the tables the code held during this call
                except Exception:
                    pass
    except StopRun:
        rec['truncated'] = True
    except Exception as e:
        rec['err'] = '%s: %s' % (type(e).__name__, e)
    rec['model'], rec['obs'], rec['it'] = m, obs, it
    return rec


# ------------------------------------------------------------------------------------------
# the oracle: the property text evaluated on what the run did
def fsum_exact(a):
    return sum((Fraction(float(v)) for v in a), Fraction(0))


def expected_node(v, nall, minc):
    """what a prescribed composition becomes under the documented setup rule: lowered by
    len(allElements)*min when above min, never below min"""
    v1 = v - nall * minc if v > minc else v
    return max(v1, minc)


def oracle(cfg, rec):
    """returns list of (clause, cls, message)"""
    out = []
    if rec['err']:
        if cfg['kind'] == 'hom' and rec['err'].startswith('ValueError: zero-size array to reduction operation maximum'):
            # HomogenizationModel.getDt on an all-zero rate (flat profile, closed boundaries): the run cannot start.
            # Robustness of the step-size rule is not part of this property (it belongs to C03); counted, not judged.
            rec['flat'] = True
            return []
        return [('no_internal_error', 'exception', 'run raised ' + rec['err'])]
    m, obs, it = rec['model'], rec['obs'], rec['it']
    els = cfg['elements'][1:]
    nall = len(cfg['elements'])
    dz = float(m.dz)
    # boundary conditions and constraints in force during each solve call (what the user asked for, live values)
    env = rec.get('env') or []
    minc0 = cfg['minc_post'] if cfg.get('minc_post') is not None else cfg['minc']

    def env_of(k):
        if k < len(env):
            return env[k]['bc'], env[k]['minc']
        return cfg['bc'], minc0
    call_of = {}
    for k, (a, b) in enumerate(rec['calls']):
        for g in range(a, b):
            call_of[g] = k
    minc, hi = env_of(0)[1], 1 - env_of(0)[1]
    ref = {}                 # (element index, node index) -> value a fixed-composition node has to keep
    dflt = ':default-element' if cfg['api'] == 'setBC_none' else ''
    steps = it.log
    if len(obs.log) != len(steps):
        return [('no_internal_error', 'bookkeeping', 'observer saw %d steps, iterator %d' % (len(obs.log), len(steps)))]
    if not steps:
        return out
    seen = set()

    def add(clause, cls, msg):
        if (clause, cls) not in seen:
            seen.add((clause, cls))
            out.append((clause, cls, msg))
    first_of_call = {a: k for k, (a, b) in enumerate(rec['calls'])}
    x_first = steps[0]['X0'].reshape(len(els), -1)
    x_start = rec['setup_x'] if rec['setup_x'] is not None else x_first      # the profile setup installed
    if not np.array_equal(x_first, x_start):
        d = float(np.max(np.abs(x_first - x_start)))
        add('multi_solve_no_drift', 'state changed between solve calls',
            'profile after setup() differs from the profile the following solve() starts from (max change %.3e)' % d)
    if np.any(x_start < minc0) or np.any(x_start > 1 - minc0):
        add('bounds', 'initial', 'composition outside [min, 1-min] after setup: min %.3e max %.17g' % (float(x_start.min()), float(x_start.max())))
    for g, st in enumerate(steps):
        X0 = st['X0'].reshape(len(els), -1)
        Xn = st['Xn'].reshape(len(els), -1)
        post = obs.log[g][1]
        dt = st['dt']
        stages = [m.fluxlog[i][2] for i in range(*st['calls'])]
        kcall = call_of.get(g, 0)
        bcs, minc = env_of(kcall)
        hi = 1 - minc
        changed = ' (boundary conditions / constraints were edited before solve call %d)' % (kcall + 1) if kcall > 0 and (cfg.get('changes') or [None] * kcall)[kcall - 1] else ''
        if g in first_of_call:
            # a composition condition keeps the node where it is when the call starts; one that was in force at
            # setup keeps the value setup installed
            for ei, e in enumerate(els):
                for idx, sd in ((0, 'L'), (-1, 'R')):
                    if bcs[e][sd][0] == 'comp':
                        if (ei, idx) not in ref:
                            ref[(ei, idx)] = float(x_start[ei, idx]) if kcall == 0 else float(X0[ei, idx])
                    else:
                        ref.pop((ei, idx), None)
        if not (np.all(np.isfinite(Xn)) and np.all(np.isfinite(post))):
            add('no_internal_error', 'non-finite', 'non-finite composition at step %d' % g)
            continue
        # nothing happens between steps, in particular not between two solve calls
        if g > 0 and not np.array_equal(X0, obs.log[g - 1][1]):
            d = float(np.max(np.abs(X0 - obs.log[g - 1][1])))
            if g in first_of_call:
                add('multi_solve_no_drift', 'state changed between solve calls',
                    'solve call %d starts from a profile that differs from where call %d ended (max change %.3e, %d nodes)'
                    % (first_of_call[g] + 1, first_of_call[g], d, X0.shape[1]))
            else:
                add('multi_solve_no_drift', 'state changed between steps', 'step %d starts from a different profile (max change %.3e)' % (g, d))
        w = [Fraction(1)] if len(stages) == 1 else [Fraction(1, 6), Fraction(2, 6), Fraction(2, 6), Fraction(1, 6)]
        if len(stages) not in (1, 4):
            add('no_internal_error', 'bookkeeping', 'step %d evaluated the fluxes %d times' % (g, len(stages)))
            continue
        for ei, e in enumerate(els):
            bl, br = bcs[e]['L'], bcs[e]['R']
            JL = Fraction(bl[1]) if bl[0] == 'flux' else sum(wk * Fraction(float(s[ei, 0])) for wk, s in zip(w, stages))
            JR = Fraction(br[1]) if br[0] == 'flux' else sum(wk * Fraction(float(s[ei, -1])) for wk, s in zip(w, stages))
            lhs = fsum_exact(Xn[ei]) - fsum_exact(X0[ei])
            rhs = Fraction(dt) * (JL - JR) / Fraction(dz)
            scale = sum(Fraction(abs(float(v))) for v in X0[ei]) + abs(Fraction(dt) / Fraction(dz)) * sum(
                2 * Fraction(abs(float(v))) for s in stages for v in s[ei]) + abs(rhs)
            if abs(lhs - rhs) > TOL * scale:
                side = 'prescribed' if (bl[0] == 'flux' and br[0] == 'flux') else 'mixed'
                add('step_balance', side + dflt,
                    'element %s, step %d (%s): mesh sum changed by %.6e, (left flux - right flux)*dt/dz = %.6e (left %s %.3e, right %s %.3e)%s'
                    % (e, g, cfg['iterator'], float(lhs), float(rhs), bl[0], float(JL), br[0], float(JR), changed))
            # fixed-composition nodes
            for side, idx, b in (('left', 0, bl), ('right', -1, br)):
                if b[0] == 'comp':
                    want = expected_node(b[1], nall, minc0)
                    if kcall == 0 and abs(x_start[ei, idx] - want) > 1e-12:
                        add('dirichlet_node_fixed', side + ' initial' + dflt,
                            'element %s: %s node starts at %.10g, prescribed composition %.10g (setup rule gives %.10g)' % (e, side, x_start[ei, idx], b[1], want))
                    else:
                        # the bounds take precedence over a held value that a raised minimum has overtaken
                        keep = min(max(ref[(ei, idx)], minc), hi)
                        if post[ei, idx] != keep:
                            add('dirichlet_node_fixed', side + dflt,
                                'element %s: %s node holds a prescribed composition (%.10g) and was at %.17g, is %.17g after step %d%s'
                                % (e, side, b[1], ref[(ei, idx)], post[ei, idx], g, changed))
                        ref[(ei, idx)] = keep
        # bounds and clip
        if np.any(post < minc) or np.any(post > hi):
            add('bounds', 'range', 'composition outside [min, 1-min] = [%.3e, 1-%.3e] (live constraints.minComposition) after step %d: min %.6e max %.17g%s'
                % (minc, minc, g, float(post.min()), float(post.max()), changed))
        inside = (Xn >= minc) & (Xn <= hi)
        if np.any(post[inside] != Xn[inside]):
            add('clip_changes_only_outside', 'inside changed', 'postProcess changed an entry inside [min, 1-min] at step %d' % g)
        if not np.all(inside):
            rec['clip_steps'] = rec.get('clip_steps', 0) + 1
    return out


# ------------------------------------------------------------------------------------------
# Coq terms
def flit(x):
    """exact hexadecimal float literal (Coq primitive float), converted to Q inside Coq by Corr.f2q"""
    x = float(x)
    if not math.isfinite(x):
        raise ValueError('non-finite value cannot be shipped to the model: %r' % x)
    h = x.hex()
    return '(%s)' % h if h[0] == '-' else h


def fq(x):
    return '(f2q %s%%float)' % flit(x)


def fvec(xs):
    return '(fv [%s]%%float)' % '; '.join(flit(v) for v in xs)


def frows(a):
    return '[' + '; '.join('[' + '; '.join(flit(v) for v in row) + ']' for row in np.atleast_2d(a)) + ']'


def qmat(a):
    return '(fm %s%%float)' % frows(a)


def qmats(arrs):
    return '(fms [%s]%%float)' % '; '.join(frows(a) for a in arrs)


def bcs_term(m):
    """the boundary-condition tables the code holds (after setupDefaults)"""
    from kawin.diffusion.DiffusionParameters import BoundaryConditions as B
    b = m.boundaryConditions
    parts = []
    for e in m.elements:
        parts.append('mkbcQ %s %s %s %s' % (boollit(b.leftBCtype[e] == B.FLUX_BC), fq(b.leftBC[e]),
                                           boollit(b.rightBCtype[e] == B.FLUX_BC), fq(b.rightBC[e])))
    return '[' + '; '.join(parts) + ']'


def live_env(rec, g):
    """(boundary-condition tables, minComposition) the code held during the solve call that step g belongs to"""
    m = rec['model']
    for k, (a, b) in enumerate(rec['calls']):
        if a <= g < b and k < len(rec.get('env') or []) and rec['env'][k]['bcs_term']:
            return rec['env'][k]['bcs_term'], rec['env'][k]['minc']
    return bcs_term(m), float(m.constraints.minComposition)


def step_term(cfg, rec, g):
    m, it, obs = rec['model'], rec['it'], rec['obs']
    st = it.log[g]
    ne = len(m.elements)
    calls = [m.fluxlog[i] for i in range(*st['calls'])]
    stages = qmats([c[2][:, 1:-1] for c in calls])
    stage_x = qmats([c[1] for c in calls[1:]])
    return 'check_step %s %s %s %s %s %s %s %s %s %s' % (
        RT, live_env(rec, g)[0], fq(m.dz), fq(live_env(rec, g)[1]), fq(st['dt']), qmat(st['X0'].reshape(ne, -1)), stages, stage_x,
        qmat(st['Xn'].reshape(ne, -1)), qmat(obs.log[g][1]))


def flux_term(cfg, rec, i, g=None):
    """model of _getFluxes for logged call i (made during step g)"""
    m = rec['model']
    t, x, fl = m.fluxlog[i]
    bt = live_env(rec, g)[0] if g is not None else bcs_term(m)
    T = np.asarray(m.temperatureParameters(m.z, t), dtype=float)
    if cfg['kind'] == 'sp':
        d = [m.therm.getInterdiffusivity(x[:, k], T[k], phase=m.phases[0]) for k in range(m.N)]
        if len(m.elements) == 1:
            return 'check_sp_binary %s %s %s %s %s %s' % (RT, bt, fq(m.dz), fvec(d), qmat(x), qmat(fl))
        return 'check_sp_multi %s %s %s %s %s %s' % (RT, bt, fq(m.dz), qmats(d), qmat(x), qmat(fl))
    from kawin.diffusion.HomogenizationParameters import computeHomogenizationFunction
    from kawin.thermo.Mobility import interstitials
    from kawin.Constants import GAS_CONSTANT
    avg_mob, mu = computeHomogenizationFunction(m.therm, x.T, T, m.homogenizationParameters, m.hashTable)
    avg_mob, mu = np.atleast_2d(avg_mob.T), np.atleast_2d(mu.T)
    if avg_mob.shape[1] != m.N:
        avg_mob, mu = avg_mob.T, mu.T
    lm = np.log(avg_mob)
    mface = np.exp(0.5 * (lm[:, 1:] + lm[:, :-1]))        # the one transcendental line of _getFluxes: oracle values
    subst = '[' + '; '.join(boollit(e not in interstitials) for e in m.allElements) + ']'
    return 'check_hom %s %s %s %s %s %s %s %s %s %s %s' % (
        RT, bt, fq(m.dz), fq(m.homogenizationParameters.eps), fq(GAS_CONSTANT), subst,
        qmat(mface), qmat(mu), fvec(T), qmat(x), qmat(fl))


def verdict_bad(v):
    return v is not None


def describe(v):
    if v is None:
        return None
    e, (k, ap) = v[1]
    return 'row %d entry %d (model value %r)' % (e, k, float(tofrac(ap)))


# ------------------------------------------------------------------------------------------
def kernel_cases(ctx, n):
    """direct calls of the small public pieces on arbitrary arrays"""
    from kawin.diffusion.DiffusionParameters import BoundaryConditions as B
    from kawin.diffusion import SinglePhaseModel
    rng = ctx.rng
    terms, meta = [], []
    for k in range(n):
        ne = int(rng.integers(1, 4))
        N = int(rng.choice([1, 2, 3, int(rng.integers(4, 30))]))
        els = ELS[1:ne + 1]
        exact = rng.random() < 0.4
        fl = rng.integers(-8, 9, (ne, N + 1)).astype(float) if exact else rng.normal(0, 1, (ne, N + 1)) * 10 ** rng.uniform(-12, -6)
        b = B()
        for e in els:
            for side in (B.LEFT, B.RIGHT):
                if rng.random() < 0.5:
                    b.setBoundaryCondition(side, B.COMPOSITION_BC, float(rng.uniform(0, 0.4)), e)
                elif rng.random() < 0.6:
                    b.setBoundaryCondition(side, B.FLUX_BC, float(rng.integers(-4, 5)) if exact else float(rng.normal() * 1e-9), e)
        b.setupDefaults(els)

        class M:
            elements = els
            boundaryConditions = b
        inp = fl.copy()
        try:
            b.applyBoundaryConditionsToFluxes(els, fl)
        except IndexError:
            continue
        terms.append('check_applybc %s %s %s' % (bcs_term(M), qmat(inp), qmat(fl)))
        meta.append(('applybc', {'ne': ne, 'N': N, 'fl': inp.tolist()}))
        # postProcess on an arbitrary array (values well outside, inside and on the ends of the interval)
        if N >= 2:
            minc = float(rng.choice([1e-8, 1e-4, 0.25]))
            m = SinglePhaseModel([0, 1], N, ['A'] + els, ['P'], thermodynamics=None, record=False)
            m.constraints.minComposition = minc
            x = rng.uniform(-0.2, 1.2, (ne, N))
            x[rng.random((ne, N)) < 0.2] = minc
            x[rng.random((ne, N)) < 0.1] = 1 - minc
            got, _ = m.postProcess(1.0, [x.copy()])
            terms.append('check_post %s %s %s %s' % (RT, fq(minc), qmat(x), qmat(got[0])))
            meta.append(('post', {'minc': minc, 'x': x.tolist()}))
    return terms, meta


def setup_case(cfg):
    """first and second setup() of a fresh model against the model's setup applied to the built profile"""
    m, _ = build_model(cfg)
    built = np.zeros((len(m.elements), m.N))
    m.compositionProfile.buildProfile(m.elements, built, m.z)
    try:
        m.setup()
        x1 = np.array(m.x, copy=True)
        m.setup()
        x2 = np.array(m.x, copy=True)
    except Exception as e:
        return None
    return 'check_setup %s %s %s %s %s %s %s' % (RT, bcs_term(m), zlit(len(m.allElements)), fq(m.constraints.minComposition), qmat(built), qmat(x1), qmat(x2))


# ------------------------------------------------------------------------------------------
def simplify_candidates(cfg):
    """smaller variants of a configuration (used to minimise a failing input)"""
    out = []

    def var(**kw):
        c = copy.deepcopy(cfg)
        c.update(kw)
        return c
    for n in (2, 3, 5, 8):
        if n < cfg['N']:
            out.append(var(N=n))
    chg = cfg.get('changes') or []
    if len(cfg['calls']) > 2:
        out.append(var(calls=cfg['calls'][:2], nsteps=cfg['nsteps'][:2], changes=chg[:1]))
        out.append(var(calls=cfg['calls'][1:], nsteps=cfg['nsteps'][1:], changes=chg[1:]))
    if len(cfg['calls']) > 1:
        out.append(var(calls=cfg['calls'][:1], nsteps=cfg['nsteps'][:1], changes=[]))
    for k, ch in enumerate(chg):
        if ch:
            out.append(var(changes=chg[:k] + [None] + chg[k + 1:]))
            if ch.get('minc') is not None and ch.get('bc'):
                out.append(var(changes=chg[:k] + [dict(ch, minc=None)] + chg[k + 1:]))
                out.append(var(changes=chg[:k] + [dict(ch, bc={})] + chg[k + 1:]))
            for e in list((ch.get('bc') or {})):
                for side in list(ch['bc'][e]):
                    c2 = copy.deepcopy(ch)
                    del c2['bc'][e][side]
                    if not c2['bc'][e]:
                        del c2['bc'][e]
                    if c2['bc'] or c2.get('minc') is not None:
                        out.append(var(changes=chg[:k] + [c2] + chg[k + 1:]))
    if cfg.get('minc_post') is not None:
        out.append(var(minc_post=None))
    if cfg.get('neighbour'):
        out.append(var(neighbour=None))
    if cfg['iterator'] != 'euler':
        out.append(var(iterator='euler'))
    if cfg['T'][0] != 'iso':
        out.append(var(T=['iso', 1000.0]))
    if cfg['minc'] != 1e-8:
        out.append(var(minc=1e-8))
    if cfg['explicit_setup']:
        out.append(var(explicit_setup=False))
    if cfg['maxDtFrac'] != 1.0:
        out.append(var(maxDtFrac=1.0))
    if cfg['kind'] == 'hom':
        c = var(kind='sp', stub={'base': 1e-13, 'a': 0.0, 'off': 0.0})
        c['calls'] = [1e3 * x for x in cfg['nsteps']]
        out.append(c)
    for e in cfg['elements'][1:]:
        if cfg['profiles'][e] != [['step', 0.1, 0.2, 0.5 * (cfg['zlim'][0] + cfg['zlim'][1])]]:
            c = copy.deepcopy(cfg)
            c['profiles'][e] = [['step', 0.1, 0.2, 0.5 * (cfg['zlim'][0] + cfg['zlim'][1])]]
            out.append(c)
        for side in ('L', 'R'):
            if cfg['bc'][e][side] != ['flux', 0.0]:
                c = copy.deepcopy(cfg)
                c['bc'][e][side] = ['flux', 0.0]
                out.append(c)
    return out


def shrink(cfg, clause, cls):
    def fails(c):
        try:
            return any(h[0] == clause and h[1] == cls for h in oracle(c, run_cfg(c)))
        except Exception:
            return False
    cur = cfg
    for _ in range(30):
        for c in simplify_candidates(cur):
            if fails(c):
                cur = c
                break
        else:
            break
    return cur


SITES = {'multi_solve_no_drift': 'DiffusionModel.setup', 'dirichlet_node_fixed': 'BoundaryConditions',
         'step_balance': 'DiffusionModel.getdXdt', 'bounds': 'DiffusionModel.postProcess',
         'clip_changes_only_outside': 'DiffusionModel.postProcess', 'no_internal_error': 'DiffusionModel.solve'}


def site_of(clause, cls):
    if cls.endswith(':default-element'):
        return 'DiffusionModel.setBC'
    return SITES.get(clause, 'kawin.diffusion')


def report_hits(ctx, hits):
    seen = set()
    for cfg, clause, cls, msg in hits:
        if (clause, cls) in seen:
            continue
        seen.add((clause, cls))
        small = shrink(cfg, clause, cls)
        msgs = [h[2] for h in oracle(small, run_cfg(small)) if h[0] == clause and h[1] == cls]
        text = msgs[0] if msgs else msg
        ctx.violation(clause, {'site': site_of(clause, cls), 'cls': cls},
                      {'kind': 'history', 'input': small, 'observed': text,
                       'oracle': 'property text evaluated on the logged run with exact rational mesh sums (harness/c04.py: oracle)'},
                      text)


def corpus_cfgs():
    out = []
    p = os.path.join(VERIF, 'corpus', 'C04')
    if os.path.isdir(p):
        for f in sorted(os.listdir(p)):
            if f.endswith('.json'):
                c = json.load(open(os.path.join(p, f)))
                c = c.get('input', c)
                c['_name'] = 'corpus:' + f
                out.append(c)
    return out


def real_runs(ctx, hits, quick):
    """Ni-Cr(-Al) with the shipped database: the property on real diffusivities / mobilities"""
    import time as _t
    t0 = _t.time()
    try:
        from kawin.thermo import GeneralThermodynamics
        from kawin.tests.datasets import NICRAL_TDB
        from kawin.diffusion import SinglePhaseModel, HomogenizationModel
        from kawin.diffusion.DiffusionParameters import BoundaryConditions as B
    except Exception as e:
        ctx.notes['real_runs'] = 'skipped: %s' % e
        return
    specs = [('sp', ['NI', 'CR'], ['FCC_A1'], 'euler')] if quick else [
        ('sp', ['NI', 'CR'], ['FCC_A1'], 'euler'), ('sp', ['NI', 'CR', 'AL'], ['FCC_A1'], 'rk4'),
        ('hom', ['NI', 'CR'], ['FCC_A1', 'BCC_A2'], 'euler'), ('hom', ['NI', 'CR', 'AL'], ['FCC_A1', 'BCC_A2'], 'rk4')]
    done = []
    for kind, els, phases, itname in specs:
        therm = GeneralThermodynamics(NICRAL_TDB, els, phases)
        cls = logging_class(kind)
        N = 8 if quick else 20
        m = cls([-5e-4, 5e-4], N, els, phases, thermodynamics=therm)
        m.fluxlog = []
        m.setTemperature(1473.15)
        m.setCompositionStep(0.1, 0.3, 0.0, 'CR')
        if len(els) == 3:
            m.setCompositionLinear(0.2, 0.05, 'AL')
        m.setBC(B.COMPOSITION_BC, 0.12, B.FLUX_BC, 0.0, element='CR')
        cfg = {'kind': kind, 'elements': els, 'minc': m.constraints.minComposition, 'api': 'setBC', 'iterator': itname,
               'bc': {e: {'L': ['flux', 0.0], 'R': ['flux', 0.0]} for e in els[1:]}, 'explicit_setup': True, 'real': True}
        cfg['bc']['CR']['L'] = ['comp', 0.12]
        rec = {'err': None, 'calls': [], 'setup_x': None}
        obs = Observer()
        m.addCouplingModel(obs)
        it = WrapIter(m, itname)
        try:
            m.setup()
            rec['setup_x'] = np.array(m.x, copy=True)
            _, dt0 = m.getFluxes()
            rec['env'] = []
            bc_now = copy.deepcopy(cfg['bc'])
            for k in (2, 2):
                if rec['calls']:
                    # the held left node of CR is released: closed boundary from now on
                    m.setBC(B.FLUX_BC, 0.0, B.FLUX_BC, 0.0, element='CR')
                    bc_now['CR']['L'] = ['flux', 0.0]
                    cfg['changes'] = [{'bc': {'CR': {'L': ['flux', 0.0]}}, 'minc': None, 'api': 'setBC'}]
                n0 = len(it.log)
                rec['env'].append({'bc': copy.deepcopy(bc_now), 'minc': float(m.constraints.minComposition), 'bcs_term': None})
                m.solve(float(dt0) * k * 0.9, solverType=it)
                rec['calls'].append((n0, len(it.log)))
        except Exception as e:
            rec['err'] = '%s: %s' % (type(e).__name__, e)
        rec.update(model=m, obs=obs, it=it)
        for h in oracle(cfg, rec):
            hits.append((dict(cfg, note='real database run; replay re-runs it'), *h))
        ctx.count({'real': [kind, els, itname]}, True)
        ctx.cov['traces_validated_against_impl'] += 1
        done.append('%s %s %s: %d steps' % (kind, '-'.join(els), itname, len(it.log)))
    ctx.notes['real_runs'] = {'runs': done, 'seconds': round(_t.time() - t0, 1)}


# ------------------------------------------------------------------------------------------
def run(ctx):
    quick = ctx.quick
    ctx.cov['rule'] = ('configurations: single-phase (stub interdiffusivity depending on composition and temperature) or homogenization model '
                       '(scripted two-phase mobility table driving the five homogenisation functions), 1-3 independent elements, 2..24 nodes (quick) / 2..80 '
                       '(thorough), profile builders step/linear/bounded/single/function/data (also stacked), isothermal / time table / T(z,t) field, every mix of '
                       'flux (zero and non-zero) and composition conditions per element and side set through the constructor, setBC(element=..) or setBC() '
                       'default element or not at all (default closed boundaries) while other default-constructed models of the same elements in the same process are given their own conditions, profile and boundary values in the neighbourhood of the thresholds of the setup / clip rules (multiples of the live minimum composition, 1 minus such), boundary conditions (type and value) and constraints.minComposition edited between consecutive solve calls and after construction (the oracle '
                       'uses the conditions and the live constraint values in force during each call), '
                       'default element, Euler / RK4, 1-3 consecutive solve calls with or without an explicit setup(), minComposition 1e-8/1e-6/1e-4; a case is '
                       'non-trivial when the profile is not flat or a boundary flux is non-zero; distinct by hash of the configuration / of the exact arrays')
    import time as _time
    tm = {}
    t0 = _time.time()
    axioms, failed = ctx.prove(['C04/Properties.v', 'C04/Hom.v'])
    tm['prove_s'] = round(_time.time() - t0, 1)
    t0 = _time.time()
    hits = []
    dis = []

    # ---- runs: corpus first, then generated -------------------------------------------------
    ncfg = 60 if quick else 300
    nfam = 2 if quick else 12
    fams = [gen_cfg(ctx.rng, quick, {'family': f}) for f in ('bc_switch', 'min_raised_between', 'min_raised_after_ctor', 'trace_window') for _ in range(nfam)]
    fams += [gen_cfg(ctx.rng, quick, {'family': 'two_models', 'kind': k}) for k in ('sp', 'hom') for _ in range(max(1, nfam // 2))]
    cfgs = corpus_cfgs() + fams + [gen_cfg(ctx.rng, quick) for _ in range(ncfg - len(fams))]
    terms, meta = [], []
    step_budget = 2 if quick else 4
    for ci, cfg in enumerate(cfgs):
        rec = run_cfg(cfg)
        key = {k: v for k, v in cfg.items() if not k.startswith('_')}
        m0 = rec['model']
        nontriv = (rec['it'] is not None and len(rec['it'].log) > 0 and
                   (any(len(set(np.round(s['X0'], 14))) > len(cfg['elements']) - 1 for s in rec['it'].log[:1]) or
                    any(b[1] != 0.0 for e in cfg['bc'] for b in cfg['bc'][e].values())))
        ctx.count(key, nontriv)
        ctx.cov['traces_validated_against_impl'] += 1
        ctx.hist('model', cfg['kind'])
        ctx.hist('elements', str(cfg['ne']) + ('+interstitial' if 'C' in cfg['elements'] else ''))
        ctx.hist('nodes', '2' if cfg['N'] == 2 else '3-4' if cfg['N'] <= 4 else '5-24' if cfg['N'] <= 24 else '>24')
        ctx.hist('iterator', cfg['iterator'])
        ctx.hist('solve_calls', len(cfg['calls']))
        ctx.hist('temperature', cfg['T'][0])
        ctx.hist('bc_api', cfg['api'])
        chs = [c for c in (cfg.get('changes') or []) if c]
        ctx.hist('edited_between_calls', 'bc+min' if any(c.get('bc') for c in chs) and any(c.get('minc') is not None for c in chs)
                 else 'bc' if any(c.get('bc') for c in chs) else 'min' if chs else 'nothing')
        ctx.hist('min_edited_after_construction', cfg.get('minc_post') is not None)
        ctx.hist('other_models_in_process', bool(cfg.get('neighbour')))
        for e in cfg['bc']:
            ctx.hist('bc_mix', cfg['bc'][e]['L'][0] + ('0' if cfg['bc'][e]['L'][1] == 0.0 else '') + '/' + cfg['bc'][e]['R'][0] + ('0' if cfg['bc'][e]['R'][1] == 0.0 else ''))
            for st in cfg['profiles'][e]:
                ctx.hist('profile', st[0])
        for h in oracle(cfg, rec):
            hits.append((key, *h))
        if rec.get('flat'):
            ctx.notes['runs_not_started_flat_profile'] = ctx.notes.get('runs_not_started_flat_profile', 0) + 1
        if rec.get('clip_steps'):
            ctx.notes['steps_with_active_clip'] = ctx.notes.get('steps_with_active_clip', 0) + rec['clip_steps']
        if rec['err'] is None and rec['it'] is not None and rec['it'].log:
            ctx.notes['steps_run'] = ctx.notes.get('steps_run', 0) + len(rec['it'].log)
            ng = len(rec['it'].log)
            starts = [a for a, b in rec['calls'] if a < ng]
            pick = sorted(set(([0, starts[-1]] if quick else [0, ng - 1] + starts)))[:step_budget]
            for g in pick:
                terms.append(step_term(cfg, rec, g))
                meta.append(('step', key, g))
                i0 = rec['it'].log[g]['calls'][0]
                terms.append(flux_term(cfg, rec, i0, g))
                meta.append(('fluxes', key, i0))
        if ci < 2:
            ctx.sample({'configuration': key, 'steps': len(rec['it'].log) if rec['it'] else 0,
                        'final_mesh_sums': [float(v) for v in rec['model'].x.sum(axis=1)] if rec['model'] is not None else None})
        if ci % 2 == 0:
            t = setup_case(cfg)
            if t:
                terms.append(t)
                meta.append(('setup', key, 0))
    kt, km = kernel_cases(ctx, 60 if quick else 400)
    for t, mm in zip(kt, km):
        terms.append(t)
        meta.append((mm[0], mm[1], 0))

    tm['runs_s'] = round(_time.time() - t0, 1)
    t0 = _time.time()
    vals = ctx.coq_eval('cases', HEADER, terms, shard=None if quick else 20)
    tm['model_eval_s'] = round(_time.time() - t0, 1)
    ctx.notes['timing'] = tm
    import hashlib
    for v, mm, term in zip(vals, meta, terms):
        what = mm[0]
        # distinct by the exact arrays shipped; boundary-face copies and clips of arbitrary arrays count as
        # non-trivial when the array is not all zero (always the case for generated arrays)
        ctx.count({'term': hashlib.sha1(term.encode()).hexdigest()}, True)
        ctx.hist('correspondence', what)
        bad = []
        if what == 'step':
            pre, post, stg = v
            if pre is not None:
                bad.append('iterator result: ' + describe(pre))
            if post is not None:
                bad.append('after postProcess: ' + describe(post))
            for k, s in enumerate(stg):
                if s is not None:
                    bad.append('RK4 stage profile %d: %s' % (k + 2, describe(s)))
        elif what == 'fluxes':
            if isinstance(v, tuple) and len(v) == 3 and isinstance(v[1], bool):
                if v[1]:
                    ctx.notes['indeterminate_ill_conditioned'] = ctx.notes.get('indeterminate_ill_conditioned', 0) + 1
                elif v[0] is not None:
                    bad.append('_getFluxes (homogenization): ' + describe(v[0]))
                if not v[2]:
                    bad.append('volume-fixed frame fluxes of the substitutional elements do not cancel in the model evaluation')
            elif v is not None:
                bad.append('_getFluxes (single phase): ' + describe(v))
        elif what == 'setup':
            a, b = v
            if a is not None:
                bad.append('first setup: ' + describe(a))
            if b is not None:
                bad.append('second setup: ' + describe(b))
        else:
            if v is not None:
                bad.append(what + ': ' + describe(v))
        for b in bad:
            dis.append((what, mm[1], mm[2], b, term))

    real_runs(ctx, hits, quick)
    report_hits(ctx, hits)
    if dis and not hits:
        # the implementation no longer behaves like the model the theorems are about: search harder
        more = [gen_cfg(ctx.rng, quick) for _ in range(300)]
        hits2 = []
        for c in more:
            for h in oracle(c, run_cfg(c)):
                hits2.append((c, *h))
        ctx.cov['evaluations'] += len(more)
        if hits2:
            report_hits(ctx, hits2)
    if dis and not ctx.violations and not ctx.known_hits:
        seen = set()
        for what, key, idx, d, term in dis:
            cls = d.split(':')[0]
            if (what, cls) in seen:
                continue
            seen.add((what, cls))
            n = sum(1 for x in dis if x[0] == what and x[3].split(':')[0] == cls)
            ctx.violation('correspondence', {'site': 'kawin.diffusion', 'cls': what + ' / ' + cls},
                          {'broken': {'correspondence': 'coq/C04/Model.v vs kawin/diffusion', 'first_disagreement': d, 'case': what, 'index': idx},
                           'input': key, 'disagreements': n, 'coq_term': term,
                           'note': 'replay re-runs the configuration (when input is one) and evaluates the model on every logged step; '
                                   'coq_term is the failing comparison with the implementation output of this run as literals'},
                          'model and implementation disagree (%d cases): %s' % (n, d), no_input=True)
    for t in failed:
        ctx.violation(t, {'site': 'coq/C04/Properties.v', 'cls': 'proof'},
                      {'broken': {'theorem': t, 'file': 'coq/C04/Properties.v'}},
                      'theorem %s no longer checks' % t, no_input=True)
    ctx.notes['disagreements'] = len(dis)
    ctx.notes['disagreement_examples'] = [{'case': d[0], 'index': d[2], 'what': d[3]} for d in dis[:5]]
    ctx.notes['oracle_hits'] = len(hits)
    ctx.assumptions += [
        'binary64 rounding and numpy summation order are not modelled: model outputs are compared with relative tolerance 2^-36 of the summed magnitudes of the terms that were added; copies (boundary faces) are compared exactly',
        'interdiffusivities, face mobilities (the exp/log mean), chemical potentials and temperatures enter the model as given values (oracles); the theorems hold for all of them',
        'conservation is claimed for the state the iterator returns; the postProcess clip can add or remove solute and is accounted for exactly (clip_gain); steps in which the clip was active are counted in steps_with_active_clip',
        'a prescribed composition is the value installed by setup (documented shift by len(allElements)*minComposition, clamp to minComposition)',
        'the hand-written model coq/C04/Model.v is tied to the code only through this correspondence']
    ctx.cov['trusted_base'] += ['Coq 8.16.1 kernel and vm_compute', 'hand-written model coq/C04/Model.v + correspondence harness harness/c04.py (logging subclass, iterator wrapper, observer, stub thermodynamics)',
                                'float -> Q transport (float.as_integer_ratio) and output parser in harness/common.py']


def corr_for_cfg(ctx, cfg, limit=12):
    """model vs implementation on every logged step of one configuration"""
    rec = run_cfg(cfg)
    terms, names = [], []
    if rec['err'] is None and rec['it'] is not None:
        for g in range(min(limit, len(rec['it'].log))):
            terms.append(step_term(cfg, rec, g))
            names.append('step %d' % g)
            terms.append(flux_term(cfg, rec, rec['it'].log[g]['calls'][0], g))
            names.append('_getFluxes at step %d' % g)
    t = setup_case(cfg)
    if t:
        terms.append(t)
        names.append('setup twice')
    vals = ctx.coq_eval('replay', HEADER, terms) if terms else []

    def flat(v):
        if v is None or isinstance(v, bool):
            return []
        if isinstance(v, tuple) and len(v) == 2 and v[0] == 'Some':
            return [v]
        if isinstance(v, (tuple, list)):
            return [x for y in v for x in flat(y)]
        return []
    out = []
    for n, v in zip(names, vals):
        if isinstance(v, tuple) and len(v) == 3 and isinstance(v[1], bool) and isinstance(v[2], bool):
            if not v[2]:
                out.append('%s: frame identity fails' % n)
            v = None if v[1] else v[0]          # ill-conditioned comparisons are not judged
        for b in flat(v):
            out.append('%s: %s' % (n, describe(b)))
    return out


def replay(ctx, obj):
    cfg = obj.get('input', obj)
    if isinstance(obj.get('broken'), dict) and 'correspondence' in obj['broken']:
        if isinstance(cfg, dict) and 'kind' in cfg and 'profiles' in cfg:
            out = corr_for_cfg(ctx, cfg)
        else:
            v = ctx.coq_eval('replay', HEADER, [obj['coq_term']])[0]
            out = [] if v is None else ['recorded implementation output vs model: %r' % (v,)]
        for o in out:
            print('replay:', o)
        print('replay: %d disagreements between model and implementation on this input' % len(out))
        return 1 if out else 0
    if cfg.get('real'):
        hits = []
        real_runs(ctx, hits, True)
        hs = [h[1:] for h in hits]
    else:
        hs = oracle(cfg, run_cfg(cfg))
    for h in hs:
        print('replay:', h)
    print('replay: %d oracle violations on this input' % len(hs))
    return 1 if hs else 0
