(* C10 - lemmas about the real-number instance of the diffusivity algebra (Model.v). *)
From Coq Require Import Reals List Bool ZArith Arith Lia Lra Psatz.
Require Import Kawin.Common.Ops Kawin.Common.Vec Kawin.Common.VecLemmas Kawin.C10.Model.
Import ListNotations.
Open Scope R_scope.

(* lengths of lists at type [T Rops] and at type [R] must be identified before lia sees them *)
Tactic Notation "lia" := (cbn [T Rops] in *; Lia.lia).
Tactic Notation "lra" := (cbn [T Rops] in *; Lra.lra).
Tactic Notation "nra" := (cbn [T Rops] in *; Lra.nra).
Ltac rfield := cbn [T Rops] in *; field.
Ltac rring := cbn [T Rops] in *; ring.
(* rewrite with a lemma whose statement mentions [T Rops] in the return type of an [if] *)
Ltac rw H := let E := fresh "E" in pose proof H as E; cbn [T Rops] in E; cbn [T Rops]; rewrite E; clear E.

Notation vec := (list R).
Notation mat := (list (list R)).
Notation Rsum := (bigsum Rops).
Notation vg := (vget Rops).
Notation mg := (mget Rops).

(* ---- finite sums --------------------------------------------------------------------------------- *)
Lemma sumT_app (l1 l2 : list R) : sumT Rops (l1 ++ l2) = sumT Rops l1 + sumT Rops l2.
Proof. induction l1 as [|x l IH]; simpl; Rnorm; [lra | rewrite IH; lra]. Qed.

Lemma Rsum_0 f : Rsum 0 f = 0.
Proof. reflexivity. Qed.

Lemma Rsum_S n f : Rsum (S n) f = Rsum n f + f n.
Proof.
  unfold bigsum. rewrite seq_S, map_app, sumT_app. simpl. Rnorm. lra.
Qed.

Lemma Rsum_ext n f g : (forall i, (i < n)%nat -> f i = g i) -> Rsum n f = Rsum n g.
Proof.
  induction n as [|n IH]; intros H; [reflexivity|].
  rewrite !Rsum_S, IH, (H n) by (intros; try apply H; lia). reflexivity.
Qed.

Lemma Rsum_zero n f : (forall i, (i < n)%nat -> f i = 0) -> Rsum n f = 0.
Proof.
  induction n as [|n IH]; intros H; [reflexivity|].
  rewrite Rsum_S, IH, (H n) by (intros; try apply H; lia). lra.
Qed.

Lemma Rsum_plus n f g : Rsum n (fun i => f i + g i) = Rsum n f + Rsum n g.
Proof. induction n as [|n IH]; [rewrite !Rsum_0; lra | rewrite !Rsum_S, IH; lra]. Qed.

Lemma Rsum_minus n f g : Rsum n (fun i => f i - g i) = Rsum n f - Rsum n g.
Proof. induction n as [|n IH]; [rewrite !Rsum_0; lra | rewrite !Rsum_S, IH; lra]. Qed.

Lemma Rsum_scal_l n c f : Rsum n (fun i => c * f i) = c * Rsum n f.
Proof. induction n as [|n IH]; [rewrite !Rsum_0; lra | rewrite !Rsum_S, IH; lra]. Qed.

Lemma Rsum_scal_r n c f : Rsum n (fun i => f i * c) = Rsum n f * c.
Proof. induction n as [|n IH]; [rewrite !Rsum_0; lra | rewrite !Rsum_S, IH; lra]. Qed.

Lemma Rsum_opp n f : Rsum n (fun i => - f i) = - Rsum n f.
Proof. induction n as [|n IH]; [rewrite !Rsum_0; lra | rewrite !Rsum_S, IH; lra]. Qed.

(* sum of a function that is non-zero at one index only *)
Lemma Rsum_delta n k f : (k < n)%nat -> Rsum n (fun i => if Nat.eqb i k then f i else 0) = f k.
Proof.
  induction n as [|n IH]; intros H; [lia|].
  rewrite Rsum_S. destruct (Nat.eq_dec k n) as [->|Hne].
  - rewrite Nat.eqb_refl. rewrite Rsum_zero; [lra|].
    intros i Hi. destruct (Nat.eqb_spec i n); [lia | reflexivity].
  - rewrite IH by lia. destruct (Nat.eqb_spec n k); [lia | lra].
Qed.

Lemma Rsum_swap n m (f : nat -> nat -> R) :
  Rsum n (fun i => Rsum m (fun j => f i j)) = Rsum m (fun j => Rsum n (fun i => f i j)).
Proof.
  induction n as [|n IH].
  - rewrite Rsum_0. symmetry. apply Rsum_zero. intros; apply Rsum_0.
  - rewrite Rsum_S, IH. rewrite <- Rsum_plus. apply Rsum_ext. intros j _. rewrite Rsum_S. reflexivity.
Qed.

Lemma Rsum_split a b f : Rsum (a + b) f = Rsum a f + Rsum b (fun i => f (a + i)%nat).
Proof.
  induction b as [|b IH].
  - rewrite Nat.add_0_r, Rsum_0. lra.
  - replace (a + S b)%nat with (S (a + b)) by lia. rewrite !Rsum_S, IH. lra.
Qed.

(* ---- vectors and matrices built from index functions ---------------------------------------------- *)
Lemma nth_map_seq {A} (g : nat -> A) n i d : (i < n)%nat -> nth i (map g (seq 0 n)) d = g i.
Proof.
  intros H. rewrite (nth_indep _ d (g 0%nat)) by (rewrite map_length, seq_length; exact H).
  rewrite map_nth, seq_nth by exact H. reflexivity.
Qed.

Lemma vget_mkvec n f i : (i < n)%nat -> vg (mkvec Rops n f) i = f i.
Proof. intros H. unfold vget, mkvec. apply nth_map_seq; exact H. Qed.

Lemma mget_mkmat n m f i j : (i < n)%nat -> (j < m)%nat -> mg (mkmat Rops n m f) i j = f i j.
Proof.
  intros Hi Hj. unfold mget, mkmat. rewrite nth_map_seq by exact Hi. apply nth_map_seq; exact Hj.
Qed.

Lemma mget_mmul n k m A B i j : (i < n)%nat -> (j < m)%nat ->
  mg (mmul Rops n k m A B) i j = Rsum k (fun l => mg A i l * mg B l j).
Proof. intros. unfold mmul. rewrite mget_mkmat by assumption. reflexivity. Qed.

Lemma mget_mzero n m i j : mg (mzero Rops n m) i j = 0.
Proof.
  unfold mzero. destruct (lt_dec i n) as [Hi|Hi]; [destruct (lt_dec j m) as [Hj|Hj]|].
  - rewrite mget_mkmat by assumption. reflexivity.
  - unfold mget, mkmat. rewrite nth_map_seq by exact Hi.
    apply nth_overflow. rewrite map_length, seq_length. lia.
  - unfold mget, mkmat. rewrite (nth_overflow _ []) by (rewrite map_length, seq_length; lia).
    destruct j; reflexivity.
Qed.

(* ================================================================================================== *)
(* Mobility.py                                                                                          *)
(* ================================================================================================== *)
Section Mobility.
Variables (vp : bool) (X : vec) (inter : list bool) (M yva : vec).
Let n := length X.
Let Us := usum Rops X inter.

Lemma mm_entry a b : (a < n)%nat -> (b < n)%nat ->
  mg (mobility_matrix Rops vp X inter M yva) a b = mob_entry Rops vp X inter M yva a b * Us.
Proof. intros. unfold mobility_matrix. rewrite mget_mkmat by assumption. reflexivity. Qed.

(* the u-fractions of the substitutional elements sum to one *)
Lemma ufrac_sum : Us <> 0 ->
  Rsum n (fun a => if isint inter a then 0 else ufrac Rops X inter a) = 1.
Proof.
  intros H. unfold ufrac. fold Us.
  rewrite (Rsum_ext _ _ (fun a => (if isint inter a then 0 else vg X a) * / Us)).
  - rewrite Rsum_scal_r.
    change (Us * / Us = 1). apply Rinv_r. exact H.
  - intros a _. destruct (isint inter a); Rnorm; lra.
Qed.

(* a substitutional entry is (delta_ab - U_a) * U_b M_b *)
Lemma mob_entry_subst a b : isint inter a = false -> isint inter b = false ->
  mob_entry Rops vp X inter M yva a b =
    ((if Nat.eqb a b then 1 else 0) - ufrac Rops X inter a) * mobU Rops X inter M b.
Proof.
  intros Ha Hb. unfold mob_entry. rewrite Ha, Hb. destruct (Nat.eqb a b); unfold negT; Rnorm; lra.
Qed.

Lemma mob_entry_subst_inter a b : isint inter a = false -> isint inter b = true ->
  mob_entry Rops vp X inter M yva a b = 0.
Proof. intros Ha Hb. unfold mob_entry. rewrite Ha, Hb. reflexivity. Qed.

(* every column of the mobility matrix sums to zero over the substitutional rows *)
Lemma column_sum_zero b : Us <> 0 -> (b < n)%nat ->
  Rsum n (fun a => if isint inter a then 0 else mg (mobility_matrix Rops vp X inter M yva) a b) = 0.
Proof.
  intros HU Hb. destruct (isint inter b) eqn:Eb.
  - apply Rsum_zero. intros a Ha. destruct (isint inter a) eqn:Ea; [reflexivity|].
    rewrite mm_entry, mob_entry_subst_inter by assumption. lra.
  - set (c := mobU Rops X inter M b * Us).
    rewrite (Rsum_ext _ _ (fun a => (if Nat.eqb a b then c else 0)
                                     - (if isint inter a then 0 else ufrac Rops X inter a) * c)).
    + rewrite Rsum_minus, Rsum_scal_r.
      rw (Rsum_delta n b (fun _ => c) Hb). rw (ufrac_sum HU). lra.
    + intros a Ha. destruct (isint inter a) eqn:Ea.
      * destruct (Nat.eqb_spec a b) as [->|]; [congruence | lra].
      * rewrite mm_entry, mob_entry_subst by assumption. unfold c.
        destruct (Nat.eqb a b); lra.
Qed.

(* J_a = - sum_b M_ab g_b : the substitutional fluxes sum to zero for EVERY potential gradient g *)
Lemma flux_sum_zero (g : nat -> R) : Us <> 0 ->
  Rsum n (fun a => if isint inter a then 0
                   else - Rsum n (fun b => mg (mobility_matrix Rops vp X inter M yva) a b * g b)) = 0.
Proof.
  intros HU.
  rewrite (Rsum_ext _ _ (fun a => Rsum n (fun b =>
             - ((if isint inter a then 0 else mg (mobility_matrix Rops vp X inter M yva) a b) * g b)))).
  - rewrite Rsum_swap. apply Rsum_zero. intros b Hb.
    rewrite Rsum_opp, Rsum_scal_r, column_sum_zero by assumption. lra.
  - intros a _. destruct (isint inter a).
    + symmetry. apply Rsum_zero. intros; lra.
    + rewrite Rsum_opp. reflexivity.
Qed.

(* the same for the chemical diffusivity D = M * P, whatever P is *)
Lemma chemdiff_column_sum_zero (P : mat) j : Us <> 0 -> (j < n)%nat ->
  Rsum n (fun a => if isint inter a then 0 else mg (chemical_diffusivity Rops vp X inter M yva P) a j) = 0.
Proof.
  intros HU Hj.
  pose proof (flux_sum_zero (fun b => mg P b j) HU) as F. cbv beta in F.
  rewrite (Rsum_ext _ _ (fun a => - (if isint inter a then 0
             else - Rsum n (fun b => mg (mobility_matrix Rops vp X inter M yva) a b * mg P b j)))).
  - rewrite Rsum_opp. rw F. lra.
  - intros a Ha. destruct (isint inter a); [lra|].
    unfold chemical_diffusivity. fold n. rewrite mget_mmul by assumption.
    rewrite Ropp_involutive. reflexivity.
Qed.

(* interstitial rows: diagonal only *)
Lemma inter_row a b : (a < n)%nat -> (b < n)%nat -> isint inter a = true -> a <> b ->
  mg (mobility_matrix Rops vp X inter M yva) a b = 0.
Proof.
  intros Ha Hb Ea Hab. rewrite mm_entry by assumption. unfold mob_entry. rewrite Ea.
  destruct (Nat.eqb_spec a b); [contradiction | Rnorm; lra].
Qed.
End Mobility.

Lemma skip_lt_early r c n : (r < n)%nat -> (c < n - 1)%nat -> (skip r c < n)%nat.
Proof. unfold skip. destruct (Nat.ltb_spec c r); lia. Qed.

(* ---- tracer diffusivity ---------------------------------------------------------------------------- *)
Lemma vget_computedMob corr raw a : (a < length corr)%nat -> (a < length raw)%nat ->
  vg (computedMob Rops corr raw) a = vg corr a * vg raw a.
Proof.
  intros H1 H2. unfold vget, computedMob. rewrite (nth_zipWith _ _ _ _ _ 0 0) by assumption. reflexivity.
Qed.

Lemma tracer_entry Tk corr raw a : (a < length corr)%nat -> (a < length raw)%nat ->
  vg (tracer Rops Tk corr raw) a = 8314 / 1000 * Tk * (vg corr a * vg raw a).
Proof.
  intros H1 H2. unfold vget, tracer.
  assert (L : (a < length (computedMob Rops corr raw))%nat).
  { unfold computedMob. rewrite zipWith_length. lia. }
  rewrite (nth_indep _ _ ((fun m => mul Rops (mul Rops (Rgas Rops) Tk) m) 0)) by (rewrite map_length; exact L).
  rewrite map_nth.
  change (nth a (computedMob Rops corr raw) 0) with (vg (computedMob Rops corr raw) a).
  rewrite vget_computedMob by assumption. unfold Rgas. Rnorm. reflexivity.
Qed.

Lemma tracer_pos Tk corr raw a : (a < length corr)%nat -> (a < length raw)%nat ->
  0 < Tk -> 0 < vg corr a * vg raw a -> 0 < vg (tracer Rops Tk corr raw) a.
Proof.
  intros H1 H2 HT HM. rewrite tracer_entry by assumption.
  apply Rmult_lt_0_compat; [|exact HM]. apply Rmult_lt_0_compat; [lra | exact HT].
Qed.

(* diffusivity-parameter databases: a diagonal matrix of the tracer diffusivities of the solutes, so its
   eigenvalues are its diagonal entries *)
Lemma interdiff_from_diff_entry n r corr raw a b : (a < n - 1)%nat -> (b < n - 1)%nat ->
  mg (interdiff_from_diff Rops n r corr raw) a b =
    if Nat.eqb a b then vg (tracer_from_diff Rops corr raw) (skip r a) else 0.
Proof. intros. unfold interdiff_from_diff. rewrite mget_mkmat by assumption. reflexivity. Qed.

Lemma interdiff_from_diff_pos n r corr raw a : (r < n)%nat -> (a < n - 1)%nat ->
  length corr = n -> length raw = n ->
  (forall e, (e < n)%nat -> 0 < vg corr e * vg raw e) ->
  0 < mg (interdiff_from_diff Rops n r corr raw) a a.
Proof.
  intros Hr Ha L1 L2 Hp. rewrite interdiff_from_diff_entry by assumption. rewrite Nat.eqb_refl.
  pose proof (skip_lt_early r a n Hr Ha) as Hs.
  unfold tracer_from_diff. rewrite vget_computedMob by lia. apply Hp. exact Hs.
Qed.

(* ================================================================================================== *)
(* FreeEnergyHessian.py                                                                                 *)
(* ================================================================================================== *)
(* the phase's own curvature block (formulahess restricted to the site fractions) is symmetric *)
Definition d2g_sym (d : phase_data Rops) : Prop :=
  forall i j, (i < pdof d)%nat -> (j < pdof d)%nat ->
    mg (d2g d) (nsv d + i) (nsv d + j) = mg (d2g d) (nsv d + j) (nsv d + i).

Ltac split_nat :=
  repeat match goal with
  | |- context [Nat.ltb ?a ?b] => destruct (Nat.ltb_spec a b)
  | |- context [Nat.eqb ?a ?b] => destruct (Nat.eqb_spec a b)
  end.

(* every assignment of [hessian] has its mirror image *)
Lemma hess_entry_sym d i j : d2g_sym d -> hess_entry Rops d i j = hess_entry Rops d j i.
Proof.
  intros S. unfold hess_entry, i0. split_nat; try lia; subst; try reflexivity.
  rewrite S by assumption. reflexivity.
Qed.

Lemma hessian_entry d i j : (i < hsize Rops d)%nat -> (j < hsize Rops d)%nat ->
  mg (hessian Rops d) i j = hess_entry Rops d i j.
Proof. intros. unfold hessian. apply mget_mkmat; assumption. Qed.

Lemma hessian_sym d i j : d2g_sym d -> (i < hsize Rops d)%nat -> (j < hsize Rops d)%nat ->
  mg (hessian Rops d) i j = mg (hessian Rops d) j i.
Proof. intros S Hi Hj. rewrite !hessian_entry by assumption. apply hess_entry_sym; exact S. Qed.

(* ---- what numpy's inverse is assumed to return ----------------------------------------------------- *)
Definition right_inverse (N : nat) (K Ki : mat) : Prop :=
  forall i j, (i < N)%nat -> (j < N)%nat ->
    Rsum N (fun l => mg K i l * mg Ki l j) = if Nat.eqb i j then 1 else 0.
Definition inv_ok (inv : mat -> option mat) (N : nat) (K : mat) : Prop :=
  forall Ki, inv K = Some Ki -> right_inverse N K Ki.

Section Solve.
Variables (N : nat) (K Ki : mat).
Hypothesis Ksym : forall i j, (i < N)%nat -> (j < N)%nat -> mg K i j = mg K j i.
Hypothesis KKi : right_inverse N K Ki.

(* x = Ki u *)
Definition sol (u : nat -> R) (i : nat) : R := Rsum N (fun l => mg Ki i l * u l).

(* K (Ki u) = u *)
Lemma K_sol u k : (k < N)%nat -> Rsum N (fun i => mg K k i * sol u i) = u k.
Proof.
  intros Hk. unfold sol.
  rewrite (Rsum_ext _ _ (fun i => Rsum N (fun l => mg K k i * mg Ki i l * u l))).
  2:{ intros i _. rewrite <- Rsum_scal_l. apply Rsum_ext. intros; lra. }
  rewrite Rsum_swap.
  rewrite (Rsum_ext _ _ (fun l => if Nat.eqb l k then u l else 0)).
  - rw (Rsum_delta N k u Hk). reflexivity.
  - intros l Hl. rewrite Rsum_scal_r. rewrite KKi by assumption.
    rewrite (Nat.eqb_sym l k). destruct (Nat.eqb k l); lra.
Qed.

(* a symmetric matrix defines a symmetric bilinear form *)
Lemma quad_sym (x y : nat -> R) :
  Rsum N (fun k => Rsum N (fun i => mg K k i * x i) * y k) =
  Rsum N (fun k => Rsum N (fun i => mg K k i * y i) * x k).
Proof.
  rewrite (Rsum_ext _ _ (fun k => Rsum N (fun i => mg K k i * x i * y k))).
  2:{ intros k _. rewrite <- Rsum_scal_r. reflexivity. }
  rewrite Rsum_swap. apply Rsum_ext. intros i Hi.
  rewrite <- Rsum_scal_r. apply Rsum_ext. intros k Hk. rewrite (Ksym k i) by assumption. lra.
Qed.

(* hence the inverse is symmetric as a bilinear form: u . (Ki v) = v . (Ki u) *)
Lemma inverse_bilinear_sym (u v : nat -> R) :
  Rsum N (fun k => u k * sol v k) = Rsum N (fun k => v k * sol u k).
Proof.
  rewrite (Rsum_ext _ _ (fun k => Rsum N (fun i => mg K k i * sol u i) * sol v k)).
  2:{ intros k Hk. rewrite K_sol by exact Hk. reflexivity. }
  rewrite quad_sym. apply Rsum_ext. intros k Hk. rewrite K_sol by exact Hk. reflexivity.
Qed.
End Solve.

(* ---- the right-hand sides select rows ------------------------------------------------------------- *)
Definition btot (d : phase_data Rops) (r c k : nat) : R :=
  if Nat.ltb k (i0 Rops d) then 0
  else if Nat.eqb (k - i0 Rops d) r then 1
  else if Nat.eqb (k - i0 Rops d) (skip r c) then -1 else 0.
Definition bpart (d : phase_data Rops) (c k : nat) : R :=
  if Nat.ltb k (i0 Rops d) then 0 else if Nat.eqb (k - i0 Rops d) c then -1 else 0.

Lemma hsize_i0 d : hsize Rops d = (i0 Rops d + nel d)%nat.
Proof. unfold hsize, i0. lia. Qed.

Lemma b_total_entry d r k c : (k < hsize Rops d)%nat -> (c < nel d - 1)%nat ->
  mg (b_total Rops d r) k c = btot d r c k.
Proof.
  intros. unfold b_total. rewrite mget_mkmat by assumption. unfold btot, negT. Rnorm.
  split_nat; lra.
Qed.
Lemma b_partial_entry d k c : (k < hsize Rops d)%nat -> (c < nel d)%nat ->
  mg (b_partial Rops d) k c = bpart d c k.
Proof.
  intros. unfold b_partial. rewrite mget_mkmat by assumption. unfold bpart, negT. Rnorm.
  split_nat; lra.
Qed.

Lemma skip_neq r c : skip r c <> r.
Proof. unfold skip. destruct (Nat.ltb_spec c r); lia. Qed.
Lemma skip_lt r c n : (r < n)%nat -> (c < n - 1)%nat -> (skip r c < n)%nat.
Proof. unfold skip. destruct (Nat.ltb_spec c r); lia. Qed.

Lemma btot_sum d r c (x : nat -> R) : (r < nel d)%nat -> (c < nel d - 1)%nat ->
  Rsum (hsize Rops d) (fun k => btot d r c k * x k) =
    x (i0 Rops d + r)%nat - x (i0 Rops d + skip r c)%nat.
Proof.
  intros Hr Hc. rewrite hsize_i0, Rsum_split.
  rewrite Rsum_zero.
  2:{ intros k Hk. unfold btot. destruct (Nat.ltb_spec k (i0 Rops d)); [lra | lia]. }
  set (I := i0 Rops d).
  rewrite (Rsum_ext _ _ (fun A => (if Nat.eqb A r then x (I + A)%nat else 0)
                                  - (if Nat.eqb A (skip r c) then x (I + A)%nat else 0))).
  - rewrite Rsum_minus.
    rw (Rsum_delta (nel d) r (fun A => x (I + A)%nat) Hr).
    rw (Rsum_delta (nel d) (skip r c) (fun A => x (I + A)%nat) (skip_lt r c (nel d) Hr Hc)). lra.
  - intros A HA. unfold btot. fold I.
    destruct (Nat.ltb_spec (I + A) I); [lia|].
    replace (I + A - I)%nat with A by lia.
    pose proof (skip_neq r c).
    destruct (Nat.eqb_spec A r); destruct (Nat.eqb_spec A (skip r c)); try lia; lra.
Qed.

Lemma bpart_sum d c (x : nat -> R) : (c < nel d)%nat ->
  Rsum (hsize Rops d) (fun k => bpart d c k * x k) = - x (i0 Rops d + c)%nat.
Proof.
  intros Hc. rewrite hsize_i0, Rsum_split.
  rewrite Rsum_zero.
  2:{ intros k Hk. unfold bpart. destruct (Nat.ltb_spec k (i0 Rops d)); [lra | lia]. }
  set (I := i0 Rops d).
  rewrite (Rsum_ext _ _ (fun A => if Nat.eqb A c then - x (I + A)%nat else 0)).
  - rw (Rsum_delta (nel d) c (fun A => - x (I + A)%nat) Hc). lra.
  - intros A HA. unfold bpart. fold I.
    destruct (Nat.ltb_spec (I + A) I); [lia|].
    replace (I + A - I)%nat with A by lia. destruct (Nat.eqb A c); lra.
Qed.

(* ---- dMudX and partialdMudX ------------------------------------------------------------------------- *)
Section DMu.
Variable inv : mat -> option mat.
Variable d : phase_data Rops.
Let N := hsize Rops d.
Let K := hessian Rops d.
Hypothesis Hinv : inv_ok inv N K.

(* entry of  inverse @ b  when the inverse exists *)
Lemma ddx_entry Ki m b k e : inv K = Some Ki -> (k < N)%nat -> (e < m)%nat ->
  mg (ddx_of Rops inv d m b) k e = sol N Ki (fun l => mg b l e) k.
Proof.
  intros E Hk He. unfold ddx_of. fold K. rewrite E. fold N.
  rewrite mget_mmul by assumption. reflexivity.
Qed.

Lemma dMudX_entry_some Ki r c e : inv K = Some Ki -> (r < nel d)%nat -> (c < nel d - 1)%nat -> (e < nel d - 1)%nat ->
  mg (dMudX Rops inv d r) c e =
    - Rsum N (fun k => btot d r c k * sol N Ki (fun l => btot d r e l) k).
Proof.
  intros E Hr Hc He. unfold dMudX. rewrite mget_mkmat by assumption.
  unfold totalddx.
  assert (B1 : (i0 Rops d + skip r c < N)%nat).
  { unfold N. rewrite hsize_i0. pose proof (skip_lt r c (nel d) Hr Hc). lia. }
  assert (B2 : (i0 Rops d + r < N)%nat) by (unfold N; rewrite hsize_i0; lia).
  rewrite !(ddx_entry Ki) by assumption.
  assert (S : forall k, sol N Ki (fun l => mg (b_total Rops d r) l e) k = sol N Ki (fun l => btot d r e l) k).
  { intros k. unfold sol. apply Rsum_ext. intros l Hl. rewrite b_total_entry by assumption. reflexivity. }
  rewrite !S. unfold N. rewrite btot_sum by assumption. Rnorm. lra.
Qed.

Lemma dMudX_entry_none r c e : inv K = None -> (c < nel d - 1)%nat -> (e < nel d - 1)%nat ->
  mg (dMudX Rops inv d r) c e = 0.
Proof.
  intros E Hc He. unfold dMudX. rewrite mget_mkmat by assumption.
  unfold totalddx, ddx_of. fold K. rewrite E. rewrite !mget_mzero. Rnorm. lra.
Qed.

(* dMudX is symmetric: it is minus the inverse bordered matrix sandwiched between selector vectors *)
Lemma dMudX_symmetric r c e : d2g_sym d -> (r < nel d)%nat -> (c < nel d - 1)%nat -> (e < nel d - 1)%nat ->
  mg (dMudX Rops inv d r) c e = mg (dMudX Rops inv d r) e c.
Proof.
  intros S Hr Hc He. destruct (inv K) as [Ki|] eqn:E.
  - rewrite !(dMudX_entry_some Ki) by assumption. f_equal.
    apply (inverse_bilinear_sym N K Ki).
    + intros i j Hi Hj. apply hessian_sym; assumption.
    + apply Hinv. exact E.
  - rewrite !dMudX_entry_none by assumption. reflexivity.
Qed.

Lemma partial_entry_some Ki A B : inv K = Some Ki -> (A < nel d)%nat -> (B < nel d)%nat ->
  mg (partialdMudX Rops inv d) A B = sol N Ki (fun l => bpart d B l) (i0 Rops d + A).
Proof.
  intros E HA HB. unfold partialdMudX. rewrite mget_mkmat by assumption. unfold partialddx.
  assert (B1 : (i0 Rops d + A < N)%nat) by (unfold N; rewrite hsize_i0; lia).
  rewrite (ddx_entry Ki) by assumption.
  unfold sol. apply Rsum_ext. intros l Hl. rewrite b_partial_entry by assumption. reflexivity.
Qed.

Lemma partial_entry_none A B : inv K = None -> (A < nel d)%nat -> (B < nel d)%nat ->
  mg (partialdMudX Rops inv d) A B = 0.
Proof.
  intros E HA HB. unfold partialdMudX. rewrite mget_mkmat by assumption.
  unfold partialddx, ddx_of. fold K. rewrite E. apply mget_mzero.
Qed.

Lemma partialdMudX_symmetric A B : d2g_sym d -> (A < nel d)%nat -> (B < nel d)%nat ->
  mg (partialdMudX Rops inv d) A B = mg (partialdMudX Rops inv d) B A.
Proof.
  intros S HA HB. destruct (inv K) as [Ki|] eqn:E.
  - rewrite !(partial_entry_some Ki) by assumption.
    assert (OPP : forall x y : R, - x = - y -> x = y) by (intros; lra). apply OPP.
    unfold N. rewrite <- !bpart_sum by assumption.
    apply (inverse_bilinear_sym N K Ki).
    + intros i j Hi Hj. apply hessian_sym; assumption.
    + apply Hinv. exact E.
  - rewrite !partial_entry_none by assumption. reflexivity.
Qed.

(* the total derivative is the partial one taken along the exchange with the reference element *)
Lemma dMudX_from_partial r c e : (r < nel d)%nat -> (c < nel d - 1)%nat -> (e < nel d - 1)%nat ->
  mg (dMudX Rops inv d r) c e =
    (mg (partialdMudX Rops inv d) (skip r c) (skip r e) - mg (partialdMudX Rops inv d) (skip r c) r)
  - (mg (partialdMudX Rops inv d) r (skip r e) - mg (partialdMudX Rops inv d) r r).
Proof.
  intros Hr Hc He.
  pose proof (skip_lt r c (nel d) Hr Hc) as Lc. pose proof (skip_lt r e (nel d) Hr He) as Le.
  destruct (inv K) as [Ki|] eqn:E.
  - unfold dMudX. rewrite mget_mkmat by assumption. unfold totalddx.
    assert (B1 : (i0 Rops d + skip r c < N)%nat) by (unfold N; rewrite hsize_i0; lia).
    assert (B2 : (i0 Rops d + r < N)%nat) by (unfold N; rewrite hsize_i0; lia).
    rewrite !(ddx_entry Ki) by assumption.
    rewrite !(partial_entry_some Ki) by assumption.
    assert (L : forall k, sol N Ki (fun l => mg (b_total Rops d r) l e) k =
                          sol N Ki (fun l => bpart d (skip r e) l) k - sol N Ki (fun l => bpart d r l) k).
    { intros k. unfold sol. rewrite <- Rsum_minus. apply Rsum_ext. intros l Hl.
      rewrite b_total_entry by assumption. unfold btot, bpart.
      pose proof (skip_neq r e).
      split_nat; try lia; lra. }
    rewrite !L. Rnorm. lra.
  - rewrite dMudX_entry_none by assumption. rewrite !partial_entry_none by assumption. lra.
Qed.
End DMu.

(* ---- Gibbs-Duhem from the bordered system ---------------------------------------------------------- *)
(* stationarity of the composition set: dG/dy_i - sum_A mu_A dM_A/dy_i is a combination of the constraint
   gradients (first-order condition of the constrained minimisation that produced the site fractions) *)
Definition stationary (d : phase_data Rops) (lam : nat -> R) : Prop :=
  forall i, (i < pdof d)%nat ->
    hrow Rops d i = Rsum (ncons d) (fun q => lam q * mg (cons d) q (nsv d + i)).

Section GibbsDuhem.
Variable d : phase_data Rops.
Variable lam : nat -> R.
Hypothesis St : stationary d lam.
Let N := hsize Rops d.
Let p := pdof d.
Let I := i0 Rops d.

(* row "phase amount" of K x *)
Lemma row_amount (x : nat -> R) :
  Rsum N (fun j => hess_entry Rops d p j * x j) =
    Rsum p (fun j => hrow Rops d j * x j) - Rsum (nel d) (fun A => vg (moleA d) A * x (I + A)%nat).
Proof.
  unfold N. replace (hsize Rops d) with (p + ((ncons d + 1) + nel d))%nat by (unfold hsize, p; lia).
  rewrite Rsum_split, Rsum_split.
  rewrite (Rsum_ext p _ (fun j => hrow Rops d j * x j)).
  2:{ intros j Hj. unfold hess_entry. fold p. split_nat; try lia; reflexivity. }
  rewrite (Rsum_zero (ncons d + 1)).
  2:{ intros j Hj. unfold hess_entry, i0. fold p. split_nat; try lia; Rnorm; lra. }
  rewrite (Rsum_ext (nel d) _ (fun A => - (vg (moleA d) A * x (I + A)%nat))).
  2:{ intros A HA. unfold hess_entry, I, i0. fold p. split_nat; try lia.
      replace (p + (ncons d + 1 + A) - (p + ncons d + 1))%nat with A by lia.
      replace (p + (ncons d + 1 + A))%nat with (p + ncons d + 1 + A)%nat by lia.
      unfold negT. Rnorm. lra. }
  rewrite Rsum_opp. lra.
Qed.

(* row "multiplier q" of K x *)
Lemma row_constraint (x : nat -> R) q : (q < ncons d)%nat ->
  Rsum N (fun j => hess_entry Rops d (p + 1 + q) j * x j) =
    - Rsum p (fun j => mg (cons d) q (nsv d + j) * x j).
Proof.
  intros Hq. unfold N. replace (hsize Rops d) with (p + ((ncons d + 1) + nel d))%nat by (unfold hsize, p; lia).
  rewrite Rsum_split.
  rewrite (Rsum_ext p _ (fun j => - (mg (cons d) q (nsv d + j) * x j))).
  2:{ intros j Hj. unfold hess_entry, i0. fold p. split_nat; try lia.
      replace (p + 1 + q - p - 1)%nat with q by lia. unfold negT. Rnorm. lra. }
  rewrite (Rsum_zero (ncons d + 1 + nel d)).
  2:{ intros j Hj. unfold hess_entry, i0. fold p. split_nat; try lia; Rnorm; lra. }
  rewrite Rsum_opp. lra.
Qed.

(* any solution of K x = u with u vanishing above the chemical-potential rows obeys Gibbs-Duhem *)
Lemma gibbs_duhem_solution (x u : nat -> R) :
  (forall k, (k < N)%nat -> Rsum N (fun j => hess_entry Rops d k j * x j) = u k) ->
  (forall k, (k < I)%nat -> u k = 0) ->
  Rsum (nel d) (fun A => vg (moleA d) A * x (I + A)%nat) = 0.
Proof.
  intros Kx U0.
  assert (Hp : (p < N)%nat) by (unfold N, hsize, p; lia).
  pose proof (Kx p Hp) as R1. rewrite row_amount in R1.
  rewrite (U0 p) in R1 by (unfold I, i0, p; lia).
  assert (Z : Rsum p (fun j => hrow Rops d j * x j) = 0).
  { rewrite (Rsum_ext _ _ (fun j => Rsum (ncons d) (fun q => lam q * (mg (cons d) q (nsv d + j) * x j)))).
    2:{ intros j Hj. rewrite St by exact Hj. rewrite <- Rsum_scal_r. apply Rsum_ext. intros; lra. }
    rewrite Rsum_swap. apply Rsum_zero. intros q Hq. rewrite Rsum_scal_l.
    assert (Hk : (p + 1 + q < N)%nat) by (unfold N, hsize, p; lia).
    pose proof (Kx _ Hk) as R2. rewrite row_constraint in R2 by exact Hq.
    rewrite (U0 (p + 1 + q)%nat) in R2 by (unfold I, i0, p; lia).
    assert (Rsum p (fun j => mg (cons d) q (nsv d + j) * x j) = 0) as -> by lra. lra. }
  lra.
Qed.
End GibbsDuhem.

(* sum_A M_A * d mu_A / d N_B = 0 for the matrix partialdMudX returns *)
Lemma gibbs_duhem_partial inv d lam B :
  stationary d lam -> inv_ok inv (hsize Rops d) (hessian Rops d) -> (B < nel d)%nat ->
  Rsum (nel d) (fun A => vg (moleA d) A * mg (partialdMudX Rops inv d) A B) = 0.
Proof.
  intros St Hinv HB. destruct (inv (hessian Rops d)) as [Ki|] eqn:E.
  - set (N := hsize Rops d). set (x := sol N Ki (fun l => bpart d B l)).
    rewrite (Rsum_ext _ _ (fun A => vg (moleA d) A * x (i0 Rops d + A)%nat)).
    2:{ intros A HA. rewrite (partial_entry_some inv d Ki) by assumption. reflexivity. }
    apply (gibbs_duhem_solution d lam St x (fun l => bpart d B l)).
    + intros k Hk.
      rewrite (Rsum_ext _ _ (fun j => mg (hessian Rops d) k j * x j)).
      2:{ intros j Hj. rewrite hessian_entry by assumption. reflexivity. }
      apply (K_sol N (hessian Rops d) Ki (Hinv Ki E)). exact Hk.
    + intros k Hk. unfold bpart. destruct (Nat.ltb_spec k (i0 Rops d)); [reflexivity | lia].
  - apply Rsum_zero. intros A HA. rewrite partial_entry_none by assumption. lra.
Qed.

(* ================================================================================================== *)
(* Binary: Darken                                                                                       *)
(* ================================================================================================== *)
(* concrete small systems: compute the list model down to real arithmetic *)
Ltac mcompute :=
  cbn [interdiffusivity interdiffusivity_cs interdiff_of chemical_diffusivity mobility_matrix mmul mkmat mkvec
       mget vget bigsum sumT mob_entry mobU ufrac usum isint skip negT tracer computedMob zipWith Rgas
       map seq nth length Nat.sub Nat.ltb Nat.leb Nat.eqb Nat.add
       T zero one add sub mul dvd ofZ Rops].
Ltac mcompute_in H :=
  cbn [interdiffusivity interdiffusivity_cs interdiff_of chemical_diffusivity mobility_matrix mmul mkmat mkvec
       mget vget bigsum sumT mob_entry mobU ufrac usum isint skip negT tracer computedMob zipWith Rgas
       map seq nth length Nat.sub Nat.ltb Nat.leb Nat.eqb Nat.add
       T zero one add sub mul dvd ofZ Rops] in H.

(* X = [x0; x1], both substitutional, reference r, the other element a = 1 - r.
   Hypothesis GD is Gibbs-Duhem along the exchange of a against r:
     x0 d(mu_0)/dx_a + x1 d(mu_1)/dx_a = 0   with d/dx_a = (column a) - (column r) of P *)
Lemma binary_darken vp x0 x1 c0 c1 w0 w1 yva (P : mat) r Tk :
  (r < 2)%nat -> x0 + x1 = 1 -> x0 <> 0 -> x1 <> 0 -> Tk <> 0 ->
  x0 * (mg P 0 (1 - r) - mg P 0 r) + x1 * (mg P 1 (1 - r) - mg P 1 r) = 0 ->
  mg (interdiffusivity Rops vp r [x0; x1] [false; false] (computedMob Rops [c0; c1] [w0; w1]) yva P) 0 0 =
    (vg [x0; x1] r * vg (tracer Rops Tk [c0; c1] [w0; w1]) (1 - r)
     + vg [x0; x1] (1 - r) * vg (tracer Rops Tk [c0; c1] [w0; w1]) r)
    * (vg [x0; x1] (1 - r) / (Rgas Rops * Tk) * (mg P (1 - r) (1 - r) - mg P (1 - r) r)).
Proof.
  intros Hr HS H0 H1 HT GD.
  destruct r as [|[|r]]; [| |lia]; mcompute_in GD; mcompute;
    replace (x0 + (x1 + 0)) with 1 by lra;
    repeat match goal with
    | |- context [nth ?j (nth ?i P []) 0] => change (nth j (nth i P []) 0) with (mg P i j)
    end.
  - set (p00 := mg P 0 0) in *. set (p01 := mg P 0 1) in *.
    set (p10 := mg P 1 0) in *. set (p11 := mg P 1 1) in *.
    assert (E : p01 = p00 - x1 * (p11 - p10) / x0).
    { apply (Rmult_eq_reg_l x0); [|exact H0].
      replace (x0 * (p00 - x1 * (p11 - p10) / x0)) with (x0 * p00 - x1 * (p11 - p10)) by (field; exact H0). lra. }
    rewrite E. assert (E1 : x1 = 1 - x0) by lra. subst x1. field. repeat split; try assumption; lra.
  - set (p00 := mg P 0 0) in *. set (p01 := mg P 0 1) in *.
    set (p10 := mg P 1 0) in *. set (p11 := mg P 1 1) in *.
    assert (E : p10 = p11 - x0 * (p00 - p01) / x1).
    { apply (Rmult_eq_reg_l x1); [|exact H1].
      replace (x1 * (p11 - x0 * (p00 - p01) / x1)) with (x1 * p11 - x0 * (p00 - p01)) by (field; exact H1). lra. }
    rewrite E. assert (E1 : x0 = 1 - x1) by lra. subst x0. field. repeat split; try assumption; lra.
Qed.

(* a positive scalar in the stable region *)
Lemma binary_positive vp x0 x1 c0 c1 w0 w1 yva (P : mat) r Tk :
  (r < 2)%nat -> x0 + x1 = 1 -> 0 < x0 -> 0 < x1 -> 0 < Tk -> 0 < c0 * w0 -> 0 < c1 * w1 ->
  x0 * (mg P 0 (1 - r) - mg P 0 r) + x1 * (mg P 1 (1 - r) - mg P 1 r) = 0 ->
  0 < mg P (1 - r) (1 - r) - mg P (1 - r) r ->
  0 < mg (interdiffusivity Rops vp r [x0; x1] [false; false] (computedMob Rops [c0; c1] [w0; w1]) yva P) 0 0.
Proof.
  intros Hr HS H0 H1 HT M0 M1 GD Stab.
  rw (binary_darken vp x0 x1 c0 c1 w0 w1 yva P r Tk Hr HS ltac:(lra) ltac:(lra) ltac:(lra) GD).
  assert (TR : forall a, (a < 2)%nat -> 0 < vg (tracer Rops Tk [c0; c1] [w0; w1]) a).
  { intros a Ha. apply tracer_pos; simpl; try lia; try exact HT.
    destruct a as [|[|a]]; [exact M0 | exact M1 | lia]. }
  assert (XP : forall a, (a < 2)%nat -> 0 < vg [x0; x1] a).
  { intros a Ha. destruct a as [|[|a]]; [exact H0 | exact H1 | lia]. }
  assert (RG : 0 < Rgas Rops * Tk) by (unfold Rgas; Rnorm; apply Rmult_lt_0_compat; lra).
  apply Rmult_lt_0_compat.
  - apply Rplus_lt_0_compat; apply Rmult_lt_0_compat; try apply TR; try apply XP; lia.
  - apply Rmult_lt_0_compat; [|exact Stab].
    apply Rdiv_lt_0_compat; [apply XP; lia | exact RG].
Qed.

(* Darken for the matrix the code builds itself: Gibbs-Duhem is then a consequence of the bordered
   system (given stationarity of the composition set and X proportional to the formula moles) *)
Lemma binary_darken_cs inv d lam vp x0 x1 c0 c1 w0 w1 yva r Tk s :
  nel d = 2%nat -> stationary d lam -> inv_ok inv (hsize Rops d) (hessian Rops d) ->
  s <> 0 -> vg (moleA d) 0 = s * x0 -> vg (moleA d) 1 = s * x1 ->
  (r < 2)%nat -> x0 + x1 = 1 -> x0 <> 0 -> x1 <> 0 -> Tk <> 0 ->
  let P := partialdMudX Rops inv d in
  mg (interdiffusivity_cs Rops inv vp r [x0; x1] [false; false] (computedMob Rops [c0; c1] [w0; w1]) yva d) 0 0 =
    (vg [x0; x1] r * vg (tracer Rops Tk [c0; c1] [w0; w1]) (1 - r)
     + vg [x0; x1] (1 - r) * vg (tracer Rops Tk [c0; c1] [w0; w1]) r)
    * (vg [x0; x1] (1 - r) / (Rgas Rops * Tk) * (mg P (1 - r) (1 - r) - mg P (1 - r) r)).
Proof.
  intros Hn St Hinv Hs E0 E1 Hr HS H0 H1 HT P.
  unfold interdiffusivity_cs. fold P. apply binary_darken; try assumption.
  assert (G : forall B, (B < 2)%nat -> x0 * mg P 0 B + x1 * mg P 1 B = 0).
  { intros B HB. pose proof (gibbs_duhem_partial inv d lam B St Hinv) as G. rewrite Hn in G.
    specialize (G HB). fold P in G.
    rewrite !Rsum_S, Rsum_0, E0, E1 in G.
    apply (Rmult_eq_reg_l s); [|exact Hs]. lra. }
  pose proof (G (1 - r)%nat ltac:(lia)). pose proof (G r Hr). lra.
Qed.

(* ================================================================================================== *)
(* Ternary: D = L * H with L symmetric positive definite; real positive eigenvalues                    *)
(* ================================================================================================== *)
(* volume-fixed Onsager matrix on the two independent elements *)
Definition dlt (a i : nat) : R := if Nat.eqb a i then 1 else 0.
Definition Lvf (X M : vec) (r c k : nat) : R :=
  Rsum 3 (fun i => (dlt (skip r c) i - vg X (skip r c)) * (dlt (skip r k) i - vg X (skip r k)) * (vg X i * vg M i)).
(* total derivative of mu_c - mu_r with respect to x_e (reference compensates): the matrix dMudX returns *)
Definition Htot (P : mat) (r c e : nat) : R :=
  (mg P (skip r c) (skip r e) - mg P (skip r c) r) - (mg P r (skip r e) - mg P r r).
Definition gd3 (X : vec) (P : mat) (B : nat) : R := Rsum 3 (fun A => vg X A * mg P A B).

Ltac ccompute :=
  cbn [Lvf Htot gd3 dlt interdiffusivity interdiff_of chemical_diffusivity mobility_matrix mmul mkmat mkvec
       mget vget bigsum sumT mob_entry mobU ufrac usum isint skip negT computedMob zipWith
       map seq nth length Nat.sub Nat.ltb Nat.leb Nat.eqb Nat.add
       T zero one add sub mul dvd ofZ Rops].

Lemma ternary_LH_gd vp x0 x1 x2 m0 m1 m2 yva (P : mat) r c e :
  (r < 3)%nat -> (c < 2)%nat -> (e < 2)%nat -> x0 + x1 + x2 = 1 ->
  let X := [x0; x1; x2] in let M := [m0; m1; m2] in
  mg (interdiffusivity Rops vp r X [false; false; false] M yva P) c e =
    Rsum 2 (fun k => Lvf X M r c k * Htot P r k e)
    + (gd3 X P (skip r e) - gd3 X P r)
      * Rsum 3 (fun i => (dlt (skip r c) i - vg X (skip r c)) * (vg X i * vg M i)).
Proof.
  intros Hr Hc He HS X M. subst X M.
  assert (E2 : x2 = 1 - x0 - x1) by lra. subst x2.
  destruct r as [|[|[|r]]]; [| | |lia]; (destruct c as [|[|c]]; [| |lia]); (destruct e as [|[|e]]; [| |lia]);
    unfold Htot, gd3, Lvf, dlt; ccompute; replace (x0 + (x1 + (1 - x0 - x1 + 0))) with 1 by lra; field.
Qed.

Lemma ternary_LH vp x0 x1 x2 m0 m1 m2 yva (P : mat) r c e :
  (r < 3)%nat -> (c < 2)%nat -> (e < 2)%nat -> x0 + x1 + x2 = 1 ->
  let X := [x0; x1; x2] in let M := [m0; m1; m2] in
  (forall B, (B < 3)%nat -> gd3 X P B = 0) ->
  mg (interdiffusivity Rops vp r X [false; false; false] M yva P) c e =
    Rsum 2 (fun k => Lvf X M r c k * Htot P r k e).
Proof.
  intros Hr Hc He HS X M GD. unfold X, M.
  rewrite ternary_LH_gd by assumption. fold X M.
  rewrite !GD by (try apply skip_lt; lia). lra.
Qed.

Lemma Lvf_sym X M r c k : Lvf X M r c k = Lvf X M r k c.
Proof. unfold Lvf. apply Rsum_ext. intros; lra. Qed.

Lemma Lvf_spd x0 x1 x2 m0 m1 m2 r :
  (r < 3)%nat -> x0 + x1 + x2 = 1 -> 0 < x0 -> 0 < x1 -> 0 < x2 -> 0 < m0 -> 0 < m1 -> 0 < m2 ->
  let L := Lvf [x0; x1; x2] [m0; m1; m2] r in
  0 < L 0%nat 0%nat /\ 0 < L 0%nat 0%nat * L 1%nat 1%nat - L 0%nat 1%nat * L 0%nat 1%nat.
Proof.
  intros Hr HS H0 H1 H2 M0 M1 M2 L. subst L.
  assert (E2 : x2 = 1 - x0 - x1) by lra. subst x2.
  set (x2 := 1 - x0 - x1) in *.
  assert (W0 : 0 < x0 * m0) by (apply Rmult_lt_0_compat; assumption).
  assert (W1 : 0 < x1 * m1) by (apply Rmult_lt_0_compat; assumption).
  assert (W2 : 0 < x2 * m2) by (apply Rmult_lt_0_compat; assumption).
  assert (DET : 0 < (x0 * m0) * (x1 * m1) * (x2 * x2) + (x0 * m0) * (x2 * m2) * (x1 * x1)
                    + (x1 * m1) * (x2 * m2) * (x0 * x0)).
  { repeat apply Rplus_lt_0_compat; repeat apply Rmult_lt_0_compat; assumption. }
  assert (SQ : forall u v w a b c : R, 0 < u -> 0 < v -> 0 < w -> a <> 0 -> 0 < a * a * u + (b * b * v + (c * c * w + 0))).
  { intros u v w a b c Hu Hv Hw Ha. assert (0 < a * a) by nra. assert (0 <= b * b) by nra. assert (0 <= c * c) by nra. nra. }
  destruct r as [|[|[|r]]]; [| | |lia]; unfold Lvf, dlt; ccompute; fold x2; split;
    try (apply SQ; try assumption; lra);
    match goal with |- 0 < ?e =>
      replace e with ((x0 * m0) * (x1 * m1) * (x2 * x2) + (x0 * m0) * (x2 * m2) * (x1 * x1)
                      + (x1 * m1) * (x2 * m2) * (x0 * x0)) by (unfold x2; ring)
    end; exact DET.
Qed.

(* product of two symmetric positive definite 2x2 matrices: two real positive eigenvalues
   (trace and determinant of [[a,b],[b,c]] * [[p,q],[q,r]]) *)
Lemma spd_product_eigen a b c p q r :
  0 < a -> 0 < a * c - b * b -> 0 < p -> 0 < p * r - q * q ->
  exists l1 l2, 0 < l1 /\ 0 < l2 /\
    l1 + l2 = a * p + 2 * (b * q) + c * r /\ l1 * l2 = (a * c - b * b) * (p * r - q * q).
Proof.
  intros Ha Hd Hp He.
  set (tr := a * p + 2 * (b * q) + c * r). set (det := (a * c - b * b) * (p * r - q * q)).
  assert (Hdet : 0 < det) by (apply Rmult_lt_0_compat; assumption).
  assert (Hc : 0 < c) by nra. assert (Hr : 0 < r) by nra.
  assert (Htr : 0 < tr).
  { unfold tr.
    assert (b * q * (b * q) < a * p * (c * r)).
    { assert (0 <= b * b) by nra. assert (0 <= q * q) by nra.
      assert (b * b * (q * q) < a * c * (p * r)).
      { apply Rle_lt_trans with (b * b * (p * r)); [apply Rmult_le_compat_l; lra|].
        apply Rmult_lt_compat_r; [nra | lra]. }
      nra. }
    assert (0 < a * p) by nra. assert (0 < c * r) by nra.
    destruct (Rle_dec 0 (b * q)); [nra|].
    set (t := (a * p + c * r) / 2). assert (Ht : 0 < t) by (unfold t; lra).
    assert (X1 : b * q * (b * q) < t * t).
    { assert (0 <= (a * p - c * r) * (a * p - c * r)) by (fold (Rsqr (a * p - c * r)); apply Rle_0_sqr).
      replace (t * t) with (a * p * (c * r) + (a * p - c * r) * (a * p - c * r) / 4) by (unfold t; field). lra. }
    assert (- (b * q) < t); [|unfold t in *; lra].
    destruct (Rlt_dec (- (b * q)) t) as [|Hn]; [assumption|]. exfalso.
    assert (t * t <= - (b * q) * - (b * q)) by (apply Rmult_le_compat; lra).
    replace (- (b * q) * - (b * q)) with (b * q * (b * q)) in * by ring. lra. }
  assert (Hdisc : 0 <= tr * tr - 4 * det).
  { assert (a * a * (tr * tr - 4 * det) =
            (a * a * p + 2 * (a * b * q) + b * b * r - (a * c - b * b) * r) *
            (a * a * p + 2 * (a * b * q) + b * b * r - (a * c - b * b) * r)
            + 4 * ((a * c - b * b) * ((a * q + b * r) * (a * q + b * r)))) as E by (unfold tr, det; ring).
    assert (0 <= a * a * (tr * tr - 4 * det)).
    { rewrite E. apply Rplus_le_le_0_compat.
      - match goal with |- 0 <= ?x * ?x => fold (Rsqr x); apply Rle_0_sqr end.
      - assert (0 <= (a * q + b * r) * (a * q + b * r)) by (fold (Rsqr (a * q + b * r)); apply Rle_0_sqr).
        apply Rmult_le_pos; [lra|]. apply Rmult_le_pos; lra. }
    assert (0 < a * a) by nra. nra. }
  set (s := sqrt (tr * tr - 4 * det)).
  assert (Hs : s * s = tr * tr - 4 * det) by (apply sqrt_sqrt; exact Hdisc).
  assert (Hs0 : 0 <= s) by apply sqrt_pos.
  assert (Hst : s < tr) by nra.
  exists ((tr - s) / 2), ((tr + s) / 2). unfold tr, det in *. repeat split; lra.
Qed.

(* the ternary interdiffusivity has two real positive eigenvalues wherever the curvature matrix is
   symmetric positive definite and the mobilities are positive *)
Lemma ternary_positive vp x0 x1 x2 m0 m1 m2 yva (P : mat) r :
  (r < 3)%nat -> x0 + x1 + x2 = 1 -> 0 < x0 -> 0 < x1 -> 0 < x2 -> 0 < m0 -> 0 < m1 -> 0 < m2 ->
  let X := [x0; x1; x2] in let M := [m0; m1; m2] in
  (forall B, (B < 3)%nat -> gd3 X P B = 0) ->
  Htot P r 0 1 = Htot P r 1 0 -> 0 < Htot P r 0 0 ->
  0 < Htot P r 0 0 * Htot P r 1 1 - Htot P r 0 1 * Htot P r 0 1 ->
  let D := interdiffusivity Rops vp r X [false; false; false] M yva P in
  exists l1 l2, 0 < l1 /\ 0 < l2 /\
    l1 + l2 = mg D 0 0 + mg D 1 1 /\ l1 * l2 = mg D 0 0 * mg D 1 1 - mg D 0 1 * mg D 1 0.
Proof.
  intros Hr HS H0 H1 H2 M0 M1 M2 X M GD Hsym Hp Hdet D. subst X M D.
  destruct (Lvf_spd x0 x1 x2 m0 m1 m2 r Hr HS H0 H1 H2 M0 M1 M2) as [La Ld].
  destruct (spd_product_eigen _ _ _ _ _ _ La Ld Hp Hdet) as (l1 & l2 & P1 & P2 & S & Pr).
  exists l1, l2. repeat split; try assumption.
  - rewrite S. rewrite !ternary_LH by (try assumption; lia).
    rewrite !Rsum_S, !Rsum_0. rw (Lvf_sym [x0; x1; x2] [m0; m1; m2] r 1 0). rewrite <- Hsym. lra.
  - rewrite Pr. rewrite !ternary_LH by (try assumption; lia).
    rewrite !Rsum_S, !Rsum_0. rw (Lvf_sym [x0; x1; x2] [m0; m1; m2] r 1 0). rewrite <- Hsym. ring.
Qed.

(* the same, end to end for the matrices the code builds from one composition set: Gibbs-Duhem and the
   symmetry of the curvature matrix are then consequences, only its definiteness is a premise *)
Lemma ternary_positive_cs inv d lam vp x0 x1 x2 m0 m1 m2 yva r s :
  nel d = 3%nat -> d2g_sym d -> stationary d lam -> inv_ok inv (hsize Rops d) (hessian Rops d) ->
  s <> 0 -> vg (moleA d) 0 = s * x0 -> vg (moleA d) 1 = s * x1 -> vg (moleA d) 2 = s * x2 ->
  (r < 3)%nat -> x0 + x1 + x2 = 1 -> 0 < x0 -> 0 < x1 -> 0 < x2 -> 0 < m0 -> 0 < m1 -> 0 < m2 ->
  let H := dMudX Rops inv d r in
  0 < mg H 0 0 -> 0 < mg H 0 0 * mg H 1 1 - mg H 0 1 * mg H 0 1 ->
  let D := interdiffusivity_cs Rops inv vp r [x0; x1; x2] [false; false; false] [m0; m1; m2] yva d in
  exists l1 l2, 0 < l1 /\ 0 < l2 /\
    l1 + l2 = mg D 0 0 + mg D 1 1 /\ l1 * l2 = mg D 0 0 * mg D 1 1 - mg D 0 1 * mg D 1 0.
Proof.
  intros Hn S St Hinv Hs E0 E1 E2 Hr HS H0 H1 H2 M0 M1 M2 H Hp Hdet D.
  set (P := partialdMudX Rops inv d).
  assert (HT : forall c e, (c < 2)%nat -> (e < 2)%nat -> Htot P r c e = mg H c e).
  { intros c e Hc He. unfold Htot, H, P. symmetry. apply dMudX_from_partial; try assumption; lia. }
  assert (GD : forall B, (B < 3)%nat -> gd3 [x0; x1; x2] P B = 0).
  { intros B HB. pose proof (gibbs_duhem_partial inv d lam B St Hinv) as G. rewrite Hn in G.
    specialize (G HB). fold P in G. unfold gd3.
    rewrite !Rsum_S, Rsum_0 in *. rewrite E0, E1, E2 in G.
    apply (Rmult_eq_reg_l s); [|exact Hs].
    change (vg [x0; x1; x2] 0) with x0. change (vg [x0; x1; x2] 1) with x1. change (vg [x0; x1; x2] 2) with x2. lra. }
  unfold D, interdiffusivity_cs. fold P.
  apply ternary_positive; try assumption.
  - rewrite !HT by lia. unfold H. apply dMudX_symmetric; try assumption; lia.
  - rewrite HT by lia. exact Hp.
  - rewrite !HT by lia. exact Hdet.
Qed.
