(* C10 - Diffusivities are physically valid and match the free-energy curvature.
   This file contains ONLY the property theorems; each is closed by [exact] of a lemma of Proofs.v and
   followed by Print Assumptions.  All statements are about the real-number instance [Rops] of the model
   in Model.v (kawin/thermo/Mobility.py, FreeEnergyHessian.py).  numpy's matrix inverse is the oracle
   [inv]; [inv_ok] says that whenever it returns a matrix, that matrix is a right inverse.
   What is NOT here (sampled by the harness only): that dMudX equals the numerical derivative of pycalphad's
   equilibrium chemical potentials and is positive definite on the shipped databases. *)
From Coq Require Import Reals List Arith.
Require Import Kawin.Common.Ops Kawin.Common.Vec Kawin.C10.Model Kawin.C10.Proofs Kawin.C10.Reorder.
Import ListNotations.
Open Scope R_scope.

(* ---- volume-fixed frame ------------------------------------------------------------------------- *)
(* every column of the mobility matrix sums to zero over the substitutional elements ... *)
Theorem C10_vff_zero_sum vp X inter M yva b :
  usum Rops X inter <> 0 -> (b < length X)%nat ->
  bigsum Rops (length X) (fun a => if isint inter a then 0
                                   else mget Rops (mobility_matrix Rops vp X inter M yva) a b) = 0.
Proof. exact (column_sum_zero vp X inter M yva b). Qed.
Print Assumptions C10_vff_zero_sum.

(* ... hence the substitutional fluxes J_a = - sum_b M_ab grad(mu_b) sum to zero for EVERY gradient *)
Theorem C10_vff_flux_zero_sum vp X inter M yva (g : nat -> R) :
  usum Rops X inter <> 0 ->
  bigsum Rops (length X) (fun a => if isint inter a then 0
     else - bigsum Rops (length X) (fun b => mget Rops (mobility_matrix Rops vp X inter M yva) a b * g b)) = 0.
Proof. exact (flux_sum_zero vp X inter M yva g). Qed.
Print Assumptions C10_vff_flux_zero_sum.

(* ... and so do the columns of the chemical diffusivity M * P, whatever the curvature matrix P is *)
Theorem C10_chemdiff_zero_sum vp X inter M yva P j :
  usum Rops X inter <> 0 -> (j < length X)%nat ->
  bigsum Rops (length X) (fun a => if isint inter a then 0
                                   else mget Rops (chemical_diffusivity Rops vp X inter M yva P) a j) = 0.
Proof. exact (chemdiff_column_sum_zero vp X inter M yva P j). Qed.
Print Assumptions C10_chemdiff_zero_sum.

(* interstitial elements: a diagonal entry only *)
Theorem C10_interstitial_rows_diagonal vp X inter M yva a b :
  (a < length X)%nat -> (b < length X)%nat -> isint inter a = true -> a <> b ->
  mget Rops (mobility_matrix Rops vp X inter M yva) a b = 0.
Proof. exact (inter_row vp X inter M yva a b). Qed.
Print Assumptions C10_interstitial_rows_diagonal.

(* ---- tracer diffusivity ---------------------------------------------------------------------------- *)
Theorem C10_tracer_is_RTM Tk corr raw a : (a < length corr)%nat -> (a < length raw)%nat ->
  vget Rops (tracer Rops Tk corr raw) a = 8314 / 1000 * Tk * (vget Rops corr a * vget Rops raw a).
Proof. exact (tracer_entry Tk corr raw a). Qed.
Print Assumptions C10_tracer_is_RTM.

Theorem C10_tracer_positive Tk corr raw a : (a < length corr)%nat -> (a < length raw)%nat ->
  0 < Tk -> 0 < vget Rops corr a * vget Rops raw a -> 0 < vget Rops (tracer Rops Tk corr raw) a.
Proof. exact (tracer_pos Tk corr raw a). Qed.
Print Assumptions C10_tracer_positive.

(* databases with diffusivity parameters: the interdiffusivity is the diagonal matrix of the solutes' tracer
   diffusivities (its eigenvalues are those entries), positive when they are *)
Theorem C10_diff_interdiffusivity_diagonal n r corr raw a b : (a < n - 1)%nat -> (b < n - 1)%nat ->
  mget Rops (interdiff_from_diff Rops n r corr raw) a b =
    if Nat.eqb a b then vget Rops (tracer_from_diff Rops corr raw) (skip r a) else 0.
Proof. exact (interdiff_from_diff_entry n r corr raw a b). Qed.
Print Assumptions C10_diff_interdiffusivity_diagonal.

Theorem C10_diff_interdiffusivity_positive n r corr raw a : (r < n)%nat -> (a < n - 1)%nat ->
  length corr = n -> length raw = n ->
  (forall e, (e < n)%nat -> 0 < vget Rops corr e * vget Rops raw e) ->
  0 < mget Rops (interdiff_from_diff Rops n r corr raw) a a.
Proof. exact (interdiff_from_diff_pos n r corr raw a). Qed.
Print Assumptions C10_diff_interdiffusivity_positive.

(* ---- the bordered matrix and the chemical-potential derivatives -------------------------------------- *)
(* symmetric by construction, given that the phase's own curvature block is *)
Theorem C10_hessian_symmetric d i j :
  d2g_sym d -> (i < hsize Rops d)%nat -> (j < hsize Rops d)%nat ->
  mget Rops (hessian Rops d) i j = mget Rops (hessian Rops d) j i.
Proof. exact (hessian_sym d i j). Qed.
Print Assumptions C10_hessian_symmetric.

Theorem C10_dMudX_symmetric inv d r c e :
  inv_ok inv (hsize Rops d) (hessian Rops d) -> d2g_sym d ->
  (r < nel d)%nat -> (c < nel d - 1)%nat -> (e < nel d - 1)%nat ->
  mget Rops (dMudX Rops inv d r) c e = mget Rops (dMudX Rops inv d r) e c.
Proof. exact (fun H => dMudX_symmetric inv d H r c e). Qed.
Print Assumptions C10_dMudX_symmetric.

Theorem C10_partialdMudX_symmetric inv d A B :
  inv_ok inv (hsize Rops d) (hessian Rops d) -> d2g_sym d -> (A < nel d)%nat -> (B < nel d)%nat ->
  mget Rops (partialdMudX Rops inv d) A B = mget Rops (partialdMudX Rops inv d) B A.
Proof. exact (fun H => partialdMudX_symmetric inv d H A B). Qed.
Print Assumptions C10_partialdMudX_symmetric.

(* dMudX is the partial derivative matrix taken along the exchange with the reference element *)
Theorem C10_dMudX_from_partial inv d r c e :
  (r < nel d)%nat -> (c < nel d - 1)%nat -> (e < nel d - 1)%nat ->
  mget Rops (dMudX Rops inv d r) c e =
    (mget Rops (partialdMudX Rops inv d) (skip r c) (skip r e) - mget Rops (partialdMudX Rops inv d) (skip r c) r)
  - (mget Rops (partialdMudX Rops inv d) r (skip r e) - mget Rops (partialdMudX Rops inv d) r r).
Proof. exact (dMudX_from_partial inv d r c e). Qed.
Print Assumptions C10_dMudX_from_partial.

(* Gibbs-Duhem holds for the matrix the code computes, at a stationary composition set *)
Theorem C10_gibbs_duhem inv d lam B :
  stationary d lam -> inv_ok inv (hsize Rops d) (hessian Rops d) -> (B < nel d)%nat ->
  bigsum Rops (nel d) (fun A => vget Rops (moleA d) A * mget Rops (partialdMudX Rops inv d) A B) = 0.
Proof. exact (gibbs_duhem_partial inv d lam B). Qed.
Print Assumptions C10_gibbs_duhem.

(* ---- binary: Darken ---------------------------------------------------------------------------------- *)
Theorem C10_binary_darken vp x0 x1 c0 c1 w0 w1 yva (P : list (list R)) r Tk :
  (r < 2)%nat -> x0 + x1 = 1 -> x0 <> 0 -> x1 <> 0 -> Tk <> 0 ->
  x0 * (mget Rops P 0 (1 - r) - mget Rops P 0 r) + x1 * (mget Rops P 1 (1 - r) - mget Rops P 1 r) = 0 ->
  mget Rops (interdiffusivity Rops vp r [x0; x1] [false; false] (computedMob Rops [c0; c1] [w0; w1]) yva P) 0 0 =
    (vget Rops [x0; x1] r * vget Rops (tracer Rops Tk [c0; c1] [w0; w1]) (1 - r)
     + vget Rops [x0; x1] (1 - r) * vget Rops (tracer Rops Tk [c0; c1] [w0; w1]) r)
    * (vget Rops [x0; x1] (1 - r) / (Rgas Rops * Tk) * (mget Rops P (1 - r) (1 - r) - mget Rops P (1 - r) r)).
Proof. exact (binary_darken vp x0 x1 c0 c1 w0 w1 yva P r Tk). Qed.
Print Assumptions C10_binary_darken.

(* the same for the matrix the code builds from the composition set: Gibbs-Duhem is then derived *)
Theorem C10_binary_darken_cs inv d lam vp x0 x1 c0 c1 w0 w1 yva r Tk s :
  nel d = 2%nat -> stationary d lam -> inv_ok inv (hsize Rops d) (hessian Rops d) ->
  s <> 0 -> vget Rops (moleA d) 0 = s * x0 -> vget Rops (moleA d) 1 = s * x1 ->
  (r < 2)%nat -> x0 + x1 = 1 -> x0 <> 0 -> x1 <> 0 -> Tk <> 0 ->
  let P := partialdMudX Rops inv d in
  mget Rops (interdiffusivity_cs Rops inv vp r [x0; x1] [false; false] (computedMob Rops [c0; c1] [w0; w1]) yva d) 0 0 =
    (vget Rops [x0; x1] r * vget Rops (tracer Rops Tk [c0; c1] [w0; w1]) (1 - r)
     + vget Rops [x0; x1] (1 - r) * vget Rops (tracer Rops Tk [c0; c1] [w0; w1]) r)
    * (vget Rops [x0; x1] (1 - r) / (Rgas Rops * Tk) * (mget Rops P (1 - r) (1 - r) - mget Rops P (1 - r) r)).
Proof. exact (binary_darken_cs inv d lam vp x0 x1 c0 c1 w0 w1 yva r Tk s). Qed.
Print Assumptions C10_binary_darken_cs.

Theorem C10_binary_positive vp x0 x1 c0 c1 w0 w1 yva (P : list (list R)) r Tk :
  (r < 2)%nat -> x0 + x1 = 1 -> 0 < x0 -> 0 < x1 -> 0 < Tk -> 0 < c0 * w0 -> 0 < c1 * w1 ->
  x0 * (mget Rops P 0 (1 - r) - mget Rops P 0 r) + x1 * (mget Rops P 1 (1 - r) - mget Rops P 1 r) = 0 ->
  0 < mget Rops P (1 - r) (1 - r) - mget Rops P (1 - r) r ->
  0 < mget Rops (interdiffusivity Rops vp r [x0; x1] [false; false] (computedMob Rops [c0; c1] [w0; w1]) yva P) 0 0.
Proof. exact (binary_positive vp x0 x1 c0 c1 w0 w1 yva P r Tk). Qed.
Print Assumptions C10_binary_positive.

(* ---- ternary ------------------------------------------------------------------------------------------- *)
(* interdiffusivity = (volume-fixed Onsager matrix) * (curvature matrix) *)
Theorem C10_ternary_LH vp x0 x1 x2 m0 m1 m2 yva (P : list (list R)) r c e :
  (r < 3)%nat -> (c < 2)%nat -> (e < 2)%nat -> x0 + x1 + x2 = 1 ->
  let X := [x0; x1; x2] in let M := [m0; m1; m2] in
  (forall B, (B < 3)%nat -> gd3 X P B = 0) ->
  mget Rops (interdiffusivity Rops vp r X [false; false; false] M yva P) c e =
    bigsum Rops 2 (fun k => Lvf X M r c k * Htot P r k e).
Proof. exact (ternary_LH vp x0 x1 x2 m0 m1 m2 yva P r c e). Qed.
Print Assumptions C10_ternary_LH.

(* the Onsager matrix is symmetric positive definite for positive fractions and mobilities *)
Theorem C10_onsager_spd x0 x1 x2 m0 m1 m2 r :
  (r < 3)%nat -> x0 + x1 + x2 = 1 -> 0 < x0 -> 0 < x1 -> 0 < x2 -> 0 < m0 -> 0 < m1 -> 0 < m2 ->
  let L := Lvf [x0; x1; x2] [m0; m1; m2] r in
  0 < L 0%nat 0%nat /\ 0 < L 0%nat 0%nat * L 1%nat 1%nat - L 0%nat 1%nat * L 0%nat 1%nat.
Proof. exact (Lvf_spd x0 x1 x2 m0 m1 m2 r). Qed.
Print Assumptions C10_onsager_spd.

(* real positive eigenvalues: l1, l2 are the roots of the characteristic polynomial of the 2x2
   interdiffusivity (their sum is its trace, their product its determinant) *)
Theorem C10_ternary_positive vp x0 x1 x2 m0 m1 m2 yva (P : list (list R)) r :
  (r < 3)%nat -> x0 + x1 + x2 = 1 -> 0 < x0 -> 0 < x1 -> 0 < x2 -> 0 < m0 -> 0 < m1 -> 0 < m2 ->
  let X := [x0; x1; x2] in let M := [m0; m1; m2] in
  (forall B, (B < 3)%nat -> gd3 X P B = 0) ->
  Htot P r 0 1 = Htot P r 1 0 -> 0 < Htot P r 0 0 ->
  0 < Htot P r 0 0 * Htot P r 1 1 - Htot P r 0 1 * Htot P r 0 1 ->
  let D := interdiffusivity Rops vp r X [false; false; false] M yva P in
  exists l1 l2, 0 < l1 /\ 0 < l2 /\
    l1 + l2 = mget Rops D 0 0 + mget Rops D 1 1 /\
    l1 * l2 = mget Rops D 0 0 * mget Rops D 1 1 - mget Rops D 0 1 * mget Rops D 1 0.
Proof. exact (ternary_positive vp x0 x1 x2 m0 m1 m2 yva P r). Qed.
Print Assumptions C10_ternary_positive.

(* end to end for one composition set: only the definiteness of dMudX remains a premise *)
Theorem C10_ternary_positive_cs inv d lam vp x0 x1 x2 m0 m1 m2 yva r s :
  nel d = 3%nat -> d2g_sym d -> stationary d lam -> inv_ok inv (hsize Rops d) (hessian Rops d) ->
  s <> 0 -> vget Rops (moleA d) 0 = s * x0 -> vget Rops (moleA d) 1 = s * x1 -> vget Rops (moleA d) 2 = s * x2 ->
  (r < 3)%nat -> x0 + x1 + x2 = 1 -> 0 < x0 -> 0 < x1 -> 0 < x2 -> 0 < m0 -> 0 < m1 -> 0 < m2 ->
  let H := dMudX Rops inv d r in
  0 < mget Rops H 0 0 -> 0 < mget Rops H 0 0 * mget Rops H 1 1 - mget Rops H 0 1 * mget Rops H 0 1 ->
  let D := interdiffusivity_cs Rops inv vp r [x0; x1; x2] [false; false; false] [m0; m1; m2] yva d in
  exists l1 l2, 0 < l1 /\ 0 < l2 /\
    l1 + l2 = mget Rops D 0 0 + mget Rops D 1 1 /\
    l1 * l2 = mget Rops D 0 0 * mget Rops D 1 1 - mget Rops D 0 1 * mget Rops D 1 0.
Proof. exact (ternary_positive_cs inv d lam vp x0 x1 x2 m0 m1 m2 yva r s). Qed.
Print Assumptions C10_ternary_positive_cs.

(* ---- element re-ordering of Thermodynamics.getInterdiffusivity / getTracerDiffusivity ------------------- *)
(* keys = the user's element names (order-preserving codes), pairwise different; rank keys i = number of
   names smaller than the i-th = its position in the alphabetical order the backend uses *)
Theorem C10_rank_is_alphabetical_position keys i : NoDup keys -> (i < length keys)%nat ->
  nth (rank keys i) (map (fun j => nth j keys 0%nat) (argsort keys)) 0%nat = nth i keys 0%nat.
Proof. exact (rank_spec keys i). Qed.
Print Assumptions C10_rank_is_alphabetical_position.

(* position i of the returned tracer diffusivities carries the alphabetical entry of the user's i-th element *)
Theorem C10_reorder_tracer keys (v : list R) i : NoDup keys -> (i < length keys)%nat ->
  nth i (reorder_vec Rops keys v) 0 = vget Rops v (rank keys i).
Proof. exact (reorder_vec_entry Rops keys v i). Qed.
Print Assumptions C10_reorder_tracer.

(* entry (i,j) of the returned interdiffusivity is the alphabetical entry of the user's elements i and j *)
Theorem C10_reorder_interdiffusivity keys (D : list (list R)) i j :
  NoDup keys -> (i < length keys)%nat -> (j < length keys)%nat ->
  mget Rops (reorder_mat Rops keys D) i j = mget Rops D (rank keys i) (rank keys j).
Proof. exact (reorder_mat_entry Rops keys D i j). Qed.
Print Assumptions C10_reorder_interdiffusivity.

(* ---- array form of getInterdiffusivity / getTracerDiffusivity -------------------------------------------- *)
(* [single] = the single-point routine, whatever it computes (local equilibrium is an oracle).  The value
   returned for point i of an array call is the single-point value AT THAT POINT - for paired arrays, for one
   composition with many temperatures and for many compositions with one temperature *)
Theorem C10_array_pointwise {A B C : Type} (single : A -> B -> C) xs Ts i x t :
  length xs = length Ts -> nth_error xs i = Some x -> nth_error Ts i = Some t ->
  exists l, array_query single xs Ts = Some l /\ length l = length xs /\ nth_error l i = Some (single x t).
Proof. exact (array_query_paired single xs Ts i x t). Qed.
Print Assumptions C10_array_pointwise.

Theorem C10_array_one_composition {A B C : Type} (single : A -> B -> C) x Ts i t :
  length Ts <> 1%nat -> nth_error Ts i = Some t ->
  exists l, array_query single [x] Ts = Some l /\ length l = length Ts /\ nth_error l i = Some (single x t).
Proof. exact (array_query_one_x single x Ts i t). Qed.
Print Assumptions C10_array_one_composition.

Theorem C10_array_one_temperature {A B C : Type} (single : A -> B -> C) xs t i x :
  length xs <> 1%nat -> nth_error xs i = Some x ->
  exists l, array_query single xs [t] = Some l /\ length l = length xs /\ nth_error l i = Some (single x t).
Proof. exact (array_query_one_T single xs t i x). Qed.
Print Assumptions C10_array_one_temperature.

(* an entry never depends on the neighbouring points of the array it was asked in *)
Theorem C10_array_entry_local {A B C : Type} (single : A -> B -> C) xs Ts xs' Ts' i j x t l l' :
  length xs = length Ts -> length xs' = length Ts' ->
  nth_error xs i = Some x -> nth_error Ts i = Some t -> nth_error xs' j = Some x -> nth_error Ts' j = Some t ->
  array_query single xs Ts = Some l -> array_query single xs' Ts' = Some l' ->
  nth_error l i = nth_error l' j.
Proof. exact (array_query_local single xs Ts xs' Ts' i j x t l l'). Qed.
Print Assumptions C10_array_entry_local.
