(* placeholder, replaced below *)
From Coq Require Import Reals.
