(* C10 - correspondence driver (harness side; no theorem depends on this file).
   The model of Model.v is evaluated on exact rationals and compared, inside Coq, with what
   kawin/thermo/Mobility.py and FreeEnergyHessian.py returned for the same (duck-typed) composition set.
   numpy's matrix inverse is an oracle of the model; here it is instantiated with an exact Gauss-Jordan
   elimination on Q whose result is CHECKED to be a right inverse in every case (the hypothesis of the
   theorems), so nothing is assumed about the elimination itself. *)
From Coq Require Import QArith List ZArith Bool Floats Arith.
From Bignums Require Import BigQ.
Require Import Kawin.Common.Ops Kawin.Common.Vec Kawin.Common.Out Kawin.C10.Model.
Import ListNotations.
Open Scope Q_scope.

Notation qvec := (list Q).
Notation qmat := (list (list Q)).

(* exact transport of binary64 values (hexadecimal float literal -> rational), as in C04/Corr.v *)
Definition f2q (f : float) : Q :=
  match Prim2SF f with
  | S754_finite s m e =>
      let z := if s then Zneg m else Zpos m in
      if (0 <=? e)%Z then inject_Z (z * 2 ^ e) else Qred (z # (2 ^ Z.to_pos (- e)))
  | _ => 0
  end.
Definition fv (l : list float) : qvec := map f2q l.
Definition fm (l : list (list float)) : qmat := map (map f2q) l.

(* ---- exact Gauss-Jordan inverse ------------------------------------------------------------------ *)
(* carried out on Bignums' bigQ (machine-word arithmetic; stdlib Q with binary positives is ~20x slower on the
   several-thousand-bit numbers an exact inverse of binary64 data produces) *)
Definition qadd (a b : Q) : Q := Qred (a + b).
Definition qsub (a b : Q) : Q := Qred (a - b).
Definition qmul (a b : Q) : Q := Qred (a * b).
Definition qdiv (a b : Q) : Q := Qred (a / b).

Definition bqltb (a b : bigQ) : bool := match BigQ.compare a b with Lt => true | _ => false end.
Definition bqleb (a b : bigQ) : bool := match BigQ.compare a b with Gt => false | _ => true end.
(* the scalar record on bigQ (same instance as coq/C17/Corr.v, where each operation is proved to be the Qops
   operation up to Qeq) *)
Definition BQops : Ops :=
  mkOps bigQ BigQ.zero BigQ.one BigQ.add_norm BigQ.sub_norm BigQ.mul_norm BigQ.div_norm
        bqltb bqleb BigQ.eq_bool (fun z => BigQ.Qz (BigZ.of_Z z)).
Definition bq (q : Q) : bigQ := BigQ.of_Q q.
Definition unbq (x : bigQ) : Q := Qred (BigQ.to_Q x).
Definition bvec := list bigQ.

(* Fraction-free (Bareiss) Gauss-Jordan on integers.  The entries of K are rationals with few distinct denominators
   (powers of two and the sum of the formula moles): multiplied by their common denominator L they are integers, and  K^-1 = L * adj(L K) / det(L K).  Every intermediate
   entry is a minor of L K (no gcd computations; a 16 x 16 case takes 0.2 s instead of 20 s with normalised
   rationals).  Nothing is assumed about this elimination: its result is checked below, exactly, to be a
   right inverse. *)
Definition zvec := list bigZ.
Definition znz (a : bigZ) : bool := negb (BigZ.eqb a BigZ.zero).
Fixpoint take_pivot (k : nat) (todo acc : list zvec) : option (zvec * list zvec) :=
  match todo with
  | [] => None
  | r :: rest => if znz (nth k r BigZ.zero) then Some (r, rev acc ++ rest) else take_pivot k rest (r :: acc)
  end.
(* (r * pk - r[k] * pr) / prev *)
Definition row_elim (k : nat) (pk prev : bigZ) (pr r : zvec) : zvec :=
  let c := nth k r BigZ.zero in
  zipWith (fun x y => BigZ.div (BigZ.sub (BigZ.mul x pk) (BigZ.mul c y)) prev) r pr.
Fixpoint gj (steps k : nat) (prev : bigZ) (done todo : list zvec) : option (list zvec * bigZ) :=
  match steps with
  | O => Some (done, prev)
  | S st =>
      match take_pivot k todo [] with
      | None => None
      | Some (pr, rest) =>
          let pk := nth k pr BigZ.zero in
          gj st (S k) pk (map (row_elim k pk prev pr) done ++ [pr]) (map (row_elim k pk prev pr) rest)
      end
  end.
Definition idrow (n i : nat) : zvec := map (fun j => if Nat.eqb i j then BigZ.one else BigZ.zero) (seq 0 n).
Definition common_den (A : qmat) : positive :=
  fold_right (fun r acc => fold_right (fun x a => Z.to_pos (Z.lcm (Zpos (Qden x)) (Zpos a))) acc r) 1%positive A.
(* integer image of A (A = AZ / L), the eliminated right half R and the last pivot det: A^-1 = L * R / det *)
Definition binv_parts (A : qmat) : option (list zvec * list zvec * bigZ * positive) :=
  let n := length A in
  let L := common_den A in
  let AZ := map (map (fun x => BigZ.of_Z (Qnum x * (Zpos L / Zpos (Qden x))))) A in
  match gj n 0 BigZ.one [] (map (fun ir => snd ir ++ idrow n (fst ir)) (combine (seq 0 n) AZ)) with
  | Some (rows, det) => Some (AZ, map (skipn n) rows, det, L)
  | None => None
  end.

(* K * Ki = I, exactly, checked on the integers:  K = AZ / L  (every denominator divides L),  AZ * R = det * I,
   det <> 0,  and Ki is built as  L * R / det  with Bignums' normalising division (specified by BigQ.spec_div_norm).
   (Checking the product on normalised rationals instead costs 7 s for a 16 x 16 matrix; this takes 0.2 s.) *)
Definition zdot (a b : zvec) : bigZ := fold_right BigZ.add BigZ.zero (zipWith BigZ.mul a b).
Definition ztranspose (n : nat) (A : list zvec) : list zvec :=
  map (fun j => map (fun r => nth j r BigZ.zero) A) (seq 0 n).
Definition is_right_inv_z (A : qmat) (AZ R : list zvec) (det : bigZ) (L : positive) : bool :=
  let RT := ztranspose (length R) R in
  (znz det
   && forallb (fun r => forallb (fun x => Z.eqb (Zpos L / Zpos (Qden x) * Zpos (Qden x)) (Zpos L)) r) A
   && forallb (fun ir => forallb (fun jc =>
        BigZ.eqb (zdot (snd ir) (snd jc)) (if Nat.eqb (fst ir) (fst jc) then det else BigZ.zero))
        (combine (seq 0 (length RT)) RT)) (combine (seq 0 (length AZ)) AZ))%bool.

(* the oracle handed to the model: exact inverse (None when singular) and whether K * Ki = I was verified *)
Definition binv_checked (A : qmat) : option (list bvec) * bool :=
  match binv_parts A with
  | Some (AZ, R, det, L) =>
      let LB := BigZ.of_Z (Zpos L) in
      (Some (map (map (fun x => BigQ.div_norm (BigQ.Qz (BigZ.mul LB x)) (BigQ.Qz det))) R),
       is_right_inv_z A AZ R det L)
  | None => (None, true)
  end.
Definition pd_b (d : phase_data Qops) : phase_data BQops :=
  @mkPD BQops (nsv d) (pdof d) (ncons d) (nel d) (map (map bq) (d2g d)) (map bq (dg d)) (map (map bq) (dxdy d))
        (map bq (moleA d)) (map (map bq) (cons d)) (map bq (mu d)).
Definition unbm (A : list bvec) : qmat := map (map unbq) A.

(* ---- matrix comparison ------------------------------------------------------------------------------ *)
Definition mverdict := option (nat * (nat * (Z * Z * bool))).
Fixpoint cmpm_go (rt : Q) (e : nat) (impl model scale : qmat) : mverdict :=
  match impl, model, scale with
  | a :: i', b :: m', s :: s' =>
      match cmpl rt a b s with
      | None => cmpm_go rt (S e) i' m' s'
      | Some v => Some (e, v)
      end
  | [], [], _ => None
  | _, _, _ => Some (e, (0%nat, (0, 0, false)%Z))
  end.
Definition cmpm (rt : Q) (impl model scale : qmat) : mverdict := cmpm_go rt 0 impl model scale.
Definition mabs (A : qmat) : qmat := map (map qabs) A.
Definition maxabs (A : qmat) : Q := fold_right (fun r acc => fold_right (fun x a => qmax (qabs x) a) acc r) 0 A.
Definition constm (n m : nat) (c : Q) : qmat := mkmat Qops n m (fun _ _ => c).

(* ---- Mobility.py ------------------------------------------------------------------------------------ *)
(* result: (mobility_matrix verdict, tracer verdict, zero-sum check of the MODEL's substitutional columns,
            the vacancy factors the model looked up) *)
Definition check_mob (rt : Q) (vp : bool) (X : qvec) (inter : list bool) (corr raw : qvec)
           (vars : list (option nat * nat)) (svs : list nat) (dof : qvec)
           (impl_mm : qmat) (impl_tr : qvec) :=
  let n := length X in
  let y := skipn (length svs) dof in
  let M := computedMob Qops corr raw in
  let mm := mobility_matrix_cs Qops vp X inter M vars y in
  let us := usum Qops X inter in
  (* magnitudes that were combined: (1 + |U_a|) * |U_b M_b| * |Usum| *)
  let sc := mkmat Qops n n (fun a b =>
              qmul (qmul (qadd 1 (qabs (ufrac Qops X inter a))) (qabs (mobU Qops X inter M b))) (qabs us)) in
  let sc := zipWith (zipWith qmax) sc (mabs mm) in
  (cmpm rt impl_mm mm sc,
   cmpl_rel rt impl_tr (tracer_cs Qops svs 3 dof corr raw),
   forallb (fun b => isint inter b ||
                     Qeq_bool (bigsum Qops n (fun a => if isint inter a then 0 else mget Qops mm a b)) 0) (seq 0 n)).

(* ---- FreeEnergyHessian.py + interdiffusivity -------------------------------------------------------- *)
Record impl_fh := { i_K : qmat; i_H : qmat; i_P : qmat; i_D : qmat; i_Dk : qmat }.

Definition hess_scale (d : phase_data Qops) : qmat :=
  mkmat Qops (hsize Qops d) (hsize Qops d) (fun i j =>
    let p := pdof d in
    let hs k := qadd (qabs (vget Qops (dg d) (nsv d + k)))
                     (bigsum Qops (nel d) (fun A => qabs (qmul (vget Qops (mu d) A) (mget Qops (dxdy d) A (nsv d + k))))) in
    if (Nat.ltb i p && Nat.eqb j p)%bool then hs i
    else if (Nat.eqb i p && Nat.ltb j p)%bool then hs j
    else qabs (hess_entry Qops d i j)).

(* result: (hessian verdict, inverse status: None singular / Some right-inverse-checked,
            dMudX verdict, partialdMudX verdict, chemical diffusivity verdict, interdiffusivity verdict,
            model dMudX symmetric?, model partialdMudX symmetric?) *)
Definition check_fh (rt rt2 : Q) (vp : bool) (r : nat) (X : qvec) (inter : list bool) (corr raw : qvec)
           (vars : list (option nat * nat)) (d : phase_data Qops) (y : qvec) (im : impl_fh) :=
  let n := nel d in
  let N := hsize Qops d in
  let K := hessian Qops d in
  let dB := pd_b d in
  let KiC := binv_checked K in
  let Ki := fst KiC in
  let invo := fun _ : list bvec => Ki in
  let XB := map bq X in
  let MB := computedMob BQops (map bq corr) (map bq raw) in
  let yvaB := mkvec BQops n (yva_of BQops vars (map bq y)) in
  let PB := partialdMudX BQops invo dB in
  let H := unbm (dMudX BQops invo dB r) in
  let P := unbm PB in
  let DkB := chemical_diffusivity BQops vp XB inter MB yvaB PB in
  let Dk := unbm DkB in
  let D := unbm (interdiff_of BQops n r inter DkB) in
  let mm := mobility_matrix Qops vp X inter (computedMob Qops corr raw) (mkvec Qops n (yva_of Qops vars y)) in
  let kmax := match Ki with
              | Some A => unbq (fold_right (fun row acc => fold_right (fun x a => let ax := (if bqltb x BigQ.zero then BigQ.opp x else x) in if bqltb a ax then ax else a) acc row) BigQ.zero A)
              | None => 0 end in
  let rowmag a := bigsum Qops n (fun i => qabs (mget Qops mm a i)) in
  let scDk := mkmat Qops n n (fun a _ => qmul (rowmag a) kmax) in
  let scD := mkmat Qops (n - 1) (n - 1) (fun c _ => qmul 2 (qmul (rowmag (skip r c)) kmax)) in
  let symb (m : nat) (A : qmat) := forallb (fun i => forallb (fun j => Qeq_bool (mget Qops A i j) (mget Qops A j i)) (seq 0 m)) (seq 0 m) in
  (cmpm rt (i_K im) K (hess_scale d),
   match Ki with Some _ => Some (snd KiC) | None => None end,
   cmpm rt2 (i_H im) H (constm (n - 1) (n - 1) (qmul 4 kmax)),
   cmpm rt2 (i_P im) P (constm n n kmax),
   cmpm rt2 (i_Dk im) Dk scDk,
   cmpm rt2 (i_D im) D scD,
   symb (n - 1)%nat H, symb n P).

(* ---- Thermodynamics.py re-ordering: pure data movement, compared exactly --------------------------- *)
Definition eqm (A B : qmat) : bool :=
  (Nat.eqb (length A) (length B) &&
   forallb (fun ab => Nat.eqb (length (fst ab)) (length (snd ab)) &&
                      forallb (fun xy => Qeq_bool (fst xy) (snd xy)) (combine (fst ab) (snd ab))) (combine A B))%bool.
Definition check_reorder (keys_sol keys_all : list nat) (D : qmat) (tr : qvec) (impl_D : qmat) (impl_tr : qvec) :=
  (eqm impl_D (reorder_mat Qops keys_sol D), eqm [impl_tr] [reorder_vec Qops keys_all tr],
   unsort keys_sol, unsort keys_all).

(* ---- diffusivity-parameter databases ------------------------------------------------------------------ *)
Definition check_diff (rt : Q) (r : nat) (corr raw : qvec) (impl_D : qmat) (impl_tr : qvec) :=
  let n := length raw in
  (cmpm rt impl_D (interdiff_from_diff Qops n r corr raw) (mabs (interdiff_from_diff Qops n r corr raw)),
   cmpl_rel rt impl_tr (tracer_from_diff Qops corr raw)).

(* ---- array form of the getters: number of evaluated points (None = ValueError) ------------------------------ *)
Definition array_shape (lx lT : nat) : option nat :=
  option_map (@length unit) (array_query (fun _ _ => tt) (repeat tt lx) (repeat tt lT)).
(* positions of the points each entry is computed from: (index into x, index into T) *)
Definition array_points (lx lT : nat) : option (list (nat * nat)) :=
  array_query (fun i j => (i, j)) (seq 0 lx) (seq 0 lT).
