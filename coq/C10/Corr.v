(* C10 - correspondence driver (harness side; no theorem depends on this file).
   The model of Model.v is evaluated on exact rationals and compared, inside Coq, with what
   kawin/thermo/Mobility.py and FreeEnergyHessian.py returned for the same (duck-typed) composition set.
   numpy's matrix inverse is an oracle of the model; here it is instantiated with an exact Gauss-Jordan
   elimination on Q whose result is CHECKED to be a right inverse in every case (the hypothesis of the
   theorems), so nothing is assumed about the elimination itself. *)
From Coq Require Import QArith List ZArith Bool Floats Arith.
Require Import Kawin.Common.Ops Kawin.Common.Vec Kawin.Common.Out Kawin.C10.Model.
Import ListNotations.
Open Scope Q_scope.

Notation qvec := (list Q).
Notation qmat := (list (list Q)).

(* exact transport of binary64 values (hexadecimal float literal -> rational), as in C04/Corr.v *)
Definition f2q (f : float) : Q :=
  match Prim2SF f with
  | S754_finite s m e =>
      let z := if s then Zneg m else Zpos m in
      if (0 <=? e)%Z then inject_Z (z * 2 ^ e) else Qred (z # (2 ^ Z.to_pos (- e)))
  | _ => 0
  end.
Definition fv (l : list float) : qvec := map f2q l.
Definition fm (l : list (list float)) : qmat := map (map f2q) l.

(* ---- exact Gauss-Jordan inverse ------------------------------------------------------------------ *)
Definition qadd (a b : Q) : Q := Qred (a + b).
Definition qsub (a b : Q) : Q := Qred (a - b).
Definition qmul (a b : Q) : Q := Qred (a * b).
Definition qdiv (a b : Q) : Q := Qred (a / b).
Definition qnz (a : Q) : bool := negb (Qeq_bool a 0).

Definition row_scale (c : Q) (r : qvec) : qvec := map (qmul c) r.
(* r - c * pr *)
Definition row_elim (k : nat) (pr r : qvec) : qvec :=
  let c := nth k r 0 in if qnz c then zipWith (fun x y => qsub x (qmul c y)) r pr else r.

(* split [todo] at the first row whose k-th entry is non-zero *)
Fixpoint take_pivot (k : nat) (todo acc : list qvec) : option (qvec * list qvec) :=
  match todo with
  | [] => None
  | r :: rest => if qnz (nth k r 0) then Some (r, rev acc ++ rest) else take_pivot k rest (r :: acc)
  end.

Fixpoint gj (steps k : nat) (done todo : list qvec) : option (list qvec) :=
  match steps with
  | O => Some done
  | S st =>
      match take_pivot k todo [] with
      | None => None
      | Some (r, rest) =>
          let pr := row_scale (qdiv 1 (nth k r 0)) r in
          gj st (S k) (map (row_elim k pr) done ++ [pr]) (map (row_elim k pr) rest)
      end
  end.

Definition idrow (n i : nat) : qvec := map (fun j => if Nat.eqb i j then 1 else 0) (seq 0 n).
Definition qinv (A : qmat) : option qmat :=
  let n := length A in
  match gj n 0 [] (map (fun ir => snd ir ++ idrow n (fst ir)) (combine (seq 0 n) A)) with
  | Some rows => Some (map (skipn n) rows)
  | None => None
  end.

(* K * Ki = I, exactly *)
Definition is_right_inv (n : nat) (K Ki : qmat) : bool :=
  forallb (fun i => forallb (fun j =>
     Qeq_bool (bigsum Qops n (fun l => qmul (mget Qops K i l) (mget Qops Ki l j)))
              (if Nat.eqb i j then 1 else 0)) (seq 0 n)) (seq 0 n).

(* ---- matrix comparison ------------------------------------------------------------------------------ *)
Definition mverdict := option (nat * (nat * (Z * Z * bool))).
Fixpoint cmpm_go (rt : Q) (e : nat) (impl model scale : qmat) : mverdict :=
  match impl, model, scale with
  | a :: i', b :: m', s :: s' =>
      match cmpl rt a b s with
      | None => cmpm_go rt (S e) i' m' s'
      | Some v => Some (e, v)
      end
  | [], [], _ => None
  | _, _, _ => Some (e, (0%nat, (0, 0, false)%Z))
  end.
Definition cmpm (rt : Q) (impl model scale : qmat) : mverdict := cmpm_go rt 0 impl model scale.
Definition mabs (A : qmat) : qmat := map (map qabs) A.
Definition maxabs (A : qmat) : Q := fold_right (fun r acc => fold_right (fun x a => qmax (qabs x) a) acc r) 0 A.
Definition constm (n m : nat) (c : Q) : qmat := mkmat Qops n m (fun _ _ => c).

(* ---- Mobility.py ------------------------------------------------------------------------------------ *)
(* result: (mobility_matrix verdict, tracer verdict, zero-sum check of the MODEL's substitutional columns,
            the vacancy factors the model looked up) *)
Definition check_mob (rt : Q) (vp : bool) (X : qvec) (inter : list bool) (corr raw : qvec)
           (vars : list (option nat * nat)) (svs : list nat) (dof : qvec)
           (impl_mm : qmat) (impl_tr : qvec) :=
  let n := length X in
  let y := skipn (length svs) dof in
  let M := computedMob Qops corr raw in
  let mm := mobility_matrix_cs Qops vp X inter M vars y in
  let us := usum Qops X inter in
  (* magnitudes that were combined: (1 + |U_a|) * |U_b M_b| * |Usum| *)
  let sc := mkmat Qops n n (fun a b =>
              qmul (qmul (qadd 1 (qabs (ufrac Qops X inter a))) (qabs (mobU Qops X inter M b))) (qabs us)) in
  let sc := zipWith (zipWith qmax) sc (mabs mm) in
  (cmpm rt impl_mm mm sc,
   cmpl_rel rt impl_tr (tracer_cs Qops svs 3 dof corr raw),
   forallb (fun b => isint inter b ||
                     Qeq_bool (bigsum Qops n (fun a => if isint inter a then 0 else mget Qops mm a b)) 0) (seq 0 n)).

(* ---- FreeEnergyHessian.py + interdiffusivity -------------------------------------------------------- *)
Record impl_fh := { i_K : qmat; i_H : qmat; i_P : qmat; i_D : qmat; i_Dk : qmat }.

Definition hess_scale (d : phase_data Qops) : qmat :=
  mkmat Qops (hsize Qops d) (hsize Qops d) (fun i j =>
    let p := pdof d in
    let hs k := qadd (qabs (vget Qops (dg d) (nsv d + k)))
                     (bigsum Qops (nel d) (fun A => qabs (qmul (vget Qops (mu d) A) (mget Qops (dxdy d) A (nsv d + k))))) in
    if (Nat.ltb i p && Nat.eqb j p)%bool then hs i
    else if (Nat.eqb i p && Nat.ltb j p)%bool then hs j
    else qabs (hess_entry Qops d i j)).

(* result: (hessian verdict, inverse status: None singular / Some right-inverse-checked,
            dMudX verdict, partialdMudX verdict, chemical diffusivity verdict, interdiffusivity verdict,
            model dMudX symmetric?, model partialdMudX symmetric?) *)
Definition check_fh (rt rt2 : Q) (vp : bool) (r : nat) (X : qvec) (inter : list bool) (corr raw : qvec)
           (vars : list (option nat * nat)) (d : phase_data Qops) (y : qvec) (im : impl_fh) :=
  let n := nel d in
  let N := hsize Qops d in
  let K := hessian Qops d in
  let Ki := qinv K in
  let invo := fun _ : qmat => Ki in
  let H := dMudX Qops invo d r in
  let P := partialdMudX Qops invo d in
  let M := computedMob Qops corr raw in
  let yva := mkvec Qops n (yva_of Qops vars y) in
  let mm := mobility_matrix Qops vp X inter M yva in
  let Dk := chemical_diffusivity Qops vp X inter M yva P in
  let D := interdiff_of Qops n r inter Dk in
  let kmax := match Ki with Some A => maxabs A | None => 0 end in
  let rowmag a := bigsum Qops n (fun i => qabs (mget Qops mm a i)) in
  let scDk := mkmat Qops n n (fun a _ => qmul (rowmag a) kmax) in
  let scD := mkmat Qops (n - 1) (n - 1) (fun c _ => qmul 2 (qmul (rowmag (skip r c)) kmax)) in
  let symb (m : nat) (A : qmat) := forallb (fun i => forallb (fun j => Qeq_bool (mget Qops A i j) (mget Qops A j i)) (seq 0 m)) (seq 0 m) in
  (cmpm rt (i_K im) K (hess_scale d),
   match Ki with Some A => Some (is_right_inv N K A) | None => None end,
   cmpm rt2 (i_H im) H (constm (n - 1) (n - 1) (qmul 4 kmax)),
   cmpm rt2 (i_P im) P (constm n n kmax),
   cmpm rt2 (i_Dk im) Dk scDk,
   cmpm rt2 (i_D im) D scD,
   symb (n - 1)%nat H, symb n P).

(* ---- Thermodynamics.py re-ordering: pure data movement, compared exactly --------------------------- *)
Definition eqm (A B : qmat) : bool :=
  (Nat.eqb (length A) (length B) &&
   forallb (fun ab => Nat.eqb (length (fst ab)) (length (snd ab)) &&
                      forallb (fun xy => Qeq_bool (fst xy) (snd xy)) (combine (fst ab) (snd ab))) (combine A B))%bool.
Definition check_reorder (keys_sol keys_all : list nat) (D : qmat) (tr : qvec) (impl_D : qmat) (impl_tr : qvec) :=
  (eqm impl_D (reorder_mat Qops keys_sol D), eqm [impl_tr] [reorder_vec Qops keys_all tr],
   unsort keys_sol, unsort keys_all).
