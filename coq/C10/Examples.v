(* C10 - non-vacuity examples: the hypotheses of the theorems are met by concrete, non-trivial states, and
   the executable (exact rational) instance of the model produces the values kawin produces for them. *)
From Coq Require Import Reals QArith List ZArith Lra Lia.
Require Import Kawin.Common.Ops Kawin.Common.Vec Kawin.C10.Model Kawin.C10.Proofs.
Import ListNotations.

(* ---- an ideal binary solution (AL, NI)_1 at y = (1/2, 1/2), R T = 2 ------------------------------------- *)
(*   d2G/dy2 = diag(RT/y) = diag(4, 4), dG/dy = 0 (reference energies 0, ln terms cancel in mu), mu = 0,
     dM_A/dy = identity, formula moles (1/2, 1/2), one constraint y0 + y1 = 1.
     kawin: hessian = the 6x6 matrix K below, dMudX(..., 'AL') = [[8]], partialdMudX = [[2,-2],[-2,2]],
     mobility_matrix with M = (1, 3) = [[1/4, -3/4], [-1/4, 3/4]], interdiffusivity = [[4]]. *)
Open Scope Q_scope.
Definition exQ : phase_data Qops :=
  @mkPD Qops 0 2 1 2 [[4; 0]; [0; 4]] [0; 0] [[1; 0]; [0; 1]] [1 # 2; 1 # 2] [[1; 1]] [0; 0].
Definition exK : list (list Q) :=
  [[4; 0; 0; -1; -1; 0]; [0; 4; 0; -1; 0; -1]; [0; 0; 0; 0; -(1 # 2); -(1 # 2)];
   [-1; -1; 0; 0; 0; 0]; [-1; 0; -(1 # 2); 0; 0; 0]; [0; -1; -(1 # 2); 0; 0; 0]].
Definition exKi : list (list Q) :=
  [[0; 0; 0; -(1 # 2); -(1 # 2); 1 # 2]; [0; 0; 0; -(1 # 2); 1 # 2; -(1 # 2)]; [0; 0; 0; 1; -1; -1];
   [-(1 # 2); -(1 # 2); 1; -2; 0; 0]; [-(1 # 2); 1 # 2; -1; 0; -2; 2]; [1 # 2; -(1 # 2); -1; 0; 2; -2]].
Definition exinvQ : list (list Q) -> option (list (list Q)) := fun _ => Some exKi.

Definition qmeq (A B : list (list Q)) : bool :=
  forallb (fun ab => forallb (fun xy => Qeq_bool (fst xy) (snd xy)) (combine (fst ab) (snd ab))) (combine A B)
  && Nat.eqb (length A) (length B).

Example hessian_example : qmeq (hessian Qops exQ) exK = true.
Proof. vm_compute. reflexivity. Qed.
Example inverse_example : qmeq (mmul Qops 6 6 6 exK exKi) (mkmat Qops 6 6 (fun i j => if Nat.eqb i j then 1 else 0)) = true.
Proof. vm_compute. reflexivity. Qed.
Example dMudX_example : qmeq (dMudX Qops exinvQ exQ 0) [[8]] = true.
Proof. vm_compute. reflexivity. Qed.
Example partialdMudX_example : qmeq (partialdMudX Qops exinvQ exQ) [[2; -2]; [-2; 2]] = true.
Proof. vm_compute. reflexivity. Qed.
Example mobility_matrix_example :
  qmeq (mobility_matrix Qops false [1 # 2; 1 # 2] [false; false] [1; 3] [1; 1]) [[1 # 4; -(3 # 4)]; [-(1 # 4); 3 # 4]] = true.
Proof. vm_compute. reflexivity. Qed.
Example interdiffusivity_example :
  qmeq (interdiffusivity_cs Qops exinvQ false 0 [1 # 2; 1 # 2] [false; false] [1; 3] [1; 1] exQ) [[4]] = true.
Proof. vm_compute. reflexivity. Qed.
(* Darken for this state: (x_r D*_a + x_a D*_r) * x_a/(RT) * (P_aa - P_ar), with D* = R T M:
   (1/2 * 3 RT + 1/2 * 1 RT) * (1/2)/RT * (2 + 2) = 4 *)
Example darken_value_example : Qeq_bool (((1 # 2) * 3 + (1 # 2) * 1) * (1 # 2) * (2 + 2)) 4 = true.
Proof. reflexivity. Qed.

(* an interstitial on a second sublattice with 9/10 vacancies: (FE, NI)_1 (C, VA)_1, X = moles / 11/10 *)
Example interstitial_example :
  let X := [1 # 11; 5 # 11; 5 # 11] in          (* C, FE, NI *)
  let vars := [(Some 1%nat, 0%nat); (Some 2%nat, 0%nat); (Some 0%nat, 1%nat); (None, 1%nat)] in
  let y := [1 # 2; 1 # 2; 1 # 10; 9 # 10] in
  qmeq (mobility_matrix_cs Qops false X [true; false; false] [7; 1; 3] vars y)
       [[(9 # 10) * (1 # 10) * 7 * (10 # 11); 0; 0]; [0; (1 # 4) * (10 # 11); -(3 # 4) * (10 # 11)]; [0; -(1 # 4) * (10 # 11); (3 # 4) * (10 # 11)]] = true
  /\ qmeq (mobility_matrix_cs Qops true X [true; false; false] [7; 1; 3] vars y)
       [[(1 # 10) * 7 * (10 # 11); 0; 0]; [0; (1 # 4) * (10 # 11); -(3 # 4) * (10 # 11)]; [0; -(1 # 4) * (10 # 11); (3 # 4) * (10 # 11)]] = true.
Proof. vm_compute. split; reflexivity. Qed.

(* re-ordering: user order (NI; CR, AL) -> solutes CR, AL; alphabetical AL, CR: positions swap *)
Example reorder_example :
  unsort [3 * 27 + 18; 1 * 27 + 12]%nat = [1; 0]%nat /\
  unsort [14 * 27 + 9; 3 * 27 + 18; 1 * 27 + 12]%nat = [2; 1; 0]%nat /\
  qmeq (reorder_mat Qops [99; 39]%nat [[1; 2]; [3; 4]]) [[4; 3]; [2; 1]] = true.
Proof. vm_compute. repeat split; reflexivity. Qed.
Close Scope Q_scope.

(* ---- the same state on the reals: every hypothesis of the theorems is satisfiable ---------------------- *)
Open Scope R_scope.
Definition exR : phase_data Rops :=
  @mkPD Rops 0 2 1 2 [[4; 0]; [0; 4]] [0; 0] [[1; 0]; [0; 1]] [1 / 2; 1 / 2] [[1; 1]] [0; 0].
Definition exKiR : list (list R) :=
  [[0; 0; 0; -(1 / 2); -(1 / 2); 1 / 2]; [0; 0; 0; -(1 / 2); 1 / 2; -(1 / 2)]; [0; 0; 0; 1; -1; -1];
   [-(1 / 2); -(1 / 2); 1; -2; 0; 0]; [-(1 / 2); 1 / 2; -1; 0; -2; 2]; [1 / 2; -(1 / 2); -1; 0; 2; -2]].
Definition exinvR : list (list R) -> option (list (list R)) := fun _ => Some exKiR.

Example d2g_sym_example : d2g_sym exR.
Proof.
  intros i j Hi Hj. simpl in Hi, Hj.
  destruct i as [|[|i]]; destruct j as [|[|j]]; try lia; reflexivity.
Qed.

Example stationary_example : stationary exR (fun _ => 0).
Proof.
  intros i Hi. simpl in Hi. destruct i as [|[|i]]; try lia;
    cbv [hrow exR nsv dg mu dxdy nel ncons cons vget mget bigsum sumT map seq nth Nat.add
         T zero one add sub mul dvd Rops]; lra.
Qed.

Example inv_ok_example : inv_ok exinvR (hsize Rops exR) (hessian Rops exR).
Proof.
  intros Ki E. inversion E; subst Ki. intros i j Hi Hj.
  change (hsize Rops exR) with 6%nat in *.
  do 6 (destruct i as [|i]; [do 6 (destruct j as [|j]; [
    cbv [hessian hess_entry hsize i0 hrow hmu fPA exR exKiR nsv pdof ncons nel d2g dg mu dxdy moleA cons
         mkmat vget mget bigsum sumT negT map seq nth Nat.add Nat.sub Nat.ltb Nat.leb Nat.eqb
         T zero one add sub mul dvd Rops]; lra |]); lia |]). lia.
Qed.

(* the Darken hypotheses (Gibbs-Duhem along the exchange line) hold for P = [[2,-2],[-2,2]], x = (1/2, 1/2) *)
Example darken_hypotheses_example :
  let P := [[2; -2]; [-2; 2]] in
  (1 / 2) * (mget Rops P 0 1 - mget Rops P 0 0) + (1 / 2) * (mget Rops P 1 1 - mget Rops P 1 0) = 0
  /\ 0 < mget Rops P 1 1 - mget Rops P 1 0.
Proof. cbv [mget nth T zero Rops]. split; lra. Qed.

(* a ternary state meeting the hypotheses of C10_ternary_positive: x = (1/4, 1/4, 1/2), ideal-solution
   curvature P_AB = delta_AB / x_A - 1 (R T = 1): Gibbs-Duhem holds, Htot = [[6, 2], [2, 6]] for r = 2 *)
Example ternary_hypotheses_example :
  let X := [1 / 4; 1 / 4; 1 / 2] in
  let P := [[3; -1; -1]; [-1; 3; -1]; [-1; -1; 1]] in
  (forall B, (B < 3)%nat -> gd3 X P B = 0) /\ Htot P 2 0 1 = Htot P 2 1 0 /\ 0 < Htot P 2 0 0 /\
  0 < Htot P 2 0 0 * Htot P 2 1 1 - Htot P 2 0 1 * Htot P 2 0 1.
Proof.
  cbv [gd3 Htot skip Nat.ltb Nat.leb mget vget bigsum sumT map seq nth T zero one add sub mul Rops].
  repeat split; try lra. intros B HB. destruct B as [|[|[|B]]]; try lia; lra.
Qed.
