(* C10 - the element re-ordering of Thermodynamics.getInterdiffusivity / getTracerDiffusivity
   (unsortIndices = argsort(argsort(elements))) puts every entry under its own element: position i of the
   output carries the entry at the alphabetical position (rank) of the user's i-th element.  Pure list / nat
   reasoning, valid for every scalar record. *)
From Coq Require Import List Bool Arith Lia Permutation Sorted.
Require Import Kawin.Common.Ops Kawin.Common.Vec Kawin.C10.Model.
Import ListNotations.

(* ---- insertion sort by an integer key ---------------------------------------------------------- *)
Definition isort (key : nat -> nat) (l : list nat) : list nat := fold_right (insert_by key) [] l.
Definition kle (key : nat -> nat) (x y : nat) : Prop := key x <= key y.

Lemma insert_perm key x l : Permutation (insert_by key x l) (x :: l).
Proof.
  induction l as [|y l IH]; simpl; [apply Permutation_refl|].
  destruct (Nat.leb (key x) (key y)); [apply Permutation_refl|].
  eapply Permutation_trans; [apply perm_skip, IH | apply perm_swap].
Qed.

Lemma isort_perm key l : Permutation (isort key l) l.
Proof.
  induction l as [|x l IH]; simpl; [apply perm_nil|].
  eapply Permutation_trans; [apply insert_perm | apply perm_skip, IH].
Qed.

Lemma insert_sorted key x l : StronglySorted (kle key) l -> StronglySorted (kle key) (insert_by key x l).
Proof.
  induction l as [|y l IH]; intros S; simpl.
  - constructor; constructor.
  - destruct (Nat.leb_spec (key x) (key y)) as [H|H].
    + constructor; [exact S|]. constructor; [exact H|].
      inversion S as [|? ? _ F]; subst. eapply Forall_impl; [|exact F]. intros z Hz. unfold kle in *. lia.
    + inversion S as [|? ? S' F]; subst. constructor; [apply IH; exact S'|].
      eapply Permutation_Forall; [apply Permutation_sym, insert_perm|].
      constructor; [unfold kle; lia | exact F].
Qed.

Lemma isort_sorted key l : StronglySorted (kle key) (isort key l).
Proof. induction l as [|x l IH]; simpl; [constructor | apply insert_sorted, IH]. Qed.

(* a sorted permutation is unique *)
Lemma sorted_perm_eq (l l' : list nat) :
  StronglySorted le l -> StronglySorted le l' -> Permutation l l' -> l = l'.
Proof.
  revert l'. induction l as [|x l IH]; intros l' S S' P.
  - apply Permutation_nil in P. subst. reflexivity.
  - destruct l' as [|y l']; [apply Permutation_sym, Permutation_nil in P; discriminate|].
    inversion S as [|? ? S1 F1]; subst. inversion S' as [|? ? S2 F2]; subst.
    assert (x = y).
    { assert (In x (y :: l')) as I1 by (eapply Permutation_in; [exact P | left; reflexivity]).
      assert (In y (x :: l)) as I2 by (eapply Permutation_in; [apply Permutation_sym; exact P | left; reflexivity]).
      destruct I1 as [->|I1]; [reflexivity|]. destruct I2 as [->|I2]; [reflexivity|].
      rewrite Forall_forall in F1, F2. specialize (F1 _ I2). specialize (F2 _ I1). lia. }
    subst y. f_equal. apply IH; try assumption. eapply Permutation_cons_inv; exact P.
Qed.

Lemma seq_sorted a n : StronglySorted le (seq a n).
Proof.
  revert a; induction n as [|n IH]; intros a; simpl; constructor; [apply IH|].
  apply Forall_forall. intros x Hx. apply in_seq in Hx. lia.
Qed.

Lemma sorted_map key l : StronglySorted (kle key) l -> StronglySorted le (map key l).
Proof.
  induction 1 as [|x l S IH F]; simpl; constructor; [exact IH|].
  apply Forall_forall. intros y Hy. apply in_map_iff in Hy. destruct Hy as (z & <- & Hz).
  rewrite Forall_forall in F. apply F. exact Hz.
Qed.

Lemma nth_map_seq0 {A} (g : nat -> A) n i d : i < n -> nth i (map g (seq 0 n)) d = g i.
Proof.
  intros H. rewrite (nth_indep _ d (g 0)) by (rewrite map_length, seq_length; exact H).
  rewrite map_nth, seq_nth by exact H. reflexivity.
Qed.
Lemma nth_map0 {A} (g : nat -> A) l i d : i < length l -> nth i (map g l) d = g (nth i l 0).
Proof.
  intros H. rewrite (nth_indep _ d (g 0)) by (rewrite map_length; exact H). apply map_nth.
Qed.
Lemma map_nth_seq (s : list nat) : map (fun i => nth i s 0) (seq 0 (length s)) = s.
Proof.
  apply nth_ext with (d := 0) (d' := 0); [rewrite map_length, seq_length; reflexivity|].
  intros k Hk. rewrite map_length, seq_length in Hk. apply (nth_map_seq0 (fun i => nth i s 0)). exact Hk.
Qed.

(* ---- argsort and unsort --------------------------------------------------------------------------- *)
Lemma argsort_isort keys : argsort keys = isort (fun i => nth i keys 0) (seq 0 (length keys)).
Proof. reflexivity. Qed.

Lemma argsort_perm keys : Permutation (argsort keys) (seq 0 (length keys)).
Proof. rewrite argsort_isort. apply isort_perm. Qed.

Lemma argsort_length keys : length (argsort keys) = length keys.
Proof. rewrite (Permutation_length (argsort_perm keys)). apply seq_length. Qed.

(* s[t[k]] = k : sorting the positions of a permutation by its values inverts it *)
Lemma argsort_inverts (s : list nat) k :
  Permutation s (seq 0 (length s)) -> k < length s -> nth (nth k (argsort s) 0) s 0 = k.
Proof.
  intros Ps Hk.
  set (t := argsort s).
  assert (E : map (fun i => nth i s 0) t = seq 0 (length s)).
  { apply sorted_perm_eq.
    - apply (sorted_map (fun i => nth i s 0)). unfold t. rewrite argsort_isort. apply isort_sorted.
    - apply seq_sorted.
    - eapply Permutation_trans; [apply Permutation_map, argsort_perm|].
      rewrite map_nth_seq. exact Ps. }
  assert (Lt : length t = length s) by apply argsort_length.
  assert (nth k (map (fun i => nth i s 0) t) 0 = k) as N by (rewrite E; apply seq_nth; exact Hk).
  rewrite (nth_map0 (fun i => nth i s 0)) in N by lia. exact N.
Qed.

Lemma ss_app_l {A} (R : A -> A -> Prop) l1 x l2 :
  StronglySorted R (l1 ++ x :: l2) -> forall j, In j l1 -> R j x.
Proof.
  induction l1 as [|a l1 IH]; intros SS j Hj; [destruct Hj|].
  simpl in SS. inversion SS as [|? ? SS' FF]; subst. destruct Hj as [->|Hj].
  - rewrite Forall_forall in FF. apply FF. apply in_or_app. right. left. reflexivity.
  - apply IH; assumption.
Qed.
Lemma ss_app_r {A} (R : A -> A -> Prop) l1 x l2 :
  StronglySorted R (l1 ++ x :: l2) -> forall j, In j l2 -> R x j.
Proof.
  induction l1 as [|a l1 IH]; intros SS j Hj; simpl in SS; inversion SS as [|? ? SS' FF]; subst.
  - rewrite Forall_forall in FF. apply FF. exact Hj.
  - apply IH; assumption.
Qed.

(* position of an element in a list sorted strictly by key = number of smaller keys *)
Lemma sorted_position key (s : list nat) p :
  StronglySorted (kle key) s -> NoDup (map key s) -> p < length s ->
  p = length (filter (fun j => Nat.ltb (key j) (key (nth p s 0))) s).
Proof.
  intros S ND Hp.
  destruct (nth_split s 0 Hp) as (s1 & s2 & E & L1).
  set (i := nth p s 0) in *.
  rewrite E in S, ND. rewrite map_app in ND. simpl in ND.
  assert (F1 : forall j, In j s1 -> key j < key i).
  { intros j Hj. pose proof (ss_app_l _ _ _ _ S j Hj) as H1.
    assert (key j <> key i).
    { apply NoDup_remove_2 in ND. intros Heq. apply ND.
      apply in_or_app. left. rewrite <- Heq. apply in_map. exact Hj. }
    unfold kle in *. lia. }
  assert (F2 : forall j, In j s2 -> key i < key j).
  { intros j Hj. pose proof (ss_app_r _ _ _ _ S j Hj) as H1.
    assert (key j <> key i).
    { apply NoDup_remove_2 in ND. intros Heq. apply ND.
      apply in_or_app. right. rewrite <- Heq. apply in_map. exact Hj. }
    unfold kle in *. lia. }
  rewrite E. rewrite filter_app. simpl. rewrite Nat.ltb_irrefl.
  rewrite app_length.
  assert (A1 : filter (fun j => Nat.ltb (key j) (key i)) s1 = s1).
  { clear - F1. induction s1 as [|a l IH]; simpl; [reflexivity|].
    destruct (Nat.ltb_spec (key a) (key i)) as [_|H]; [f_equal; apply IH; intros; apply F1; right; assumption|].
    specialize (F1 a (or_introl eq_refl)). lia. }
  assert (A2 : filter (fun j => Nat.ltb (key j) (key i)) s2 = []).
  { clear - F2. induction s2 as [|a l IH]; simpl; [reflexivity|].
    destruct (Nat.ltb_spec (key a) (key i)) as [H|_]; [specialize (F2 a (or_introl eq_refl)); lia|].
    apply IH. intros; apply F2; right; assumption. }
  rewrite A1, A2. simpl. lia.
Qed.

(* ---- the re-ordering puts every entry under its own element ------------------------------------------ *)
(* alphabetical position of the user's i-th element = number of elements with a smaller name *)
Definition rank (keys : list nat) (i : nat) : nat :=
  length (filter (fun k => Nat.ltb k (nth i keys 0)) keys).

Lemma filter_map_length {A B} (f : B -> bool) (g : A -> B) l :
  length (filter f (map g l)) = length (filter (fun x => f (g x)) l).
Proof. induction l as [|a l IH]; simpl; [reflexivity|]. destruct (f (g a)); simpl; rewrite IH; reflexivity. Qed.

Lemma filter_perm_length {A} (f : A -> bool) l l' :
  Permutation l l' -> length (filter f l) = length (filter f l').
Proof.
  induction 1 as [|x l l' _ IH|x y l|l l' l'' _ IH1 _ IH2]; simpl; try reflexivity.
  - destruct (f x); simpl; rewrite IH; reflexivity.
  - destruct (f x), (f y); reflexivity.
  - rewrite IH1. exact IH2.
Qed.

Lemma unsort_rank keys i : NoDup keys -> i < length keys ->
  length (unsort keys) = length keys /\ nth i (unsort keys) 0 = rank keys i.
Proof.
  intros ND Hi. unfold unsort.
  set (s := argsort keys). set (key1 := fun j => nth j keys 0).
  assert (Ls : length s = length keys) by apply argsort_length.
  assert (Ps : Permutation s (seq 0 (length s))) by (rewrite Ls; apply argsort_perm).
  assert (Lt : length (argsort s) = length s) by apply argsort_length.
  split; [lia|].
  set (p := nth i (argsort s) 0).
  assert (Hp : p < length s).
  { assert (In p (argsort s)) as I by (apply nth_In; lia).
    eapply Permutation_in in I; [|apply argsort_perm]. apply in_seq in I. lia. }
  assert (Ep : nth p s 0 = i) by (apply argsort_inverts; [exact Ps | lia]).
  assert (Pk : Permutation (map key1 s) keys).
  { eapply Permutation_trans; [apply Permutation_map, argsort_perm|]. apply Permutation_refl' , map_nth_seq. }
  assert (S : StronglySorted (kle key1) s) by (unfold s; rewrite argsort_isort; apply isort_sorted).
  assert (NDk : NoDup (map key1 s)) by (eapply Permutation_NoDup; [apply Permutation_sym; exact Pk | exact ND]).
  pose proof (sorted_position key1 s p S NDk Hp) as Pos. rewrite Ep in Pos.
  rewrite Pos. unfold rank.
  fold s. rewrite (filter_perm_length _ _ _ (argsort_perm keys)).
  pose proof (filter_map_length (fun k => Nat.ltb k (nth i keys 0)) (fun j => nth j keys 0) (seq 0 (length keys))) as FM.
  rewrite map_nth_seq in FM. rewrite FM. reflexivity.
Qed.

Section ReorderOps.
Variable O : Ops.

Lemma reorder_vec_entry keys (v : list (T O)) i : NoDup keys -> i < length keys ->
  nth i (reorder_vec O keys v) (zero O) = vget O v (rank keys i).
Proof.
  intros ND Hi. destruct (unsort_rank keys i ND Hi) as [L E].
  unfold reorder_vec.
  rewrite (nth_indep _ _ ((fun k => vget O v k) 0)) by (rewrite map_length; lia).
  rewrite (map_nth (fun k => vget O v k)). rewrite E. reflexivity.
Qed.

Lemma reorder_mat_entry keys (D : list (list (T O))) i j : NoDup keys -> i < length keys -> j < length keys ->
  mget O (reorder_mat O keys D) i j = mget O D (rank keys i) (rank keys j).
Proof.
  intros ND Hi Hj. destruct (unsort_rank keys i ND Hi) as [L Ei]. destruct (unsort_rank keys j ND Hj) as [_ Ej].
  unfold reorder_mat, mget at 1.
  rewrite (nth_indep _ _ ((fun a => map (fun b => mget O D a b) (unsort keys)) 0)) by (rewrite map_length; lia).
  rewrite (map_nth (fun a => map (fun b => mget O D a b) (unsort keys))).
  rewrite (nth_indep _ _ ((fun b => mget O D (nth i (unsort keys) 0) b) 0)) by (rewrite map_length; lia).
  rewrite (map_nth (fun b => mget O D (nth i (unsort keys) 0) b)). rewrite Ei, Ej. reflexivity.
Qed.
End ReorderOps.

(* the alphabetical position is what it should be: the sorted key list carries keys[i] at rank i *)
Lemma rank_spec keys i : NoDup keys -> i < length keys ->
  nth (rank keys i) (map (fun j => nth j keys 0) (argsort keys)) 0 = nth i keys 0.
Proof.
  intros ND Hi. destruct (unsort_rank keys i ND Hi) as [L E]. rewrite <- E.
  unfold unsort. set (s := argsort keys).
  assert (Ls : length s = length keys) by apply argsort_length.
  assert (Ps : Permutation s (seq 0 (length s))) by (rewrite Ls; apply argsort_perm).
  assert (Hp : nth i (argsort s) 0 < length s).
  { assert (In (nth i (argsort s) 0) (argsort s)) as I by (apply nth_In; rewrite argsort_length; lia).
    eapply Permutation_in in I; [|apply argsort_perm]. apply in_seq in I. lia. }
  rewrite (nth_map0 (fun j => nth j keys 0)) by exact Hp.
  rewrite argsort_inverts by (try exact Ps; lia). reflexivity.
Qed.

(* ---- array form of the getters: every entry is the single-point result of its own point ---------------- *)
Lemma array_query_paired {A B C} (single : A -> B -> C) xs Ts i x t :
  length xs = length Ts -> nth_error xs i = Some x -> nth_error Ts i = Some t ->
  exists l, array_query single xs Ts = Some l /\ length l = length xs /\ nth_error l i = Some (single x t).
Proof.
  intros L Hx Ht. unfold array_query, process_xT. rewrite L, Nat.eqb_refl. simpl.
  eexists. split; [reflexivity|]. split.
  - rewrite map_length, combine_length. lia.
  - rewrite nth_error_map.
    assert (E : nth_error (combine xs Ts) i = Some (x, t)).
    { clear L. revert Ts i Hx Ht. induction xs as [|a xs IH]; intros [|b Ts] [|i] Hx Ht; simpl in *; try discriminate.
      - inversion Hx; inversion Ht; reflexivity.
      - apply IH; assumption. }
    rewrite E. reflexivity.
Qed.

Lemma array_query_one_x {A B C} (single : A -> B -> C) x Ts i t :
  length Ts <> 1 -> nth_error Ts i = Some t ->
  exists l, array_query single [x] Ts = Some l /\ length l = length Ts /\ nth_error l i = Some (single x t).
Proof.
  intros L Ht. unfold array_query, process_xT. simpl length.
  destruct (Nat.eqb_spec 1 (length Ts)) as [E|_]; [congruence|]. simpl.
  eexists. split; [reflexivity|]. split; [rewrite !map_length; reflexivity|].
  rewrite map_map, nth_error_map, Ht. reflexivity.
Qed.

Lemma array_query_one_T {A B C} (single : A -> B -> C) xs t i x :
  length xs <> 1 -> nth_error xs i = Some x ->
  exists l, array_query single xs [t] = Some l /\ length l = length xs /\ nth_error l i = Some (single x t).
Proof.
  intros L Hx. unfold array_query, process_xT. simpl length.
  destruct (Nat.eqb_spec (length xs) 1) as [E|_]; [congruence|].
  destruct xs as [|a [|b xs]]; [destruct i; discriminate | simpl in L; congruence |].
  cbv beta iota. eexists. split; [reflexivity|]. split; [simpl; rewrite !map_length; reflexivity|].
  unfold option_map. rewrite map_map, nth_error_map, Hx. reflexivity.
Qed.

(* consequently two array calls agree wherever their points agree, and an entry never depends on its neighbours *)
Lemma array_query_local {A B C} (single : A -> B -> C) xs Ts xs' Ts' i j x t l l' :
  length xs = length Ts -> length xs' = length Ts' ->
  nth_error xs i = Some x -> nth_error Ts i = Some t -> nth_error xs' j = Some x -> nth_error Ts' j = Some t ->
  array_query single xs Ts = Some l -> array_query single xs' Ts' = Some l' ->
  nth_error l i = nth_error l' j.
Proof.
  intros L L' Hx Ht Hx' Ht' E E'.
  destruct (array_query_paired single xs Ts i x t L Hx Ht) as (m & Em & _ & Hm).
  destruct (array_query_paired single xs' Ts' j x t L' Hx' Ht') as (m' & Em' & _ & Hm').
  rewrite E in Em. rewrite E' in Em'. inversion Em; inversion Em'; subst. rewrite Hm, Hm'. reflexivity.
Qed.
