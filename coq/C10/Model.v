(* C10 - faithful model of the diffusivity algebra of
     kawin/thermo/Mobility.py          x_to_u_frac (15-30), mobility_from_composition_set (288-320),
                                       tracer_diffusivity (322-344), mobility_matrix (346-436),
                                       chemical_diffusivity (438-472), interdiffusivity (474-527),
                                       inverseMobility (529-566)
     kawin/thermo/FreeEnergyHessian.py hessian (3-83), totalddx (86-123), partialddx (126-155),
                                       dMudX (158-197), partialdMudX (199-219)
     kawin/thermo/Thermodynamics.py    element re-ordering of _interdiffusivitySingle (539-544) and
                                       _tracerDiffusivitySingle (614-617)
   Executable definitions only (no proofs), polymorphic in the scalar record.  What kawin does not own
   enters as data: the composition set (X, dof, the phase record's formula-unit derivatives), the mobility
   callables' values, and numpy's matrix inverse ([inv], an oracle: the theorems hold for every [inv] that
   returns a right inverse whenever it returns anything). *)
From Coq Require Import List Bool ZArith Arith.
Require Import Kawin.Common.Ops Kawin.Common.Vec.
Import ListNotations.

Section C10.
Variable O : Ops.
Notation t := (T O).
Notation vec := (list t).
Notation mat := (list (list t)).

(* ---- small dense linear algebra on lists ------------------------------------------------------- *)
Definition bigsum (n : nat) (f : nat -> t) : t := sumT O (map f (seq 0 n)).
Definition mkvec (n : nat) (f : nat -> t) : vec := map f (seq 0 n).
Definition mkmat (n m : nat) (f : nat -> nat -> t) : mat :=
  map (fun i => map (fun j => f i j) (seq 0 m)) (seq 0 n).
Definition vget (v : vec) (i : nat) : t := nth i v (zero O).
Definition mget (A : mat) (i j : nat) : t := nth j (nth i A []) (zero O).
(* np.matmul of an (n x k) and a (k x m) array *)
Definition mmul (n k m : nat) (A B : mat) : mat :=
  mkmat n m (fun i j => bigsum k (fun l => mul O (mget A i l) (mget B l j))).
Definition mzero (n m : nat) : mat := mkmat n m (fun _ _ => zero O).

(* ---- Mobility.py ------------------------------------------------------------------------------- *)
(* elements are positions 0..n-1 (alphabetical order of phase_record.nonvacant_elements);
   [inter a] = elements[a] in interstitials *)
Definition isint (inter : list bool) (a : nat) : bool := nth a inter false.

(* x_to_u_frac: Usum = sum of X over the non-interstitial elements; U = X / Usum *)
Definition usum (X : vec) (inter : list bool) : t :=
  bigsum (length X) (fun a => if isint inter a then zero O else vget X a).
Definition ufrac (X : vec) (inter : list bool) (a : nat) : t := dvd O (vget X a) (usum X inter).

(* mobility_from_composition_set: mobility_correction[A] * mobility_callables[A](dof) *)
Definition computedMob (corr raw : vec) : vec := zipWith (mul O) corr raw.

(* tracer_diffusivity: R * T * mobility, R = 8.314 *)
Definition Rgas : t := dvd O (ofZ O 8314) (ofZ O 1000).
Definition tracer (Tk : t) (corr raw : vec) : vec :=
  map (fun m => mul O (mul O Rgas Tk) m) (computedMob corr raw).

(* mob[A] = U[A] * computedMob[A] *)
Definition mobU (X : vec) (inter : list bool) (M : vec) (a : nat) : t :=
  mul O (ufrac X inter a) (vget M a).

(* entry (a,b) of mobMatrix before the final  mobMatrix *= Usum ;
   yva a = vaTerms.get(interstitialTerms[elements[a]], 1): the vacancy site fraction on the sublattice
   of interstitial a (1 when that sublattice has no vacancy); vp = vacancy_poor_interstitial_sublattice *)
Definition mob_entry (vp : bool) (X : vec) (inter : list bool) (M yva : vec) (a b : nat) : t :=
  if isint inter a then
    (if Nat.eqb a b then (if vp then mobU X inter M a else mul O (vget yva a) (mobU X inter M a))
     else zero O)
  else if isint inter b then zero O
  else if Nat.eqb a b then mul O (sub O (one O) (ufrac X inter a)) (mobU X inter M b)
  else mul O (negT O (ufrac X inter a)) (mobU X inter M b).

Definition mobility_matrix (vp : bool) (X : vec) (inter : list bool) (M yva : vec) : mat :=
  let n := length X in
  mkmat n n (fun a b => mul O (mob_entry vp X inter M yva a b) (usum X inter)).

(* the two dictionaries mobility_matrix builds from phase_record.variables:
     vaTerms[sublattice]      = site fraction of the vacancy on that sublattice
     interstitialTerms[name]  = sublattice of that interstitial species
   a variable is (species, sublattice); species = Some a (element at position a) or None (VA);
   later entries overwrite earlier ones (dict assignment in a loop); y = dof[len(state_variables):] *)
Definition va_term (vars : list (option nat * nat)) (y : vec) (sl : nat) : option t :=
  fold_left (fun acc iv =>
     match snd iv with
     | (None, s) => if Nat.eqb s sl then Some (vget y (fst iv)) else acc
     | _ => acc
     end) (combine (seq 0 (length vars)) vars) None.
Definition inter_subl (vars : list (option nat * nat)) (a : nat) : option nat :=
  fold_left (fun acc v =>
     match v with
     | (Some e, s) => if Nat.eqb e a then Some s else acc
     | _ => acc
     end) vars None.
(* vaTerms.get(interstitialTerms[elements[a]], 1) *)
Definition yva_of (vars : list (option nat * nat)) (y : vec) (a : nat) : t :=
  match inter_subl vars a with
  | Some s => match va_term vars y s with Some x => x | None => one O end
  | None => one O      (* KeyError in the code; an interstitial element always has a variable *)
  end.
Definition mobility_matrix_cs (vp : bool) (X : vec) (inter : list bool) (M : vec)
           (vars : list (option nat * nat)) (y : vec) : mat :=
  mobility_matrix vp X inter M (mkvec (length X) (yva_of vars y)).

(* T = dof[state_variables.index(v.T)] ; state variables as integer codes *)
Fixpoint sv_index (svs : list nat) (code : nat) : nat :=
  match svs with [] => 0 | s :: r => if Nat.eqb s code then 0 else S (sv_index r code) end.
Definition tracer_cs (svs : list nat) (Tcode : nat) (dof corr raw : vec) : vec :=
  tracer (vget dof (sv_index svs Tcode)) corr raw.

(* chemical_diffusivity: Dkj = matmul(mobMatrix, partialdMudX) *)
Definition chemical_diffusivity (vp : bool) (X : vec) (inter : list bool) (M yva : vec) (P : mat) : mat :=
  let n := length X in mmul n n n (mobility_matrix vp X inter M yva) P.

(* position of the c-th element that is not the reference element r *)
Definition skip (r c : nat) : nat := if Nat.ltb c r then c else S c.

(* interdiffusivity: drop row/column of the reference element; substitutional columns are taken
   relative to the reference column, interstitial columns are not *)
Definition interdiff_of (n r : nat) (inter : list bool) (Dkj : mat) : mat :=
  mkmat (n - 1) (n - 1) (fun c d =>
    let a := skip r c in let b := skip r d in
    if isint inter b then mget Dkj a b else sub O (mget Dkj a b) (mget Dkj a r)).
Definition interdiffusivity (vp : bool) (r : nat) (X : vec) (inter : list bool) (M yva : vec) (P : mat) : mat :=
  interdiff_of (length X) r inter (chemical_diffusivity vp X inter M yva P).

(* databases that carry diffusivity instead of mobility parameters (Al-Zr among the shipped ones):
   tracer_diffusivity_from_diff = diffusivity_correction * callable ;
   interdiffusivity_from_diff   = those values of the non-reference elements on the diagonal *)
Definition tracer_from_diff (corr raw : vec) : vec := computedMob corr raw.
Definition interdiff_from_diff (n r : nat) (corr raw : vec) : mat :=
  mkmat (n - 1) (n - 1) (fun a b => if Nat.eqb a b then vget (computedMob corr raw) (skip r a) else zero O).

(* ---- FreeEnergyHessian.py ---------------------------------------------------------------------- *)
(* data of the phase record at the composition set:
     nsv = num_statevars, p = phase_dof, s = num_internal_cons, n = len(elements)
     d2g  (nsv+p) x (nsv+p)   formulahess          dg   (nsv+p)   formulagrad
     dxdy  n x (nsv+p)        formulamole_grad     moleA n        formulamole_obj
     cons  s x (nsv+p)        internal_cons_jac    mu    n        chemical potentials *)
Record phase_data := mkPD {
  nsv : nat; pdof : nat; ncons : nat; nel : nat;
  d2g : mat; dg : vec; dxdy : mat; moleA : vec; cons : mat; mu : vec }.

Definition hsize (d : phase_data) : nat := pdof d + ncons d + nel d + 1.
Definition i0 (d : phase_data) : nat := pdof d + ncons d + 1.
(* formulaPhAmt = 1 / np.sum(moleA) *)
Definition fPA (d : phase_data) : t := dvd O (one O) (sumT O (moleA d)).
(* dg[nsv+i] - np.sum(mu * dxdy[:, nsv+i]) *)
Definition hrow (d : phase_data) (i : nat) : t :=
  sub O (vget (dg d) (nsv d + i))
        (bigsum (nel d) (fun A => mul O (vget (mu d) A) (mget (dxdy d) A (nsv d + i)))).
(* -1 * dxdy[A, nsv+i] * formulaPhAmt *)
Definition hmu (d : phase_data) (A i : nat) : t :=
  mul O (mul O (negT O (one O)) (mget (dxdy d) A (nsv d + i))) (fPA d).

(* the bordered matrix: what each assignment of [hessian] writes where (blocks do not overlap);
   rows/columns: site fractions | phase amount | multipliers | chemical potentials *)
Definition hess_entry (d : phase_data) (i j : nat) : t :=
  let p := pdof d in
  if Nat.ltb i p then
    if Nat.ltb j p then mul O (mget (d2g d) (nsv d + i) (nsv d + j)) (fPA d)
    else if Nat.eqb j p then hrow d i
    else if Nat.ltb j (i0 d) then negT O (mget (cons d) (j - p - 1) (nsv d + i))
    else hmu d (j - i0 d) i
  else if Nat.eqb i p then
    if Nat.ltb j p then hrow d j
    else if Nat.ltb j (i0 d) then zero O
    else negT O (vget (moleA d) (j - i0 d))
  else if Nat.ltb i (i0 d) then
    if Nat.ltb j p then negT O (mget (cons d) (i - p - 1) (nsv d + j)) else zero O
  else
    if Nat.ltb j p then hmu d (i - i0 d) j
    else if Nat.eqb j p then negT O (vget (moleA d) (i - i0 d))
    else zero O.
Definition hessian (d : phase_data) : mat := mkmat (hsize d) (hsize d) (hess_entry d).

(* right-hand sides: totalddx (reference element r: +1 in every column; other element A: -1 in the
   column that counts the non-reference elements before it) and partialddx (-1 on the diagonal) *)
Definition b_total (d : phase_data) (r : nat) : mat :=
  mkmat (hsize d) (nel d - 1) (fun i c =>
    if Nat.ltb i (i0 d) then zero O
    else if Nat.eqb (i - i0 d) r then one O
    else if Nat.eqb (i - i0 d) (skip r c) then negT O (one O) else zero O).
Definition b_partial (d : phase_data) : mat :=
  mkmat (hsize d) (nel d) (fun i c =>
    if Nat.ltb i (i0 d) then zero O
    else if Nat.eqb (i - i0 d) c then negT O (one O) else zero O).

(* np.linalg.inv: an oracle; None = LinAlgError (the code then returns zeros) *)
Variable inv : mat -> option mat.

Definition ddx_of (d : phase_data) (m : nat) (b : mat) : mat :=
  match inv (hessian d) with
  | Some Ki => mmul (hsize d) (hsize d) m Ki b
  | None => mzero (hsize d) m
  end.
Definition totalddx (d : phase_data) (r : nat) : mat := ddx_of d (nel d - 1) (b_total d r).
Definition partialddx (d : phase_data) : mat := ddx_of d (nel d) (b_partial d).

(* dMudX: rows of the non-reference elements minus the row of the reference element *)
Definition dMudX (d : phase_data) (r : nat) : mat :=
  let ddx := totalddx d r in
  mkmat (nel d - 1) (nel d - 1) (fun c e =>
    sub O (mget ddx (i0 d + skip r c) e) (mget ddx (i0 d + r) e)).
(* partialdMudX: ddx[i0:, :] *)
Definition partialdMudX (d : phase_data) : mat :=
  let ddx := partialddx d in mkmat (nel d) (nel d) (fun A B => mget ddx (i0 d + A) B).

(* interdiffusivity(chemical_potentials, composition_set, refElement, ...) end to end *)
Definition interdiffusivity_cs (vp : bool) (r : nat) (X : vec) (inter : list bool) (M yva : vec)
           (d : phase_data) : mat :=
  interdiffusivity vp r X inter M yva (partialdMudX d).

(* ---- Thermodynamics.py: alphabetical order -> order of the user's element list ------------------ *)
(* keys: the user's elements (solutes for the interdiffusivity, all for the tracer diffusivity), as
   order-preserving integer codes.  np.argsort = stable sort of positions by key *)
Fixpoint insert_by (key : nat -> nat) (x : nat) (l : list nat) : list nat :=
  match l with
  | [] => [x]
  | y :: r => if Nat.leb (key x) (key y) then x :: l else y :: insert_by key x r
  end.
Definition argsort (keys : list nat) : list nat :=
  fold_right (fun x acc => insert_by (fun i => nth i keys 0) x acc) [] (seq 0 (length keys)).
(* unsortIndices = argsort(argsort(elements)) *)
Definition unsort (keys : list nat) : list nat := argsort (argsort keys).
(* Dnkj[unsort,:][:,unsort] and Dtrace[unsort] *)
Definition reorder_mat (keys : list nat) (D : mat) : mat :=
  let u := unsort keys in map (fun i => map (fun j => mget D i j) u) u.
Definition reorder_vec (keys : list nat) (v : vec) : vec := map (fun i => vget v i) (unsort keys).

End C10.

Arguments mkPD {O}.
Arguments nsv {O}. Arguments pdof {O}. Arguments ncons {O}. Arguments nel {O}.
Arguments d2g {O}. Arguments dg {O}. Arguments dxdy {O}. Arguments moleA {O}. Arguments cons {O}. Arguments mu {O}.

(* ---- Thermodynamics.py: the array form of getInterdiffusivity / getTracerDiffusivity ------------------- *)
(* utils._process_xT_arrays: equal lengths are paired; a single composition (or temperature) is repeated for
   every temperature (composition); anything else raises ValueError (None).  The getters then evaluate the
   single-point routine on every pair: [single] stands for _interdiffusivitySingle / _tracerDiffusivitySingle
   (local equilibrium + the algebra modelled above), whatever it computes. *)
Definition process_xT {A B : Type} (xs : list A) (Ts : list B) : option (list (A * B)) :=
  if Nat.eqb (length xs) (length Ts) then Some (combine xs Ts)
  else match xs, Ts with
       | [x], _ => Some (map (fun t => (x, t)) Ts)
       | _, [t] => Some (map (fun x => (x, t)) xs)
       | _, _ => None
       end.
Definition array_query {A B C : Type} (single : A -> B -> C) (xs : list A) (Ts : list B) : option (list C) :=
  option_map (map (fun p => single (fst p) (snd p))) (process_xT xs Ts).
