C01/Corr.vo C01/Corr.glob C01/Corr.v.beautified C01/Corr.required_vo: C01/Corr.v Common/Ops.vo Common/Vec.vo Common/Out.vo C07/Model.vo C01/Model.vo
C01/Corr.vio: C01/Corr.v Common/Ops.vio Common/Vec.vio Common/Out.vio C07/Model.vio C01/Model.vio
C01/Corr.vos C01/Corr.vok C01/Corr.required_vos: C01/Corr.v Common/Ops.vos Common/Vec.vos Common/Out.vos C07/Model.vos C01/Model.vos
C01/Examples.vo C01/Examples.glob C01/Examples.v.beautified C01/Examples.required_vo: C01/Examples.v Common/Ops.vo Common/Vec.vo C07/Model.vo C01/Model.vo
C01/Examples.vio: C01/Examples.v Common/Ops.vio Common/Vec.vio C07/Model.vio C01/Model.vio
C01/Examples.vos C01/Examples.vok C01/Examples.required_vos: C01/Examples.v Common/Ops.vos Common/Vec.vos C07/Model.vos C01/Model.vos
C01/Model.vo C01/Model.glob C01/Model.v.beautified C01/Model.required_vo: C01/Model.v Common/Ops.vo Common/Vec.vo C07/Model.vo
C01/Model.vio: C01/Model.v Common/Ops.vio Common/Vec.vio C07/Model.vio
C01/Model.vos C01/Model.vok C01/Model.required_vos: C01/Model.v Common/Ops.vos Common/Vec.vos C07/Model.vos
C01/Proofs.vo C01/Proofs.glob C01/Proofs.v.beautified C01/Proofs.required_vo: C01/Proofs.v Common/Ops.vo Common/Vec.vo Common/VecLemmas.vo C07/Model.vo C01/Model.vo
C01/Proofs.vio: C01/Proofs.v Common/Ops.vio Common/Vec.vio Common/VecLemmas.vio C07/Model.vio C01/Model.vio
C01/Proofs.vos C01/Proofs.vok C01/Proofs.required_vos: C01/Proofs.v Common/Ops.vos Common/Vec.vos Common/VecLemmas.vos C07/Model.vos C01/Model.vos
C01/Properties.vo C01/Properties.glob C01/Properties.v.beautified C01/Properties.required_vo: C01/Properties.v Common/Ops.vo Common/Vec.vo Common/VecLemmas.vo C07/Model.vo C01/Model.vo C01/Proofs.vo
C01/Properties.vio: C01/Properties.v Common/Ops.vio Common/Vec.vio Common/VecLemmas.vio C07/Model.vio C01/Model.vio C01/Proofs.vio
C01/Properties.vos C01/Properties.vok C01/Properties.required_vos: C01/Properties.v Common/Ops.vos Common/Vec.vos Common/VecLemmas.vos C07/Model.vos C01/Model.vos C01/Proofs.vos
C02/Corr.vo C02/Corr.glob C02/Corr.v.beautified C02/Corr.required_vo: C02/Corr.v Common/Ops.vo Common/Vec.vo Common/Out.vo C07/Model.vo C07/Corr.vo C02/Model.vo
C02/Corr.vio: C02/Corr.v Common/Ops.vio Common/Vec.vio Common/Out.vio C07/Model.vio C07/Corr.vio C02/Model.vio
C02/Corr.vos C02/Corr.vok C02/Corr.required_vos: C02/Corr.v Common/Ops.vos Common/Vec.vos Common/Out.vos C07/Model.vos C07/Corr.vos C02/Model.vos
C02/Examples.vo C02/Examples.glob C02/Examples.v.beautified C02/Examples.required_vo: C02/Examples.v Common/Ops.vo Common/Vec.vo C07/Model.vo C01/Model.vo C02/Model.vo
C02/Examples.vio: C02/Examples.v Common/Ops.vio Common/Vec.vio C07/Model.vio C01/Model.vio C02/Model.vio
C02/Examples.vos C02/Examples.vok C02/Examples.required_vos: C02/Examples.v Common/Ops.vos Common/Vec.vos C07/Model.vos C01/Model.vos C02/Model.vos
C02/Model.vo C02/Model.glob C02/Model.v.beautified C02/Model.required_vo: C02/Model.v Common/Ops.vo Common/Vec.vo C07/Model.vo C01/Model.vo
C02/Model.vio: C02/Model.v Common/Ops.vio Common/Vec.vio C07/Model.vio C01/Model.vio
C02/Model.vos C02/Model.vok C02/Model.required_vos: C02/Model.v Common/Ops.vos Common/Vec.vos C07/Model.vos C01/Model.vos
C02/Proofs.vo C02/Proofs.glob C02/Proofs.v.beautified C02/Proofs.required_vo: C02/Proofs.v Common/Ops.vo Common/Vec.vo Common/VecLemmas.vo C07/Model.vo C07/Proofs.vo C01/Model.vo C01/Proofs.vo C02/Model.vo
C02/Proofs.vio: C02/Proofs.v Common/Ops.vio Common/Vec.vio Common/VecLemmas.vio C07/Model.vio C07/Proofs.vio C01/Model.vio C01/Proofs.vio C02/Model.vio
C02/Proofs.vos C02/Proofs.vok C02/Proofs.required_vos: C02/Proofs.v Common/Ops.vos Common/Vec.vos Common/VecLemmas.vos C07/Model.vos C07/Proofs.vos C01/Model.vos C01/Proofs.vos C02/Model.vos
C02/Properties.vo C02/Properties.glob C02/Properties.v.beautified C02/Properties.required_vo: C02/Properties.v Common/Ops.vo Common/Vec.vo Common/VecLemmas.vo C07/Model.vo C07/Proofs.vo C01/Model.vo C01/Proofs.vo C02/Model.vo C02/Proofs.vo
C02/Properties.vio: C02/Properties.v Common/Ops.vio Common/Vec.vio Common/VecLemmas.vio C07/Model.vio C07/Proofs.vio C01/Model.vio C01/Proofs.vio C02/Model.vio C02/Proofs.vio
C02/Properties.vos C02/Properties.vok C02/Properties.required_vos: C02/Properties.v Common/Ops.vos Common/Vec.vos Common/VecLemmas.vos C07/Model.vos C07/Proofs.vos C01/Model.vos C01/Proofs.vos C02/Model.vos C02/Proofs.vos
C02/Remesh.vo C02/Remesh.glob C02/Remesh.v.beautified C02/Remesh.required_vo: C02/Remesh.v Common/Ops.vo Common/Vec.vo C07/Model.vo C08/Model.vo C02/Model.vo
C02/Remesh.vio: C02/Remesh.v Common/Ops.vio Common/Vec.vio C07/Model.vio C08/Model.vio C02/Model.vio
C02/Remesh.vos C02/Remesh.vok C02/Remesh.required_vos: C02/Remesh.v Common/Ops.vos Common/Vec.vos C07/Model.vos C08/Model.vos C02/Model.vos
C03/Corr.vo C03/Corr.glob C03/Corr.v.beautified C03/Corr.required_vo: C03/Corr.v Common/Ops.vo Common/Vec.vo Common/Out.vo C07/Model.vo C07/Corr.vo C01/Model.vo C01/Corr.vo C02/Model.vo C03/Model.vo
C03/Corr.vio: C03/Corr.v Common/Ops.vio Common/Vec.vio Common/Out.vio C07/Model.vio C07/Corr.vio C01/Model.vio C01/Corr.vio C02/Model.vio C03/Model.vio
C03/Corr.vos C03/Corr.vok C03/Corr.required_vos: C03/Corr.v Common/Ops.vos Common/Vec.vos Common/Out.vos C07/Model.vos C07/Corr.vos C01/Model.vos C01/Corr.vos C02/Model.vos C03/Model.vos
C03/Examples.vo C03/Examples.glob C03/Examples.v.beautified C03/Examples.required_vo: C03/Examples.v Common/Ops.vo Common/Vec.vo Common/VecLemmas.vo C07/Model.vo C07/Proofs.vo C01/Model.vo C01/Proofs.vo C02/Model.vo C02/Proofs.vo C03/Model.vo C03/ProofsStore.vo C03/Proofs.vo C05/Model.vo
C03/Examples.vio: C03/Examples.v Common/Ops.vio Common/Vec.vio Common/VecLemmas.vio C07/Model.vio C07/Proofs.vio C01/Model.vio C01/Proofs.vio C02/Model.vio C02/Proofs.vio C03/Model.vio C03/ProofsStore.vio C03/Proofs.vio C05/Model.vio
C03/Examples.vos C03/Examples.vok C03/Examples.required_vos: C03/Examples.v Common/Ops.vos Common/Vec.vos Common/VecLemmas.vos C07/Model.vos C07/Proofs.vos C01/Model.vos C01/Proofs.vos C02/Model.vos C02/Proofs.vos C03/Model.vos C03/ProofsStore.vos C03/Proofs.vos C05/Model.vos
C03/Model.vo C03/Model.glob C03/Model.v.beautified C03/Model.required_vo: C03/Model.v Common/Ops.vo Common/Vec.vo C07/Model.vo C01/Model.vo C02/Model.vo C05/Model.vo
C03/Model.vio: C03/Model.v Common/Ops.vio Common/Vec.vio C07/Model.vio C01/Model.vio C02/Model.vio C05/Model.vio
C03/Model.vos C03/Model.vok C03/Model.required_vos: C03/Model.v Common/Ops.vos Common/Vec.vos C07/Model.vos C01/Model.vos C02/Model.vos C05/Model.vos
C03/Proofs.vo C03/Proofs.glob C03/Proofs.v.beautified C03/Proofs.required_vo: C03/Proofs.v Common/Ops.vo Common/Vec.vo Common/VecLemmas.vo C07/Model.vo C07/Proofs.vo C01/Model.vo C01/Proofs.vo C02/Model.vo C02/Proofs.vo C03/Model.vo C05/Model.vo C05/Proofs.vo
C03/Proofs.vio: C03/Proofs.v Common/Ops.vio Common/Vec.vio Common/VecLemmas.vio C07/Model.vio C07/Proofs.vio C01/Model.vio C01/Proofs.vio C02/Model.vio C02/Proofs.vio C03/Model.vio C05/Model.vio C05/Proofs.vio
C03/Proofs.vos C03/Proofs.vok C03/Proofs.required_vos: C03/Proofs.v Common/Ops.vos Common/Vec.vos Common/VecLemmas.vos C07/Model.vos C07/Proofs.vos C01/Model.vos C01/Proofs.vos C02/Model.vos C02/Proofs.vos C03/Model.vos C05/Model.vos C05/Proofs.vos
C03/ProofsStore.vo C03/ProofsStore.glob C03/ProofsStore.v.beautified C03/ProofsStore.required_vo: C03/ProofsStore.v C03/Model.vo
C03/ProofsStore.vio: C03/ProofsStore.v C03/Model.vio
C03/ProofsStore.vos C03/ProofsStore.vok C03/ProofsStore.required_vos: C03/ProofsStore.v C03/Model.vos
C03/Properties.vo C03/Properties.glob C03/Properties.v.beautified C03/Properties.required_vo: C03/Properties.v Common/Ops.vo Common/Vec.vo Common/VecLemmas.vo C07/Model.vo C07/Proofs.vo C01/Model.vo C01/Proofs.vo C02/Model.vo C02/Proofs.vo C03/Model.vo C03/ProofsStore.vo C03/Proofs.vo C05/Model.vo
C03/Properties.vio: C03/Properties.v Common/Ops.vio Common/Vec.vio Common/VecLemmas.vio C07/Model.vio C07/Proofs.vio C01/Model.vio C01/Proofs.vio C02/Model.vio C02/Proofs.vio C03/Model.vio C03/ProofsStore.vio C03/Proofs.vio C05/Model.vio
C03/Properties.vos C03/Properties.vok C03/Properties.required_vos: C03/Properties.v Common/Ops.vos Common/Vec.vos Common/VecLemmas.vos C07/Model.vos C07/Proofs.vos C01/Model.vos C01/Proofs.vos C02/Model.vos C02/Proofs.vos C03/Model.vos C03/ProofsStore.vos C03/Proofs.vos C05/Model.vos
C04/Corr.vo C04/Corr.glob C04/Corr.v.beautified C04/Corr.required_vo: C04/Corr.v Common/Ops.vo Common/Vec.vo Common/Out.vo C04/Model.vo
C04/Corr.vio: C04/Corr.v Common/Ops.vio Common/Vec.vio Common/Out.vio C04/Model.vio
C04/Corr.vos C04/Corr.vok C04/Corr.required_vos: C04/Corr.v Common/Ops.vos Common/Vec.vos Common/Out.vos C04/Model.vos
C04/Examples.vo C04/Examples.glob C04/Examples.v.beautified C04/Examples.required_vo: C04/Examples.v Common/Ops.vo Common/Vec.vo Common/VecLemmas.vo C04/Model.vo C04/Proofs.vo
C04/Examples.vio: C04/Examples.v Common/Ops.vio Common/Vec.vio Common/VecLemmas.vio C04/Model.vio C04/Proofs.vio
C04/Examples.vos C04/Examples.vok C04/Examples.required_vos: C04/Examples.v Common/Ops.vos Common/Vec.vos Common/VecLemmas.vos C04/Model.vos C04/Proofs.vos
C04/Hom.vo C04/Hom.glob C04/Hom.v.beautified C04/Hom.required_vo: C04/Hom.v Common/Ops.vo Common/Vec.vo C04/Model.vo
C04/Hom.vio: C04/Hom.v Common/Ops.vio Common/Vec.vio C04/Model.vio
C04/Hom.vos C04/Hom.vok C04/Hom.required_vos: C04/Hom.v Common/Ops.vos Common/Vec.vos C04/Model.vos
C04/Model.vo C04/Model.glob C04/Model.v.beautified C04/Model.required_vo: C04/Model.v Common/Ops.vo Common/Vec.vo
C04/Model.vio: C04/Model.v Common/Ops.vio Common/Vec.vio
C04/Model.vos C04/Model.vok C04/Model.required_vos: C04/Model.v Common/Ops.vos Common/Vec.vos
C04/Proofs.vo C04/Proofs.glob C04/Proofs.v.beautified C04/Proofs.required_vo: C04/Proofs.v Common/Ops.vo Common/Vec.vo Common/VecLemmas.vo C04/Model.vo
C04/Proofs.vio: C04/Proofs.v Common/Ops.vio Common/Vec.vio Common/VecLemmas.vio C04/Model.vio
C04/Proofs.vos C04/Proofs.vok C04/Proofs.required_vos: C04/Proofs.v Common/Ops.vos Common/Vec.vos Common/VecLemmas.vos C04/Model.vos
C04/Properties.vo C04/Properties.glob C04/Properties.v.beautified C04/Properties.required_vo: C04/Properties.v Common/Ops.vo Common/Vec.vo Common/VecLemmas.vo C04/Model.vo C04/Proofs.vo
C04/Properties.vio: C04/Properties.v Common/Ops.vio Common/Vec.vio Common/VecLemmas.vio C04/Model.vio C04/Proofs.vio
C04/Properties.vos C04/Properties.vok C04/Properties.required_vos: C04/Properties.v Common/Ops.vos Common/Vec.vos Common/VecLemmas.vos C04/Model.vos C04/Proofs.vos
C05/Corr.vo C05/Corr.glob C05/Corr.v.beautified C05/Corr.required_vo: C05/Corr.v Common/Ops.vo C05/Model.vo
C05/Corr.vio: C05/Corr.v Common/Ops.vio C05/Model.vio
C05/Corr.vos C05/Corr.vok C05/Corr.required_vos: C05/Corr.v Common/Ops.vos C05/Model.vos
C05/Examples.vo C05/Examples.glob C05/Examples.v.beautified C05/Examples.required_vo: C05/Examples.v Common/Ops.vo C05/Model.vo C05/Proofs.vo C05/ProofsF64.vo
C05/Examples.vio: C05/Examples.v Common/Ops.vio C05/Model.vio C05/Proofs.vio C05/ProofsF64.vio
C05/Examples.vos C05/Examples.vok C05/Examples.required_vos: C05/Examples.v Common/Ops.vos C05/Model.vos C05/Proofs.vos C05/ProofsF64.vos
C05/ExamplesF64.vo C05/ExamplesF64.glob C05/ExamplesF64.v.beautified C05/ExamplesF64.required_vo: C05/ExamplesF64.v Common/Ops.vo C05/Model.vo C05/Proofs.vo C05/ProofsF64.vo
C05/ExamplesF64.vio: C05/ExamplesF64.v Common/Ops.vio C05/Model.vio C05/Proofs.vio C05/ProofsF64.vio
C05/ExamplesF64.vos C05/ExamplesF64.vok C05/ExamplesF64.required_vos: C05/ExamplesF64.v Common/Ops.vos C05/Model.vos C05/Proofs.vos C05/ProofsF64.vos
C05/Model.vo C05/Model.glob C05/Model.v.beautified C05/Model.required_vo: C05/Model.v Common/Ops.vo
C05/Model.vio: C05/Model.v Common/Ops.vio
C05/Model.vos C05/Model.vok C05/Model.required_vos: C05/Model.v Common/Ops.vos
C05/Proofs.vo C05/Proofs.glob C05/Proofs.v.beautified C05/Proofs.required_vo: C05/Proofs.v Common/Ops.vo C05/Model.vo
C05/Proofs.vio: C05/Proofs.v Common/Ops.vio C05/Model.vio
C05/Proofs.vos C05/Proofs.vok C05/Proofs.required_vos: C05/Proofs.v Common/Ops.vos C05/Model.vos
C05/ProofsF64.vo C05/ProofsF64.glob C05/ProofsF64.v.beautified C05/ProofsF64.required_vo: C05/ProofsF64.v Common/Ops.vo C05/Model.vo C05/Proofs.vo
C05/ProofsF64.vio: C05/ProofsF64.v Common/Ops.vio C05/Model.vio C05/Proofs.vio
C05/ProofsF64.vos C05/ProofsF64.vok C05/ProofsF64.required_vos: C05/ProofsF64.v Common/Ops.vos C05/Model.vos C05/Proofs.vos
C05/Properties.vo C05/Properties.glob C05/Properties.v.beautified C05/Properties.required_vo: C05/Properties.v Common/Ops.vo C05/Model.vo C05/Proofs.vo C05/ProofsF64.vo
C05/Properties.vio: C05/Properties.v Common/Ops.vio C05/Model.vio C05/Proofs.vio C05/ProofsF64.vio
C05/Properties.vos C05/Properties.vok C05/Properties.required_vos: C05/Properties.v Common/Ops.vos C05/Model.vos C05/Proofs.vos C05/ProofsF64.vos
C06/Analysis.vo C06/Analysis.glob C06/Analysis.v.beautified C06/Analysis.required_vo: C06/Analysis.v Common/Ops.vo C06/Model.vo C06/Proofs.vo
C06/Analysis.vio: C06/Analysis.v Common/Ops.vio C06/Model.vio C06/Proofs.vio
C06/Analysis.vos C06/Analysis.vok C06/Analysis.required_vos: C06/Analysis.v Common/Ops.vos C06/Model.vos C06/Proofs.vos
C06/Examples.vo C06/Examples.glob C06/Examples.v.beautified C06/Examples.required_vo: C06/Examples.v Common/Ops.vo C06/Model.vo C06/Proofs.vo
C06/Examples.vio: C06/Examples.v Common/Ops.vio C06/Model.vio C06/Proofs.vio
C06/Examples.vos C06/Examples.vok C06/Examples.required_vos: C06/Examples.v Common/Ops.vos C06/Model.vos C06/Proofs.vos
C06/Model.vo C06/Model.glob C06/Model.v.beautified C06/Model.required_vo: C06/Model.v Common/Ops.vo
C06/Model.vio: C06/Model.v Common/Ops.vio
C06/Model.vos C06/Model.vok C06/Model.required_vos: C06/Model.v Common/Ops.vos
C06/Proofs.vo C06/Proofs.glob C06/Proofs.v.beautified C06/Proofs.required_vo: C06/Proofs.v Common/Ops.vo C06/Model.vo
C06/Proofs.vio: C06/Proofs.v Common/Ops.vio C06/Model.vio
C06/Proofs.vos C06/Proofs.vok C06/Proofs.required_vos: C06/Proofs.v Common/Ops.vos C06/Model.vos
C06/Properties.vo C06/Properties.glob C06/Properties.v.beautified C06/Properties.required_vo: C06/Properties.v Common/Ops.vo C06/Model.vo C06/Proofs.vo
C06/Properties.vio: C06/Properties.v Common/Ops.vio C06/Model.vio C06/Proofs.vio
C06/Properties.vos C06/Properties.vok C06/Properties.required_vos: C06/Properties.v Common/Ops.vos C06/Model.vos C06/Proofs.vos
C06/SpecCorr.vo C06/SpecCorr.glob C06/SpecCorr.v.beautified C06/SpecCorr.required_vo: C06/SpecCorr.v Common/Ops.vo Common/Out.vo C06/Model.vo
C06/SpecCorr.vio: C06/SpecCorr.v Common/Ops.vio Common/Out.vio C06/Model.vio
C06/SpecCorr.vos C06/SpecCorr.vok C06/SpecCorr.required_vos: C06/SpecCorr.v Common/Ops.vos Common/Out.vos C06/Model.vos
C07/Corr.vo C07/Corr.glob C07/Corr.v.beautified C07/Corr.required_vo: C07/Corr.v Common/Ops.vo Common/Vec.vo Common/Out.vo C07/Model.vo
C07/Corr.vio: C07/Corr.v Common/Ops.vio Common/Vec.vio Common/Out.vio C07/Model.vio
C07/Corr.vos C07/Corr.vok C07/Corr.required_vos: C07/Corr.v Common/Ops.vos Common/Vec.vos Common/Out.vos C07/Model.vos
C07/Examples.vo C07/Examples.glob C07/Examples.v.beautified C07/Examples.required_vo: C07/Examples.v Common/Ops.vo Common/Vec.vo Common/VecLemmas.vo C07/Model.vo C07/Proofs.vo
C07/Examples.vio: C07/Examples.v Common/Ops.vio Common/Vec.vio Common/VecLemmas.vio C07/Model.vio C07/Proofs.vio
C07/Examples.vos C07/Examples.vok C07/Examples.required_vos: C07/Examples.v Common/Ops.vos Common/Vec.vos Common/VecLemmas.vos C07/Model.vos C07/Proofs.vos
C07/Hom.vo C07/Hom.glob C07/Hom.v.beautified C07/Hom.required_vo: C07/Hom.v Common/Ops.vo Common/Vec.vo C07/Model.vo
C07/Hom.vio: C07/Hom.v Common/Ops.vio Common/Vec.vio C07/Model.vio
C07/Hom.vos C07/Hom.vok C07/Hom.required_vos: C07/Hom.v Common/Ops.vos Common/Vec.vos C07/Model.vos
C07/Model.vo C07/Model.glob C07/Model.v.beautified C07/Model.required_vo: C07/Model.v Common/Ops.vo Common/Vec.vo
C07/Model.vio: C07/Model.v Common/Ops.vio Common/Vec.vio
C07/Model.vos C07/Model.vok C07/Model.required_vos: C07/Model.v Common/Ops.vos Common/Vec.vos
C07/Proofs.vo C07/Proofs.glob C07/Proofs.v.beautified C07/Proofs.required_vo: C07/Proofs.v Common/Ops.vo Common/Vec.vo Common/VecLemmas.vo C07/Model.vo
C07/Proofs.vio: C07/Proofs.v Common/Ops.vio Common/Vec.vio Common/VecLemmas.vio C07/Model.vio
C07/Proofs.vos C07/Proofs.vok C07/Proofs.required_vos: C07/Proofs.v Common/Ops.vos Common/Vec.vos Common/VecLemmas.vos C07/Model.vos
C07/Properties.vo C07/Properties.glob C07/Properties.v.beautified C07/Properties.required_vo: C07/Properties.v Common/Ops.vo Common/Vec.vo Common/VecLemmas.vo C07/Model.vo C07/Proofs.vo C07/Hom.vo
C07/Properties.vio: C07/Properties.v Common/Ops.vio Common/Vec.vio Common/VecLemmas.vio C07/Model.vio C07/Proofs.vio C07/Hom.vio
C07/Properties.vos C07/Properties.vok C07/Properties.required_vos: C07/Properties.v Common/Ops.vos Common/Vec.vos Common/VecLemmas.vos C07/Model.vos C07/Proofs.vos C07/Hom.vos
C08/Corr.vo C08/Corr.glob C08/Corr.v.beautified C08/Corr.required_vo: C08/Corr.v Common/Ops.vo Common/Vec.vo Common/Out.vo C07/Model.vo C08/Model.vo
C08/Corr.vio: C08/Corr.v Common/Ops.vio Common/Vec.vio Common/Out.vio C07/Model.vio C08/Model.vio
C08/Corr.vos C08/Corr.vok C08/Corr.required_vos: C08/Corr.v Common/Ops.vos Common/Vec.vos Common/Out.vos C07/Model.vos C08/Model.vos
C08/Examples.vo C08/Examples.glob C08/Examples.v.beautified C08/Examples.required_vo: C08/Examples.v Common/Ops.vo Common/Vec.vo Common/VecLemmas.vo C07/Model.vo C08/Model.vo C08/Proofs.vo
C08/Examples.vio: C08/Examples.v Common/Ops.vio Common/Vec.vio Common/VecLemmas.vio C07/Model.vio C08/Model.vio C08/Proofs.vio
C08/Examples.vos C08/Examples.vok C08/Examples.required_vos: C08/Examples.v Common/Ops.vos Common/Vec.vos Common/VecLemmas.vos C07/Model.vos C08/Model.vos C08/Proofs.vos
C08/Model.vo C08/Model.glob C08/Model.v.beautified C08/Model.required_vo: C08/Model.v Common/Ops.vo Common/Vec.vo C07/Model.vo
C08/Model.vio: C08/Model.v Common/Ops.vio Common/Vec.vio C07/Model.vio
C08/Model.vos C08/Model.vok C08/Model.required_vos: C08/Model.v Common/Ops.vos Common/Vec.vos C07/Model.vos
C08/Proofs.vo C08/Proofs.glob C08/Proofs.v.beautified C08/Proofs.required_vo: C08/Proofs.v Common/Ops.vo Common/Vec.vo Common/VecLemmas.vo C07/Model.vo C08/Model.vo
C08/Proofs.vio: C08/Proofs.v Common/Ops.vio Common/Vec.vio Common/VecLemmas.vio C07/Model.vio C08/Model.vio
C08/Proofs.vos C08/Proofs.vok C08/Proofs.required_vos: C08/Proofs.v Common/Ops.vos Common/Vec.vos Common/VecLemmas.vos C07/Model.vos C08/Model.vos
C08/Properties.vo C08/Properties.glob C08/Properties.v.beautified C08/Properties.required_vo: C08/Properties.v Common/Ops.vo Common/Vec.vo Common/VecLemmas.vo C07/Model.vo C08/Model.vo C08/Proofs.vo
C08/Properties.vio: C08/Properties.v Common/Ops.vio Common/Vec.vio Common/VecLemmas.vio C07/Model.vio C08/Model.vio C08/Proofs.vio
C08/Properties.vos C08/Properties.vok C08/Properties.required_vos: C08/Properties.v Common/Ops.vos Common/Vec.vos Common/VecLemmas.vos C07/Model.vos C08/Model.vos C08/Proofs.vos
C09/Corr.vo C09/Corr.glob C09/Corr.v.beautified C09/Corr.required_vo: C09/Corr.v C09/Model.vo
C09/Corr.vio: C09/Corr.v C09/Model.vio
C09/Corr.vos C09/Corr.vok C09/Corr.required_vos: C09/Corr.v C09/Model.vos
C09/Examples.vo C09/Examples.glob C09/Examples.v.beautified C09/Examples.required_vo: C09/Examples.v C09/Model.vo C09/Proofs.vo C09/ProofsC.vo
C09/Examples.vio: C09/Examples.v C09/Model.vio C09/Proofs.vio C09/ProofsC.vio
C09/Examples.vos C09/Examples.vok C09/Examples.required_vos: C09/Examples.v C09/Model.vos C09/Proofs.vos C09/ProofsC.vos
C09/Model.vo C09/Model.glob C09/Model.v.beautified C09/Model.required_vo: C09/Model.v 
C09/Model.vio: C09/Model.v 
C09/Model.vos C09/Model.vok C09/Model.required_vos: C09/Model.v 
C09/Proofs.vo C09/Proofs.glob C09/Proofs.v.beautified C09/Proofs.required_vo: C09/Proofs.v C09/Model.vo
C09/Proofs.vio: C09/Proofs.v C09/Model.vio
C09/Proofs.vos C09/Proofs.vok C09/Proofs.required_vos: C09/Proofs.v C09/Model.vos
C09/ProofsC.vo C09/ProofsC.glob C09/ProofsC.v.beautified C09/ProofsC.required_vo: C09/ProofsC.v C09/Model.vo
C09/ProofsC.vio: C09/ProofsC.v C09/Model.vio
C09/ProofsC.vos C09/ProofsC.vok C09/ProofsC.required_vos: C09/ProofsC.v C09/Model.vos
C09/Properties.vo C09/Properties.glob C09/Properties.v.beautified C09/Properties.required_vo: C09/Properties.v C09/Model.vo C09/Proofs.vo C09/ProofsC.vo
C09/Properties.vio: C09/Properties.v C09/Model.vio C09/Proofs.vio C09/ProofsC.vio
C09/Properties.vos C09/Properties.vok C09/Properties.required_vos: C09/Properties.v C09/Model.vos C09/Proofs.vos C09/ProofsC.vos
C10/Corr.vo C10/Corr.glob C10/Corr.v.beautified C10/Corr.required_vo: C10/Corr.v Common/Ops.vo Common/Vec.vo Common/Out.vo C10/Model.vo
C10/Corr.vio: C10/Corr.v Common/Ops.vio Common/Vec.vio Common/Out.vio C10/Model.vio
C10/Corr.vos C10/Corr.vok C10/Corr.required_vos: C10/Corr.v Common/Ops.vos Common/Vec.vos Common/Out.vos C10/Model.vos
C10/Examples.vo C10/Examples.glob C10/Examples.v.beautified C10/Examples.required_vo: C10/Examples.v Common/Ops.vo Common/Vec.vo C10/Model.vo C10/Proofs.vo
C10/Examples.vio: C10/Examples.v Common/Ops.vio Common/Vec.vio C10/Model.vio C10/Proofs.vio
C10/Examples.vos C10/Examples.vok C10/Examples.required_vos: C10/Examples.v Common/Ops.vos Common/Vec.vos C10/Model.vos C10/Proofs.vos
C10/Model.vo C10/Model.glob C10/Model.v.beautified C10/Model.required_vo: C10/Model.v Common/Ops.vo Common/Vec.vo
C10/Model.vio: C10/Model.v Common/Ops.vio Common/Vec.vio
C10/Model.vos C10/Model.vok C10/Model.required_vos: C10/Model.v Common/Ops.vos Common/Vec.vos
C10/Proofs.vo C10/Proofs.glob C10/Proofs.v.beautified C10/Proofs.required_vo: C10/Proofs.v Common/Ops.vo Common/Vec.vo Common/VecLemmas.vo C10/Model.vo
C10/Proofs.vio: C10/Proofs.v Common/Ops.vio Common/Vec.vio Common/VecLemmas.vio C10/Model.vio
C10/Proofs.vos C10/Proofs.vok C10/Proofs.required_vos: C10/Proofs.v Common/Ops.vos Common/Vec.vos Common/VecLemmas.vos C10/Model.vos
C10/Properties.vo C10/Properties.glob C10/Properties.v.beautified C10/Properties.required_vo: C10/Properties.v Common/Ops.vo Common/Vec.vo C10/Model.vo C10/Proofs.vo C10/Reorder.vo
C10/Properties.vio: C10/Properties.v Common/Ops.vio Common/Vec.vio C10/Model.vio C10/Proofs.vio C10/Reorder.vio
C10/Properties.vos C10/Properties.vok C10/Properties.required_vos: C10/Properties.v Common/Ops.vos Common/Vec.vos C10/Model.vos C10/Proofs.vos C10/Reorder.vos
C10/Reorder.vo C10/Reorder.glob C10/Reorder.v.beautified C10/Reorder.required_vo: C10/Reorder.v Common/Ops.vo Common/Vec.vo C10/Model.vo
C10/Reorder.vio: C10/Reorder.v Common/Ops.vio Common/Vec.vio C10/Model.vio
C10/Reorder.vos C10/Reorder.vok C10/Reorder.required_vos: C10/Reorder.v Common/Ops.vos Common/Vec.vos C10/Model.vos
C11/Corr.vo C11/Corr.glob C11/Corr.v.beautified C11/Corr.required_vo: C11/Corr.v Common/Ops.vo Common/Vec.vo Common/Out.vo C07/Model.vo C11/Model.vo
C11/Corr.vio: C11/Corr.v Common/Ops.vio Common/Vec.vio Common/Out.vio C07/Model.vio C11/Model.vio
C11/Corr.vos C11/Corr.vok C11/Corr.required_vos: C11/Corr.v Common/Ops.vos Common/Vec.vos Common/Out.vos C07/Model.vos C11/Model.vos
C11/Examples.vo C11/Examples.glob C11/Examples.v.beautified C11/Examples.required_vo: C11/Examples.v Common/Ops.vo Common/Vec.vo C07/Model.vo C11/Model.vo C11/Proofs.vo
C11/Examples.vio: C11/Examples.v Common/Ops.vio Common/Vec.vio C07/Model.vio C11/Model.vio C11/Proofs.vio
C11/Examples.vos C11/Examples.vok C11/Examples.required_vos: C11/Examples.v Common/Ops.vos Common/Vec.vos C07/Model.vos C11/Model.vos C11/Proofs.vos
C11/Model.vo C11/Model.glob C11/Model.v.beautified C11/Model.required_vo: C11/Model.v Common/Ops.vo Common/Vec.vo C07/Model.vo
C11/Model.vio: C11/Model.v Common/Ops.vio Common/Vec.vio C07/Model.vio
C11/Model.vos C11/Model.vok C11/Model.required_vos: C11/Model.v Common/Ops.vos Common/Vec.vos C07/Model.vos
C11/Proofs.vo C11/Proofs.glob C11/Proofs.v.beautified C11/Proofs.required_vo: C11/Proofs.v Common/Ops.vo Common/Vec.vo Common/VecLemmas.vo C07/Model.vo C11/Model.vo
C11/Proofs.vio: C11/Proofs.v Common/Ops.vio Common/Vec.vio Common/VecLemmas.vio C07/Model.vio C11/Model.vio
C11/Proofs.vos C11/Proofs.vok C11/Proofs.required_vos: C11/Proofs.v Common/Ops.vos Common/Vec.vos Common/VecLemmas.vos C07/Model.vos C11/Model.vos
C11/Properties.vo C11/Properties.glob C11/Properties.v.beautified C11/Properties.required_vo: C11/Properties.v Common/Ops.vo Common/Vec.vo C11/Model.vo C11/Proofs.vo
C11/Properties.vio: C11/Properties.v Common/Ops.vio Common/Vec.vio C11/Model.vio C11/Proofs.vio
C11/Properties.vos C11/Properties.vok C11/Properties.required_vos: C11/Properties.v Common/Ops.vos Common/Vec.vos C11/Model.vos C11/Proofs.vos
C12/Corr.vo C12/Corr.glob C12/Corr.v.beautified C12/Corr.required_vo: C12/Corr.v Common/Ops.vo Common/Vec.vo Common/Out.vo C12/Model.vo
C12/Corr.vio: C12/Corr.v Common/Ops.vio Common/Vec.vio Common/Out.vio C12/Model.vio
C12/Corr.vos C12/Corr.vok C12/Corr.required_vos: C12/Corr.v Common/Ops.vos Common/Vec.vos Common/Out.vos C12/Model.vos
C12/Examples.vo C12/Examples.glob C12/Examples.v.beautified C12/Examples.required_vo: C12/Examples.v Common/Ops.vo Common/Vec.vo Common/VecLemmas.vo C12/Model.vo C12/Proofs.vo
C12/Examples.vio: C12/Examples.v Common/Ops.vio Common/Vec.vio Common/VecLemmas.vio C12/Model.vio C12/Proofs.vio
C12/Examples.vos C12/Examples.vok C12/Examples.required_vos: C12/Examples.v Common/Ops.vos Common/Vec.vos Common/VecLemmas.vos C12/Model.vos C12/Proofs.vos
C12/Hom.vo C12/Hom.glob C12/Hom.v.beautified C12/Hom.required_vo: C12/Hom.v Common/Ops.vo Common/Vec.vo C12/Model.vo C12/Proofs.vo
C12/Hom.vio: C12/Hom.v Common/Ops.vio Common/Vec.vio C12/Model.vio C12/Proofs.vio
C12/Hom.vos C12/Hom.vok C12/Hom.required_vos: C12/Hom.v Common/Ops.vos Common/Vec.vos C12/Model.vos C12/Proofs.vos
C12/Model.vo C12/Model.glob C12/Model.v.beautified C12/Model.required_vo: C12/Model.v Common/Ops.vo Common/Vec.vo
C12/Model.vio: C12/Model.v Common/Ops.vio Common/Vec.vio
C12/Model.vos C12/Model.vok C12/Model.required_vos: C12/Model.v Common/Ops.vos Common/Vec.vos
C12/Proofs.vo C12/Proofs.glob C12/Proofs.v.beautified C12/Proofs.required_vo: C12/Proofs.v Common/Ops.vo Common/Vec.vo Common/VecLemmas.vo C12/Model.vo
C12/Proofs.vio: C12/Proofs.v Common/Ops.vio Common/Vec.vio Common/VecLemmas.vio C12/Model.vio
C12/Proofs.vos C12/Proofs.vok C12/Proofs.required_vos: C12/Proofs.v Common/Ops.vos Common/Vec.vos Common/VecLemmas.vos C12/Model.vos
C12/Properties.vo C12/Properties.glob C12/Properties.v.beautified C12/Properties.required_vo: C12/Properties.v Common/Ops.vo Common/Vec.vo Common/VecLemmas.vo C12/Model.vo C12/Proofs.vo C12/Hom.vo
C12/Properties.vio: C12/Properties.v Common/Ops.vio Common/Vec.vio Common/VecLemmas.vio C12/Model.vio C12/Proofs.vio C12/Hom.vio
C12/Properties.vos C12/Properties.vok C12/Properties.required_vos: C12/Properties.v Common/Ops.vos Common/Vec.vos Common/VecLemmas.vos C12/Model.vos C12/Proofs.vos C12/Hom.vos
C13/Bridge.vo C13/Bridge.glob C13/Bridge.v.beautified C13/Bridge.required_vo: C13/Bridge.v Common/Ops.vo Common/Vec.vo C13/Model.vo
C13/Bridge.vio: C13/Bridge.v Common/Ops.vio Common/Vec.vio C13/Model.vio
C13/Bridge.vos C13/Bridge.vok C13/Bridge.required_vos: C13/Bridge.v Common/Ops.vos Common/Vec.vos C13/Model.vos
C13/Corr.vo C13/Corr.glob C13/Corr.v.beautified C13/Corr.required_vo: C13/Corr.v Common/Ops.vo Common/Vec.vo Common/Out.vo C13/Model.vo
C13/Corr.vio: C13/Corr.v Common/Ops.vio Common/Vec.vio Common/Out.vio C13/Model.vio
C13/Corr.vos C13/Corr.vok C13/Corr.required_vos: C13/Corr.v Common/Ops.vos Common/Vec.vos Common/Out.vos C13/Model.vos
C13/Examples.vo C13/Examples.glob C13/Examples.v.beautified C13/Examples.required_vo: C13/Examples.v Common/Ops.vo Common/Vec.vo C13/Model.vo C13/Proofs.vo
C13/Examples.vio: C13/Examples.v Common/Ops.vio Common/Vec.vio C13/Model.vio C13/Proofs.vio
C13/Examples.vos C13/Examples.vok C13/Examples.required_vos: C13/Examples.v Common/Ops.vos Common/Vec.vos C13/Model.vos C13/Proofs.vos
C13/Model.vo C13/Model.glob C13/Model.v.beautified C13/Model.required_vo: C13/Model.v Common/Ops.vo Common/Vec.vo
C13/Model.vio: C13/Model.v Common/Ops.vio Common/Vec.vio
C13/Model.vos C13/Model.vok C13/Model.required_vos: C13/Model.v Common/Ops.vos Common/Vec.vos
C13/Proofs.vo C13/Proofs.glob C13/Proofs.v.beautified C13/Proofs.required_vo: C13/Proofs.v Common/Ops.vo Common/Vec.vo Common/VecLemmas.vo C13/Model.vo
C13/Proofs.vio: C13/Proofs.v Common/Ops.vio Common/Vec.vio Common/VecLemmas.vio C13/Model.vio
C13/Proofs.vos C13/Proofs.vok C13/Proofs.required_vos: C13/Proofs.v Common/Ops.vos Common/Vec.vos Common/VecLemmas.vos C13/Model.vos
C13/Properties.vo C13/Properties.glob C13/Properties.v.beautified C13/Properties.required_vo: C13/Properties.v Common/Ops.vo Common/Vec.vo C13/Model.vo C13/Proofs.vo
C13/Properties.vio: C13/Properties.v Common/Ops.vio Common/Vec.vio C13/Model.vio C13/Proofs.vio
C13/Properties.vos C13/Properties.vok C13/Properties.required_vos: C13/Properties.v Common/Ops.vos Common/Vec.vos C13/Model.vos C13/Proofs.vos
C14/Analysis.vo C14/Analysis.glob C14/Analysis.v.beautified C14/Analysis.required_vo: C14/Analysis.v C14/Model.vo
C14/Analysis.vio: C14/Analysis.v C14/Model.vio
C14/Analysis.vos C14/Analysis.vok C14/Analysis.required_vos: C14/Analysis.v C14/Model.vos
C14/Corr.vo C14/Corr.glob C14/Corr.v.beautified C14/Corr.required_vo: C14/Corr.v Common/Ops.vo Common/Vec.vo Common/Out.vo C14/Model.vo
C14/Corr.vio: C14/Corr.v Common/Ops.vio Common/Vec.vio Common/Out.vio C14/Model.vio
C14/Corr.vos C14/Corr.vok C14/Corr.required_vos: C14/Corr.v Common/Ops.vos Common/Vec.vos Common/Out.vos C14/Model.vos
C14/Enclose.vo C14/Enclose.glob C14/Enclose.v.beautified C14/Enclose.required_vo: C14/Enclose.v C14/Model.vo C14/Analysis.vo
C14/Enclose.vio: C14/Enclose.v C14/Model.vio C14/Analysis.vio
C14/Enclose.vos C14/Enclose.vok C14/Enclose.required_vos: C14/Enclose.v C14/Model.vos C14/Analysis.vos
C14/Examples.vo C14/Examples.glob C14/Examples.v.beautified C14/Examples.required_vo: C14/Examples.v Common/Ops.vo Common/Vec.vo C14/Model.vo C14/Proofs.vo C14/Analysis.vo
C14/Examples.vio: C14/Examples.v Common/Ops.vio Common/Vec.vio C14/Model.vio C14/Proofs.vio C14/Analysis.vio
C14/Examples.vos C14/Examples.vok C14/Examples.required_vos: C14/Examples.v Common/Ops.vos Common/Vec.vos C14/Model.vos C14/Proofs.vos C14/Analysis.vos
C14/Model.vo C14/Model.glob C14/Model.v.beautified C14/Model.required_vo: C14/Model.v Common/Ops.vo Common/Vec.vo
C14/Model.vio: C14/Model.v Common/Ops.vio Common/Vec.vio
C14/Model.vos C14/Model.vok C14/Model.required_vos: C14/Model.v Common/Ops.vos Common/Vec.vos
C14/Proofs.vo C14/Proofs.glob C14/Proofs.v.beautified C14/Proofs.required_vo: C14/Proofs.v Common/Ops.vo Common/Vec.vo C14/Model.vo
C14/Proofs.vio: C14/Proofs.v Common/Ops.vio Common/Vec.vio C14/Model.vio
C14/Proofs.vos C14/Proofs.vok C14/Proofs.required_vos: C14/Proofs.v Common/Ops.vos Common/Vec.vos C14/Model.vos
C14/Properties.vo C14/Properties.glob C14/Properties.v.beautified C14/Properties.required_vo: C14/Properties.v Common/Ops.vo Common/Vec.vo C14/Model.vo C14/Proofs.vo
C14/Properties.vio: C14/Properties.v Common/Ops.vio Common/Vec.vio C14/Model.vio C14/Proofs.vio
C14/Properties.vos C14/Properties.vok C14/Properties.required_vos: C14/Properties.v Common/Ops.vos Common/Vec.vos C14/Model.vos C14/Proofs.vos
C14/PropertiesAnalysis.vo C14/PropertiesAnalysis.glob C14/PropertiesAnalysis.v.beautified C14/PropertiesAnalysis.required_vo: C14/PropertiesAnalysis.v Common/Ops.vo C14/Model.vo C14/Proofs.vo C14/Analysis.vo
C14/PropertiesAnalysis.vio: C14/PropertiesAnalysis.v Common/Ops.vio C14/Model.vio C14/Proofs.vio C14/Analysis.vio
C14/PropertiesAnalysis.vos C14/PropertiesAnalysis.vok C14/PropertiesAnalysis.required_vos: C14/PropertiesAnalysis.v Common/Ops.vos C14/Model.vos C14/Proofs.vos C14/Analysis.vos
C15/Analysis.vo C15/Analysis.glob C15/Analysis.v.beautified C15/Analysis.required_vo: C15/Analysis.v C15/Model.vo C15/Proofs.vo
C15/Analysis.vio: C15/Analysis.v C15/Model.vio C15/Proofs.vio
C15/Analysis.vos C15/Analysis.vok C15/Analysis.required_vos: C15/Analysis.v C15/Model.vos C15/Proofs.vos
C15/Bisection.vo C15/Bisection.glob C15/Bisection.v.beautified C15/Bisection.required_vo: C15/Bisection.v Common/Ops.vo Common/Vec.vo C15/Model.vo
C15/Bisection.vio: C15/Bisection.v Common/Ops.vio Common/Vec.vio C15/Model.vio
C15/Bisection.vos C15/Bisection.vok C15/Bisection.required_vos: C15/Bisection.v Common/Ops.vos Common/Vec.vos C15/Model.vos
C15/Capacitance.vo C15/Capacitance.glob C15/Capacitance.v.beautified C15/Capacitance.required_vo: C15/Capacitance.v C15/Model.vo C15/Proofs.vo C15/Analysis.vo C15/Geometry.vo
C15/Capacitance.vio: C15/Capacitance.v C15/Model.vio C15/Proofs.vio C15/Analysis.vio C15/Geometry.vio
C15/Capacitance.vos C15/Capacitance.vok C15/Capacitance.required_vos: C15/Capacitance.v C15/Model.vos C15/Proofs.vos C15/Analysis.vos C15/Geometry.vos
C15/Corr.vo C15/Corr.glob C15/Corr.v.beautified C15/Corr.required_vo: C15/Corr.v Common/Ops.vo Common/Vec.vo C15/Model.vo
C15/Corr.vio: C15/Corr.v Common/Ops.vio Common/Vec.vio C15/Model.vio
C15/Corr.vos C15/Corr.vok C15/Corr.required_vos: C15/Corr.v Common/Ops.vos Common/Vec.vos C15/Model.vos
C15/Enclose.vo C15/Enclose.glob C15/Enclose.v.beautified C15/Enclose.required_vo: C15/Enclose.v C15/Model.vo
C15/Enclose.vio: C15/Enclose.v C15/Model.vio
C15/Enclose.vos C15/Enclose.vok C15/Enclose.required_vos: C15/Enclose.v C15/Model.vos
C15/Examples.vo C15/Examples.glob C15/Examples.v.beautified C15/Examples.required_vo: C15/Examples.v Common/Ops.vo Common/Vec.vo C15/Model.vo C15/Proofs.vo C15/Bisection.vo C15/Analysis.vo
C15/Examples.vio: C15/Examples.v Common/Ops.vio Common/Vec.vio C15/Model.vio C15/Proofs.vio C15/Bisection.vio C15/Analysis.vio
C15/Examples.vos C15/Examples.vok C15/Examples.required_vos: C15/Examples.v Common/Ops.vos Common/Vec.vos C15/Model.vos C15/Proofs.vos C15/Bisection.vos C15/Analysis.vos
C15/Geometry.vo C15/Geometry.glob C15/Geometry.v.beautified C15/Geometry.required_vo: C15/Geometry.v C15/Model.vo C15/Proofs.vo C15/Analysis.vo
C15/Geometry.vio: C15/Geometry.v C15/Model.vio C15/Proofs.vio C15/Analysis.vio
C15/Geometry.vos C15/Geometry.vok C15/Geometry.required_vos: C15/Geometry.v C15/Model.vos C15/Proofs.vos C15/Analysis.vos
C15/Model.vo C15/Model.glob C15/Model.v.beautified C15/Model.required_vo: C15/Model.v Common/Ops.vo Common/Vec.vo
C15/Model.vio: C15/Model.v Common/Ops.vio Common/Vec.vio
C15/Model.vos C15/Model.vok C15/Model.required_vos: C15/Model.v Common/Ops.vos Common/Vec.vos
C15/Proofs.vo C15/Proofs.glob C15/Proofs.v.beautified C15/Proofs.required_vo: C15/Proofs.v Common/Ops.vo Common/Vec.vo C15/Model.vo
C15/Proofs.vio: C15/Proofs.v Common/Ops.vio Common/Vec.vio C15/Model.vio
C15/Proofs.vos C15/Proofs.vok C15/Proofs.required_vos: C15/Proofs.v Common/Ops.vos Common/Vec.vos C15/Model.vos
C15/Properties.vo C15/Properties.glob C15/Properties.v.beautified C15/Properties.required_vo: C15/Properties.v Common/Ops.vo Common/Vec.vo C15/Model.vo C15/Proofs.vo C15/Bisection.vo C15/Analysis.vo C15/Geometry.vo C15/Capacitance.vo
C15/Properties.vio: C15/Properties.v Common/Ops.vio Common/Vec.vio C15/Model.vio C15/Proofs.vio C15/Bisection.vio C15/Analysis.vio C15/Geometry.vio C15/Capacitance.vio
C15/Properties.vos C15/Properties.vok C15/Properties.required_vos: C15/Properties.v Common/Ops.vos Common/Vec.vos C15/Model.vos C15/Proofs.vos C15/Bisection.vos C15/Analysis.vos C15/Geometry.vos C15/Capacitance.vos
C16/Bohm2.vo C16/Bohm2.glob C16/Bohm2.v.beautified C16/Bohm2.required_vo: C16/Bohm2.v Common/Ops.vo Common/Vec.vo C16/Model.vo C16/Proofs.vo
C16/Bohm2.vio: C16/Bohm2.v Common/Ops.vio Common/Vec.vio C16/Model.vio C16/Proofs.vio
C16/Bohm2.vos C16/Bohm2.vok C16/Bohm2.required_vos: C16/Bohm2.v Common/Ops.vos Common/Vec.vos C16/Model.vos C16/Proofs.vos
C16/Corr.vo C16/Corr.glob C16/Corr.v.beautified C16/Corr.required_vo: C16/Corr.v Common/Ops.vo Common/Vec.vo C16/Model.vo
C16/Corr.vio: C16/Corr.v Common/Ops.vio Common/Vec.vio C16/Model.vio
C16/Corr.vos C16/Corr.vok C16/Corr.required_vos: C16/Corr.v Common/Ops.vos Common/Vec.vos C16/Model.vos
C16/Examples.vo C16/Examples.glob C16/Examples.v.beautified C16/Examples.required_vo: C16/Examples.v Common/Ops.vo Common/Vec.vo C16/Model.vo C16/Proofs.vo C16/Isotropic.vo
C16/Examples.vio: C16/Examples.v Common/Ops.vio Common/Vec.vio C16/Model.vio C16/Proofs.vio C16/Isotropic.vio
C16/Examples.vos C16/Examples.vok C16/Examples.required_vos: C16/Examples.v Common/Ops.vos Common/Vec.vos C16/Model.vos C16/Proofs.vos C16/Isotropic.vos
C16/Isotropic.vo C16/Isotropic.glob C16/Isotropic.v.beautified C16/Isotropic.required_vo: C16/Isotropic.v Common/Ops.vo Common/Vec.vo C16/Model.vo C16/Proofs.vo
C16/Isotropic.vio: C16/Isotropic.v Common/Ops.vio Common/Vec.vio C16/Model.vio C16/Proofs.vio
C16/Isotropic.vos C16/Isotropic.vok C16/Isotropic.required_vos: C16/Isotropic.v Common/Ops.vos Common/Vec.vos C16/Model.vos C16/Proofs.vos
C16/Model.vo C16/Model.glob C16/Model.v.beautified C16/Model.required_vo: C16/Model.v Common/Ops.vo Common/Vec.vo
C16/Model.vio: C16/Model.v Common/Ops.vio Common/Vec.vio
C16/Model.vos C16/Model.vok C16/Model.required_vos: C16/Model.v Common/Ops.vos Common/Vec.vos
C16/Proofs.vo C16/Proofs.glob C16/Proofs.v.beautified C16/Proofs.required_vo: C16/Proofs.v Common/Ops.vo Common/Vec.vo C16/Model.vo
C16/Proofs.vio: C16/Proofs.v Common/Ops.vio Common/Vec.vio C16/Model.vio
C16/Proofs.vos C16/Proofs.vok C16/Proofs.required_vos: C16/Proofs.v Common/Ops.vos Common/Vec.vos C16/Model.vos
C16/Properties.vo C16/Properties.glob C16/Properties.v.beautified C16/Properties.required_vo: C16/Properties.v Common/Ops.vo Common/Vec.vo C16/Model.vo C16/Proofs.vo
C16/Properties.vio: C16/Properties.v Common/Ops.vio Common/Vec.vio C16/Model.vio C16/Proofs.vio
C16/Properties.vos C16/Properties.vok C16/Properties.required_vos: C16/Properties.v Common/Ops.vos Common/Vec.vos C16/Model.vos C16/Proofs.vos
C16/PropertiesExt.vo C16/PropertiesExt.glob C16/PropertiesExt.v.beautified C16/PropertiesExt.required_vo: C16/PropertiesExt.v Common/Ops.vo Common/Vec.vo C16/Model.vo C16/Proofs.vo C16/Isotropic.vo C16/Bohm2.vo
C16/PropertiesExt.vio: C16/PropertiesExt.v Common/Ops.vio Common/Vec.vio C16/Model.vio C16/Proofs.vio C16/Isotropic.vio C16/Bohm2.vio
C16/PropertiesExt.vos C16/PropertiesExt.vok C16/PropertiesExt.required_vos: C16/PropertiesExt.v Common/Ops.vos Common/Vec.vos C16/Model.vos C16/Proofs.vos C16/Isotropic.vos C16/Bohm2.vos
C17/Corr.vo C17/Corr.glob C17/Corr.v.beautified C17/Corr.required_vo: C17/Corr.v Common/Ops.vo Common/Vec.vo Common/Out.vo C17/Model.vo
C17/Corr.vio: C17/Corr.v Common/Ops.vio Common/Vec.vio Common/Out.vio C17/Model.vio
C17/Corr.vos C17/Corr.vok C17/Corr.required_vos: C17/Corr.v Common/Ops.vos Common/Vec.vos Common/Out.vos C17/Model.vos
C17/Examples.vo C17/Examples.glob C17/Examples.v.beautified C17/Examples.required_vo: C17/Examples.v Common/Ops.vo Common/Vec.vo Common/VecLemmas.vo C17/Model.vo C17/Proofs.vo C17/Hom.vo
C17/Examples.vio: C17/Examples.v Common/Ops.vio Common/Vec.vio Common/VecLemmas.vio C17/Model.vio C17/Proofs.vio C17/Hom.vio
C17/Examples.vos C17/Examples.vok C17/Examples.required_vos: C17/Examples.v Common/Ops.vos Common/Vec.vos Common/VecLemmas.vos C17/Model.vos C17/Proofs.vos C17/Hom.vos
C17/Hom.vo C17/Hom.glob C17/Hom.v.beautified C17/Hom.required_vo: C17/Hom.v Common/Ops.vo Common/Vec.vo Common/VecLemmas.vo C17/Model.vo C17/Proofs.vo
C17/Hom.vio: C17/Hom.v Common/Ops.vio Common/Vec.vio Common/VecLemmas.vio C17/Model.vio C17/Proofs.vio
C17/Hom.vos C17/Hom.vok C17/Hom.required_vos: C17/Hom.v Common/Ops.vos Common/Vec.vos Common/VecLemmas.vos C17/Model.vos C17/Proofs.vos
C17/Model.vo C17/Model.glob C17/Model.v.beautified C17/Model.required_vo: C17/Model.v Common/Ops.vo Common/Vec.vo
C17/Model.vio: C17/Model.v Common/Ops.vio Common/Vec.vio
C17/Model.vos C17/Model.vok C17/Model.required_vos: C17/Model.v Common/Ops.vos Common/Vec.vos
C17/Proofs.vo C17/Proofs.glob C17/Proofs.v.beautified C17/Proofs.required_vo: C17/Proofs.v Common/Ops.vo Common/Vec.vo Common/VecLemmas.vo C17/Model.vo
C17/Proofs.vio: C17/Proofs.v Common/Ops.vio Common/Vec.vio Common/VecLemmas.vio C17/Model.vio
C17/Proofs.vos C17/Proofs.vok C17/Proofs.required_vos: C17/Proofs.v Common/Ops.vos Common/Vec.vos Common/VecLemmas.vos C17/Model.vos
C17/Properties.vo C17/Properties.glob C17/Properties.v.beautified C17/Properties.required_vo: C17/Properties.v Common/Ops.vo Common/Vec.vo Common/VecLemmas.vo C17/Model.vo C17/Proofs.vo C17/Hom.vo
C17/Properties.vio: C17/Properties.v Common/Ops.vio Common/Vec.vio Common/VecLemmas.vio C17/Model.vio C17/Proofs.vio C17/Hom.vio
C17/Properties.vos C17/Properties.vok C17/Properties.required_vos: C17/Properties.v Common/Ops.vos Common/Vec.vos Common/VecLemmas.vos C17/Model.vos C17/Proofs.vos C17/Hom.vos
C18/Corr.vo C18/Corr.glob C18/Corr.v.beautified C18/Corr.required_vo: C18/Corr.v Common/Ops.vo Common/Vec.vo Common/VecLemmas.vo C07/Model.vo C18/Model.vo C18/Proofs.vo Common/Out.vo C07/Corr.vo C05/Model.vo C05/Corr.vo
C18/Corr.vio: C18/Corr.v Common/Ops.vio Common/Vec.vio Common/VecLemmas.vio C07/Model.vio C18/Model.vio C18/Proofs.vio Common/Out.vio C07/Corr.vio C05/Model.vio C05/Corr.vio
C18/Corr.vos C18/Corr.vok C18/Corr.required_vos: C18/Corr.v Common/Ops.vos Common/Vec.vos Common/VecLemmas.vos C07/Model.vos C18/Model.vos C18/Proofs.vos Common/Out.vos C07/Corr.vos C05/Model.vos C05/Corr.vos
C18/Examples.vo C18/Examples.glob C18/Examples.v.beautified C18/Examples.required_vo: C18/Examples.v Common/Ops.vo Common/Vec.vo Common/VecLemmas.vo C07/Model.vo C07/Proofs.vo C05/Model.vo C18/Model.vo C18/Proofs.vo
C18/Examples.vio: C18/Examples.v Common/Ops.vio Common/Vec.vio Common/VecLemmas.vio C07/Model.vio C07/Proofs.vio C05/Model.vio C18/Model.vio C18/Proofs.vio
C18/Examples.vos C18/Examples.vok C18/Examples.required_vos: C18/Examples.v Common/Ops.vos Common/Vec.vos Common/VecLemmas.vos C07/Model.vos C07/Proofs.vos C05/Model.vos C18/Model.vos C18/Proofs.vos
C18/Hom.vo C18/Hom.glob C18/Hom.v.beautified C18/Hom.required_vo: C18/Hom.v Common/Ops.vo Common/Vec.vo C07/Model.vo C18/Model.vo
C18/Hom.vio: C18/Hom.v Common/Ops.vio Common/Vec.vio C07/Model.vio C18/Model.vio
C18/Hom.vos C18/Hom.vok C18/Hom.required_vos: C18/Hom.v Common/Ops.vos Common/Vec.vos C07/Model.vos C18/Model.vos
C18/Model.vo C18/Model.glob C18/Model.v.beautified C18/Model.required_vo: C18/Model.v Common/Ops.vo Common/Vec.vo Common/VecLemmas.vo C07/Model.vo C05/Model.vo
C18/Model.vio: C18/Model.v Common/Ops.vio Common/Vec.vio Common/VecLemmas.vio C07/Model.vio C05/Model.vio
C18/Model.vos C18/Model.vok C18/Model.required_vos: C18/Model.v Common/Ops.vos Common/Vec.vos Common/VecLemmas.vos C07/Model.vos C05/Model.vos
C18/Proofs.vo C18/Proofs.glob C18/Proofs.v.beautified C18/Proofs.required_vo: C18/Proofs.v Common/Ops.vo Common/Vec.vo Common/VecLemmas.vo C07/Model.vo C07/Proofs.vo C05/Model.vo C05/Proofs.vo C18/Model.vo
C18/Proofs.vio: C18/Proofs.v Common/Ops.vio Common/Vec.vio Common/VecLemmas.vio C07/Model.vio C07/Proofs.vio C05/Model.vio C05/Proofs.vio C18/Model.vio
C18/Proofs.vos C18/Proofs.vok C18/Proofs.required_vos: C18/Proofs.v Common/Ops.vos Common/Vec.vos Common/VecLemmas.vos C07/Model.vos C07/Proofs.vos C05/Model.vos C05/Proofs.vos C18/Model.vos
C18/Properties.vo C18/Properties.glob C18/Properties.v.beautified C18/Properties.required_vo: C18/Properties.v Common/Ops.vo Common/Vec.vo Common/VecLemmas.vo C07/Model.vo C07/Proofs.vo C05/Model.vo C18/Model.vo C18/Proofs.vo C18/Hom.vo
C18/Properties.vio: C18/Properties.v Common/Ops.vio Common/Vec.vio Common/VecLemmas.vio C07/Model.vio C07/Proofs.vio C05/Model.vio C18/Model.vio C18/Proofs.vio C18/Hom.vio
C18/Properties.vos C18/Properties.vok C18/Properties.required_vos: C18/Properties.v Common/Ops.vos Common/Vec.vos Common/VecLemmas.vos C07/Model.vos C07/Proofs.vos C05/Model.vos C18/Model.vos C18/Proofs.vos C18/Hom.vos
C19/Bridge.vo C19/Bridge.glob C19/Bridge.v.beautified C19/Bridge.required_vo: C19/Bridge.v Common/Ops.vo Common/Vec.vo C19/Model.vo
C19/Bridge.vio: C19/Bridge.v Common/Ops.vio Common/Vec.vio C19/Model.vio
C19/Bridge.vos C19/Bridge.vok C19/Bridge.required_vos: C19/Bridge.v Common/Ops.vos Common/Vec.vos C19/Model.vos
C19/Corr.vo C19/Corr.glob C19/Corr.v.beautified C19/Corr.required_vo: C19/Corr.v Common/Ops.vo Common/Vec.vo Common/Out.vo C19/Model.vo
C19/Corr.vio: C19/Corr.v Common/Ops.vio Common/Vec.vio Common/Out.vio C19/Model.vio
C19/Corr.vos C19/Corr.vok C19/Corr.required_vos: C19/Corr.v Common/Ops.vos Common/Vec.vos Common/Out.vos C19/Model.vos
C19/Examples.vo C19/Examples.glob C19/Examples.v.beautified C19/Examples.required_vo: C19/Examples.v Common/Ops.vo Common/Vec.vo C19/Model.vo C19/Proofs.vo C19/Corr.vo
C19/Examples.vio: C19/Examples.v Common/Ops.vio Common/Vec.vio C19/Model.vio C19/Proofs.vio C19/Corr.vio
C19/Examples.vos C19/Examples.vok C19/Examples.required_vos: C19/Examples.v Common/Ops.vos Common/Vec.vos C19/Model.vos C19/Proofs.vos C19/Corr.vos
C19/Model.vo C19/Model.glob C19/Model.v.beautified C19/Model.required_vo: C19/Model.v Common/Ops.vo Common/Vec.vo
C19/Model.vio: C19/Model.v Common/Ops.vio Common/Vec.vio
C19/Model.vos C19/Model.vok C19/Model.required_vos: C19/Model.v Common/Ops.vos Common/Vec.vos
C19/Proofs.vo C19/Proofs.glob C19/Proofs.v.beautified C19/Proofs.required_vo: C19/Proofs.v Common/Ops.vo Common/Vec.vo C19/Model.vo
C19/Proofs.vio: C19/Proofs.v Common/Ops.vio Common/Vec.vio C19/Model.vio
C19/Proofs.vos C19/Proofs.vok C19/Proofs.required_vos: C19/Proofs.v Common/Ops.vos Common/Vec.vos C19/Model.vos
C19/Properties.vo C19/Properties.glob C19/Properties.v.beautified C19/Properties.required_vo: C19/Properties.v Common/Ops.vo Common/Vec.vo C19/Model.vo C19/Proofs.vo C19/Bridge.vo
C19/Properties.vio: C19/Properties.v Common/Ops.vio Common/Vec.vio C19/Model.vio C19/Proofs.vio C19/Bridge.vio
C19/Properties.vos C19/Properties.vok C19/Properties.required_vos: C19/Properties.v Common/Ops.vos Common/Vec.vos C19/Model.vos C19/Proofs.vos C19/Bridge.vos
C20/Corr.vo C20/Corr.glob C20/Corr.v.beautified C20/Corr.required_vo: C20/Corr.v C20/Model.vo
C20/Corr.vio: C20/Corr.v C20/Model.vio
C20/Corr.vos C20/Corr.vok C20/Corr.required_vos: C20/Corr.v C20/Model.vos
C20/Examples.vo C20/Examples.glob C20/Examples.v.beautified C20/Examples.required_vo: C20/Examples.v C20/Model.vo C20/Proofs.vo C20/Properties.vo
C20/Examples.vio: C20/Examples.v C20/Model.vio C20/Proofs.vio C20/Properties.vio
C20/Examples.vos C20/Examples.vok C20/Examples.required_vos: C20/Examples.v C20/Model.vos C20/Proofs.vos C20/Properties.vos
C20/Model.vo C20/Model.glob C20/Model.v.beautified C20/Model.required_vo: C20/Model.v 
C20/Model.vio: C20/Model.v 
C20/Model.vos C20/Model.vok C20/Model.required_vos: C20/Model.v 
C20/Proofs.vo C20/Proofs.glob C20/Proofs.v.beautified C20/Proofs.required_vo: C20/Proofs.v C20/Model.vo
C20/Proofs.vio: C20/Proofs.v C20/Model.vio
C20/Proofs.vos C20/Proofs.vok C20/Proofs.required_vos: C20/Proofs.v C20/Model.vos
C20/Properties.vo C20/Properties.glob C20/Properties.v.beautified C20/Properties.required_vo: C20/Properties.v C20/Model.vo C20/Proofs.vo
C20/Properties.vio: C20/Properties.v C20/Model.vio C20/Proofs.vio
C20/Properties.vos C20/Properties.vok C20/Properties.required_vos: C20/Properties.v C20/Model.vos C20/Proofs.vos
Common/Ops.vo Common/Ops.glob Common/Ops.v.beautified Common/Ops.required_vo: Common/Ops.v 
Common/Ops.vio: Common/Ops.v 
Common/Ops.vos Common/Ops.vok Common/Ops.required_vos: Common/Ops.v 
Common/Out.vo Common/Out.glob Common/Out.v.beautified Common/Out.required_vo: Common/Out.v 
Common/Out.vio: Common/Out.v 
Common/Out.vos Common/Out.vok Common/Out.required_vos: Common/Out.v 
Common/Vec.vo Common/Vec.glob Common/Vec.v.beautified Common/Vec.required_vo: Common/Vec.v Common/Ops.vo
Common/Vec.vio: Common/Vec.v Common/Ops.vio
Common/Vec.vos Common/Vec.vok Common/Vec.required_vos: Common/Vec.v Common/Ops.vos
Common/VecLemmas.vo Common/VecLemmas.glob Common/VecLemmas.v.beautified Common/VecLemmas.required_vo: Common/VecLemmas.v Common/Ops.vo Common/Vec.vo
Common/VecLemmas.vio: Common/VecLemmas.v Common/Ops.vio Common/Vec.vio
Common/VecLemmas.vos Common/VecLemmas.vok Common/VecLemmas.required_vos: Common/VecLemmas.v Common/Ops.vos Common/Vec.vos
