C01/Corr.vo C01/Corr.glob C01/Corr.v.beautified C01/Corr.required_vo: C01/Corr.v Common/Ops.vo Common/Vec.vo Common/Out.vo C07/Model.vo C01/Model.vo
C01/Corr.vio: C01/Corr.v Common/Ops.vio Common/Vec.vio Common/Out.vio C07/Model.vio C01/Model.vio
C01/Corr.vos C01/Corr.vok C01/Corr.required_vos: C01/Corr.v Common/Ops.vos Common/Vec.vos Common/Out.vos C07/Model.vos C01/Model.vos
C01/Examples.vo C01/Examples.glob C01/Examples.v.beautified C01/Examples.required_vo: C01/Examples.v Common/Ops.vo Common/Vec.vo C07/Model.vo C01/Model.vo
C01/Examples.vio: C01/Examples.v Common/Ops.vio Common/Vec.vio C07/Model.vio C01/Model.vio
C01/Examples.vos C01/Examples.vok C01/Examples.required_vos: C01/Examples.v Common/Ops.vos Common/Vec.vos C07/Model.vos C01/Model.vos
C01/Model.vo C01/Model.glob C01/Model.v.beautified C01/Model.required_vo: C01/Model.v Common/Ops.vo Common/Vec.vo C07/Model.vo
C01/Model.vio: C01/Model.v Common/Ops.vio Common/Vec.vio C07/Model.vio
C01/Model.vos C01/Model.vok C01/Model.required_vos: C01/Model.v Common/Ops.vos Common/Vec.vos C07/Model.vos
C01/Proofs.vo C01/Proofs.glob C01/Proofs.v.beautified C01/Proofs.required_vo: C01/Proofs.v Common/Ops.vo Common/Vec.vo Common/VecLemmas.vo C07/Model.vo C01/Model.vo
C01/Proofs.vio: C01/Proofs.v Common/Ops.vio Common/Vec.vio Common/VecLemmas.vio C07/Model.vio C01/Model.vio
C01/Proofs.vos C01/Proofs.vok C01/Proofs.required_vos: C01/Proofs.v Common/Ops.vos Common/Vec.vos Common/VecLemmas.vos C07/Model.vos C01/Model.vos
C01/Properties.vo C01/Properties.glob C01/Properties.v.beautified C01/Properties.required_vo: C01/Properties.v Common/Ops.vo Common/Vec.vo Common/VecLemmas.vo C07/Model.vo C01/Model.vo C01/Proofs.vo
C01/Properties.vio: C01/Properties.v Common/Ops.vio Common/Vec.vio Common/VecLemmas.vio C07/Model.vio C01/Model.vio C01/Proofs.vio
C01/Properties.vos C01/Properties.vok C01/Properties.required_vos: C01/Properties.v Common/Ops.vos Common/Vec.vos Common/VecLemmas.vos C07/Model.vos C01/Model.vos C01/Proofs.vos
C02/Corr.vo C02/Corr.glob C02/Corr.v.beautified C02/Corr.required_vo: C02/Corr.v Common/Ops.vo Common/Vec.vo Common/Out.vo C07/Model.vo C07/Corr.vo C02/Model.vo
C02/Corr.vio: C02/Corr.v Common/Ops.vio Common/Vec.vio Common/Out.vio C07/Model.vio C07/Corr.vio C02/Model.vio
C02/Corr.vos C02/Corr.vok C02/Corr.required_vos: C02/Corr.v Common/Ops.vos Common/Vec.vos Common/Out.vos C07/Model.vos C07/Corr.vos C02/Model.vos
C02/Examples.vo C02/Examples.glob C02/Examples.v.beautified C02/Examples.required_vo: C02/Examples.v Common/Ops.vo Common/Vec.vo C07/Model.vo C01/Model.vo C02/Model.vo
C02/Examples.vio: C02/Examples.v Common/Ops.vio Common/Vec.vio C07/Model.vio C01/Model.vio C02/Model.vio
C02/Examples.vos C02/Examples.vok C02/Examples.required_vos: C02/Examples.v Common/Ops.vos Common/Vec.vos C07/Model.vos C01/Model.vos C02/Model.vos
C02/Model.vo C02/Model.glob C02/Model.v.beautified C02/Model.required_vo: C02/Model.v Common/Ops.vo Common/Vec.vo C07/Model.vo C01/Model.vo
C02/Model.vio: C02/Model.v Common/Ops.vio Common/Vec.vio C07/Model.vio C01/Model.vio
C02/Model.vos C02/Model.vok C02/Model.required_vos: C02/Model.v Common/Ops.vos Common/Vec.vos C07/Model.vos C01/Model.vos
C02/Proofs.vo C02/Proofs.glob C02/Proofs.v.beautified C02/Proofs.required_vo: C02/Proofs.v Common/Ops.vo Common/Vec.vo Common/VecLemmas.vo C07/Model.vo C07/Proofs.vo C01/Model.vo C01/Proofs.vo C02/Model.vo
C02/Proofs.vio: C02/Proofs.v Common/Ops.vio Common/Vec.vio Common/VecLemmas.vio C07/Model.vio C07/Proofs.vio C01/Model.vio C01/Proofs.vio C02/Model.vio
C02/Proofs.vos C02/Proofs.vok C02/Proofs.required_vos: C02/Proofs.v Common/Ops.vos Common/Vec.vos Common/VecLemmas.vos C07/Model.vos C07/Proofs.vos C01/Model.vos C01/Proofs.vos C02/Model.vos
C02/Properties.vo C02/Properties.glob C02/Properties.v.beautified C02/Properties.required_vo: C02/Properties.v Common/Ops.vo Common/Vec.vo Common/VecLemmas.vo C07/Model.vo C07/Proofs.vo C01/Model.vo C01/Proofs.vo C02/Model.vo C02/Proofs.vo
C02/Properties.vio: C02/Properties.v Common/Ops.vio Common/Vec.vio Common/VecLemmas.vio C07/Model.vio C07/Proofs.vio C01/Model.vio C01/Proofs.vio C02/Model.vio C02/Proofs.vio
C02/Properties.vos C02/Properties.vok C02/Properties.required_vos: C02/Properties.v Common/Ops.vos Common/Vec.vos Common/VecLemmas.vos C07/Model.vos C07/Proofs.vos C01/Model.vos C01/Proofs.vos C02/Model.vos C02/Proofs.vos
C07/Corr.vo C07/Corr.glob C07/Corr.v.beautified C07/Corr.required_vo: C07/Corr.v Common/Ops.vo Common/Vec.vo Common/Out.vo C07/Model.vo
C07/Corr.vio: C07/Corr.v Common/Ops.vio Common/Vec.vio Common/Out.vio C07/Model.vio
C07/Corr.vos C07/Corr.vok C07/Corr.required_vos: C07/Corr.v Common/Ops.vos Common/Vec.vos Common/Out.vos C07/Model.vos
C07/Examples.vo C07/Examples.glob C07/Examples.v.beautified C07/Examples.required_vo: C07/Examples.v Common/Ops.vo Common/Vec.vo Common/VecLemmas.vo C07/Model.vo C07/Proofs.vo
C07/Examples.vio: C07/Examples.v Common/Ops.vio Common/Vec.vio Common/VecLemmas.vio C07/Model.vio C07/Proofs.vio
C07/Examples.vos C07/Examples.vok C07/Examples.required_vos: C07/Examples.v Common/Ops.vos Common/Vec.vos Common/VecLemmas.vos C07/Model.vos C07/Proofs.vos
C07/Model.vo C07/Model.glob C07/Model.v.beautified C07/Model.required_vo: C07/Model.v Common/Ops.vo Common/Vec.vo
C07/Model.vio: C07/Model.v Common/Ops.vio Common/Vec.vio
C07/Model.vos C07/Model.vok C07/Model.required_vos: C07/Model.v Common/Ops.vos Common/Vec.vos
C07/Proofs.vo C07/Proofs.glob C07/Proofs.v.beautified C07/Proofs.required_vo: C07/Proofs.v Common/Ops.vo Common/Vec.vo Common/VecLemmas.vo C07/Model.vo
C07/Proofs.vio: C07/Proofs.v Common/Ops.vio Common/Vec.vio Common/VecLemmas.vio C07/Model.vio
C07/Proofs.vos C07/Proofs.vok C07/Proofs.required_vos: C07/Proofs.v Common/Ops.vos Common/Vec.vos Common/VecLemmas.vos C07/Model.vos
C07/Properties.vo C07/Properties.glob C07/Properties.v.beautified C07/Properties.required_vo: C07/Properties.v Common/Ops.vo Common/Vec.vo Common/VecLemmas.vo C07/Model.vo C07/Proofs.vo
C07/Properties.vio: C07/Properties.v Common/Ops.vio Common/Vec.vio Common/VecLemmas.vio C07/Model.vio C07/Proofs.vio
C07/Properties.vos C07/Properties.vok C07/Properties.required_vos: C07/Properties.v Common/Ops.vos Common/Vec.vos Common/VecLemmas.vos C07/Model.vos C07/Proofs.vos
Common/Ops.vo Common/Ops.glob Common/Ops.v.beautified Common/Ops.required_vo: Common/Ops.v 
Common/Ops.vio: Common/Ops.v 
Common/Ops.vos Common/Ops.vok Common/Ops.required_vos: Common/Ops.v 
Common/Out.vo Common/Out.glob Common/Out.v.beautified Common/Out.required_vo: Common/Out.v 
Common/Out.vio: Common/Out.v 
Common/Out.vos Common/Out.vok Common/Out.required_vos: Common/Out.v 
Common/Vec.vo Common/Vec.glob Common/Vec.v.beautified Common/Vec.required_vo: Common/Vec.v Common/Ops.vo
Common/Vec.vio: Common/Vec.v Common/Ops.vio
Common/Vec.vos Common/Vec.vok Common/Vec.required_vos: Common/Vec.v Common/Ops.vos
Common/VecLemmas.vo Common/VecLemmas.glob Common/VecLemmas.v.beautified Common/VecLemmas.required_vo: Common/VecLemmas.v Common/Ops.vo Common/Vec.vo
Common/VecLemmas.vio: Common/VecLemmas.v Common/Ops.vio Common/Vec.vio
Common/VecLemmas.vos Common/VecLemmas.vok Common/VecLemmas.required_vos: Common/VecLemmas.v Common/Ops.vos Common/Vec.vos
