(* C20 - harness-side driver (no theorem depends on it): executes the save / load model of Model.v on
   the writer / reader lists generated from the current sources, with array contents abstracted to
   integer identifiers (equal contents <-> equal identifier, assigned by the harness), and compares the
   loaded object state it predicts with the state of the object kawin has just loaded. *)
From Coq Require Import String List Bool ZArith.
Require Import Kawin.C20.Model.
Import ListNotations.
Open Scope string_scope.

Definition zstate (l : list (field * val Z)) : state Z :=
  fun f => match find (fun p => field_eqb (fst p) f) l with Some p => snd p | None => VNone end.

Definition graph1 (g : list (Z * Z)) (x : Z) : Z :=
  match find (fun p => Z.eqb (fst p) x) g with Some p => snd p | None => (-1)%Z end.

Definition graph2 (g : list (Z * Z * Z)) (m x : Z) : Z :=
  match find (fun p => Z.eqb (fst (fst p)) m && Z.eqb (snd (fst p)) x) g with Some p => snd p | None => (-1)%Z end.

Definition val_eqb (a b : val Z) : bool :=
  match a, b with
  | VNone, VNone => true
  | VArr x, VArr y => Z.eqb x y
  | VList l1, VList l2 => list_eqb Z.eqb l1 l2
  | _, _ => false
  end.

Fixpoint mismatches (k : nat) (s' : state Z) (expect : list (field * val Z)) : list nat :=
  match expect with
  | [] => []
  | (f, v) :: r => if val_eqb (s' f) v then mismatches (S k) s' r else k :: mismatches (S k) s' r
  end.

(* None: the model says save / load raises; Some l: indexes of the expected fields that differ *)
Definition check20 (wg wp : list wentry) (rg rp : list raction) (phases : list string)
           (s s0 expect defaults : list (field * val Z))
           (gint : list (Z * Z)) (gguard : list (Z * Z * Z)) (glen : list (Z * Z)) (ctrue : Z) : option (list nat) :=
  match save_load Z (graph1 gint) (graph2 gguard)
                  (fun fn v => match v with VArr x => VArr (graph1 glen x) | _ => VNone end)
                  (fun c => VArr ctrue) (zstate defaults) npz_like wg wp rg rp phases (zstate s) (zstate s0) with
  | None => None
  | Some s' => Some (mismatches 0 s' expect)
  end.

(* the keys the model expects in the file *)
Definition file_keys (wg wp : list wentry) (phases : list string) (s : list (field * val Z)) : list string :=
  map fst (toDict Z wg wp phases (zstate s)).

Definition keys_agree (wg wp : list wentry) (phases : list string) (s : list (field * val Z)) (actual : list string) : bool :=
  let m := file_keys wg wp phases s in subsetb m actual && subsetb actual m.

(* the files the generated name function predicts for the names given to save = the files kawin wrote *)
Definition names_agree (f : namefn) (names actual : list string) : bool :=
  let m := map (apply_name f) names in subsetb m actual && subsetb actual m.
