(* C20 - diffusion: extent of the claim
   Statement about lists GENERATED from the current kawin sources; compiled by the check only
   (depends on build/C20/SaveLoad_gen.v). *)
From Coq Require Import String List Bool.
Require Import Kawin.C20.Model Kawin.C20.Proofs.
Require Import KawinRun.SaveLoad_gen.
Import ListNotations.
Open Scope string_scope.

Theorem C20_unsaved_fields_diffusion :
  (forall f w, In f unsaved_diff_g -> In w gen_diff_wg -> ~ In f (src_fields w))
  /\ (forall f, In f unsaved_diff_g -> last_touch f gen_diff_rg = None).
Proof.
  split.
  - apply unsaved_sound. vm_compute. reflexivity.
  - assert (H : forallb (fun f => match last_touch f gen_diff_rg with None => true | Some _ => false end) unsaved_diff_g = true)
      by (vm_compute; reflexivity).
    rewrite forallb_forall in H. intros f Hf. specialize (H f Hf). destruct (last_touch f gen_diff_rg); [discriminate|reflexivity].
Qed.
Print Assumptions C20_unsaved_fields_diffusion.
