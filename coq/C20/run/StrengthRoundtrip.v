(* C20 - strength model: saved file reproduces the recorded histories
   Statement about lists GENERATED from the current kawin sources; compiled by the check only
   (depends on build/C20/SaveLoad_gen.v). *)
From Coq Require Import String List Bool.
Require Import Kawin.C20.Model Kawin.C20.Proofs.
Require Import KawinRun.SaveLoad_gen.
Import ListNotations.
Open Scope string_scope.

Lemma strength_check :
  full_check gen_strength_wg gen_strength_wp gen_strength_rg gen_strength_rp req_strength_g [] [] [] = true.
Proof. vm_compute. reflexivity. Qed.

(* the strength model's file reproduces its three recorded histories *)
Theorem C20_roundtrip_fields_strength
  (V : Type) (to_int : V -> V) (guard : V -> V -> V) (derive : string -> val V -> val V)
  (const : string -> val V) (default : field -> val V) (codec : dict V -> option (dict V)) :
  (forall d, has_none V d = false -> exists d', codec d = Some d' /\ forall k, lookup V d' k = lookup V d k) ->
  forall s s0 : state V,
  solved V Glob "" gen_strength_wg s ->
  cond_consistent V Glob "" gen_strength_wg s ->
  ints_ok V to_int Glob "" gen_strength_wg s gen_strength_rg ->
  guards_hold V guard Glob "" gen_strength_wg s gen_strength_rg ->
  (forall f fn arg, In (RDerive f fn arg) gen_strength_rg -> s (FG f) = derive fn (s (FG arg))) ->
  (forall f, classify gen_strength_wg gen_strength_rg f = OptionalFresh -> s (FG f) = VNone -> s0 (FG f) = VNone) ->
  exists s', save_load V to_int guard derive const default codec gen_strength_wg gen_strength_wp gen_strength_rg gen_strength_rp [] s s0 = Some s'
    /\ (forall f, In f req_strength_g -> s' (FG f) = s (FG f)).
Proof.
  intros Hc s s0 H1 H2 H3 H4 H5 H6.
  destruct (roundtrip_readable V to_int guard derive const default codec Hc
              gen_strength_wg gen_strength_wp gen_strength_rg gen_strength_rp req_strength_g [] [] [] strength_check [] (NoDup_nil _) s s0
              H1 (fun ph (Hp : In ph []) => match Hp with end)
              H2 (fun ph (Hp : In ph []) => match Hp with end)
              H3 (fun ph (Hp : In ph []) => match Hp with end)
              H4 (fun ph (Hp : In ph []) => match Hp with end)
              H5 (fun ph f fn arg (Hp : In ph []) => match Hp with end)
              H6 (fun ph f (Hp : In ph []) => match Hp with end))
    as [s' [E [G _]]].
  exists s'. split; [exact E|]. intros f Hf. apply G. left. exact Hf.
Qed.
Print Assumptions C20_roundtrip_fields_strength.
