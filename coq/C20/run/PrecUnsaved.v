(* C20 - precipitation: extent of the claim (state that is not in the file)
   Statement about lists GENERATED from the current kawin sources; compiled by the check only
   (depends on build/C20/SaveLoad_gen.v). *)
From Coq Require Import String List Bool.
Require Import Kawin.C20.Model Kawin.C20.Proofs.
Require Import KawinRun.SaveLoad_gen.
Import ListNotations.
Open Scope string_scope.

(* extent: state of a precipitation model that is NOT in the file (and, for the global part, is not
   touched by load: by C20_unread_global_keeps_fresh the loaded model keeps the fresh model's value) *)
Theorem C20_unsaved_fields_precipitation :
  (forall f w, In f unsaved_prec_g -> In w gen_prec_wg -> ~ In f (src_fields w))
  /\ (forall f, In f unsaved_prec_g -> last_touch f gen_prec_rg = None)
  /\ (forall f w, In f unsaved_prec_p -> In w gen_prec_wp -> ~ In f (src_fields w)).
Proof.
  split; [|split].
  - apply unsaved_sound. vm_compute. reflexivity.
  - assert (H : forallb (fun f => match last_touch f gen_prec_rg with None => true | Some _ => false end) unsaved_prec_g = true)
      by (vm_compute; reflexivity).
    rewrite forallb_forall in H. intros f Hf. specialize (H f Hf). destruct (last_touch f gen_prec_rg); [discriminate|reflexivity].
  - apply unsaved_sound. vm_compute. reflexivity.
Qed.
Print Assumptions C20_unsaved_fields_precipitation.
