(* C20 - files written side by side do not interfere
   Statement about the file-name functions GENERATED from GenericModel.save / load; compiled by the
   check only (depends on build/C20/SaveLoad_gen.v). *)
From Coq Require Import String List Bool.
Require Import Kawin.C20.Model Kawin.C20.Proofs.
Require Import KawinRun.SaveLoad_gen.
Import ListNotations.
Open Scope string_scope.

Lemma same_name_function : namefn_eqb gen_save_name gen_load_name = true.
Proof. vm_compute. reflexivity. Qed.

(* any number of models saved one after the other under any names: loading a name gives back the
   file content saved under that name, whatever else was saved before or afterwards, unless a later
   save used the same name or one that differs from it by exactly the generated suffix *)
Theorem C20_saved_files_do_not_interfere (D : Type) (fs : fsys D)
        (pre : list (string * D)) (n : string) (d : D) (post : list (string * D)) :
  (forall n' d', In (n', d') post -> n' <> n /\ n' <> n ++ name_suffix gen_save_name /\ n <> n' ++ name_suffix gen_save_name) ->
  fs_load D gen_load_name (fs_saves D gen_save_name fs (pre ++ (n, d) :: post)%list) n = Some d.
Proof.
  intro H. apply files_independent; [exact same_name_function|].
  intros n' d' Hin [A|[A|A]]; destruct (H n' d' Hin) as [H1 [H2 H3]]; congruence.
Qed.
Print Assumptions C20_saved_files_do_not_interfere.
