(* C20 - precipitation: fields that may be None are stored under a None-guard
   Statement about lists GENERATED from the current kawin sources; compiled by the check only
   (depends on build/C20/SaveLoad_gen.v). *)
From Coq Require Import String List Bool.
Require Import Kawin.C20.Model Kawin.C20.Proofs.
Require Import KawinRun.SaveLoad_gen.
Import ListNotations.
Open Scope string_scope.

(* the recorded size distributions may be None (recording never enabled): they are stored only when they exist *)
Theorem C20_optional_fields_guarded_precipitation :
  forall f w, In f optional_prec_p -> In w gen_prec_wp -> In f (src_fields w) -> In f (w_cond w).
Proof. apply none_guarded_sound. vm_compute. reflexivity. Qed.
Print Assumptions C20_optional_fields_guarded_precipitation.
