(* C20 - surrogate: every quantity has a getter guarded by its own trained-model dictionary
   Statement about lists GENERATED from the current kawin sources; compiled by the check only
   (depends on build/C20/Surrogate_gen.v). *)
From Coq Require Import String List Bool.
Require Import Kawin.C20.Model Kawin.C20.Proofs.
Require Import KawinRun.Surrogate_gen.
Import ListNotations.
Open Scope string_scope.

Lemma guards_all_ok : guards_ok gen_fallthrough = true.
Proof. vm_compute. reflexivity. Qed.

(* all seven quantities have such a getter, each guarded by the trained-model dictionary of its own quantity *)
Theorem C20_fallthrough_guards :
  forall q g, In (q, g) quantity_guards ->
    (exists e, In e gen_fallthrough /\ ft_method e = q)
    /\ (forall e, In e gen_fallthrough -> ft_method e = q -> ft_models e = g).
Proof. exact (guards_sound gen_fallthrough guards_all_ok). Qed.
Print Assumptions C20_fallthrough_guards.
