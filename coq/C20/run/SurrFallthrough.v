(* C20 - surrogate: un-trained getters pass through to the same-named thermodynamics method
   Statement about lists GENERATED from the current kawin sources; compiled by the check only
   (depends on build/C20/Surrogate_gen.v). *)
From Coq Require Import String List Bool.
Require Import Kawin.C20.Model Kawin.C20.Proofs.
Require Import KawinRun.Surrogate_gen.
Import ListNotations.
Open Scope string_scope.

Lemma ft_all_ok : forallb ft_ok gen_fallthrough = true.
Proof. vm_compute. reflexivity. Qed.

(* every getter of the surrogate classes, when its quantity has not been trained, returns exactly
   what the same-named method of the thermodynamics object returns for the caller's arguments *)
Theorem C20_fallthrough_is_identity
  (V : Type) (therm : string -> list V -> list (string * V) -> V) (norm : string -> V -> V) :
  forall e, In e gen_fallthrough ->
    ft_callee e = ft_method e /\
    forall en, untrained V therm norm e en = passthrough V therm norm e (length (pos_names (ft_args e))) en.
Proof.
  intros e He. apply fallthrough_sound. pose proof ft_all_ok as H. rewrite forallb_forall in H. exact (H e He).
Qed.
Print Assumptions C20_fallthrough_is_identity.
