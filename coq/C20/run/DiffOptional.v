(* C20 - diffusion: fields that may be None are stored under a None-guard
   Statement about lists GENERATED from the current kawin sources; compiled by the check only
   (depends on build/C20/SaveLoad_gen.v). *)
From Coq Require Import String List Bool.
Require Import Kawin.C20.Model Kawin.C20.Proofs.
Require Import KawinRun.SaveLoad_gen.
Import ListNotations.
Open Scope string_scope.

(* the recorded profiles may be None (record = False): they are stored only when they exist, so a model
   without recording produces a file that can be loaded *)
Theorem C20_optional_fields_guarded_diffusion :
  forall f w, In f optional_diff_g -> In w gen_diff_wg -> In f (src_fields w) -> In f (w_cond w).
Proof. apply none_guarded_sound. vm_compute. reflexivity. Qed.
Print Assumptions C20_optional_fields_guarded_diffusion.
