(* C20 - diffusion: keys written = keys read
   Statement about lists GENERATED from the current kawin sources; compiled by the check only
   (depends on build/C20/SaveLoad_gen.v). *)
From Coq Require Import String List Bool.
Require Import Kawin.C20.Model Kawin.C20.Proofs.
Require Import KawinRun.SaveLoad_gen.
Import ListNotations.
Open Scope string_scope.

Theorem C20_keys_written_iff_read_diffusion :
  (forall k, In k (keys gen_diff_wg) -> reads_key gen_diff_rg k = true)
  /\ (forall a, In a gen_diff_rg -> action_safe gen_diff_wg a = true).
Proof. split; apply forallb_forall; vm_compute; reflexivity. Qed.
Print Assumptions C20_keys_written_iff_read_diffusion.
