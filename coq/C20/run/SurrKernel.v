(* C20 - surrogate: RBFKernel reproduces its training data
   Statement about text GENERATED from the current kawin sources; compiled by the check only
   (depends on build/C20/Surrogate_gen.v). *)
From Coq Require Import String List Bool.
Require Import Kawin.C20.Model Kawin.C20.Proofs.
Require Import KawinRun.Surrogate_gen.
Import ListNotations.
Open Scope string_scope.

Lemma same_normalisation : String.eqb gen_rbf_train_norm gen_rbf_predict_norm = true.
Proof. vm_compute. reflexivity. Qed.

(* RBFKernel.predict at a training input returns the training output: whatever the normalisation
   expression means and for every interpolant that reproduces its nodes (scipy RBFInterpolator with
   smoothing 0 - an oracle here), provided the normalised training inputs determine the outputs *)
Theorem C20_rbf_kernel_interpolates
  (X Y : Type) (nrm : string -> X -> X) (fit : list (X * Y) -> X -> Y) (data : list (X * Y)) :
  (forall nodes x y, In (x, y) nodes -> (forall y', In (x, y') nodes -> y' = y) -> fit nodes x = y) ->
  forall x y, In (x, y) data -> (forall x' y', In (x', y') data -> nrm gen_rbf_train_norm x' = nrm gen_rbf_train_norm x -> y' = y) ->
  kernel_predict X Y nrm fit gen_rbf_train_norm gen_rbf_predict_norm data x = y.
Proof. exact (kernel_interpolates X Y nrm fit gen_rbf_train_norm gen_rbf_predict_norm data same_normalisation). Qed.
Print Assumptions C20_rbf_kernel_interpolates.
