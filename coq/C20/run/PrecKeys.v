(* C20 - precipitation: keys written = keys read
   Statement about lists GENERATED from the current kawin sources; compiled by the check only
   (depends on build/C20/SaveLoad_gen.v). *)
From Coq Require Import String List Bool.
Require Import Kawin.C20.Model Kawin.C20.Proofs.
Require Import KawinRun.SaveLoad_gen.
Import ListNotations.
Open Scope string_scope.

(* nothing that is written is dropped on load, and nothing is read that is not written *)
Theorem C20_keys_written_iff_read_precipitation :
  (forall k, In k (keys gen_prec_wg) -> reads_key gen_prec_rg k = true)
  /\ (forall k, In k (keys gen_prec_wp) -> reads_key gen_prec_rp k = true)
  /\ (forall a, In a gen_prec_rg -> action_safe gen_prec_wg a = true)
  /\ (forall a, In a gen_prec_rp -> action_safe gen_prec_wp a = true).
Proof.
  repeat split; apply forallb_forall; vm_compute; reflexivity.
Qed.
Print Assumptions C20_keys_written_iff_read_precipitation.
