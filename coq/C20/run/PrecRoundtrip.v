(* C20 - precipitation: saved file reproduces histories, state and size distributions
   Statement about lists GENERATED from the current kawin sources; compiled by the check only
   (depends on build/C20/SaveLoad_gen.v). *)
From Coq Require Import String List Bool.
Require Import Kawin.C20.Model Kawin.C20.Proofs.
Require Import KawinRun.SaveLoad_gen.
Import ListNotations.
Open Scope string_scope.

Lemma prec_check :
  full_check gen_prec_wg gen_prec_wp gen_prec_rg gen_prec_rp req_prec_g req_prec_p der_prec_g [] = true.
Proof. vm_compute. reflexivity. Qed.

(* Saving a precipitation model with any number of (distinctly named) phases and loading the file into
   another model reproduces every recorded history (pData), the step counter, and per phase the size
   distribution, its grid (bounds, sizes, min, max, bins), the aspect-ratio table and the recorded size
   distributions.  Premises: the storage returns what was stored (None excluded); the saved model has
   been solved (everything stored unconditionally holds a value); recorded arrays of a phase are None
   together; bins is an integer; max >= 10 min; n = len(time) - 1. *)
Theorem C20_roundtrip_fields_precipitation
  (V : Type) (to_int : V -> V) (guard : V -> V -> V) (derive : string -> val V -> val V)
  (const : string -> val V) (default : field -> val V) (codec : dict V -> option (dict V)) :
  (forall d, has_none V d = false -> exists d', codec d = Some d' /\ forall k, lookup V d' k = lookup V d k) ->
  forall phases, NoDup phases -> forall s s0 : state V,
  solved V Glob "" gen_prec_wg s -> (forall ph, In ph phases -> solved V Phase ph gen_prec_wp s) ->
  cond_consistent V Glob "" gen_prec_wg s -> (forall ph, In ph phases -> cond_consistent V Phase ph gen_prec_wp s) ->
  ints_ok V to_int Glob "" gen_prec_wg s gen_prec_rg -> (forall ph, In ph phases -> ints_ok V to_int Phase ph gen_prec_wp s gen_prec_rp) ->
  guards_hold V guard Glob "" gen_prec_wg s gen_prec_rg -> (forall ph, In ph phases -> guards_hold V guard Phase ph gen_prec_wp s gen_prec_rp) ->
  (forall f fn arg, In (RDerive f fn arg) gen_prec_rg -> s (FG f) = derive fn (s (FG arg))) ->
  (forall ph f fn arg, In ph phases -> In (RDerive f fn arg) gen_prec_rp -> s (FP f ph) = derive fn (s (FP arg ph))) ->
  (forall f, classify gen_prec_wg gen_prec_rg f = OptionalFresh -> s (FG f) = VNone -> s0 (FG f) = VNone) ->
  (forall ph f, In ph phases -> classify gen_prec_wp gen_prec_rp f = OptionalFresh -> s (FP f ph) = VNone -> s0 (FP f ph) = VNone) ->
  exists s', save_load V to_int guard derive const default codec gen_prec_wg gen_prec_wp gen_prec_rg gen_prec_rp phases s s0 = Some s'
    /\ (forall f, In f req_prec_g \/ In f der_prec_g -> s' (FG f) = s (FG f))
    /\ (forall ph f, In ph phases -> In f req_prec_p \/ In f [] -> s' (FP f ph) = s (FP f ph)).
Proof.
  intro Hc. exact (roundtrip_readable V to_int guard derive const default codec Hc
                     gen_prec_wg gen_prec_wp gen_prec_rg gen_prec_rp req_prec_g req_prec_p der_prec_g [] prec_check).
Qed.
Print Assumptions C20_roundtrip_fields_precipitation.
