(* C20 - Saved files and surrogates reproduce what they were made from.
   This file contains ONLY the property theorems that do not depend on generated text; each is closed
   by [exact] of a lemma of Proofs.v and followed by Print Assumptions.  They are statements about
   EVERY writer / reader pair (resp. fall-through table) that passes the boolean check of Model.v;
   coq/C20/run/GenProperties.v instantiates them with the lists generated from the current kawin
   sources (the check computes the boolean there). *)
From Coq Require Import String List.
Require Import Kawin.C20.Model Kawin.C20.Proofs.
Import ListNotations.
Open Scope string_scope.

(* Save with any writer, store in any medium that returns what was stored (and cannot store None),
   load with any reader into any other object: if the pair passes [full_check] then for every list of
   distinct phase names every required / derived field of the loaded object equals that of the saved one. *)
Theorem C20_roundtrip_any_checked_pair
  (V : Type) (to_int : V -> V) (guard : V -> V -> V) (derive : string -> val V -> val V)
  (const : string -> val V) (default : field -> val V) (codec : dict V -> option (dict V)) :
  (forall d, has_none V d = false -> exists d', codec d = Some d' /\ forall k, lookup V d' k = lookup V d k) ->
  forall (wg wp : list wentry) (rg rp : list raction) (req_g req_p der_g der_p : list string),
  full_check wg wp rg rp req_g req_p der_g der_p = true ->
  forall phases, NoDup phases -> forall s s0 : state V,
  solved V Glob "" wg s -> (forall ph, In ph phases -> solved V Phase ph wp s) ->
  cond_consistent V Glob "" wg s -> (forall ph, In ph phases -> cond_consistent V Phase ph wp s) ->
  ints_ok V to_int Glob "" wg s rg -> (forall ph, In ph phases -> ints_ok V to_int Phase ph wp s rp) ->
  guards_hold V guard Glob "" wg s rg -> (forall ph, In ph phases -> guards_hold V guard Phase ph wp s rp) ->
  (forall f fn arg, In (RDerive f fn arg) rg -> s (FG f) = derive fn (s (FG arg))) ->
  (forall ph f fn arg, In ph phases -> In (RDerive f fn arg) rp -> s (FP f ph) = derive fn (s (FP arg ph))) ->
  (forall f, classify wg rg f = OptionalFresh -> s (FG f) = VNone -> s0 (FG f) = VNone) ->
  (forall ph f, In ph phases -> classify wp rp f = OptionalFresh -> s (FP f ph) = VNone -> s0 (FP f ph) = VNone) ->
  exists s', save_load V to_int guard derive const default codec wg wp rg rp phases s s0 = Some s'
    /\ (forall f, In f req_g \/ In f der_g -> s' (FG f) = s (FG f))
    /\ (forall ph f, In ph phases -> In f req_p \/ In f der_p -> s' (FP f ph) = s (FP f ph)).
Proof. exact (roundtrip_readable V to_int guard derive const default codec). Qed.
Print Assumptions C20_roundtrip_any_checked_pair.

(* Extent of the claim: a field that the reader never writes keeps the value of the freshly
   constructed object (it is NOT taken from the file), for global ... *)
Theorem C20_unread_global_keeps_fresh
  (V : Type) (to_int : V -> V) (guard : V -> V -> V) (derive : string -> val V -> val V)
  (const : string -> val V) (default : field -> val V) (codec : dict V -> option (dict V))
  (wg wp : list wentry) (rg rp : list raction) (phases : list string) (s s0 s' : state V) :
  save_load V to_int guard derive const default codec wg wp rg rp phases s s0 = Some s' ->
  forall f, last_touch f rg = None -> s' (FG f) = s0 (FG f).
Proof. exact (load_keeps_unread_global V to_int guard derive const default codec wg wp rg rp phases s s0 s'). Qed.
Print Assumptions C20_unread_global_keeps_fresh.

(* ... and per-phase fields *)
Theorem C20_unread_phase_keeps_fresh
  (V : Type) (to_int : V -> V) (guard : V -> V -> V) (derive : string -> val V -> val V)
  (const : string -> val V) (default : field -> val V) (codec : dict V -> option (dict V))
  (wg wp : list wentry) (rg rp : list raction) (phases : list string) (s s0 s' : state V) :
  save_load V to_int guard derive const default codec wg wp rg rp phases s s0 = Some s' ->
  forall f ph, NoDup phases -> In ph phases -> last_touch f rp = None -> s' (FP f ph) = s0 (FP f ph).
Proof. exact (load_keeps_unread_phase V to_int guard derive const default codec wg wp rg rp phases s s0 s'). Qed.
Print Assumptions C20_unread_phase_keeps_fresh.

(* A getter whose table entry passes [ft_ok] calls, when un-trained, the same-named method of the
   thermodynamics object with the caller's own arguments (each parameter exactly once, under its own
   position or name; the phase argument after the default-phase resolution [norm]) - for every
   thermodynamics object, every argument values, every extra positional / keyword arguments. *)
Theorem C20_fallthrough_any_checked_entry
  (V : Type) (therm : string -> list V -> list (string * V) -> V) (norm : string -> V -> V) (e : ftentry) :
  ft_ok e = true ->
  ft_callee e = ft_method e /\
  forall en, untrained V therm norm e en = passthrough V therm norm e (length (pos_names (ft_args e))) en.
Proof. exact (fallthrough_sound V therm norm e). Qed.
Print Assumptions C20_fallthrough_any_checked_entry.

(* A table that passes [guards_ok] has a getter for every quantity of the property, each guarded by
   the trained-model dictionary of its own quantity. *)
Theorem C20_guards_any_checked_table (t : list ftentry) : guards_ok t = true ->
  forall q g, In (q, g) quantity_guards ->
    (exists e, In e t /\ ft_method e = q) /\ (forall e, In e t -> ft_method e = q -> ft_models e = g).
Proof. exact (guards_sound t). Qed.
Print Assumptions C20_guards_any_checked_table.

(* A kernel that normalises training and query inputs with the same expression and whose interpolant
   reproduces its nodes returns, at a training input, the training output (for functional data). *)
Theorem C20_kernel_interpolates_any_same_normalisation
  (X Y : Type) (nrm : string -> X -> X) (fit : list (X * Y) -> X -> Y) (te pe : string) (data : list (X * Y)) :
  String.eqb te pe = true ->
  (forall nodes x y, In (x, y) nodes -> (forall y', In (x, y') nodes -> y' = y) -> fit nodes x = y) ->
  forall x y, In (x, y) data -> (forall x' y', In (x', y') data -> nrm te x' = nrm te x -> y' = y) ->
  kernel_predict X Y nrm fit te pe data x = y.
Proof. exact (kernel_interpolates X Y nrm fit te pe data). Qed.
Print Assumptions C20_kernel_interpolates_any_same_normalisation.

(* File names.  Whatever name function save uses, if load uses the same one then among any number of
   models saved one after the other each name gives back exactly what was saved under it, unless a
   LATER save used that name again or a name that differs from it by exactly the suffix. *)
Theorem C20_files_any_name_function (D : Type) (fsave fload : namefn) (fs : fsys D)
        (pre : list (string * D)) (n : string) (d : D) (post : list (string * D)) :
  namefn_eqb fsave fload = true ->
  (forall n' d', In (n', d') post -> ~ alias fsave n' n) ->
  fs_load D fload (fs_saves D fsave fs (pre ++ (n, d) :: post)%list) n = Some d.
Proof. exact (files_independent D fsave fload fs pre n d post). Qed.
Print Assumptions C20_files_any_name_function.

(* Two caller-side names reach the same file only if they are equal or differ by exactly the suffix. *)
Theorem C20_name_collision_only_by_suffix (f : namefn) (a b : string) :
  apply_name f a = apply_name f b -> a = b \/ a = b ++ name_suffix f \/ b = a ++ name_suffix f.
Proof. exact (name_collision f a b). Qed.
Print Assumptions C20_name_collision_only_by_suffix.
