(* C20 - non-vacuity examples and refutation witnesses.
   The lists below are a SNAPSHOT of what the translator generates from the repaired tree (the check
   itself always works on freshly generated lists); the `old_*` lists are what it generates from the
   unrepaired tree. *)
From Coq Require Import String List Bool Arith.
Require Import Kawin.C20.Model Kawin.C20.Proofs Kawin.C20.Properties.
Import ListNotations.
Open Scope string_scope.

Definition ex_prec_wg : list wentry :=
  [ mkW "time" (SrcField "pData.time") [];
    mkW "temperature" (SrcField "pData.temperature") [];
    mkW "composition" (SrcField "pData.composition") [];
    mkW "xEqAlpha" (SrcField "pData.xEqAlpha") [];
    mkW "xEqBeta" (SrcField "pData.xEqBeta") [];
    mkW "drivingForce" (SrcField "pData.drivingForce") [];
    mkW "impingement" (SrcField "pData.impingement") [];
    mkW "Gcrit" (SrcField "pData.Gcrit") [];
    mkW "Rcrit" (SrcField "pData.Rcrit") [];
    mkW "nucRate" (SrcField "pData.nucRate") [];
    mkW "precipitateDensity" (SrcField "pData.precipitateDensity") [];
    mkW "Rnuc" (SrcField "pData.Rnuc") [];
    mkW "Ravg" (SrcField "pData.Ravg") [];
    mkW "ARavg" (SrcField "pData.ARavg") [];
    mkW "volFrac" (SrcField "pData.volFrac") [];
    mkW "fconc" (SrcField "pData.fconc") [] ].

Definition ex_prec_wp : list wentry :=
  [ mkW "PBM_data_" (SrcList ["PBM.min"; "PBM.max"; "PBM.bins"]) [];
    mkW "PBM_PSD_" (SrcField "PBM.PSD") [];
    mkW "PBM_bounds_" (SrcField "PBM.PSDbounds") [];
    mkW "PBM_size_" (SrcField "PBM.PSDsize") [];
    mkW "eqAspectRatio_" (SrcField "eqAspectRatio") [];
    mkW "PBM_recordedTime_" (SrcField "PBM._recordedTime") ["PBM._recordedTime"; "PBM._recordedBins"; "PBM._recordedPSD"];
    mkW "PBM_recordedBins_" (SrcField "PBM._recordedBins") ["PBM._recordedTime"; "PBM._recordedBins"; "PBM._recordedPSD"];
    mkW "PBM_recordedPSD_" (SrcField "PBM._recordedPSD") ["PBM._recordedTime"; "PBM._recordedBins"; "PBM._recordedPSD"] ].

Definition ex_prec_rg : list raction :=
  [ RSet "pData.time" "time" Whole [];
    RSet "pData.temperature" "temperature" Whole [];
    RSet "pData.composition" "composition" Whole [];
    RSet "pData.xEqAlpha" "xEqAlpha" Whole [];
    RSet "pData.xEqBeta" "xEqBeta" Whole [];
    RSet "pData.drivingForce" "drivingForce" Whole [];
    RSet "pData.impingement" "impingement" Whole [];
    RSet "pData.Gcrit" "Gcrit" Whole [];
    RSet "pData.Rcrit" "Rcrit" Whole [];
    RSet "pData.nucRate" "nucRate" Whole [];
    RSet "pData.precipitateDensity" "precipitateDensity" Whole [];
    RSet "pData.Rnuc" "Rnuc" Whole [];
    RSet "pData.Ravg" "Ravg" Whole [];
    RSet "pData.ARavg" "ARavg" Whole [];
    RSet "pData.volFrac" "volFrac" Whole [];
    RSet "pData.fconc" "fconc" Whole [];
    RDerive "pData.n" "len-1" "pData.time" ].

Definition ex_prec_rp : list raction :=
  [ RReset ["PBM._netFlux"; "PBM._recordedBins"; "PBM._recordedPSD"; "PBM._recordedTime"] ["PBM.originalMin"; "PBM.originalMax"; "PBM.min"; "PBM.max"; "PBM.originalBins"; "PBM.minBins"; "PBM.maxBins"; "PBM.bins"; "PBM.PSDbounds"; "PBM.PSDsize"; "PBM.PSD"; "PBM._prevPSD"; "PBM._prevPSDbounds"; "PBM._adaptiveBinSize"; "PBM._record"];
    RSet "PBM.originalMin" "PBM_data_" (Idx 0) [];
    RSet "PBM.originalMax" "PBM_data_" (GuardIdx 1 0) [];
    RSet "PBM.min" "PBM_data_" (Idx 0) [];
    RSet "PBM.max" "PBM_data_" (GuardIdx 1 0) [];
    RSet "PBM.originalBins" "PBM_data_" (IntIdx 2) [];
    RSet "PBM.bins" "PBM_data_" (IntIdx 2) [];
    RSet "PBM.PSD" "PBM_PSD_" Whole [];
    RSet "PBM.PSDsize" "PBM_size_" Whole [];
    RSet "PBM.PSDbounds" "PBM_bounds_" Whole [];
    RSet "eqAspectRatio" "eqAspectRatio_" Whole [];
    RConst "PBM._record" "True" ["PBM_recordedTime_"; "PBM_recordedBins_"; "PBM_recordedPSD_"];
    RSet "PBM._recordedTime" "PBM_recordedTime_" Whole ["PBM_recordedTime_"; "PBM_recordedBins_"; "PBM_recordedPSD_"];
    RSet "PBM._recordedBins" "PBM_recordedBins_" Whole ["PBM_recordedTime_"; "PBM_recordedBins_"; "PBM_recordedPSD_"];
    RSet "PBM._recordedPSD" "PBM_recordedPSD_" Whole ["PBM_recordedTime_"; "PBM_recordedBins_"; "PBM_recordedPSD_"] ].

Definition ex_diff_wg : list wentry :=
  [ mkW "finalTime" (SrcField "t") [];
    mkW "finalX" (SrcField "x") [];
    mkW "recordX" (SrcField "_recordedX") ["_recordedX"; "_recordedTime"];
    mkW "recordTime" (SrcField "_recordedTime") ["_recordedX"; "_recordedTime"] ].

Definition ex_diff_wp : list wentry := [].

Definition ex_diff_rg : list raction :=
  [ RSet "t" "finalTime" Whole [];
    RSet "x" "finalX" Whole [];
    RSet "_recordedX" "recordX" Whole ["recordX"; "recordTime"];
    RSet "_recordedTime" "recordTime" Whole ["recordX"; "recordTime"] ].

Definition ex_diff_rp : list raction := [].

Definition ex_strength_wg : list wentry :=
  [ mkW "ssStrength" (SrcField "solidStrength") [];
    mkW "rss" (SrcField "rss") [];
    mkW "ls" (SrcField "ls") [] ].

Definition ex_strength_wp : list wentry := [].

Definition ex_strength_rg : list raction :=
  [ RSet "solidStrength" "ssStrength" Whole [];
    RSet "rss" "rss" Whole [];
    RSet "ls" "ls" Whole [] ].

Definition ex_strength_rp : list raction := [].

Definition ex_fallthrough : list ftentry :=
  [ mkFT "GeneralSurrogate" "getDrivingForce" ["x"; "T"; "precPhase"] (Some "args") (Some "kwargs") "drivingForceModels" "precPhase" "_getPrecipitatePhase" "getDrivingForce" [APos "x"; APos "T"; AStar "args"; AKw "precPhase" "precPhase"; AStarStar "kwargs"];
    mkFT "GeneralSurrogate" "getInterdiffusivity" ["x"; "T"; "phase"] (Some "args") (Some "kwargs") "diffusivityModels" "phase" "_getMatrixPhase" "getInterdiffusivity" [APos "x"; APos "T"; AStar "args"; AKw "phase" "phase"; AStarStar "kwargs"];
    mkFT "GeneralSurrogate" "getTracerDiffusivity" ["x"; "T"; "phase"] (Some "args") (Some "kwargs") "diffusivityModels" "phase" "_getMatrixPhase" "getTracerDiffusivity" [APos "x"; APos "T"; AStar "args"; AKw "phase" "phase"; AStarStar "kwargs"];
    mkFT "BinarySurrogate" "getInterfacialComposition" ["T"; "gExtra"; "precPhase"] None None "interfacialCompositionModels" "precPhase" "_getPrecipitatePhase" "getInterfacialComposition" [APos "T"; APos "gExtra"; AKw "precPhase" "precPhase"];
    mkFT "MulticomponentSurrogate" "curvatureFactor" ["x"; "T"; "precPhase"] (Some "args") (Some "kwargs") "curvatureModels" "precPhase" "_getPrecipitatePhase" "curvatureFactor" [APos "x"; APos "T"; AStar "args"; AKw "precPhase" "precPhase"; AStarStar "kwargs"];
    mkFT "MulticomponentSurrogate" "getGrowthAndInterfacialComposition" ["x"; "T"; "dG"; "R"; "gExtra"; "precPhase"] (Some "args") (Some "kwargs") "curvatureModels" "precPhase" "_getPrecipitatePhase" "getGrowthAndInterfacialComposition" [APos "x"; APos "T"; APos "dG"; APos "R"; APos "gExtra"; APos "precPhase"; AStar "args"; AStarStar "kwargs"];
    mkFT "MulticomponentSurrogate" "impingementFactor" ["x"; "T"; "precPhase"] (Some "args") (Some "kwargs") "curvatureModels" "precPhase" "_getPrecipitatePhase" "impingementFactor" [APos "x"; APos "T"; APos "precPhase"; AStar "args"; AStarStar "kwargs"] ].


(* ---- the snapshot passes the checks --------------------------------------------------------- *)
Example ex_prec_full : full_check ex_prec_wg ex_prec_wp ex_prec_rg ex_prec_rp req_prec_g req_prec_p der_prec_g [] = true.
Proof. vm_compute. reflexivity. Qed.
Example ex_diff_full : full_check ex_diff_wg ex_diff_wp ex_diff_rg ex_diff_rp req_diff_g [] [] [] = true.
Proof. vm_compute. reflexivity. Qed.
Example ex_strength_full : full_check ex_strength_wg ex_strength_wp ex_strength_rg ex_strength_rp req_strength_g [] [] [] = true.
Proof. vm_compute. reflexivity. Qed.
Example ex_ft_ok : forallb ft_ok ex_fallthrough = true /\ guards_ok ex_fallthrough = true.
Proof. split; vm_compute; reflexivity. Qed.
(* which fields are restored how: the recorded arrays are optional and reset by the constructor,
   the diffusion ones are optional and rely on the fresh model *)
Example ex_classes :
  classify ex_prec_wp ex_prec_rp "PBM.PSD" = Always /\ classify ex_prec_wp ex_prec_rp "PBM._recordedPSD" = OptionalReset
  /\ classify ex_diff_wg ex_diff_rg "_recordedX" = OptionalFresh /\ classify ex_prec_wp ex_prec_rp "PBM.originalBins" = NotRestored
  /\ int_fields ex_prec_wp ex_prec_rp = ["PBM.bins"] /\ guard_pairs ex_prec_wp ex_prec_rp = [("PBM.max", "PBM.min")].
Proof. repeat split; vm_compute; reflexivity. Qed.

(* ---- the storage hypothesis is satisfiable --------------------------------------------------- *)
Lemma npz_like_faithful (V : Type) : forall d : dict V, has_none V d = false ->
  exists d', npz_like d = Some d' /\ forall k, lookup V d' k = lookup V d k.
Proof. intros d H. exists d. unfold npz_like. rewrite H. auto. Qed.

(* ---- a concrete, non-trivial instance: two phases, recording on for B1, never enabled for B2 --- *)
Definition is_rec (n : string) : bool := mem n ["PBM._recordedTime"; "PBM._recordedBins"; "PBM._recordedPSD"].
Definition ex_s : state nat := fun f =>
  match f with
  | FG "pData.n" => VArr 7
  | FG n => VArr (String.length n)
  | FP n ph => if is_rec n && String.eqb ph "B2" then VNone else VArr (String.length n + String.length ph)
  end.
Definition ex_s0 : state nat := fun f => VArr 99.     (* a fresh object: everything different *)
Definition ex_to_int (x : nat) := x.
Definition ex_guard (m x : nat) := x.
Definition ex_derive (fn : string) (v : val nat) : val nat := VArr 7.
Definition ex_const (c : string) : val nat := VArr 1.
Definition ex_default (f : field) : val nat := VArr 0.

(* the model runs: the file is written, read, and every required field comes back *)
Example ex_prec_runs :
  match save_load nat ex_to_int ex_guard ex_derive ex_const ex_default npz_like
                  ex_prec_wg ex_prec_wp ex_prec_rg ex_prec_rp ["B1"; "B2"] ex_s ex_s0 with
  | Some s' =>
      forallb (fun f => match s' (FG f), ex_s (FG f) with VArr a, VArr b => Nat.eqb a b | VNone, VNone => true | _, _ => false end)
              (req_prec_g ++ der_prec_g)
      && forallb (fun ph => forallb (fun f => match s' (FP f ph), ex_s (FP f ph) with
                                              | VArr a, VArr b => Nat.eqb a b | VNone, VNone => true | _, _ => false end) req_prec_p)
                 ["B1"; "B2"]
      && negb (match s' (FG "_isSetup") with VArr 99 => false | _ => true end)      (* not in the file: fresh value *)
  | None => false
  end = true.
Proof. vm_compute. reflexivity. Qed.

(* the premises of the theorem hold for this state, so the theorem applies to it *)
Ltac each_in H := simpl in H; repeat (destruct H as [H|H]; [try subst; try (inversion H; subst; clear H) | ]); try contradiction.

Definition ex_s0n : state nat := fun f => VNone.  (* a fresh object whose fields are all still None *)

Example ex_prec_theorem_applies :
  exists s', save_load nat ex_to_int ex_guard ex_derive ex_const ex_default npz_like
                       ex_prec_wg ex_prec_wp ex_prec_rg ex_prec_rp ["B1"; "B2"] ex_s ex_s0n = Some s'
    /\ (forall f, In f req_prec_g \/ In f der_prec_g -> s' (FG f) = ex_s (FG f))
    /\ (forall ph f, In ph ["B1"; "B2"] -> In f req_prec_p \/ In f [] -> s' (FP f ph) = ex_s (FP f ph)).
Proof.
  apply (C20_roundtrip_any_checked_pair nat ex_to_int ex_guard ex_derive ex_const ex_default npz_like (npz_like_faithful nat)
           ex_prec_wg ex_prec_wp ex_prec_rg ex_prec_rp req_prec_g req_prec_p der_prec_g [] ex_prec_full).
  - repeat constructor; simpl; intuition discriminate.
  - intros w Hw Hc. each_in Hw; simpl; discriminate.
  - intros ph Hp w Hw Hc. each_in Hp; each_in Hw; simpl in *; try discriminate;
      try (intros f Hf; each_in Hf; eexists; reflexivity).
  - intros w f Hw Hc Hf. each_in Hw; simpl in *; try discriminate; contradiction.
  - intros ph Hp w f Hw Hc Hf. each_in Hp; each_in Hw; simpl in *; try discriminate; try contradiction;
      each_in Hf; reflexivity.
  - intros f x Hf. simpl in Hf. contradiction.
  - intros ph Hp f x Hf Hx. reflexivity.
  - intros f fm x m Hf. simpl in Hf. contradiction.
  - intros ph Hp f fm x m Hf Hx Hm. reflexivity.
  - intros f fn arg Hin. each_in Hin. reflexivity.
  - intros ph f fn arg Hp Hin. each_in Hin.
  - intros f _ _. reflexivity.
  - intros ph f _ _ _. reflexivity.
Qed.

(* ---- refutation witnesses: what the UNREPAIRED sources generate ------------------------------ *)
(* (1) the un-trained tracer-diffusivity getter called the interdiffusivity *)
Definition old_tracer : ftentry :=
  mkFT "GeneralSurrogate" "getTracerDiffusivity" ["x"; "T"; "phase"] (Some "args") (Some "kwargs") "diffusivityModels" "phase"
       "_getMatrixPhase" "getInterdiffusivity" [APos "x"; APos "T"; AStar "args"; AKw "phase" "phase"; AStarStar "kwargs"].

Example C20_old_tracer_fallthrough_refuted :
  ft_ok old_tracer = false /\
  exists (therm : string -> list nat -> list (string * nat) -> nat) (norm : string -> nat -> nat) (en : env nat),
    untrained nat therm norm old_tracer en <> passthrough nat therm norm old_tracer 2 en.
Proof.
  split; [vm_compute; reflexivity|].
  exists (fun m _ _ => if String.eqb m "getTracerDiffusivity" then 1 else 0), (fun _ v => v), (mkEnv nat (fun _ => 0) [] []).
  vm_compute. discriminate.
Qed.

(* (2) a diffusion model without recording: None was stored, the file cannot be loaded *)
Definition old_diff_wg : list wentry :=
  [ mkW "finalTime" (SrcField "t") []; mkW "finalX" (SrcField "x") [];
    mkW "recordX" (SrcField "_recordedX") []; mkW "recordTime" (SrcField "_recordedTime") [] ].
Definition old_diff_rg : list raction :=
  [ RSet "t" "finalTime" Whole []; RSet "x" "finalX" Whole [];
    RSet "_recordedX" "recordX" Whole []; RSet "_recordedTime" "recordTime" Whole [] ].
Definition norec : state nat := fun f => match f with FG "t" => VArr 1 | FG "x" => VArr 2 | _ => VNone end.

Example C20_old_diffusion_without_recording_refuted :
  none_guarded old_diff_wg optional_diff_g = false
  /\ save_load nat ex_to_int ex_guard ex_derive ex_const ex_default npz_like old_diff_wg [] old_diff_rg [] [] norec norec = None
  /\ (exists s', save_load nat ex_to_int ex_guard ex_derive ex_const ex_default npz_like ex_diff_wg [] ex_diff_rg [] [] norec norec = Some s'
                 /\ s' (FG "t") = VArr 1 /\ s' (FG "x") = VArr 2 /\ s' (FG "_recordedX") = VNone).
Proof.
  split; [vm_compute; reflexivity|]. split; [vm_compute; reflexivity|].
  eexists. split; [vm_compute; reflexivity|]. repeat split.
Qed.

(* (3) precipitation: the recorded size distributions were not stored, the loaded model had none *)
Definition old_prec_wp : list wentry := firstn 5 ex_prec_wp.
Definition old_prec_rp : list raction := firstn 11 ex_prec_rp.

Example C20_old_precipitation_recorded_psd_refuted :
  full_check ex_prec_wg old_prec_wp ex_prec_rg old_prec_rp req_prec_g req_prec_p der_prec_g [] = false
  /\ match save_load nat ex_to_int ex_guard ex_derive ex_const ex_default npz_like
                     ex_prec_wg old_prec_wp ex_prec_rg old_prec_rp ["B1"] ex_s ex_s0 with
     | Some s' => match s' (FP "PBM._recordedPSD" "B1"), ex_s (FP "PBM._recordedPSD" "B1") with
                  | VNone, VArr _ => true | _, _ => false end
     | None => false
     end = true.
Proof. split; vm_compute; reflexivity. Qed.

(* ---- file names ------------------------------------------------------------------------------- *)
Definition ex_name : namefn := NameEnsureSuffix ".npz".

Example ex_names :
  apply_name ex_name "NiCrAl_T1473.15" = "NiCrAl_T1473.15.npz" /\ apply_name ex_name "run.npz" = "run.npz"
  /\ apply_name ex_name "a.npz.bak" = "a.npz.bak.npz" /\ apply_name ex_name "npz" = "npz.npz" /\ apply_name ex_name "" = ".npz".
Proof. repeat split; vm_compute; reflexivity. Qed.

(* three models saved side by side under names that differ only after the last dot: each comes back *)
Example ex_files_side_by_side :
  let fs := fs_saves nat ex_name (fun _ => None) [("T1473.15", 1); ("T1473.65", 2); ("T1474.15", 3)] in
  fs_load nat ex_name fs "T1473.15" = Some 1 /\ fs_load nat ex_name fs "T1473.65" = Some 2 /\ fs_load nat ex_name fs "T1474.15" = Some 3
  /\ fs_load nat ex_name fs "T1473" = None.
Proof. repeat split; vm_compute; reflexivity. Qed.

Example ex_files_theorem_applies :
  fs_load nat ex_name (fs_saves nat ex_name (fun _ => None) ([("a.1", 1)] ++ ("a.2", 2) :: [("a.3", 3)])%list) "a.2" = Some 2.
Proof.
  apply (C20_files_any_name_function nat ex_name ex_name (fun _ => None) [("a.1", 1)] "a.2" 2 [("a.3", 3)] eq_refl).
  intros n' d' Hin Hal. unfold alias in Hal. destruct Hin as [H|[]]. inversion H; subst. simpl in Hal.
  destruct Hal as [A|[A|A]]; discriminate.
Qed.

(* a name function that replaces the extension is not of the generated form; its effect in the file-system
   model: the second save overwrites the first (refutation witness for `names that differ after the last dot`) *)
Example C20_replace_extension_refuted :
  let strip := fun n : string => if String.eqb n "T1473.15" || String.eqb n "T1473.65" then "T1473.npz" else n in
  let fs : fsys nat := fun k => if String.eqb k (strip "T1473.65") then Some 2 else if String.eqb k (strip "T1473.15") then Some 1 else None in
  fs (strip "T1473.15") = Some 2.
Proof. vm_compute. reflexivity. Qed.
