(* C20 - Saved files and surrogates reproduce what they were made from.

   Executable definitions only (no proofs).  Three models, all discrete (strings, lists, bool):

   1. save / load.  `toDict` is a list of *writer entries* (key or per-phase key prefix, the object
      field(s) the value is taken from, the fields that must not be None for the entry to be written);
      `fromDict` is a sequence of *reader actions* (field := data[key], possibly indexed / int() /
      guarded by the PopulationBalanceModel constructor, conditional on keys being present; constructor
      resets; derived fields).  Both lists are GENERATED from the ASTs of kawin's toDict / fromDict /
      save / load on every run (harness/c20_translate.py -> build/C20/SaveLoad_gen.v).  The semantics
      below runs them on an abstract object state (field -> val) for an arbitrary list of phase names,
      with the .npz storage as an oracle.
      File names: the functions that save / load apply to the caller's file name are generated too;
      the file system is a map from names to contents (several models saved side by side).
   2. surrogate fall-through.  For every getter of kawin/thermo/Surrogate.py the generated table holds
      the tested `...Models` dictionary, the callee on `self.therm` of the un-trained branch and the
      arguments it forwards.
   3. RBFKernel: same normalisation at training and at prediction time (generated expressions), with
      scipy's interpolant as an oracle that reproduces its nodes. *)
From Coq Require Import String List Bool Arith Ascii.
Import ListNotations.
Open Scope string_scope.

(* ------------------------------------------------------------------------------------------ *)
(* small string / list helpers *)
Fixpoint list_eqb {A} (eqb : A -> A -> bool) (l1 l2 : list A) : bool :=
  match l1, l2 with
  | [], [] => true
  | a :: r1, b :: r2 => eqb a b && list_eqb eqb r1 r2
  | _, _ => false
  end.

Definition mem (x : string) (l : list string) : bool := existsb (String.eqb x) l.

Fixpoint nodupb (l : list string) : bool :=
  match l with
  | [] => true
  | x :: r => negb (mem x r) && nodupb r
  end.

Definition subsetb (l1 l2 : list string) : bool := forallb (fun x => mem x l2) l1.

Fixpoint count (x : string) (l : list string) : nat :=
  match l with
  | [] => 0
  | y :: r => (if String.eqb x y then 1 else 0) + count x r
  end.

(* `prefix p s` of the standard library: p is a prefix of s *)
Definition comparable (p q : string) : bool := prefix p q || prefix q p.

(* ------------------------------------------------------------------------------------------ *)
(* 1. save / load *)

(* a field of the model object: global, or one per precipitate phase (PBM[p].PSD, eqAspectRatio[p]) *)
Inductive field := FG (name : string) | FP (name : string) (phase : string).

Definition field_eqb (a b : field) : bool :=
  match a, b with
  | FG x, FG y => String.eqb x y
  | FP x p, FP y q => String.eqb x y && String.eqb p q
  | _, _ => false
  end.

Inductive scope := Glob | Phase.

Definition fld (sc : scope) (name ph : string) : field :=
  match sc with Glob => FG name | Phase => FP name ph end.
Definition key_of (sc : scope) (k ph : string) : string :=
  match sc with Glob => k | Phase => k ++ ph end.

(* what a writer entry stores: one field, or a list literal of fields ([min, max, bins]) *)
Inductive wsrc := SrcField (f : string) | SrcList (fs : list string).

Record wentry := mkW { w_key : string;            (* key, or key prefix for per-phase entries *)
                       w_src : wsrc;
                       w_cond : list string }.    (* written only if none of these fields is None *)

(* how a reader extracts the value from data[key] *)
Inductive how := Whole                       (* data[key] *)
               | Idx (i : nat)               (* data[key][i] *)
               | IntIdx (i : nat)            (* int(data[key][i]) *)
               | GuardIdx (i imin : nat).    (* np.amax([10*data[key][imin], data[key][i]])  (PBM constructor) *)

Inductive raction :=
| RSet (f key : string) (h : how) (cond : list string)   (* if all cond keys in data: self.f = data[key]...  *)
| RConst (f c : string) (cond : list string)             (* if all cond keys in data: self.f = <constant c> *)
| RDerive (f fn arg : string)                            (* self.f = fn(self.arg)   (n = len(time) - 1) *)
| RReset (nones others : list string).                   (* constructor call: fields reset to None / to defaults *)

Definition writes (a : raction) (f : string) : bool :=
  match a with
  | RSet g _ _ _ => String.eqb f g
  | RConst g _ _ => String.eqb f g
  | RDerive g _ _ => String.eqb f g
  | RReset ns os => mem f ns || mem f os
  end.

(* the last action of a list that writes f *)
Fixpoint last_touch (f : string) (acts : list raction) : option raction :=
  match acts with
  | [] => None
  | a :: r => match last_touch f r with
              | Some b => Some b
              | None => if writes a f then Some a else None
              end
  end.

(* the actions before the last one that writes f *)
Fixpoint before_last (f : string) (acts : list raction) : list raction :=
  match acts with
  | [] => []
  | a :: r => match last_touch f r with
              | Some _ => a :: before_last f r
              | None => []
              end
  end.

Fixpoint after_last (f : string) (acts : list raction) : list raction :=
  match acts with
  | [] => []
  | a :: r => match last_touch f r with
              | Some _ => after_last f r
              | None => r
              end
  end.

Definition find_w (k : string) (ws : list wentry) : option wentry :=
  find (fun w => String.eqb k (w_key w)) ws.

Definition keys (ws : list wentry) : list string := map w_key ws.

(* the source of writer entry w, read back with `h`, is field f *)
Definition src_matches (w : wentry) (f : string) (h : how) : bool :=
  match w_src w, h with
  | SrcField g, Whole => String.eqb f g
  | SrcList fs, Idx i => match nth_error fs i with Some g => String.eqb f g | None => false end
  | SrcList fs, IntIdx i => match nth_error fs i with Some g => String.eqb f g | None => false end
  | SrcList fs, GuardIdx i j => match nth_error fs i, nth_error fs j with
                                | Some g, Some _ => String.eqb f g
                                | _, _ => false
                                end
  | _, _ => false
  end.

(* writer entries with the same (non-empty) condition as `c`, as a key list *)
Definition keys_with_cond (c : list string) (ws : list wentry) : list string :=
  map w_key (filter (fun w => list_eqb String.eqb (w_cond w) c) ws).

(* field f is restored by the reader `acts` from what the writer `ws` stored:
   - unconditionally: the last action writing f is `self.f = data[key]` for an unconditional writer entry
     whose source is f;
   - or optionally (a field that may be None): the last action writing f is a conditional read whose
     condition keys are writer entries written under one common condition, f being part of that
     condition; before it f is None (constructor reset) or untouched *)
Inductive restored := NotRestored | Always | OptionalReset | OptionalFresh.

Definition classify (ws : list wentry) (acts : list raction) (f : string) : restored :=
  match last_touch f acts with
  | Some (RSet g key h cond) =>
      match find_w key ws with
      | None => NotRestored
      | Some w =>
          if negb (src_matches w f h) then NotRestored
          else match cond, w_cond w with
               | [], [] => Always
               | _ :: _, _ :: _ =>
                   match h with
                   | Whole =>
                       if mem key cond && mem f (w_cond w)
                          && subsetb cond (keys_with_cond (w_cond w) ws)
                       then match last_touch f (before_last f acts) with
                            | None => OptionalFresh
                            | Some (RReset ns os) => if mem f ns && negb (mem f os) then OptionalReset else NotRestored
                            | Some _ => NotRestored
                            end
                       else NotRestored
                   | _ => NotRestored
                   end
               | _, _ => NotRestored
               end
      end
  | _ => NotRestored
  end.

Definition is_restored (r : restored) : bool := match r with NotRestored => false | _ => true end.

(* a derived field: the last action writing f is  f = fn(arg), arg is restored, and no later action writes arg *)
Definition derived_ok (ws : list wentry) (acts : list raction) (f : string) : bool :=
  match last_touch f acts with
  | Some (RDerive g fn arg) =>
      negb (String.eqb f arg)
      && is_restored (classify ws acts arg)
      && match last_touch arg (after_last f acts) with None => true | Some _ => false end
  | _ => false
  end.

(* no action can fail: every unconditional read has an unconditional writer entry of the right shape;
   a conditional read only reads keys of its own condition (or unconditional ones) *)
Definition how_shape_ok (w : wentry) (h : how) : bool :=
  match w_src w, h with
  | _, Whole => true
  | SrcList fs, Idx i => Nat.ltb i (length fs)
  | SrcList fs, IntIdx i => Nat.ltb i (length fs)
  | SrcList fs, GuardIdx i j => Nat.ltb i (length fs) && Nat.ltb j (length fs)
  | _, _ => false
  end.

Definition action_safe (ws : list wentry) (a : raction) : bool :=
  match a with
  | RSet _ key h cond =>
      match find_w key ws with
      | None => false
      | Some w => how_shape_ok w h
                  && match w_cond w with
                     | [] => true
                     | _ :: _ => mem key cond
                                 && subsetb cond (keys_with_cond (w_cond w) ws)
                                 && match h with Whole => true | _ => false end
                     end
      end
  | _ => true
  end.

(* key hygiene: no two entries can produce the same key, whatever the (distinct) phase names are *)
Definition keys_disjoint (wg wp : list wentry) : bool :=
  nodupb (keys wg) && nodupb (keys wp)
  && forallb (fun p => forallb (fun q => String.eqb p q || negb (comparable p q)) (keys wp)) (keys wp)
  && forallb (fun g => forallb (fun p => negb (prefix p g)) (keys wp)) (keys wg).

(* every key written is read back by some action (nothing saved is silently dropped) *)
Definition reads_key (acts : list raction) (k : string) : bool :=
  existsb (fun a => match a with RSet _ key _ _ => String.eqb k key | _ => false end) acts.

Definition all_keys_read (ws : list wentry) (acts : list raction) : bool :=
  forallb (reads_key acts) (keys ws).

Definition all_reads_written (ws : list wentry) (acts : list raction) : bool :=
  forallb (action_safe ws) acts.

(* the whole structural check for one model class *)
Definition roundtrip_check (wg wp : list wentry) (rg rp : list raction)
           (req_g req_p der_g der_p : list string) : bool :=
  keys_disjoint wg wp
  && all_reads_written wg rg && all_reads_written wp rp
  && forallb (fun f => is_restored (classify wg rg f)) req_g
  && forallb (fun f => is_restored (classify wp rp f)) req_p
  && forallb (derived_ok wg rg) der_g
  && forallb (derived_ok wp rp) der_p.

(* a conditionally written entry stores a field of its own None-guard (so what is written is never None) *)
Definition cond_covers_src (ws : list wentry) : bool :=
  forallb (fun w => match w_cond w, w_src w with
                    | [], _ => true
                    | _ :: _, SrcField f => mem f (w_cond w)
                    | _ :: _, SrcList _ => false
                    end) ws.

Definition full_check (wg wp : list wentry) (rg rp : list raction)
           (req_g req_p der_g der_p : list string) : bool :=
  roundtrip_check wg wp rg rp req_g req_p der_g der_p && cond_covers_src wg && cond_covers_src wp.

(* restored fields that are read back through int(.) / through the constructor's max(10*min, .) *)
Definition int_fields (ws : list wentry) (acts : list raction) : list string :=
  flat_map (fun a => match a with
                     | RSet f _ (IntIdx _) _ => if is_restored (classify ws acts f) then [f] else []
                     | _ => []
                     end) acts.

Definition guard_pairs (ws : list wentry) (acts : list raction) : list (string * string) :=
  flat_map (fun a => match a with
                     | RSet f key (GuardIdx _ j) _ =>
                         if is_restored (classify ws acts f)
                         then match find_w key ws with
                              | Some w => match w_src w with
                                          | SrcList fs => match nth_error fs j with Some fm => [(f, fm)] | None => [] end
                                          | _ => []
                                          end
                              | None => []
                              end
                         else []
                     | _ => []
                     end) acts.

Definition src_fields (w : wentry) : list string :=
  match w_src w with SrcField f => [f] | SrcList fs => fs end.
(* every writer entry that stores one of the fields fs is written only if that field is not None *)
Definition none_guarded (ws : list wentry) (fs : list string) : bool :=
  forallb (fun f => forallb (fun w => negb (mem f (src_fields w)) || mem f (w_cond w)) ws) fs.

(* fields that are NOT saved: no writer entry mentions them *)
Definition saved_fields (ws : list wentry) : list string := flat_map src_fields ws.
Definition unsaved_check (ws : list wentry) (fs : list string) : bool :=
  forallb (fun f => negb (mem f (saved_fields ws))) fs.

(* --- semantics ----------------------------------------------------------------------------- *)
Section Semantics.
  Variable V : Type.                       (* arrays and scalars: opaque *)
  Inductive val := VNone | VArr (v : V) | VList (l : list V).

  Variable to_int : V -> V.                (* int(x) *)
  Variable guard : V -> V -> V.            (* guard m x = np.amax([10*m, x]) *)
  Variable derive : string -> val -> val.  (* "len-1" : array -> its length minus one, ... *)
  Variable const : string -> val.          (* named constants: "True" *)
  Variable default : field -> val.         (* what a constructor puts into a field *)

  Definition state := field -> val.
  Definition dict := list (string * val).  (* most recent assignment first *)

  Definition is_none (v : val) : bool := match v with VNone => true | _ => false end.

  Fixpoint lookup (d : dict) (k : string) : option val :=
    match d with
    | [] => None
    | (k', v) :: r => if String.eqb k k' then Some v else lookup r k
    end.

  Definition upd (s : state) (f : field) (v : val) : state :=
    fun g => if field_eqb g f then v else s g.

  Fixpoint atoms (l : list val) : option (list V) :=
    match l with
    | [] => Some []
    | VArr v :: r => option_map (cons v) (atoms r)
    | _ :: _ => None
    end.

  (* value stored for a writer entry; a list literal with a None component is an object array: VNone *)
  Definition src_val (s : state) (sc : scope) (ph : string) (src : wsrc) : val :=
    match src with
    | SrcField f => s (fld sc f ph)
    | SrcList fs => match atoms (map (fun f => s (fld sc f ph)) fs) with
                    | Some l => VList l
                    | None => VNone
                    end
    end.

  Definition cond_holds (s : state) (sc : scope) (ph : string) (c : list string) : bool :=
    forallb (fun f => negb (is_none (s (fld sc f ph)))) c.

  Definition entry_out (s : state) (sc : scope) (ph : string) (w : wentry) : list (string * val) :=
    if cond_holds s sc ph (w_cond w) then [(key_of sc (w_key w) ph, src_val s sc ph (w_src w))] else [].

  (* assignments in program order: global entries, then for each phase its entries *)
  Definition assignments (wg wp : list wentry) (phases : list string) (s : state) : list (string * val) :=
    flat_map (entry_out s Glob "") wg ++ flat_map (fun ph => flat_map (entry_out s Phase ph) wp) phases.

  Definition toDict (wg wp : list wentry) (phases : list string) (s : state) : dict :=
    rev (assignments wg wp phases s).

  Definition has_none (d : dict) : bool := existsb (fun kv => is_none (snd kv)) d.

  Definition read (d : dict) (key : string) (h : how) : option val :=
    match lookup d key with
    | None => None                                       (* KeyError *)
    | Some v =>
        match h, v with
        | Whole, _ => Some v
        | Idx i, VList l => option_map VArr (nth_error l i)
        | IntIdx i, VList l => option_map (fun x => VArr (to_int x)) (nth_error l i)
        | GuardIdx i j, VList l => match nth_error l i, nth_error l j with
                                   | Some x, Some m => Some (VArr (guard m x))
                                   | _, _ => None
                                   end
        | _, _ => None                                   (* TypeError / IndexError *)
        end
    end.

  Definition has_keys (d : dict) (sc : scope) (ph : string) (cond : list string) : bool :=
    forallb (fun k => match lookup d (key_of sc k ph) with Some _ => true | None => false end) cond.

  Definition step (d : dict) (sc : scope) (ph : string) (a : raction) (s : state) : option state :=
    match a with
    | RSet f key h cond =>
        if has_keys d sc ph cond
        then option_map (upd s (fld sc f ph)) (read d (key_of sc key ph) h)
        else Some s
    | RConst f c cond =>
        if has_keys d sc ph cond then Some (upd s (fld sc f ph) (const c)) else Some s
    | RDerive f fn arg => Some (upd s (fld sc f ph) (derive fn (s (fld sc arg ph))))
    | RReset ns os =>
        Some (fold_left (fun s' f => upd s' (fld sc f ph) (default (fld sc f ph))) os
                (fold_left (fun s' f => upd s' (fld sc f ph) VNone) ns s))
    end.

  Fixpoint run (d : dict) (sc : scope) (ph : string) (acts : list raction) (s : state) : option state :=
    match acts with
    | [] => Some s
    | a :: r => match step d sc ph a s with
                | Some s' => run d sc ph r s'
                | None => None
                end
    end.

  Fixpoint run_phases (d : dict) (rp : list raction) (phases : list string) (s : state) : option state :=
    match phases with
    | [] => Some s
    | ph :: r => match run d Phase ph rp s with
                 | Some s' => run_phases d rp r s'
                 | None => None
                 end
    end.

  Definition fromDict (rg rp : list raction) (phases : list string) (d : dict) (s0 : state) : option state :=
    match run d Glob "" rg s0 with
    | Some s => run_phases d rp phases s
    | None => None
    end.

  (* save to a file and load it into another object; `codec` is numpy's savez_compressed + load *)
  Definition save_load (codec : dict -> option dict) (wg wp : list wentry) (rg rp : list raction)
             (phases : list string) (s s0 : state) : option state :=
    match codec (toDict wg wp phases s) with
    | Some d => fromDict rg rp phases d s0
    | None => None
    end.
End Semantics.

Arguments VNone {V}.
Arguments VArr {V} _.
Arguments VList {V} _.

(* --- what the property asks to be reproduced (written from the property text, not from the code) --- *)
(* every recorded history of a precipitation model (PrecipitationData) ... *)
Definition req_prec_g : list string :=
  [ "pData.time"; "pData.temperature"; "pData.composition"; "pData.xEqAlpha"; "pData.xEqBeta";
    "pData.drivingForce"; "pData.impingement"; "pData.Gcrit"; "pData.Rcrit"; "pData.nucRate";
    "pData.precipitateDensity"; "pData.Rnuc"; "pData.Ravg"; "pData.ARavg"; "pData.volFrac"; "pData.fconc" ].
(* ... its current step counter ... *)
Definition der_prec_g : list string := [ "pData.n" ].
(* ... and per phase the size distribution, its grid, the aspect-ratio table and the recorded size distributions *)
Definition req_prec_p : list string :=
  [ "PBM.PSD"; "PBM.PSDbounds"; "PBM.PSDsize"; "PBM.min"; "PBM.max"; "PBM.bins"; "eqAspectRatio";
    "PBM._recordedTime"; "PBM._recordedBins"; "PBM._recordedPSD" ].
(* diffusion: current time and profile, recorded times and profiles *)
Definition req_diff_g : list string := [ "t"; "x"; "_recordedX"; "_recordedTime" ].
(* strength model: recorded histories *)
Definition req_strength_g : list string := [ "rss"; "ls"; "solidStrength" ].
(* state that is known NOT to be in the file (the extent of the claim) *)
Definition unsaved_prec_g : list string :=
  [ "_isSetup"; "_currY"; "dTemp"; "iterationSinceTempChange"; "RdrivingForceIndex"; "dissolutionIndex"; "growth";
    "PSDXalpha"; "PSDXbeta"; "_precBetaTemp" ].
Definition unsaved_prec_p : list string :=
  [ "PBM.minBins"; "PBM.maxBins"; "PBM._adaptiveBinSize"; "PBM._record"; "PBM.originalMin"; "PBM.originalMax";
    "PBM.originalBins"; "PBM._prevPSD"; "PBM._prevPSDbounds"; "PBM._netFlux" ].
Definition unsaved_diff_g : list string := [ "isSetup"; "_record"; "z"; "dz"; "_currdt" ].

(* fields that are legitimately None (recording disabled): they must only be stored under a None-guard *)
Definition optional_prec_p : list string := [ "PBM._recordedTime"; "PBM._recordedBins"; "PBM._recordedPSD" ].
Definition optional_diff_g : list string := [ "_recordedX"; "_recordedTime" ].

(* a codec that behaves like numpy on the point the model distinguishes: None cannot be stored *)
Definition npz_like {V} (d : dict V) : option (dict V) := if has_none V d then None else Some d.

(* ------------------------------------------------------------------------------------------ *)
(* 1b. file names.  GenericModel.save / load turn the name the caller gives into the name of the file
       that is written / read; the two name functions are GENERATED from the ASTs of save and load.
       The file system is a map from file names to file contents. *)
Inductive namefn := NameId                          (* the name is used as it is *)
                  | NameEnsureSuffix (suf : string). (* if not name.endswith(suf): name += suf *)

Definition ends_with (suf s : string) : bool :=
  Nat.leb (String.length suf) (String.length s)
  && String.eqb (substring (String.length s - String.length suf) (String.length suf) s) suf.

Definition apply_name (f : namefn) (n : string) : string :=
  match f with
  | NameId => n
  | NameEnsureSuffix suf => if ends_with suf n then n else n ++ suf
  end.

Definition name_suffix (f : namefn) : string := match f with NameId => "" | NameEnsureSuffix suf => suf end.

Definition namefn_eqb (f g : namefn) : bool :=
  match f, g with
  | NameId, NameId => true
  | NameEnsureSuffix a, NameEnsureSuffix b => String.eqb a b
  | _, _ => false
  end.

Section Files.
  Variable D : Type.                               (* what a file holds *)
  Definition fsys := string -> option D.
  Definition fs_save (f : namefn) (fs : fsys) (name : string) (d : D) : fsys :=
    fun k => if String.eqb k (apply_name f name) then Some d else fs k.
  Definition fs_load (f : namefn) (fs : fsys) (name : string) : option D := fs (apply_name f name).
  Fixpoint fs_saves (f : namefn) (fs : fsys) (l : list (string * D)) : fsys :=
    match l with
    | [] => fs
    | (n, d) :: r => fs_saves f (fs_save f fs n d) r
    end.
End Files.

(* ------------------------------------------------------------------------------------------ *)
(* 2. un-trained fall-through of the surrogate getters *)
Inductive farg := APos (name : string)            (* positional argument: a name *)
                | AKw (kw name : string)          (* kw=name *)
                | AStar (name : string)           (* *name *)
                | AStarStar (name : string).      (* **name *)

Record ftentry := mkFT { ft_class : string;
                         ft_method : string;
                         ft_params : list string;          (* named parameters after self, in order *)
                         ft_vararg : option string;
                         ft_kwarg : option string;
                         ft_models : string;               (* the `self.<...>Models` dictionary tested *)
                         ft_keyvar : string;               (* the variable tested for membership *)
                         ft_norm : string;                 (* keyvar = <ft_norm>(self.phases, keyvar) before the test *)
                         ft_callee : string;               (* self.therm.<callee>( ... ) in the else branch *)
                         ft_args : list farg }.

Definition pos_names (args : list farg) : list string :=
  flat_map (fun a => match a with APos n => [n] | _ => [] end) args.
Definition kw_pairs (args : list farg) : list (string * string) :=
  flat_map (fun a => match a with AKw k n => [(k, n)] | _ => [] end) args.
Definition star_names (args : list farg) : list string :=
  flat_map (fun a => match a with AStar n => [n] | _ => [] end) args.
Definition starstar_names (args : list farg) : list string :=
  flat_map (fun a => match a with AStarStar n => [n] | _ => [] end) args.

Definition opt_list (o : option string) : list string := match o with Some x => [x] | None => [] end.

Definition farg_eqb (a b : farg) : bool :=
  match a, b with
  | APos x, APos y => String.eqb x y
  | AKw k x, AKw k' y => String.eqb k k' && String.eqb x y
  | AStar x, AStar y => String.eqb x y
  | AStarStar x, AStarStar y => String.eqb x y
  | _, _ => false
  end.

(* the call forwards each parameter of the method exactly once, under its own position / name:
   the first k by position, then *args, then the others as name=name, then **kwargs *)
Definition expected_args (e : ftentry) (k : nat) : list farg :=
  (map APos (firstn k (ft_params e)) ++ map AStar (opt_list (ft_vararg e))
   ++ map (fun p => AKw p p) (skipn k (ft_params e)) ++ map AStarStar (opt_list (ft_kwarg e)))%list.

Definition forwards_own_params (e : ftentry) : bool :=
  list_eqb farg_eqb (ft_args e) (expected_args e (length (pos_names (ft_args e)))).

Definition ft_ok (e : ftentry) : bool :=
  String.eqb (ft_callee e) (ft_method e) && forwards_own_params e.

Definition find_ft (m : string) (t : list ftentry) : list ftentry :=
  filter (fun e => String.eqb m (ft_method e)) t.

(* the quantities of the property and the trained-model dictionary that must guard each *)
Definition quantity_guards : list (string * string) :=
  [ ("getDrivingForce", "drivingForceModels");
    ("getInterdiffusivity", "diffusivityModels");
    ("getTracerDiffusivity", "diffusivityModels");
    ("getInterfacialComposition", "interfacialCompositionModels");
    ("curvatureFactor", "curvatureModels");
    ("getGrowthAndInterfacialComposition", "curvatureModels");
    ("impingementFactor", "curvatureModels") ].

Definition guards_ok (t : list ftentry) : bool :=
  forallb (fun qg => match find_ft (fst qg) t with
                     | [] => false
                     | es => forallb (fun e => String.eqb (ft_models e) (snd qg)) es
                     end) quantity_guards
  && forallb (fun e => mem (ft_method e) (map fst quantity_guards)) t.

Section Fallthrough.
  Variable V : Type.
  (* the thermodynamics object: method name, positional values, keyword values -> result *)
  Variable therm : string -> list V -> list (string * V) -> V.
  Variable norm : string -> V -> V.        (* _getPrecipitatePhase(self.phases, .) / _getMatrixPhase(self.phases, .) *)

  (* environment of a call of the surrogate's method: values of the named parameters, the extra
     positional arguments (bound to *args) and the extra keywords (bound to **kwargs) *)
  Record env := mkEnv { e_named : string -> V; e_extra : list V; e_extrakw : list (string * V) }.

  Definition value_of (e : ftentry) (en : env) (n : string) : V :=
    if String.eqb n (ft_keyvar e) then norm (ft_norm e) (e_named en n) else e_named en n.

  Definition pos_values (e : ftentry) (en : env) : list V :=
    flat_map (fun a => match a with
                       | APos n => [value_of e en n]
                       | AStar _ => e_extra en
                       | _ => []
                       end) (ft_args e).
  Definition kw_values (e : ftentry) (en : env) : list (string * V) :=
    flat_map (fun a => match a with
                       | AKw k n => [(k, value_of e en n)]
                       | AStarStar _ => e_extrakw en
                       | _ => []
                       end) (ft_args e).

  (* value of the un-trained branch *)
  Definition untrained (e : ftentry) (en : env) : V :=
    therm (ft_callee e) (pos_values e en) (kw_values e en).

  (* what the property asks for: the same-named method of the thermodynamics object, called with the
     caller's own arguments - the first k parameters by position, the others by their own name *)
  Definition passthrough (e : ftentry) (k : nat) (en : env) : V :=
    therm (ft_method e)
          (map (value_of e en) (firstn k (ft_params e)) ++ match ft_vararg e with Some _ => e_extra en | None => [] end)
          (map (fun p => (p, value_of e en p)) (skipn k (ft_params e)) ++ match ft_kwarg e with Some _ => e_extrakw en | None => [] end).
End Fallthrough.

(* ------------------------------------------------------------------------------------------ *)
(* 3. RBFKernel: the interpolant is built on normalised training inputs and evaluated on normalised
      query inputs; the two normalisation expressions are generated from RBFKernel.__init__ / predict *)
Section Kernel.
  Variables X Y : Type.
  Variable nrm : string -> X -> X.          (* meaning of a normalisation expression (offset / scale fixed after training) *)
  Variable fit : list (X * Y) -> X -> Y.    (* scipy's RBFInterpolator(nodes, values), as a function of the query point *)

  Definition kernel_predict (train_expr predict_expr : string) (data : list (X * Y)) (x : X) : Y :=
    fit (map (fun p => (nrm train_expr (fst p), snd p)) data) (nrm predict_expr x).
End Kernel.
