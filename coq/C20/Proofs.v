(* C20 - lemmas.  Everything here is discrete (strings, lists, bool): no axioms are used. *)
From Coq Require Import String List Bool Arith Ascii Lia.
Require Import Kawin.C20.Model.
Import ListNotations.
Open Scope string_scope.

(* ------------------------------------------------------------------------------------------ *)
(* strings *)
Lemma prefix_app p x : prefix p (p ++ x) = true.
Proof. induction p as [|a p IH]; simpl. - destruct x; reflexivity. - destruct (ascii_dec a a); [exact IH | congruence]. Qed.

Lemma prefix_nil_l s : prefix "" s = true.
Proof. destruct s; reflexivity. Qed.

Lemma app_eq_comparable p q a b : p ++ a = q ++ b -> prefix p q = true \/ prefix q p = true.
Proof.
  revert q. induction p as [|c p IH]; intros q H.
  - left. apply prefix_nil_l.
  - destruct q as [|d q].
    + right. reflexivity.
    + simpl in H. injection H as Hc Hr. subst d. destruct (IH q Hr) as [Hp|Hp].
      * left. simpl. destruct (ascii_dec c c); [exact Hp|congruence].
      * right. simpl. destruct (ascii_dec c c); [exact Hp|congruence].
Qed.

Lemma app_inj_l p a b : p ++ a = p ++ b -> a = b.
Proof. induction p; simpl; intro H; [exact H | injection H; auto]. Qed.

Lemma app_empty_r s : s ++ "" = s.
Proof. induction s; simpl; congruence. Qed.

Lemma eqb_refl' s : String.eqb s s = true.
Proof. apply String.eqb_refl. Qed.

Lemma mem_In x l : mem x l = true <-> In x l.
Proof.
  unfold mem. rewrite existsb_exists. split.
  - intros [y [Hy He]]. apply String.eqb_eq in He. subst. exact Hy.
  - intro H. exists x. split; [exact H | apply String.eqb_refl].
Qed.

Lemma mem_false x l : mem x l = false <-> ~ In x l.
Proof. rewrite <- mem_In. destruct (mem x l); split; intros; congruence. Qed.

Lemma nodupb_NoDup l : nodupb l = true -> NoDup l.
Proof.
  induction l as [|x r IH]; simpl; intro H; [constructor|].
  apply andb_true_iff in H as [H1 H2]. constructor; [|auto].
  apply negb_true_iff in H1. apply mem_false in H1. exact H1.
Qed.

Lemma subsetb_In l1 l2 : subsetb l1 l2 = true -> forall x, In x l1 -> In x l2.
Proof. unfold subsetb. rewrite forallb_forall. intros H x Hx. apply mem_In. auto. Qed.

Lemma list_eqb_eq (l1 l2 : list string) : list_eqb String.eqb l1 l2 = true <-> l1 = l2.
Proof.
  revert l2. induction l1 as [|a r IH]; destruct l2 as [|b r2]; simpl; split; intro H; try reflexivity; try discriminate.
  - apply andb_true_iff in H as [H1 H2]. apply String.eqb_eq in H1. apply IH in H2. congruence.
  - injection H as -> ->. rewrite String.eqb_refl. simpl. apply IH. reflexivity.
Qed.

Lemma NoDup_map_inj {A B} (f : A -> B) (l : list A) x y :
  NoDup (map f l) -> In x l -> In y l -> f x = f y -> x = y.
Proof.
  induction l as [|a r IH]; simpl; intros Hn Hx Hy He; [contradiction|].
  inversion Hn as [|? ? Hna Hnr]; subst.
  destruct Hx as [->|Hx], Hy as [->|Hy]; auto.
  - exfalso. apply Hna. rewrite He. apply in_map. exact Hy.
  - exfalso. apply Hna. rewrite <- He. apply in_map. exact Hx.
Qed.

(* ------------------------------------------------------------------------------------------ *)
(* fields *)
Lemma field_eqb_eq a b : field_eqb a b = true <-> a = b.
Proof.
  destruct a as [x|x p], b as [y|y q]; simpl; split; intro H; try discriminate; try congruence.
  - apply String.eqb_eq in H. congruence.
  - injection H as ->. apply String.eqb_refl.
  - apply andb_true_iff in H as [H1 H2]. apply String.eqb_eq in H1, H2. congruence.
  - injection H as -> ->. rewrite !String.eqb_refl. reflexivity.
Qed.

Lemma field_eqb_refl a : field_eqb a a = true.
Proof. apply field_eqb_eq. reflexivity. Qed.

Lemma field_eqb_neq a b : a <> b -> field_eqb a b = false.
Proof. intro H. destruct (field_eqb a b) eqn:E; [apply field_eqb_eq in E; contradiction | reflexivity]. Qed.

Lemma fld_inj sc f g ph : fld sc f ph = fld sc g ph -> f = g.
Proof. destruct sc; simpl; congruence. Qed.

(* ------------------------------------------------------------------------------------------ *)
(* last_touch / before_last / after_last *)
Lemma split_last f acts a : last_touch f acts = Some a ->
  acts = (before_last f acts ++ a :: after_last f acts)%list /\ writes a f = true /\ last_touch f (after_last f acts) = None.
Proof.
  induction acts as [|b r IH]; simpl; [discriminate|].
  destruct (last_touch f r) as [c|] eqn:E.
  - intro H. injection H as ->. destruct (IH eq_refl) as [H1 [H2 H3]]. simpl. split; [congruence|auto].
  - destruct (writes b f) eqn:Ew; [|discriminate]. intro H. injection H as ->. simpl. auto.
Qed.

Lemma last_touch_none f acts : last_touch f acts = None -> forall a, In a acts -> writes a f = false.
Proof.
  induction acts as [|b r IH]; simpl; [contradiction|].
  destruct (last_touch f r) eqn:E; [discriminate|]. destruct (writes b f) eqn:Ew; [discriminate|].
  intros _ a [<-|Ha]; auto.
Qed.

Lemma last_touch_In f acts a : last_touch f acts = Some a -> In a acts.
Proof. intro H. destruct (split_last _ _ _ H) as [H1 _]. rewrite H1. apply in_or_app. right. left. reflexivity. Qed.

Lemma before_last_incl f acts a : In a (before_last f acts) -> In a acts.
Proof.
  revert a. induction acts as [|b r IH]; simpl; [contradiction|].
  destruct (last_touch f r); simpl; [|contradiction]. intros a [<-|Ha]; auto.
Qed.

Lemma find_w_Some k ws w : find_w k ws = Some w -> In w ws /\ w_key w = k.
Proof.
  unfold find_w. intro H. apply find_some in H as [H1 H2]. apply String.eqb_eq in H2. auto.
Qed.

Lemma keys_with_cond_In c ws k : In k (keys_with_cond c ws) -> exists w, In w ws /\ w_cond w = c /\ w_key w = k.
Proof.
  unfold keys_with_cond. rewrite in_map_iff. intros [w [Hk Hw]]. apply filter_In in Hw as [Hw Hc].
  apply list_eqb_eq in Hc. eauto.
Qed.

(* ------------------------------------------------------------------------------------------ *)
Section Sem.
  Variable V : Type.
  Variable to_int : V -> V.
  Variable guard : V -> V -> V.
  Variable derive : string -> val V -> val V.
  Variable const : string -> val V.
  Variable default : field -> val V.

  Notation state := (state V).
  Notation dict := (dict V).
  Notation lookup := (lookup V).
  Notation upd := (upd V).

  (* ---- lookup ---- *)
  Lemma lookup_unique (l : dict) k v :
    In (k, v) l -> (forall v', In (k, v') l -> v' = v) -> lookup l k = Some v.
  Proof.
    induction l as [|[k' v'] r IH]; simpl; [contradiction|]. intros Hin Hu.
    destruct (String.eqb k k') eqn:E.
    - apply String.eqb_eq in E. subst k'. f_equal. apply Hu. left. reflexivity.
    - destruct Hin as [H|H]; [injection H as -> ->; rewrite String.eqb_refl in E; discriminate|].
      apply IH; auto.
  Qed.

  Lemma lookup_none (l : dict) k : (forall v, ~ In (k, v) l) -> lookup l k = None.
  Proof.
    induction l as [|[k' v'] r IH]; simpl; [reflexivity|]. intro H.
    destruct (String.eqb k k') eqn:E.
    - apply String.eqb_eq in E. subst. exfalso. apply (H v'). left. reflexivity.
    - apply IH. intros v Hv. apply (H v). right. exact Hv.
  Qed.

  Lemma lookup_Some_In (l : dict) k v : lookup l k = Some v -> In (k, v) l.
  Proof.
    induction l as [|[k' v'] r IH]; simpl; [discriminate|].
    destruct (String.eqb k k') eqn:E.
    - apply String.eqb_eq in E. subst. intro H. injection H as ->. left. reflexivity.
    - intro H. right. auto.
  Qed.

  (* ---- upd ---- *)
  Lemma upd_same (s : state) f v : upd s f v f = v.
  Proof. unfold Model.upd. rewrite field_eqb_refl. reflexivity. Qed.

  Lemma upd_other (s : state) f v g : g <> f -> upd s f v g = s g.
  Proof. intro H. unfold Model.upd. rewrite field_eqb_neq; auto. Qed.

  Lemma fold_upd_in sc ph (vf : string -> val V) l (s : state) f :
    In f l -> fold_left (fun s' g => upd s' (fld sc g ph) (vf g)) l s (fld sc f ph) = vf f.
  Proof.
    revert s. induction l as [|a r IH]; simpl; [contradiction|]. intros s Hin.
    destruct (in_dec string_dec f r) as [Hr|Hr].
    - apply IH. exact Hr.
    - destruct Hin as [->|Hin]; [|contradiction].
      assert (G : forall (s1 : state), fold_left (fun s' g => upd s' (fld sc g ph) (vf g)) r s1 (fld sc f ph) = s1 (fld sc f ph)).
      { clear IH. induction r as [|b r IHr]; simpl; [reflexivity|]. intro s1.
        rewrite IHr. - apply upd_other. intro E. apply fld_inj in E. subst. apply Hr. left. reflexivity.
        - intro H. apply Hr. right. exact H. }
      rewrite G. apply upd_same.
  Qed.

  Lemma fold_upd_notin sc ph (vf : string -> val V) l (s : state) g :
    (forall f, In f l -> g <> fld sc f ph) ->
    fold_left (fun s' f => upd s' (fld sc f ph) (vf f)) l s g = s g.
  Proof.
    revert s. induction l as [|a r IH]; simpl; [reflexivity|]. intros s H.
    rewrite IH. - apply upd_other. apply H. left. reflexivity.
    - intros f Hf. apply H. right. exact Hf.
  Qed.

  (* ---- what the dictionary contains ---- *)
  Lemma In_entry_out s sc ph w k v :
    In (k, v) (entry_out V s sc ph w) <->
    cond_holds V s sc ph (w_cond w) = true /\ k = key_of sc (w_key w) ph /\ v = src_val V s sc ph (w_src w).
  Proof.
    unfold entry_out. destruct (cond_holds V s sc ph (w_cond w)); simpl; split.
    - intros [H|[]]. injection H as <- <-. auto.
    - intros [_ [-> ->]]. left. reflexivity.
    - contradiction.
    - intros [H _]. discriminate.
  Qed.

  Lemma In_assignments wg wp phases s k v :
    In (k, v) (assignments V wg wp phases s) <->
    (exists w, In w wg /\ cond_holds V s Glob "" (w_cond w) = true /\ k = w_key w /\ v = src_val V s Glob "" (w_src w))
    \/ (exists ph w, In ph phases /\ In w wp /\ cond_holds V s Phase ph (w_cond w) = true
                     /\ k = w_key w ++ ph /\ v = src_val V s Phase ph (w_src w)).
  Proof.
    unfold assignments. rewrite in_app_iff, !in_flat_map. split.
    - intros [[w [Hw H]]|[ph [Hph H]]].
      + left. apply In_entry_out in H. destruct H as [H1 [H2 H3]]. exists w. simpl in H2. auto.
      + right. apply in_flat_map in H as [w [Hw H]]. apply In_entry_out in H. destruct H as [H1 [H2 H3]].
        exists ph, w. simpl in H2. auto.
    - intros [[w [Hw [H1 [H2 H3]]]]|[ph [w [Hph [Hw [H1 [H2 H3]]]]]]].
      + left. exists w. split; [exact Hw|]. apply In_entry_out. simpl. auto.
      + right. exists ph. split; [exact Hph|]. apply in_flat_map. exists w. split; [exact Hw|]. apply In_entry_out. simpl. auto.
  Qed.

  Section Keys.
    Variables (wg wp : list wentry) (phases : list string) (s : state).
    Hypothesis Hkeys : keys_disjoint wg wp = true.
    Hypothesis Hph : NoDup phases.

    Lemma keys_facts :
      NoDup (keys wg) /\ NoDup (keys wp)
      /\ (forall p q, In p (keys wp) -> In q (keys wp) -> p <> q -> prefix p q = false /\ prefix q p = false)
      /\ (forall g p, In g (keys wg) -> In p (keys wp) -> prefix p g = false).
    Proof.
      unfold keys_disjoint in Hkeys. apply andb_true_iff in Hkeys as [H123 H4].
      apply andb_true_iff in H123 as [H12 H3]. apply andb_true_iff in H12 as [H1 H2].
      repeat split.
      - apply nodupb_NoDup. exact H1.
      - apply nodupb_NoDup. exact H2.
      - rewrite forallb_forall in H3. specialize (H3 p H). rewrite forallb_forall in H3. specialize (H3 q H0).
        apply orb_true_iff in H3 as [E|E]. + apply String.eqb_eq in E. contradiction.
        + apply negb_true_iff in E. unfold comparable in E. apply orb_false_iff in E. destruct E; auto.
      - rewrite forallb_forall in H3. specialize (H3 p H). rewrite forallb_forall in H3. specialize (H3 q H0).
        apply orb_true_iff in H3 as [E|E]. + apply String.eqb_eq in E. contradiction.
        + apply negb_true_iff in E. unfold comparable in E. apply orb_false_iff in E. destruct E; auto.
      - intros g p Hg Hp. rewrite forallb_forall in H4. specialize (H4 g Hg). rewrite forallb_forall in H4.
        specialize (H4 p Hp). apply negb_true_iff in H4. exact H4.
    Qed.

    (* a global entry's key is produced by that entry only *)
    Lemma lookup_glob w : In w wg ->
      lookup (toDict V wg wp phases s) (w_key w) =
        if cond_holds V s Glob "" (w_cond w) then Some (src_val V s Glob "" (w_src w)) else None.
    Proof.
      intro Hw. destruct keys_facts as [Ng [Np [Hpp Hgp]]].
      assert (U : forall v, In (w_key w, v) (assignments V wg wp phases s) ->
                   cond_holds V s Glob "" (w_cond w) = true /\ v = src_val V s Glob "" (w_src w)).
      { intros v Hin. apply In_assignments in Hin as [[w' [Hw' [Hc [Hk Hv]]]]|[ph [w' [Hp [Hw' [Hc [Hk Hv]]]]]]].
        - assert (w' = w) by (apply (NoDup_map_inj w_key wg); auto). subst w'. auto.
        - exfalso. assert (Hpre : prefix (w_key w') (w_key w) = true) by (rewrite Hk; apply prefix_app).
          rewrite (Hgp (w_key w) (w_key w')) in Hpre; [discriminate| |]; apply in_map; auto. }
      unfold toDict. destruct (cond_holds V s Glob "" (w_cond w)) eqn:Ec.
      - apply lookup_unique.
        + apply in_rev. rewrite rev_involutive. apply In_assignments. left. exists w. auto.
        + intros v' Hv'. apply in_rev in Hv'. apply U in Hv'. destruct Hv'; auto.
      - apply lookup_none. intros v Hv. apply in_rev in Hv. apply U in Hv. destruct Hv. discriminate.
    Qed.

    Lemma lookup_phase w ph : In w wp -> In ph phases ->
      lookup (toDict V wg wp phases s) (w_key w ++ ph) =
        if cond_holds V s Phase ph (w_cond w) then Some (src_val V s Phase ph (w_src w)) else None.
    Proof.
      intros Hw Hin. destruct keys_facts as [Ng [Np [Hpp Hgp]]].
      assert (U : forall v, In (w_key w ++ ph, v) (assignments V wg wp phases s) ->
                   cond_holds V s Phase ph (w_cond w) = true /\ v = src_val V s Phase ph (w_src w)).
      { intros v Hv. apply In_assignments in Hv as [[w' [Hw' [Hc [Hk Hv]]]]|[ph' [w' [Hp [Hw' [Hc [Hk Hv]]]]]]].
        - exfalso. assert (Hpre : prefix (w_key w) (w_key w') = true) by (rewrite <- Hk; apply prefix_app).
          rewrite (Hgp (w_key w') (w_key w)) in Hpre; [discriminate| |]; apply in_map; auto.
        - destruct (string_dec (w_key w) (w_key w')) as [E|E].
          + assert (w' = w) by (apply (NoDup_map_inj w_key wp); auto). subst w'.
            apply app_inj_l in Hk. subst ph'. auto.
          + exfalso. destruct (app_eq_comparable _ _ _ _ Hk) as [P|P];
              destruct (Hpp (w_key w) (w_key w')) as [P1 P2]; try (apply in_map; auto); auto; congruence. }
      unfold toDict. destruct (cond_holds V s Phase ph (w_cond w)) eqn:Ec.
      - apply lookup_unique.
        + apply in_rev. rewrite rev_involutive. apply In_assignments. right. exists ph, w. auto.
        + intros v' Hv'. apply in_rev in Hv'. apply U in Hv'. destruct Hv'; auto.
      - apply lookup_none. intros v Hv. apply in_rev in Hv. apply U in Hv. destruct Hv. discriminate.
    Qed.
  End Keys.

  (* ---- atoms ---- *)
  Lemma atoms_nth (l : list (val V)) (a : list V) i x :
    atoms V l = Some a -> nth_error a i = Some x -> nth_error l i = Some (VArr x).
  Proof.
    revert a i. induction l as [|v r IH]; simpl; intros a i Ha Hn.
    - injection Ha as <-. destruct i; discriminate.
    - destruct v as [|y|]; try discriminate. destruct (atoms V r) as [a'|] eqn:E; [|discriminate].
      simpl in Ha. injection Ha as <-. destruct i; simpl in *.
      + injection Hn as ->. reflexivity.
      + eapply IH; eauto.
  Qed.

  Lemma atoms_length (l : list (val V)) a : atoms V l = Some a -> length a = length l.
  Proof.
    revert a. induction l as [|v r IH]; simpl; intros a Ha.
    - injection Ha as <-. reflexivity.
    - destruct v as [|y|]; try discriminate. destruct (atoms V r) as [a'|] eqn:E; [|discriminate].
      simpl in Ha. injection Ha as <-. simpl. f_equal. auto.
  Qed.

  (* ---- one run of a reader over one scope / phase ---- *)
  Section Run.
    Variable d : dict.
    Variables (sc : scope) (ph : string).

    Notation step := (step V to_int guard derive const default d sc ph).
    Notation run := (run V to_int guard derive const default d sc ph).
    Notation read := (read V to_int guard d).

    Lemma run_app l1 l2 s0 :
      run (l1 ++ l2)%list s0 = match run l1 s0 with Some s1 => run l2 s1 | None => None end.
    Proof. revert s0. induction l1 as [|a r IH]; simpl; intro s0; [reflexivity|]. destruct (step a s0); auto. Qed.

    Lemma step_other a s0 s' g : step a s0 = Some s' -> (forall f, g <> fld sc f ph) -> s' g = s0 g.
    Proof.
      intros H Hg. destruct a as [f key h cond|f c cond|f fn arg|ns os]; simpl in H.
      - destruct (has_keys V d sc ph cond).
        + destruct (read (key_of sc key ph) h); simpl in H; [|discriminate]. injection H as <-. apply upd_other. apply Hg.
        + injection H as <-. reflexivity.
      - destruct (has_keys V d sc ph cond); injection H as <-; [apply upd_other; apply Hg | reflexivity].
      - injection H as <-. apply upd_other. apply Hg.
      - injection H as <-. rewrite (fold_upd_notin sc ph (fun f => default (fld sc f ph))); [|intros; apply Hg].
        rewrite (fold_upd_notin sc ph (fun _ => VNone)); [reflexivity|intros; apply Hg].
    Qed.

    Lemma step_untouched a s0 s' f : step a s0 = Some s' -> writes a f = false -> s' (fld sc f ph) = s0 (fld sc f ph).
    Proof.
      intros H Hw.
      assert (N : forall g, String.eqb f g = false -> fld sc f ph <> fld sc g ph).
      { intros g E C. apply fld_inj in C. subst. rewrite String.eqb_refl in E. discriminate. }
      destruct a as [g key h cond|g c cond|g fn arg|ns os]; simpl in H, Hw.
      - destruct (has_keys V d sc ph cond).
        + destruct (read (key_of sc key ph) h); simpl in H; [|discriminate]. injection H as <-. apply upd_other. auto.
        + injection H as <-. reflexivity.
      - destruct (has_keys V d sc ph cond); injection H as <-; [apply upd_other; auto | reflexivity].
      - injection H as <-. apply upd_other. auto.
      - injection H as <-. apply orb_false_iff in Hw as [H1 H2]. apply mem_false in H1, H2.
        rewrite (fold_upd_notin sc ph (fun f => default (fld sc f ph))).
        + rewrite (fold_upd_notin sc ph (fun _ => VNone)); [reflexivity|].
          intros f' Hf' C. apply fld_inj in C. subst. contradiction.
        + intros f' Hf' C. apply fld_inj in C. subst. contradiction.
    Qed.

    Lemma run_other acts s0 s' g : run acts s0 = Some s' -> (forall f, g <> fld sc f ph) -> s' g = s0 g.
    Proof.
      revert s0. induction acts as [|a r IH]; simpl; intros s0 H Hg.
      - injection H as <-. reflexivity.
      - destruct (step a s0) as [s1|] eqn:E; [|discriminate]. rewrite (IH _ H Hg). eapply step_other; eauto.
    Qed.

    Lemma run_untouched acts s0 s' f : run acts s0 = Some s' -> last_touch f acts = None -> s' (fld sc f ph) = s0 (fld sc f ph).
    Proof.
      revert s0. induction acts as [|a r IH]; simpl; intros s0 H L.
      - injection H as <-. reflexivity.
      - destruct (step a s0) as [s1|] eqn:E; [|discriminate].
        destruct (last_touch f r) eqn:Lr; [discriminate|]. destruct (writes a f) eqn:W; [discriminate|].
        rewrite (IH _ H eq_refl). eapply step_untouched; eauto.
    Qed.

    (* decomposition of a successful run around the last action writing f *)
    Lemma run_split acts s0 s' f a : run acts s0 = Some s' -> last_touch f acts = Some a ->
      exists sa sb, run (before_last f acts) s0 = Some sa /\ step a sa = Some sb
                    /\ s' (fld sc f ph) = sb (fld sc f ph) /\ writes a f = true.
    Proof.
      intros H L. destruct (split_last _ _ _ L) as [E [W N]].
      rewrite E in H. rewrite run_app in H. destruct (run (before_last f acts) s0) as [sa|] eqn:Ea; [|discriminate].
      simpl in H. destruct (step a sa) as [sb|] eqn:Eb; [|discriminate].
      exists sa, sb. repeat split; auto. eapply run_untouched; eauto.
    Qed.

    Lemma step_reset_none ns os s0 s' f : step (RReset ns os) s0 = Some s' -> In f ns -> ~ In f os -> s' (fld sc f ph) = VNone.
    Proof.
      simpl. intros H Hn Ho. injection H as <-.
      rewrite (fold_upd_notin sc ph (fun f => default (fld sc f ph))).
      - apply (fold_upd_in sc ph (fun _ => VNone)). exact Hn.
      - intros f' Hf' C. apply fld_inj in C. subst. contradiction.
    Qed.

    (* ---- the dictionary holds what the writer `ws` stored from the state `s` ---- *)
    Variable ws : list wentry.
    Variable s : state.
    Hypothesis Hd : forall w, In w ws ->
      lookup d (key_of sc (w_key w) ph) =
        if cond_holds V s sc ph (w_cond w) then Some (src_val V s sc ph (w_src w)) else None.

    (* state invariants under which reading back a stored value is the identity *)
    Definition how_inv (w : wentry) (f : string) (h : how) : Prop :=
      match h, w_src w with
      | IntIdx _, SrcList _ => forall x, s (fld sc f ph) = VArr x -> to_int x = x
      | GuardIdx _ j, SrcList fs => forall x m fm, nth_error fs j = Some fm ->
                                       s (fld sc f ph) = VArr x -> s (fld sc fm ph) = VArr m -> guard m x = x
      | _, _ => True
      end.

    Lemma read_back w f key h v :
      find_w key ws = Some w -> src_matches w f h = true -> cond_holds V s sc ph (w_cond w) = true ->
      how_inv w f h -> read (key_of sc key ph) h = Some v -> v = s (fld sc f ph).
    Proof.
      intros F M C I R. apply find_w_Some in F as [Hw Hk]. subst key.
      unfold Model.read in R. rewrite (Hd w Hw), C in R.
      unfold src_matches in M. unfold how_inv in I. unfold src_val in R.
      destruct (w_src w) as [g|fs]; destruct h as [|i|i|i j]; try discriminate.
      - apply String.eqb_eq in M. subst g. injection R as <-. reflexivity.
      - destruct (nth_error fs i) as [g|] eqn:En; [|discriminate]. apply String.eqb_eq in M. subst g.
        destruct (atoms V (map (fun f0 => s (fld sc f0 ph)) fs)) as [l|] eqn:Ea; [|discriminate].
        destruct (nth_error l i) as [x|] eqn:El; [|discriminate]. simpl in R. injection R as <-.
        pose proof (atoms_nth _ _ _ _ Ea El) as P. rewrite nth_error_map, En in P. simpl in P. injection P as P. auto.
      - destruct (nth_error fs i) as [g|] eqn:En; [|discriminate]. apply String.eqb_eq in M. subst g.
        destruct (atoms V (map (fun f0 => s (fld sc f0 ph)) fs)) as [l|] eqn:Ea; [|discriminate].
        destruct (nth_error l i) as [x|] eqn:El; [|discriminate]. simpl in R. injection R as <-.
        pose proof (atoms_nth _ _ _ _ Ea El) as P. rewrite nth_error_map, En in P. simpl in P. injection P as P.
        rewrite (I x P). auto.
      - destruct (nth_error fs i) as [g|] eqn:En; [|discriminate].
        destruct (nth_error fs j) as [fm|] eqn:Em; [|discriminate]. apply String.eqb_eq in M. subst g.
        destruct (atoms V (map (fun f0 => s (fld sc f0 ph)) fs)) as [l|] eqn:Ea; [|discriminate].
        destruct (nth_error l i) as [x|] eqn:El; [|discriminate].
        destruct (nth_error l j) as [m|] eqn:Elm; [|discriminate]. injection R as <-.
        pose proof (atoms_nth _ _ _ _ Ea El) as P. rewrite nth_error_map, En in P. simpl in P. injection P as P.
        pose proof (atoms_nth _ _ _ _ Ea Elm) as Q. rewrite nth_error_map, Em in Q. simpl in Q. injection Q as Q.
        rewrite (I x m fm eq_refl P Q). auto.
    Qed.

    (* whatever is written is not None (the premise `has been solved at least once` + scalar constructor data) *)
    Definition present : Prop := forall w, In w ws -> cond_holds V s sc ph (w_cond w) = true -> src_val V s sc ph (w_src w) <> VNone.
    (* the fields of one None-guard are None together *)
    Definition cond_consistent : Prop := forall w f, In w ws -> cond_holds V s sc ph (w_cond w) = false -> In f (w_cond w) -> s (fld sc f ph) = VNone.

    Lemma cond_holds_nil : cond_holds V s sc ph [] = true.
    Proof. reflexivity. Qed.

    Lemma step_succeeds a s0 : present -> action_safe ws a = true -> exists s1, step a s0 = Some s1.
    Proof.
      intros P A. destruct a as [f key h cond|f c cond|f fn arg|ns os]; simpl; try (eexists; reflexivity).
      - destruct (has_keys V d sc ph cond) eqn:K; [|eexists; reflexivity].
        simpl in A. destruct (find_w key ws) as [w|] eqn:F; [|discriminate].
        apply andb_true_iff in A as [Sh A]. pose proof (find_w_Some _ _ _ F) as [Hw Hk]. subst key.
        destruct (w_cond w) as [|c0 cr] eqn:Ec.
        + (* unconditional entry *)
          assert (L : lookup d (key_of sc (w_key w) ph) = Some (src_val V s sc ph (w_src w))).
          { rewrite (Hd w Hw), Ec. reflexivity. }
          assert (NN : src_val V s sc ph (w_src w) <> VNone) by (apply P; [exact Hw | rewrite Ec; reflexivity]).
          unfold Model.read. rewrite L. unfold how_shape_ok in Sh. unfold src_val in *.
          destruct (w_src w) as [g|fs]; destruct h as [|i|i|i j]; try discriminate; try (eexists; reflexivity).
          * destruct (atoms V (map (fun f0 => s (fld sc f0 ph)) fs)) as [l|] eqn:Ea; [|congruence].
            apply Nat.ltb_lt in Sh. rewrite <- (map_length (fun f0 => s (fld sc f0 ph))), <- (atoms_length _ _ Ea) in Sh.
            apply nth_error_Some in Sh. destruct (nth_error l i); [eexists; reflexivity|congruence].
          * destruct (atoms V (map (fun f0 => s (fld sc f0 ph)) fs)) as [l|] eqn:Ea; [|congruence].
            apply Nat.ltb_lt in Sh. rewrite <- (map_length (fun f0 => s (fld sc f0 ph))), <- (atoms_length _ _ Ea) in Sh.
            apply nth_error_Some in Sh. destruct (nth_error l i); [eexists; reflexivity|congruence].
          * destruct (atoms V (map (fun f0 => s (fld sc f0 ph)) fs)) as [l|] eqn:Ea; [|congruence].
            apply andb_true_iff in Sh as [S1 S2]. apply Nat.ltb_lt in S1, S2.
            rewrite <- (map_length (fun f0 => s (fld sc f0 ph))), <- (atoms_length _ _ Ea) in S1, S2.
            apply nth_error_Some in S1, S2. destruct (nth_error l i); [|congruence]. destruct (nth_error l j); [eexists; reflexivity|congruence].
        + (* conditional entry: its key is one of the tested keys *)
          apply andb_true_iff in A as [A Hh]. apply andb_true_iff in A as [Mk _]. apply mem_In in Mk.
          destruct h; try discriminate.
          unfold has_keys in K. rewrite forallb_forall in K. specialize (K _ Mk).
          unfold Model.read. destruct (lookup d (key_of sc (w_key w) ph)); [eexists; reflexivity|discriminate].
      - destruct (has_keys V d sc ph cond); eexists; reflexivity.
    Qed.

    Lemma run_succeeds acts s0 : present -> forallb (action_safe ws) acts = true -> exists s', run acts s0 = Some s'.
    Proof.
      intro P. revert s0. induction acts as [|a r IH]; simpl; intros s0 A; [eexists; reflexivity|].
      apply andb_true_iff in A as [A1 A2]. destruct (step_succeeds a s0 P A1) as [s1 E]. rewrite E. apply IH. exact A2.
    Qed.

    Definition invariants (acts : list raction) : Prop :=
      forall f, is_restored (classify ws acts f) = true ->
      forall key h cond w, In (RSet f key h cond) acts -> find_w key ws = Some w -> how_inv w f h.

    (* readable forms of the premises *)
    Definition solved : Prop := forall w, In w ws -> w_cond w = [] ->
      match w_src w with
      | SrcField f => s (fld sc f ph) <> VNone
      | SrcList fs => forall f, In f fs -> exists x, s (fld sc f ph) = VArr x
      end.
    Definition ints_ok (acts : list raction) : Prop :=
      forall f x, In f (int_fields ws acts) -> s (fld sc f ph) = VArr x -> to_int x = x.
    Definition guards_hold (acts : list raction) : Prop :=
      forall f fm x m, In (f, fm) (guard_pairs ws acts) -> s (fld sc f ph) = VArr x -> s (fld sc fm ph) = VArr m -> guard m x = x.

    Lemma atoms_all (l : list (val V)) : (forall v, In v l -> exists x, v = VArr x) -> exists a, atoms V l = Some a.
    Proof.
      induction l as [|v r IH]; simpl; intro H; [eexists; reflexivity|].
      destruct (H v (or_introl eq_refl)) as [x ->]. destruct IH as [a Ha]; [intros; apply H; auto|].
      rewrite Ha. eexists; reflexivity.
    Qed.

    Lemma present_of_solved : cond_covers_src ws = true -> solved -> present.
    Proof.
      intros Hc Hs w Hw C. unfold cond_covers_src in Hc. rewrite forallb_forall in Hc. specialize (Hc w Hw).
      specialize (Hs w Hw). unfold src_val. destruct (w_cond w) as [|c0 cr] eqn:Ec.
      - specialize (Hs eq_refl). destruct (w_src w) as [f|fs]; [exact Hs|].
        destruct (atoms_all (map (fun f => s (fld sc f ph)) fs)) as [a Ha].
        + intros v Hv. apply in_map_iff in Hv as [f [<- Hf]]. apply Hs. exact Hf.
        + rewrite Ha. discriminate.
      - destruct (w_src w) as [f|fs]; [|discriminate]. apply mem_In in Hc.
        unfold cond_holds in C. rewrite forallb_forall in C. specialize (C f Hc). apply negb_true_iff in C.
        intro E. rewrite E in C. discriminate.
    Qed.

    Lemma invariants_of acts : ints_ok acts -> guards_hold acts -> invariants acts.
    Proof.
      intros Hi Hg f Hr key h cond w Hin F. unfold how_inv.
      destruct h as [|i|i|i j]; destruct (w_src w) as [g|fs] eqn:Es; try exact I.
      - intros x Hx. apply (Hi f x); [|exact Hx]. unfold int_fields. apply in_flat_map.
        exists (RSet f key (IntIdx i) cond). split; [exact Hin|]. rewrite Hr. left. reflexivity.
      - intros x m fm Hn Hx Hm. apply (Hg f fm x m); auto. unfold guard_pairs. apply in_flat_map.
        exists (RSet f key (GuardIdx i j) cond). split; [exact Hin|]. rewrite Hr, F, Es, Hn. left. reflexivity.
    Qed.

    Lemma forallb_const {A} (p : A -> bool) (l : list A) (b : bool) :
      l <> [] -> (forall x, In x l -> p x = b) -> forallb p l = b.
    Proof.
      destruct l as [|x r]; [congruence|]. intros _ H. simpl. destruct b.
      - rewrite (H x (or_introl eq_refl)). simpl. apply forallb_forall. intros y Hy. apply H. right. exact Hy.
      - rewrite (H x (or_introl eq_refl)). reflexivity.
    Qed.

    Lemma has_keys_group cond c : cond <> [] ->
      subsetb cond (keys_with_cond c ws) = true -> has_keys V d sc ph cond = cond_holds V s sc ph c.
    Proof.
      intros Hne S. unfold has_keys. apply forallb_const; [exact Hne|].
      intros k Hk. pose proof (subsetb_In _ _ S k Hk) as Hin. apply keys_with_cond_In in Hin as [w [Hw [Hcw Hkw]]].
      subst k. rewrite (Hd w Hw), Hcw. destruct (cond_holds V s sc ph c); reflexivity.
    Qed.

    (* the central lemma: a restored field has, after the run, the value it had in the saved state *)
    Lemma restore_field acts s0 s' f :
      run acts s0 = Some s' ->
      classify ws acts f <> NotRestored ->
      (forall key h cond w, In (RSet f key h cond) acts -> find_w key ws = Some w -> how_inv w f h) -> cond_consistent ->
      (classify ws acts f = OptionalFresh -> s (fld sc f ph) = VNone -> s0 (fld sc f ph) = VNone) ->
      s' (fld sc f ph) = s (fld sc f ph).
    Proof.
      intros Hrun Hcl Hinv Hcc Hfresh. unfold classify in Hcl, Hfresh.
      destruct (last_touch f acts) as [a|] eqn:L; [|contradiction].
      destruct a as [g key h cond| | |]; try contradiction.
      destruct (find_w key ws) as [w|] eqn:F; [|contradiction].
      destruct (src_matches w f h) eqn:M; simpl in Hcl, Hfresh; [|contradiction].
      destruct (run_split _ _ _ _ _ Hrun L) as [sa [sb [Ea [Eb [Es W]]]]].
      simpl in W. apply String.eqb_eq in W. subst g. rewrite Es.
      pose proof (Hinv key h cond w (last_touch_In _ _ _ L) F) as I.
      pose proof (find_w_Some _ _ _ F) as [Hw Hk].
      destruct cond as [|k0 kr] eqn:Econd; destruct (w_cond w) as [|c0 cr] eqn:Ec; try contradiction.
      - (* unconditional *)
        simpl in Eb. destruct (read (key_of sc key ph) h) as [v|] eqn:R; simpl in Eb; [|discriminate].
        injection Eb as <-. rewrite upd_same. eapply read_back; eauto. rewrite Ec. reflexivity.
      - (* optional *)
        rewrite <- Econd, <- Ec in *. destruct h; try contradiction.
        destruct (mem key cond && mem f (w_cond w) && subsetb cond (keys_with_cond (w_cond w) ws)) eqn:B; [|contradiction].
        apply andb_true_iff in B as [B B3]. apply andb_true_iff in B as [B1 B2].
        apply mem_In in B1, B2.
        assert (HK : has_keys V d sc ph cond = cond_holds V s sc ph (w_cond w)).
        { apply has_keys_group; [rewrite Econd; discriminate | exact B3]. }
        simpl in Eb. rewrite HK in Eb. destruct (cond_holds V s sc ph (w_cond w)) eqn:C.
        + destruct (read (key_of sc key ph) Whole) as [v|] eqn:R; simpl in Eb; [|discriminate].
          injection Eb as <-. rewrite upd_same. eapply read_back; eauto.
        + injection Eb as <-. rewrite (Hcc w f Hw C B2).
          destruct (last_touch f (before_last f acts)) as [b|] eqn:Lb.
          * destruct b as [| | |ns os]; try contradiction.
            destruct (mem f ns && negb (mem f os)) eqn:Bn; [|contradiction].
            apply andb_true_iff in Bn as [Bn1 Bn2]. apply mem_In in Bn1. apply negb_true_iff in Bn2. apply mem_false in Bn2.
            destruct (run_split _ _ _ _ _ Ea Lb) as [sc1 [sc2 [_ [Eb2 [Es2 _]]]]]. rewrite Es2.
            eapply step_reset_none; eauto.
          * rewrite (run_untouched _ _ _ _ Ea Lb). apply Hfresh; [reflexivity|]. apply (Hcc w f Hw C B2).
    Qed.

    (* derived fields: f = fn(arg) with arg restored and not overwritten later *)
    Lemma derived_field acts s0 s' f :
      run acts s0 = Some s' -> derived_ok ws acts f = true ->
      exists fn arg, In (RDerive f fn arg) acts /\ is_restored (classify ws acts arg) = true
                     /\ s' (fld sc f ph) = derive fn (s' (fld sc arg ph)).
    Proof.
      intros Hrun Hd'. unfold derived_ok in Hd'.
      destruct (last_touch f acts) as [a|] eqn:L; [|discriminate].
      destruct a as [| |g fn arg|]; try discriminate.
      apply andb_true_iff in Hd' as [H12 H3]. apply andb_true_iff in H12 as [H1 H2].
      destruct (split_last _ _ _ L) as [E [W N]]. simpl in W. apply String.eqb_eq in W. subst g.
      exists fn, arg. split; [eapply last_touch_In; eauto|]. split; [exact H2|].
      rewrite E in Hrun. rewrite run_app in Hrun. destruct (run (before_last f acts) s0) as [sa|] eqn:Ea; [|discriminate].
      simpl in Hrun. rewrite (run_untouched _ _ _ _ Hrun N).
      destruct (last_touch arg (after_last f acts)) eqn:La; [discriminate|].
      rewrite (run_untouched _ _ _ _ Hrun La). rewrite upd_same. f_equal. symmetry. apply upd_other.
      intro C. apply fld_inj in C. subst. rewrite String.eqb_refl in H1. discriminate.
    Qed.
  End Run.
End Sem.

(* ------------------------------------------------------------------------------------------ *)
(* save to a file, load into another object *)
Section Roundtrip.
  Variable V : Type.
  Variable to_int : V -> V.
  Variable guard : V -> V -> V.
  Variable derive : string -> val V -> val V.
  Variable const : string -> val V.
  Variable default : field -> val V.
  (* the .npz storage is an oracle: anything that returns what was stored, as long as no value is None *)
  Variable codec : dict V -> option (dict V).
  Hypothesis codec_faithful : forall d, has_none V d = false ->
    exists d', codec d = Some d' /\ forall k, lookup V d' k = lookup V d k.

  Variables (wg wp : list wentry) (rg rp : list raction) (req_g req_p der_g der_p : list string).
  Hypothesis Hcheck : roundtrip_check wg wp rg rp req_g req_p der_g der_p = true.
  Variable phases : list string.
  Hypothesis Hph : NoDup phases.
  Variables s s0 : state V.          (* the saved model, the freshly constructed model *)

  Hypothesis Hpres_g : present V Glob "" wg s.
  Hypothesis Hpres_p : forall ph, In ph phases -> present V Phase ph wp s.
  Hypothesis Hcc_g : cond_consistent V Glob "" wg s.
  Hypothesis Hcc_p : forall ph, In ph phases -> cond_consistent V Phase ph wp s.
  Hypothesis Hinv_g : invariants V to_int guard Glob "" wg s rg.
  Hypothesis Hinv_p : forall ph, In ph phases -> invariants V to_int guard Phase ph wp s rp.
  Hypothesis Hder_g : forall f fn arg, In (RDerive f fn arg) rg -> s (FG f) = derive fn (s (FG arg)).
  Hypothesis Hder_p : forall ph f fn arg, In ph phases -> In (RDerive f fn arg) rp -> s (FP f ph) = derive fn (s (FP arg ph)).
  Hypothesis Hfresh_g : forall f, classify wg rg f = OptionalFresh -> s (FG f) = VNone -> s0 (FG f) = VNone.
  Hypothesis Hfresh_p : forall ph f, In ph phases -> classify wp rp f = OptionalFresh -> s (FP f ph) = VNone -> s0 (FP f ph) = VNone.

  Notation runp := (run_phases V to_int guard derive const default).
  Notation run1 := (run V to_int guard derive const default).

  Lemma check_parts :
    keys_disjoint wg wp = true /\ forallb (action_safe wg) rg = true /\ forallb (action_safe wp) rp = true
    /\ (forall f, In f req_g -> classify wg rg f <> NotRestored)
    /\ (forall f, In f req_p -> classify wp rp f <> NotRestored)
    /\ (forall f, In f der_g -> derived_ok wg rg f = true)
    /\ (forall f, In f der_p -> derived_ok wp rp f = true).
  Proof.
    pose proof Hcheck as H. unfold roundtrip_check in H.
    apply andb_true_iff in H as [H H7]. apply andb_true_iff in H as [H H6]. apply andb_true_iff in H as [H H5].
    apply andb_true_iff in H as [H H4]. apply andb_true_iff in H as [H H3]. apply andb_true_iff in H as [H1 H2].
    rewrite forallb_forall in H4, H5, H6, H7.
    split; [exact H1|]. split; [exact H2|]. split; [exact H3|].
    split; [intros f Hf C; specialize (H4 f Hf); rewrite C in H4; discriminate|].
    split; [intros f Hf C; specialize (H5 f Hf); rewrite C in H5; discriminate|].
    split; [intros f Hf; exact (H6 f Hf) | intros f Hf; exact (H7 f Hf)].
  Qed.

  Lemma nothing_none : has_none V (toDict V wg wp phases s) = false.
  Proof.
    destruct (has_none V (toDict V wg wp phases s)) eqn:E; [|reflexivity]. exfalso.
    unfold has_none in E. apply existsb_exists in E as [[k v] [Hin Hn]]. simpl in Hn.
    unfold toDict in Hin. apply in_rev in Hin. destruct v; try discriminate.
    apply In_assignments in Hin as [[w [Hw [Hc [_ Hv]]]]|[ph [w [Hp [Hw [Hc [_ Hv]]]]]]].
    - apply (Hpres_g w Hw Hc). auto.
    - apply (Hpres_p ph Hp w Hw Hc). auto.
  Qed.

  Lemma run_phases_other d l s1 s' g :
    runp d rp l s1 = Some s' -> (forall ph f, In ph l -> g <> FP f ph) -> s' g = s1 g.
  Proof.
    revert s1. induction l as [|p r IH]; simpl; intros s1 H Hg.
    - injection H as <-. reflexivity.
    - destruct (run1 d Phase p rp s1) as [s2|] eqn:E; [|discriminate].
      rewrite (IH _ H); [|intros; apply Hg; auto].
      eapply run_other; [exact E|]. intros f. simpl. apply Hg. left. reflexivity.
  Qed.

  Lemma run_phases_at d l s1 s' ph :
    NoDup l -> In ph l -> runp d rp l s1 = Some s' ->
    exists sa sb, run1 d Phase ph rp sa = Some sb /\ (forall f, sa (FP f ph) = s1 (FP f ph))
                  /\ (forall f, s' (FP f ph) = sb (FP f ph)).
  Proof.
    revert s1. induction l as [|p r IH]; simpl; intros s1 Hn Hin H; [contradiction|].
    inversion Hn as [|? ? Hnp Hnr]; subst.
    destruct (run1 d Phase p rp s1) as [s2|] eqn:E; [|discriminate].
    destruct (string_dec p ph) as [->|Hne].
    - exists s1, s2. repeat split; auto. intro f. eapply run_phases_other; eauto.
      intros q f' Hq C. injection C as _ ->. contradiction.
    - destruct Hin as [->|Hin]; [contradiction|].
      destruct (IH s2 Hnr Hin H) as [sa [sb [R [A B]]]]. exists sa, sb. repeat split; auto.
      intro f. rewrite A. eapply run_other; eauto. intros f' C. simpl in C. injection C as _ ->. contradiction.
  Qed.

  Lemma run_phases_succeeds d l s1 :
    (forall ph, In ph l -> forall sa, exists sb, run1 d Phase ph rp sa = Some sb) ->
    exists s', runp d rp l s1 = Some s'.
  Proof.
    revert s1. induction l as [|p r IH]; simpl; intros s1 H; [eexists; reflexivity|].
    destruct (H p (or_introl eq_refl) s1) as [sb E]. rewrite E.
    apply IH. intros; apply H; auto.
  Qed.

  Theorem roundtrip_sound :
    exists s', save_load V to_int guard derive const default codec wg wp rg rp phases s s0 = Some s'
      /\ (forall f, In f req_g \/ In f der_g -> s' (FG f) = s (FG f))
      /\ (forall ph f, In ph phases -> In f req_p \/ In f der_p -> s' (FP f ph) = s (FP f ph)).
  Proof.
    destruct check_parts as [Hk [Sg [Sp [Rg [Rp [Dg Dp]]]]]].
    destruct (codec_faithful _ nothing_none) as [d [Hc Hl]].
    assert (HdG : forall w, In w wg -> lookup V d (key_of Glob (w_key w) "") =
              if cond_holds V s Glob "" (w_cond w) then Some (src_val V s Glob "" (w_src w)) else None).
    { intros w Hw. simpl. rewrite Hl. apply lookup_glob; auto. }
    assert (HdP : forall ph, In ph phases -> forall w, In w wp -> lookup V d (key_of Phase (w_key w) ph) =
              if cond_holds V s Phase ph (w_cond w) then Some (src_val V s Phase ph (w_src w)) else None).
    { intros ph Hp w Hw. simpl. rewrite Hl. apply lookup_phase; auto. }
    unfold save_load. rewrite Hc. unfold fromDict.
    destruct (run_succeeds V to_int guard derive const default d Glob "" wg s HdG rg s0 Hpres_g Sg) as [s1 E1].
    rewrite E1.
    destruct (run_phases_succeeds d phases s1) as [s' E2].
    { intros ph Hp sa.
      apply (run_succeeds V to_int guard derive const default d Phase ph wp s (HdP ph Hp) rp sa (Hpres_p ph Hp) Sp). }
    exists s'. split; [exact E2|]. split.
    - (* global fields: untouched by the per-phase part *)
      assert (G : forall f, s' (FG f) = s1 (FG f)).
      { intro f. eapply run_phases_other; eauto. intros; discriminate. }
      assert (R : forall f, classify wg rg f <> NotRestored -> s1 (FG f) = s (FG f)).
      { intros f Hf. apply (restore_field V to_int guard derive const default d Glob "" wg s HdG rg s0 s1 f E1 Hf).
        - apply Hinv_g. destruct (classify wg rg f); [contradiction| | |]; reflexivity.
        - exact Hcc_g.
        - apply Hfresh_g. }
      intros f [Hf|Hf]; rewrite G.
      + apply R. auto.
      + destruct (derived_field V to_int guard derive const default d Glob "" wg rg s0 s1 f E1 (Dg f Hf)) as [fn [arg [Hin [Hr Hv]]]].
        simpl in Hv. rewrite Hv. rewrite (Hder_g f fn arg Hin). f_equal. apply R.
        intro C. rewrite C in Hr. discriminate.
    - intros ph f Hp Hf.
      destruct (run_phases_at d phases s1 s' ph Hph Hp E2) as [sa [sb [Er [Ha Hb]]]].
      rewrite Hb.
      assert (S0 : forall g, sa (FP g ph) = s0 (FP g ph)).
      { intro g. rewrite Ha. eapply run_other; eauto. intros f' C. simpl in C. discriminate. }
      assert (R : forall g, classify wp rp g <> NotRestored -> sb (FP g ph) = s (FP g ph)).
      { intros g Hg. apply (restore_field V to_int guard derive const default d Phase ph wp s (HdP ph Hp) rp sa sb g Er Hg).
        - apply (Hinv_p ph Hp). destruct (classify wp rp g); [contradiction| | |]; reflexivity.
        - exact (Hcc_p ph Hp).
        - simpl. rewrite S0. apply Hfresh_p. exact Hp. }
      destruct Hf as [Hf|Hf].
      + apply R. auto.
      + destruct (derived_field V to_int guard derive const default d Phase ph wp rp sa sb f Er (Dp f Hf)) as [fn [arg [Hin [Hr Hv]]]].
        simpl in Hv. rewrite Hv. rewrite (Hder_p ph f fn arg Hp Hin). f_equal. apply R.
        intro C. rewrite C in Hr. discriminate.
  Qed.
End Roundtrip.

(* ------------------------------------------------------------------------------------------ *)
(* surrogate fall-through *)
Lemma farg_eqb_eq a b : farg_eqb a b = true <-> a = b.
Proof.
  destruct a, b; simpl; split; intro H; try discriminate; try congruence;
    try (apply String.eqb_eq in H; congruence);
    try (injection H as ->; apply String.eqb_refl).
  - apply andb_true_iff in H as [H1 H2]. apply String.eqb_eq in H1, H2. congruence.
  - injection H as -> ->. rewrite !String.eqb_refl. reflexivity.
Qed.

Lemma list_eqb_farg l1 l2 : list_eqb farg_eqb l1 l2 = true -> l1 = l2.
Proof.
  revert l2. induction l1 as [|a r IH]; destruct l2 as [|b r2]; simpl; intro H; try reflexivity; try discriminate.
  apply andb_true_iff in H as [H1 H2]. apply farg_eqb_eq in H1. apply IH in H2. congruence.
Qed.

Section FallthroughProofs.
  Variable V : Type.
  Variable therm : string -> list V -> list (string * V) -> V.
  Variable norm : string -> V -> V.

  Theorem fallthrough_sound e : ft_ok e = true ->
    ft_callee e = ft_method e /\
    forall en, untrained V therm norm e en = passthrough V therm norm e (length (pos_names (ft_args e))) en.
  Proof.
    unfold ft_ok. intro H. apply andb_true_iff in H as [H1 H2]. apply String.eqb_eq in H1.
    split; [exact H1|]. intro en. unfold untrained, passthrough. rewrite H1. f_equal.
    - unfold pos_values. unfold forwards_own_params in H2. apply list_eqb_farg in H2.
      set (k := length (pos_names (ft_args e))) in *. rewrite H2. unfold expected_args.
      rewrite !flat_map_app. f_equal.
      + induction (firstn k (ft_params e)) as [|p r IH]; simpl; [reflexivity|]. f_equal. exact IH.
      + replace (flat_map (fun a => match a with APos n => [value_of V norm e en n] | AStar _ => e_extra V en | _ => [] end)
                          (map (fun p => AKw p p) (skipn k (ft_params e)))) with (@nil V)
          by (induction (skipn k (ft_params e)); simpl; auto).
        replace (flat_map (fun a => match a with APos n => [value_of V norm e en n] | AStar _ => e_extra V en | _ => [] end)
                          (map AStarStar (opt_list (ft_kwarg e)))) with (@nil V)
          by (destruct (ft_kwarg e); simpl; auto).
        rewrite !app_nil_r. destruct (ft_vararg e); simpl; [rewrite app_nil_r|]; reflexivity.
    - unfold kw_values. unfold forwards_own_params in H2. apply list_eqb_farg in H2.
      set (k := length (pos_names (ft_args e))) in *. rewrite H2. unfold expected_args.
      rewrite !flat_map_app.
      replace (flat_map (fun a => match a with AKw k0 n => [(k0, value_of V norm e en n)] | AStarStar _ => e_extrakw V en | _ => [] end)
                        (map APos (firstn k (ft_params e)))) with (@nil (string * V))
        by (induction (firstn k (ft_params e)); simpl; auto).
      replace (flat_map (fun a => match a with AKw k0 n => [(k0, value_of V norm e en n)] | AStarStar _ => e_extrakw V en | _ => [] end)
                        (map AStar (opt_list (ft_vararg e)))) with (@nil (string * V))
        by (destruct (ft_vararg e); simpl; auto).
      simpl. f_equal.
      + induction (skipn k (ft_params e)) as [|p r IH]; simpl; [reflexivity|]. f_equal. exact IH.
      + destruct (ft_kwarg e); simpl; [rewrite app_nil_r|]; reflexivity.
  Qed.
End FallthroughProofs.

(* every quantity of the property has a getter in the table, guarded by its own trained-model dictionary *)
Lemma guards_sound t : guards_ok t = true ->
  forall q g, In (q, g) quantity_guards ->
    (exists e, In e t /\ ft_method e = q) /\ (forall e, In e t -> ft_method e = q -> ft_models e = g).
Proof.
  unfold guards_ok. intro H. apply andb_true_iff in H as [H _]. rewrite forallb_forall in H.
  intros q g Hin. specialize (H _ Hin). cbv beta in H. unfold fst, snd in H.
  assert (NE : find_ft q t <> []) by (destruct (find_ft q t); [discriminate|congruence]).
  assert (A : forallb (fun e => String.eqb (ft_models e) g) (find_ft q t) = true).
  { destruct (find_ft q t); [contradiction|exact H]. }
  rewrite forallb_forall in A. split.
  - destruct (find_ft q t) as [|e0 r] eqn:E; [contradiction|]. exists e0.
    assert (Hi : In e0 (find_ft q t)) by (rewrite E; left; reflexivity).
    unfold find_ft in Hi. apply filter_In in Hi as [Hi He]. apply String.eqb_eq in He. auto.
  - intros e He Hm. assert (Hi : In e (find_ft q t)).
    { unfold find_ft. apply filter_In. split; [exact He|]. rewrite Hm. apply String.eqb_refl. }
    specialize (A e Hi). apply String.eqb_eq in A. exact A.
Qed.

(* ------------------------------------------------------------------------------------------ *)
(* the round-trip theorem with premises stated on the saved and the fresh object *)
Section Readable.
  Variable V : Type.
  Variable to_int : V -> V.
  Variable guard : V -> V -> V.
  Variable derive : string -> val V -> val V.
  Variable const : string -> val V.
  Variable default : field -> val V.
  Variable codec : dict V -> option (dict V).
  Hypothesis codec_faithful : forall d, has_none V d = false ->
    exists d', codec d = Some d' /\ forall k, lookup V d' k = lookup V d k.
  Variables (wg wp : list wentry) (rg rp : list raction) (req_g req_p der_g der_p : list string).
  Hypothesis Hfull : full_check wg wp rg rp req_g req_p der_g der_p = true.
  Variable phases : list string.
  Hypothesis Hph : NoDup phases.
  Variables s s0 : state V.
  (* `has been solved at least once`: every field that is stored unconditionally holds a value *)
  Hypothesis Hsolved_g : solved V Glob "" wg s.
  Hypothesis Hsolved_p : forall ph, In ph phases -> solved V Phase ph wp s.
  (* the fields of one None-guard (the recorded arrays of one model / phase) are None together *)
  Hypothesis Hcc_g : cond_consistent V Glob "" wg s.
  Hypothesis Hcc_p : forall ph, In ph phases -> cond_consistent V Phase ph wp s.
  (* the number of bins is an integer; max >= 10 min *)
  Hypothesis Hint_g : ints_ok V to_int Glob "" wg s rg.
  Hypothesis Hint_p : forall ph, In ph phases -> ints_ok V to_int Phase ph wp s rp.
  Hypothesis Hgd_g : guards_hold V guard Glob "" wg s rg.
  Hypothesis Hgd_p : forall ph, In ph phases -> guards_hold V guard Phase ph wp s rp.
  (* derived fields satisfy their defining equation in the saved state (n = len(time) - 1) *)
  Hypothesis Hder_g : forall f fn arg, In (RDerive f fn arg) rg -> s (FG f) = derive fn (s (FG arg)).
  Hypothesis Hder_p : forall ph f fn arg, In ph phases -> In (RDerive f fn arg) rp -> s (FP f ph) = derive fn (s (FP arg ph)).
  (* `freshly constructed model of the same configuration`: an optional field that no constructor call
     resets and that is None in the saved model is None in the fresh one *)
  Hypothesis Hfresh_g : forall f, classify wg rg f = OptionalFresh -> s (FG f) = VNone -> s0 (FG f) = VNone.
  Hypothesis Hfresh_p : forall ph f, In ph phases -> classify wp rp f = OptionalFresh -> s (FP f ph) = VNone -> s0 (FP f ph) = VNone.

  Theorem roundtrip_readable :
    exists s', save_load V to_int guard derive const default codec wg wp rg rp phases s s0 = Some s'
      /\ (forall f, In f req_g \/ In f der_g -> s' (FG f) = s (FG f))
      /\ (forall ph f, In ph phases -> In f req_p \/ In f der_p -> s' (FP f ph) = s (FP f ph)).
  Proof.
    unfold full_check in Hfull. apply andb_true_iff in Hfull as [H12 H3]. apply andb_true_iff in H12 as [H1 H2].
    apply (roundtrip_sound V to_int guard derive const default codec codec_faithful wg wp rg rp req_g req_p der_g der_p H1 phases Hph s s0); auto.
    - apply present_of_solved; auto.
    - intros ph Hp. apply present_of_solved; auto.
    - apply invariants_of; auto.
    - intros ph Hp. apply invariants_of; auto.
  Qed.
End Readable.

(* fields that no writer entry mentions are not in the file *)
Lemma unsaved_sound ws fs : unsaved_check ws fs = true ->
  forall f w, In f fs -> In w ws -> ~ In f (src_fields w).
Proof.
  unfold unsaved_check. rewrite forallb_forall. intros H f w Hf Hw C. specialize (H f Hf).
  apply negb_true_iff in H. apply mem_false in H. apply H. unfold saved_fields. apply in_flat_map. eauto.
Qed.

(* what the reader does not write keeps the value of the freshly constructed object; what a constructor
   call resets and nothing restores afterwards holds the constructor's value *)
Section Extent.
  Variable V : Type.
  Variable to_int : V -> V.
  Variable guard : V -> V -> V.
  Variable derive : string -> val V -> val V.
  Variable const : string -> val V.
  Variable default : field -> val V.
  Variable codec : dict V -> option (dict V).
  Variables (wg wp : list wentry) (rg rp : list raction) (phases : list string) (s s0 s' : state V).
  Hypothesis Hload : save_load V to_int guard derive const default codec wg wp rg rp phases s s0 = Some s'.

  Lemma load_keeps_unread_global f : last_touch f rg = None -> s' (FG f) = s0 (FG f).
  Proof.
    intro L. unfold save_load in Hload. destruct (codec (toDict V wg wp phases s)) as [d|]; [|discriminate].
    unfold fromDict in Hload. destruct (run V to_int guard derive const default d Glob "" rg s0) as [s1|] eqn:E; [|discriminate].
    rewrite (run_phases_other V to_int guard derive const default rp d phases s1 s' (FG f) Hload); [|intros; discriminate].
    apply (run_untouched V to_int guard derive const default d Glob "" rg s0 s1 f E L).
  Qed.

  Lemma load_keeps_unread_phase f ph : NoDup phases -> In ph phases -> last_touch f rp = None -> s' (FP f ph) = s0 (FP f ph).
  Proof.
    intros Hn Hp L. unfold save_load in Hload. destruct (codec (toDict V wg wp phases s)) as [d|]; [|discriminate].
    unfold fromDict in Hload. destruct (run V to_int guard derive const default d Glob "" rg s0) as [s1|] eqn:E; [|discriminate].
    destruct (run_phases_at V to_int guard derive const default rp d phases s1 s' ph Hn Hp Hload) as [sa [sb [Er [Ha Hb]]]].
    rewrite Hb. pose proof (run_untouched V to_int guard derive const default d Phase ph rp sa sb f Er L) as U.
    simpl in U. rewrite U, Ha.
    apply (run_other V to_int guard derive const default d Glob "" rg s0 s1 (FP f ph) E). intros f' C. discriminate.
  Qed.
End Extent.

Lemma none_guarded_sound ws fs : none_guarded ws fs = true ->
  forall f w, In f fs -> In w ws -> In f (src_fields w) -> In f (w_cond w).
Proof.
  unfold none_guarded. rewrite forallb_forall. intros H f w Hf Hw Hs. specialize (H f Hf).
  rewrite forallb_forall in H. specialize (H w Hw). apply orb_true_iff in H as [H|H].
  - apply negb_true_iff in H. apply mem_false in H. contradiction.
  - apply mem_In. exact H.
Qed.

(* ------------------------------------------------------------------------------------------ *)
(* RBFKernel *)
Lemma kernel_interpolates (X Y : Type) (nrm : string -> X -> X) (fit : list (X * Y) -> X -> Y) te pe data :
  String.eqb te pe = true ->
  (forall nodes x y, In (x, y) nodes -> (forall y', In (x, y') nodes -> y' = y) -> fit nodes x = y) ->
  forall x y, In (x, y) data -> (forall x' y', In (x', y') data -> nrm te x' = nrm te x -> y' = y) ->
  kernel_predict X Y nrm fit te pe data x = y.
Proof.
  intros E Hfit x y Hin Hfun. apply String.eqb_eq in E. subst pe. unfold kernel_predict. apply Hfit.
  - apply in_map_iff. exists (x, y). split; [reflexivity|exact Hin].
  - intros y' Hy'. apply in_map_iff in Hy' as [[x' y''] [Heq Hin']]. simpl in Heq. injection Heq as Hn ->.
    eapply Hfun; eauto.
Qed.

(* ------------------------------------------------------------------------------------------ *)
(* file names and files side by side *)
Lemma length_app (a b : string) : String.length (a ++ b) = String.length a + String.length b.
Proof. induction a as [|c a IH]; simpl; [reflexivity|]. rewrite IH. reflexivity. Qed.

Lemma app_inj_r (a b s : string) : a ++ s = b ++ s -> a = b.
Proof.
  revert b. induction a as [|c a IH]; intros b H.
  - destruct b as [|d b]; [reflexivity|]. exfalso. apply (f_equal String.length) in H.
    simpl in H. rewrite length_app in H. lia.
  - destruct b as [|d b].
    + exfalso. apply (f_equal String.length) in H. simpl in H. rewrite length_app in H. lia.
    + simpl in H. injection H as -> H. f_equal. auto.
Qed.

(* two names denote the same file only if they are equal or differ by exactly the suffix *)
Definition alias (f : namefn) (a b : string) : Prop :=
  a = b \/ a = b ++ name_suffix f \/ b = a ++ name_suffix f.

Lemma name_collision f a b : apply_name f a = apply_name f b -> alias f a b.
Proof.
  unfold alias. destruct f as [|suf]; simpl; [auto|].
  destruct (ends_with suf a), (ends_with suf b); intro H; auto.
  left. eapply app_inj_r; eauto.
Qed.

Lemma namefn_eqb_eq f g : namefn_eqb f g = true -> f = g.
Proof. destruct f, g; simpl; intro H; try discriminate; [reflexivity|]. apply String.eqb_eq in H. congruence. Qed.

Section FilesProofs.
  Variable D : Type.

  Lemma fs_saves_app f (fs : fsys D) l1 l2 : fs_saves D f fs (l1 ++ l2)%list = fs_saves D f (fs_saves D f fs l1) l2.
  Proof. revert fs. induction l1 as [|[n d] r IH]; simpl; intro fs; [reflexivity|apply IH]. Qed.

  Lemma fs_saves_other f (fs : fsys D) l k :
    (forall n d, In (n, d) l -> apply_name f n <> k) -> fs_saves D f fs l k = fs k.
  Proof.
    revert fs. induction l as [|[n d] r IH]; simpl; intros fs H; [reflexivity|].
    rewrite IH; [|intros; eapply H; eauto]. unfold fs_save.
    destruct (String.eqb k (apply_name f n)) eqn:E; [|reflexivity].
    apply String.eqb_eq in E. exfalso. eapply H; [left; reflexivity|]. auto.
  Qed.

  (* any number of models saved one after the other: loading a name gives back what was saved under it,
     whatever was saved before and after, as long as no LATER save used an alias of that name *)
  Theorem files_independent fsave fload (fs : fsys D) pre n d post :
    namefn_eqb fsave fload = true ->
    (forall n' d', In (n', d') post -> ~ alias fsave n' n) ->
    fs_load D fload (fs_saves D fsave fs (pre ++ (n, d) :: post)%list) n = Some d.
  Proof.
    intros E H. apply namefn_eqb_eq in E. subst fload. unfold fs_load.
    rewrite fs_saves_app. simpl. rewrite fs_saves_other.
    - unfold fs_save. rewrite String.eqb_refl. reflexivity.
    - intros n' d' Hin C. apply (H n' d' Hin). apply name_collision. exact C.
  Qed.
End FilesProofs.
