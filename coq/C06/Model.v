(* C06 - Integrators reach their nominal order, also for time-dependent problems.

   The model of the CODE (kawin/solver/Iterators.py, DESolver._getdXdt/_updateX) is NOT in this
   file: it is regenerated from the source on every run by harness/c06_translate.py as
   build/C06/Iterators_gen.v and the theorems of run/Bridge.v + run/Properties.v are re-checked
   against that text.  This file holds the hand-written SPECIFICATIONS the generated text is compared
   with, as executable definitions only:
     - real vector spaces (the state type of an iterator),
     - explicit Runge-Kutta steps for an arbitrary Butcher tableau with rational coefficients,
       with the stage times  t + c_i h  and stage states  x + h sum_j a_ij k_j,
     - the two tableaus kawin documents (explicit Euler, classical RK4),
     - the iterators exactly as their docstrings state them,
     - Butcher's order conditions computed from rooted trees, and the row-sum condition
       c_i = sum_j a_ij (the condition that carries the order over to time-dependent problems),
     - Taylor polynomials (what a one-step method of order p reproduces),
     - list vectors over the scalar record (execution of the generated text on exact rationals). *)
From Coq Require Import Reals QArith Qreals List Bool ZArith.
Require Import Kawin.Common.Ops.
Import ListNotations.

(* ---- real vector spaces --------------------------------------------------------------- *)
Record vspace := mkVS {
  vcar :> Type;
  vzero : vcar;
  vadd : vcar -> vcar -> vcar;
  smul : R -> vcar -> vcar;
  vadd_comm : forall a b, vadd a b = vadd b a;
  vadd_assoc : forall a b c, vadd a (vadd b c) = vadd (vadd a b) c;
  vadd_0_r : forall a, vadd a vzero = a;
  smul_vadd : forall c a b, smul c (vadd a b) = vadd (smul c a) (smul c b);
  smul_plus : forall c d a, smul (c + d)%R a = vadd (smul c a) (smul d a);
  smul_smul : forall c d a, smul c (smul d a) = smul (c * d)%R a;
  smul_1 : forall a, smul 1%R a = a;
  smul_0 : forall a, smul 0%R a = vzero }.
Arguments vzero {v}.
Arguments vadd {v} _ _.
Arguments smul {v} _ _.

(* what DESolver._updateX computes when the model does not correct the derivative *)
Definition plain_update {VS : vspace} (x k : VS) (h : R) : VS := vadd x (smul h k).

(* ---- explicit Runge-Kutta methods ------------------------------------------------------- *)
Record tableau := mkTab { tc : list Q;            (* nodes  c_i *)
                          ta : list (list Q);     (* strictly lower triangular rows a_i1 .. a_i,i-1 *)
                          tb : list Q }.          (* weights b_i *)

Section RK.
Variable VS : vspace.
Variable f : R -> VS -> VS.

Fixpoint lincomb (cs : list Q) (ks : list VS) : VS :=
  match cs, ks with
  | c :: cs', k :: ks' => vadd (smul (Q2R c) k) (lincomb cs' ks')
  | _, _ => vzero
  end.

(* stage i:  k_i = f (t + c_i h) (x + h sum_j a_ij k_j) *)
Fixpoint rk_stages (t : R) (x : VS) (h : R) (cs : list Q) (rows : list (list Q)) (ks : list VS) : list VS :=
  match cs, rows with
  | c :: cs', a :: rows' =>
      rk_stages t x h cs' rows' (ks ++ [f (t + Q2R c * h)%R (vadd x (smul h (lincomb a ks)))])
  | _, _ => ks
  end.

Definition rk_step (tab : tableau) (t : R) (x : VS) (h : R) : VS :=
  vadd x (smul h (lincomb (tb tab) (rk_stages t x h (tc tab) (ta tab) []))).

(* the iterators as kawin's docstrings state them (Iterators.py:10-12 and 40-45; the docstring's
   "k4 = f(t + dt, X_n, k3 * dt)" is read as X_n + k3 * dt) *)
Definition Euler_doc (t : R) (x : VS) (dt : R) : VS :=
  vadd x (smul dt (f t x)).

Definition RK4_doc (t : R) (x : VS) (dt : R) : VS :=
  let k1 := f t x in
  let k2 := f (t + dt / 2)%R (vadd x (smul (dt / 2)%R k1)) in
  let k3 := f (t + dt / 2)%R (vadd x (smul (dt / 2)%R k2)) in
  let k4 := f (t + dt)%R (vadd x (smul dt k3)) in
  vadd x (smul dt (smul (1 / 6)%R (vadd (vadd (vadd k1 (smul 2%R k2)) (smul 2%R k3)) k4))).

(* the times at which one step evaluates the derivative *)
Definition stage_times (tab : tableau) (t h : R) : list R := map (fun c => (t + Q2R c * h)%R) (tc tab).
End RK.

Definition euler1 : tableau := mkTab [0%Q] [[]] [1%Q].
Definition classic4 : tableau :=
  mkTab [0; 1 # 2; 1 # 2; 1]%Q
        [[]; [1 # 2]; [0; 1 # 2]; [0; 0; 1]]%Q
        [1 # 6; 1 # 3; 1 # 3; 1 # 6]%Q.

(* ---- order conditions (Butcher): one condition per rooted tree ----------------------------- *)
Inductive tree := Node (children : list tree).

Fixpoint torder (t : tree) : nat :=
  match t with
  | Node ch => S ((fix go (l : list tree) := match l with [] => O | c :: l' => (torder c + go l')%nat end) ch)
  end.

(* density gamma(tau) = |tau| * prod gamma(children) *)
Fixpoint tgamma (t : tree) : Q :=
  match t with
  | Node ch => (inject_Z (Z.of_nat (torder t)) *
                (fix go (l : list tree) := match l with [] => 1 | c :: l' => tgamma c * go l' end) ch)%Q
  end.

Definition dotQ (a b : list Q) : Q := fold_right Qplus 0%Q (map (fun p => (fst p * snd p)%Q) (combine a b)).
Definition matvecQ (A : list (list Q)) (v : list Q) : list Q := map (fun row => dotQ row v) A.
Definition mulvQ (a b : list Q) : list Q := map (fun p => (fst p * snd p)%Q) (combine a b).

(* elementary weights, computed WITHOUT assuming the row-sum condition: a leaf below stage i
   contributes sum_j a_ij (not c_i) *)
Fixpoint phi (tab : tableau) (t : tree) : list Q :=
  match t with
  | Node ch => (fix go (l : list tree) :=
                  match l with
                  | [] => repeat 1%Q (length (tb tab))
                  | c :: l' => mulvQ (matvecQ (ta tab) (phi tab c)) (go l')
                  end) ch
  end.

Definition weight (tab : tableau) (t : tree) : Q := dotQ (tb tab) (phi tab t).
Definition cond_ok (tab : tableau) (t : tree) : bool := Qeq_bool (weight tab t) (1 / tgamma t).

Fixpoint all2 {A} (p : A -> A -> bool) (a b : list A) : bool :=
  match a, b with
  | [], [] => true
  | x :: a', y :: b' => p x y && all2 p a' b'
  | _, _ => false
  end.

(* c_i = sum_j a_ij, and the tableau is well shaped: as many nodes, rows and weights, row i has
   fewer than i entries (explicit method) *)
Definition row_sum_ok (tab : tableau) : bool :=
  all2 Qeq_bool (tc tab) (matvecQ (ta tab) (repeat 1%Q (length (tb tab)))).
Definition shape_ok (tab : tableau) : bool :=
  Nat.eqb (length (tc tab)) (length (tb tab)) && Nat.eqb (length (ta tab)) (length (tb tab)) &&
  forallb (fun p => Nat.leb (length (snd p)) (fst p)) (combine (seq 0 (length (ta tab))) (ta tab)).

Definition leaf := Node [].
(* all rooted trees with at most four vertices (1 + 1 + 2 + 4 = 8 of them) *)
Definition trees_1 : list tree := [leaf].
Definition trees_2 : list tree := [Node [leaf]].
Definition trees_3 : list tree := [Node [leaf; leaf]; Node [Node [leaf]]].
Definition trees_4 : list tree :=
  [Node [leaf; leaf; leaf]; Node [leaf; Node [leaf]]; Node [Node [leaf; leaf]]; Node [Node [Node [leaf]]]].
Definition trees_le4 : list tree := trees_1 ++ trees_2 ++ trees_3 ++ trees_4.
(* the bushy tree with five vertices: condition sum b_i c_i^4 = 1/5 *)
Definition bush5 : tree := Node [leaf; leaf; leaf; leaf].

Definition order_conditions (tab : tableau) (trees : list tree) : bool :=
  shape_ok tab && row_sum_ok tab && forallb (cond_ok tab) trees.

(* ---- Taylor polynomials ------------------------------------------------------------------ *)
(* sum_k d_k h^k / k!  for the derivatives d_1, d_2, ... of the exact solution at the step start *)
Fixpoint taylor_from (k : nat) (ds : list R) (h : R) : R :=
  match ds with
  | [] => 0%R
  | d :: ds' => (d * h ^ k / INR (fact k) + taylor_from (S k) ds' h)%R
  end.
Definition taylor (y : R) (ds : list R) (h : R) : R := (y + taylor_from 1 ds h)%R.

(* the same in a vector space *)
Fixpoint vtaylor_from {VS : vspace} (k : nat) (ds : list VS) (h : R) : VS :=
  match ds with
  | [] => vzero
  | d :: ds' => vadd (smul (h ^ k / INR (fact k))%R d) (vtaylor_from (S k) ds' h)
  end.
Definition vtaylor {VS : vspace} (y : VS) (ds : list VS) (h : R) : VS := vadd y (vtaylor_from 1 ds h).

(* ---- list vectors over the scalar record (execution of the generated text) --------------- *)
Section ListVec.
Variable O : Ops.
Fixpoint lvadd (a b : list (T O)) : list (T O) :=
  match a, b with x :: a', y :: b' => add O x y :: lvadd a' b' | _, _ => [] end.
Definition lsmul (c : T O) (a : list (T O)) : list (T O) := map (mul O c) a.
Definition lupdate (x k : list (T O)) (h : T O) : list (T O) := lvadd x (lsmul h k).

(* polynomial test right-hand sides used by the correspondence check (harness/c06.py builds the
   same function in Python): component i of  f(t, y)  is
       p_i0 + p_i1 t + p_i2 t^2 + p_i3 y_i + p_i4 t y_i + p_i5 y_i y_{i+1 mod n} *)
Definition nthO (l : list (T O)) (k : nat) : T O := nth k l (zero O).
Definition poly_rhs (P : list (list (T O))) (t : T O) (y : list (T O)) : list (T O) :=
  map (fun ip =>
         let i := fst ip in let p := snd ip in
         let yi := nthO y i in
         let yn := nthO y (Nat.modulo (S i) (length y)) in
         add O (add O (add O (add O (add O (nthO p 0) (mul O (nthO p 1) t)) (mul O (nthO p 2) (mul O t t)))
                              (mul O (nthO p 3) yi)) (mul O (nthO p 4) (mul O t yi))) (mul O (nthO p 5) (mul O yi yn)))
      (combine (seq 0 (length P)) P).
(* ---- the LAST GOOD MODEL of one solver step, executable (harness-side oracle, used when the source
   is outside the translated subset and as a second opinion otherwise): the clamp of
   DESolver._getdXdt (lower bound first, then upper bound: the upper bound wins when the bounds
   cross, which is what lets the last step land on the end time), and the documented schemes on
   list vectors *)
Definition spec_clamp (dtmin dtmax d : T O) : T O :=
  let d1 := if ltb O dtmin d then d else dtmin in if ltb O d1 dtmax then d1 else dtmax.
Definition spec_euler_step (f : T O -> list (T O) -> list (T O)) (t : T O) (y : list (T O)) (h : T O) : list (T O) :=
  lupdate y (f t y) h.
Definition spec_rk4_step (f : T O -> list (T O) -> list (T O)) (t : T O) (y : list (T O)) (h : T O) : list (T O) :=
  let h2 := dvd O h (ofZ O 2) in
  let k1 := f t y in
  let k2 := f (add O t h2) (lupdate y k1 h2) in
  let k3 := f (add O t h2) (lupdate y k2 h2) in
  let k4 := f (add O t h) (lupdate y k3 h) in
  lupdate y (lsmul (dvd O (one O) (ofZ O 6)) (lvadd (lvadd (lvadd k1 (lsmul (ofZ O 2) k2)) (lsmul (ofZ O 2) k3)) k4)) h.
End ListVec.
