(* C06 - non-vacuity examples and refutation witnesses (static: about the specifications of Model.v;
   the witness against the GENERATED text of the unrepaired tree is run/Refuted.v). *)
From Coq Require Import Reals QArith Qreals List Lra Lia.
Require Import Kawin.Common.Ops Kawin.C06.Model Kawin.C06.Proofs.
Import ListNotations.
Open Scope R_scope.

(* ---- the vector-space hypotheses are satisfiable by non-trivial spaces ----------------------- *)
Example Rvs_nontrivial : @vadd Rvs 1 2 = 3 /\ @smul Rvs 2 3 = 6 /\ (1 : Rvs) <> vzero.
Proof. cbn. repeat split; try lra. Qed.

Example R2vs_nontrivial : @vadd R2vs (1, 2) (3, 4) = (4, 6) /\ @smul R2vs 2 (1, 3) = (2, 6).
Proof. cbn. split; f_equal; lra. Qed.

Example funVS_nontrivial : @vadd (funVS nat) (fun i => INR i) (fun _ => 1) 2%nat = 3.
Proof. cbn. lra. Qed.

(* a genuinely coupled linear operator on R^2 meets the hypotheses of the affine-system theorems:
   the oscillator u' = v, v' = -4 u + forcing *)
Definition osc (p : R2vs) : R2vs := (snd p, -4 * fst p).
Example osc_linear :
  (forall a b : R2vs, osc (vadd a b) = vadd (osc a) (osc b)) /\ (forall c (a : R2vs), osc (smul c a) = smul c (osc a)).
Proof.
  split; intros.
  - destruct a as [a1 a2], b as [b1 b2]. unfold osc. cbn. change (vcar Rvs) with R in *. f_equal; lra.
  - destruct a as [a1 a2]. unfold osc. cbn. change (vcar Rvs) with R in *. f_equal; lra.
Qed.

(* so the RK4 step of the forced oscillator x' = osc x + g0 + t g1 is its degree-4 Taylor polynomial *)
Example osc_rk4_taylor (g0 g1 y : R2vs) t h :
  RK4_doc R2vs (affine_rhs R2vs osc g0 g1) t y h = vtaylor y (affine_derivs R2vs osc g0 g1 t y) h.
Proof. apply rk4_doc_affine_system; apply osc_linear. Qed.

(* ---- concrete steps ----------------------------------------------------------------------------- *)
(* y' = t y (time and state interact) from y(0) = 1 with h = 1/2: 3481/3072 = 1.133138...,
   exact exp(1/8) = 1.133148... *)
Example rk4_ty_step : RK4_doc Rvs (fun t y => t * y) 0 1 (1 / 2) = 3481 / 3072.
Proof. unfold RK4_doc. cbn [vadd smul vcar Rvs]. cbv zeta. change (@eq (vcar Rvs)) with (@eq R). field. Qed.

Example euler_ty_step : Euler_doc Rvs (fun t y => t * y) 1 2 (1 / 2) = 3.
Proof. unfold Euler_doc. cbn [vadd smul vcar Rvs]. change (@eq (vcar Rvs)) with (@eq R). field. Qed.

Example rk_step_classic_example : rk_step Rvs (fun t _ => t) classic4 0 0 1 = 1 / 2.
Proof.
  rewrite <- rk4_doc_is_rk. unfold RK4_doc. cbn [vadd smul vcar Rvs]. cbv zeta.
  change (@eq (vcar Rvs)) with (@eq R). field.
Qed.

Example taylor_example h : taylor 1 [1; 1; 1; 1] h = 1 + h + h ^ 2 / 2 + h ^ 3 / 6 + h ^ 4 / 24.
Proof. unfold taylor. cbn [taylor_from fact Nat.mul Nat.add INR]. field. Qed.

(* the order-condition machinery on a method that is NOT of order four: the 3/8-rule has order four,
   Heun's second-order method fails the third-order conditions *)
Definition heun2 : tableau := mkTab [0; 1]%Q [[]; [1]]%Q [1 # 2; 1 # 2]%Q.
Example heun2_order_2 :
  order_conditions heun2 (trees_1 ++ trees_2) = true /\ forallb (cond_ok heun2) trees_3 = false.
Proof. split; vm_compute; reflexivity. Qed.
Definition rule38 : tableau :=
  mkTab [0; 1 # 3; 2 # 3; 1]%Q [[]; [1 # 3]; [-1 # 3; 1]; [1; -1; 1]]%Q [1 # 8; 3 # 8; 3 # 8; 1 # 8]%Q.
Example rule38_order_4 : order_conditions rule38 trees_le4 = true.
Proof. vm_compute. reflexivity. Qed.
(* a tableau that satisfies the eight tree conditions but NOT the row-sum condition is rejected:
   classic4 with the second node moved (only matters for time-dependent problems) *)
Example row_sum_matters :
  let bad := mkTab [0; 0; 1 # 2; 1]%Q (ta classic4) (tb classic4) in
  forallb (cond_ok bad) trees_le4 = true /\ row_sum_ok bad = false /\ order_conditions bad trees_le4 = false.
Proof. repeat split; vm_compute; reflexivity. Qed.

(* ---- what the unrepaired code did: every stage evaluated at time t ------------------------------ *)
(* (kawin before the repair "fix: evaluate RK4 stages at t + dt/2 and t + dt as documented") *)
Definition RK4_stages_at_t (VS : vspace) (f : R -> VS -> VS) (t : R) (x : VS) (dt : R) : VS :=
  let k1 := f t x in
  let k2 := f t (vadd x (smul (dt / 2) k1)) in
  let k3 := f t (vadd x (smul (dt / 2) k2)) in
  let k4 := f t (vadd x (smul dt k3)) in
  vadd x (smul dt (smul (1 / 6) (vadd (vadd (vadd k1 (smul 2 k2)) (smul 2 k3)) k4))).

(* it is the classical scheme for the FROZEN right-hand side f(t, .), hence indistinguishable from
   it on autonomous problems ... *)
Example stages_at_t_is_frozen (VS : vspace) (f : R -> VS -> VS) t x h :
  RK4_stages_at_t VS f t x h = RK4_doc VS (fun _ y => f t y) t x h.
Proof. reflexivity. Qed.

(* ... and only first-order accurate when f depends on t: on y' = g(t) it returns the Euler step, so
   on y' = t the local error is exactly h^2 / 2 *)
Example stages_at_t_refuted (t y h : R) :
  RK4_stages_at_t Rvs (fun t _ => t) t y h = y + h * t /\
  RK4_doc Rvs (fun t _ => t) t y h = y + h * t + h ^ 2 / 2.
Proof.
  unfold RK4_stages_at_t, RK4_doc. cbn [vadd smul vcar Rvs]. cbv zeta.
  split; change (@eq (vcar Rvs)) with (@eq R); field.
Qed.

(* ---- the executable instance used by the translator validation ---------------------------------- *)
Open Scope Q_scope.
Example poly_rhs_example :
  poly_rhs Qops [[1; 2; 0; 0; 0; 0]; [0; 0; 1; 1; 0; 1]] 3 [5; 7] = [7; 9 + 7 + 7 * 5].
Proof. vm_compute. reflexivity. Qed.
Example lupdate_example : lupdate Qops [1; 2] [3; 4] (1 # 2) = [5 # 2; 4].
Proof. vm_compute. reflexivity. Qed.
