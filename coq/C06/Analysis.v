(* C06 - local truncation errors against TRUE solutions of the differential equation (Coquelicot):
   the exactness / defect identities of Proofs.v compare a step with a Taylor polynomial; here the
   Taylor polynomial is tied to every function Y that actually solves the equation, with the
   Lagrange remainder, which gives local errors O(h^2) (Euler, any right-hand side) and O(h^5)
   (RK4; quadrature of any C^4 integrand, and the forced linear family). *)
From Coq Require Import Reals List Lra Lia.
From Coquelicot Require Import Coquelicot.
Require Import Kawin.Common.Ops Kawin.C06.Model Kawin.C06.Proofs.
Import ListNotations.
Open Scope R_scope.

(* Taylor-Lagrange with the sum unfolded, for the two degrees needed *)
Lemma taylor_lagrange_1 (Y : R -> R) t h :
  0 < h -> (forall s, t <= s <= t + h -> forall k, (k <= 2)%nat -> ex_derive_n Y k s) ->
  exists z, t < z < t + h /\ Y (t + h) = Y t + h * Derive_n Y 1 t + h ^ 2 / 2 * Derive_n Y 2 z.
Proof.
  intros Hh HD.
  destruct (Taylor_Lagrange Y 1 t (t + h) ltac:(lra) HD) as [z [Hz E]].
  exists z. split; [exact Hz|]. rewrite E. cbn [sum_f_R0 fact Nat.mul Nat.add INR pow].
  replace (t + h - t) with h by ring. change (Derive_n Y 0 t) with (Y t). field.
Qed.

Lemma taylor_lagrange_4 (Y : R -> R) t h :
  0 < h -> (forall s, t <= s <= t + h -> forall k, (k <= 5)%nat -> ex_derive_n Y k s) ->
  exists z, t < z < t + h /\
    Y (t + h) = taylor (Y t) [Derive_n Y 1 t; Derive_n Y 2 t; Derive_n Y 3 t; Derive_n Y 4 t] h
                + h ^ 5 / 120 * Derive_n Y 5 z.
Proof.
  intros Hh HD.
  destruct (Taylor_Lagrange Y 4 t (t + h) ltac:(lra) HD) as [z [Hz E]].
  exists z. split; [exact Hz|]. rewrite E. unfold taylor.
  cbn [sum_f_R0 taylor_from fact Nat.mul Nat.add INR].
  replace (t + h - t) with h by ring. change (Derive_n Y 0 t) with (Y t). field.
Qed.

(* derivatives of a function whose successive derivatives are known pointwise *)
Lemma Derive_n_chain (Y : R -> R) (Ys : nat -> R -> R) (n : nat) :
  (forall s, Ys O s = Y s) ->
  (forall k s, (k < n)%nat -> is_derive (Ys k) s (Ys (S k) s)) ->
  forall k, (k <= n)%nat -> forall s, Derive_n Y k s = Ys k s.
Proof.
  intros H0 HS k. induction k as [|k IH]; intros Hk s.
  - cbn. symmetry. apply H0.
  - cbn [Derive_n]. rewrite (Derive_ext _ (Ys k)) by (intros; apply IH; lia).
    apply is_derive_unique, HS. lia.
Qed.

Lemma ex_derive_n_chain (Y : R -> R) (Ys : nat -> R -> R) (n : nat) :
  (forall s, Ys O s = Y s) ->
  (forall k s, (k < n)%nat -> is_derive (Ys k) s (Ys (S k) s)) ->
  forall k, (k <= n)%nat -> forall s, ex_derive_n Y k s.
Proof.
  intros H0 HS k Hk s. destruct k as [|k]; [exact I|].
  cbn [ex_derive_n].
  apply (ex_derive_ext (Ys k)).
  - intros u. symmetry. apply (Derive_n_chain Y Ys n H0 HS); lia.
  - exists (Ys (S k) s). apply HS. lia.
Qed.

(* ========================================================================================= *)
(* explicit Euler: local error h^2/2 Y''(z), for EVERY right-hand side and every solution      *)
(* ========================================================================================= *)
Theorem euler_local_error (f : R -> R -> R) (Y : R -> R) t h :
  0 < h ->
  (forall s, t <= s <= t + h -> is_derive Y s (f s (Y s))) ->
  (forall s, t <= s <= t + h -> ex_derive_n Y 2 s) ->
  exists z, t < z < t + h /\ Y (t + h) - Euler_doc Rvs f t (Y t) h = h ^ 2 / 2 * Derive_n Y 2 z.
Proof.
  intros Hh Hsol H2.
  assert (HD : forall s, t <= s <= t + h -> forall k, (k <= 2)%nat -> ex_derive_n Y k s).
  { intros s Hs k Hk. destruct k as [|[|[|k]]]; try lia.
    - exact I.
    - cbn. exists (f s (Y s)). apply Hsol, Hs.
    - apply H2, Hs. }
  destruct (taylor_lagrange_1 Y t h Hh HD) as [z [Hz E]].
  exists z. split; [exact Hz|]. rewrite E.
  assert (D1 : Derive_n Y 1 t = f t (Y t)) by (apply is_derive_unique, Hsol; lra).
  rewrite D1. unfold Euler_doc. cbn [vadd smul vcar Rvs]. ring.
Qed.

Corollary euler_local_error_bound (f : R -> R -> R) (Y : R -> R) t h M :
  0 < h ->
  (forall s, t <= s <= t + h -> is_derive Y s (f s (Y s))) ->
  (forall s, t <= s <= t + h -> ex_derive_n Y 2 s) ->
  (forall s, t <= s <= t + h -> Rabs (Derive_n Y 2 s) <= M) ->
  Rabs (Y (t + h) - Euler_doc Rvs f t (Y t) h) <= M / 2 * h ^ 2.
Proof.
  intros Hh Hsol H2 HM.
  destruct (euler_local_error f Y t h Hh Hsol H2) as [z [Hz E]]. rewrite E.
  rewrite Rabs_mult, (Rabs_pos_eq (h ^ 2 / 2)) by nra.
  specialize (HM z ltac:(lra)). nra.
Qed.

(* ========================================================================================= *)
(* RK4 on y' = g(t): local error at most 49/2880 M h^5 for every C^4 integrand, |g''''| <= M    *)
(* ========================================================================================= *)
Section Quadrature.
Variable g : R -> R.
Variable Y : R -> R.
Hypothesis Ysol : forall s, is_derive Y s (g s).
Hypothesis gC4 : forall k s, (k <= 4)%nat -> ex_derive_n g k s.

Let Ys (k : nat) : R -> R := match k with O => Y | S j => Derive_n g j end.

Lemma quad_chain k s : (k < 5)%nat -> is_derive (Ys k) s (Ys (S k) s).
Proof.
  intros Hk. destruct k as [|j]; cbn [Ys].
  - apply Ysol.
  - change (Derive_n g (S j) s) with (Derive (Derive_n g j) s).
    apply Derive_correct. apply (gC4 (S j) s). lia.
Qed.

Lemma quad_Derive_n k s : (k <= 5)%nat -> Derive_n Y k s = Ys k s.
Proof. intros Hk. apply (Derive_n_chain Y Ys 5); auto. intros; apply quad_chain; assumption. Qed.

Lemma quad_ex_derive_n_Y k s : (k <= 5)%nat -> ex_derive_n Y k s.
Proof. intros Hk. apply (ex_derive_n_chain Y Ys 5); auto. intros; apply quad_chain; assumption. Qed.

Lemma taylor_lagrange_3_g t d :
  0 < d -> exists z, t < z < t + d /\
    g (t + d) = g t + d * Derive_n g 1 t + d ^ 2 / 2 * Derive_n g 2 t + d ^ 3 / 6 * Derive_n g 3 t
                + d ^ 4 / 24 * Derive_n g 4 z.
Proof.
  intros Hd.
  destruct (Taylor_Lagrange g 3 t (t + d) ltac:(lra)) as [z [Hz E]].
  { intros s _ k Hk. apply gC4. lia. }
  exists z. split; [exact Hz|]. rewrite E.
  cbn [sum_f_R0 fact Nat.mul Nat.add INR].
  replace (t + d - t) with d by ring. change (Derive_n g 0 t) with (g t). field.
Qed.

Theorem rk4_quadrature_local_error t h M :
  0 < h -> (forall s, t <= s <= t + h -> Rabs (Derive_n g 4 s) <= M) ->
  Rabs (Y (t + h) - RK4_doc Rvs (fun s _ => g s) t (Y t) h) <= 49 / 2880 * M * h ^ 5.
Proof.
  intros Hh HM.
  destruct (taylor_lagrange_4 Y t h Hh) as [z1 [Hz1 E1]].
  { intros s _ k Hk. apply quad_ex_derive_n_Y, Hk. }
  destruct (taylor_lagrange_3_g t (h / 2) ltac:(lra)) as [z2 [Hz2 E2]].
  destruct (taylor_lagrange_3_g t h Hh) as [z3 [Hz3 E3]].
  rewrite !quad_Derive_n in E1 by lia. cbn [Ys] in E1. change (Derive_n g 0 t) with (g t) in E1.
  unfold RK4_doc. cbn [vadd smul vcar Rvs]. cbv zeta.
  rewrite E1, E2, E3. unfold taylor. cbn [taylor_from fact Nat.mul Nat.add INR].
  set (A := Derive_n g 4 z1). set (B := Derive_n g 4 z2). set (C := Derive_n g 4 z3).
  assert (HA : Rabs A <= M) by (apply HM; lra).
  assert (HB : Rabs B <= M) by (apply HM; lra).
  assert (HC : Rabs C <= M) by (apply HM; lra).
  generalize (Derive_n g 1 t) (Derive_n g 2 t) (Derive_n g 3 t) (g t) (Y t). intros D1 D2 D3 G0 Y0.
  match goal with |- Rabs ?e <= _ => replace e with (h ^ 5 * (A / 120 - B / 576 - C / 144)) by field end.
  rewrite Rabs_mult, (Rabs_pos_eq (h ^ 5)) by (apply pow_le; lra).
  assert (H5 : 0 < h ^ 5) by (apply pow_lt; lra).
  assert (Rabs (A / 120 - B / 576 - C / 144) <= 49 / 2880 * M).
  { apply Rabs_le. apply Rabs_le_between in HA. apply Rabs_le_between in HB. apply Rabs_le_between in HC. split; lra. }
  nra.
Qed.
End Quadrature.

(* ========================================================================================= *)
(* RK4 on y' = l y + cubic(t): exact representation of the local error                         *)
(* ========================================================================================= *)
Section ForcedLinear.
Variables l a0 a1 a2 a3 : R.
Variable Y : R -> R.
Hypothesis Ysol : forall s, is_derive Y s (l * Y s + lf_g a0 a1 a2 a3 s).

Let G (k : nat) (s : R) : R :=
  match k with
  | 0%nat => lf_g a0 a1 a2 a3 s
  | 1%nat => a1 + 2 * a2 * s + 3 * a3 * s ^ 2
  | 2%nat => 2 * a2 + 6 * a3 * s
  | 3%nat => 6 * a3
  | _ => 0
  end.
Fixpoint lfY (k : nat) (s : R) : R :=
  match k with O => Y s | S j => l * lfY j s + G j s end.

Lemma G_derive k s : is_derive (G k) s (G (S k) s).
Proof.
  destruct k as [|[|[|[|k]]]].
  - change (is_derive (fun u => a0 + a1 * u + a2 * u ^ 2 + a3 * u ^ 3) s (a1 + 2 * a2 * s + 3 * a3 * s ^ 2)).
    auto_derive; [exact I | ring].
  - change (is_derive (fun u => a1 + 2 * a2 * u + 3 * a3 * u ^ 2) s (2 * a2 + 6 * a3 * s)).
    auto_derive; [exact I | ring].
  - change (is_derive (fun u => 2 * a2 + 6 * a3 * u) s (6 * a3)).
    auto_derive; [exact I | ring].
  - change (is_derive (fun _ : R => 6 * a3) s 0). auto_derive; [exact I | ring].
  - change (is_derive (fun _ : R => 0) s 0). auto_derive; [exact I | ring].
Qed.

Lemma lf_chain k s : is_derive (lfY k) s (lfY (S k) s).
Proof.
  induction k as [|k IH].
  - cbn [lfY G]. apply Ysol.
  - change (lfY (S k)) with (fun u => l * lfY k u + G k u).
    change (lfY (S (S k)) s) with (l * lfY (S k) s + G (S k) s).
    apply (is_derive_plus (fun u => l * lfY k u) (G k)).
    + apply is_derive_scal, IH.
    + apply G_derive.
Qed.

Lemma lf_Derive_n k s : Derive_n Y k s = lfY k s.
Proof. apply (Derive_n_chain Y lfY k); auto. intros; apply lf_chain. Qed.

(* every solution has, at the step start, exactly the derivatives the Taylor polynomial of
   Proofs.rk4_doc_linear_forced_cubic is built from *)
Theorem lf_solution_derivs t :
  [Derive_n Y 1 t; Derive_n Y 2 t; Derive_n Y 3 t; Derive_n Y 4 t] = lf_derivs l a0 a1 a2 a3 t (Y t).
Proof. rewrite !lf_Derive_n. unfold lf_derivs. cbn [lfY G]. repeat f_equal; ring. Qed.

Theorem rk4_linear_forced_local_error t h :
  0 < h -> exists z, t < z < t + h /\
    Y (t + h) - RK4_doc Rvs (fun s y => l * y + lf_g a0 a1 a2 a3 s) t (Y t) h =
    h ^ 5 * (Derive_n Y 5 z / 120 - lf_defect l a2 a3 t h).
Proof.
  intros Hh.
  destruct (taylor_lagrange_4 Y t h Hh) as [z [Hz E]].
  { intros s _ k Hk. apply (ex_derive_n_chain Y lfY 5); auto. intros; apply lf_chain. }
  exists z. split; [exact Hz|].
  rewrite rk4_doc_linear_forced_cubic, E, lf_solution_derivs. field.
Qed.

(* the fifth derivative of a solution is l^5 Y + (lower-order forcing terms): explicit *)
Lemma lf_fifth_derivative s :
  Derive_n Y 5 s = l * (l * (l * (l * (l * Y s + G 0 s) + G 1 s) + G 2 s) + G 3 s).
Proof. rewrite lf_Derive_n. cbn [lfY G]. ring. Qed.
End ForcedLinear.

(* ========================================================================================= *)
(* RK4 on y' = c t y (nonlinear in (t, y) jointly): exact representation of the local error    *)
(* ========================================================================================= *)
Section TimesY.
Variable c : R.
Variable Y : R -> R.
Hypothesis Ysol : forall s, is_derive Y s (c * s * Y s).

(* Leibniz: Y^(k+1) = k c Y^(k-1) + c s Y^(k) *)
Fixpoint tyY (k : nat) (s : R) : R :=
  match k with
  | O => Y s
  | S j => match j with
           | O => c * s * Y s
           | S i => INR j * c * tyY i s + c * s * tyY j s
           end
  end.

Lemma tyY_SS k s : tyY (S (S k)) s = INR (S k) * c * tyY k s + c * s * tyY (S k) s.
Proof. reflexivity. Qed.

Lemma ty_chain k s : is_derive (tyY k) s (tyY (S k) s) /\ is_derive (tyY (S k)) s (tyY (S (S k)) s).
Proof.
  induction k as [|k [IH1 IH2]].
  - split; [apply Ysol|].
    change (tyY 1) with (fun u => c * u * Y u). rewrite tyY_SS.
    assert (EY : ex_derive Y s) by (exists (c * s * Y s); apply Ysol).
    auto_derive; [exact EY|].
    match goal with |- context [Derive ?F s] => rewrite (is_derive_unique F s _ (Ysol s)) end.
    cbn [tyY INR]. ring.
  - split; [exact IH2|].
    change (tyY (S (S k))) with (fun u => INR (S k) * c * tyY k u + c * u * tyY (S k) u).
    rewrite (tyY_SS (S k)).
    assert (E1 : ex_derive (tyY k) s) by (eexists; exact IH1).
    assert (E2 : ex_derive (tyY (S k)) s) by (eexists; exact IH2).
    auto_derive; [split; [exact E1 | split; [exact E2 | exact I]]|].
    repeat match goal with
           | |- context [Derive (fun x => tyY k x) s] => rewrite (is_derive_unique (fun x => tyY k x) s _ IH1)
           | |- context [Derive (fun x => tyY (S k) x) s] => rewrite (is_derive_unique (fun x => tyY (S k) x) s _ IH2)
           | |- context [Derive ?F s] =>
               first [ rewrite (is_derive_unique F s _ IH1) | rewrite (is_derive_unique F s _ IH2) ]
           end.
    change (match k with 0%nat => 1 | S _ => INR k + 1 end) with (INR (S k)).
    change (match k with 0%nat => c * s * Y s | S i => INR k * c * tyY i s + c * s * tyY k s end) with (tyY (S k) s).
    rewrite (S_INR (S k)). ring.
Qed.

Lemma ty_Derive_n k s : Derive_n Y k s = tyY k s.
Proof. apply (Derive_n_chain Y tyY k); auto. intros j u _. apply ty_chain. Qed.

Theorem ty_solution_derivs t :
  [Derive_n Y 1 t; Derive_n Y 2 t; Derive_n Y 3 t; Derive_n Y 4 t] = ty_derivs c t (Y t).
Proof. rewrite !ty_Derive_n. unfold ty_derivs. cbn [tyY INR]. repeat f_equal; ring. Qed.

Theorem rk4_ty_local_error t h :
  0 < h -> exists z, t < z < t + h /\
    Y (t + h) - RK4_doc Rvs (fun s y => c * s * y) t (Y t) h =
    h ^ 5 * (Derive_n Y 5 z / 120 - ty_defect c t (Y t) h).
Proof.
  intros Hh.
  destruct (taylor_lagrange_4 Y t h Hh) as [z [Hz E]].
  { intros s _ k Hk. apply (ex_derive_n_chain Y tyY 5); auto. intros j u _. apply ty_chain. }
  exists z. split; [exact Hz|].
  rewrite rk4_doc_ty, E, ty_solution_derivs. field.
Qed.
End TimesY.
