(* C06 - Integrators reach their nominal order, also for time-dependent problems.
   Static part of the property theorems: statements about the two Butcher tableaus and about the
   schemes as kawin documents them (Model.v).  The theorems that tie these to the CODE are in
   run/GenPropertiesA.v and run/GenPropertiesB.v and are checked against the text regenerated from
   kawin/solver/Iterators.py on every run.
   Only theorems, each closed by [exact] of a lemma of Proofs.v and followed by Print Assumptions. *)
From Coq Require Import Reals QArith List Bool.
Require Import Kawin.Common.Ops Kawin.C06.Model Kawin.C06.Proofs.
Import ListNotations.

(* the classical tableau satisfies the eight order conditions of all rooted trees with at most four
   vertices AND the row-sum condition c_i = sum_j a_ij, which is what makes the order carry over to
   right-hand sides that depend on time *)
Theorem C06_order_conditions_4 : order_conditions classic4 trees_le4 = true.
Proof. exact classic4_order_4. Qed.
Print Assumptions C06_order_conditions_4.

Theorem C06_row_sum_condition : row_sum_ok classic4 = true /\ shape_ok classic4 = true.
Proof. exact classic4_row_sum. Qed.
Print Assumptions C06_row_sum_condition.

(* the list of trees is the right one: orders 1,2,3,3,4,4,4,4 with densities 1,2,3,6,4,8,12,24 *)
Theorem C06_trees_le4 :
  map torder trees_le4 = [1; 2; 3; 3; 4; 4; 4; 4]%nat /\
  map (fun t => Qred (tgamma t)) trees_le4 = [1; 2; 3; 6; 4; 8; 12; 24]%Q.
Proof. exact (conj trees_le4_orders trees_le4_densities). Qed.
Print Assumptions C06_trees_le4.

(* fourth order is sharp: the fifth-order quadrature condition fails *)
Theorem C06_rk4_not_order_5 : cond_ok classic4 bush5 = false /\ Qred (weight classic4 bush5) = (5 # 24)%Q.
Proof. exact classic4_not_order_5. Qed.
Print Assumptions C06_rk4_not_order_5.

Theorem C06_euler_order_1 : order_conditions euler1 trees_1 = true /\ forallb (cond_ok euler1) trees_2 = false.
Proof. exact (conj euler1_order_1 euler1_not_order_2). Qed.
Print Assumptions C06_euler_order_1.

(* the schemes as documented in the docstrings are the Runge-Kutta steps of these tableaus, on every
   real vector space and for every right-hand side *)
Theorem C06_rk4_doc_is_classic (VS : vspace) (f : R -> VS -> VS) t x h :
  RK4_doc VS f t x h = rk_step VS f classic4 t x h.
Proof. exact (rk4_doc_is_rk VS f t x h). Qed.
Print Assumptions C06_rk4_doc_is_classic.

Theorem C06_euler_doc_is_rk (VS : vspace) (f : R -> VS -> VS) t x h :
  Euler_doc VS f t x h = rk_step VS f euler1 t x h.
Proof. exact (euler_doc_is_rk VS f t x h). Qed.
Print Assumptions C06_euler_doc_is_rk.

(* the times at which a step of the classical tableau evaluates the derivative (with
   C06_rk4_gen_is_classic of run/GenPropertiesB.v: the times at which RK4Iterator calls f) *)
Theorem C06_rk4_stage_times (t h : R) :
  stage_times classic4 t h = [t; t + h / 2; t + h / 2; t + h]%R.
Proof. exact (classic4_stage_times t h). Qed.
Print Assumptions C06_rk4_stage_times.
