(* C06 - bridge, part A: facts about the GENERATED model of the code (build/C06/Iterators_gen.v,
   regenerated from kawin/solver/Iterators.py and Solver.py on every run) that do not involve the
   RK4 iterator: the Euler iterator (the solver wrappers are in BridgeS.v).  Also the definitions and tactics shared
   by the other bridge files.  Compiled by the check only (logical path KawinRun), never by the
   static make. *)
From Coq Require Import Reals QArith Qreals List Lra.
From Coquelicot Require Import Coquelicot.
Require Import Kawin.Common.Ops Kawin.C06.Model Kawin.C06.Proofs Kawin.C06.Analysis.
Require Import KawinRun.Iterators_gen.
Import ListNotations.
Open Scope R_scope.

(* the generated iterators at the real instance, on an arbitrary real vector space, with the plain
   update x + h k;  f = what the iterator receives as f(t, X), getdt = the step f(t, X, True) proposes *)
Definition Euler_gen (VS : vspace) (f : R -> VS -> VS) (getdt : R -> VS -> R) (t : R) (x : VS) : VS * R :=
  ExplicitEulerIterator_gen Rops VS (@vadd VS) (@smul VS) f getdt (@plain_update VS) t x.
Definition RK4_gen (VS : vspace) (f : R -> VS -> VS) (getdt : R -> VS -> R) (t : R) (x : VS) : VS * R :=
  RK4Iterator_gen Rops VS (@vadd VS) (@smul VS) f getdt (@plain_update VS) t x.

Ltac gen_unfold :=
  unfold Euler_gen, RK4_gen, ExplicitEulerIterator_gen, RK4Iterator_gen, plain_update, RK4_doc, Euler_doc;
  cbv zeta; cbn [T Rops].

(* a failing comparison must fail quickly: the check has a time budget *)
Ltac pair_eq := timeout 120 (first [ reflexivity | f_equal; first [ reflexivity | rk_eq ] ]).

Section BridgeA.
Variable VS : vspace.

Lemma euler_gen_is_doc f getdt t x : Euler_gen VS f getdt t x = (Euler_doc VS f t x (getdt t x), getdt t x).
Proof. gen_unfold. pair_eq. Qed.

Lemma euler_gen_is_rk f getdt t x : Euler_gen VS f getdt t x = (rk_step VS f euler1 t x (getdt t x), getdt t x).
Proof. rewrite euler_gen_is_doc, euler_doc_is_rk. reflexivity. Qed.

(* ---- consequences for the generated Euler iterator ------------------------------------------- *)
Lemma euler_gen_affine_system (L : VS -> VS) (g0 g1 : VS) getdt t y :
  (forall a b, L (vadd a b) = vadd (L a) (L b)) -> (forall c a, L (smul c a) = smul c (L a)) ->
  fst (Euler_gen VS (affine_rhs VS L g0 g1) getdt t y) =
  vtaylor y (firstn 1 (affine_derivs VS L g0 g1 t y)) (getdt t y).
Proof. intros HA HS. rewrite euler_gen_is_doc. cbn [fst]. apply euler_doc_affine_system; assumption. Qed.

End BridgeA.

(* ---- scalar families for the generated Euler iterator --------------------------------------- *)
Definition Euler_R (f : R -> R -> R) (h t y : R) : R := fst (Euler_gen Rvs f (fun _ _ => h) t y).

Lemma euler_gen_taylor1 f h t y : Euler_R f h t y = taylor y [f t y] h.
Proof. unfold Euler_R. rewrite euler_gen_is_doc. cbn [fst]. apply euler_doc_taylor1. Qed.

Lemma euler_gen_exact_const a0 h t y : Euler_R (fun _ _ => a0) h t y = y + a0 * h.
Proof. unfold Euler_R. rewrite euler_gen_is_doc. cbn [fst]. apply euler_doc_exact_const. Qed.

Lemma euler_gen_linear l h t y : Euler_R (fun _ y => l * y) h t y = (1 + l * h) * y.
Proof. unfold Euler_R. rewrite euler_gen_is_doc. cbn [fst]. apply euler_doc_linear. Qed.

Lemma euler_gen_linear_forced l a0 a1 a2 a3 h t y :
  Euler_R (fun t y => l * y + lf_g a0 a1 a2 a3 t) h t y =
  taylor y (firstn 2 (lf_derivs l a0 a1 a2 a3 t y)) h - h ^ 2 * (nth 1 (lf_derivs l a0 a1 a2 a3 t y) 0 / 2).
Proof. unfold Euler_R. rewrite euler_gen_is_doc. cbn [fst]. apply euler_doc_linear_forced. Qed.


Lemma euler_gen_ty c h t y :
  Euler_R (fun t y => c * t * y) h t y =
  taylor y (firstn 2 (ty_derivs c t y)) h - h ^ 2 * (nth 1 (ty_derivs c t y) 0 / 2).
Proof. unfold Euler_R. rewrite euler_gen_is_doc. cbn [fst]. apply euler_doc_ty. Qed.

(* local truncation error against true solutions (Analysis.v, Coquelicot) *)
Lemma Euler_R_is_doc f h t y : Euler_R f h t y = Euler_doc Rvs f t y h.
Proof. unfold Euler_R. rewrite euler_gen_is_doc. reflexivity. Qed.

Lemma euler_gen_local_error (f : R -> R -> R) (Y : R -> R) t h M :
  0 < h ->
  (forall s, t <= s <= t + h -> is_derive Y s (f s (Y s))) ->
  (forall s, t <= s <= t + h -> ex_derive_n Y 2 s) ->
  (forall s, t <= s <= t + h -> Rabs (Derive_n Y 2 s) <= M) ->
  Rabs (Y (t + h) - Euler_R f h t (Y t)) <= M / 2 * h ^ 2.
Proof. intros. rewrite Euler_R_is_doc. apply euler_local_error_bound; assumption. Qed.

