(* C06 - property theorems about the GENERATED model of the code, part Aut (RK4 on autonomous
   problems; true before and after the stage-time repair).  Re-checked on every run.
   Only theorems, each closed by [exact] of a lemma of BridgeAut.v and followed by Print Assumptions. *)
From Coq Require Import Reals QArith List Bool.
Require Import Kawin.Common.Ops Kawin.C06.Model Kawin.C06.Proofs.
Require Import KawinRun.Iterators_gen KawinRun.BridgeA KawinRun.BridgeAut.
Import ListNotations.
Open Scope R_scope.

(* on AUTONOMOUS right-hand sides the generated RK4 is the classical scheme whatever the stage times
   are (true before and after the stage-time repair) *)
Theorem C06_gen_eq_classic_autonomous (VS : vspace) (g : VS -> VS) getdt t x :
  RK4_gen VS (fun _ y => g y) getdt t x = (rk_step VS (fun _ y => g y) classic4 t x (getdt t x), getdt t x).
Proof. exact (gen_eq_classic_autonomous VS g getdt t x). Qed.
Print Assumptions C06_gen_eq_classic_autonomous.

Theorem C06_rk4_autonomous_order_4 :
  exists tab, order_conditions tab trees_le4 = true /\
    forall (VS : vspace) (g : VS -> VS) getdt t x,
      RK4_gen VS (fun _ y => g y) getdt t x = (rk_step VS (fun _ y => g y) tab t x (getdt t x), getdt t x).
Proof. exact gen_autonomous_order_4. Qed.
Print Assumptions C06_rk4_autonomous_order_4.

