(* C06 - property theorems about the GENERATED model of the code, part C: local truncation errors
   against TRUE solutions Y of the differential equation (Coquelicot derivatives).
   Re-checked on every run against build/C06/Iterators_gen.v.
   Only theorems, each closed by [exact] of a lemma of BridgeC.v and followed by Print Assumptions. *)
From Coq Require Import Reals List.
From Coquelicot Require Import Coquelicot.
Require Import Kawin.Common.Ops Kawin.C06.Model Kawin.C06.Proofs Kawin.C06.Analysis.
Require Import KawinRun.Iterators_gen KawinRun.BridgeA KawinRun.BridgeB KawinRun.BridgeC.
Import ListNotations.
Open Scope R_scope.

(* RK4 on y' = g(t), any four times differentiable g with |g''''| <= M on the step: local error at
   most 49/2880 M h^5 (this is where wrong stage times show: the statement is about g evaluated at
   t, t + h/2, t + h) *)
Theorem C06_rk4_quadrature_local_error (g Y : R -> R) t h M :
  (forall s, is_derive Y s (g s)) ->
  (forall k s, (k <= 4)%nat -> ex_derive_n g k s) ->
  0 < h -> (forall s, t <= s <= t + h -> Rabs (Derive_n g 4 s) <= M) ->
  Rabs (Y (t + h) - RK4_R (fun s _ => g s) h t (Y t)) <= 49 / 2880 * M * h ^ 5.
Proof. exact (rk4_gen_quadrature_local_error g Y t h M). Qed.
Print Assumptions C06_rk4_quadrature_local_error.

(* RK4 on y' = l y + cubic(t): exact representation of the local error, of fifth order in h *)
Theorem C06_rk4_linear_forced_local_error (l a0 a1 a2 a3 : R) (Y : R -> R) t h :
  (forall s, is_derive Y s (l * Y s + lf_g a0 a1 a2 a3 s)) ->
  0 < h -> exists z, t < z < t + h /\
    Y (t + h) - RK4_R (fun s y => l * y + lf_g a0 a1 a2 a3 s) h t (Y t) =
    h ^ 5 * (Derive_n Y 5 z / 120 - lf_defect l a2 a3 t h).
Proof. exact (rk4_gen_linear_forced_local_error l a0 a1 a2 a3 Y t h). Qed.
Print Assumptions C06_rk4_linear_forced_local_error.

(* the Taylor polynomials of GenPropertiesB are those of the true solutions *)
Theorem C06_lf_solution_derivs (l a0 a1 a2 a3 : R) (Y : R -> R) t :
  (forall s, is_derive Y s (l * Y s + lf_g a0 a1 a2 a3 s)) ->
  [Derive_n Y 1 t; Derive_n Y 2 t; Derive_n Y 3 t; Derive_n Y 4 t] = lf_derivs l a0 a1 a2 a3 t (Y t).
Proof. exact (lf_gen_solution_derivs l a0 a1 a2 a3 Y t). Qed.
Print Assumptions C06_lf_solution_derivs.

(* RK4 on y' = c t y (nonlinear in (t, y)): every solution has the derivatives the Taylor polynomial
   of C06_rk4_ty is built from, and the local error is of fifth order with an exact representation *)
Theorem C06_ty_solution_derivs (c : R) (Y : R -> R) t :
  (forall s, is_derive Y s (c * s * Y s)) ->
  [Derive_n Y 1 t; Derive_n Y 2 t; Derive_n Y 3 t; Derive_n Y 4 t] = ty_derivs c t (Y t).
Proof. exact (ty_gen_solution_derivs c Y t). Qed.
Print Assumptions C06_ty_solution_derivs.

Theorem C06_rk4_ty_local_error (c : R) (Y : R -> R) t h :
  (forall s, is_derive Y s (c * s * Y s)) ->
  0 < h -> exists z, t < z < t + h /\
    Y (t + h) - RK4_R (fun s y => c * s * y) h t (Y t) = h ^ 5 * (Derive_n Y 5 z / 120 - ty_defect c t (Y t) h).
Proof. exact (rk4_gen_ty_local_error c Y t h). Qed.
Print Assumptions C06_rk4_ty_local_error.
