(* C06 - bridge, part Aut: on AUTONOMOUS right-hand sides the generated RK4 agrees with the classical
   scheme whatever time the stages are evaluated at - which is why the one integrator test of kawin
   (y' = cos t aside, accepted within 1 %) and any autonomous test cannot see a stage-time defect.
   Holds before and after the stage-time repair; fails when stage states or weights are wrong.
   Compiled by the check only. *)
From Coq Require Import Reals QArith Qreals List Lra.
Require Import Kawin.Common.Ops Kawin.C06.Model Kawin.C06.Proofs.
Require Import KawinRun.Iterators_gen KawinRun.BridgeA.
Import ListNotations.
Open Scope R_scope.

Section BridgeAut.
Variable VS : vspace.

(* autonomous right-hand sides: generated RK4 = classical RK4, independently of the stage times *)
Lemma gen_eq_classic_autonomous (g : VS -> VS) getdt t x :
  RK4_gen VS (fun _ y => g y) getdt t x = (rk_step VS (fun _ y => g y) classic4 t x (getdt t x), getdt t x).
Proof. rewrite <- rk4_doc_is_rk. gen_unfold. pair_eq. Qed.

End BridgeAut.

(* the scheme the generated RK4 reduces to on autonomous problems is of order four *)
Lemma gen_autonomous_order_4 :
  exists tab, order_conditions tab trees_le4 = true /\
    forall (VS : vspace) (g : VS -> VS) getdt t x,
      RK4_gen VS (fun _ y => g y) getdt t x = (rk_step VS (fun _ y => g y) tab t x (getdt t x), getdt t x).
Proof. exists classic4. split; [exact classic4_order_4|]. intros. apply gen_eq_classic_autonomous. Qed.

