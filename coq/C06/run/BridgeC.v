(* C06 - bridge, part C: local truncation errors of the GENERATED iterators against true solutions
   of the differential equation (transfers the theorems of Analysis.v, which uses Coquelicot, through
   the identities of BridgeA.v / BridgeB.v).  Compiled by the check only. *)
From Coq Require Import Reals List Lra.
From Coquelicot Require Import Coquelicot.
Require Import Kawin.Common.Ops Kawin.C06.Model Kawin.C06.Proofs Kawin.C06.Analysis.
Require Import KawinRun.Iterators_gen KawinRun.BridgeA KawinRun.BridgeB.
Import ListNotations.
Open Scope R_scope.

Lemma RK4_R_is_doc f h t y : RK4_R f h t y = RK4_doc Rvs f t y h.
Proof. unfold RK4_R. rewrite rk4_gen_is_doc. reflexivity. Qed.

Lemma rk4_gen_quadrature_local_error (g Y : R -> R) t h M :
  (forall s, is_derive Y s (g s)) ->
  (forall k s, (k <= 4)%nat -> ex_derive_n g k s) ->
  0 < h -> (forall s, t <= s <= t + h -> Rabs (Derive_n g 4 s) <= M) ->
  Rabs (Y (t + h) - RK4_R (fun s _ => g s) h t (Y t)) <= 49 / 2880 * M * h ^ 5.
Proof. intros. rewrite RK4_R_is_doc. apply rk4_quadrature_local_error; assumption. Qed.

Lemma rk4_gen_linear_forced_local_error (l a0 a1 a2 a3 : R) (Y : R -> R) t h :
  (forall s, is_derive Y s (l * Y s + lf_g a0 a1 a2 a3 s)) ->
  0 < h -> exists z, t < z < t + h /\
    Y (t + h) - RK4_R (fun s y => l * y + lf_g a0 a1 a2 a3 s) h t (Y t) =
    h ^ 5 * (Derive_n Y 5 z / 120 - lf_defect l a2 a3 t h).
Proof. intros. rewrite RK4_R_is_doc. apply rk4_linear_forced_local_error; assumption. Qed.

Lemma lf_gen_solution_derivs (l a0 a1 a2 a3 : R) (Y : R -> R) t :
  (forall s, is_derive Y s (l * Y s + lf_g a0 a1 a2 a3 s)) ->
  [Derive_n Y 1 t; Derive_n Y 2 t; Derive_n Y 3 t; Derive_n Y 4 t] = lf_derivs l a0 a1 a2 a3 t (Y t).
Proof. intros. apply lf_solution_derivs; assumption. Qed.

Lemma rk4_gen_ty_local_error (c : R) (Y : R -> R) t h :
  (forall s, is_derive Y s (c * s * Y s)) ->
  0 < h -> exists z, t < z < t + h /\
    Y (t + h) - RK4_R (fun s y => c * s * y) h t (Y t) = h ^ 5 * (Derive_n Y 5 z / 120 - ty_defect c t (Y t) h).
Proof. intros. rewrite RK4_R_is_doc. apply rk4_ty_local_error; assumption. Qed.

Lemma ty_gen_solution_derivs (c : R) (Y : R -> R) t :
  (forall s, is_derive Y s (c * s * Y s)) ->
  [Derive_n Y 1 t; Derive_n Y 2 t; Derive_n Y 3 t; Derive_n Y 4 t] = ty_derivs c t (Y t).
Proof. intros. apply ty_solution_derivs; assumption. Qed.
