(* C06 - property theorems about the GENERATED model of the code, part A (Euler iterator).  Re-checked on every run against build/C06/Iterators_gen.v.
   Only theorems, each closed by [exact] of a lemma of BridgeA.v and followed by Print Assumptions. *)
From Coq Require Import Reals QArith List Bool.
From Coquelicot Require Import Coquelicot.
Require Import Kawin.Common.Ops Kawin.C06.Model Kawin.C06.Proofs Kawin.C06.Analysis.
Require Import KawinRun.Iterators_gen KawinRun.BridgeA.
Import ListNotations.
Open Scope R_scope.

(* ExplicitEulerIterator is the explicit Euler step (tableau c = 0, b = 1), on every real vector
   space, for every right-hand side (time-dependent or not) and every step proposal *)
Theorem C06_euler_gen_is_rk (VS : vspace) (f : R -> VS -> VS) (getdt : R -> VS -> R) t x :
  Euler_gen VS f getdt t x = (rk_step VS f euler1 t x (getdt t x), getdt t x).
Proof. exact (euler_gen_is_rk VS f getdt t x). Qed.
Print Assumptions C06_euler_gen_is_rk.

(* first order: one Euler step is the degree-1 Taylor polynomial of the exact solution *)
Theorem C06_euler_taylor1 (f : R -> R -> R) h t y : Euler_R f h t y = taylor y [f t y] h.
Proof. exact (euler_gen_taylor1 f h t y). Qed.
Print Assumptions C06_euler_taylor1.

(* explicit Euler is first-order accurate for EVERY right-hand side f(t, y), time-dependent or not:
   for every solution Y that is twice differentiable on the step, with |Y''| <= M there, the error of
   one step started on the solution is at most M/2 h^2 *)
Theorem C06_euler_local_error (f : R -> R -> R) (Y : R -> R) t h M :
  0 < h ->
  (forall s, t <= s <= t + h -> is_derive Y s (f s (Y s))) ->
  (forall s, t <= s <= t + h -> ex_derive_n Y 2 s) ->
  (forall s, t <= s <= t + h -> Rabs (Derive_n Y 2 s) <= M) ->
  Rabs (Y (t + h) - Euler_R f h t (Y t)) <= M / 2 * h ^ 2.
Proof. exact (euler_gen_local_error f Y t h M). Qed.
Print Assumptions C06_euler_local_error.

Theorem C06_euler_exact_const a0 h t y : Euler_R (fun _ _ => a0) h t y = y + a0 * h.
Proof. exact (euler_gen_exact_const a0 h t y). Qed.
Print Assumptions C06_euler_exact_const.

Theorem C06_euler_linear l h t y : Euler_R (fun _ y => l * y) h t y = (1 + l * h) * y.
Proof. exact (euler_gen_linear l h t y). Qed.
Print Assumptions C06_euler_linear.

(* ... and not second order: on y' = l y + g(t) the defect against the degree-2 Taylor polynomial is
   exactly d2 h^2 / 2 *)
Theorem C06_euler_linear_forced l a0 a1 a2 a3 h t y :
  Euler_R (fun t y => l * y + lf_g a0 a1 a2 a3 t) h t y =
  taylor y (firstn 2 (lf_derivs l a0 a1 a2 a3 t y)) h - h ^ 2 * (nth 1 (lf_derivs l a0 a1 a2 a3 t y) 0 / 2).
Proof. exact (euler_gen_linear_forced l a0 a1 a2 a3 h t y). Qed.
Print Assumptions C06_euler_linear_forced.

Theorem C06_euler_ty c h t y :
  Euler_R (fun t y => c * t * y) h t y =
  taylor y (firstn 2 (ty_derivs c t y)) h - h ^ 2 * (nth 1 (ty_derivs c t y) 0 / 2).
Proof. exact (euler_gen_ty c h t y). Qed.
Print Assumptions C06_euler_ty.

(* vector valued: x' = L x + g0 + t g1 for a linear operator L on any vector space *)
Theorem C06_euler_affine_system (VS : vspace) (L : VS -> VS) (g0 g1 : VS) getdt t y :
  (forall a b, L (vadd a b) = vadd (L a) (L b)) -> (forall c a, L (smul c a) = smul c (L a)) ->
  fst (Euler_gen VS (affine_rhs VS L g0 g1) getdt t y) =
  vtaylor y (firstn 1 (affine_derivs VS L g0 g1 t y)) (getdt t y).
Proof. exact (euler_gen_affine_system VS L g0 g1 getdt t y). Qed.
Print Assumptions C06_euler_affine_system.

