(* C06 - bridge, part B: the generated RK4 iterator IS the classical fourth-order scheme, stage
   times included.  This is the lemma that fails when a stage is evaluated at the wrong time, with a
   wrong intermediate state or with wrong weights.  Compiled by the check only. *)
From Coq Require Import Reals QArith Qreals List Lra.
Require Import Kawin.Common.Ops Kawin.C06.Model Kawin.C06.Proofs.
Require Import KawinRun.Iterators_gen KawinRun.BridgeA.
Import ListNotations.
Open Scope R_scope.

Section BridgeB.
Variable VS : vspace.

Lemma rk4_gen_is_doc f getdt t x : RK4_gen VS f getdt t x = (RK4_doc VS f t x (getdt t x), getdt t x).
Proof. gen_unfold. pair_eq. Qed.

Lemma rk4_gen_is_classic f getdt t x :
  RK4_gen VS f getdt t x = (rk_step VS f classic4 t x (getdt t x), getdt t x).
Proof. rewrite rk4_gen_is_doc, rk4_doc_is_rk. reflexivity. Qed.

Lemma rk4_gen_affine_system (L : VS -> VS) (g0 g1 : VS) getdt t y :
  (forall a b, L (vadd a b) = vadd (L a) (L b)) -> (forall c a, L (smul c a) = smul c (L a)) ->
  fst (RK4_gen VS (affine_rhs VS L g0 g1) getdt t y) = vtaylor y (affine_derivs VS L g0 g1 t y) (getdt t y).
Proof. intros HA HS. rewrite rk4_gen_is_doc. cbn [fst]. apply rk4_doc_affine_system; assumption. Qed.

End BridgeB.

(* the generated RK4 is a Runge-Kutta method whose tableau satisfies all order conditions up to
   order four and the row-sum condition *)
Lemma rk4_gen_order_4 :
  exists tab, order_conditions tab trees_le4 = true /\
    forall (VS : vspace) (f : R -> VS -> VS) getdt t x,
      RK4_gen VS f getdt t x = (rk_step VS f tab t x (getdt t x), getdt t x).
Proof. exists classic4. split; [exact classic4_order_4|]. intros. apply rk4_gen_is_classic. Qed.

(* componentwise lifting *)
Lemma rk4_gen_product (A B : vspace) (fa : R -> A -> A) (fb : R -> B -> B) (h t : R) (x : prodVS A B) :
  fst (RK4_gen (prodVS A B) (pair_rhs A B fa fb) (fun _ _ => h) t x) =
  (fst (RK4_gen A fa (fun _ _ => h) t (fst x)), fst (RK4_gen B fb (fun _ _ => h) t (snd x))).
Proof. rewrite !rk4_gen_is_doc. cbn [fst]. apply rk4_doc_product. Qed.

(* ---- scalar families for the generated RK4 iterator ---------------------------------------- *)
Definition RK4_R (f : R -> R -> R) (h t y : R) : R := fst (RK4_gen Rvs f (fun _ _ => h) t y).

Lemma rk4_gen_exact_quadrature a0 a1 a2 a3 h t y :
  RK4_R (fun t _ => a0 + a1 * t + a2 * t ^ 2 + a3 * t ^ 3) h t y =
  y + (a0 * h + a1 * ((t + h) ^ 2 - t ^ 2) / 2 + a2 * ((t + h) ^ 3 - t ^ 3) / 3 + a3 * ((t + h) ^ 4 - t ^ 4) / 4).
Proof. unfold RK4_R. rewrite rk4_gen_is_doc. cbn [fst]. apply rk4_doc_exact_cubic. Qed.

Lemma rk4_gen_linear l h t y :
  RK4_R (fun _ y => l * y) h t y = (1 + l * h + (l * h) ^ 2 / 2 + (l * h) ^ 3 / 6 + (l * h) ^ 4 / 24) * y.
Proof. unfold RK4_R. rewrite rk4_gen_is_doc. cbn [fst]. apply rk4_doc_linear. Qed.

Lemma rk4_gen_linear_forced l a0 a1 h t y :
  RK4_R (fun t y => l * y + a0 + a1 * t) h t y = taylor y (lf_derivs l a0 a1 0 0 t y) h.
Proof. unfold RK4_R. rewrite rk4_gen_is_doc. cbn [fst]. apply rk4_doc_linear_forced. Qed.

Lemma rk4_gen_linear_forced_cubic l a0 a1 a2 a3 h t y :
  RK4_R (fun t y => l * y + lf_g a0 a1 a2 a3 t) h t y =
  taylor y (lf_derivs l a0 a1 a2 a3 t y) h + h ^ 5 * lf_defect l a2 a3 t h.
Proof. unfold RK4_R. rewrite rk4_gen_is_doc. cbn [fst]. apply rk4_doc_linear_forced_cubic. Qed.


(* nonlinear right-hand sides: explicit fifth-order defects *)
Lemma rk4_gen_ty c h t y :
  RK4_R (fun t y => c * t * y) h t y = taylor y (ty_derivs c t y) h + h ^ 5 * ty_defect c t y h.
Proof. unfold RK4_R. rewrite rk4_gen_is_doc. cbn [fst]. apply rk4_doc_ty. Qed.

Lemma rk4_gen_logistic r h t y :
  RK4_R (fun _ y => r * y * (1 - y)) h t y = taylor y (logistic_derivs r y) h + h ^ 5 * logistic_defect r y h.
Proof. unfold RK4_R. rewrite rk4_gen_is_doc. cbn [fst]. apply rk4_doc_logistic. Qed.
