(* C06 - property theorems about the GENERATED model of the code, part B: RK4Iterator is the
   classical fourth-order Runge-Kutta scheme with the documented stage times.
   Re-checked on every run against build/C06/Iterators_gen.v.
   Only theorems, each closed by [exact] of a lemma of BridgeB.v and followed by Print Assumptions. *)
From Coq Require Import Reals QArith List Bool.
Require Import Kawin.Common.Ops Kawin.C06.Model Kawin.C06.Proofs.
Require Import KawinRun.Iterators_gen KawinRun.BridgeA KawinRun.BridgeB.
Import ListNotations.
Open Scope R_scope.

(* THE property theorem: on every real vector space, for every right-hand side f(t, x) and every
   step proposal, RK4Iterator returns the classical Runge-Kutta step: nodes (0, 1/2, 1/2, 1), stage
   matrix as documented, weights (1/6, 1/3, 1/3, 1/6) *)
Theorem C06_rk4_gen_is_classic (VS : vspace) (f : R -> VS -> VS) (getdt : R -> VS -> R) t x :
  RK4_gen VS f getdt t x = (rk_step VS f classic4 t x (getdt t x), getdt t x).
Proof. exact (rk4_gen_is_classic VS f getdt t x). Qed.
Print Assumptions C06_rk4_gen_is_classic.

(* ... which is what the docstring says, literally *)
Theorem C06_rk4_gen_is_doc (VS : vspace) (f : R -> VS -> VS) (getdt : R -> VS -> R) t x :
  RK4_gen VS f getdt t x = (RK4_doc VS f t x (getdt t x), getdt t x).
Proof. exact (rk4_gen_is_doc VS f getdt t x). Qed.
Print Assumptions C06_rk4_gen_is_doc.

(* it is a Runge-Kutta method whose tableau satisfies the eight order conditions up to order four and
   the row-sum condition (order four for time-dependent problems by Butcher's theorem, which is
   mathematical background and not formalised here) *)
Theorem C06_rk4_order_4 :
  exists tab, order_conditions tab trees_le4 = true /\
    forall (VS : vspace) (f : R -> VS -> VS) getdt t x,
      RK4_gen VS f getdt t x = (rk_step VS f tab t x (getdt t x), getdt t x).
Proof. exact rk4_gen_order_4. Qed.
Print Assumptions C06_rk4_order_4.

(* quadrature of cubics is exact *)
Theorem C06_rk4_exact_quadrature a0 a1 a2 a3 h t y :
  RK4_R (fun t _ => a0 + a1 * t + a2 * t ^ 2 + a3 * t ^ 3) h t y =
  y + (a0 * h + a1 * ((t + h) ^ 2 - t ^ 2) / 2 + a2 * ((t + h) ^ 3 - t ^ 3) / 3 + a3 * ((t + h) ^ 4 - t ^ 4) / 4).
Proof. exact (rk4_gen_exact_quadrature a0 a1 a2 a3 h t y). Qed.
Print Assumptions C06_rk4_exact_quadrature.

(* y' = l y : multiplication by the degree-4 Taylor polynomial of exp (l h) *)
Theorem C06_rk4_linear l h t y :
  RK4_R (fun _ y => l * y) h t y = (1 + l * h + (l * h) ^ 2 / 2 + (l * h) ^ 3 / 6 + (l * h) ^ 4 / 24) * y.
Proof. exact (rk4_gen_linear l h t y). Qed.
Print Assumptions C06_rk4_linear.

(* y' = l y + a0 + a1 t : the degree-4 Taylor polynomial of the exact solution *)
Theorem C06_rk4_linear_forced l a0 a1 h t y :
  RK4_R (fun t y => l * y + a0 + a1 * t) h t y = taylor y (lf_derivs l a0 a1 0 0 t y) h.
Proof. exact (rk4_gen_linear_forced l a0 a1 h t y). Qed.
Print Assumptions C06_rk4_linear_forced.

(* y' = l y + cubic(t) : Taylor polynomial of degree 4 plus an explicit multiple of h^5 *)
Theorem C06_rk4_linear_forced_cubic l a0 a1 a2 a3 h t y :
  RK4_R (fun t y => l * y + lf_g a0 a1 a2 a3 t) h t y =
  taylor y (lf_derivs l a0 a1 a2 a3 t y) h + h ^ 5 * lf_defect l a2 a3 t h.
Proof. exact (rk4_gen_linear_forced_cubic l a0 a1 a2 a3 h t y). Qed.
Print Assumptions C06_rk4_linear_forced_cubic.

(* nonlinear in (t, y): y' = c t y - degree-4 Taylor polynomial of the exact solution plus an
   explicit multiple of h^5 *)
Theorem C06_rk4_ty c h t y :
  RK4_R (fun t y => c * t * y) h t y = taylor y (ty_derivs c t y) h + h ^ 5 * ty_defect c t y h.
Proof. exact (rk4_gen_ty c h t y). Qed.
Print Assumptions C06_rk4_ty.

(* nonlinear autonomous: y' = r y (1 - y) *)
Theorem C06_rk4_logistic r h t y :
  RK4_R (fun _ y => r * y * (1 - y)) h t y = taylor y (logistic_derivs r y) h + h ^ 5 * logistic_defect r y h.
Proof. exact (rk4_gen_logistic r h t y). Qed.
Print Assumptions C06_rk4_logistic.

(* vector valued: x' = L x + g0 + t g1 for a linear operator L on any vector space *)
Theorem C06_rk4_affine_system (VS : vspace) (L : VS -> VS) (g0 g1 : VS) getdt t y :
  (forall a b, L (vadd a b) = vadd (L a) (L b)) -> (forall c a, L (smul c a) = smul c (L a)) ->
  fst (RK4_gen VS (affine_rhs VS L g0 g1) getdt t y) = vtaylor y (affine_derivs VS L g0 g1 t y) (getdt t y).
Proof. exact (rk4_gen_affine_system VS L g0 g1 getdt t y). Qed.
Print Assumptions C06_rk4_affine_system.

Theorem C06_rk4_componentwise (A B : vspace) (fa : R -> A -> A) (fb : R -> B -> B) (h t : R) (x : prodVS A B) :
  fst (RK4_gen (prodVS A B) (pair_rhs A B fa fb) (fun _ _ => h) t x) =
  (fst (RK4_gen A fa (fun _ _ => h) t (fst x)), fst (RK4_gen B fb (fun _ _ => h) t (snd x))).
Proof. exact (rk4_gen_product A B fa fb h t x). Qed.
Print Assumptions C06_rk4_componentwise.

