(* C06 - bridge, part S: the solver wrappers DESolver._getdXdt / _updateX in the GENERATED text (for
   models that do not correct derivatives: the in-place hook correctdXdt is the default no-op, see
   harness/c06_translate.py).  The step the iterator receives is the model's proposal clamped to
   [_dtmin, _dtmax] in the order of the last good model (Model.spec_clamp: lower bound first, the
   upper bound wins when the bounds cross); a clamp written differently but equal as a function still
   checks, a clamp with other bounds or another precedence does not.  Compiled by the check only. *)
From Coq Require Import Reals QArith Qreals List Lra.
Require Import Kawin.Common.Ops Kawin.C06.Model Kawin.C06.Proofs.
Require Import KawinRun.Iterators_gen KawinRun.BridgeA KawinRun.BridgeB.
Import ListNotations.
Open Scope R_scope.

Definition clamp_dt (dtmin dtmax d : R) : R := spec_clamp Rops dtmin dtmax d.

Section BridgeS.
Variable VS : vspace.
Variable F : R -> VS -> VS.        (* the model's getdXdt *)
Variable userdt : VS -> R.         (* the model's getDt *)
Variables fmin fmax : R.           (* DESolver.dtmin / dtmax: fractions of the simulated span *)
Variables dtmin dtmax : R.         (* DESolver._dtmin / _dtmax: absolute bounds in force *)

(* the model is called with the time and state the iterator passes, unchanged *)
Lemma getdXdt_passes_time t x :
  getdXdt_gen Rops VS (@vadd VS) (@smul VS) F userdt fmin fmax dtmin dtmax t x = F t x.
Proof. reflexivity. Qed.

Lemma updateX_is_plain x k h :
  updateX_gen Rops VS (@vadd VS) (@smul VS) F userdt fmin fmax dtmin dtmax x k h = plain_update x k h.
Proof. reflexivity. Qed.

(* f(t, X, True) returns the same derivative as f(t, X), plus the clamped step *)
Lemma getdXdt_pair_consistent t x :
  getdXdt_dt_gen Rops VS (@vadd VS) (@smul VS) F userdt fmin fmax dtmin dtmax t x =
  (F t x, clamp_dt dtmin dtmax (userdt (F t x))).
Proof.
  unfold getdXdt_dt_gen, clamp_dt, spec_clamp. cbv zeta. cbn [T Rops ltb leb].
  generalize (userdt (F t x)). intros d.
  (* case analysis on every comparison, innermost first (a clamp written with nested max / min
     compares conditionals) *)
  timeout 60 (repeat match goal with
                     | |- context [Rltb ?a ?b] =>
                         lazymatch a with context [if _ then _ else _] => fail | _ => idtac end;
                         lazymatch b with context [if _ then _ else _] => fail | _ => idtac end;
                         destruct (Rltb a b) eqn:?
                     | |- context [Rleb ?a ?b] =>
                         lazymatch a with context [if _ then _ else _] => fail | _ => idtac end;
                         lazymatch b with context [if _ then _ else _] => fail | _ => idtac end;
                         destruct (Rleb a b) eqn:?
                     end);
    Rbool; first [ reflexivity | f_equal; lra ].
Qed.

Lemma solver_euler_is_rk t x :
  let dt := clamp_dt dtmin dtmax (userdt (F t x)) in
  solver_Euler_gen Rops VS (@vadd VS) (@smul VS) F userdt fmin fmax dtmin dtmax t x = (rk_step VS F euler1 t x dt, dt).
Proof.
  cbv zeta.
  change (solver_Euler_gen Rops VS (@vadd VS) (@smul VS) F userdt fmin fmax dtmin dtmax t x)
    with (Euler_gen VS F (fun t x => snd (getdXdt_dt_gen Rops VS (@vadd VS) (@smul VS) F userdt fmin fmax dtmin dtmax t x)) t x).
  rewrite euler_gen_is_rk. cbv beta. rewrite getdXdt_pair_consistent. reflexivity.
Qed.

(* what DESolver.solve runs for SolverType.RK4 on a model without derivative correction: the
   classical scheme applied to the MODEL's right-hand side, called at t, t+dt/2, t+dt/2, t+dt *)
Lemma solver_rk4_is_classic t x :
  let dt := clamp_dt dtmin dtmax (userdt (F t x)) in
  solver_RK4_gen Rops VS (@vadd VS) (@smul VS) F userdt fmin fmax dtmin dtmax t x = (rk_step VS F classic4 t x dt, dt).
Proof.
  cbv zeta.
  change (solver_RK4_gen Rops VS (@vadd VS) (@smul VS) F userdt fmin fmax dtmin dtmax t x)
    with (RK4_gen VS F (fun t x => snd (getdXdt_dt_gen Rops VS (@vadd VS) (@smul VS) F userdt fmin fmax dtmin dtmax t x)) t x).
  rewrite rk4_gen_is_classic. cbv beta. rewrite getdXdt_pair_consistent. reflexivity.
Qed.
End BridgeS.

(* the precedence of the bounds matters exactly when they cross (remaining time below the minimum
   step): the last good model then takes the upper bound, so that the last step lands on the end time *)
Lemma clamp_dt_crossed dtmin dtmax d : dtmax < dtmin -> clamp_dt dtmin dtmax d = dtmax.
Proof.
  intros H. unfold clamp_dt, spec_clamp. cbv zeta. cbn [T Rops ltb].
  destruct (Rltb dtmin d) eqn:E1; destruct (Rltb _ dtmax) eqn:E2; Rbool; try reflexivity; lra.
Qed.
Lemma clamp_dt_inside dtmin dtmax d : dtmin < d < dtmax -> clamp_dt dtmin dtmax d = d.
Proof.
  intros H. unfold clamp_dt, spec_clamp. cbv zeta. cbn [T Rops ltb].
  destruct (Rltb dtmin d) eqn:E1; destruct (Rltb _ dtmax) eqn:E2; Rbool; try reflexivity; lra.
Qed.
