(* C06 - property theorems about the GENERATED model of the code, part S: the solver wrappers.
   Re-checked on every run against build/C06/Iterators_gen.v.
   Only theorems, each closed by [exact] of a lemma of BridgeS.v and followed by Print Assumptions. *)
From Coq Require Import Reals QArith List Bool.
Require Import Kawin.Common.Ops Kawin.C06.Model Kawin.C06.Proofs.
Require Import KawinRun.Iterators_gen KawinRun.BridgeA KawinRun.BridgeB KawinRun.BridgeS.
Import ListNotations.
Open Scope R_scope.

(* DESolver._getdXdt hands the model the time and state it was given, and _updateX is x + h k when
   the model does not correct derivatives *)
Theorem C06_solver_passes_time (VS : vspace) (F : R -> VS -> VS) userdt fmin fmax dtmin dtmax t x :
  getdXdt_gen Rops VS (@vadd VS) (@smul VS) F userdt fmin fmax dtmin dtmax t x = F t x.
Proof. exact (getdXdt_passes_time VS F userdt fmin fmax dtmin dtmax t x). Qed.
Print Assumptions C06_solver_passes_time.

Theorem C06_solver_update_is_plain (VS : vspace) (F : R -> VS -> VS) userdt fmin fmax dtmin dtmax x k h :
  updateX_gen Rops VS (@vadd VS) (@smul VS) F userdt fmin fmax dtmin dtmax x k h = plain_update x k h.
Proof. exact (updateX_is_plain VS F userdt fmin fmax dtmin dtmax x k h). Qed.
Print Assumptions C06_solver_update_is_plain.

Theorem C06_solver_euler_is_rk (VS : vspace) (F : R -> VS -> VS) userdt fmin fmax dtmin dtmax t x :
  let dt := clamp_dt dtmin dtmax (userdt (F t x)) in
  solver_Euler_gen Rops VS (@vadd VS) (@smul VS) F userdt fmin fmax dtmin dtmax t x =
  (rk_step VS F euler1 t x dt, dt).
Proof. exact (solver_euler_is_rk VS F userdt fmin fmax dtmin dtmax t x). Qed.
Print Assumptions C06_solver_euler_is_rk.

(* through the solver wrappers: SolverType.RK4 applies the classical scheme to the MODEL's
   right-hand side, i.e. the model is called at times t, t + dt/2, t + dt/2, t + dt *)
Theorem C06_solver_rk4_is_classic (VS : vspace) (F : R -> VS -> VS) userdt fmin fmax dtmin dtmax t x :
  let dt := clamp_dt dtmin dtmax (userdt (F t x)) in
  solver_RK4_gen Rops VS (@vadd VS) (@smul VS) F userdt fmin fmax dtmin dtmax t x =
  (rk_step VS F classic4 t x dt, dt).
Proof. exact (solver_rk4_is_classic VS F userdt fmin fmax dtmin dtmax t x). Qed.
Print Assumptions C06_solver_rk4_is_classic.

(* when the remaining time is below the minimum step the step taken is the remaining time *)
Theorem C06_clamp_crossed dtmin dtmax d : dtmax < dtmin -> clamp_dt dtmin dtmax d = dtmax.
Proof. exact (clamp_dt_crossed dtmin dtmax d). Qed.
Print Assumptions C06_clamp_crossed.

Theorem C06_clamp_inside dtmin dtmax d : dtmin < d < dtmax -> clamp_dt dtmin dtmax d = d.
Proof. exact (clamp_dt_inside dtmin dtmax d). Qed.
Print Assumptions C06_clamp_inside.
