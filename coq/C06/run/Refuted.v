(* C06 - diagnostic compiled by the check only when BridgeB.v does NOT check: it proves, against the
   current generated text, that the generated RK4 iterator ignores the documented stage times - on
   y' = t from y(0) = 0 one step of size 1 returns 0 where the classical scheme (and the exact
   solution) give 1/2.  The witness (f = t, t = 0, y = 0, dt = 1) is replayed on the real code by
   the harness.  On the repaired tree this file does not compile (and is not compiled). *)
From Coq Require Import Reals Lra.
Require Import Kawin.Common.Ops Kawin.C06.Model Kawin.C06.Proofs.
Require Import KawinRun.Iterators_gen KawinRun.BridgeA.
Open Scope R_scope.

Example rk4_time_refuted :
  fst (RK4_gen Rvs (fun t _ => t) (fun _ _ => 1) 0 0) = 0 /\
  rk_step Rvs (fun t _ => t) classic4 0 0 1 = 1 / 2.
Proof.
  split.
  - unfold RK4_gen, RK4Iterator_gen, plain_update. cbv zeta. cbn [fst T Rops ofZ dvd one vadd smul vcar Rvs].
    lra.
  - rewrite <- rk4_doc_is_rk. unfold RK4_doc. cbv zeta. cbn [vadd smul vcar Rvs].
    change (@eq (vcar Rvs)) with (@eq R). lra.
Qed.
Print Assumptions rk4_time_refuted.
