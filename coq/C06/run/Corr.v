(* C06 - validation of the translator: the GENERATED text is executed on exact rationals inside Coq
   (scalar record instance Qops, list vectors) on polynomial right-hand sides and compared with what
   the Python functions it was generated from return on the same inputs.  Harness side only: no
   theorem depends on this file. *)
From Coq Require Import QArith List ZArith Bool.
Require Import Kawin.Common.Ops Kawin.Common.Out Kawin.C06.Model.
Require Import KawinRun.Iterators_gen.
Import ListNotations.
Open Scope Q_scope.

Definition LQ := list Q.

Definition it_euler (P : list LQ) (h t : Q) (y : LQ) : LQ * Q :=
  ExplicitEulerIterator_gen Qops LQ (lvadd Qops) (lsmul Qops) (poly_rhs Qops P) (fun _ _ => h) (lupdate Qops) t y.
Definition it_rk4 (P : list LQ) (h t : Q) (y : LQ) : LQ * Q :=
  RK4Iterator_gen Qops LQ (lvadd Qops) (lsmul Qops) (poly_rhs Qops P) (fun _ _ => h) (lupdate Qops) t y.

(* through the solver wrappers: the model proposes dt = h0 + h1 * (dXdt_0)^2 *)
Definition userdt (h0 h1 : Q) (d : LQ) : Q := Qred (h0 + h1 * (nth 0 d 0 * nth 0 d 0)).
Definition sv_euler (P : list LQ) (h0 h1 dtmin dtmax t : Q) (y : LQ) : LQ * Q :=
  solver_Euler_gen Qops LQ (lvadd Qops) (lsmul Qops) (poly_rhs Qops P) (userdt h0 h1) dtmin dtmax t y.
Definition sv_rk4 (P : list LQ) (h0 h1 dtmin dtmax t : Q) (y : LQ) : LQ * Q :=
  solver_RK4_gen Qops LQ (lvadd Qops) (lsmul Qops) (poly_rhs Qops P) (userdt h0 h1) dtmin dtmax t y.

Definition tolscale (m : LQ) : LQ := map (fun v => 1 + qabs v) m.

(* which: 0 Euler iterator, 1 RK4 iterator, 2 Euler through the solver, 3 RK4 through the solver.
   Result: verdict on the new state (None = agreement within rt * (1 + |model|)), agreement of dt, and
   whether the step proposal lies within rt of one of the clamp bounds (comparison indeterminate). *)
Definition check06 (which : nat) (rt : Q) (P : list LQ) (h0 h1 dtmin dtmax t : Q) (y impl_y : LQ) (impl_dt : Q)
  : verdict * bool * bool :=
  let r := match which with
           | 0%nat => it_euler P h0 t y
           | 1%nat => it_rk4 P h0 t y
           | 2%nat => sv_euler P h0 h1 dtmin dtmax t y
           | _ => sv_rk4 P h0 h1 dtmin dtmax t y
           end in
  let prop := userdt h0 h1 (poly_rhs Qops P t y) in
  let tie := match which with
             | 0%nat | 1%nat => false
             | _ => near_tie rt prop dtmin || near_tie rt prop dtmax
             end in
  (cmpl rt impl_y (fst r) (tolscale (fst r)), closeb rt impl_dt (snd r) (qabs (snd r)), tie).
