(* C06 - validation of the translator: the GENERATED text is executed on exact rationals inside Coq
   (scalar record instance Qops, list vectors) on polynomial right-hand sides and compared with what
   the Python functions it was generated from return on the same inputs.  Harness side only: no
   theorem depends on this file. *)
From Coq Require Import QArith List ZArith Bool.
Require Import Kawin.Common.Ops Kawin.Common.Out Kawin.C06.Model Kawin.C06.SpecCorr.
Require Import KawinRun.Iterators_gen.
Import ListNotations.
Open Scope Q_scope.

Definition it_euler (P : list LQ) (h t : Q) (y : LQ) : LQ * Q :=
  ExplicitEulerIterator_gen Qops LQ (lvadd Qops) (lsmul Qops) (poly_rhs Qops P) (fun _ _ => h) (lupdate Qops) t y.
Definition it_rk4 (P : list LQ) (h t : Q) (y : LQ) : LQ * Q :=
  RK4Iterator_gen Qops LQ (lvadd Qops) (lsmul Qops) (poly_rhs Qops P) (fun _ _ => h) (lupdate Qops) t y.

(* through the solver wrappers; fmin / fmax are the attributes dtmin / dtmax (fractions of the span),
   dtmin / dtmax the absolute bounds _dtmin / _dtmax *)
Definition sv_euler (P : list LQ) (h0 h1 fmin fmax dtmin dtmax t : Q) (y : LQ) : LQ * Q :=
  solver_Euler_gen Qops LQ (lvadd Qops) (lsmul Qops) (poly_rhs Qops P) (userdt h0 h1) fmin fmax dtmin dtmax t y.
Definition sv_rk4 (P : list LQ) (h0 h1 fmin fmax dtmin dtmax t : Q) (y : LQ) : LQ * Q :=
  solver_RK4_gen Qops LQ (lvadd Qops) (lsmul Qops) (poly_rhs Qops P) (userdt h0 h1) fmin fmax dtmin dtmax t y.

(* Result: verdict on the new state (None = agreement within rt * (1 + |model|)), agreement of dt, and
   whether the step proposal lies within rt of one of the clamp bounds (comparison indeterminate). *)
Definition check06 (which : nat) (rt : Q) (P : list LQ) (h0 h1 fmin fmax dtmin dtmax t : Q) (y impl_y : LQ) (impl_dt : Q)
  : verdict * bool * bool :=
  let r := match which with
           | 0%nat => it_euler P h0 t y
           | 1%nat => it_rk4 P h0 t y
           | 2%nat => sv_euler P h0 h1 fmin fmax dtmin dtmax t y
           | _ => sv_rk4 P h0 h1 fmin fmax dtmin dtmax t y
           end in
  (verdict06 rt r impl_y impl_dt, clamp_tie which rt P h0 h1 dtmin dtmax t y).

(* both opinions at once *)
Definition check06both (which : nat) (rt : Q) (P : list LQ) (h0 h1 fmin fmax dtmin dtmax t : Q) (y impl_y : LQ) (impl_dt : Q) :=
  (check06 which rt P h0 h1 fmin fmax dtmin dtmax t y impl_y impl_dt,
   check06s which rt P h0 h1 dtmin dtmax t y impl_y impl_dt).
