(* C06 - correspondence with the LAST GOOD MODEL (Model.v: spec_clamp, spec_euler_step, spec_rk4_step),
   executed on exact rationals.  Static: does not depend on the generated text, so it is available
   when the translator rejects the source; it then supplies the concrete input on which the
   implementation departs from the model the theorems were proved about.  Harness side only. *)
From Coq Require Import QArith List ZArith Bool.
Require Import Kawin.Common.Ops Kawin.Common.Out Kawin.C06.Model.
Import ListNotations.
Open Scope Q_scope.

Definition LQ := list Q.
(* the test model proposes dt = h0 + h1 * (dXdt_0)^2 *)
Definition userdt (h0 h1 : Q) (d : LQ) : Q := Qred (h0 + h1 * (nth 0 d 0 * nth 0 d 0)).
Definition tolscale (m : LQ) : LQ := map (fun v => 1 + qabs v) m.

(* which: 0 Euler iterator, 1 RK4 iterator (step h0 as proposed), 2 Euler / 3 RK4 through the solver
   wrappers (step = clamp of the model's proposal) *)
Definition spec_step (which : nat) (P : list LQ) (h0 h1 dtmin dtmax t : Q) (y : LQ) : LQ * Q :=
  let f := poly_rhs Qops P in
  let h := match which with
           | 0%nat | 1%nat => h0
           | _ => spec_clamp Qops dtmin dtmax (userdt h0 h1 (f t y))
           end in
  (match which with
   | 0%nat | 2%nat => spec_euler_step Qops f t y h
   | _ => spec_rk4_step Qops f t y h
   end, h).

Definition clamp_tie (which : nat) (rt : Q) (P : list LQ) (h0 h1 dtmin dtmax t : Q) (y : LQ) : bool :=
  let prop := userdt h0 h1 (poly_rhs Qops P t y) in
  match which with
  | 0%nat | 1%nat => false
  | _ => near_tie rt prop dtmin || near_tie rt prop dtmax || near_tie rt dtmin dtmax
  end.

Definition verdict06 (rt : Q) (r : LQ * Q) (impl_y : LQ) (impl_dt : Q) : verdict * bool :=
  (cmpl rt impl_y (fst r) (tolscale (fst r)), closeb rt impl_dt (snd r) (qabs (snd r))).

Definition check06s (which : nat) (rt : Q) (P : list LQ) (h0 h1 dtmin dtmax t : Q) (y impl_y : LQ) (impl_dt : Q)
  : verdict * bool * bool :=
  (verdict06 rt (spec_step which P h0 h1 dtmin dtmax t y) impl_y impl_dt, clamp_tie which rt P h0 h1 dtmin dtmax t y).
