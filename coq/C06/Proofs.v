(* C06 - lemmas about the specifications of Model.v (static part: nothing here depends on the
   generated text; run/Bridge.v connects the generated iterators to these statements). *)
From Coq Require Import Reals QArith Qreals List Bool ZArith Lra Lia Arith FunctionalExtensionality.
Require Import Kawin.Common.Ops Kawin.C06.Model.
Import ListNotations.
Open Scope R_scope.

(* ========================================================================================= *)
(* 1. vector spaces: instances                                                                *)
(* ========================================================================================= *)
Definition Rvs : vspace.
Proof.
  refine (mkVS R 0 Rplus Rmult _ _ _ _ _ _ _ _); intros; lra.
Defined.

Definition prodVS (A B : vspace) : vspace.
Proof.
  refine (mkVS (A * B)%type (vzero, vzero)
               (fun p q => (vadd (fst p) (fst q), vadd (snd p) (snd q)))
               (fun c p => (smul c (fst p), smul c (snd p))) _ _ _ _ _ _ _ _);
    intros; cbn [fst snd]; try (destruct a; cbn [fst snd]); f_equal;
    auto using vadd_comm, vadd_assoc, vadd_0_r, smul_vadd, smul_plus, smul_smul, smul_1, smul_0.
Defined.

(* functions into R (sequences, fields on a grid, ...): the state of a kawin model is a flat array,
   i.e. a function from indices to reals *)
Definition funVS (I : Type) : vspace.
Proof.
  refine (mkVS (I -> R) (fun _ => 0) (fun a b i => a i + b i) (fun c a i => c * a i) _ _ _ _ _ _ _ _);
    intros; apply functional_extensionality; intros; lra.
Defined.

Definition R2vs : vspace := prodVS Rvs Rvs.

(* ========================================================================================= *)
(* 2. derived laws and a reflexive decision procedure for linear identities                   *)
(* ========================================================================================= *)
Section Laws.
Variable VS : vspace.

Lemma vadd_0_l (a : VS) : vadd vzero a = a.
Proof. rewrite vadd_comm. apply vadd_0_r. Qed.

Lemma smul_vzero (r : R) : smul r (@vzero VS) = vzero.
Proof. rewrite <- (smul_0 VS vzero) at 1. rewrite smul_smul, Rmult_0_r. apply smul_0. Qed.

Lemma vadd_shuffle (a b c d : VS) : vadd (vadd a b) (vadd c d) = vadd (vadd a c) (vadd b d).
Proof.
  rewrite <- (vadd_assoc VS a b (vadd c d)), (vadd_assoc VS b c d), (vadd_comm VS b c),
          <- (vadd_assoc VS c b d), (vadd_assoc VS a c (vadd b d)). reflexivity.
Qed.

Inductive vexpr := VAtom (n : nat) | VZero | VAdd (a b : vexpr) | VSmul (r : R) (a : vexpr).

Fixpoint vden (env : list VS) (e : vexpr) : VS :=
  match e with
  | VAtom n => nth n env vzero
  | VZero => vzero
  | VAdd a b => vadd (vden env a) (vden env b)
  | VSmul r a => smul r (vden env a)
  end.

Fixpoint coef (e : vexpr) (n : nat) : R :=
  match e with
  | VAtom m => if Nat.eqb m n then 1 else 0
  | VZero => 0
  | VAdd a b => coef a n + coef b n
  | VSmul r a => r * coef a n
  end.

(* normal form: sum over the environment of (coefficient) * atom *)
Fixpoint nf (e : vexpr) (k : nat) (env : list VS) : VS :=
  match env with
  | [] => vzero
  | v :: env' => vadd (smul (coef e k) v) (nf e (S k) env')
  end.

Lemma nf_zero k env : nf VZero k env = vzero.
Proof.
  revert k; induction env as [|v env IH]; intros k; cbn [nf coef]; [reflexivity|].
  rewrite IH, smul_0. apply vadd_0_r.
Qed.

Lemma nf_add a b k env : nf (VAdd a b) k env = vadd (nf a k env) (nf b k env).
Proof.
  revert k; induction env as [|v env IH]; intros k; cbn [nf coef].
  - symmetry; apply vadd_0_r.
  - rewrite IH, smul_plus. apply vadd_shuffle.
Qed.

Lemma nf_smul r a k env : nf (VSmul r a) k env = smul r (nf a k env).
Proof.
  revert k; induction env as [|v env IH]; intros k; cbn [nf coef].
  - symmetry; apply smul_vzero.
  - rewrite IH, smul_vadd, smul_smul. reflexivity.
Qed.

Lemma nf_atom n k env : nf (VAtom n) k env = if (k <=? n)%nat then nth (n - k) env vzero else vzero.
Proof.
  revert k; induction env as [|v env IH]; intros k; cbn [nf coef].
  - destruct (k <=? n)%nat; [destruct (n - k)%nat|]; reflexivity.
  - rewrite IH. destruct (Nat.eqb n k) eqn:E.
    + apply Nat.eqb_eq in E; subst k.
      replace (S n <=? n)%nat with false by (symmetry; apply Nat.leb_gt; lia).
      rewrite Nat.leb_refl, Nat.sub_diag, smul_1. apply vadd_0_r.
    + apply Nat.eqb_neq in E. rewrite smul_0, vadd_0_l.
      destruct (k <=? n)%nat eqn:L.
      * apply Nat.leb_le in L. replace (S k <=? n)%nat with true by (symmetry; apply Nat.leb_le; lia).
        replace (n - k)%nat with (S (n - S k)) by lia. reflexivity.
      * apply Nat.leb_gt in L. replace (S k <=? n)%nat with false by (symmetry; apply Nat.leb_gt; lia).
        reflexivity.
Qed.

Lemma vden_nf env e : vden env e = nf e 0 env.
Proof.
  induction e as [n| |a IHa b IHb|r a IHa]; cbn [vden].
  - rewrite nf_atom. cbn. rewrite Nat.sub_0_r. reflexivity.
  - symmetry; apply nf_zero.
  - rewrite nf_add, IHa, IHb. reflexivity.
  - rewrite nf_smul, IHa. reflexivity.
Qed.

Fixpoint coef_eqs (e1 e2 : vexpr) (k n : nat) : Prop :=
  match n with
  | O => True
  | S n' => coef e1 k = coef e2 k /\ coef_eqs e1 e2 (S k) n'
  end.

Lemma nf_ext e1 e2 env : forall k, coef_eqs e1 e2 k (length env) -> nf e1 k env = nf e2 k env.
Proof.
  induction env as [|v env IH]; intros k H; cbn [nf]; [reflexivity|].
  destruct H as [H1 H2]. rewrite H1, (IH _ H2). reflexivity.
Qed.

Lemma vden_eq env e1 e2 : coef_eqs e1 e2 0 (length env) -> vden env e1 = vden env e2.
Proof. intros H. rewrite !vden_nf. apply nf_ext, H. Qed.
End Laws.


(* ---- reification ---------------------------------------------------------------------------- *)
Ltac vs_inlist x l :=
  lazymatch l with
  | nil => constr:(false)
  | cons x _ => constr:(true)
  | cons _ ?t => vs_inlist x t
  end.

Ltac vs_index x l :=
  lazymatch l with
  | cons x _ => constr:(O)
  | cons _ ?t => let n := vs_index x t in constr:(S n)
  end.

(* atoms of a vector expression, most recently met first *)
Ltac vs_atoms e acc :=
  lazymatch e with
  | @vadd _ ?a ?b => let acc' := vs_atoms a acc in vs_atoms b acc'
  | @smul _ _ ?a => vs_atoms a acc
  | @vzero _ => acc
  | _ => lazymatch vs_inlist e acc with true => acc | false => constr:(cons e acc) end
  end.

Ltac vs_reify VS env e :=
  lazymatch e with
  | @vadd _ ?a ?b => let ra := vs_reify VS env a in let rb := vs_reify VS env b in constr:(VAdd ra rb)
  | @smul _ ?r ?a => let ra := vs_reify VS env a in constr:(VSmul r ra)
  | @vzero _ => constr:(VZero)
  | _ => let n := vs_index e env in constr:(VAtom n)
  end.

(* scalar side goals: expose the real operations behind the scalar record and rational literals *)
Ltac rk_scalar :=
  cbn [T zero one add sub mul dvd ofZ Rops coef Nat.eqb] in *;
  unfold Q2R; cbn [Qnum Qden];
  first [ reflexivity | lra | (field; lra) ].

(* decide a linear identity between vector expressions whose atoms are syntactically equal *)
Ltac vs_ring :=
  lazymatch goal with
  | |- @eq (vcar ?VS) ?a ?b =>
      let l0 := constr:(@nil (vcar VS)) in
      let l1 := vs_atoms a l0 in
      let env := vs_atoms b l1 in
      let ea := vs_reify VS env a in
      let eb := vs_reify VS env b in
      change (vden VS env ea = vden VS env eb);
      apply vden_eq; cbn [coef_eqs length]; repeat split; rk_scalar
  end.

(* first position at which two atom lists differ *)
Ltac rk_first_diff la lb k :=
  lazymatch la with
  | cons ?x ?la' =>
      lazymatch lb with
      | cons ?y ?lb' => tryif constr_eq x y then rk_first_diff la' lb' k else k x y
      end
  | nil => fail "no differing atom"
  end.

(* equality of two right-hand-side evaluations / vector expressions built from them: align the atoms
   of the two sides pairwise (in order of occurrence), proving each pair equal recursively *)
Ltac rk_eq :=
  lazymatch goal with
  | |- @eq (vcar ?VS) ?a ?b =>
      first
        [ reflexivity
        | vs_ring
        | let l0 := constr:(@nil (vcar VS)) in
          let la := vs_atoms a l0 in
          let lb := vs_atoms b l0 in
          rk_first_diff la lb ltac:(fun x y =>
            let H := fresh "Hatom" in
            assert (H : x = y) by rk_atom;
            rewrite H; clear H);
          rk_eq ]
  end
with rk_atom :=
  (* two evaluations of the SAME function: compare the arguments (a variable against an application,
     or different functions, is a failure - this also guarantees termination) *)
  first
    [ reflexivity
    | lazymatch goal with
      | |- ?f ?a1 ?a2 = ?f ?b1 ?b2 => apply f_equal2; rk_arg
      | |- ?f ?a = ?f ?b => apply f_equal; rk_arg
      end ]
with rk_arg :=
  lazymatch goal with
  | |- @eq (vcar _) _ _ => rk_eq
  | |- _ => rk_scalar
  end.

(* ========================================================================================= *)
(* 3. the documented iterators are the Runge-Kutta steps of the two tableaus                  *)
(* ========================================================================================= *)
Section DocIsRK.
Variable VS : vspace.
Variable f : R -> VS -> VS.

Lemma euler_doc_is_rk t x h : Euler_doc VS f t x h = rk_step VS f euler1 t x h.
Proof.
  unfold Euler_doc, rk_step. cbv [rk_stages lincomb app tc ta tb euler1].
  rk_eq.
Qed.

Lemma rk4_doc_is_rk t x h : RK4_doc VS f t x h = rk_step VS f classic4 t x h.
Proof.
  unfold RK4_doc, rk_step. cbv [rk_stages lincomb app tc ta tb classic4]. cbv zeta.
  rk_eq.
Qed.
End DocIsRK.

(* ========================================================================================= *)
(* 4. order conditions, by computation on exact rationals                                     *)
(* ========================================================================================= *)
Lemma trees_le4_orders : map torder trees_le4 = [1; 2; 3; 3; 4; 4; 4; 4]%nat.
Proof. vm_compute. reflexivity. Qed.

Lemma trees_le4_densities :
  map (fun t => Qred (tgamma t)) trees_le4 = [1; 2; 3; 6; 4; 8; 12; 24]%Q.
Proof. vm_compute. reflexivity. Qed.

Lemma classic4_order_4 : order_conditions classic4 trees_le4 = true.
Proof. vm_compute. reflexivity. Qed.

Lemma classic4_row_sum : row_sum_ok classic4 = true /\ shape_ok classic4 = true.
Proof. split; vm_compute; reflexivity. Qed.

(* ... and not of order five: the quadrature condition sum b_i c_i^4 = 1/5 fails (5/24) *)
Lemma classic4_not_order_5 : cond_ok classic4 bush5 = false /\ Qred (weight classic4 bush5) = (5 # 24)%Q.
Proof. split; vm_compute; reflexivity. Qed.

Lemma euler1_order_1 : order_conditions euler1 trees_1 = true.
Proof. vm_compute. reflexivity. Qed.

Lemma euler1_not_order_2 : forallb (cond_ok euler1) trees_2 = false.
Proof. vm_compute. reflexivity. Qed.

(* the eight conditions in their textbook form, for the record *)
Lemma classic4_conditions_explicit :
  let b := tb classic4 in let c := tc classic4 in let A := ta classic4 in
  let Ac := matvecQ A c in
  (dotQ b (repeat 1 4) == 1 /\ dotQ b c == 1 # 2 /\ dotQ b (mulvQ c c) == 1 # 3 /\ dotQ b Ac == 1 # 6 /\
   dotQ b (mulvQ c (mulvQ c c)) == 1 # 4 /\ dotQ b (mulvQ c Ac) == 1 # 8 /\
   dotQ b (matvecQ A (mulvQ c c)) == 1 # 12 /\ dotQ b (matvecQ A Ac) == 1 # 24)%Q.
Proof. vm_compute. repeat split; reflexivity. Qed.

(* a tableau whose third weight is wrong (2*k3 -> k3) or whose second node is 0 instead of 1/2
   violates the conditions: the check is not vacuous *)
Lemma wrong_weights_detected :
  order_conditions (mkTab (tc classic4) (ta classic4) [1 # 6; 1 # 3; 1 # 6; 1 # 6]%Q) trees_le4 = false.
Proof. vm_compute. reflexivity. Qed.
Lemma wrong_node_detected :
  order_conditions (mkTab [0; 0; 1 # 2; 1]%Q (ta classic4) (tb classic4)) trees_le4 = false.
Proof. vm_compute. reflexivity. Qed.

(* ========================================================================================= *)
(* 5. exactness families for the documented schemes on the real line                          *)
(* ========================================================================================= *)
Ltac rk_unfold :=
  unfold RK4_doc, Euler_doc, taylor; cbv zeta;
  cbn [taylor_from fact Nat.mul Nat.add INR vadd smul vcar Rvs];
  lazymatch goal with |- @eq _ ?a ?b => change (@eq R a b) end.

(* quadrature: y' = a0 + a1 t + a2 t^2 + a3 t^3 is integrated exactly by one RK4 step *)
Lemma rk4_doc_exact_cubic (a0 a1 a2 a3 t h y : R) :
  RK4_doc Rvs (fun t _ => a0 + a1 * t + a2 * t ^ 2 + a3 * t ^ 3) t y h =
  y + (a0 * h + a1 * ((t + h) ^ 2 - t ^ 2) / 2 + a2 * ((t + h) ^ 3 - t ^ 3) / 3 + a3 * ((t + h) ^ 4 - t ^ 4) / 4).
Proof. rk_unfold. field. Qed.

(* ... and y' = a0 by one Euler step *)
Lemma euler_doc_exact_const (a0 t h y : R) : Euler_doc Rvs (fun _ _ => a0) t y h = y + a0 * h.
Proof. rk_unfold. ring. Qed.

(* y' = l y : the step multiplies by the degree-4 (degree-1) Taylor polynomial of exp(l h) *)
Lemma rk4_doc_linear (l t h y : R) :
  RK4_doc Rvs (fun _ y => l * y) t y h =
  (1 + l * h + (l * h) ^ 2 / 2 + (l * h) ^ 3 / 6 + (l * h) ^ 4 / 24) * y.
Proof. rk_unfold. field. Qed.

Lemma euler_doc_linear (l t h y : R) : Euler_doc Rvs (fun _ y => l * y) t y h = (1 + l * h) * y.
Proof. rk_unfold. ring. Qed.

(* y' = l y + g(t), g(t) = a0 + a1 t + a2 t^2 + a3 t^3 (time and state dependence interact): the
   derivatives of the exact solution at the step start are
     d1 = f(t,y), d2 = l d1 + Dg(t), d3 = l d2 + DDg(t), d4 = l d3 + DDDg(t)
   (Analysis.v proves that every solution has these derivatives).  One RK4 step is the Taylor
   polynomial of degree 4 of the exact solution plus an explicit multiple of h^5: local error of
   order five, vanishing for affine forcing (a2 = a3 = 0) and for pure quadrature (l = 0). *)
Definition lf_g (a0 a1 a2 a3 t : R) : R := a0 + a1 * t + a2 * t ^ 2 + a3 * t ^ 3.
Definition lf_derivs (l a0 a1 a2 a3 t y : R) : list R :=
  let d1 := l * y + lf_g a0 a1 a2 a3 t in
  let d2 := l * d1 + (a1 + 2 * a2 * t + 3 * a3 * t ^ 2) in
  let d3 := l * d2 + (2 * a2 + 6 * a3 * t) in
  let d4 := l * d3 + 6 * a3 in
  [d1; d2; d3; d4].
Definition lf_defect (l a2 a3 t h : R) : R := l * (2 * a2 * l + a3 * h * l + 6 * a3 * l * t + 4 * a3) / 96.

Lemma rk4_doc_linear_forced_cubic (l a0 a1 a2 a3 t h y : R) :
  RK4_doc Rvs (fun t y => l * y + lf_g a0 a1 a2 a3 t) t y h =
  taylor y (lf_derivs l a0 a1 a2 a3 t y) h + h ^ 5 * lf_defect l a2 a3 t h.
Proof. unfold lf_derivs, lf_defect, lf_g. rk_unfold. field. Qed.

(* the affine case of the design: exactly the Taylor polynomial *)
Lemma rk4_doc_linear_forced (l a0 a1 t h y : R) :
  RK4_doc Rvs (fun t y => l * y + a0 + a1 * t) t y h = taylor y (lf_derivs l a0 a1 0 0 t y) h.
Proof. unfold lf_derivs, lf_g. rk_unfold. field. Qed.

(* an Euler step is the Taylor polynomial of degree 1, for every right-hand side *)
Lemma euler_doc_taylor1 (f : R -> R -> R) (t h y : R) : Euler_doc Rvs f t y h = taylor y [f t y] h.
Proof. rk_unfold. field. Qed.

(* ... and differs from the degree-2 polynomial by exactly d2 h^2 / 2: first order, not second *)
Lemma euler_doc_linear_forced (l a0 a1 a2 a3 t h y : R) :
  Euler_doc Rvs (fun t y => l * y + lf_g a0 a1 a2 a3 t) t y h =
  taylor y (firstn 2 (lf_derivs l a0 a1 a2 a3 t y)) h - h ^ 2 * (nth 1 (lf_derivs l a0 a1 a2 a3 t y) 0 / 2).
Proof. unfold lf_derivs, lf_g. cbv zeta. cbn [firstn nth]. rk_unfold. field. Qed.

(* ========================================================================================= *)
(* 6. vector-valued systems: x' = L x + g0 + t g1 for a linear operator L on any vector space  *)
(* ========================================================================================= *)
Section LinearSystems.
Variable VS : vspace.
Variable L : VS -> VS.
Hypothesis L_add : forall a b, L (vadd a b) = vadd (L a) (L b).
Hypothesis L_smul : forall c a, L (smul c a) = smul c (L a).
Variables g0 g1 : VS.

Definition affine_rhs (t : R) (y : VS) : VS := vadd (L y) (vadd g0 (smul t g1)).
(* derivatives of the exact solution at the step start *)
Definition affine_derivs (t : R) (y : VS) : list VS :=
  let d1 := affine_rhs t y in let d2 := vadd (L d1) g1 in let d3 := L d2 in let d4 := L d3 in [d1; d2; d3; d4].

Ltac push_L := repeat (rewrite L_add || rewrite L_smul).

Lemma rk4_doc_affine_system t y h :
  RK4_doc VS affine_rhs t y h = vtaylor y (affine_derivs t y) h.
Proof.
  unfold RK4_doc, affine_derivs, affine_rhs, vtaylor. cbv zeta. cbn [vtaylor_from fact Nat.mul Nat.add INR].
  push_L. vs_ring.
Qed.

Lemma euler_doc_affine_system t y h :
  Euler_doc VS affine_rhs t y h = vtaylor y (firstn 1 (affine_derivs t y)) h.
Proof.
  unfold Euler_doc, affine_derivs, affine_rhs, vtaylor. cbv zeta. cbn [firstn vtaylor_from fact Nat.mul Nat.add INR].
  vs_ring.
Qed.
End LinearSystems.

(* componentwise lifting: on a product of vector spaces with a right-hand side that does not couple
   the components, a step is the pair of the steps *)
Section Product.
Variables A B : vspace.
Variable fa : R -> A -> A.
Variable fb : R -> B -> B.
Definition pair_rhs (t : R) (p : prodVS A B) : prodVS A B := (fa t (fst p), fb t (snd p)).

Lemma rk4_doc_product t (x : prodVS A B) h :
  RK4_doc (prodVS A B) pair_rhs t x h = (RK4_doc A fa t (fst x) h, RK4_doc B fb t (snd x) h).
Proof. destruct x as [a b]. reflexivity. Qed.

Lemma euler_doc_product t (x : prodVS A B) h :
  Euler_doc (prodVS A B) pair_rhs t x h = (Euler_doc A fa t (fst x) h, Euler_doc B fb t (snd x) h).
Proof. destruct x as [a b]. reflexivity. Qed.
End Product.

(* ========================================================================================= *)
(* 7. nonlinear right-hand sides: explicit defects of fifth order                              *)
(* ========================================================================================= *)
(* y' = c t y (time and state multiply; the exact solution is y0 exp(c (t^2 - t0^2) / 2)):
   derivatives of the solution by Leibniz' rule, d_{k+1} = k c d_{k-1} + c t d_k *)
Definition ty_derivs (c t y : R) : list R :=
  let d1 := c * t * y in
  let d2 := c * y + c * t * d1 in
  let d3 := 2 * c * d1 + c * t * d2 in
  let d4 := 3 * c * d2 + c * t * d3 in
  [d1; d2; d3; d4].
Definition ty_defect (c t y h : R) : R :=
  c ^ 3 * y * (c * h ^ 2 * t + 5 * c * h * t ^ 2 + 8 * c * t ^ 3 + 2 * h + 12 * t) / 96.

Lemma rk4_doc_ty (c t h y : R) :
  RK4_doc Rvs (fun t y => c * t * y) t y h = taylor y (ty_derivs c t y) h + h ^ 5 * ty_defect c t y h.
Proof. unfold ty_derivs, ty_defect. rk_unfold. field. Qed.

Lemma euler_doc_ty (c t h y : R) :
  Euler_doc Rvs (fun t y => c * t * y) t y h =
  taylor y (firstn 2 (ty_derivs c t y)) h - h ^ 2 * (nth 1 (ty_derivs c t y) 0 / 2).
Proof. unfold ty_derivs. cbv zeta. cbn [firstn nth]. rk_unfold. field. Qed.

(* y' = r y (1 - y) (autonomous, nonlinear): derivatives of the solution d_{k+1} = (d d_k / dy) d_1;
   the defect against the degree-4 Taylor polynomial is h^5 times an explicit polynomial
   (computed with a computer algebra system, verified here by [ring]) *)
Definition logistic_derivs (r y : R) : list R :=
  [r * y * (1 - y);
   r ^ 2 * (2 * y ^ 3 - 3 * y ^ 2 + y);
   r ^ 3 * (-6 * y ^ 4 + 12 * y ^ 3 - 7 * y ^ 2 + y);
   r ^ 4 * (24 * y ^ 5 - 60 * y ^ 4 + 50 * y ^ 3 - 15 * y ^ 2 + y)].
Definition logistic_defect (r y h : R) : R :=
  h ^ 10 * (r ^ 15 * ((-1) * y ^ 16 + 8 * y ^ 15 + (-28) * y ^ 14 + 56 * y ^ 13 + (-70) * y ^ 12 + 56 * y ^ 11 + (-28) * y ^ 10 + 8 * y ^ 9 + (-1) * y ^ 8) / 24576) +
  h ^ 9 * (r ^ 14 * (2 * y ^ 15 + (-15) * y ^ 14 + 49 * y ^ 13 + (-91) * y ^ 12 + 105 * y ^ 11 + (-77) * y ^ 10 + 35 * y ^ 9 + (-9) * y ^ 8 + 1 * y ^ 7) / 3072) +
  h ^ 8 * (r ^ 13 * ((-14) * y ^ 14 + 98 * y ^ 13 + (-297) * y ^ 12 + 508 * y ^ 11 + (-535) * y ^ 10 + 354 * y ^ 9 + (-143) * y ^ 8 + 32 * y ^ 7 + (-3) * y ^ 6) / 3072) +
  h ^ 7 * (r ^ 12 * (30 * y ^ 13 + (-195) * y ^ 12 + 544 * y ^ 11 + (-847) * y ^ 10 + 800 * y ^ 9 + (-465) * y ^ 8 + 160 * y ^ 7 + (-29) * y ^ 6 + 2 * y ^ 5) / 1536) +
  h ^ 6 * (r ^ 11 * ((-94) * y ^ 12 + 564 * y ^ 11 + (-1436) * y ^ 10 + 2010 * y ^ 9 + (-1671) * y ^ 8 + 828 * y ^ 7 + (-230) * y ^ 6 + 30 * y ^ 5 + (-1) * y ^ 4) / 1536) +
  h ^ 5 * (r ^ 10 * (58 * y ^ 11 + (-319) * y ^ 10 + 735 * y ^ 9 + (-915) * y ^ 8 + 660 * y ^ 7 + (-273) * y ^ 6 + 59 * y ^ 5 + (-5) * y ^ 4) / 384) +
  h ^ 4 * (r ^ 9 * ((-114) * y ^ 10 + 570 * y ^ 9 + (-1175) * y ^ 8 + 1280 * y ^ 7 + (-782) * y ^ 6 + 260 * y ^ 5 + (-41) * y ^ 4 + 2 * y ^ 3) / 384) +
  h ^ 3 * (r ^ 8 * (186 * y ^ 9 + (-837) * y ^ 8 + 1520 * y ^ 7 + (-1414) * y ^ 6 + 702 * y ^ 5 + (-173) * y ^ 4 + 16 * y ^ 3) / 384) +
  h ^ 2 * (r ^ 7 * ((-131) * y ^ 8 + 524 * y ^ 7 + (-824) * y ^ 6 + 638 * y ^ 5 + (-247) * y ^ 4 + 42 * y ^ 3 + (-2) * y ^ 2) / 192) +
  h ^ 1 * (r ^ 6 * (80 * y ^ 7 + (-280) * y ^ 6 + 370 * y ^ 5 + (-225) * y ^ 4 + 60 * y ^ 3 + (-5) * y ^ 2) / 96) +
  h ^ 0 * (r ^ 5 * ((-23) * y ^ 6 + 69 * y ^ 5 + (-74) * y ^ 4 + 33 * y ^ 3 + (-5) * y ^ 2) / 24).

Lemma rk4_doc_logistic (r t h y : R) :
  RK4_doc Rvs (fun _ y => r * y * (1 - y)) t y h =
  taylor y (logistic_derivs r y) h + h ^ 5 * logistic_defect r y h.
Proof. unfold logistic_derivs, logistic_defect. rk_unfold. field. Qed.

Lemma classic4_stage_times (t h : R) : stage_times classic4 t h = [t; t + h / 2; t + h / 2; t + h].
Proof.
  unfold stage_times. cbn [map tc classic4]. unfold Q2R; cbn [Qnum Qden].
  repeat (apply f_equal2; [field|]). reflexivity.
Qed.
