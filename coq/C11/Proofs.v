(* C11 - lemmas.  Part A: the argsort / unsort index algebra (axiom-free, any key type with a total
   order).  Part B: permutation invariance of the per-phase step-size rules and of the
   nucleation-site competition, on the real instance of the model. *)
From Coq Require Import List Bool ZArith Arith Lia Permutation Sorted Reals Lra.
Require Import Kawin.Common.Ops Kawin.Common.Vec Kawin.Common.VecLemmas Kawin.C07.Model Kawin.C11.Model.
Import ListNotations.
Open Scope nat_scope.

(* ====================================================================================== *)
(* generic list facts                                                                      *)

Lemma reorder_length {A} (d : A) v idx : length (reorder d v idx) = length idx.
Proof. unfold reorder. apply map_length. Qed.

Lemma nth_reorder {A} (d : A) v idx i :
  i < length idx -> nth i (reorder d v idx) d = nth (nth i idx 0) v d.
Proof.
  intros H. unfold reorder.
  rewrite (nth_indep _ d (nth 0 v d)) by (rewrite map_length; exact H).
  apply (map_nth (fun j => nth j v d) idx 0 i).
Qed.

Lemma reorder_indep {A} (d d' : A) v idx :
  Forall (fun i => i < length v) idx -> reorder d v idx = reorder d' v idx.
Proof.
  intros H. unfold reorder. apply map_ext_in. intros i Hi.
  rewrite Forall_forall in H. apply nth_indep. auto.
Qed.

Lemma reorder_map {A B} (g : A -> B) (d : A) (db : B) v idx :
  Forall (fun i => i < length v) idx -> reorder db (map g v) idx = map g (reorder d v idx).
Proof.
  intros H. unfold reorder. rewrite map_map. apply map_ext_in. intros i Hi.
  rewrite Forall_forall in H.
  rewrite (nth_indep _ db (g d)) by (rewrite map_length; auto). apply map_nth.
Qed.

Lemma tl_map {A B} (f : A -> B) l : tl (map f l) = map f (tl l).
Proof. destruct l; reflexivity. Qed.

Lemma map_nth_seq {A} (d : A) l : map (fun i => nth i l d) (seq 0 (length l)) = l.
Proof. induction l as [|x r IH]; simpl; auto. f_equal. rewrite <- seq_shift, map_map. exact IH. Qed.

Lemma delete_at_map {A B} (g : A -> B) k l : delete_at k (map g l) = map g (delete_at k l).
Proof. revert k; induction l as [|x r IH]; intros [|k]; simpl; auto. now rewrite IH. Qed.

Lemma delete_at_in {A} k (l : list A) z : In z (delete_at k l) -> In z l.
Proof.
  revert k; induction l as [|x r IH]; intros [|k]; simpl; auto.
  intros [H|H]; auto. right. eapply IH; eauto.
Qed.

Lemma map_fst_combine_seq {A} (l : list A) s : map fst (combine l (seq s (length l))) = l.
Proof. revert s; induction l as [|x r IH]; intros s; simpl; auto. now rewrite IH. Qed.
Lemma map_snd_combine_seq {A} (l : list A) s : map snd (combine l (seq s (length l))) = seq s (length l).
Proof. revert s; induction l as [|x r IH]; intros s; simpl; auto. now rewrite IH. Qed.

Lemma in_combine_seq {A} (l : list A) s k i :
  In (k, i) (combine l (seq s (length l))) -> s <= i /\ nth_error l (i - s) = Some k.
Proof.
  revert s; induction l as [|a r IH]; intros s; simpl; [tauto|].
  intros [H|H].
  - inversion H; subst. split; [lia|]. now rewrite Nat.sub_diag.
  - apply IH in H. destruct H as [H1 H2]. split; [lia|].
    replace (i - s) with (S (i - S s)) by lia. exact H2.
Qed.

(* ====================================================================================== *)
(* Part A - sorting                                                                        *)

Section SortFacts.
Context {K : Type}.
Variable kleb : K -> K -> bool.
Hypothesis kleb_total : forall a b, kleb a b = true \/ kleb b a = true.
Hypothesis kleb_trans : forall a b c, kleb a b = true -> kleb b c = true -> kleb a c = true.

Definition kle (a b : K) : Prop := kleb a b = true.
Definition ple (x y : K * nat) : Prop := kle (fst x) (fst y).

Lemma ins_perm x l : Permutation (ins kleb x l) (x :: l).
Proof.
  induction l as [|y r IH]; simpl; auto.
  destruct (kleb (fst x) (fst y)); auto.
  transitivity (y :: x :: r); [apply perm_skip, IH | apply perm_swap].
Qed.

Lemma isort_perm l : Permutation (isort kleb l) l.
Proof.
  induction l as [|x r IH]; simpl; auto.
  transitivity (x :: isort kleb r); [apply ins_perm | apply perm_skip, IH].
Qed.

Lemma ins_sorted x l : StronglySorted ple l -> StronglySorted ple (ins kleb x l).
Proof.
  induction l as [|y r IH]; intros Hs; simpl.
  - constructor; constructor.
  - inversion Hs as [|? ? Hr Hy]; subst.
    destruct (kleb (fst x) (fst y)) eqn:E.
    + constructor; auto. constructor; [exact E|].
      rewrite Forall_forall in *. intros z Hz. unfold ple, kle in *.
      eapply kleb_trans; [exact E | apply Hy, Hz].
    + constructor; [apply IH, Hr|].
      apply (Permutation_Forall (Permutation_sym (ins_perm x r))).
      constructor; auto.
      unfold ple, kle. destruct (kleb_total (fst x) (fst y)); congruence.
Qed.

Lemma isort_sorted l : StronglySorted ple (isort kleb l).
Proof. induction l; simpl; [constructor | apply ins_sorted; auto]. Qed.

Lemma StronglySorted_map_fst l : StronglySorted ple l -> StronglySorted kle (map fst l).
Proof.
  induction 1 as [|x l Hs IH Hf]; simpl; constructor; auto.
  rewrite Forall_forall in *. intros k Hk. apply in_map_iff in Hk.
  destruct Hk as [y [<- Hy]]. apply Hf, Hy.
Qed.

Lemma argsort_length (l : list K) : length (argsort kleb l) = length l.
Proof.
  unfold argsort. rewrite map_length.
  rewrite (Permutation_length (isort_perm _)), combine_length, seq_length. lia.
Qed.

Lemma argsort_perm (l : list K) : Permutation (argsort kleb l) (seq 0 (length l)).
Proof.
  unfold argsort.
  pose proof (Permutation_map snd (isort_perm (combine l (seq 0 (length l))))) as H.
  now rewrite map_snd_combine_seq in H.
Qed.

Lemma argsort_bound (l : list K) : Forall (fun i => i < length l) (argsort kleb l).
Proof.
  apply (Permutation_Forall (Permutation_sym (argsort_perm l))).
  apply Forall_forall. intros i Hi. apply in_seq in Hi. lia.
Qed.

(* the keys taken in argsort order are exactly the first components of the sorted pairs *)
Lemma reorder_argsort d (l : list K) :
  reorder d l (argsort kleb l) = map fst (isort kleb (combine l (seq 0 (length l)))).
Proof.
  unfold reorder, argsort. rewrite map_map. apply map_ext_in.
  intros [k i] Hin. simpl.
  apply (Permutation_in _ (isort_perm _)) in Hin.
  apply in_combine_seq in Hin. destruct Hin as [_ H]. rewrite Nat.sub_0_r in H.
  now apply nth_error_nth.
Qed.

Lemma reorder_argsort_perm d (l : list K) : Permutation (reorder d l (argsort kleb l)) l.
Proof.
  rewrite reorder_argsort.
  pose proof (Permutation_map fst (isort_perm (combine l (seq 0 (length l))))) as H.
  now rewrite map_fst_combine_seq in H.
Qed.

Lemma reorder_argsort_sorted d (l : list K) : StronglySorted kle (reorder d l (argsort kleb l)).
Proof. rewrite reorder_argsort. apply StronglySorted_map_fst, isort_sorted. Qed.

(* a sorted arrangement of a list is unique when the order is antisymmetric *)
Hypothesis kleb_antisym : forall a b, kleb a b = true -> kleb b a = true -> a = b.

Lemma sorted_unique (l1 l2 : list K) :
  StronglySorted kle l1 -> StronglySorted kle l2 -> Permutation l1 l2 -> l1 = l2.
Proof.
  revert l2; induction l1 as [|a r1 IH]; intros l2 H1 H2 Hp.
  - apply Permutation_nil in Hp. now subst.
  - destruct l2 as [|b r2]; [apply Permutation_sym, Permutation_nil in Hp; discriminate|].
    inversion H1 as [|? ? Hr1 Ha]; inversion H2 as [|? ? Hr2 Hb]; subst.
    assert (a = b) as ->.
    { assert (Ia : In a (b :: r2)) by (apply (Permutation_in _ Hp); left; auto).
      assert (Ib : In b (a :: r1)) by (apply (Permutation_in _ (Permutation_sym Hp)); left; auto).
      rewrite Forall_forall in Ha, Hb.
      destruct Ia as [->|Ia]; auto. destruct Ib as [->|Ib]; auto.
      apply kleb_antisym; [apply Ha, Ib | apply Hb, Ia]. }
    f_equal. apply IH; auto. eapply Permutation_cons_inv; eauto.
Qed.

Lemma kleb_refl a : kleb a a = true.
Proof. destruct (kleb_total a a); auto. Qed.

Lemma keqb_eq a b : keqb kleb a b = true <-> a = b.
Proof.
  unfold keqb. rewrite andb_true_iff. split.
  - intros [H1 H2]. apply kleb_antisym; auto.
  - intros ->. split; apply kleb_refl.
Qed.

Lemma sorted_perm (l : list K) : Permutation (sorted kleb l) l.
Proof. destruct l as [|d r]; [constructor|]. apply reorder_argsort_perm. Qed.
Lemma sorted_sorted (l : list K) : StronglySorted kle (sorted kleb l).
Proof. destruct l as [|d r]; [constructor|]. apply reorder_argsort_sorted. Qed.
Lemma sorted_length (l : list K) : length (sorted kleb l) = length l.
Proof. apply Permutation_length, sorted_perm. Qed.

(* pycalphad sees the same alphabetical list whatever order the user wrote *)
Lemma sorted_of_perm (l1 l2 : list K) : Permutation l1 l2 -> sorted kleb l1 = sorted kleb l2.
Proof.
  intros Hp. apply sorted_unique; try apply sorted_sorted.
  transitivity l1; [apply sorted_perm|]. transitivity l2; [exact Hp | apply Permutation_sym, sorted_perm].
Qed.

(* ---- index_of / delete_at ------------------------------------------------------------- *)
Lemma index_of_nth (l : list K) k d : NoDup l -> k < length l -> index_of kleb (nth k l d) l = k.
Proof.
  revert k; induction l as [|y r IH]; intros k Hn Hk; simpl in *; [lia|].
  inversion Hn as [|? ? Hy Hr]; subst.
  destruct k as [|k].
  - replace (keqb kleb y y) with true; auto. symmetry. now apply keqb_eq.
  - destruct (keqb kleb (nth k r d) y) eqn:E.
    + apply keqb_eq in E. exfalso. apply Hy. rewrite <- E. apply nth_In. lia.
    + f_equal. apply IH; auto. lia.
Qed.

Lemma index_of_delete_perm (x : K) l : In x l -> Permutation (x :: delete_at (index_of kleb x l) l) l.
Proof.
  induction l as [|y r IH]; intros Hin; [destruct Hin|]. simpl.
  destruct (keqb kleb x y) eqn:E.
  - apply keqb_eq in E. subst. simpl. apply Permutation_refl.
  - destruct Hin as [->|Hin].
    + assert (keqb kleb x x = true) by now apply keqb_eq. congruence.
    + simpl. transitivity (y :: x :: delete_at (index_of kleb x r) r); [apply perm_swap|].
      apply perm_skip, IH, Hin.
Qed.

Lemma delete_at_sorted k (l : list K) : StronglySorted kle l -> StronglySorted kle (delete_at k l).
Proof.
  revert k; induction l as [|x r IH]; intros k Hs; [destruct k; simpl; constructor|].
  inversion Hs as [|? ? Hr Hx]; subst. destruct k as [|k]; simpl; auto.
  constructor; auto. rewrite Forall_forall in *. intros z Hz. apply Hx. eapply delete_at_in; eauto.
Qed.

(* np.delete(alphabetical vector, position of the reference element) is the alphabetical list of
   the solutes *)
Lemma delete_ref_sorted (ref : K) (sol : list K) : NoDup (ref :: sol) ->
  delete_at (index_of kleb ref (sorted kleb (ref :: sol))) (sorted kleb (ref :: sol)) = sorted kleb sol.
Proof.
  intros Hn. set (sl := sorted kleb (ref :: sol)).
  assert (Hp : Permutation sl (ref :: sol)) by apply sorted_perm.
  apply sorted_unique.
  - apply delete_at_sorted, sorted_sorted.
  - apply sorted_sorted.
  - transitivity sol; [|apply Permutation_sym, sorted_perm].
    apply (Permutation_cons_inv (a := ref)).
    transitivity sl; [|exact Hp].
    apply index_of_delete_perm. apply (Permutation_in _ (Permutation_sym Hp)). left; auto.
Qed.

End SortFacts.

(* ---- the order on positions -------------------------------------------------------------- *)
Lemma natleb_total a b : Nat.leb a b = true \/ Nat.leb b a = true.
Proof. destruct (Nat.leb a b) eqn:E; auto. right. apply Nat.leb_le. apply Nat.leb_gt in E. lia. Qed.
Lemma natleb_trans a b c : Nat.leb a b = true -> Nat.leb b c = true -> Nat.leb a c = true.
Proof. rewrite !Nat.leb_le. lia. Qed.
Lemma natleb_antisym a b : Nat.leb a b = true -> Nat.leb b a = true -> a = b.
Proof. rewrite !Nat.leb_le. lia. Qed.

Lemma seq_sorted s n : StronglySorted (kle Nat.leb) (seq s n).
Proof.
  revert s; induction n as [|n IH]; intros s; simpl; constructor; auto.
  apply Forall_forall. intros x Hx. apply in_seq in Hx. unfold kle. apply Nat.leb_le. lia.
Qed.

(* argsort of a permutation of 0..n-1 is its inverse permutation *)
Lemma argsort_inverse (s : list nat) i :
  Permutation s (seq 0 (length s)) -> i < length s ->
  nth (nth i (argsort Nat.leb s) 0) s 0 = i.
Proof.
  intros Hp Hi.
  assert (E : reorder 0 s (argsort Nat.leb s) = seq 0 (length s)).
  { apply (sorted_unique Nat.leb natleb_antisym).
    - apply reorder_argsort_sorted; [exact natleb_total | exact natleb_trans].
    - apply seq_sorted.
    - transitivity s; [apply reorder_argsort_perm | exact Hp]. }
  rewrite <- nth_reorder by (rewrite argsort_length; exact Hi).
  rewrite E. rewrite seq_nth by exact Hi. reflexivity.
Qed.

Lemma reorder_inverse {A} (d : A) (l : list A) (s : list nat) :
  Permutation s (seq 0 (length s)) -> length l = length s ->
  reorder d (reorder d l s) (argsort Nat.leb s) = l.
Proof.
  intros Hp Hl.
  apply (nth_ext _ _ d d).
  - rewrite reorder_length, argsort_length. auto.
  - intros i Hi. rewrite reorder_length, argsort_length in Hi.
    rewrite nth_reorder by (rewrite argsort_length; exact Hi).
    assert (Hb : nth i (argsort Nat.leb s) 0 < length s).
    { pose proof (argsort_bound Nat.leb s) as Hf. rewrite Forall_forall in Hf.
      apply Hf, nth_In. rewrite argsort_length. exact Hi. }
    rewrite nth_reorder by exact Hb.
    rewrite argsort_inverse; auto.
Qed.

(* ====================================================================================== *)
(* Part A - the wrappers                                                                   *)

Section WrapFacts.
Context {K : Type}.
Variable kleb : K -> K -> bool.
Hypothesis kleb_total : forall a b, kleb a b = true \/ kleb b a = true.
Hypothesis kleb_trans : forall a b c, kleb a b = true -> kleb b c = true -> kleb a c = true.

Lemma sortIdx_perm (els : list K) : Permutation (sortIdx kleb els) (seq 0 (length (sortIdx kleb els))).
Proof. unfold sortIdx. rewrite argsort_length. apply argsort_perm. Qed.

Lemma unsortIdx_length (els : list K) : length (unsortIdx kleb els) = length els.
Proof. unfold unsortIdx, sortIdx. now rewrite !argsort_length. Qed.

Lemma unsortIdx_bound (els : list K) : Forall (fun i => i < length els) (unsortIdx kleb els).
Proof.
  unfold unsortIdx. pose proof (argsort_bound Nat.leb (sortIdx kleb els)) as H.
  unfold sortIdx in *. now rewrite argsort_length in H.
Qed.

(* [core] unsort_sort: taking the alphabetical arrangement back through unsortIndices restores
   the user's order, for every list (no distinctness needed) *)
Lemma unsort_sort (d : K) (els : list K) :
  reorder d (reorder d els (sortIdx kleb els)) (unsortIdx kleb els) = els.
Proof.
  unfold unsortIdx. apply reorder_inverse; [apply sortIdx_perm|].
  unfold sortIdx. now rewrite argsort_length.
Qed.

(* the same for any payload attached to the elements *)
Lemma unsort_map {X} (g : K -> X) (dx : X) (els : list K) :
  reorder dx (map g (sorted kleb els)) (unsortIdx kleb els) = map g els.
Proof.
  destruct els as [|d r]; [reflexivity|]. unfold sorted.
  set (els := d :: r).
  rewrite (reorder_map g d dx).
  - f_equal. apply unsort_sort.
  - rewrite reorder_length. unfold sortIdx. rewrite argsort_length. apply unsortIdx_bound.
Qed.

Context {A : Type}.
Variable d : A.

Lemma wrap_full_map (B : K -> A) (els : list K) :
  wrap_full kleb d els (map B (sorted kleb els)) = map B els.
Proof. apply unsort_map. Qed.

Lemma wrap_tail_same (els : list K) (v : list A) : wrap_tail_idx kleb d els v = wrap_tail_val kleb d els v.
Proof. unfold wrap_tail_idx, wrap_tail_val, reorder. now rewrite tl_map. Qed.

Lemma wrap_tail_map (B : K -> A) (els : list K) :
  wrap_tail_idx kleb d els (map B (sorted kleb els)) = map B (tl els).
Proof.
  rewrite wrap_tail_same. unfold wrap_tail_val.
  change (tl (wrap_full kleb d els (map B (sorted kleb els))) = map B (tl els)).
  rewrite wrap_full_map. now rewrite tl_map.
Qed.

Lemma sort_input_map (X : K -> A) (sol : list K) :
  sort_input kleb d sol (map X sol) = map X (sorted kleb sol).
Proof.
  destruct sol as [|d0 r]; [reflexivity|]. unfold sort_input, sorted.
  apply (reorder_map X d0 d). unfold sortIdx. apply argsort_bound.
Qed.

Lemma wrap_matrix_map (B2 : K -> K -> A) (sol : list K) :
  wrap_matrix kleb d sol (map (fun a => map (B2 a) (sorted kleb sol)) (sorted kleb sol))
  = map (fun a => map (B2 a) sol) sol.
Proof.
  unfold wrap_matrix, reorder2.
  rewrite (unsort_map (fun a => map (B2 a) (sorted kleb sol)) [] sol).
  rewrite map_map. apply map_ext. intros a. apply unsort_map.
Qed.

Hypothesis kleb_antisym : forall a b, kleb a b = true -> kleb b a = true -> a = b.

Lemma wrap_solutes_map (B : K -> A) (ref : K) (sol : list K) : NoDup (ref :: sol) ->
  wrap_solutes kleb d (ref :: sol) (map B (sorted kleb (ref :: sol))) = map B sol.
Proof.
  intros Hn. unfold wrap_solutes.
  rewrite delete_at_map.
  rewrite (delete_ref_sorted kleb kleb_total kleb_trans kleb_antisym ref sol Hn).
  apply unsort_map.
Qed.

(* every vector over the alphabetical list is "a value per element name" *)
Lemma vec_as_map (sl : list K) (v : list A) : NoDup sl -> length v = length sl ->
  v = map (fun e => nth (index_of kleb e sl) v d) sl.
Proof.
  intros Hn Hl. destruct sl as [|k0 r].
  - destruct v; [reflexivity | discriminate].
  - set (sl := k0 :: r) in *.
    apply (nth_ext _ _ d (nth (index_of kleb k0 sl) v d)).
    + now rewrite map_length.
    + intros i Hi.
      rewrite (map_nth (fun e => nth (index_of kleb e sl) v d) sl k0 i).
      rewrite (index_of_nth kleb kleb_total kleb_antisym sl i k0 Hn) by lia. reflexivity.
Qed.

(* [core] wrapper_equivariant, position form: for ANY backend vector v in alphabetical order and
   two user orders of the same distinct elements, the entry the wrapper attaches to an element is
   the same in both orders *)
Lemma wrapper_equivariant (l1 l2 : list K) (v : list A) i j dk :
  NoDup l1 -> Permutation l1 l2 -> length v = length l1 ->
  i < length l1 -> j < length l2 -> nth i l1 dk = nth j l2 dk ->
  nth i (wrap_full kleb d l1 v) d = nth j (wrap_full kleb d l2 v) d.
Proof.
  intros Hn Hp Hl Hi Hj Hij.
  set (sl := sorted kleb l1).
  assert (Hsl : NoDup sl) by (eapply Permutation_NoDup; [apply Permutation_sym, sorted_perm | exact Hn]; auto).
  assert (Hlen : length v = length sl) by (unfold sl; rewrite sorted_length; auto).
  pose proof (vec_as_map sl v Hsl Hlen) as Hv.
  set (B := fun e => nth (index_of kleb e sl) v d) in Hv.
  rewrite Hv at 1. unfold sl at 1. rewrite wrap_full_map.
  rewrite Hv. unfold sl.
  rewrite (sorted_of_perm kleb kleb_total kleb_trans kleb_antisym l1 l2 Hp).
  rewrite wrap_full_map.
  rewrite (nth_indep _ d (B dk)) by (rewrite map_length; auto).
  rewrite (nth_indep (map B l2) d (B dk)) by (rewrite map_length; auto).
  rewrite !map_nth. now rewrite Hij.
Qed.

(* the sorting permutation of distinct keys is unique: whatever (unstable) algorithm numpy uses,
   a correct argsort result equals the model's *)
Lemma argsort_unique (l : list K) (idx : list nat) dk :
  NoDup l -> Permutation idx (seq 0 (length l)) -> StronglySorted (kle kleb) (reorder dk l idx) ->
  idx = argsort kleb l.
Proof.
  intros Hn Hp Hs.
  assert (Hlen : length idx = length l) by (rewrite (Permutation_length Hp); apply seq_length).
  assert (Hb : Forall (fun i => i < length l) idx).
  { apply (Permutation_Forall (Permutation_sym Hp)). apply Forall_forall. intros i Hi. apply in_seq in Hi. lia. }
  assert (E : reorder dk l idx = reorder dk l (argsort kleb l)).
  { apply (sorted_unique kleb kleb_antisym); auto.
    - apply reorder_argsort_sorted; auto.
    - transitivity l; [|apply Permutation_sym, reorder_argsort_perm].
      unfold reorder.
      transitivity (map (fun i => nth i l dk) (seq 0 (length l))); [apply Permutation_map, Hp|].
      rewrite map_nth_seq. reflexivity. }
  apply (nth_ext _ _ 0 0); [now rewrite argsort_length|].
  intros i Hi.
  assert (Hi' : i < length (argsort kleb l)) by (rewrite argsort_length; lia).
  pose proof (f_equal (fun x => nth i x dk) E) as En. cbv beta in En.
  rewrite !nth_reorder in En by auto.
  rewrite Forall_forall in Hb.
  pose proof (argsort_bound kleb l) as Hb2. rewrite Forall_forall in Hb2.
  apply (proj1 (NoDup_nth l dk) Hn); auto.
  - apply Hb, nth_In, Hi.
  - apply Hb2, nth_In, Hi'.
Qed.

End WrapFacts.

(* ---- the concrete key order: Python / numpy string comparison by code points ------------ *)
Lemma lexleb_total a b : lexleb a b = true \/ lexleb b a = true.
Proof.
  revert b; induction a as [|x a IH]; intros [|y b]; simpl; auto.
  destruct (Z.ltb_spec x y), (Z.ltb_spec y x); auto; try lia.
Qed.
Lemma lexleb_antisym a b : lexleb a b = true -> lexleb b a = true -> a = b.
Proof.
  revert b; induction a as [|x a IH]; intros [|y b]; simpl; auto; try discriminate.
  destruct (Z.ltb_spec x y), (Z.ltb_spec y x); try discriminate; try lia.
  intros H1 H2. assert (x = y) by lia. subst. f_equal. auto.
Qed.
Lemma lexleb_trans a b c : lexleb a b = true -> lexleb b c = true -> lexleb a c = true.
Proof.
  revert b c; induction a as [|x a IH]; intros [|y b] [|z c]; simpl; auto; try discriminate.
  destruct (Z.ltb_spec x y), (Z.ltb_spec y x), (Z.ltb_spec y z), (Z.ltb_spec z y),
           (Z.ltb_spec x z), (Z.ltb_spec z x); try discriminate; try lia; auto.
  apply IH.
Qed.

(* ====================================================================================== *)
(* Part B - per-phase loops, real instance                                                 *)

Tactic Notation "lia" := (cbn [T Rops] in *; Lia.lia).
Tactic Notation "lra" := (cbn [T Rops] in *; Lra.lra).
Open Scope R_scope.

Lemma minT_cases (a b : R) : (minT Rops a b = a /\ a <= b) \/ (minT Rops a b = b /\ b <= a).
Proof. unfold minT; Rnorm. unfold Rltb. destruct (Rlt_dec b a); [right|left]; split; auto; lra. Qed.

Lemma amin_in (x : R) l : In (amin Rops x l) (x :: l).
Proof.
  revert x; induction l as [|y r IH]; intros x; simpl; auto.
  destruct (IH (minT Rops x y)) as [H|H].
  - rewrite <- H. destruct (minT_cases x y) as [[E _]|[E _]]; rewrite E; [left|right; left]; reflexivity.
  - right; right; exact H.
Qed.

Lemma minT_le_l (a b : R) : minT Rops a b <= a.
Proof. destruct (minT_cases a b) as [[E H]|[E H]]; rewrite E; lra. Qed.
Lemma minT_le_r (a b : R) : minT Rops a b <= b.
Proof. destruct (minT_cases a b) as [[E H]|[E H]]; rewrite E; lra. Qed.

Lemma amin_le_head (x : R) l : amin Rops x l <= x.
Proof.
  revert x; induction l as [|z r IH]; intros x; simpl; [lra|].
  eapply Rle_trans; [apply IH | apply minT_le_l].
Qed.

Lemma amin_le (x : R) l y : In y (x :: l) -> amin Rops x l <= y.
Proof.
  revert x; induction l as [|z r IH]; intros x Hin; simpl.
  - destruct Hin as [->|[]]. lra.
  - destruct Hin as [->|[->|Hin]].
    + eapply Rle_trans; [apply amin_le_head | apply minT_le_l].
    + eapply Rle_trans; [apply amin_le_head | apply minT_le_r].
    + apply IH. right. exact Hin.
Qed.

Lemma amin_perm (x y : R) l l' : Permutation (x :: l) (y :: l') -> amin Rops x l = amin Rops y l'.
Proof.
  intros Hp. apply Rle_antisym.
  - apply amin_le. apply (Permutation_in _ (Permutation_sym Hp)), amin_in.
  - apply amin_le. apply (Permutation_in _ Hp), amin_in.
Qed.

Lemma amin_list_perm (l l' : list R) : Permutation l l' -> amin_list Rops l = amin_list Rops l'.
Proof.
  intros Hp. destruct l as [|x r], l' as [|y r']; simpl; auto.
  - apply Permutation_nil in Hp. discriminate.
  - apply Permutation_sym, Permutation_nil in Hp. discriminate.
  - now apply amin_perm.
Qed.

Lemma amin_list_in (l : list R) : l <> [] -> In (amin_list Rops l) l.
Proof. destruct l; [congruence|]. intros _. apply amin_in. Qed.
Lemma amin_list_le (l : list R) y : In y l -> amin_list Rops l <= y.
Proof. destruct l; [intros []|]. apply amin_le. Qed.

Lemma forallb_perm {A} (f : A -> bool) l l' : Permutation l l' -> forallb f l = forallb f l'.
Proof.
  induction 1; simpl; auto.
  - now rewrite IHPermutation.
  - destruct (f x), (f y); auto.
  - congruence.
Qed.

Lemma filter_perm {A} (f : A -> bool) l l' : Permutation l l' -> Permutation (filter f l) (filter f l').
Proof.
  induction 1; simpl; auto.
  - destruct (f x); auto.
  - destruct (f x), (f y); auto. apply perm_swap.
  - etransitivity; eauto.
Qed.

Lemma sumT_perm (l l' : list R) : Permutation l l' -> sumT Rops l = sumT Rops l'.
Proof.
  induction 1; simpl; Rnorm; auto.
  - now rewrite IHPermutation.
  - lra.
  - congruence.
Qed.

Section PhaseFacts.
Notation phaseR := (phase Rops).
Variable c : cons Rops.

Lemma dtPSD_perm npos teq (ps ps' : list phaseR) dtMax :
  Permutation ps ps' -> dtPSD Rops c npos teq ps dtMax = dtPSD Rops c npos teq ps' dtMax.
Proof.
  intros Hp. unfold dtPSD. destruct (checkPSD Rops c); auto. destruct (npos && teq); auto.
  apply amin_perm. apply perm_skip. now apply Permutation_map.
Qed.

Lemma dtNucleation_perm npos (ps ps' : list phaseR) dtPrev dtMax :
  Permutation ps ps' -> dtNucleation Rops c npos ps dtPrev dtMax = dtNucleation Rops c npos ps' dtPrev dtMax.
Proof.
  intros Hp. unfold dtNucleation. destruct (checkNuc Rops c); auto.
  apply amin_list_perm. now apply Permutation_map.
Qed.

Lemma dtRcrit_perm npos (ps ps' : list phaseR) dtPrev dtMax :
  Permutation ps ps' -> dtRcrit Rops c npos ps dtPrev dtMax = dtRcrit Rops c npos ps' dtPrev dtMax.
Proof.
  intros Hp. unfold dtRcrit. destruct (checkRcrit Rops c && npos); auto.
  rewrite (forallb_perm _ _ _ Hp). destruct (forallb (rcIdle Rops) ps');
    apply amin_list_perm; now apply Permutation_map.
Qed.

Lemma dtVolume_perm (ps ps' : list phaseR) vmAlpha dtMax :
  Permutation ps ps' -> dtVolume Rops c ps vmAlpha dtMax = dtVolume Rops c ps' vmAlpha dtMax.
Proof.
  intros Hp. unfold dtVolume. destruct (checkVol Rops c); auto.
  apply amin_list_perm. now apply Permutation_map.
Qed.

Lemma getDt_perm npos Tcur Tprev (ps ps' : list phaseR) vmAlpha dtPrev dtMax :
  Permutation ps ps' ->
  getDt Rops c npos Tcur Tprev ps vmAlpha dtPrev dtMax = getDt Rops c npos Tcur Tprev ps' vmAlpha dtPrev dtMax.
Proof.
  intros Hp. unfold getDt.
  rewrite (dtPSD_perm _ _ _ _ _ Hp), (dtNucleation_perm _ _ _ _ _ Hp),
          (dtRcrit_perm _ _ _ _ _ Hp), (dtVolume_perm _ _ _ _ Hp). reflexivity.
Qed.

(* the repaired volume rule is a bound for EVERY listed phase (what order-independence protects) *)
Lemma dtVolume_bounds_each (ps : list phaseR) vmAlpha dtMax p :
  checkVol Rops c = true -> In p ps -> dVof Rops vmAlpha p <> 0 ->
  dtVolume Rops c ps vmAlpha dtMax <= maxVolChange Rops c / (2 * Rabs (dVof Rops vmAlpha p)).
Proof.
  intros Hc Hin Hnz. unfold dtVolume. rewrite Hc.
  eapply Rle_trans; [apply amin_list_le; apply in_map; exact Hin|].
  unfold dtOfdV. Rnorm. replace (Reqb (dVof Rops vmAlpha p) 0) with false
    by (symmetry; now apply Reqb_false).
  apply Req_le. unfold absT; Rnorm. unfold Rltb.
  destruct (Rlt_dec (dVof Rops vmAlpha p) 0).
  - rewrite Rabs_left by lra. f_equal. lra.
  - rewrite Rabs_right by lra. reflexivity.
Qed.

(* every rule, and getDt itself, never exceeds the remaining time *)
Lemma getDt_rules_le_dtMax npos Tcur Tprev (ps : list phaseR) vmAlpha dtPrev dtMax :
  amin Rops dtMax
     [ dtPSD Rops c npos (eqb Rops Tcur Tprev) ps dtMax; dtNucleation Rops c npos ps dtPrev dtMax;
       dtTemperature Rops c npos Tcur Tprev dtPrev dtMax; dtRcrit Rops c npos ps dtPrev dtMax;
       dtVolume Rops c ps vmAlpha dtMax ] <= dtMax.
Proof. apply amin_le. left; auto. Qed.

End PhaseFacts.

(* ---- nucleation sites ------------------------------------------------------------------------ *)
Section SiteFacts.
Notation sphaseR := (sphase Rops).

Lemma nth_phaseIndex_find (ps : list sphaseR) k :
  nth_error ps (phaseIndex (map (pname Rops) ps) k) = find (fun q => Nat.eqb (pname Rops q) k) ps.
Proof. induction ps as [|q r IH]; simpl; auto. destruct (Nat.eqb (pname Rops q) k); auto. Qed.

Lemma find_perm (ps ps' : list sphaseR) k :
  NoDup (map (pname Rops) ps) -> Permutation ps ps' ->
  find (fun q => Nat.eqb (pname Rops q) k) ps = find (fun q => Nat.eqb (pname Rops q) k) ps'.
Proof.
  intros Hn Hp. induction Hp as [|x l l' Hp IH|x y l|l l' l'' Hp1 IH1 Hp2 IH2]; simpl in *; auto.
  - inversion Hn; subst. destruct (Nat.eqb (pname Rops x) k); auto.
  - destruct (Nat.eqb (pname Rops x) k) eqn:Ex, (Nat.eqb (pname Rops y) k) eqn:Ey; auto.
    apply Nat.eqb_eq in Ex, Ey. inversion Hn as [|? ? Hy _]; subst. exfalso. apply Hy. left. congruence.
  - rewrite IH1 by auto. apply IH2.
    eapply Permutation_NoDup; [apply Permutation_map, Hp1 | exact Hn].
Qed.

Lemma sumWhere_perm f g (ps ps' : list sphaseR) :
  Permutation ps ps' -> sumWhere Rops f g ps = sumWhere Rops f g ps'.
Proof. intros Hp. unfold sumWhere. apply sumT_perm, Permutation_map, filter_perm, Hp. Qed.

Lemma nucSites_perm (ps ps' : list sphaseR) M p :
  NoDup (map (pname Rops) ps) -> Permutation ps ps' ->
  nucSites Rops ps M p = nucSites Rops ps' M p.
Proof.
  intros Hn Hp. unfold nucSites.
  assert (E : map (fun k => match nth_error ps k with
                            | Some q => mul Rops (mul Rops (fourPi Rops M) (m2 Rops q)) (parCoef Rops q)
                            | None => zero Rops end) (parentIdx Rops ps p)
            = map (fun k => match nth_error ps' k with
                            | Some q => mul Rops (mul Rops (fourPi Rops M) (m2 Rops q)) (parCoef Rops q)
                            | None => zero Rops end) (parentIdx Rops ps' p)).
  { unfold parentIdx. rewrite !map_map. apply map_ext. intros k.
    rewrite !nth_phaseIndex_find. now rewrite (find_perm ps ps' k Hn Hp). }
  rewrite E.
  rewrite !(sumWhere_perm _ _ ps ps' Hp). reflexivity.
Qed.

End SiteFacts.

(* ====================================================================================== *)
(* Part A instantiated at the key order the code uses (strings compared by code point)      *)
Close Scope R_scope.
Open Scope nat_scope.
Definition str := list Z.
Ltac ord := first [exact lexleb_total | exact lexleb_trans | exact lexleb_antisym].

Section Strings.
Context {A : Type}.
Variable d : A.

Lemma str_unsort_sort (dk : str) (els : list str) :
  reorder dk (reorder dk els (sortIdx lexleb els)) (unsortIdx lexleb els) = els.
Proof. apply unsort_sort; ord. Qed.

Lemma str_argsort_perm (l : list str) : Permutation (argsort lexleb l) (seq 0 (length l)).
Proof. apply argsort_perm. Qed.

Lemma str_sorted_spec (l : list str) :
  StronglySorted (kle lexleb) (sorted lexleb l) /\ Permutation (sorted lexleb l) l.
Proof. split; [apply sorted_sorted; ord | apply sorted_perm]. Qed.

Lemma str_argsort_unique (l : list str) (idx : list nat) dk :
  NoDup l -> Permutation idx (seq 0 (length l)) -> StronglySorted (kle lexleb) (reorder dk l idx) ->
  idx = argsort lexleb l.
Proof. apply argsort_unique; ord. Qed.

Lemma str_sorted_of_perm (l1 l2 : list str) : Permutation l1 l2 -> sorted lexleb l1 = sorted lexleb l2.
Proof. apply sorted_of_perm; ord. Qed.

Lemma str_wrap_full (B : str -> A) (els : list str) :
  wrap_full lexleb d els (map B (sorted lexleb els)) = map B els.
Proof. apply wrap_full_map; ord. Qed.

Lemma str_wrap_tail (B : str -> A) (els : list str) :
  wrap_tail_idx lexleb d els (map B (sorted lexleb els)) = map B (tl els) /\
  wrap_tail_val lexleb d els (map B (sorted lexleb els)) = map B (tl els).
Proof.
  split; [|rewrite <- wrap_tail_same]; apply wrap_tail_map; ord.
Qed.

Lemma str_wrap_solutes (B : str -> A) (ref : str) (sol : list str) : NoDup (ref :: sol) ->
  wrap_solutes lexleb d (ref :: sol) (map B (sorted lexleb (ref :: sol))) = map B sol.
Proof. apply wrap_solutes_map; ord. Qed.

Lemma str_wrap_matrix (B2 : str -> str -> A) (sol : list str) :
  wrap_matrix lexleb d sol (map (fun a => map (B2 a) (sorted lexleb sol)) (sorted lexleb sol))
  = map (fun a => map (B2 a) sol) sol.
Proof. apply wrap_matrix_map; ord. Qed.

Lemma str_sort_input (X : str -> A) (sol : list str) :
  sort_input lexleb d sol (map X sol) = map X (sorted lexleb sol).
Proof. apply sort_input_map. Qed.

Lemma str_wrapper_equivariant (l1 l2 : list str) (v : list A) i j :
  NoDup l1 -> Permutation l1 l2 -> length v = length l1 ->
  i < length l1 -> j < length l2 -> nth i l1 [] = nth j l2 [] ->
  nth i (wrap_full lexleb d l1 v) d = nth j (wrap_full lexleb d l2 v) d.
Proof. apply wrapper_equivariant; ord. Qed.

End Strings.

(* ====================================================================================== *)
(* Part C [ext] - run level: phases that interact only through order-independent quantities  *)
(* (step size, nucleation sites, matrix composition are sums / minima over the phases) give, *)
(* for a permuted listing, the permuted per-phase histories and the same shared history      *)

Lemma reorder_perm {A} (d : A) (l : list A) idx :
  Permutation idx (seq 0 (length l)) -> Permutation (reorder d l idx) l.
Proof.
  intros Hp. unfold reorder.
  transitivity (map (fun i => nth i l d) (seq 0 (length l))); [apply Permutation_map, Hp|].
  rewrite map_nth_seq. reflexivity.
Qed.

Section RunEquivariance.
Variables (St G : Type).
Variable shared : list St -> G.         (* what every phase sees of the others: dt, sites, composition *)
Variable upd : G -> St -> St.            (* the update of one phase given the shared quantities *)
Hypothesis shared_perm : forall l l', Permutation l l' -> shared l = shared l'.

Definition kwn_step (l : list St) : list St := map (upd (shared l)) l.
Definition kwn_run (n : nat) (l : list St) : list St := Nat.iter n kwn_step l.

Lemma kwn_step_length l : length (kwn_step l) = length l.
Proof. apply map_length. Qed.
Lemma kwn_run_length n l : length (kwn_run n l) = length l.
Proof. induction n; simpl; auto. unfold kwn_run in *. simpl. now rewrite kwn_step_length. Qed.

Lemma kwn_step_reorder d l idx : Permutation idx (seq 0 (length l)) ->
  kwn_step (reorder d l idx) = reorder d (kwn_step l) idx /\ shared (reorder d l idx) = shared l.
Proof.
  intros Hp.
  assert (Hs : shared (reorder d l idx) = shared l) by (apply shared_perm, reorder_perm, Hp).
  split; auto. unfold kwn_step. rewrite Hs. symmetry.
  apply (reorder_map (upd (shared l)) d d).
  apply (Permutation_Forall (Permutation_sym Hp)). apply Forall_forall. intros i Hi. apply in_seq in Hi. lia.
Qed.

Lemma kwn_run_reorder n d l idx : Permutation idx (seq 0 (length l)) ->
  kwn_run n (reorder d l idx) = reorder d (kwn_run n l) idx /\
  shared (kwn_run n (reorder d l idx)) = shared (kwn_run n l).
Proof.
  intros Hp. induction n as [|n [IH1 IH2]].
  - simpl. split; auto. apply shared_perm, reorder_perm, Hp.
  - assert (Hp' : Permutation idx (seq 0 (length (kwn_run n l)))) by (now rewrite kwn_run_length).
    destruct (kwn_step_reorder d (kwn_run n l) idx Hp') as [E1 E2].
    assert (E : kwn_run (S n) (reorder d l idx) = reorder d (kwn_run (S n) l) idx).
    { unfold kwn_run in *. simpl. rewrite IH1. exact E1. }
    split; auto. rewrite E. apply shared_perm, reorder_perm. now rewrite kwn_run_length.
Qed.
End RunEquivariance.

(* the hypothesis is met by the step size of the model: with dt = getDt as the shared quantity,
   every per-phase update rule gives equivariant runs *)
Lemma run_with_getDt_equivariant (c : cons Rops) npos Tcur Tprev vmAlpha dtPrev dtMax
      (upd : R -> phase Rops -> phase Rops) n d (ps : list (phase Rops)) idx :
  Permutation idx (seq 0 (length ps)) ->
  let dt := fun l => getDt Rops c npos Tcur Tprev l vmAlpha dtPrev dtMax in
  kwn_run _ _ dt upd n (reorder d ps idx) = reorder d (kwn_run _ _ dt upd n ps) idx /\
  dt (kwn_run _ _ dt upd n (reorder d ps idx)) = dt (kwn_run _ _ dt upd n ps).
Proof.
  intros Hp dt. apply kwn_run_reorder; auto.
  intros l l' H. apply getDt_perm, H.
Qed.

(* ====================================================================================== *)
(* Part D - diffusion profiles and per-phase inputs of the growth law                      *)
Section ProfileFacts.
Context {K Step Row : Type}.
Variable keq : K -> K -> bool.
Variable apply : Step -> Row -> Row.

Lemma upd_row_length i f (x : list Row) : length (upd_row i f x) = length x.
Proof. revert i; induction x as [|r x IH]; intros [|i]; simpl; auto. Qed.

Lemma nth_upd_row i f (x : list Row) j dr :
  nth j (upd_row i f x) dr = if Nat.eqb j i && Nat.ltb i (length x) then f (nth i x dr) else nth j x dr.
Proof.
  revert i j; induction x as [|r x IH]; intros i j; simpl.
  - destruct j, i; simpl; try reflexivity; rewrite ?andb_false_r; reflexivity.
  - destruct i as [|i], j as [|j]; simpl; auto.
    rewrite IH. reflexivity.
Qed.

Lemma steps_length i steps (x : list Row) :
  length (fold_left (fun x s => upd_row i (apply s) x) steps x) = length x.
Proof. revert x; induction steps as [|s r IH]; intros x; simpl; auto. rewrite IH. apply upd_row_length. Qed.

Lemma nth_steps i steps (x : list Row) j dr : i < length x ->
  nth j (fold_left (fun x s => upd_row i (apply s) x) steps x) dr =
  if Nat.eqb j i then fold_left (fun r s => apply s r) steps (nth i x dr) else nth j x dr.
Proof.
  revert x; induction steps as [|s r IH]; intros x Hi; simpl.
  - destruct (Nat.eqb j i) eqn:E; auto. apply Nat.eqb_eq in E. now subst.
  - rewrite IH by (now rewrite upd_row_length).
    rewrite !nth_upd_row. rewrite Nat.eqb_refl.
    assert (Hl : Nat.ltb i (length x) = true) by (now apply Nat.ltb_lt).
    rewrite Hl. simpl. destruct (Nat.eqb j i); reflexivity.
Qed.

Lemma build_at_length els d (x : list Row) i : length (build_at keq apply els d x i) = length x.
Proof.
  unfold build_at. destruct (nth_error els i); auto. destruct (lookup keq k d); auto. apply steps_length.
Qed.

Lemma nth_build_at els d (x : list Row) i j dr de : i < length x -> i < length els ->
  nth j (build_at keq apply els d x i) dr =
  if Nat.eqb j i then row_of keq apply d (nth i els de) (nth i x dr) else nth j x dr.
Proof.
  intros Hx He. unfold build_at, row_of.
  rewrite (nth_error_nth' els de He).
  destruct (lookup keq (nth i els de) d).
  - now apply nth_steps.
  - destruct (Nat.eqb j i) eqn:E; auto. apply Nat.eqb_eq in E. now subst.
Qed.

Lemma nth_fold_build els d dr de (idxs : list nat) : forall (x : list Row) j,
  NoDup idxs -> Forall (fun i => i < length els) idxs -> length x = length els ->
  nth j (fold_left (build_at keq apply els d) idxs x) dr =
  if existsb (Nat.eqb j) idxs then row_of keq apply d (nth j els de) (nth j x dr) else nth j x dr.
Proof.
  induction idxs as [|i r IH]; intros x j Hn Hf Hl; simpl; auto.
  inversion Hn as [|? ? Hi Hr]; subst. inversion Hf as [|? ? Hb Hfr]; subst.
  rewrite IH; auto; [|now rewrite build_at_length].
  rewrite (nth_build_at els d x i j dr de) by lia.
  destruct (Nat.eqb j i) eqn:E; simpl.
  - apply Nat.eqb_eq in E. subst j.
    replace (existsb (Nat.eqb i) r) with false; auto.
    symmetry. apply not_true_is_false. intros H. apply existsb_exists in H.
    destruct H as [k [Hk Ek]]. apply Nat.eqb_eq in Ek. subst. contradiction.
  - reflexivity.
Qed.

(* buildProfile fills row i with the steps registered for the i-th element of the model's list *)
Lemma buildProfile_spec els d (x : list Row) : length x = length els ->
  buildProfile keq apply els d x = map (fun er => row_of keq apply d (fst er) (snd er)) (combine els x).
Proof.
  intros Hl. destruct els as [|e0 els'].
  - destruct x; [reflexivity | discriminate].
  - destruct x as [|r0 x']; [discriminate|]. set (els := e0 :: els') in *. set (x := r0 :: x') in *.
    apply (nth_ext _ _ r0 (row_of keq apply d e0 r0)).
    + unfold buildProfile. rewrite map_length, combine_length.
      assert (H : forall idxs y, length (fold_left (build_at keq apply els d) idxs y) = length y).
      { induction idxs; intros; simpl; auto. rewrite IHidxs. apply build_at_length. }
      rewrite H. lia.
    + intros j Hj.
      assert (Hlen : forall idxs y, length (fold_left (build_at keq apply els d) idxs y) = length y).
      { induction idxs; intros; simpl; auto. rewrite IHidxs. apply build_at_length. }
      unfold buildProfile in *. rewrite Hlen in Hj.
      rewrite (nth_fold_build els d r0 e0); auto; [|apply seq_NoDup|].
      * replace (existsb (Nat.eqb j) (seq 0 (length els))) with true.
        -- change (row_of keq apply d e0 r0) with (row_of keq apply d (fst (e0, r0)) (snd (e0, r0))).
           rewrite (map_nth (fun er : K * Row => row_of keq apply d (fst er) (snd er)) (combine els x) (e0, r0) j).
           rewrite combine_nth by auto. reflexivity.
        -- symmetry. apply existsb_exists. exists j. split; [apply in_seq; lia | apply Nat.eqb_refl].
      * apply Forall_forall. intros i Hi. apply in_seq in Hi. lia.
Qed.

Lemma buildProfile_zero els d (z : Row) :
  buildProfile keq apply els d (repeat z (length els)) = map (fun e => row_of keq apply d e z) els.
Proof.
  rewrite buildProfile_spec by apply repeat_length.
  induction els as [|e r IH]; simpl; auto. now rewrite IH.
Qed.

(* listing the model's elements in another order permutes the rows accordingly, nothing else *)
Lemma buildProfile_equivariant els d (z dr : Row) (de : K) idx :
  Forall (fun i => i < length els) idx ->
  buildProfile keq apply (reorder de els idx) d (repeat z (length idx)) =
  reorder dr (buildProfile keq apply els d (repeat z (length els))) idx.
Proof.
  intros Hb. rewrite <- (reorder_length de els idx) at 1. rewrite !buildProfile_zero.
  symmetry. now apply (reorder_map (fun e => row_of keq apply d e z) de dr).
Qed.
End ProfileFacts.

Section GrowthInputFacts.
Context {P A B C : Type}.
Variables (gname : P -> nat) (gbounds : P -> A) (gibbs : P -> A -> B) (gbeta : P -> C).

Lemma phaseIndex_nth (names : list nat) p dn : NoDup names -> p < length names ->
  phaseIndex names (nth p names dn) = p.
Proof.
  revert p; induction names as [|y r IH]; intros p Hn Hp; simpl in *; [lia|].
  inversion Hn as [|? ? Hy Hr]; subst. destruct p as [|p].
  - now rewrite Nat.eqb_refl.
  - destruct (Nat.eqb y (nth p r dn)) eqn:E.
    + apply Nat.eqb_eq in E. exfalso. apply Hy. rewrite E. apply nth_In. lia.
    + f_equal. apply IH; auto. lia.
Qed.

(* addressing a phase by its own name gives that phase's Gibbs-Thomson energies on its own size classes *)
Lemma particleGibbs_by_name (ps : list P) d p : NoDup (map gname ps) -> p < length ps ->
  particleGibbs gname gbounds gibbs ps d None (Some (gname (nth p ps d))) = gibbs (nth p ps d) (gbounds (nth p ps d)).
Proof.
  intros Hn Hp. unfold particleGibbs, phaseIdx.
  rewrite <- (map_nth gname ps d p).
  rewrite phaseIndex_nth; auto. now rewrite map_length.
Qed.

Lemma growth_inputs_reorder (ps : list P) d idx i : i < length idx ->
  growth_inputs gname gbounds gibbs gbeta (reorder d ps idx) d i =
  growth_inputs gname gbounds gibbs gbeta ps d (nth i idx 0).
Proof. intros Hi. unfold growth_inputs. now rewrite nth_reorder. Qed.
End GrowthInputFacts.

(* ---- per-phase callbacks ------------------------------------------------------------------------------------ *)
Lemma callback_early {P T : Type} (table : P -> T) (ps : list P) d p :
  callback table Early ps d p = table (nth p ps d).
Proof. reflexivity. Qed.

Lemma callback_early_reorder {P T : Type} (table : P -> T) (ps : list P) d idx i : i < length idx ->
  callback table Early (reorder d ps idx) d i = callback table Early ps d (nth i idx 0).
Proof. intros Hi. unfold callback, closure_phase. now rewrite nth_reorder. Qed.
