(* C11 - bridge between the Gallina text regenerated from the CURRENT kawin source
   (build/C11/Gen.v, written by harness/c11_translate.py on every run) and the theorems of
   coq/C11/Proofs.v.  Compiled only by the check.  Each theorem says, for one index idiom of the
   code: given the backend's alphabetical data ("one value B e per element name, listed
   alphabetically"), the code's expression yields the values in the order the user listed the
   elements.  els = ref :: sol ++ [va] is `self.elements` (reference, solutes, 'VA'). *)
From Coq Require Import List ZArith Arith Permutation Lia.
Require Import Kawin.C11.Model Kawin.C11.Proofs KawinRun.Gen.
Import ListNotations.

Section Bridge.
Context {A : Type}.
Variable d : A.
Variables (ref va : list Z) (sol : list (list Z)).
Notation els := (ref :: sol ++ [va]).

Lemma rl : removelast els = ref :: sol.
Proof. change (removelast ((ref :: sol) ++ [va]) = ref :: sol). apply removelast_last. Qed.


(* alphabetical matrices *)
Definition matB (B2 : str -> str -> A) (l : list str) := map (fun a => map (B2 a) l) l.

(* ---- Thermodynamics.py ---------------------------------------------------------------- *)
(* The translator emits one definition per value that leaves the index algebra (returned, passed on, stored),
   after substituting temporaries: the definitions are the same for named / inlined temporaries, renamed index
   variables, nested np.argsort(np.argsort(...)) and merged / split indexing steps. *)
Lemma b_tracer (B : str -> A) :
  gen_Thermodynamics_tracerDiffusivitySingle_1 d els (map B (sorted lexleb (ref :: sol))) = map B (ref :: sol).
Proof. unfold gen_Thermodynamics_tracerDiffusivitySingle_1. rewrite rl. apply (str_wrap_full d B (ref :: sol)). Qed.

Lemma b_interdiffusivity (B2 : str -> str -> A) :
  gen_Thermodynamics_interdiffusivitySingle_1 d els (matB B2 (sorted lexleb sol)) = matB B2 sol.
Proof. unfold gen_Thermodynamics_interdiffusivitySingle_1. rewrite rl. cbn [tl]. apply (str_wrap_matrix d B2 sol). Qed.

Lemma b_df_sampling (B : str -> A) :
  gen_Thermodynamics_getDrivingForceSampling_1 d els (map B (sorted lexleb (ref :: sol))) = map B sol.
Proof.
  unfold gen_Thermodynamics_getDrivingForceSampling_1. rewrite rl.
  apply (proj2 (str_wrap_tail d B (ref :: sol))).
Qed.

Lemma b_df_approx (B : str -> A) :
  gen_Thermodynamics_getDrivingForceApprox_1 d els (map B (sorted lexleb (ref :: sol))) = map B sol.
Proof. unfold gen_Thermodynamics_getDrivingForceApprox_1. rewrite rl. apply (proj1 (str_wrap_tail d B (ref :: sol))). Qed.

Lemma b_df_tangent (B : str -> A) :
  gen_Thermodynamics_getDrivingForceTangent_1 d els (map B (sorted lexleb (ref :: sol))) = map B sol.
Proof. unfold gen_Thermodynamics_getDrivingForceTangent_1. rewrite rl. apply (proj1 (str_wrap_tail d B (ref :: sol))). Qed.

Lemma b_df_curvature (B X : str -> A) : NoDup (ref :: sol) ->
  gen_Thermodynamics_getDrivingForceCurvature_1 d els (map X sol) = map X (sorted lexleb sol) /\
  gen_Thermodynamics_getDrivingForceCurvature_2 d els (map B (sorted lexleb (ref :: sol))) = map B sol.
Proof.
  intros Hn. unfold gen_Thermodynamics_getDrivingForceCurvature_1, gen_Thermodynamics_getDrivingForceCurvature_2.
  rewrite rl. cbn [tl hd]. split; [apply (str_sort_input d X sol) | apply (str_wrap_solutes d B ref sol Hn)].
Qed.

(* ---- MultiTherm.py ------------------------------------------------------------------------ *)
Lemma b_interfacial (B : str -> A) :
  gen_MultiTherm_interfacialComposition_1 d els (map B (sorted lexleb (ref :: sol))) = map B (ref :: sol) /\
  gen_MultiTherm_interfacialComposition_2 d els (map B (sorted lexleb (ref :: sol))) = map B (ref :: sol).
Proof.
  unfold gen_MultiTherm_interfacialComposition_1, gen_MultiTherm_interfacialComposition_2. rewrite rl.
  split; apply (str_wrap_full d B (ref :: sol)).
Qed.

(* dc (numerator), Gba, c_eq_alpha, c_eq_beta of the CurvatureOutput *)
Lemma b_curvature_factor (B : str -> A) (B2 : str -> str -> A) : NoDup (ref :: sol) ->
  gen_MultiTherm_curvatureFactorFromEq_1 d els (map B (sorted lexleb sol)) = map B sol /\
  gen_MultiTherm_curvatureFactorFromEq_2 d els (matB B2 (sorted lexleb sol)) = matB B2 sol /\
  gen_MultiTherm_curvatureFactorFromEq_3 d els (map B (sorted lexleb (ref :: sol))) = map B sol /\
  gen_MultiTherm_curvatureFactorFromEq_4 d els (map B (sorted lexleb (ref :: sol))) = map B sol.
Proof.
  intros Hn.
  unfold gen_MultiTherm_curvatureFactorFromEq_1, gen_MultiTherm_curvatureFactorFromEq_2,
         gen_MultiTherm_curvatureFactorFromEq_3, gen_MultiTherm_curvatureFactorFromEq_4.
  rewrite rl. cbn [tl hd]. repeat split.
  - apply (str_wrap_full d B sol).
  - apply (str_wrap_matrix d B2 sol).
  - apply (str_wrap_solutes d B ref sol Hn).
  - apply (str_wrap_solutes d B ref sol Hn).
Qed.

(* ---- DiffusionParameters.py / HomogenizationParameters.py ------------------------------------- *)
Lemma b_mobility (B : str -> A) :
  let u := gen_DiffusionParameters_computeMobility_1 els in
  let v := map B (sorted lexleb (ref :: sol)) in
  gen_DiffusionParameters_computeSingleMobility_1 d u els v = map B (ref :: sol) /\
  gen_DiffusionParameters_computeSingleMobility_2 d u els v = map B (ref :: sol) /\
  gen_DiffusionParameters_computeSingleMobility_3 d u els v = map B (ref :: sol) /\
  gen_HomogenizationParameters_computeHomogenizationFunction_1 els = u.
Proof.
  cbv zeta.
  unfold gen_DiffusionParameters_computeMobility_1, gen_DiffusionParameters_computeSingleMobility_1,
         gen_DiffusionParameters_computeSingleMobility_2, gen_DiffusionParameters_computeSingleMobility_3,
         gen_HomogenizationParameters_computeHomogenizationFunction_1.
  rewrite rl. repeat split; apply (str_wrap_full d B (ref :: sol)).
Qed.

End Bridge.

(* ------------------------------------------------------------------------------------------------ *)
Theorem C11_gen_tracer_diffusivity {A} (d : A) ref va sol (B : str -> A) :
  gen_Thermodynamics_tracerDiffusivitySingle_1 d (ref :: sol ++ [va]) (map B (sorted lexleb (ref :: sol))) = map B (ref :: sol).
Proof. exact (b_tracer d ref va sol B). Qed.
Print Assumptions C11_gen_tracer_diffusivity.

Theorem C11_gen_interdiffusivity {A} (d : A) ref va sol (B2 : str -> str -> A) :
  gen_Thermodynamics_interdiffusivitySingle_1 d (ref :: sol ++ [va]) (matB B2 (sorted lexleb sol)) = matB B2 sol.
Proof. exact (b_interdiffusivity d ref va sol B2). Qed.
Print Assumptions C11_gen_interdiffusivity.

Theorem C11_gen_driving_force_sampling {A} (d : A) ref va sol (B : str -> A) :
  gen_Thermodynamics_getDrivingForceSampling_1 d (ref :: sol ++ [va]) (map B (sorted lexleb (ref :: sol))) = map B sol.
Proof. exact (b_df_sampling d ref va sol B). Qed.
Print Assumptions C11_gen_driving_force_sampling.

Theorem C11_gen_driving_force_approx {A} (d : A) ref va sol (B : str -> A) :
  gen_Thermodynamics_getDrivingForceApprox_1 d (ref :: sol ++ [va]) (map B (sorted lexleb (ref :: sol))) = map B sol.
Proof. exact (b_df_approx d ref va sol B). Qed.
Print Assumptions C11_gen_driving_force_approx.

Theorem C11_gen_driving_force_tangent {A} (d : A) ref va sol (B : str -> A) :
  gen_Thermodynamics_getDrivingForceTangent_1 d (ref :: sol ++ [va]) (map B (sorted lexleb (ref :: sol))) = map B sol.
Proof. exact (b_df_tangent d ref va sol B). Qed.
Print Assumptions C11_gen_driving_force_tangent.

Theorem C11_gen_driving_force_curvature {A} (d : A) ref va sol (B X : str -> A) : NoDup (ref :: sol) ->
  gen_Thermodynamics_getDrivingForceCurvature_1 d (ref :: sol ++ [va]) (map X sol) = map X (sorted lexleb sol) /\
  gen_Thermodynamics_getDrivingForceCurvature_2 d (ref :: sol ++ [va]) (map B (sorted lexleb (ref :: sol))) = map B sol.
Proof. exact (b_df_curvature d ref va sol B X). Qed.
Print Assumptions C11_gen_driving_force_curvature.

Theorem C11_gen_interfacial_composition {A} (d : A) ref va sol (B : str -> A) :
  gen_MultiTherm_interfacialComposition_1 d (ref :: sol ++ [va]) (map B (sorted lexleb (ref :: sol))) = map B (ref :: sol) /\
  gen_MultiTherm_interfacialComposition_2 d (ref :: sol ++ [va]) (map B (sorted lexleb (ref :: sol))) = map B (ref :: sol).
Proof. exact (b_interfacial d ref va sol B). Qed.
Print Assumptions C11_gen_interfacial_composition.

Theorem C11_gen_curvature_factor {A} (d : A) ref va sol (B : str -> A) (B2 : str -> str -> A) : NoDup (ref :: sol) ->
  gen_MultiTherm_curvatureFactorFromEq_1 d (ref :: sol ++ [va]) (map B (sorted lexleb sol)) = map B sol /\
  gen_MultiTherm_curvatureFactorFromEq_2 d (ref :: sol ++ [va]) (matB B2 (sorted lexleb sol)) = matB B2 sol /\
  gen_MultiTherm_curvatureFactorFromEq_3 d (ref :: sol ++ [va]) (map B (sorted lexleb (ref :: sol))) = map B sol /\
  gen_MultiTherm_curvatureFactorFromEq_4 d (ref :: sol ++ [va]) (map B (sorted lexleb (ref :: sol))) = map B sol.
Proof. exact (b_curvature_factor d ref va sol B B2). Qed.
Print Assumptions C11_gen_curvature_factor.

Theorem C11_gen_mobility {A} (d : A) ref va sol (B : str -> A) :
  let u := gen_DiffusionParameters_computeMobility_1 (ref :: sol ++ [va]) in
  let v := map B (sorted lexleb (ref :: sol)) in
  gen_DiffusionParameters_computeSingleMobility_1 d u (ref :: sol ++ [va]) v = map B (ref :: sol) /\
  gen_DiffusionParameters_computeSingleMobility_2 d u (ref :: sol ++ [va]) v = map B (ref :: sol) /\
  gen_DiffusionParameters_computeSingleMobility_3 d u (ref :: sol ++ [va]) v = map B (ref :: sol) /\
  gen_HomogenizationParameters_computeHomogenizationFunction_1 (ref :: sol ++ [va]) = u.
Proof. exact (b_mobility d ref va sol B). Qed.
Print Assumptions C11_gen_mobility.

(* ---- CompositionProfile.buildProfile (regenerated loop) ----------------------------------------------- *)
(* the regenerated loop is the modelled loop; it fills the row of the i-th element of the MODEL's element list
   with the steps registered for that element (in registration order), whatever the order of the registrations
   of different elements; listing the model's elements in another order permutes the rows accordingly *)
Theorem C11_gen_build_profile {K Step Row : Type} (keq : K -> K -> bool) (apply : Step -> Row -> Row)
        (els : list K) (steps : list (K * list Step)) (z dr : Row) (de : K) (idx : list nat) :
  (forall x, gen_buildProfile keq apply els steps x = buildProfile keq apply els steps x) /\
  gen_buildProfile keq apply els steps (repeat z (length els)) = map (fun e => row_of keq apply steps e z) els /\
  (Forall (fun i => i < length els) idx ->
   gen_buildProfile keq apply (reorder de els idx) steps (repeat z (length idx)) =
   reorder dr (gen_buildProfile keq apply els steps (repeat z (length els))) idx).
Proof.
  assert (E : forall l x, gen_buildProfile keq apply l steps x = buildProfile keq apply l steps x) by reflexivity.
  split; [apply E|]. split.
  - rewrite E. apply buildProfile_zero.
  - intros Hb. rewrite !E. now apply buildProfile_equivariant.
Qed.
Print Assumptions C11_gen_build_profile.

(* ---- PrecipitateModel._singleGrowthMulti (regenerated argument list) ----------------------------------- *)
(* radii, Gibbs-Thomson energies, phase name and search direction handed to the backend for the phase at position
   p are those of that phase (distinct phase names), hence the same wherever the phase is listed *)
Theorem C11_gen_growth_inputs {P A B C : Type} (gname : P -> nat) (gbounds : P -> A) (gibbs : P -> A -> B) (gbeta : P -> C)
        (ps : list P) (d : P) (p : nat) (idx : list nat) (i : nat) :
  NoDup (map gname ps) ->
  (p < length ps ->
   gen_singleGrowthMulti_call gname gbounds gibbs gbeta ps d p = growth_inputs gname gbounds gibbs gbeta ps d p) /\
  (Permutation idx (seq 0 (length ps)) -> i < length idx ->
   gen_singleGrowthMulti_call gname gbounds gibbs gbeta (reorder d ps idx) d i =
   gen_singleGrowthMulti_call gname gbounds gibbs gbeta ps d (nth i idx 0)).
Proof.
  intros Hn.
  assert (E : forall l q, NoDup (map gname l) -> q < length l ->
              gen_singleGrowthMulti_call gname gbounds gibbs gbeta l d q = growth_inputs gname gbounds gibbs gbeta l d q).
  { intros l q Hl Hq. unfold gen_singleGrowthMulti_call, growth_inputs.
    rewrite (particleGibbs_by_name gname gbounds gibbs l d q Hl Hq). reflexivity. }
  split; [now apply E|].
  intros Hp Hi.
  assert (Hlen : length idx = length ps) by (rewrite (Permutation_length Hp); apply seq_length).
  assert (Hb : nth i idx 0 < length ps).
  { assert (In (nth i idx 0) (seq 0 (length ps))) by (apply (Permutation_in _ Hp), nth_In, Hi). apply in_seq in H. lia. }
  rewrite E; [| |rewrite reorder_length; exact Hi].
  - rewrite (E ps _ Hn Hb). now apply growth_inputs_reorder.
  - eapply Permutation_NoDup; [|exact Hn]. apply Permutation_sym. apply Permutation_map. now apply reorder_perm.
Qed.
Print Assumptions C11_gen_growth_inputs.

(* ---- callbacks created in loops over the phases (regenerated binding of the phase index) --------------------- *)
(* the aspect-ratio callback installed for the phase at position p reads that phase's table, wherever it is listed *)
Theorem C11_gen_phase_callbacks {P T : Type} (table : P -> T) (ps : list P) (d : P) (p : nat) (idx : list nat) (i : nat) :
  gen_setupAspectRatio_closure_1 table ps d p = [table (nth p ps d)] /\
  (i < length idx ->
   gen_setupAspectRatio_closure_1 table (reorder d ps idx) d i = gen_setupAspectRatio_closure_1 table ps d (nth i idx 0)).
Proof.
  split; [reflexivity|]. intros Hi.
  unfold gen_setupAspectRatio_closure_1. now rewrite (callback_early_reorder table ps d idx i Hi).
Qed.
Print Assumptions C11_gen_phase_callbacks.

(* ---- stores into per-phase histories inside loops over the phases --------------------------------------------- *)
(* every such store in KWNBase.py / KWNEuler.py addresses the row of the loop's own phase (a store without the phase
   index would overwrite the rows of the phases listed before it) *)
Theorem C11_gen_phase_stores : forallb (fun b : bool => b) gen_phase_stores = true /\ gen_phase_stores <> [].
Proof. split; [reflexivity | discriminate]. Qed.
Print Assumptions C11_gen_phase_stores.
