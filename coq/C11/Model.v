(* C11 - faithful model of the two mechanisms behind "results are equivariant under reordering of
   elements and of phases".  Executable definitions only (no proofs).

   Part A (D3, index algebra): the sortIndices / unsortIndices idiom that maps pycalphad's
     alphabetical element order to the user's order
       kawin/thermo/Thermodynamics.py  _interdiffusivitySingle (539-544), _tracerDiffusivitySingle
         (614-617), _getDrivingForceSampling (700-707), _getDrivingForceApprox (758-762),
         _getDrivingForceCurvature (804-824), _getDrivingForceTangent (904-908)
       kawin/thermo/MultiTherm.py      _interfacialComposition (169-171), _curvatureFactorFromEq (209-272)
       kawin/diffusion/DiffusionParameters.py  _computeSingleMobility / computeMobility (516-530, 561-562)
   Part B (D1, phase loops): every step-size rule of  Constraints  in
       kawin/precipitation/PrecipitationParameters.py (253-317), their combination in
       kawin/precipitation/KWNEuler.py getDt (328-370) and the nucleation-site competition
       _calcNucleationSites (385-428).  The volume rule is the REPAIRED one (kawin commit
       "fix: computeDTfromVolume limits the time step by every precipitate phase ..."); the rule of
       the unrepaired tree is kept as [dtVolume_prefix] for the refutation witness in Examples.v. *)
From Coq Require Import List Bool ZArith Arith.
Require Import Kawin.Common.Ops Kawin.Common.Vec Kawin.C07.Model.
Import ListNotations.

(* ====================================================================================== *)
(* Part A - index algebra                                                                  *)

Section Argsort.
Context {K : Type}.
Variable kleb : K -> K -> bool.                 (* k1 <= k2 *)

(* np.argsort on distinct keys = the sorting permutation; modelled as a stable insertion sort of
   (key, position) pairs: a new pair goes in front of the first pair whose key is >= its own *)
Fixpoint ins (x : K * nat) (l : list (K * nat)) : list (K * nat) :=
  match l with
  | [] => [x]
  | y :: r => if kleb (fst x) (fst y) then x :: y :: r else y :: ins x r
  end.
Fixpoint isort (l : list (K * nat)) : list (K * nat) :=
  match l with [] => [] | x :: r => ins x (isort r) end.
Definition argsort (l : list K) : list nat :=
  map snd (isort (combine l (seq 0 (length l)))).
End Argsort.

(* v[idx]  (numpy fancy indexing with an integer array) *)
Definition reorder {A} (d : A) (v : list A) (idx : list nat) : list A :=
  map (fun i => nth i v d) idx.
(* M[idx,:] followed by M[:,idx] *)
Definition reorder2 {A} (d : A) (M : list (list A)) (idx : list nat) : list (list A) :=
  map (fun row => reorder d row idx) (reorder [] M idx).
(* np.delete(v, k) *)
Fixpoint delete_at {A} (k : nat) (l : list A) : list A :=
  match l, k with
  | [], _ => []
  | _ :: r, 0 => r
  | x :: r, S k' => x :: delete_at k' r
  end.

Section Wrappers.
Context {K : Type}.
Variable kleb : K -> K -> bool.
Definition keqb (a b : K) : bool := kleb a b && kleb b a.

(* list.index(x) (position of the first equal entry; length when absent - Python raises) *)
Fixpoint index_of (x : K) (l : list K) : nat :=
  match l with [] => 0 | y :: r => if keqb x y then 0 else S (index_of x r) end.

Definition sortIdx (els : list K) : list nat := argsort kleb els.
Definition unsortIdx (els : list K) : list nat := argsort Nat.leb (sortIdx els).
(* what pycalphad works with: the element names in alphabetical order *)
Definition sorted (els : list K) : list K :=
  match els with [] => [] | d :: _ => reorder d els (sortIdx els) end.

Context {A : Type}.
Variable d : A.

(* X[unsortIndices] with indices from elements[:-1] (reference element first, 'VA' dropped):
   tracer diffusivity, interfacial compositions xM / xP, chemical potentials, mobilities *)
Definition wrap_full (els : list K) (v : list A) : list A := reorder d v (unsortIdx els).
(* xP[unsortIndices[1:]]   (approximate and tangent driving force) *)
Definition wrap_tail_idx (els : list K) (v : list A) : list A := reorder d v (tl (unsortIdx els)).
(* beta_x[unsortIndices][1:]   (sampling driving force) *)
Definition wrap_tail_val (els : list K) (v : list A) : list A := tl (reorder d v (unsortIdx els)).
(* np.delete(X, refIndex)[unsortIndices] with indices from the solutes elements[1:-1] and
   refIndex = nonvacant_elements.index(elements[0])   (curvature driving force, c_eq_alpha / c_eq_beta,
   dc of the curvature factor) *)
Definition wrap_solutes (els : list K) (vfull : list A) : list A :=
  match els with
  | [] => []
  | ref :: sol => reorder d (delete_at (index_of ref (sorted els)) vfull) (unsortIdx sol)
  end.
(* Dnkj[unsortIndices,:][:,unsortIndices] , Gba likewise: indices from the solutes *)
Definition wrap_matrix (sol : list K) (M : list (list A)) : list (list A) := reorder2 d M (unsortIdx sol).
(* x = x[sortIndices]: the user's solute composition handed to the backend in alphabetical order *)
Definition sort_input (sol : list K) (x : list A) : list A := reorder d x (sortIdx sol).
End Wrappers.

(* element names are Python strings; numpy compares them code point by code point *)
Fixpoint lexleb (a b : list Z) : bool :=
  match a, b with
  | [], _ => true
  | _ :: _, [] => false
  | x :: a', y :: b' => if (x <? y)%Z then true else if (y <? x)%Z then false else lexleb a' b'
  end.

(* ====================================================================================== *)
(* Part B - per-phase loops                                                                 *)

Section Phases.
Variable O : Ops.
Notation t := (T O).

(* np.amin of a non-empty array *)
Definition amin_list (l : list t) : t :=
  match l with [] => zero O | x :: r => amin O x r end.

Record cons := mkCons {
  checkPSD : bool; checkNuc : bool; checkTemp : bool; checkRcrit : bool; checkVol : bool;
  maxNonIsoDT : t; maxRcritChange : t; maxNucChange : t; minNucRate : t; maxVolChange : t;
  dtScale : t;
  binRatio : t            (* maxBinRatio default of getDTEuler, the float 0.4 *) }.

(* everything the step-size rules read of one precipitate phase at step n *)
Record phase := mkPhase {
  bounds : list t; size : list t; psd : list t; growth : list t; dissIdx : nat;  (* PBM[p], growth[p] *)
  nucCurr : t; nucPrev : t;          (* nucRate[n,p], nucRate[n-1,p] *)
  lgNuc : t;                         (* |log10(nucPrev/nucCurr)| as libm evaluates it (D2, supplied) *)
  rcCurr : t; rcPrev : t; dG : t;    (* Rcrit[n,p], Rcrit[n-1,p], drivingForce[n,p] *)
  rnuc : t;                          (* Rnuc[n,p] *)
  vmBeta : t; areaF : t; volF : t    (* VmBeta[p], GB[p].areaFactor, GB[p].volumeFactor *) }.

(* computeDTfromPSD *)
Definition dtPSD (c : cons) (npos teq : bool) (ps : list phase) (dtMax : t) : t :=
  if checkPSD c then
    (if npos && teq
     then amin O dtMax (map (fun p => getDT O dtMax (bounds p) (psd p) (growth p) (dissIdx p) (binRatio c)) ps)
     else dtMax)
  else dtMax.

(* computeDTfromNucleationRate: entry p of dtNuc *)
Definition dtNuc1 (c : cons) (npos : bool) (dtPrev dtMax : t) (p : phase) : t :=
  if npos then
    (if ltb O (minNucRate c) (nucCurr p) && ltb O (minNucRate c) (nucPrev p) && negb (eqb O (nucPrev p) (nucCurr p))
     then dvd O (mul O (maxNucChange c) dtPrev) (lgNuc p) else dtMax)
  else
    (if ltb O (ofZ O 100000) (mul O (nucCurr p) dtPrev) then dvd O (ofZ O 100000) (nucCurr p) else dtMax).
Definition dtNucleation (c : cons) (npos : bool) (ps : list phase) (dtPrev dtMax : t) : t :=
  if checkNuc c then amin_list (map (dtNuc1 c npos dtPrev dtMax) ps) else dtMax.

(* computeDTfromTemperature *)
Definition dtTemperature (c : cons) (npos : bool) (Tcur Tprev dtPrev dtMax : t) : t :=
  if checkTemp c && npos then
    (let dT := sub O Tcur Tprev in
     if ltb O (maxNonIsoDT c) dT then dvd O (mul O (maxNonIsoDT c) dtPrev) dT else dtMax)
  else dtMax.

(* computeDTfromRcrit *)
Definition rcIdle (p : phase) : bool :=
  eqb O (rcPrev p) (zero O) && eqb O (sub O (rcCurr p) (rcPrev p)) (zero O) && leb O (dG p) (zero O).
Definition dtRc1 (c : cons) (dtPrev dtMax : t) (p : phase) : t :=
  if ltb O (zero O) (rcPrev p) && negb (eqb O (sub O (rcCurr p) (rcPrev p)) (zero O)) && ltb O (zero O) (dG p)
  then dvd O (mul O (maxRcritChange c) dtPrev) (absT O (dvd O (sub O (rcCurr p) (rcPrev p)) (rcPrev p)))
  else dtMax.
Definition dtRcrit (c : cons) (npos : bool) (ps : list phase) (dtPrev dtMax : t) : t :=
  if checkRcrit c && npos then
    (if forallb rcIdle ps then amin_list (map (fun _ => dtMax) ps)
     else amin_list (map (dtRc1 c dtPrev dtMax) ps))
  else dtMax.

(* computeDTfromVolume: estimated volume change of phase p
     dVi = PSD * PSDsize**2 * 0.5*(growth[1:] + growth[:-1]) ; dVi[dVi < 0] = 0
     dV[p] = VmAlpha / VmBeta[p] * (areaFactor * sum(dVi) + volumeFactor * nucRate[n,p] * nucRadius[n,p]**3) *)
Definition dVi (p : phase) : list t :=
  map (fun v => if ltb O v (zero O) then zero O else v)
      (zip3 (fun n r g => mul O (mul O n (mul O r r)) g) (psd p) (size p) (mids O (growth p))).
Definition dVof (vmAlpha : t) (p : phase) : t :=
  mul O (dvd O vmAlpha (vmBeta p))
        (add O (mul O (areaF p) (sumT O (dVi p)))
               (mul O (mul O (volF p) (nucCurr p)) (powT O (rnuc p) 3))).
Definition dtOfdV (c : cons) (dtMax dV : t) : t :=
  if eqb O dV (zero O) then dtMax else dvd O (maxVolChange c) (mul O (ofZ O 2) (absT O dV)).
(* repaired code: dV[p] is kept per phase *)
Definition dtVolume (c : cons) (ps : list phase) (vmAlpha dtMax : t) : t :=
  if checkVol c then amin_list (map (fun p => dtOfdV c dtMax (dVof vmAlpha p)) ps) else dtMax.
(* unrepaired code: `dV = ...` inside the loop rebinds the whole array, so after the loop dV is the
   scalar of the LAST listed phase and every entry of dtVol is computed from it *)
Definition dtVolume_prefix (c : cons) (ps : list phase) (vmAlpha dtMax : t) : t :=
  if checkVol c then
    match rev ps with
    | [] => zero O
    | pl :: _ => amin_list (map (fun _ => dtOfdV c dtMax (dVof vmAlpha pl)) ps)
    end
  else dtMax.

(* KWNEuler.getDt: minimum of all rules; when nothing binds, the previous step grown by dtScale *)
Definition getDt (c : cons) (npos : bool) (Tcur Tprev : t) (ps : list phase) (vmAlpha dtPrev dtMax : t) : t :=
  let dtPropose := mul O (add O (one O) (dtScale c)) dtPrev in
  let dt := amin O dtMax
              [ dtPSD c npos (eqb O Tcur Tprev) ps dtMax;
                dtNucleation c npos ps dtPrev dtMax;
                dtTemperature c npos Tcur Tprev dtPrev dtMax;
                dtRcrit c npos ps dtPrev dtMax;
                dtVolume c ps vmAlpha dtMax ] in
  if eqb O dt dtMax then dtPropose else dt.

(* ---- nucleation-site competition (KWNEuler._calcNucleationSites) ---------------------- *)
Inductive site := Bulk | Disl | GBound | GEdge | GCorner.
(* isinstance tests: DislocationDescription is a subclass of BulkDescription *)
Definition isBulk (s : site) : bool := match s with Bulk | Disl => true | _ => false end.
Definition isDisl (s : site) : bool := match s with Disl => true | _ => false end.
Definition isGB (s : site) : bool := match s with GBound => true | _ => false end.
Definition isEdge (s : site) : bool := match s with GEdge => true | _ => false end.
Definition isCorner (s : site) : bool := match s with GCorner => true | _ => false end.

Record sphase := mkS {
  pname : nat;                  (* the phase's name (phases are addressed by name when set up) *)
  stype : site;
  m0 : t; m1 : t; m2 : t;       (* Zero/First/SecondMomentFromN(x[p]) *)
  parCoef : t;                  (* (AVOGADROS_NUMBER / VmBeta[p])**(2/3)   (D2, supplied) *)
  gbRem : t;                    (* nucParams[p].gbRemoval *)
  edgeF : t;                    (* sqrt(1 - GBk**2)                        (D2, supplied) *)
  parents : list nat            (* names given to setParentPhases *) }.
Record matrixSites := mkM {
  bulkN0 : t; dislN0 : t; gbAreaN0 : t; gbEdgeN0 : t; gbCornerN0 : t;
  av13 : t; av23 : t;           (* (AVOGADROS_NUMBER / VmAlpha)**(1/3), **(2/3)  (D2, supplied) *)
  fourPi : t }.

(* phaseIndex(name): np.where(self.phases == name)[0][0] *)
Fixpoint phaseIndex (names : list nat) (x : nat) : nat :=
  match names with [] => 0 | y :: r => if Nat.eqb y x then 0 else S (phaseIndex r x) end.
(* setParentPhases stores indices *)
Definition parentIdx (ps : list sphase) (p : sphase) : list nat :=
  map (phaseIndex (map pname ps)) (parents p).

Definition sumWhere (f : sphase -> bool) (g : sphase -> t) (ps : list sphase) : t :=
  sumT O (map g (filter f ps)).

Definition nucSites (ps : list sphase) (M : matrixSites) (p : sphase) : t :=
  let parentSites :=
    sumT O (map (fun k => match nth_error ps k with
                          | Some q => mul O (mul O (fourPi M) (m2 q)) (parCoef q)
                          | None => zero O end) (parentIdx ps p)) in
  let s :=
    if isBulk (stype p) then
      add O parentSites (sub O (bulkN0 M) (sumWhere (fun q => isBulk (stype q)) m0 ps))
    else if isDisl (stype p) then
      add O parentSites (sub O (dislN0 M) (mul O (sumWhere (fun q => isDisl (stype q)) m1 ps) (av13 M)))
    else if isGB (stype p) then
      add O parentSites (sub O (gbAreaN0 M)
           (mul O (sumWhere (fun q => isGB (stype q)) (fun q => mul O (gbRem q) (m2 q)) ps) (av23 M)))
    else if isEdge (stype p) then
      add O parentSites (sub O (gbEdgeN0 M)
           (mul O (sumWhere (fun q => isEdge (stype q)) (fun q => mul O (edgeF q) (m1 q)) ps) (av13 M)))
    else if isCorner (stype p) then
      add O parentSites (sub O (gbCornerN0 M) (sumWhere (fun q => isCorner (stype q)) m0 ps))
    else parentSites in
  maxT O s (zero O).

End Phases.

(* ====================================================================================== *)
(* Part D - diffusion profiles and per-phase inputs of the growth law                      *)

(* CompositionProfile.buildProfile (kawin/diffusion/DiffusionParameters.py): the steps registered per element
   are kept in a dictionary (insertion order = registration order); the profile array x (one row per element
   of the MODEL's element list) is filled row by row *)
Section Profile.
Context {K Step Row : Type}.
Variable keq : K -> K -> bool.
Variable apply : Step -> Row -> Row.          (* one build step (linear, step, single, bounded, function, data) on a row *)

Fixpoint lookup (e : K) (d : list (K * list Step)) : option (list Step) :=
  match d with [] => None | (k, v) :: r => if keq e k then Some v else lookup e r end.
(* addCompositionBuildStep / clearCompositionBuildSteps *)
Fixpoint add_step (e : K) (s : Step) (d : list (K * list Step)) : list (K * list Step) :=
  match d with
  | [] => [(e, [s])]
  | (k, v) :: r => if keq e k then (k, v ++ [s]) :: r else (k, v) :: add_step e s r
  end.
Fixpoint clear_steps (e : K) (d : list (K * list Step)) : list (K * list Step) :=
  match d with [] => [] | (k, v) :: r => if keq e k then r else (k, v) :: clear_steps e r end.

Fixpoint upd_row (i : nat) (f : Row -> Row) (x : list Row) : list Row :=
  match x, i with
  | [], _ => []
  | r :: x', 0 => f r :: x'
  | r :: x', S i' => r :: upd_row i' f x'
  end.

(* for i in range(len(elements)): if elements[i] in steps: for step in steps[elements[i]]: build(i, x, ...) *)
Definition build_at (els : list K) (d : list (K * list Step)) (x : list Row) (i : nat) : list Row :=
  match nth_error els i with
  | Some e => match lookup e d with
              | Some steps => fold_left (fun x s => upd_row i (apply s) x) steps x
              | None => x end
  | None => x
  end.
Definition buildProfile (els : list K) (d : list (K * list Step)) (x : list Row) : list Row :=
  fold_left (build_at els d) (seq 0 (length els)) x.

(* what the row of element e should be: its own steps, in registration order *)
Definition row_of (d : list (K * list Step)) (e : K) (r : Row) : Row :=
  match lookup e d with Some steps => fold_left (fun r s => apply s r) steps r | None => r end.

(* the loop "for i, (element, steps) in enumerate(dict.items())": the row index is the position of the element in
   the dictionary - not the code's loop; kept for the refutation witness in Examples.v *)
Definition buildProfile_dictorder (els : list K) (d : list (K * list Step)) (x : list Row) : list Row :=
  fold_left (fun x ie => let '(i, (e, steps)) := ie in
                         if existsb (keq e) els then fold_left (fun x s => upd_row i (apply s) x) steps x else x)
            (combine (seq 0 (length d)) d) x.
End Profile.

(* what PrecipitateModel._singleGrowthMulti hands to the backend for the phase at position p *)
Section GrowthInputs.
Context {P A B C : Type}.
Variables (gname : P -> nat) (gbounds : P -> A) (gibbs : P -> A -> B) (gbeta : P -> C).
(* phaseIndex(phase): None means the first phase *)
Definition phaseIdx (ps : list P) (ph : option nat) : nat :=
  match ph with None => 0 | Some n => phaseIndex (map gname ps) n end.
(* particleGibbs(radius=None, phase=None): radius None means the size-class bounds of that phase *)
Definition particleGibbs (ps : list P) (d : P) (radius : option A) (ph : option nat) : B :=
  let q := nth (phaseIdx ps ph) ps d in
  gibbs q (match radius with Some r => r | None => gbounds q end).
(* (radii, Gibbs-Thomson energies, phase name, search direction) as they should be: all of phase p *)
Definition growth_inputs (ps : list P) (d : P) (p : nat) : A * B * nat * C :=
  let q := nth p ps d in (gbounds q, gibbs q (gbounds q), gname q, gbeta q).
End GrowthInputs.

(* a per-phase callback created inside a loop over the phases (PrecipitateModel._setupAspectRatio installs the aspect
   ratio function of a phase this way).  A Python closure looks a free loop variable up when it is CALLED - after the
   loop, that is the last index - whereas a default argument (`lambda R, p1=p: ...`) binds it when the closure is made *)
Section Closures.
Context {P T : Type}.
Variable table : P -> T.                  (* what the callback reads of "its" phase *)
Inductive binding := Early | Late.
Definition closure_phase (b : binding) (n p : nat) : nat := match b with Early => p | Late => n - 1 end.
Definition callback (b : binding) (ps : list P) (d : P) (p : nat) : T :=
  table (nth (closure_phase b (length ps) p) ps d).
End Closures.

Arguments delete_at {A} k l.
