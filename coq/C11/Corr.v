(* C11 - correspondence driver: evaluates the model (exact rationals / naturals) and compares with
   what the implementation produced for the same inputs; only verdicts are printed. *)
From Coq Require Import QArith List ZArith Bool Arith.
Require Import Kawin.Common.Ops Kawin.Common.Vec Kawin.Common.Out Kawin.C07.Model Kawin.C11.Model.
Import ListNotations.

(* ---- Part A: numpy argsort / fancy indexing vs the model ---------------------------------- *)
Fixpoint nat_list_eqb (a b : list nat) : bool :=
  match a, b with
  | [], [] => true
  | x :: a', y :: b' => Nat.eqb x y && nat_list_eqb a' b'
  | _, _ => false
  end.

(* names (lists of code points), numpy's argsort of them, numpy's argsort of that: both must equal
   the model's; returns (sort agrees, unsort agrees, model sortIdx, model unsortIdx) *)
Definition check_argsort (els : list (list Z)) (np_sort np_unsort : list nat) :=
  let s := sortIdx lexleb els in
  let u := unsortIdx lexleb els in
  (nat_list_eqb s np_sort, nat_list_eqb u np_unsort, s, u).

(* the wrappers applied to a labelled backend vector: entry k of the alphabetical vector carries
   the label k; the implementation's outputs are label lists too *)
Definition labels (n : nat) : list nat := seq 0 n.
Definition check_wrappers (els : list (list Z)) :=
  let n := length els in
  let full := labels n in
  let sol := tl els in
  let ns := length sol in
  (wrap_full lexleb 0%nat els full,
   wrap_tail_idx lexleb 0%nat els full,
   wrap_tail_val lexleb 0%nat els full,
   wrap_solutes lexleb 0%nat els full,
   wrap_matrix lexleb 0%nat sol (map (fun a => map (fun b => (a * ns + b)%nat) (labels ns)) (labels ns)),
   sort_input lexleb 0%nat sol (labels ns)).

(* ---- Part B: step-size rules ------------------------------------------------------------------ *)
Open Scope Q_scope.

Definition tie_nuc (rt : Q) (npos : bool) (dtPrev : Q) (p : phase Qops) : bool :=
  if npos then false else near_tie rt (Qred (nucCurr Qops p * dtPrev)) (100000 # 1).

(* impl = [dtPSD; dtNucleation; dtTemperature; dtRcrit; dtVolume; getDt]
   result: (indeterminate?, verdict per rule) *)
Definition check_dt (rt : Q) (c : cons Qops) (npos : bool) (Tcur Tprev : Q) (ps : list (phase Qops))
           (vmAlpha dtPrev dtMax : Q) (impl : list Q) :=
  let tie := existsb (tie_nuc rt npos dtPrev) ps
             || near_tie rt (Qred (Tcur - Tprev)) (maxNonIsoDT Qops c) in
  let m := [ dtPSD Qops c npos (eqb Qops Tcur Tprev) ps dtMax;
             dtNucleation Qops c npos ps dtPrev dtMax;
             dtTemperature Qops c npos Tcur Tprev dtPrev dtMax;
             dtRcrit Qops c npos ps dtPrev dtMax;
             dtVolume Qops c ps vmAlpha dtMax;
             getDt Qops c npos Tcur Tprev ps vmAlpha dtPrev dtMax ] in
  (tie, if tie then None else cmpl_rel rt impl m).

(* the unrepaired volume rule, for the replay of the known defect *)
Definition volume_prefix (c : cons Qops) (ps : list (phase Qops)) (vmAlpha dtMax : Q) : Z * Z * bool :=
  approx (dtVolume_prefix Qops c ps vmAlpha dtMax).

(* nucleation sites: impl = sites for each listed phase *)
Definition check_sites (rt : Q) (ps : list (sphase Qops)) (M : matrixSites Qops) (impl : list Q) :=
  let m := map (nucSites Qops ps M) ps in
  (* scale: the site density the subtraction starts from *)
  let sc := map (fun p => qmax (qabs (nucSites Qops ps M p))
                   (qmax (bulkN0 Qops M) (qmax (dislN0 Qops M) (qmax (gbAreaN0 Qops M) (qmax (gbEdgeN0 Qops M) (gbCornerN0 Qops M)))))) ps in
  cmpl rt impl m sc.
