(* C11 - Results are equivariant under reordering of elements and of phases.
   This file contains ONLY the property theorems; each is closed by [exact] of a lemma of Proofs.v
   and followed by Print Assumptions.
   Part A (element order): statements about the sortIndices / unsortIndices index algebra of
   coq/C11/Model.v at the key order the code uses (strings compared code point by code point,
   [str] = list of code points).  "The backend returns alphabetical order" is expressed by giving
   the backend's vector as [map B (sorted els)]: one value [B e] per element NAME, listed
   alphabetically.  Part B (phase order): statements about the real-number instance [Rops] of the
   step-size rules and the nucleation-site competition. *)
From Coq Require Import Reals List Arith ZArith Permutation Sorted.
Require Import Kawin.Common.Ops Kawin.Common.Vec Kawin.C11.Model Kawin.C11.Proofs.
Import ListNotations.
Open Scope nat_scope.

(* ---------------------------------------------------------------------------------------- *)
(* Part A                                                                                    *)

(* np.argsort returns a permutation of 0..n-1 ... *)
Theorem C11_argsort_is_permutation (l : list str) : Permutation (argsort lexleb l) (seq 0 (length l)).
Proof. exact (str_argsort_perm l). Qed.
Print Assumptions C11_argsort_is_permutation.

(* ... that puts the names in alphabetical order *)
Theorem C11_argsort_sorts (l : list str) :
  StronglySorted (kle lexleb) (sorted lexleb l) /\ Permutation (sorted lexleb l) l.
Proof. exact (str_sorted_spec l). Qed.
Print Assumptions C11_argsort_sorts.

(* for distinct names there is only one such permutation (numpy's default sort is not stable; on
   distinct keys every correct argsort equals the model's) *)
Theorem C11_argsort_unique (l : list str) (idx : list nat) dk :
  NoDup l -> Permutation idx (seq 0 (length l)) -> StronglySorted (kle lexleb) (reorder dk l idx) ->
  idx = argsort lexleb l.
Proof. exact (str_argsort_unique l idx dk). Qed.
Print Assumptions C11_argsort_unique.

(* the alphabetical list pycalphad works with does not depend on the order the user wrote *)
Theorem C11_alphabetical_order_independent (l1 l2 : list str) :
  Permutation l1 l2 -> sorted lexleb l1 = sorted lexleb l2.
Proof. exact (str_sorted_of_perm l1 l2). Qed.
Print Assumptions C11_alphabetical_order_independent.

(* [core] unsort_sort: els[sortIndices][unsortIndices] = els, for every list of names *)
Theorem C11_unsort_sort (dk : str) (els : list str) :
  reorder dk (reorder dk els (sortIdx lexleb els)) (unsortIdx lexleb els) = els.
Proof. exact (str_unsort_sort dk els). Qed.
Print Assumptions C11_unsort_sort.

(* [core] wrapper_equivariant, X[unsortIndices]: tracer diffusivity, interfacial compositions,
   chemical potentials, mobilities come out as "the value of element els[i] at position i" *)
Theorem C11_wrapper_full_equivariant {A} (d : A) (B : str -> A) (els : list str) :
  wrap_full lexleb d els (map B (sorted lexleb els)) = map B els.
Proof. exact (str_wrap_full d B els). Qed.
Print Assumptions C11_wrapper_full_equivariant.

(* the same without naming B: for ANY alphabetical backend vector v and two orders l1, l2 of the
   same distinct elements, an element gets the same entry in both orders *)
Theorem C11_wrapper_equivariant {A} (d : A) (l1 l2 : list str) (v : list A) i j :
  NoDup l1 -> Permutation l1 l2 -> length v = length l1 ->
  i < length l1 -> j < length l2 -> nth i l1 [] = nth j l2 [] ->
  nth i (wrap_full lexleb d l1 v) d = nth j (wrap_full lexleb d l2 v) d.
Proof. exact (str_wrapper_equivariant d l1 l2 v i j). Qed.
Print Assumptions C11_wrapper_equivariant.

(* driving-force precipitate composition, both idioms  xP[unsortIndices[1:]]  and
   beta_x[unsortIndices][1:] : the values of the solutes in the user's order *)
Theorem C11_wrapper_tail_equivariant {A} (d : A) (B : str -> A) (els : list str) :
  wrap_tail_idx lexleb d els (map B (sorted lexleb els)) = map B (tl els) /\
  wrap_tail_val lexleb d els (map B (sorted lexleb els)) = map B (tl els).
Proof. exact (str_wrap_tail d B els). Qed.
Print Assumptions C11_wrapper_tail_equivariant.

(* curvature idiom  np.delete(X, refIndex)[unsortIndices]  with indices built from the solutes only
   (c_eq_alpha, c_eq_beta, dc, curvature driving force) *)
Theorem C11_wrapper_solutes_equivariant {A} (d : A) (B : str -> A) (ref : str) (sol : list str) :
  NoDup (ref :: sol) ->
  wrap_solutes lexleb d (ref :: sol) (map B (sorted lexleb (ref :: sol))) = map B sol.
Proof. exact (str_wrap_solutes d B ref sol). Qed.
Print Assumptions C11_wrapper_solutes_equivariant.

(* matrices  M[unsortIndices,:][:,unsortIndices]  (interdiffusivity, Gba): entry (i,j) is the
   value for the pair (sol[i], sol[j]) *)
Theorem C11_wrapper_matrix_equivariant {A} (d : A) (B2 : str -> str -> A) (sol : list str) :
  wrap_matrix lexleb d sol (map (fun a => map (B2 a) (sorted lexleb sol)) (sorted lexleb sol))
  = map (fun a => map (B2 a) sol) sol.
Proof. exact (str_wrap_matrix d B2 sol). Qed.
Print Assumptions C11_wrapper_matrix_equivariant.

(* x[sortIndices]: the user's composition reaches the backend in alphabetical order *)
Theorem C11_input_sorted {A} (d : A) (X : str -> A) (sol : list str) :
  sort_input lexleb d sol (map X sol) = map X (sorted lexleb sol).
Proof. exact (str_sort_input d X sol). Qed.
Print Assumptions C11_input_sorted.

(* ---------------------------------------------------------------------------------------- *)
(* Part B                                                                                    *)
Open Scope R_scope.

(* [core] dt_perm_invariant: each per-phase step-size rule ... *)
Theorem C11_dt_psd_perm (c : cons Rops) npos teq (ps ps' : list (phase Rops)) dtMax :
  Permutation ps ps' -> dtPSD Rops c npos teq ps dtMax = dtPSD Rops c npos teq ps' dtMax.
Proof. exact (dtPSD_perm c npos teq ps ps' dtMax). Qed.
Print Assumptions C11_dt_psd_perm.

Theorem C11_dt_nucleation_perm (c : cons Rops) npos (ps ps' : list (phase Rops)) dtPrev dtMax :
  Permutation ps ps' -> dtNucleation Rops c npos ps dtPrev dtMax = dtNucleation Rops c npos ps' dtPrev dtMax.
Proof. exact (dtNucleation_perm c npos ps ps' dtPrev dtMax). Qed.
Print Assumptions C11_dt_nucleation_perm.

Theorem C11_dt_rcrit_perm (c : cons Rops) npos (ps ps' : list (phase Rops)) dtPrev dtMax :
  Permutation ps ps' -> dtRcrit Rops c npos ps dtPrev dtMax = dtRcrit Rops c npos ps' dtPrev dtMax.
Proof. exact (dtRcrit_perm c npos ps ps' dtPrev dtMax). Qed.
Print Assumptions C11_dt_rcrit_perm.

(* (holds for the repaired computeDTfromVolume; refuted for the unrepaired one, see Examples.v) *)
Theorem C11_dt_volume_perm (c : cons Rops) (ps ps' : list (phase Rops)) vmAlpha dtMax :
  Permutation ps ps' -> dtVolume Rops c ps vmAlpha dtMax = dtVolume Rops c ps' vmAlpha dtMax.
Proof. exact (dtVolume_perm c ps ps' vmAlpha dtMax). Qed.
Print Assumptions C11_dt_volume_perm.

(* ... and the step KWNEuler.getDt proposes from them is the same for every order of the phases *)
Theorem C11_getDt_perm (c : cons Rops) npos Tcur Tprev (ps ps' : list (phase Rops)) vmAlpha dtPrev dtMax :
  Permutation ps ps' ->
  getDt Rops c npos Tcur Tprev ps vmAlpha dtPrev dtMax = getDt Rops c npos Tcur Tprev ps' vmAlpha dtPrev dtMax.
Proof. exact (getDt_perm c npos Tcur Tprev ps ps' vmAlpha dtPrev dtMax). Qed.
Print Assumptions C11_getDt_perm.

(* the volume rule limits the step by EVERY listed phase with a non-zero estimated volume change *)
Theorem C11_dt_volume_bounds_every_phase (c : cons Rops) (ps : list (phase Rops)) vmAlpha dtMax p :
  checkVol Rops c = true -> In p ps -> dVof Rops vmAlpha p <> 0 ->
  dtVolume Rops c ps vmAlpha dtMax <= maxVolChange Rops c / (2 * Rabs (dVof Rops vmAlpha p)).
Proof. exact (dtVolume_bounds_each c ps vmAlpha dtMax p). Qed.
Print Assumptions C11_dt_volume_bounds_every_phase.

(* nucleation_sites_perm: the sites available to a phase do not depend on the order in which the
   (distinctly named) phases are listed; parent phases are resolved by name *)
Theorem C11_nucleation_sites_perm (ps ps' : list (sphase Rops)) (M : matrixSites Rops) (p : sphase Rops) :
  NoDup (map (pname Rops) ps) -> Permutation ps ps' ->
  nucSites Rops ps M p = nucSites Rops ps' M p.
Proof. exact (nucSites_perm ps ps' M p). Qed.
Print Assumptions C11_nucleation_sites_perm.

(* ---------------------------------------------------------------------------------------- *)
(* Part C [ext] - run level.  If the phases of a multi-phase model interact only through        *)
(* quantities that do not depend on the listing order (hypothesis [shared_perm]: the step size,  *)
(* nucleation sites, matrix composition are minima / sums over the phases), then a run started    *)
(* from the permuted listing yields, step by step, the permuted per-phase states and the same      *)
(* shared history (time grid).  [kwn_step l = map (upd (shared l)) l].                            *)
Close Scope R_scope.
Theorem C11_run_equivariant (St G : Type) (shared : list St -> G) (upd : G -> St -> St) :
  (forall l l', Permutation l l' -> shared l = shared l') ->
  forall n d l idx, Permutation idx (seq 0 (length l)) ->
  kwn_run St G shared upd n (reorder d l idx) = reorder d (kwn_run St G shared upd n l) idx /\
  shared (kwn_run St G shared upd n (reorder d l idx)) = shared (kwn_run St G shared upd n l).
Proof. exact (kwn_run_reorder St G shared upd). Qed.
Print Assumptions C11_run_equivariant.

(* the hypothesis is met by the step size of the model: for ANY per-phase update rule, runs whose
   phases are coupled through dt = getDt are equivariant *)
Theorem C11_run_with_getDt_equivariant (c : cons Rops) npos Tcur Tprev vmAlpha dtPrev dtMax
      (upd : R -> phase Rops -> phase Rops) n d (ps : list (phase Rops)) idx :
  Permutation idx (seq 0 (length ps)) ->
  let dt := fun l => getDt Rops c npos Tcur Tprev l vmAlpha dtPrev dtMax in
  kwn_run _ _ dt upd n (reorder d ps idx) = reorder d (kwn_run _ _ dt upd n ps) idx /\
  dt (kwn_run _ _ dt upd n (reorder d ps idx)) = dt (kwn_run _ _ dt upd n ps).
Proof. exact (run_with_getDt_equivariant c npos Tcur Tprev vmAlpha dtPrev dtMax upd n d ps idx). Qed.
Print Assumptions C11_run_with_getDt_equivariant.

(* ---------------------------------------------------------------------------------------- *)
(* Part D - diffusion profiles and per-phase inputs of the growth law                        *)
(* CompositionProfile.buildProfile: the row of the i-th element of the model's list is the result of the steps
   registered for that element ... *)
Theorem C11_build_profile_by_name {K Step Row : Type} (keq : K -> K -> bool) (apply : Step -> Row -> Row)
        (els : list K) (steps : list (K * list Step)) (z : Row) :
  buildProfile keq apply els steps (repeat z (length els)) = map (fun e => row_of keq apply steps e z) els.
Proof. exact (buildProfile_zero keq apply els steps z). Qed.
Print Assumptions C11_build_profile_by_name.

(* ... so listing the elements in another order permutes the profile rows accordingly and changes nothing else *)
Theorem C11_build_profile_equivariant {K Step Row : Type} (keq : K -> K -> bool) (apply : Step -> Row -> Row)
        (els : list K) (steps : list (K * list Step)) (z dr : Row) (de : K) (idx : list nat) :
  Forall (fun i => i < length els) idx ->
  buildProfile keq apply (reorder de els idx) steps (repeat z (length idx)) =
  reorder dr (buildProfile keq apply els steps (repeat z (length els))) idx.
Proof. exact (buildProfile_equivariant keq apply els steps z dr de idx). Qed.
Print Assumptions C11_build_profile_equivariant.

(* the Gibbs-Thomson energies looked up by a phase's own name are that phase's, on its own size classes; and what
   a phase is handed does not depend on where it is listed *)
Theorem C11_particle_gibbs_by_name {P A B : Type} (gname : P -> nat) (gbounds : P -> A) (gibbs : P -> A -> B)
        (ps : list P) (d : P) (p : nat) :
  NoDup (map gname ps) -> p < length ps ->
  particleGibbs gname gbounds gibbs ps d None (Some (gname (nth p ps d))) = gibbs (nth p ps d) (gbounds (nth p ps d)).
Proof. exact (particleGibbs_by_name gname gbounds gibbs ps d p). Qed.
Print Assumptions C11_particle_gibbs_by_name.

Theorem C11_growth_inputs_equivariant {P A B C : Type} (gname : P -> nat) (gbounds : P -> A) (gibbs : P -> A -> B)
        (gbeta : P -> C) (ps : list P) (d : P) (idx : list nat) (i : nat) :
  i < length idx ->
  growth_inputs gname gbounds gibbs gbeta (reorder d ps idx) d i =
  growth_inputs gname gbounds gibbs gbeta ps d (nth i idx 0).
Proof. exact (growth_inputs_reorder gname gbounds gibbs gbeta ps d idx i). Qed.
Print Assumptions C11_growth_inputs_equivariant.

(* a per-phase callback that binds its phase index when it is created reads its own phase, wherever the phase is listed *)
Theorem C11_callback_equivariant {P T : Type} (table : P -> T) (ps : list P) d idx i :
  i < length idx ->
  callback table Early ps d (nth i idx 0) = table (nth (nth i idx 0) ps d) /\
  callback table Early (reorder d ps idx) d i = callback table Early ps d (nth i idx 0).
Proof. exact (fun H => conj (callback_early table ps d (nth i idx 0)) (callback_early_reorder table ps d idx i H)). Qed.
Print Assumptions C11_callback_equivariant.
