(* C11 - non-vacuity examples and refutation witnesses. *)
From Coq Require Import QArith List ZArith Arith Permutation Bool.
Require Import Kawin.Common.Ops Kawin.Common.Vec Kawin.C07.Model Kawin.C11.Model Kawin.C11.Proofs.
Import ListNotations.

(* ---- Part A -------------------------------------------------------------------------------- *)
Definition NI : str := [78; 73]%Z.
Definition CR : str := [67; 82]%Z.
Definition AL : str := [65; 76]%Z.
Definition VA : str := [86; 65]%Z.

(* the order the kawin tests use, [NI; CR; AL], sorts by a self-inverse permutation: sortIndices and
   unsortIndices coincide, so exchanging them in the code cannot be seen with this order (nor with any
   order of two solutes) *)
Example test_order_self_inverse :
  sortIdx lexleb [NI; CR; AL] = [2; 1; 0] /\ unsortIdx lexleb [NI; CR; AL] = [2; 1; 0].
Proof. vm_compute. split; reflexivity. Qed.

(* [CR; NI; AL] sorts by a 3-cycle: the two index vectors differ, and only unsortIndices puts the
   alphabetical data (AL ↦ 10, CR ↦ 20, NI ↦ 30) back under the right names *)
Example three_cycle_order :
  sortIdx lexleb [CR; NI; AL] = [2; 0; 1] /\ unsortIdx lexleb [CR; NI; AL] = [1; 2; 0] /\
  wrap_full lexleb 0 [CR; NI; AL] [10; 20; 30] = [20; 30; 10] /\
  reorder 0 [10; 20; 30] (sortIdx lexleb [CR; NI; AL]) = [30; 10; 20].
Proof. vm_compute. repeat split; reflexivity. Qed.

(* hypotheses of the equivariance theorems are satisfiable by a real element list *)
Example nodup_example : NoDup [CR; NI; AL] /\ Permutation [CR; NI; AL] [NI; AL; CR].
Proof.
  split.
  - repeat constructor; simpl; intros H; repeat (destruct H as [H|H]; try discriminate); auto.
  - apply Permutation_sym. transitivity ([NI] ++ [AL; CR]); [reflexivity|].
    transitivity ([AL; CR] ++ [NI]); [apply Permutation_app_comm|]. simpl.
    transitivity ([AL] ++ [CR; NI]); [reflexivity|]. transitivity ([CR; NI] ++ [AL]); [apply Permutation_app_comm|].
    reflexivity.
Qed.

(* the curvature idiom on a ternary: reference CR is at alphabetical position 1 *)
Example solutes_example :
  wrap_solutes lexleb 0 [CR; NI; AL] [10; 20; 30] = [30; 10] /\
  wrap_matrix lexleb 0 [NI; AL] [[11; 12]; [21; 22]] = [[22; 21]; [12; 11]] /\
  sort_input lexleb 0 [NI; AL] [7; 8] = [8; 7].
Proof. vm_compute. repeat split; reflexivity. Qed.

(* ---- Part B, executable instance ------------------------------------------------------------------ *)
Open Scope Q_scope.
Definition exCons : cons Qops :=
  mkCons Qops false true true true true 1 (1#4) (1#2) (1#131072) 1 (1#1024) (2#5).
(* a phase whose populated class grows (estimated volume change 16) and an idle phase *)
Definition growing : phase Qops := mkPhase Qops [1; 3] [2] [4] [1; 1] 0 0 0 1 0 0 (-1) 0 2 1 1.
Definition idle : phase Qops := mkPhase Qops [1; 3] [2] [0] [0; 0] 0 0 0 1 0 0 (-1) 0 2 1 1.

Example volume_change_example : dVof Qops 2 growing = 16 /\ dVof Qops 2 idle = 0.
Proof. vm_compute. split; reflexivity. Qed.

(* repaired rule: 1/(2*16) whichever phase is listed last, and it is the binding rule of getDt *)
Example dt_volume_both_orders :
  dtVolume Qops exCons [growing; idle] 2 1024 = 1#32 /\ dtVolume Qops exCons [idle; growing] 2 1024 = 1#32 /\
  getDt Qops exCons true 700 700 [growing; idle] 2 1 1024 = 1#32 /\
  getDt Qops exCons true 700 700 [idle; growing] 2 1 1024 = 1#32.
Proof. vm_compute. repeat split; reflexivity. Qed.

(* dt_volume_perm_refuted: the rule of the unrepaired tree looks at the last listed phase only *)
Example dt_volume_prefix_refuted :
  exists ps ps', Permutation ps ps' /\
    dtVolume_prefix Qops exCons ps 2 1024 = 1024 /\ dtVolume_prefix Qops exCons ps' 2 1024 = 1#32.
Proof.
  exists [growing; idle], [idle; growing]. split; [apply perm_swap|].
  vm_compute. split; reflexivity.
Qed.

(* nucleation sites: two phases competing for bulk sites (dislocation sites are counted as bulk by the
   isinstance chain), the second nucleating on the first *)
Definition exM : matrixSites Qops := mkM Qops 1000 500 300 200 100 2 4 12.
Definition sA : sphase Qops := mkS Qops 0 Bulk 10 20 30 3 0 1 [].
Definition sB : sphase Qops := mkS Qops 1 Disl 5 6 7 2 0 1 [0%nat].
Example sites_example :
  nucSites Qops [sA; sB] exM sA = 985 /\ nucSites Qops [sB; sA] exM sA = 985 /\
  nucSites Qops [sA; sB] exM sB = 985 + 12 * 30 * 3 /\ nucSites Qops [sB; sA] exM sB = 985 + 12 * 30 * 3.
Proof. vm_compute. repeat split; reflexivity. Qed.

(* ---- Part D ---------------------------------------------------------------------------------------- *)
(* rows are lists of numbers, a step overwrites the row; CR registered after AL.  The code's loop puts each
   element's steps in that element's row for both element orders; a loop over the dictionary (row index = position
   of the element in the dictionary) swaps them for the order [CR; AL] *)
Close Scope Q_scope.
Definition exSteps : list (nat * list (list nat)) := [(2, [[7; 7]]); (1, [[5; 5]; [6; 6]])]%nat.   (* AL = 2, CR = 1 *)
Example build_profile_example :
  buildProfile Nat.eqb (fun s _ => s) [1; 2]%nat exSteps [[0; 0]; [0; 0]]%nat = [[6; 6]; [7; 7]]%nat /\
  buildProfile Nat.eqb (fun s _ => s) [2; 1]%nat exSteps [[0; 0]; [0; 0]]%nat = [[7; 7]; [6; 6]]%nat.
Proof. vm_compute. split; reflexivity. Qed.
Example build_profile_dictorder_refuted :
  buildProfile_dictorder Nat.eqb (fun s _ => s) [1; 2]%nat exSteps [[0; 0]; [0; 0]]%nat = [[7; 7]; [6; 6]]%nat.
Proof. vm_compute. reflexivity. Qed.

(* particleGibbs without a phase is the FIRST phase's: phases (name, bounds, gamma), gibbs = gamma * bounds *)
Example particle_gibbs_default_is_first_phase :
  let ps := [(10, 3, 2); (11, 5, 7)]%nat in
  let gname := fun q : nat * nat * nat => fst (fst q) in
  let gb := fun q : nat * nat * nat => snd (fst q) in
  let gibbs := fun (q : nat * nat * nat) r => (snd q * r)%nat in
  particleGibbs gname gb gibbs ps (0, 0, 0)%nat None (Some 11%nat) = 35%nat /\
  particleGibbs gname gb gibbs ps (0, 0, 0)%nat (Some 5%nat) None = 10%nat.
Proof. vm_compute. split; reflexivity. Qed.

(* a late-bound callback reads the LAST listed phase: refuted for the first of two phases *)
Example callback_late_refuted :
  callback (fun q : nat => q) Late [10; 20]%nat 0%nat 0 = 20%nat /\ callback (fun q : nat => q) Early [10; 20]%nat 0%nat 0 = 10%nat.
Proof. vm_compute. split; reflexivity. Qed.
