(* C04 - non-vacuity examples and refutation witnesses. *)
From Coq Require Import Reals QArith List ZArith Lra Lia.
Require Import Kawin.Common.Ops Kawin.Common.Vec Kawin.Common.VecLemmas Kawin.C04.Model Kawin.C04.Proofs.
Import ListNotations.

(* ---- the hypotheses of the run theorems are satisfiable by a non-trivial state (real instance) ---- *)
Open Scope R_scope.
Definition exF : oracle Rops := fun _ => [[1; -2]].           (* constant interior fluxes, 3 nodes *)
Definition exBC : list (bc Rops) := [mkbc Rops FluxBC 0 FluxBC 0].
Definition exX : list (list R) := [[1/4; 1/2; 1/4]].

Example ex_shape : shape 1 3 exX /\ flux_ok 1 3 exF /\ steps_ok 1 3 [Euler Rops exF (1/100); RK4 Rops exF exF exF exF (1/100)].
Proof.
  assert (HF : flux_ok 1 3 exF).
  { intros y _. split; [reflexivity|]. intros e He. assert (e = 0)%nat as -> by lia. reflexivity. }
  split; [|split; [exact HF|]].
  - split; [reflexivity|]. intros e He. assert (e = 0)%nat as -> by lia. reflexivity.
  - constructor; [exact HF|]. constructor; [exact (conj HF (conj HF (conj HF HF))) | constructor].
Qed.

(* closed boundaries, interior fluxes non-zero: the profile changes, its sum does not *)
Example ex_euler_step :
  euler_pre Rops exBC 1 exF (1/100) exX = [[1/4 + (0 - (1 - 0))/1 * (1/100); 1/2 + (0 - (-2 - 1))/1 * (1/100); 1/4 + (0 - (0 - -2))/1 * (1/100)]].
Proof. reflexivity. Qed.

Example ex_noclip : noclip exBC 1 (1/100) [Euler Rops exF (1/100)] exX.
Proof.
  cbn [noclip]. split; [|exact I].
  change (inrange (1/100) (euler_pre Rops exBC 1 exF (1/100) exX)). rewrite ex_euler_step.
  unfold inrange, within. repeat constructor; lra.
Qed.

Example ex_closed_sum :
  sumR (nth 0 (run Rops exBC 1 (1/100) [Euler Rops exF (1/100)] exX) []) = 1.
Proof.
  destruct ex_shape as (Hx & HF & Hs).
  transitivity (sumR (nth 0 exX [])).
  - apply (run_closed exBC 1 (1/100) 1 3);
      [lia | reflexivity | exact Hx | constructor; [exact HF|constructor] | lia | exact ex_noclip | reflexivity].
  - cbn. lra.
Qed.

(* ---- the unrepaired setup drifts: two solve calls with no steps differ from one ---------------------- *)
(* (kawin before fixes/C04-setup-once.patch: shift and clamp ran on every solve call) *)
Example unrepaired_multi_solve_drift_refuted :
  exists bcs dz nAll minc (s : mstate Rops),
    solve_call_unrepaired Rops bcs dz nAll minc [] (solve_call_unrepaired Rops bcs dz nAll minc [] s)
      <> solve_call_unrepaired Rops bcs dz nAll minc [] s.
Proof.
  exists exBC, 1, 2%Z, (1/100), (mkst Rops false [[1/2; 1/2]]).
  unfold solve_call_unrepaired, setup_unrepaired. cbn [isSetup xs run init_bc zipWith exBC init_bc_row ltype rtype setup_shift map].
  assert (E1 : shift1 Rops 2 (1/100) (1/2) = 1/2 - 2 * (1/100)) by (apply shift1_value; [lra | lra | lia]).
  rewrite E1.
  assert (E2 : shift1 Rops 2 (1/100) (1/2 - 2 * (1/100)) = 1/2 - 2 * (1/100) - 2 * (1/100)) by (apply shift1_value; [lra | lra | lia]).
  rewrite E2. intros H. injection H as H. lra.
Qed.

(* the repaired setup does not *)
Example repaired_two_calls_equal :
  solve_call Rops exBC 1 2 (1/100) [] (solve_call Rops exBC 1 2 (1/100) [] (mkst Rops false [[1/2; 1/2]]))
    = solve_call Rops exBC 1 2 (1/100) [] (mkst Rops false [[1/2; 1/2]]).
Proof. rewrite solve_two_calls. reflexivity. Qed.
Close Scope R_scope.

(* ---- executable instance: the same model on exact rationals ------------------------------------------- *)
Open Scope Q_scope.
Definition qF (v : list (list Q)) : oracle Qops := fun _ => v.
Definition qBCclosed : list (bc Qops) := [mkbc Qops FluxBC 0 FluxBC 0].
Definition qBCmixed : list (bc Qops) := [mkbc Qops CompBC (1#2) FluxBC (3#1)].
Definition qX : list (list Q) := [[1#4; 1#2; 1#4; 1#8]].

Example q_faces : fluxes_of Qops qBCmixed [[5; 7; 9]] = [[5; 5; 7; 9; 3]].
Proof. vm_compute. reflexivity. Qed.
Example q_dXdt : getdXdt Qops qBCmixed 2 [[5; 7; 9]] = [[0; -1; -1; 3]].
Proof. vm_compute. reflexivity. Qed.
(* closed boundaries: Euler and RK4 keep the sum (here 9/8) exactly *)
Example q_euler_sum : sumT Qops (nth 0 (euler_pre Qops qBCclosed (1#10) (qF [[1#100; -1#50; 1#25]]) (1#3) qX) []) = 9#8.
Proof. vm_compute. reflexivity. Qed.
Example q_rk4_sum :
  sumT Qops (nth 0 (rk4_pre Qops qBCclosed (1#10) (qF [[1#100; -1#50; 1#25]]) (qF [[1#90; -1#40; 1#20]])
                                 (qF [[1#80; -1#30; 1#15]]) (qF [[1#70; -1#20; 1#10]]) (1#3) qX) []) = 9#8.
Proof. vm_compute. reflexivity. Qed.
(* composition condition on the left: node 0 keeps its value through an RK4 step *)
Example q_rk4_dirichlet :
  nth 0 (nth 0 (rk4_pre Qops qBCmixed (1#10) (qF [[1#100; -1#50; 1#25]]) (qF [[1#90; -1#40; 1#20]])
                                 (qF [[1#80; -1#30; 1#15]]) (qF [[1#70; -1#20; 1#10]]) (1#3) qX) []) 0 = 1#4.
Proof. vm_compute. reflexivity. Qed.
(* setup: shift by len(allElements)*min, clamp to min; applied once *)
Example q_setup :
  xs Qops (setup Qops qBCmixed 2 (1#100) (mkst Qops false [[0; 1#200; 1#2; 1]])) = [[12#25; 1#100; 12#25; 49#50]]
  /\ setup Qops qBCmixed 2 (1#100) (setup Qops qBCmixed 2 (1#100) (mkst Qops false [[0; 1#200; 1#2; 1]]))
     = setup Qops qBCmixed 2 (1#100) (mkst Qops false [[0; 1#200; 1#2; 1]]).
Proof. vm_compute. split; reflexivity. Qed.
Example q_unrepaired_drift :
  xs Qops (setup_unrepaired Qops qBCclosed 2 (1#100) (setup_unrepaired Qops qBCclosed 2 (1#100) (mkst Qops false [[1#2]]))) = [[23#50]]
  /\ xs Qops (setup_unrepaired Qops qBCclosed 2 (1#100) (mkst Qops false [[1#2]])) = [[12#25]].
Proof. vm_compute. split; reflexivity. Qed.
(* volume-fixed frame: three substitutional elements, the frame fluxes cancel face by face *)
Example q_vframe :
  let F := [[3; -1]; [2; 5]; [-4; 1]] in
  let U := [[1#2; 1#4]; [1#4; 1#4]; [1#4; 1#2]] in
  colsum Qops 2 (pick [true; true; true] (vframe_all Qops 2 [true; true; true] F U)) = [0; 0].
Proof. vm_compute. reflexivity. Qed.
(* with an interstitial (mask false) the interstitial flux is not part of the frame correction sum *)
Example q_vframe_interstitial :
  let F := [[3; -1]; [2; 5]; [-4; 1]] in
  let U := [[1#2; 1#4]; [1#2; 3#4]; [1#4; 1#2]] in
  colsum Qops 2 (pick [true; true; false] (vframe_all Qops 2 [true; true; false] F U)) = [0; 0].
Proof. vm_compute. reflexivity. Qed.
(* boundary condition edited between two solve calls: call 1 holds the left node (composition condition),
   call 2 has closed boundaries - the node is released and the mesh sum of call 2 is constant;
   the minimum is raised before call 2 and the result of call 2 respects the new limits *)
Example q_calls_bc_switch :
  let held := [mkbc Qops CompBC (1#4) FluxBC 0] in
  let c1 := mkcall Qops held (1#100) [Euler Qops (qF [[1#100; -1#50; 1#25]]) (1#30)] in
  let c2 := mkcall Qops qBCclosed (1#100) [Euler Qops (qF [[1#100; -1#50; 1#25]]) (1#30)] in
  let c3 := mkcall Qops qBCclosed (1#4) [Euler Qops (qF [[1#100; -1#50; 1#25]]) (1#30)] in
  let x1 := run_calls Qops (1#10) [c1] qX in
  let x2 := run_calls Qops (1#10) [c1; c2] qX in
  let x3 := run_calls Qops (1#10) [c1; c3] qX in
  nth 0 (nth 0 x1 []) 0 = 1#4 /\ negb (Qeq_bool (nth 0 (nth 0 x2 []) 0) (1#4)) = true /\
  sumT Qops (nth 0 x2 []) = sumT Qops (nth 0 x1 [])
  /\ forallb (fun v => Qle_bool (1#4) v && Qle_bool v (3#4)) (nth 0 x3 []) = true
  /\ forallb (fun v => Qle_bool (1#4) v) (nth 0 x1 []) = false.
Proof. vm_compute. repeat split; reflexivity. Qed.
(* the order of the two masked assignments of setup matters: clamping to the minimum BEFORE the shift leaves a
   trace composition in (min, (len(allElements)+1)*min) below the minimum (here negative); the order the code
   uses (shift, then clamp - [shift1]) does not (C04_setup_in_bounds) *)
Definition clamp_then_shift (nAll : Z) (minc v : Q) : Q :=
  let v1 := if ltb Qops v minc then minc else v in
  if ltb Qops minc v1 then sub Qops v1 (mul Qops (ofZ Qops nAll) minc) else v1.
Example q_clamp_then_shift_refuted :
  Qlt (clamp_then_shift 2 (1#100) (3#200)) 0 /\ shift1 Qops 2 (1#100) (3#200) = 1#100
  /\ map (shift1 Qops 2 (1#100)) [0; 1#200; 1#100; 3#200; 1#50; 1#40; 3#100; 7#200; 1#2; 1]
     = [1#100; 1#100; 1#100; 1#100; 1#100; 1#100; 1#100; 3#200; 12#25; 49#50].
Proof. vm_compute. repeat split; reflexivity. Qed.
