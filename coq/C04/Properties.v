(* C04 - Diffusion conserves every component and honours boundary conditions.
   This file contains ONLY the property theorems; each is closed by [exact] of a lemma of Proofs.v and
   followed by Print Assumptions.  All statements are about the real-number instance [Rops] of the
   model in Model.v (kawin/diffusion/{Diffusion,DiffusionParameters,SinglePhase,Homogenization}.py).
   Interior face fluxes are arbitrary oracles [F : profile -> fluxes] (one per Runge-Kutta stage), so
   every statement holds for every diffusivity, mobility, homogenisation rule, temperature field and
   stage time.  [ne] = number of independent elements, [n] = number of nodes (n >= 2, the constructor
   needs two nodes for dz), [dz] is only divided by (x / 0 = 0 would make both sides 0). *)
From Coq Require Import Reals List ZArith Arith.
Require Import Kawin.Common.Ops Kawin.Common.Vec Kawin.Common.VecLemmas Kawin.C04.Model Kawin.C04.Proofs.
Import ListNotations.
Open Scope R_scope.

(* ---- getdXdt ------------------------------------------------------------------------------------------- *)
(* the rates of one element sum to (first face flux - last face flux)/dz, for every flux array *)
Theorem C04_telescoping dz (J : list R) : J <> [] ->
  sumR (dXdt_row Rops dz J) = (hd 0 J - last J 0) / dz.
Proof. exact (telescoping dz J). Qed.
Print Assumptions C04_telescoping.

(* applyBoundaryConditionsToFluxes: a flux condition installs its value on the end face, a composition
   condition copies the neighbouring interior face; interior faces are untouched *)
Theorem C04_boundary_faces b (Jint : list R) : (1 <= length Jint)%nat ->
  applyBC_row Rops b (faces_of Rops Jint) = JL b Jint :: Jint ++ [JR b Jint].
Proof. exact (applyBC_faces b Jint). Qed.
Print Assumptions C04_boundary_faces.

Theorem C04_dXdt_sum bcs dz (Jint : list (list R)) ne n e : (2 <= n)%nat -> length bcs = ne ->
  shape ne (n - 1) Jint -> (e < ne)%nat ->
  sumR (rowOf (getdXdt Rops bcs dz Jint) e)
    = (JL (bcOf bcs e) (rowOf Jint e) - JR (bcOf bcs e) (rowOf Jint e)) / dz.
Proof. exact (getdXdt_sum bcs dz Jint ne n e). Qed.
Print Assumptions C04_dXdt_sum.

Theorem C04_dXdt_interior dz b (Jint : list R) k : (1 <= k)%nat -> (k < length Jint)%nat ->
  nthR (dXdt_row Rops dz (applyBC_row Rops b (faces_of Rops Jint))) k = (nthR Jint (k - 1) - nthR Jint k) / dz.
Proof. exact (dXdt_row_interior dz b Jint k). Qed.
Print Assumptions C04_dXdt_interior.

(* ---- one step ------------------------------------------------------------------------------------------- *)
Theorem C04_step_balance_euler bcs dz F dt (x : list (list R)) ne n e : (2 <= n)%nat -> length bcs = ne ->
  shape ne n x -> flux_ok ne n F -> (e < ne)%nat ->
  sumR (rowOf (euler_pre Rops bcs dz F dt x) e)
    = sumR (rowOf x e) + dt * (JL (bcOf bcs e) (rowOf (F x) e) - JR (bcOf bcs e) (rowOf (F x) e)) / dz.
Proof. exact (euler_balance bcs dz F dt x ne n e). Qed.
Print Assumptions C04_step_balance_euler.

Theorem C04_step_balance_rk4 bcs dz dt F1 F2 F3 F4 (x : list (list R)) ne n : (2 <= n)%nat -> length bcs = ne ->
  shape ne n x -> flux_ok ne n F1 -> flux_ok ne n F2 -> flux_ok ne n F3 -> flux_ok ne n F4 -> forall e, (e < ne)%nat ->
  sumR (rowOf (rk4_pre Rops bcs dz F1 F2 F3 F4 dt x) e)
    = sumR (rowOf x e) + dt * (JLbar bcs dz dt F1 F2 F3 F4 x e - JRbar bcs dz dt F1 F2 F3 F4 x e) / dz.
Proof. exact (rk4_balance bcs dz dt F1 F2 F3 F4 x ne n). Qed.
Print Assumptions C04_step_balance_rk4.

(* prescribed fluxes on both sides: the stage-weighted end fluxes ARE the prescribed values *)
Theorem C04_step_prescribed_fluxes bcs dz s (x : list (list R)) e :
  ltype Rops (bcOf bcs e) = FluxBC -> rtype Rops (bcOf bcs e) = FluxBC ->
  step_JL bcs dz s x e = lval Rops (bcOf bcs e) /\ step_JR bcs dz s x e = rval Rops (bcOf bcs e).
Proof. exact (step_flux_bc bcs dz s x e). Qed.
Print Assumptions C04_step_prescribed_fluxes.

(* a complete step (iterator + postProcess): exact balance including what the clip adds *)
Theorem C04_step_balance bcs dz minc ne n : (2 <= n)%nat -> length bcs = ne -> forall s (x : list (list R)) e,
  shape ne n x -> step_ok ne n s -> (e < ne)%nat ->
  sumR (rowOf (step Rops bcs dz minc s x) e)
    = sumR (rowOf x e) + step_dt s * (step_JL bcs dz s x e - step_JR bcs dz s x e) / dz
      + clip_gain minc (rowOf (pre_step Rops bcs dz s x) e).
Proof. exact (step_balance bcs dz minc ne n). Qed.
Print Assumptions C04_step_balance.

Theorem C04_step_balance_noclip bcs dz minc ne n : (2 <= n)%nat -> length bcs = ne -> forall s (x : list (list R)) e,
  shape ne n x -> step_ok ne n s -> (e < ne)%nat -> inrange minc (pre_step Rops bcs dz s x) ->
  sumR (rowOf (step Rops bcs dz minc s x) e)
    = sumR (rowOf x e) + step_dt s * (step_JL bcs dz s x e - step_JR bcs dz s x e) / dz.
Proof. exact (step_balance_noclip bcs dz minc ne n). Qed.
Print Assumptions C04_step_balance_noclip.

(* ---- the clip -------------------------------------------------------------------------------------------- *)
(* after postProcess every entry lies in [min, 1 - min] *)
Theorem C04_bounds minc (x : list (list R)) : minc <= 1 - minc -> inrange minc (postProcess Rops minc x).
Proof. exact (postProcess_bounds minc x). Qed.
Print Assumptions C04_bounds.

(* the clip changes exactly the entries outside the interval, and moves them onto its nearest end *)
Theorem C04_clip_changes_only_outside lo hi v : lo <= hi ->
  (v < lo /\ clipT Rops lo hi v = lo) \/ (hi < v /\ clipT Rops lo hi v = hi) \/ (lo <= v <= hi /\ clipT Rops lo hi v = v).
Proof. exact (clip_cases lo hi v). Qed.
Print Assumptions C04_clip_changes_only_outside.

Theorem C04_clip_inactive_iff minc (x : list (list R)) : minc <= 1 - minc ->
  (postProcess Rops minc x = x <-> inrange minc x).
Proof. exact (clip_inactive_iff minc x). Qed.
Print Assumptions C04_clip_inactive_iff.

(* ---- any number of steps ----------------------------------------------------------------------------------- *)
Theorem C04_run_balance bcs dz minc ne n : (2 <= n)%nat -> length bcs = ne -> forall steps (x : list (list R)) e,
  shape ne n x -> steps_ok ne n steps -> (e < ne)%nat ->
  sumR (rowOf (run Rops bcs dz minc steps x) e)
    = sumR (rowOf x e) + btotal bcs dz minc e steps x + ctotal bcs dz minc e steps x.
Proof. exact (run_balance bcs dz minc ne n). Qed.
Print Assumptions C04_run_balance.

Theorem C04_run_balance_noclip bcs dz minc ne n : (2 <= n)%nat -> length bcs = ne -> forall steps (x : list (list R)) e,
  shape ne n x -> steps_ok ne n steps -> (e < ne)%nat -> noclip bcs dz minc steps x ->
  sumR (rowOf (run Rops bcs dz minc steps x) e) = sumR (rowOf x e) + btotal bcs dz minc e steps x.
Proof. exact (run_balance_noclip bcs dz minc ne n). Qed.
Print Assumptions C04_run_balance_noclip.

(* prescribed fluxes a (left) and b (right): the mesh sum moves by elapsed time * (a - b) / dz *)
Theorem C04_run_prescribed_fluxes bcs dz minc ne n : (2 <= n)%nat -> length bcs = ne -> forall steps (x : list (list R)) e,
  shape ne n x -> steps_ok ne n steps -> (e < ne)%nat -> noclip bcs dz minc steps x ->
  ltype Rops (bcOf bcs e) = FluxBC -> rtype Rops (bcOf bcs e) = FluxBC ->
  sumR (rowOf (run Rops bcs dz minc steps x) e)
    = sumR (rowOf x e) + total_time steps * (lval Rops (bcOf bcs e) - rval Rops (bcOf bcs e)) / dz.
Proof. exact (run_flux_bc bcs dz minc ne n). Qed.
Print Assumptions C04_run_prescribed_fluxes.

(* default closed boundaries: constant *)
Theorem C04_closed_boundaries_constant bcs dz minc ne n : (2 <= n)%nat -> length bcs = ne -> forall steps (x : list (list R)) e,
  shape ne n x -> steps_ok ne n steps -> (e < ne)%nat -> noclip bcs dz minc steps x -> bcOf bcs e = bc0 ->
  sumR (rowOf (run Rops bcs dz minc steps x) e) = sumR (rowOf x e).
Proof. exact (run_closed bcs dz minc ne n). Qed.
Print Assumptions C04_closed_boundaries_constant.

Theorem C04_run_bounds bcs dz minc steps (x : list (list R)) : minc <= 1 - minc -> inrange minc x ->
  inrange minc (run Rops bcs dz minc steps x).
Proof. exact (run_inrange bcs dz minc steps x). Qed.
Print Assumptions C04_run_bounds.

(* ---- fixed-composition nodes ----------------------------------------------------------------------------------- *)
Theorem C04_dirichlet_rate_zero_left bcs dz (J : list (list R)) ne n e : (2 <= n)%nat -> length bcs = ne ->
  shape ne (n - 1) J -> (e < ne)%nat -> ltype Rops (bcOf bcs e) = CompBC ->
  nthR (rowOf (getdXdt Rops bcs dz J) e) 0 = 0.
Proof. exact (getdXdt_left_zero bcs dz J ne n e). Qed.
Print Assumptions C04_dirichlet_rate_zero_left.

Theorem C04_dirichlet_rate_zero_right bcs dz (J : list (list R)) ne n e : (2 <= n)%nat -> length bcs = ne ->
  shape ne (n - 1) J -> (e < ne)%nat -> rtype Rops (bcOf bcs e) = CompBC ->
  nthR (rowOf (getdXdt Rops bcs dz J) e) (n - 1) = 0.
Proof. exact (getdXdt_right_zero bcs dz J ne n e). Qed.
Print Assumptions C04_dirichlet_rate_zero_right.

(* the node keeps its value over any number of Euler / RK4 steps, clip included *)
Theorem C04_dirichlet_node_fixed_left bcs dz minc ne n : (2 <= n)%nat -> length bcs = ne -> forall steps (x : list (list R)) e,
  shape ne n x -> steps_ok ne n steps -> (e < ne)%nat ->
  ltype Rops (bcOf bcs e) = CompBC -> within minc (nthR (rowOf x e) 0) ->
  nthR (rowOf (run Rops bcs dz minc steps x) e) 0 = nthR (rowOf x e) 0.
Proof. exact (run_dirichlet_left bcs dz minc ne n). Qed.
Print Assumptions C04_dirichlet_node_fixed_left.

Theorem C04_dirichlet_node_fixed_right bcs dz minc ne n : (2 <= n)%nat -> length bcs = ne -> forall steps (x : list (list R)) e,
  shape ne n x -> steps_ok ne n steps -> (e < ne)%nat ->
  rtype Rops (bcOf bcs e) = CompBC -> within minc (nthR (rowOf x e) (n - 1)) ->
  nthR (rowOf (run Rops bcs dz minc steps x) e) (n - 1) = nthR (rowOf x e) (n - 1).
Proof. exact (run_dirichlet_right bcs dz minc ne n). Qed.
Print Assumptions C04_dirichlet_node_fixed_right.

(* setup installs the prescribed composition at the end node ... *)
Theorem C04_initial_boundary_values b (row : list R) : (2 <= length row)%nat ->
  (ltype Rops b = CompBC -> nthR (init_bc_row Rops b row) 0 = lval Rops b) /\
  (rtype Rops b = CompBC -> nthR (init_bc_row Rops b row) (length row - 1) = rval Rops b).
Proof. exact (initial_boundary_values b row). Qed.
Print Assumptions C04_initial_boundary_values.

(* ... and then lowers it by the documented len(allElements)*min (entries clear of the threshold) *)
Theorem C04_setup_shift_value nAll minc v : 0 <= minc -> (IZR nAll + 1) * minc <= v -> (1 <= nAll)%Z ->
  shift1 Rops nAll minc v = v - IZR nAll * minc.
Proof. exact (shift1_value nAll minc v). Qed.
Print Assumptions C04_setup_shift_value.

(* ---- setup and consecutive solve calls ----------------------------------------------------------------------------- *)
Theorem C04_setup_in_bounds nAll minc (x : list (list R)) : 0 <= minc <= 1 / 2 -> (1 <= nAll)%Z ->
  Forall (Forall (fun v => v <= 1)) x -> inrange minc (setup_shift Rops nAll minc x).
Proof. exact (setup_shift_inrange nAll minc x). Qed.
Print Assumptions C04_setup_in_bounds.

Theorem C04_setup_idempotent bcs nAll minc (s : mstate Rops) :
  setup Rops bcs nAll minc (setup Rops bcs nAll minc s) = setup Rops bcs nAll minc s.
Proof. exact (setup_idempotent bcs nAll minc s). Qed.
Print Assumptions C04_setup_idempotent.

(* any number of consecutive solve calls = ONE call over the concatenated steps: no per-call effect *)
Theorem C04_multi_solve_no_drift bcs dz nAll minc c cs (s : mstate Rops) :
  solve_calls Rops bcs dz nAll minc (c :: cs) s = solve_call Rops bcs dz nAll minc (concat (c :: cs)) s.
Proof. exact (solve_calls_concat bcs dz nAll minc c cs s). Qed.
Print Assumptions C04_multi_solve_no_drift.

Theorem C04_multi_solve_closed bcs dz minc nAll ne n : (2 <= n)%nat -> length bcs = ne -> forall c cs (s : mstate Rops) e,
  let x0 := xs Rops (setup Rops bcs nAll minc s) in
  let steps := concat (c :: cs) in
  shape ne n x0 -> steps_ok ne n steps -> (e < ne)%nat -> noclip bcs dz minc steps x0 -> bcOf bcs e = bc0 ->
  sumR (rowOf (xs Rops (solve_calls Rops bcs dz nAll minc (c :: cs) s)) e) = sumR (rowOf x0 e).
Proof. exact (solve_calls_closed bcs dz minc nAll ne n). Qed.
Print Assumptions C04_multi_solve_closed.

Theorem C04_multi_solve_prescribed bcs dz minc nAll ne n : (2 <= n)%nat -> length bcs = ne -> forall c cs (s : mstate Rops) e,
  let x0 := xs Rops (setup Rops bcs nAll minc s) in
  let steps := concat (c :: cs) in
  shape ne n x0 -> steps_ok ne n steps -> (e < ne)%nat -> noclip bcs dz minc steps x0 ->
  ltype Rops (bcOf bcs e) = FluxBC -> rtype Rops (bcOf bcs e) = FluxBC ->
  sumR (rowOf (xs Rops (solve_calls Rops bcs dz nAll minc (c :: cs) s)) e)
    = sumR (rowOf x0 e) + total_time steps * (lval Rops (bcOf bcs e) - rval Rops (bcOf bcs e)) / dz.
Proof. exact (solve_calls_prescribed bcs dz minc nAll ne n). Qed.
Print Assumptions C04_multi_solve_prescribed.

Theorem C04_multi_solve_dirichlet_left bcs dz minc nAll ne n : (2 <= n)%nat -> length bcs = ne -> forall c cs (s : mstate Rops) e,
  let x0 := xs Rops (setup Rops bcs nAll minc s) in
  let steps := concat (c :: cs) in
  shape ne n x0 -> steps_ok ne n steps -> (e < ne)%nat ->
  ltype Rops (bcOf bcs e) = CompBC -> within minc (nthR (rowOf x0 e) 0) ->
  nthR (rowOf (xs Rops (solve_calls Rops bcs dz nAll minc (c :: cs) s)) e) 0 = nthR (rowOf x0 e) 0.
Proof. exact (solve_calls_dirichlet_left bcs dz minc nAll ne n). Qed.
Print Assumptions C04_multi_solve_dirichlet_left.

Theorem C04_multi_solve_dirichlet_right bcs dz minc nAll ne n : (2 <= n)%nat -> length bcs = ne -> forall c cs (s : mstate Rops) e,
  let x0 := xs Rops (setup Rops bcs nAll minc s) in
  let steps := concat (c :: cs) in
  shape ne n x0 -> steps_ok ne n steps -> (e < ne)%nat ->
  rtype Rops (bcOf bcs e) = CompBC -> within minc (nthR (rowOf x0 e) (n - 1)) ->
  nthR (rowOf (xs Rops (solve_calls Rops bcs dz nAll minc (c :: cs) s)) e) (n - 1) = nthR (rowOf x0 e) (n - 1).
Proof. exact (solve_calls_dirichlet_right bcs dz minc nAll ne n). Qed.
Print Assumptions C04_multi_solve_dirichlet_right.

(* ---- solve calls with boundary conditions / constraints edited in between --------------------------------------------------- *)
(* every call has its own boundary-condition table and clip limits ([callenv]); the mesh sum moves by the
   boundary terms of each call, computed with the conditions in force during that call, plus the clip terms *)
Theorem C04_calls_balance dz ne n : (2 <= n)%nat -> forall cs (x : list (list R)) e,
  shape ne n x -> calls_ok ne n cs -> (e < ne)%nat ->
  sumR (rowOf (run_calls Rops dz cs x) e) = sumR (rowOf x e) + calls_btotal dz e cs x + calls_ctotal dz e cs x.
Proof. exact (run_calls_balance dz ne n). Qed.
Print Assumptions C04_calls_balance.

Theorem C04_calls_prescribed_fluxes dz ne n : (2 <= n)%nat -> forall cs (x : list (list R)) e,
  shape ne n x -> calls_ok ne n cs -> (e < ne)%nat -> calls_noclip dz cs x -> calls_prescribed_bc e cs ->
  sumR (rowOf (run_calls Rops dz cs x) e) = sumR (rowOf x e) + calls_flux_total dz e cs.
Proof. exact (run_calls_prescribed dz ne n). Qed.
Print Assumptions C04_calls_prescribed_fluxes.

Theorem C04_calls_closed_constant dz ne n : (2 <= n)%nat -> forall cs (x : list (list R)) e,
  shape ne n x -> calls_ok ne n cs -> (e < ne)%nat -> calls_noclip dz cs x ->
  Forall (fun c => bcOf (c_bcs Rops c) e = bc0) cs ->
  sumR (rowOf (run_calls Rops dz cs x) e) = sumR (rowOf x e).
Proof. exact (run_calls_closed dz ne n). Qed.
Print Assumptions C04_calls_closed_constant.

Theorem C04_calls_dirichlet_left dz ne n : (2 <= n)%nat -> forall cs (x : list (list R)) e,
  shape ne n x -> calls_ok ne n cs -> (e < ne)%nat ->
  Forall (fun c => ltype Rops (bcOf (c_bcs Rops c) e) = CompBC /\ within (c_minc Rops c) (nthR (rowOf x e) 0)) cs ->
  nthR (rowOf (run_calls Rops dz cs x) e) 0 = nthR (rowOf x e) 0.
Proof. exact (run_calls_dirichlet_left dz ne n). Qed.
Print Assumptions C04_calls_dirichlet_left.

Theorem C04_calls_dirichlet_right dz ne n : (2 <= n)%nat -> forall cs (x : list (list R)) e,
  shape ne n x -> calls_ok ne n cs -> (e < ne)%nat ->
  Forall (fun c => rtype Rops (bcOf (c_bcs Rops c) e) = CompBC /\ within (c_minc Rops c) (nthR (rowOf x e) (n - 1))) cs ->
  nthR (rowOf (run_calls Rops dz cs x) e) (n - 1) = nthR (rowOf x e) (n - 1).
Proof. exact (run_calls_dirichlet_right dz ne n). Qed.
Print Assumptions C04_calls_dirichlet_right.

(* after a call that made at least one step, every entry lies within the limits in force during that call *)
Theorem C04_call_bounds dz (c : callenv Rops) (x : list (list R)) :
  c_minc Rops c <= 1 - c_minc Rops c -> c_steps Rops c <> [] -> inrange (c_minc Rops c) (run_call Rops dz c x).
Proof. exact (run_call_bounds dz c x). Qed.
Print Assumptions C04_call_bounds.

(* ---- volume-fixed frame of the homogenization model --------------------------------------------------------------------- *)
Theorem C04_volume_fixed_frame n mask (F U : list (list R)) i :
  length F = length U -> rows_len n F -> rows_len n U -> (i < n)%nat ->
  nthR (colsum Rops n (pick mask U)) i = 1 ->
  nthR (colsum Rops n (pick mask (vframe_all Rops n mask F U))) i = 0.
Proof. exact (volume_fixed_frame n mask F U i). Qed.
Print Assumptions C04_volume_fixed_frame.

Theorem C04_u_fractions_sum_to_one n mask (xf : list (list R)) i : rows_len n xf -> (i < n)%nat ->
  nthR (colsum Rops n (pick mask xf)) i <> 0 ->
  nthR (colsum Rops n (pick mask (u_frac Rops n mask xf))) i = 1.
Proof. exact (u_frac_sum n mask xf i). Qed.
Print Assumptions C04_u_fractions_sum_to_one.

(* the model of HomogenizationModel._getFluxes, for any face mobilities, chemical potentials, temperatures *)
Theorem C04_homogenization_frame_closed dz eps Rgas subst (Mface mu : list (list R)) (Tn : list R) (x : list (list R)) ne :
  (2 <= length Tn)%nat -> shape ne (length Tn) x ->
  shape (S ne) (length Tn - 1) Mface -> shape (S ne) (length Tn) mu -> forall i, (S i < length Tn)%nat ->
  nthR (colsum Rops (length Tn) (pick subst (x_full Rops (length Tn) x))) i <> 0 ->
  nthR (colsum Rops (length Tn) (pick subst (x_full Rops (length Tn) x))) (S i) <> 0 ->
  nthR (colsum Rops (length Tn - 1) (pick subst
         (vframe_all Rops (length Tn - 1) subst
            (hom_lattice Rops dz eps Rgas Mface mu Tn (u_frac Rops (length Tn) subst (x_full Rops (length Tn) x)))
            (map (mids Rops) (u_frac Rops (length Tn) subst (x_full Rops (length Tn) x)))))) i = 0.
Proof. exact (hom_frame_closed dz eps Rgas subst Mface mu Tn x ne). Qed.
Print Assumptions C04_homogenization_frame_closed.

(* ---- both concrete flux models are admissible oracles: every theorem above applies to them ------------------------------ *)
Theorem C04_single_phase_binary_is_oracle dz (dfun : list (list R) -> list R) n :
  (forall y, length (dfun y) = n) -> flux_ok 1 n (fun y => sp_interior_binary Rops dz (dfun y) y).
Proof. exact (sp_binary_is_oracle dz dfun n). Qed.
Print Assumptions C04_single_phase_binary_is_oracle.

Theorem C04_single_phase_multi_is_oracle dz (Dfun : list (list R) -> list (list (list R))) ne n :
  (forall y, length (Dfun y) = n) -> flux_ok ne n (fun y => sp_interior_multi Rops dz (Dfun y) y).
Proof. exact (sp_multi_is_oracle dz Dfun ne n). Qed.
Print Assumptions C04_single_phase_multi_is_oracle.

Theorem C04_homogenization_is_oracle dz eps Rgas subst (Mfun mufun : list (list R) -> list (list R)) (Tn : list R) ne :
  (2 <= length Tn)%nat ->
  (forall y, shape (S ne) (length Tn - 1) (Mfun y)) -> (forall y, shape (S ne) (length Tn) (mufun y)) ->
  flux_ok ne (length Tn) (fun y => hom_interior Rops dz eps Rgas subst (Mfun y) (mufun y) Tn y).
Proof. exact (hom_is_oracle dz eps Rgas subst Mfun mufun Tn ne). Qed.
Print Assumptions C04_homogenization_is_oracle.
