(* C04 - correspondence driver: evaluates the model on the exact-rational instance and compares with
   what the implementation produced for the same inputs.  Verdicts only (see Common/Out.v). *)
From Coq Require Import QArith List ZArith Bool Floats.
Require Import Kawin.Common.Ops Kawin.Common.Vec Kawin.Common.Out Kawin.C04.Model.
Import ListNotations.
Open Scope Q_scope.

Notation qvec := (list Q).
Notation qmat := (list (list Q)).

(* Transport of binary64 inputs: the harness writes every float as a hexadecimal float literal (exact, and
   parsed natively - decimal Q literals cost milliseconds each); its exact rational value is recovered here
   from the kernel's decomposition of the primitive float.  Non-finite values never reach the model. *)
Definition f2q (f : float) : Q :=
  match Prim2SF f with
  | S754_finite s m e =>
      let z := if s then Zneg m else Zpos m in
      if (0 <=? e)%Z then inject_Z (z * 2 ^ e) else Qred (z # (2 ^ Z.to_pos (- e)))
  | _ => 0
  end.
Definition fv (l : list float) : qvec := map f2q l.
Definition fm (l : list (list float)) : qmat := map (map f2q) l.
Definition fms (l : list (list (list float))) : list qmat := map fm l.

Definition mkbcQ (lt : bool) (lv : Q) (rt : bool) (rv : Q) : bc Qops :=
  mkbc Qops (if lt then FluxBC else CompBC) lv (if rt then FluxBC else CompBC) rv.

(* compare two matrices row by row; Some (row, (col, approx model)) on the first disagreement *)
Fixpoint cmpm_go (rt : Q) (e : nat) (impl model scale : qmat) : option (nat * (nat * (Z * Z * bool))) :=
  match impl, model, scale with
  | a :: i', b :: m', s :: s' =>
      match cmpl rt a b s with
      | None => cmpm_go rt (S e) i' m' s'
      | Some v => Some (e, v)
      end
  | [], [], _ => None
  | _, _, _ => Some (e, (0%nat, (0, 0, false)%Z))
  end.
Definition cmpm (rt : Q) (impl model scale : qmat) := cmpm_go rt 0 impl model scale.
Definition mabs (A : qmat) : qmat := map (map qabs) A.
Definition qadd (a b : Q) : Q := Qred (a + b).
Definition qmul (a b : Q) : Q := Qred (a * b).
Definition madd (A B : qmat) : qmat := zipWith (zipWith qadd) A B.
Definition mscale (c : Q) (A : qmat) : qmat := map (map (qmul c)) A.

(* |J_k| + |J_k+1| per node, from a face array *)
Definition facemag (J : qvec) : qvec := zipWith qadd (map qabs (tail_ J)) (map qabs (init_ J)).

(* ---- one solver step -------------------------------------------------------------------------------------- *)
(* stages: interior face fluxes the implementation's _getFluxes returned in each stage (1 for Euler, 4 for RK4)
   impl_stage_x: the profiles the implementation passed to _getFluxes in stages 2..4 (RK4)
   impl_pre / impl_post: state returned by the iterator / stored after postProcess *)
Definition const_oracle (J : qmat) : oracle Qops := fun _ => J.

Definition check_step (rt : Q) (bcs : list (bc Qops)) (dz minc dt : Q) (x0 : qmat) (stages : list qmat)
           (impl_stage_x : list qmat) (impl_pre impl_post : qmat) :=
  let adz := Qred (qabs (dt / dz)) in
  let mag := fold_right (fun J acc => madd acc (map facemag (fluxes_of Qops bcs J)))
                        (map (map (fun _ => 0)) x0) stages in
  let scale := madd (mabs x0) (mscale adz mag) in
  match stages with
  | [J1] =>
      let pre := euler_pre Qops bcs dz (const_oracle J1) dt x0 in
      (cmpm rt impl_pre pre scale, cmpm rt impl_post (postProcess Qops minc pre) scale, @nil (option (nat * (nat * (Z * Z * bool)))))
  | [J1; J2; J3; J4] =>
      let F1 := const_oracle J1 in let F2 := const_oracle J2 in
      let F3 := const_oracle J3 in let F4 := const_oracle J4 in
      let pre := rk4_pre Qops bcs dz F1 F2 F3 F4 dt x0 in
      let X1 := rk4_X1 Qops bcs dz F1 dt x0 in
      let X2 := rk4_X2 Qops bcs dz F1 F2 dt x0 in
      let X3 := rk4_X3 Qops bcs dz F1 F2 F3 dt x0 in
      (cmpm rt impl_pre pre scale, cmpm rt impl_post (postProcess Qops minc pre) scale,
       match impl_stage_x with
       | [a; b; c] => [cmpm rt a X1 scale; cmpm rt b X2 scale; cmpm rt c X3 scale]
       | _ => [Some (0%nat, (0%nat, (0, 0, false)%Z))]
       end)
  | _ => (Some (0%nat, (0%nat, (0, 0, false)%Z)), None, [])
  end.

(* getdXdt on given interior fluxes *)
Definition check_dxdt (rt : Q) (bcs : list (bc Qops)) (dz : Q) (Jint : qmat) (impl_fluxes impl_dxdt : qmat) :=
  let fl := fluxes_of Qops bcs Jint in
  (cmpm 0 impl_fluxes fl (mabs fl),
   cmpm rt impl_dxdt (dXdt_of Qops dz fl) (mscale (Qred (qabs (1 / dz))) (map facemag fl))).

(* applyBoundaryConditionsToFluxes on an arbitrary array: exact *)
Definition check_applybc (bcs : list (bc Qops)) (J impl : qmat) :=
  let m := applyBC Qops bcs J in cmpm 0 impl m (mabs m).

(* ---- SinglePhaseModel._getFluxes ------------------------------------------------------------------------------ *)
Definition check_sp_binary (rt : Q) (bcs : list (bc Qops)) (dz : Q) (d : qvec) (x : qmat) (impl : qmat) :=
  let fl := fluxes_of Qops bcs (sp_interior_binary Qops dz d x) in
  cmpm rt impl fl (mabs fl).

Definition sp_multi_scale (dz : Q) (D : list qmat) (x : qmat) : qmat :=
  let g := map (grad Qops dz) x in
  let dm := mid2m Qops D in
  map (fun e => map (fun i => dot Qops (map qabs (nth e (nth i dm []) [])) (map qabs (col Qops g i))) (seq 0 (length dm)))
      (seq 0 (length x)).
Definition check_sp_multi (rt : Q) (bcs : list (bc Qops)) (dz : Q) (D : list qmat) (x : qmat) (impl : qmat) :=
  let fl := fluxes_of Qops bcs (sp_interior_multi Qops dz D x) in
  let sc := fluxes_of Qops (map (fun b => mkbc Qops (ltype Qops b) (qabs (lval Qops b)) (rtype Qops b) (qabs (rval Qops b))) bcs)
                      (sp_multi_scale dz D x) in
  cmpm rt impl fl sc.

(* ---- HomogenizationModel._getFluxes ------------------------------------------------------------------------------ *)
(* scale: the same pipeline with every added term replaced by its magnitude *)
(* |u_i| + |u_i+1| over |dz|: the rounding error of a computed difference is relative to its operands *)
Fixpoint pairmag (l : qvec) : qvec :=
  match l with
  | a :: ((b :: _) as r) => qadd (qabs a) (qabs b) :: pairmag r
  | _ => []
  end.
Definition hom_row_abs (dz eps Rgas : Q) (Tmid M m ur : qvec) : qvec :=
  let avgU := mids Qops ur in
  let dmu := map (fun v => Qred (v / qabs dz)) (pairmag m) in
  let du := map (fun v => Qred (v / qabs dz)) (pairmag ur) in
  zipWith qadd
    (zipWith (fun Mk g => qabs (qmul Mk g)) M dmu)
    (zip4 (fun Mk Tm g a => if Qeq_bool a 0 then 0 else qabs (Qred (qmul (qmul (qmul (qmul eps Mk) Rgas) Tm) g / a))) M Tmid du avgU).
Definition hom_scale (dz eps Rgas : Q) (subst : list bool) (Mface mu : qmat) (Tn : qvec) (x : qmat) : qmat :=
  let n := length Tn in
  let u := u_frac Qops n subst (x_full Qops n x) in
  let Fa := map3 (hom_row_abs dz eps Rgas (mid2 Qops Tn)) Mface mu u in
  let S := colsum Qops (n - 1) (pick subst Fa) in
  tl (zipWith (fun Fk uk => zipWith qadd Fk (zipWith (fun a b => qabs (qmul a b)) uk S)) Fa (map (mids Qops) u)).

Definition check_hom (rt : Q) (bcs : list (bc Qops)) (dz eps Rgas : Q) (subst : list bool) (Mface mu : qmat)
           (Tn : qvec) (x : qmat) (impl : qmat) :=
  let fl := fluxes_of Qops bcs (hom_interior Qops dz eps Rgas subst Mface mu Tn x) in
  let sc := fluxes_of Qops (map (fun b => mkbc Qops (ltype Qops b) (qabs (lval Qops b)) (rtype Qops b) (qabs (rval Qops b))) bcs)
                      (hom_scale dz eps Rgas subst Mface mu Tn x) in
  (cmpm rt impl fl sc,
   (* ill-conditioned: a face u-fraction below 1/1000 divides the ideal term; 1 - sum(x) is rounded relative to 1 *)
   negb (Qeq_bool eps 0) &&
   existsb (existsb (fun a => Qle_bool (qabs a) (1 # 1000)))
           (map (mids Qops) (u_frac Qops (length Tn) subst (x_full Qops (length Tn) x))),
   (* the frame identity on this very input: substitutional frame fluxes (reference included) cancel *)
   let n := length Tn in
   let u := u_frac Qops n subst (x_full Qops n x) in
   let F := hom_lattice Qops dz eps Rgas Mface mu Tn u in
   forallb (fun v => Qeq_bool v 0) (colsum Qops (n - 1) (pick subst (vframe_all Qops (n - 1) subst F (map (mids Qops) u))))).

(* ---- setup ---------------------------------------------------------------------------------------------------------- *)
(* built: profile produced by CompositionProfile.buildProfile; impl1 / impl2: x after the first / second setup call *)
Definition check_setup (rt : Q) (bcs : list (bc Qops)) (nAll : Z) (minc : Q) (built impl1 impl2 : qmat) :=
  let s1 := setup Qops bcs nAll minc (mkst Qops false built) in
  let s2 := setup Qops bcs nAll minc s1 in
  let sc := zipWith (fun b row => map (fun v => Qred (qabs v + inject_Z nAll * qabs minc + qabs (lval Qops b) + qabs (rval Qops b))) row) bcs built in
  (cmpm rt impl1 (xs Qops s1) sc, cmpm rt impl2 (xs Qops s2) sc).

(* postProcess on an arbitrary array (the implementation rounds 1 - min to binary64) *)
Definition check_post (rt minc : Q) (x impl : qmat) :=
  let m := postProcess Qops minc x in cmpm rt impl m (mabs m).
