(* C04 - the exact-rational instance of the diffusion update is the real instance on rational inputs:
   Q2R commutes with the boundary-condition routine, getdXdt, the Euler and RK4 steps, the clip and the
   setup shift (divisions need dz <> 0).  Consequence: a vm_compute result of the correspondence check on
   [Qops] IS the value of the real-number model the theorems of Properties.v are about. *)
From Coq Require Import Reals QArith Qreals List Bool ZArith Arith Lia Lra.
Require Import Kawin.Common.Ops Kawin.Common.Vec Kawin.C04.Model.
Import ListNotations.

Notation q2r := (map Q2R).
Notation qm2r := (map (map Q2R)).

Definition bc2r (b : bc Qops) : bc Rops :=
  mkbc Rops (ltype Qops b) (Q2R (lval Qops b)) (rtype Qops b) (Q2R (rval Qops b)).

Lemma hom_ofZ z : Q2R (ofZ Qops z) = ofZ Rops z.
Proof. cbn. unfold Q2R. simpl. rewrite Rinv_1. ring. Qed.

Lemma ofZ_nonzero z : z <> 0%Z -> ~ (ofZ Qops z == 0)%Q.
Proof. intros H E. cbn in E. unfold Qeq in E. simpl in E. lia. Qed.

Lemma map_zipWith_hom {A B C A' B' C'} (ha : A -> A') (hb : B -> B') (hc : C -> C')
      (f : A -> B -> C) (f' : A' -> B' -> C') l1 l2 :
  (forall a b, hc (f a b) = f' (ha a) (hb b)) ->
  map hc (zipWith f l1 l2) = zipWith f' (map ha l1) (map hb l2).
Proof.
  intros H. revert l2; induction l1 as [|a l1 IH]; intros [|b l2]; cbn [zipWith map]; auto. rewrite H, IH. reflexivity.
Qed.

Lemma map_removelast {A B} (f : A -> B) l : map f (removelast l) = removelast (map f l).
Proof. induction l as [|a [|b l] IH]; simpl in *; auto. rewrite IH. reflexivity. Qed.

Lemma map_tl {A B} (f : A -> B) l : map f (tl l) = tl (map f l).
Proof. destruct l; reflexivity. Qed.

Lemma nth_hom (l : list Q) k : Q2R (nth k l (zero Qops)) = nth k (q2r l) (zero Rops).
Proof. rewrite <- hom_zero. apply eq_sym, map_nth. Qed.

Lemma negT_hom x : Q2R (negT Qops x) = negT Rops (Q2R x).
Proof. unfold negT. rewrite hom_sub, hom_zero. reflexivity. Qed.

Lemma set_first_hom l v : q2r (set_first Qops l v) = set_first Rops (q2r l) (Q2R v).
Proof. destruct l; reflexivity. Qed.

Lemma set_last_spec O (l : list (T O)) v : l <> [] -> set_last O l v = removelast l ++ [v].
Proof.
  induction l as [|a [|b l] IH]; [congruence | reflexivity |]. intros _.
  specialize (IH ltac:(discriminate)).
  change (set_last O (a :: b :: l) v) with (a :: set_last O (b :: l) v). rewrite IH. reflexivity.
Qed.

Lemma set_last_hom l v : q2r (set_last Qops l v) = set_last Rops (q2r l) (Q2R v).
Proof.
  destruct l as [|a l]; [reflexivity|].
  rewrite (set_last_spec Qops) by discriminate.
  rewrite (set_last_spec Rops) by discriminate.
  rewrite map_app, map_removelast. reflexivity.
Qed.

Lemma faces_of_hom J : q2r (faces_of Qops J) = faces_of Rops (q2r J).
Proof. unfold faces_of. cbn [map]. rewrite map_app. cbn [map]. rewrite hom_zero. reflexivity. Qed.

Lemma set_first_length_hom J v w : length (set_first Rops (q2r J) w) = length (set_first Qops J v).
Proof. destruct J; simpl; rewrite ?map_length; reflexivity. Qed.

Lemma applyBC_row_hom b J : q2r (applyBC_row Qops b J) = applyBC_row Rops (bc2r b) (q2r J).
Proof.
  destruct b as [lt lv rt rv]. unfold applyBC_row, bc2r. cbn [ltype rtype lval rval].
  destruct lt, rt; rewrite set_last_hom, set_first_hom; rewrite ?nth_hom, ?set_first_hom, ?nth_hom; try reflexivity.
  - rewrite (set_first_length_hom J lv). reflexivity.
  - rewrite (set_first_length_hom J (nth 1 J (zero Qops))). reflexivity.
Qed.

Lemma dXdt_row_hom dz J : ~ (dz == 0)%Q -> q2r (dXdt_row Qops dz J) = dXdt_row Rops (Q2R dz) (q2r J).
Proof.
  intros H. unfold dXdt_row.
  rewrite (map_zipWith_hom Q2R Q2R Q2R _ (fun a b => dvd Rops (negT Rops (sub Rops a b)) (Q2R dz))).
  - unfold tail_, init_. rewrite map_tl, map_removelast. reflexivity.
  - intros a b. rewrite hom_dvd by exact H. rewrite negT_hom, hom_sub. reflexivity.
Qed.

Lemma map_comm {A A' B B'} (h : B -> B') (f : A -> B) (g : A' -> B') (h' : A -> A') l :
  (forall a, h (f a) = g (h' a)) -> map h (map f l) = map g (map h' l).
Proof. intros H. rewrite !map_map. apply map_ext. exact H. Qed.

Lemma getdXdt_hom bcs dz J : ~ (dz == 0)%Q ->
  qm2r (getdXdt Qops bcs dz J) = getdXdt Rops (map bc2r bcs) (Q2R dz) (qm2r J).
Proof.
  intros H. unfold getdXdt, dXdt_of, fluxes_of, applyBC.
  rewrite (map_comm q2r (dXdt_row Qops dz) (dXdt_row Rops (Q2R dz)) q2r) by (intros; apply dXdt_row_hom; exact H).
  rewrite (map_zipWith_hom bc2r q2r q2r _ (applyBC_row Rops)) by (intros; apply applyBC_row_hom).
  rewrite (map_comm q2r (faces_of Qops) (faces_of Rops) q2r) by (intros; apply faces_of_hom).
  reflexivity.
Qed.

Lemma mzip_hom (fq : Q -> Q -> Q) (fr : R -> R -> R) A B :
  (forall a b, Q2R (fq a b) = fr (Q2R a) (Q2R b)) ->
  qm2r (mzip Qops fq A B) = mzip Rops fr (qm2r A) (qm2r B).
Proof.
  intros H. unfold mzip. apply map_zipWith_hom. intros a b. apply map_zipWith_hom. exact H.
Qed.

Lemma axpy_hom x d h : qm2r (axpy Qops x d h) = axpy Rops (qm2r x) (qm2r d) (Q2R h).
Proof. unfold axpy. apply mzip_hom. intros a b. rewrite hom_add, hom_mul. reflexivity. Qed.

(* a rational flux oracle and a real one agree on rational profiles *)
Definition oracle_hom (FQ : oracle Qops) (FR : oracle Rops) : Prop := forall y, qm2r (FQ y) = FR (qm2r y).

Theorem euler_pre_hom bcs dz FQ FR dt x : ~ (dz == 0)%Q -> oracle_hom FQ FR ->
  qm2r (euler_pre Qops bcs dz FQ dt x) = euler_pre Rops (map bc2r bcs) (Q2R dz) FR (Q2R dt) (qm2r x).
Proof. intros H HF. unfold euler_pre. rewrite axpy_hom, getdXdt_hom by exact H. rewrite HF. reflexivity. Qed.
Print Assumptions euler_pre_hom.

Lemma two_hom : Q2R (two Qops) = two Rops.
Proof. apply hom_ofZ. Qed.
Lemma six_hom : Q2R (six Qops) = six Rops.
Proof. apply hom_ofZ. Qed.
Lemma half_dt_hom dt : Q2R (dvd Qops dt (two Qops)) = dvd Rops (Q2R dt) (two Rops).
Proof. rewrite hom_dvd by (apply ofZ_nonzero; discriminate). rewrite two_hom. reflexivity. Qed.

Lemma rk4_X1_hom bcs dz F1 G1 dt x : ~ (dz == 0)%Q -> oracle_hom F1 G1 ->
  qm2r (rk4_X1 Qops bcs dz F1 dt x) = rk4_X1 Rops (map bc2r bcs) (Q2R dz) G1 (Q2R dt) (qm2r x).
Proof. intros H H1. unfold rk4_X1. rewrite axpy_hom, getdXdt_hom, half_dt_hom by exact H. rewrite H1. reflexivity. Qed.

Lemma rk4_X2_hom bcs dz F1 F2 G1 G2 dt x : ~ (dz == 0)%Q -> oracle_hom F1 G1 -> oracle_hom F2 G2 ->
  qm2r (rk4_X2 Qops bcs dz F1 F2 dt x) = rk4_X2 Rops (map bc2r bcs) (Q2R dz) G1 G2 (Q2R dt) (qm2r x).
Proof.
  intros H H1 H2. unfold rk4_X2. rewrite axpy_hom, getdXdt_hom, half_dt_hom by exact H.
  rewrite H2, (rk4_X1_hom bcs dz F1 G1) by assumption. reflexivity.
Qed.

Lemma rk4_X3_hom bcs dz F1 F2 F3 G1 G2 G3 dt x : ~ (dz == 0)%Q ->
  oracle_hom F1 G1 -> oracle_hom F2 G2 -> oracle_hom F3 G3 ->
  qm2r (rk4_X3 Qops bcs dz F1 F2 F3 dt x) = rk4_X3 Rops (map bc2r bcs) (Q2R dz) G1 G2 G3 (Q2R dt) (qm2r x).
Proof.
  intros H H1 H2 H3. unfold rk4_X3. rewrite axpy_hom, getdXdt_hom by exact H.
  rewrite H3, (rk4_X2_hom bcs dz F1 F2 G1 G2) by assumption. reflexivity.
Qed.

Lemma mmap_hom (fq : Q -> Q) (fr : R -> R) A : (forall a, Q2R (fq a) = fr (Q2R a)) ->
  qm2r (map (map fq) A) = map (map fr) (qm2r A).
Proof.
  intros H. rewrite !map_map. apply map_ext. intros r. rewrite !map_map. apply map_ext. exact H.
Qed.

Lemma rk4_sum_hom k1 k2 k3 k4 :
  qm2r (rk4_sum Qops k1 k2 k3 k4) = rk4_sum Rops (qm2r k1) (qm2r k2) (qm2r k3) (qm2r k4).
Proof.
  unfold rk4_sum.
  rewrite !(mzip_hom (add Qops) (add Rops)) by (intros; apply hom_add).
  rewrite !(mmap_hom (mul Qops (two Qops)) (mul Rops (two Rops))) by (intros; rewrite hom_mul, two_hom; reflexivity).
  reflexivity.
Qed.

Theorem rk4_pre_hom bcs dz F1 F2 F3 F4 G1 G2 G3 G4 dt x : ~ (dz == 0)%Q ->
  oracle_hom F1 G1 -> oracle_hom F2 G2 -> oracle_hom F3 G3 -> oracle_hom F4 G4 ->
  qm2r (rk4_pre Qops bcs dz F1 F2 F3 F4 dt x)
    = rk4_pre Rops (map bc2r bcs) (Q2R dz) G1 G2 G3 G4 (Q2R dt) (qm2r x).
Proof.
  intros H H1 H2 H3 H4. unfold rk4_pre. rewrite axpy_hom.
  rewrite (mmap_hom (fun v => dvd Qops v (six Qops)) (fun v => dvd Rops v (six Rops))).
  2:{ intros a. rewrite hom_dvd by (apply ofZ_nonzero; discriminate). rewrite six_hom. reflexivity. }
  rewrite rk4_sum_hom. rewrite !getdXdt_hom by exact H.
  rewrite H1, H2, H3, H4.
  rewrite (rk4_X1_hom bcs dz F1 G1), (rk4_X2_hom bcs dz F1 F2 G1 G2), (rk4_X3_hom bcs dz F1 F2 F3 G1 G2 G3) by assumption.
  reflexivity.
Qed.
Print Assumptions rk4_pre_hom.

Lemma maxT_hom a b : Q2R (maxT Qops a b) = maxT Rops (Q2R a) (Q2R b).
Proof. unfold maxT. rewrite hom_ltb. destruct (ltb Rops (Q2R a) (Q2R b)); reflexivity. Qed.
Lemma minT_hom a b : Q2R (minT Qops a b) = minT Rops (Q2R a) (Q2R b).
Proof. unfold minT. rewrite hom_ltb. destruct (ltb Rops (Q2R b) (Q2R a)); reflexivity. Qed.

Lemma clipT_hom lo hi v : Q2R (clipT Qops lo hi v) = clipT Rops (Q2R lo) (Q2R hi) (Q2R v).
Proof. unfold clipT. rewrite minT_hom, maxT_hom. reflexivity. Qed.

Theorem postProcess_hom minc x : qm2r (postProcess Qops minc x) = postProcess Rops (Q2R minc) (qm2r x).
Proof.
  unfold postProcess. apply mmap_hom. intros a. rewrite clipT_hom, hom_sub, hom_one. reflexivity.
Qed.
Print Assumptions postProcess_hom.

Lemma shift1_hom nAll minc v : Q2R (shift1 Qops nAll minc v) = shift1 Rops nAll (Q2R minc) (Q2R v).
Proof.
  unfold shift1. rewrite !hom_ltb.
  destruct (ltb Rops (Q2R minc) (Q2R v)).
  - rewrite hom_sub, hom_mul, hom_ofZ.
    destruct (ltb Rops (sub Rops (Q2R v) (mul Rops (ofZ Rops nAll) (Q2R minc))) (Q2R minc));
      [reflexivity | rewrite hom_sub, hom_mul, hom_ofZ; reflexivity].
  - destruct (ltb Rops (Q2R v) (Q2R minc)); reflexivity.
Qed.

Theorem setup_shift_hom nAll minc x :
  qm2r (setup_shift Qops nAll minc x) = setup_shift Rops nAll (Q2R minc) (qm2r x).
Proof. unfold setup_shift. apply mmap_hom. intros a. apply shift1_hom. Qed.
Print Assumptions setup_shift_hom.

(* the constant oracles used by the correspondence check *)
Lemma const_oracle_hom J : oracle_hom (fun _ => J) (fun _ => qm2r J).
Proof. intros y. reflexivity. Qed.
