(* C04 - lemmas about the real-number instance of the diffusion update. *)
From Coq Require Import Reals List Bool ZArith Arith Lia Lra Psatz.
Require Import Kawin.Common.Ops Kawin.Common.Vec Kawin.Common.VecLemmas Kawin.C04.Model.
Import ListNotations.
Open Scope R_scope.

Tactic Notation "lia" := (cbn [T Rops] in *; Lia.lia).
Tactic Notation "lra" := (cbn [T Rops] in *; Lra.lra).
Tactic Notation "nra" := (cbn [T Rops] in *; Lra.nra).

Ltac Rring := cbn [T Rops] in *; Rnorm; unfold Rdiv; ring.

Notation nthR l k := (nth k l 0).
Notation vecR := (list R).
Notation matR := (list (list R)).
Notation rowOf A e := (nth e A (@nil R)).
Notation bcR := (bc Rops).
Definition bc0 : bcR := mkbc Rops FluxBC 0 FluxBC 0.
Notation bcOf bcs e := (nth e bcs bc0).

(* ---- generic list facts ------------------------------------------------------------------------ *)
Lemma nth_map_lt {A B} (f : A -> B) (l : list A) e d d' :
  (e < length l)%nat -> nth e (map f l) d' = f (nth e l d).
Proof.
  intros H. rewrite (nth_indep _ d' (f d)) by (rewrite map_length; exact H). apply map_nth.
Qed.

Lemma nth_zipWith_lt {A B C} (f : A -> B -> C) l1 l2 e d d1 d2 :
  (e < length l1)%nat -> (e < length l2)%nat ->
  nth e (zipWith f l1 l2) d = f (nth e l1 d1) (nth e l2 d2).
Proof. apply nth_zipWith. Qed.

Lemma last_app_single {A} (l : list A) (a d : A) : last (l ++ [a]) d = a.
Proof. apply last_last. Qed.

Lemma last_cons_app {A} (x : A) l a d : last (x :: l ++ [a]) d = a.
Proof. change (x :: l ++ [a]) with ((x :: l) ++ [a]). apply last_last. Qed.

Lemma map_id_Forall {A} (f : A -> A) (l : list A) : Forall (fun a => f a = a) l -> map f l = l.
Proof. induction 1; simpl; congruence. Qed.

(* ---- sums ----------------------------------------------------------------------------------------- *)
Lemma sumR_cons a l : sumR (a :: l) = a + sumR l.
Proof. reflexivity. Qed.

Lemma sumR_zip_axpy (r1 r2 : vecR) h : length r1 = length r2 ->
  sumR (zipWith (fun a b => add Rops a (mul Rops b h)) r1 r2) = sumR r1 + h * sumR r2.
Proof.
  revert r2; induction r1 as [|a r1 IH]; intros [|b r2] H; simpl in *; try Lia.lia; Rnorm; [lra|].
  rewrite IH by Lia.lia. lra.
Qed.

Lemma sumR_zip_add (r1 r2 : vecR) : length r1 = length r2 ->
  sumR (zipWith (add Rops) r1 r2) = sumR r1 + sumR r2.
Proof.
  revert r2; induction r1 as [|a r1 IH]; intros [|b r2] H; simpl in *; try Lia.lia; Rnorm; [lra|].
  rewrite IH by Lia.lia. lra.
Qed.

Lemma sumR_map_mul c (l : vecR) : sumR (map (mul Rops c) l) = c * sumR l.
Proof. induction l as [|a l IH]; simpl; Rnorm; [lra|]. rewrite IH. lra. Qed.

Lemma sumR_map_div c (l : vecR) : sumR (map (fun v => dvd Rops v c) l) = sumR l / c.
Proof. induction l as [|a l IH]; simpl; Rnorm; [unfold Rdiv; lra|]. rewrite IH. unfold Rdiv. lra. Qed.

(* ---- single assignments --------------------------------------------------------------------------- *)
Lemma set_last_app (l : vecR) a v : set_last Rops (l ++ [a]) v = l ++ [v].
Proof.
  induction l as [|x l IH]; [reflexivity|].
  change ((x :: l) ++ [a]) with (x :: (l ++ [a])).
  assert (E : exists y r, l ++ [a] = y :: r) by (destruct l; simpl; eauto).
  destruct E as (y & r & E). cbn [set_last]. rewrite E. rewrite <- E, IH. reflexivity.
Qed.

Lemma set_first_length (l : vecR) v : length (set_first Rops l v) = length l.
Proof. destruct l; reflexivity. Qed.

(* ---- boundary conditions on the face fluxes -------------------------------------------------------- *)
(* the flux through the left / right end of the mesh that the code uses *)
Definition JL (b : bcR) (Jint : vecR) : R :=
  match ltype Rops b with FluxBC => lval Rops b | CompBC => nthR Jint 0 end.
Definition JR (b : bcR) (Jint : vecR) : R :=
  match rtype Rops b with FluxBC => rval Rops b | CompBC => nthR Jint (length Jint - 1) end.

Lemma applyBC_faces b (Jint : vecR) : (1 <= length Jint)%nat ->
  applyBC_row Rops b (faces_of Rops Jint) = JL b Jint :: Jint ++ [JR b Jint].
Proof.
  intros H. unfold applyBC_row.
  assert (E1 : set_first Rops (faces_of Rops Jint)
                 (match ltype Rops b with FluxBC => lval Rops b | CompBC => nth 1 (faces_of Rops Jint) (zero Rops) end)
               = (JL b Jint :: Jint) ++ [0]).
  { unfold faces_of, JL. cbn [set_first]. destruct (ltype Rops b); [reflexivity|].
    cbn [nth]. rewrite app_nth1 by lia. reflexivity. }
  rewrite E1. rewrite set_last_app. cbn [app]. f_equal. f_equal. f_equal.
  unfold JR. destruct (rtype Rops b); [reflexivity|].
  cbn [length]. rewrite app_length. cbn [length].
  replace (S (length Jint + 1) - 2)%nat with (S (length Jint - 1)) by lia.
  cbn [nth]. rewrite app_nth1 by lia. reflexivity.
Qed.

(* ---- dXdt of one row ------------------------------------------------------------------------------- *)
Lemma dXdt_row_length dz (J : vecR) : length (dXdt_row Rops dz J) = (length J - 1)%nat.
Proof.
  unfold dXdt_row, tail_, init_. rewrite zipWith_length, tl_length, removelast_length. lia.
Qed.

Lemma nth_dXdt_row dz (J : vecR) k : (S k < length J)%nat ->
  nthR (dXdt_row Rops dz J) k = (nthR J k - nthR J (S k)) / dz.
Proof.
  intros H. unfold dXdt_row, tail_, init_.
  rewrite (nth_zipWith _ _ _ _ _ 0 0); [| rewrite tl_length; lia | rewrite removelast_length; lia].
  rewrite nth_tl, nth_removelast by lia. unfold negT. Rring.
Qed.

(* telescoping: the entries of dXdt sum to (first face - last face)/dz, for every flux array *)
Lemma telescoping dz (J : vecR) : J <> [] ->
  sumR (dXdt_row Rops dz J) = (hd 0 J - last J 0) / dz.
Proof.
  induction J as [|a [|b l] IH]; intros H; [congruence| |].
  - cbn. Rring.
  - specialize (IH ltac:(discriminate)).
    unfold dXdt_row, tail_, init_ in *.
    change (tl (a :: b :: l)) with (b :: l).
    change (removelast (a :: b :: l)) with (a :: removelast (b :: l)).
    cbn [zipWith]. rewrite sumR_cons. change (tl (b :: l)) with l in IH. cbn [T Rops] in *. rewrite IH.
    change (last (a :: b :: l) 0) with (last (b :: l) 0). cbn [hd]. unfold negT. Rring.
Qed.

Lemma dXdt_row_bc_sum dz b (Jint : vecR) : (1 <= length Jint)%nat ->
  sumR (dXdt_row Rops dz (applyBC_row Rops b (faces_of Rops Jint))) = (JL b Jint - JR b Jint) / dz.
Proof.
  intros H. rewrite applyBC_faces by exact H. rewrite telescoping by discriminate.
  cbn [hd]. rewrite last_cons_app. reflexivity.
Qed.

Lemma dXdt_row_bc_length dz b (Jint : vecR) : (1 <= length Jint)%nat ->
  length (dXdt_row Rops dz (applyBC_row Rops b (faces_of Rops Jint))) = S (length Jint).
Proof.
  intros H. rewrite applyBC_faces by exact H. rewrite dXdt_row_length. cbn [length].
  rewrite app_length. cbn [length]. lia.
Qed.

(* a composition condition makes the rate of the end node vanish *)
Lemma dXdt_row_left_zero dz b (Jint : vecR) : (1 <= length Jint)%nat -> ltype Rops b = CompBC ->
  nthR (dXdt_row Rops dz (applyBC_row Rops b (faces_of Rops Jint))) 0 = 0.
Proof.
  intros H Hb. rewrite applyBC_faces by exact H. rewrite nth_dXdt_row.
  2:{ cbn [length]. rewrite app_length. cbn [length]. lia. }
  cbn [nth]. rewrite app_nth1 by lia. unfold JL. rewrite Hb. Rring.
Qed.

Lemma dXdt_row_right_zero dz b (Jint : vecR) : (1 <= length Jint)%nat -> rtype Rops b = CompBC ->
  nthR (dXdt_row Rops dz (applyBC_row Rops b (faces_of Rops Jint))) (length Jint) = 0.
Proof.
  intros H Hb. rewrite applyBC_faces by exact H. rewrite nth_dXdt_row.
  2:{ cbn [length]. rewrite app_length. cbn [length]. lia. }
  destruct (length Jint) as [|m] eqn:E; [lia|].
  cbn [nth]. rewrite app_nth1 by lia. rewrite app_nth2 by lia.
  replace (S m - length Jint)%nat with 0%nat by lia. cbn [nth].
  unfold JR. rewrite Hb, E. replace (S m - 1)%nat with m by lia. Rring.
Qed.

(* interior rates are the difference of the two adjacent interior faces *)
Lemma dXdt_row_interior dz b (Jint : vecR) k : (1 <= k)%nat -> (k < length Jint)%nat ->
  nthR (dXdt_row Rops dz (applyBC_row Rops b (faces_of Rops Jint))) k
    = (nthR Jint (k - 1) - nthR Jint k) / dz.
Proof.
  intros H1 H2. rewrite applyBC_faces by lia. rewrite nth_dXdt_row.
  2:{ cbn [length]. rewrite app_length. cbn [length]. lia. }
  destruct k as [|k]; [lia|]. cbn [nth]. rewrite !app_nth1 by lia.
  replace (S k - 1)%nat with k by lia. reflexivity.
Qed.

(* ---- matrices --------------------------------------------------------------------------------------- *)
Definition shape (ne n : nat) (A : matR) : Prop :=
  length A = ne /\ forall e, (e < ne)%nat -> length (rowOf A e) = n.

(* a flux oracle is admissible when it returns one row of n-1 interior faces per element *)
Definition flux_ok (ne n : nat) (F : oracle Rops) : Prop := forall y, shape ne n y -> shape ne (n - 1) (F y).

Lemma getdXdt_row bcs dz (Jint : matR) e : (e < length bcs)%nat -> (e < length Jint)%nat ->
  rowOf (getdXdt Rops bcs dz Jint) e
    = dXdt_row Rops dz (applyBC_row Rops (bcOf bcs e) (faces_of Rops (rowOf Jint e))).
Proof.
  intros H1 H2. unfold getdXdt, dXdt_of, fluxes_of, applyBC.
  rewrite (nth_map_lt _ _ _ []).
  2:{ rewrite zipWith_length, map_length. lia. }
  f_equal. rewrite (nth_zipWith _ _ _ _ _ bc0 []); [| lia | rewrite map_length; lia].
  f_equal. apply nth_map_lt. exact H2.
Qed.

Lemma getdXdt_length bcs dz (Jint : matR) :
  length (getdXdt Rops bcs dz Jint) = Nat.min (length bcs) (length Jint).
Proof. unfold getdXdt, dXdt_of, fluxes_of, applyBC. rewrite map_length, zipWith_length, map_length. reflexivity. Qed.

Lemma getdXdt_shape bcs dz (Jint : matR) ne n : (2 <= n)%nat -> length bcs = ne ->
  shape ne (n - 1) Jint -> shape ne n (getdXdt Rops bcs dz Jint).
Proof.
  intros Hn Hb [HJ1 HJ2]. split; [rewrite getdXdt_length; lia|].
  intros e He. rewrite getdXdt_row by lia. rewrite dXdt_row_bc_length; rewrite HJ2 by lia; lia.
Qed.

Lemma mzip_row f (A B : matR) e : (e < length A)%nat -> (e < length B)%nat ->
  rowOf (mzip Rops f A B) e = zipWith f (rowOf A e) (rowOf B e).
Proof. intros. unfold mzip. apply nth_zipWith; assumption. Qed.

Lemma mzip_shape f (A B : matR) ne n : shape ne n A -> shape ne n B -> shape ne n (mzip Rops f A B).
Proof.
  intros [A1 A2] [B1 B2]. split; [unfold mzip; rewrite zipWith_length; lia|].
  intros e He. rewrite mzip_row by lia. rewrite zipWith_length, A2, B2 by lia. lia.
Qed.

Lemma mmap_row g (A : matR) e : rowOf (map (map g) A) e = map g (rowOf A e).
Proof. change (@nil R) with (map g []) at 1. apply map_nth. Qed.

Lemma mmap_shape g (A : matR) ne n : shape ne n A -> shape ne n (map (map g) A).
Proof.
  intros [A1 A2]. split; [rewrite map_length; exact A1|].
  intros e He. rewrite mmap_row, map_length. apply A2; exact He.
Qed.

Lemma axpy_row (x d : matR) h e : (e < length x)%nat -> (e < length d)%nat ->
  rowOf (axpy Rops x d h) e = zipWith (fun a b => add Rops a (mul Rops b h)) (rowOf x e) (rowOf d e).
Proof. intros. unfold axpy. apply mzip_row; assumption. Qed.

Lemma axpy_shape (x d : matR) h ne n : shape ne n x -> shape ne n d -> shape ne n (axpy Rops x d h).
Proof. apply mzip_shape. Qed.

Lemma axpy_sum (x d : matR) h ne n e : shape ne n x -> shape ne n d -> (e < ne)%nat ->
  sumR (rowOf (axpy Rops x d h) e) = sumR (rowOf x e) + h * sumR (rowOf d e).
Proof.
  intros [X1 X2] [D1 D2] He. rewrite axpy_row by lia. apply sumR_zip_axpy. rewrite X2, D2 by lia. reflexivity.
Qed.

Lemma axpy_nth (x d : matR) h ne n e k : shape ne n x -> shape ne n d -> (e < ne)%nat -> (k < n)%nat ->
  nthR (rowOf (axpy Rops x d h) e) k = nthR (rowOf x e) k + nthR (rowOf d e) k * h.
Proof.
  intros [X1 X2] [D1 D2] He Hk. rewrite axpy_row by lia.
  rewrite (nth_zipWith _ _ _ _ _ 0 0); [reflexivity | rewrite X2 by lia; lia | rewrite D2 by lia; lia].
Qed.

(* ---- the sum of every row of dXdt -------------------------------------------------------------------- *)
Lemma getdXdt_sum bcs dz (Jint : matR) ne n e : (2 <= n)%nat -> length bcs = ne ->
  shape ne (n - 1) Jint -> (e < ne)%nat ->
  sumR (rowOf (getdXdt Rops bcs dz Jint) e)
    = (JL (bcOf bcs e) (rowOf Jint e) - JR (bcOf bcs e) (rowOf Jint e)) / dz.
Proof.
  intros Hn Hb [J1 J2] He. rewrite getdXdt_row by lia. apply dXdt_row_bc_sum. rewrite J2 by lia. lia.
Qed.

(* ---- one explicit Euler step --------------------------------------------------------------------------- *)
Lemma euler_shape bcs dz F dt (x : matR) ne n : (2 <= n)%nat -> length bcs = ne ->
  shape ne n x -> flux_ok ne n F -> shape ne n (euler_pre Rops bcs dz F dt x).
Proof. intros Hn Hb Hx HF. unfold euler_pre. apply axpy_shape; [assumption|]. apply getdXdt_shape; auto. Qed.

Lemma euler_balance bcs dz F dt (x : matR) ne n e : (2 <= n)%nat -> length bcs = ne ->
  shape ne n x -> flux_ok ne n F -> (e < ne)%nat ->
  sumR (rowOf (euler_pre Rops bcs dz F dt x) e)
    = sumR (rowOf x e) + dt * (JL (bcOf bcs e) (rowOf (F x) e) - JR (bcOf bcs e) (rowOf (F x) e)) / dz.
Proof.
  intros Hn Hb Hx HF He. unfold euler_pre.
  pose proof (HF x Hx) as HJ.
  rewrite (axpy_sum _ _ _ ne n) by (auto; apply getdXdt_shape; auto).
  rewrite (getdXdt_sum _ _ _ ne n) by auto. Rring.
Qed.

(* ---- one RK4 step ------------------------------------------------------------------------------------------ *)
Section RK4.
Variables (bcs : list bcR) (dz dt : R) (F1 F2 F3 F4 : oracle Rops) (x : matR) (ne n : nat).
Hypothesis Hn : (2 <= n)%nat.
Hypothesis Hb : length bcs = ne.
Hypothesis Hx : shape ne n x.
Hypothesis H1 : flux_ok ne n F1.
Hypothesis H2 : flux_ok ne n F2.
Hypothesis H3 : flux_ok ne n F3.
Hypothesis H4 : flux_ok ne n F4.

Let X1 := rk4_X1 Rops bcs dz F1 dt x.
Let X2 := rk4_X2 Rops bcs dz F1 F2 dt x.
Let X3 := rk4_X3 Rops bcs dz F1 F2 F3 dt x.

Lemma J1_ok : shape ne (n - 1) (F1 x).
Proof. apply H1, Hx. Qed.
Lemma rk4_X1_shape : shape ne n X1.
Proof. unfold X1, rk4_X1. apply axpy_shape; [assumption|]. apply getdXdt_shape; auto using J1_ok. Qed.
Lemma J2_ok : shape ne (n - 1) (F2 X1).
Proof. apply H2, rk4_X1_shape. Qed.
Lemma rk4_X2_shape : shape ne n X2.
Proof. unfold X2, rk4_X2. apply axpy_shape; [assumption|]. apply getdXdt_shape; auto using J2_ok. Qed.
Lemma J3_ok : shape ne (n - 1) (F3 X2).
Proof. apply H3, rk4_X2_shape. Qed.
Lemma rk4_X3_shape : shape ne n X3.
Proof. unfold X3, rk4_X3. apply axpy_shape; [assumption|]. apply getdXdt_shape; auto using J3_ok. Qed.
Lemma J4_ok : shape ne (n - 1) (F4 X3).
Proof. apply H4, rk4_X3_shape. Qed.

Lemma rk4_sum_shape (k1 k2 k3 k4 : matR) :
  shape ne n k1 -> shape ne n k2 -> shape ne n k3 -> shape ne n k4 -> shape ne n (rk4_sum Rops k1 k2 k3 k4).
Proof. intros. unfold rk4_sum. repeat apply mzip_shape; try apply mmap_shape; assumption. Qed.

Lemma rk4_sum_row_sum (k1 k2 k3 k4 : matR) e :
  shape ne n k1 -> shape ne n k2 -> shape ne n k3 -> shape ne n k4 -> (e < ne)%nat ->
  sumR (rowOf (rk4_sum Rops k1 k2 k3 k4) e)
    = sumR (rowOf k1 e) + 2 * sumR (rowOf k2 e) + 2 * sumR (rowOf k3 e) + sumR (rowOf k4 e).
Proof.
  intros K1 K2 K3 K4 He. unfold rk4_sum.
  assert (S2 : shape ne n (map (map (mul Rops (two Rops))) k2)) by (apply mmap_shape; assumption).
  assert (S3 : shape ne n (map (map (mul Rops (two Rops))) k3)) by (apply mmap_shape; assumption).
  assert (S12 : shape ne n (mzip Rops (add Rops) k1 (map (map (mul Rops (two Rops))) k2))) by (apply mzip_shape; assumption).
  assert (S123 : shape ne n (mzip Rops (add Rops) (mzip Rops (add Rops) k1 (map (map (mul Rops (two Rops))) k2)) (map (map (mul Rops (two Rops))) k3))) by (apply mzip_shape; assumption).
  destruct K1 as [K1a K1b], K2 as [K2a K2b], K3 as [K3a K3b], K4 as [K4a K4b].
  destruct S2 as [S2a S2b], S3 as [S3a S3b], S12 as [S12a S12b], S123 as [S123a S123b].
  rewrite mzip_row by lia. rewrite sumR_zip_add by (rewrite S123b, K4b by lia; reflexivity).
  rewrite mzip_row by lia. rewrite sumR_zip_add by (rewrite S12b, S3b by lia; reflexivity).
  rewrite mzip_row by lia. rewrite sumR_zip_add by (rewrite K1b, S2b by lia; reflexivity).
  rewrite !mmap_row, !sumR_map_mul. unfold two. Rnorm. lra.
Qed.

Lemma rk4_shape : shape ne n (rk4_pre Rops bcs dz F1 F2 F3 F4 dt x).
Proof.
  unfold rk4_pre. apply axpy_shape; [assumption|]. apply mmap_shape. apply rk4_sum_shape;
    apply getdXdt_shape; auto using J1_ok, J2_ok, J3_ok, J4_ok.
Qed.

(* stage-weighted end fluxes of element e *)
Definition JLbar e : R :=
  (JL (bcOf bcs e) (rowOf (F1 x) e) + 2 * JL (bcOf bcs e) (rowOf (F2 X1) e)
   + 2 * JL (bcOf bcs e) (rowOf (F3 X2) e) + JL (bcOf bcs e) (rowOf (F4 X3) e)) / 6.
Definition JRbar e : R :=
  (JR (bcOf bcs e) (rowOf (F1 x) e) + 2 * JR (bcOf bcs e) (rowOf (F2 X1) e)
   + 2 * JR (bcOf bcs e) (rowOf (F3 X2) e) + JR (bcOf bcs e) (rowOf (F4 X3) e)) / 6.

Lemma rk4_balance e : (e < ne)%nat ->
  sumR (rowOf (rk4_pre Rops bcs dz F1 F2 F3 F4 dt x) e)
    = sumR (rowOf x e) + dt * (JLbar e - JRbar e) / dz.
Proof.
  intros He. unfold rk4_pre.
  assert (K1 : shape ne n (getdXdt Rops bcs dz (F1 x))) by (apply getdXdt_shape; auto using J1_ok).
  assert (K2 : shape ne n (getdXdt Rops bcs dz (F2 X1))) by (apply getdXdt_shape; auto using J2_ok).
  assert (K3 : shape ne n (getdXdt Rops bcs dz (F3 X2))) by (apply getdXdt_shape; auto using J3_ok).
  assert (K4 : shape ne n (getdXdt Rops bcs dz (F4 X3))) by (apply getdXdt_shape; auto using J4_ok).
  fold X1 X2 X3.
  rewrite (axpy_sum _ _ _ ne n); [| assumption | apply mmap_shape; apply rk4_sum_shape; assumption | assumption].
  rewrite mmap_row, sumR_map_div. rewrite rk4_sum_row_sum by assumption.
  rewrite !(getdXdt_sum _ _ _ ne n) by auto using J1_ok, J2_ok, J3_ok, J4_ok.
  unfold JLbar, JRbar, six. Rring.
Qed.

(* a node whose rate vanishes in every stage keeps its value *)
Lemma rk4_node e k : (e < ne)%nat -> (k < n)%nat ->
  (forall J, shape ne (n - 1) J -> nthR (rowOf (getdXdt Rops bcs dz J) e) k = 0) ->
  nthR (rowOf (rk4_pre Rops bcs dz F1 F2 F3 F4 dt x) e) k = nthR (rowOf x e) k.
Proof.
  intros He Hk Hz. unfold rk4_pre. fold X1 X2 X3.
  assert (K1 : shape ne n (getdXdt Rops bcs dz (F1 x))) by (apply getdXdt_shape; auto using J1_ok).
  assert (K2 : shape ne n (getdXdt Rops bcs dz (F2 X1))) by (apply getdXdt_shape; auto using J2_ok).
  assert (K3 : shape ne n (getdXdt Rops bcs dz (F3 X2))) by (apply getdXdt_shape; auto using J3_ok).
  assert (K4 : shape ne n (getdXdt Rops bcs dz (F4 X3))) by (apply getdXdt_shape; auto using J4_ok).
  rewrite (axpy_nth _ _ _ ne n); [| assumption | apply mmap_shape; apply rk4_sum_shape; assumption | assumption | assumption].
  rewrite mmap_row.
  pose proof (rk4_sum_shape _ _ _ _ K1 K2 K3 K4) as [Sa Sb].
  rewrite (nth_map_lt _ _ _ 0) by (rewrite Sb by lia; lia).
  unfold rk4_sum.
  assert (S2 : shape ne n (map (map (mul Rops (two Rops))) (getdXdt Rops bcs dz (F2 X1)))) by (apply mmap_shape; assumption).
  assert (S3 : shape ne n (map (map (mul Rops (two Rops))) (getdXdt Rops bcs dz (F3 X2)))) by (apply mmap_shape; assumption).
  pose proof (mzip_shape (add Rops) _ _ _ _ K1 S2) as S12.
  pose proof (mzip_shape (add Rops) _ _ _ _ S12 S3) as S123.
  destruct K1 as [K1a K1b], K2 as [K2a K2b], K3 as [K3a K3b], K4 as [K4a K4b].
  destruct S2 as [S2a S2b], S3 as [S3a S3b], S12 as [S12a S12b], S123 as [S123a S123b].
  rewrite mzip_row by lia.
  rewrite (nth_zipWith _ _ _ _ _ 0 0) by (rewrite ?S123b, ?K4b by lia; lia).
  rewrite mzip_row by lia.
  rewrite (nth_zipWith _ _ _ _ _ 0 0) by (rewrite ?S12b, ?S3b by lia; lia).
  rewrite mzip_row by lia.
  rewrite (nth_zipWith _ _ _ _ _ 0 0) by (rewrite ?K1b, ?S2b by lia; lia).
  rewrite !mmap_row.
  rewrite !(nth_map_lt _ _ _ 0) by (rewrite ?K2b, ?K3b by lia; lia).
  rewrite !Hz by (first [apply J1_ok | apply J2_ok | apply J3_ok | apply J4_ok]).
  Rring.
Qed.

End RK4.

Lemma euler_node bcs dz F dt (x : matR) ne n e k : (2 <= n)%nat -> length bcs = ne ->
  shape ne n x -> flux_ok ne n F -> (e < ne)%nat -> (k < n)%nat ->
  (forall J, shape ne (n - 1) J -> nthR (rowOf (getdXdt Rops bcs dz J) e) k = 0) ->
  nthR (rowOf (euler_pre Rops bcs dz F dt x) e) k = nthR (rowOf x e) k.
Proof.
  intros Hn Hb Hx HF He Hk Hz. unfold euler_pre.
  pose proof (HF x Hx) as HJ.
  rewrite (axpy_nth _ _ _ ne n) by (auto; apply getdXdt_shape; auto).
  rewrite Hz by exact HJ. Rnorm. ring.
Qed.

Lemma getdXdt_left_zero bcs dz (J : matR) ne n e : (2 <= n)%nat -> length bcs = ne ->
  shape ne (n - 1) J -> (e < ne)%nat -> ltype Rops (bcOf bcs e) = CompBC ->
  nthR (rowOf (getdXdt Rops bcs dz J) e) 0 = 0.
Proof.
  intros Hn Hb [J1 J2] He Ht. rewrite getdXdt_row by lia. apply dXdt_row_left_zero; [|exact Ht].
  rewrite J2 by lia. lia.
Qed.

Lemma getdXdt_right_zero bcs dz (J : matR) ne n e : (2 <= n)%nat -> length bcs = ne ->
  shape ne (n - 1) J -> (e < ne)%nat -> rtype Rops (bcOf bcs e) = CompBC ->
  nthR (rowOf (getdXdt Rops bcs dz J) e) (n - 1) = 0.
Proof.
  intros Hn Hb [J1 J2] He Ht. rewrite getdXdt_row by lia.
  rewrite <- (J2 e He). apply dXdt_row_right_zero; [|exact Ht]. rewrite J2 by lia. lia.
Qed.

(* ---- clip / postProcess --------------------------------------------------------------------------------------- *)
Definition within (minc v : R) : Prop := minc <= v <= 1 - minc.
Definition inrange (minc : R) (x : matR) : Prop := Forall (Forall (within minc)) x.

Lemma clip_bounds lo hi v : lo <= hi -> lo <= clipT Rops lo hi v <= hi.
Proof.
  intros H. unfold clipT, minT, maxT. Rnorm.
  destruct (Rltb v lo) eqn:E1; Rbool.
  - destruct (Rltb hi lo) eqn:E2; Rbool; lra.
  - destruct (Rltb hi v) eqn:E2; Rbool; lra.
Qed.

Lemma clip_id lo hi v : lo <= v <= hi -> clipT Rops lo hi v = v.
Proof.
  intros H. unfold clipT, minT, maxT. Rnorm.
  destruct (Rltb v lo) eqn:E1; Rbool; [lra|].
  destruct (Rltb hi v) eqn:E2; Rbool; [lra|reflexivity].
Qed.

Lemma clip_fix_inside lo hi v : lo <= hi -> clipT Rops lo hi v = v -> lo <= v <= hi.
Proof. intros H E. rewrite <- E. apply clip_bounds; exact H. Qed.

(* the clip moves a value towards the interval and never past it *)
Lemma clip_cases lo hi v : lo <= hi ->
  (v < lo /\ clipT Rops lo hi v = lo) \/ (hi < v /\ clipT Rops lo hi v = hi) \/ (lo <= v <= hi /\ clipT Rops lo hi v = v).
Proof.
  intros H. unfold clipT, minT, maxT. Rnorm.
  destruct (Rltb v lo) eqn:E1; Rbool.
  - left. split; [lra|]. destruct (Rltb hi lo) eqn:E2; Rbool; [lra|reflexivity].
  - destruct (Rltb hi v) eqn:E2; Rbool; [right; left; split; [lra|reflexivity]|].
    right; right. split; [lra|reflexivity].
Qed.

Lemma postProcess_bounds minc (x : matR) : minc <= 1 - minc -> inrange minc (postProcess Rops minc x).
Proof.
  intros H. unfold inrange, postProcess. apply Forall_map. apply Forall_forall. intros row _.
  apply Forall_map. apply Forall_forall. intros v _. apply clip_bounds. exact H.
Qed.

Lemma postProcess_id minc (x : matR) : inrange minc x -> postProcess Rops minc x = x.
Proof.
  intros H. unfold postProcess. apply map_id_Forall. eapply Forall_impl; [|exact H].
  intros row Hr. apply map_id_Forall. eapply Forall_impl; [|exact Hr].
  intros v Hv. apply clip_id. exact Hv.
Qed.

Lemma postProcess_fix_inrange minc (x : matR) : minc <= 1 - minc ->
  postProcess Rops minc x = x -> inrange minc x.
Proof. intros H E. rewrite <- E. apply postProcess_bounds; exact H. Qed.

Lemma postProcess_shape minc (x : matR) ne n : shape ne n x -> shape ne n (postProcess Rops minc x).
Proof. apply mmap_shape. Qed.

Lemma postProcess_nth minc (x : matR) ne n e k : shape ne n x -> (e < ne)%nat -> (k < n)%nat ->
  nthR (rowOf (postProcess Rops minc x) e) k = clipT Rops minc (1 - minc) (nthR (rowOf x e) k).
Proof.
  intros [X1 X2] He Hk. unfold postProcess. rewrite mmap_row.
  apply nth_map_lt. rewrite X2 by lia. exact Hk.
Qed.

(* exact accounting including the clip: what the clip adds is the sum of its corrections *)
Lemma sumR_map_corr (f : R -> R) (l : vecR) : sumR (map f l) = sumR l + sumR (map (fun v => f v - v) l).
Proof. induction l as [|a l IH]; simpl; Rnorm; [lra|]. rewrite IH. lra. Qed.

Definition clip_gain (minc : R) (row : vecR) : R :=
  sumR (map (fun v => clipT Rops minc (1 - minc) v - v) row).

Lemma postProcess_sum minc (x : matR) e :
  sumR (rowOf (postProcess Rops minc x) e) = sumR (rowOf x e) + clip_gain minc (rowOf x e).
Proof. unfold postProcess. rewrite mmap_row. apply sumR_map_corr. Qed.

(* ---- steps and runs ------------------------------------------------------------------------------------------------ *)
Definition step_ok (ne n : nat) (s : stepdesc Rops) : Prop :=
  match s with
  | Euler _ F _ => flux_ok ne n F
  | RK4 _ F1 F2 F3 F4 _ => flux_ok ne n F1 /\ flux_ok ne n F2 /\ flux_ok ne n F3 /\ flux_ok ne n F4
  end.

Definition step_dt (s : stepdesc Rops) : R :=
  match s with Euler _ _ dt => dt | RK4 _ _ _ _ _ dt => dt end.

(* stage-weighted flux through the left / right end during one step *)
Definition step_JL bcs dz (s : stepdesc Rops) (x : matR) (e : nat) : R :=
  match s with
  | Euler _ F _ => JL (bcOf bcs e) (rowOf (F x) e)
  | RK4 _ F1 F2 F3 F4 dt => JLbar bcs dz dt F1 F2 F3 F4 x e
  end.
Definition step_JR bcs dz (s : stepdesc Rops) (x : matR) (e : nat) : R :=
  match s with
  | Euler _ F _ => JR (bcOf bcs e) (rowOf (F x) e)
  | RK4 _ F1 F2 F3 F4 dt => JRbar bcs dz dt F1 F2 F3 F4 x e
  end.

Section Steps.
Variables (bcs : list bcR) (dz minc : R) (ne n : nat).
Hypothesis Hn : (2 <= n)%nat.
Hypothesis Hb : length bcs = ne.

Lemma pre_step_shape s (x : matR) : shape ne n x -> step_ok ne n s -> shape ne n (pre_step Rops bcs dz s x).
Proof.
  intros Hx Hs. destruct s as [F dt|F1 F2 F3 F4 dt]; simpl in *.
  - apply euler_shape; auto.
  - destruct Hs as (A & B & C & D). apply rk4_shape; auto.
Qed.

Lemma step_shape s (x : matR) : shape ne n x -> step_ok ne n s -> shape ne n (step Rops bcs dz minc s x).
Proof. intros. unfold step. apply postProcess_shape. apply pre_step_shape; assumption. Qed.

(* over one step, before the clip, the mesh sum of every element changes by
   dt * (left end flux - right end flux) / dz *)
Lemma pre_step_balance s (x : matR) e : shape ne n x -> step_ok ne n s -> (e < ne)%nat ->
  sumR (rowOf (pre_step Rops bcs dz s x) e)
    = sumR (rowOf x e) + step_dt s * (step_JL bcs dz s x e - step_JR bcs dz s x e) / dz.
Proof.
  intros Hx Hs He. destruct s as [F dt|F1 F2 F3 F4 dt]; simpl in *.
  - apply (euler_balance _ _ _ _ _ ne n); auto.
  - destruct Hs as (A & B & C & D). apply (rk4_balance _ _ _ _ _ _ _ _ ne n); auto.
Qed.

Lemma step_balance s (x : matR) e : shape ne n x -> step_ok ne n s -> (e < ne)%nat ->
  sumR (rowOf (step Rops bcs dz minc s x) e)
    = sumR (rowOf x e) + step_dt s * (step_JL bcs dz s x e - step_JR bcs dz s x e) / dz
      + clip_gain minc (rowOf (pre_step Rops bcs dz s x) e).
Proof.
  intros Hx Hs He. unfold step. rewrite postProcess_sum. rewrite pre_step_balance by assumption. reflexivity.
Qed.

Lemma step_balance_noclip s (x : matR) e : shape ne n x -> step_ok ne n s -> (e < ne)%nat ->
  inrange minc (pre_step Rops bcs dz s x) ->
  sumR (rowOf (step Rops bcs dz minc s x) e)
    = sumR (rowOf x e) + step_dt s * (step_JL bcs dz s x e - step_JR bcs dz s x e) / dz.
Proof.
  intros Hx Hs He Hr. unfold step. rewrite postProcess_id by exact Hr. apply pre_step_balance; assumption.
Qed.

(* prescribed fluxes on both sides: the stage weights sum to one *)
Lemma step_flux_bc s (x : matR) e : ltype Rops (bcOf bcs e) = FluxBC -> rtype Rops (bcOf bcs e) = FluxBC ->
  step_JL bcs dz s x e = lval Rops (bcOf bcs e) /\ step_JR bcs dz s x e = rval Rops (bcOf bcs e).
Proof.
  intros Hl Hr. destruct s as [F dt|F1 F2 F3 F4 dt]; simpl; unfold JLbar, JRbar, JL, JR; rewrite Hl, Hr; split; try reflexivity; cbn [T Rops]; field.
Qed.

Lemma pre_step_node s (x : matR) e k : shape ne n x -> step_ok ne n s -> (e < ne)%nat -> (k < n)%nat ->
  (forall J, shape ne (n - 1) J -> nthR (rowOf (getdXdt Rops bcs dz J) e) k = 0) ->
  nthR (rowOf (pre_step Rops bcs dz s x) e) k = nthR (rowOf x e) k.
Proof.
  intros Hx Hs He Hk Hz. destruct s as [F dt|F1 F2 F3 F4 dt]; simpl in *.
  - apply (euler_node _ _ _ _ _ ne n); auto.
  - destruct Hs as (A & B & C & D). apply (rk4_node _ _ _ _ _ _ _ _ ne n); auto.
Qed.

Lemma step_node s (x : matR) e k : shape ne n x -> step_ok ne n s -> (e < ne)%nat -> (k < n)%nat ->
  (forall J, shape ne (n - 1) J -> nthR (rowOf (getdXdt Rops bcs dz J) e) k = 0) ->
  within minc (nthR (rowOf x e) k) ->
  nthR (rowOf (step Rops bcs dz minc s x) e) k = nthR (rowOf x e) k.
Proof.
  intros Hx Hs He Hk Hz Hw. unfold step.
  rewrite (postProcess_nth _ _ ne n) by (auto; apply pre_step_shape; auto).
  rewrite pre_step_node by assumption. apply clip_id. exact Hw.
Qed.

Definition steps_ok (steps : list (stepdesc Rops)) : Prop := Forall (step_ok ne n) steps.

Lemma run_shape steps (x : matR) : shape ne n x -> steps_ok steps -> shape ne n (run Rops bcs dz minc steps x).
Proof.
  revert x; induction steps as [|s r IH]; intros x Hx Hs; simpl; [exact Hx|].
  inversion Hs; subst. apply IH; [apply step_shape; assumption | assumption].
Qed.

Lemma run_node steps (x : matR) e k : shape ne n x -> steps_ok steps -> (e < ne)%nat -> (k < n)%nat ->
  (forall J, shape ne (n - 1) J -> nthR (rowOf (getdXdt Rops bcs dz J) e) k = 0) ->
  within minc (nthR (rowOf x e) k) ->
  nthR (rowOf (run Rops bcs dz minc steps x) e) k = nthR (rowOf x e) k.
Proof.
  revert x; induction steps as [|s r IH]; intros x Hx Hs He Hk Hz Hw; simpl; [reflexivity|].
  inversion Hs; subst.
  assert (E : nthR (rowOf (step Rops bcs dz minc s x) e) k = nthR (rowOf x e) k) by (apply step_node; assumption).
  rewrite IH; [exact E | apply step_shape; assumption | assumption | assumption | assumption | assumption | cbn [T Rops] in *; rewrite E; exact Hw].
Qed.

(* no step of the run needs the clip *)
Fixpoint noclip (steps : list (stepdesc Rops)) (x : matR) : Prop :=
  match steps with
  | [] => True
  | s :: r => inrange minc (pre_step Rops bcs dz s x) /\ noclip r (step Rops bcs dz minc s x)
  end.

(* accumulated boundary term  sum_steps dt * (J_left - J_right) / dz  of element e *)
Fixpoint btotal (e : nat) (steps : list (stepdesc Rops)) (x : matR) : R :=
  match steps with
  | [] => 0
  | s :: r => step_dt s * (step_JL bcs dz s x e - step_JR bcs dz s x e) / dz
              + btotal e r (step Rops bcs dz minc s x)
  end.

(* accumulated clip corrections of element e *)
Fixpoint ctotal (e : nat) (steps : list (stepdesc Rops)) (x : matR) : R :=
  match steps with
  | [] => 0
  | s :: r => clip_gain minc (rowOf (pre_step Rops bcs dz s x) e) + ctotal e r (step Rops bcs dz minc s x)
  end.

Lemma run_balance steps (x : matR) e : shape ne n x -> steps_ok steps -> (e < ne)%nat ->
  sumR (rowOf (run Rops bcs dz minc steps x) e) = sumR (rowOf x e) + btotal e steps x + ctotal e steps x.
Proof.
  revert x; induction steps as [|s r IH]; intros x Hx Hs He; simpl; [lra|].
  inversion Hs; subst. rewrite IH by (auto; apply step_shape; assumption).
  rewrite step_balance by assumption. lra.
Qed.

Lemma ctotal_noclip steps (x : matR) e : noclip steps x -> ctotal e steps x = 0.
Proof.
  revert x; induction steps as [|s r IH]; intros x Hc; cbn [ctotal noclip] in *; [reflexivity|].
  destruct Hc as [H1 H2]. rewrite IH by exact H2.
  replace (clip_gain minc (rowOf (pre_step Rops bcs dz s x) e)) with 0; [lra|].
  symmetry. pose proof (postProcess_sum minc (pre_step Rops bcs dz s x) e) as P.
  rewrite postProcess_id in P by exact H1. lra.
Qed.

Lemma run_balance_noclip steps (x : matR) e : shape ne n x -> steps_ok steps -> (e < ne)%nat ->
  noclip steps x ->
  sumR (rowOf (run Rops bcs dz minc steps x) e) = sumR (rowOf x e) + btotal e steps x.
Proof. intros. rewrite run_balance by assumption. rewrite ctotal_noclip by assumption. lra. Qed.

Definition total_time (steps : list (stepdesc Rops)) : R := sumR (map step_dt steps).

Lemma btotal_flux_bc steps (x : matR) e :
  ltype Rops (bcOf bcs e) = FluxBC -> rtype Rops (bcOf bcs e) = FluxBC ->
  btotal e steps x = total_time steps * (lval Rops (bcOf bcs e) - rval Rops (bcOf bcs e)) / dz.
Proof.
  intros Hl Hr. revert x; induction steps as [|s r IH]; intros x; unfold total_time in *; simpl; [Rring|].
  rewrite IH. destruct (step_flux_bc s x e Hl Hr) as [-> ->]. Rring.
Qed.

(* prescribed fluxes: the mesh sum moves by (elapsed time) * (left flux - right flux) / dz;
   closed boundaries (both values 0): constant *)
Lemma run_flux_bc steps (x : matR) e : shape ne n x -> steps_ok steps -> (e < ne)%nat -> noclip steps x ->
  ltype Rops (bcOf bcs e) = FluxBC -> rtype Rops (bcOf bcs e) = FluxBC ->
  sumR (rowOf (run Rops bcs dz minc steps x) e)
    = sumR (rowOf x e) + total_time steps * (lval Rops (bcOf bcs e) - rval Rops (bcOf bcs e)) / dz.
Proof. intros. rewrite run_balance_noclip by assumption. rewrite btotal_flux_bc by assumption. reflexivity. Qed.

Lemma run_closed steps (x : matR) e : shape ne n x -> steps_ok steps -> (e < ne)%nat -> noclip steps x ->
  bcOf bcs e = bc0 ->
  sumR (rowOf (run Rops bcs dz minc steps x) e) = sumR (rowOf x e).
Proof.
  intros Hx Hs He Hc Hb0. rewrite run_flux_bc by (auto; rewrite Hb0; reflexivity).
  rewrite Hb0. unfold bc0. cbn [lval rval]. Rring.
Qed.

(* fixed-composition nodes *)
Lemma run_dirichlet_left steps (x : matR) e : shape ne n x -> steps_ok steps -> (e < ne)%nat ->
  ltype Rops (bcOf bcs e) = CompBC -> within minc (nthR (rowOf x e) 0) ->
  nthR (rowOf (run Rops bcs dz minc steps x) e) 0 = nthR (rowOf x e) 0.
Proof.
  intros Hx Hs He Ht Hw. apply run_node; auto; [lia|].
  intros J HJ. apply (getdXdt_left_zero _ _ _ ne n); auto.
Qed.

Lemma run_dirichlet_right steps (x : matR) e : shape ne n x -> steps_ok steps -> (e < ne)%nat ->
  rtype Rops (bcOf bcs e) = CompBC -> within minc (nthR (rowOf x e) (n - 1)) ->
  nthR (rowOf (run Rops bcs dz minc steps x) e) (n - 1) = nthR (rowOf x e) (n - 1).
Proof.
  intros Hx Hs He Ht Hw. apply run_node; auto; [lia|].
  intros J HJ. apply (getdXdt_right_zero _ _ _ ne n); auto.
Qed.

Lemma run_app s1 s2 (x : matR) :
  run Rops bcs dz minc (s1 ++ s2) x = run Rops bcs dz minc s2 (run Rops bcs dz minc s1 x).
Proof. revert x; induction s1 as [|s r IH]; intros x; simpl; [reflexivity|apply IH]. Qed.

Lemma run_inrange steps (x : matR) : minc <= 1 - minc -> inrange minc x -> inrange minc (run Rops bcs dz minc steps x).
Proof.
  intros Hm. revert x; induction steps as [|s r IH]; intros x Hx; simpl; [exact Hx|].
  apply IH. unfold step. apply postProcess_bounds. exact Hm.
Qed.

End Steps.

(* ---- setup and consecutive solve calls -------------------------------------------------------------------------------- *)
Lemma shift1_bounds nAll minc v : 0 <= minc <= 1 / 2 -> (1 <= nAll)%Z -> v <= 1 ->
  within minc (shift1 Rops nAll minc v).
Proof.
  intros Hm Hn Hv. unfold shift1, within. Rnorm.
  assert (Hz : 1 <= IZR nAll) by (apply IZR_le; exact Hn).
  assert (Hz' : minc <= IZR nAll * minc) by nra.
  destruct (Rltb minc v) eqn:E1; Rbool.
  - destruct (Rltb (v - IZR nAll * minc) minc) eqn:E2; Rbool; lra.
  - destruct (Rltb v minc) eqn:E2; Rbool; lra.
Qed.

(* the documented shift: entries clear of the threshold are lowered by len(allElements)*min *)
Lemma shift1_value nAll minc v : 0 <= minc -> (IZR nAll + 1) * minc <= v ->
  (1 <= nAll)%Z -> shift1 Rops nAll minc v = v - IZR nAll * minc.
Proof.
  intros Hm Hv Hn. unfold shift1. Rnorm.
  assert (Hz : 1 <= IZR nAll) by (apply IZR_le; exact Hn).
  assert (Hz' : minc <= IZR nAll * minc) by nra.
  destruct (Rltb minc v) eqn:E1; Rbool.
  - destruct (Rltb (v - IZR nAll * minc) minc) eqn:E2; Rbool; [lra|reflexivity].
  - assert (minc = 0) by lra. subst minc.
    destruct (Rltb v 0) eqn:E2; Rbool; lra.
Qed.

Lemma setup_shift_inrange nAll minc (x : matR) : 0 <= minc <= 1 / 2 -> (1 <= nAll)%Z ->
  Forall (Forall (fun v => v <= 1)) x -> inrange minc (setup_shift Rops nAll minc x).
Proof.
  intros Hm Hn Hx. unfold inrange, setup_shift. apply Forall_map. eapply Forall_impl; [|exact Hx].
  intros row Hr. apply Forall_map. eapply Forall_impl; [|exact Hr].
  intros v Hv. apply shift1_bounds; assumption.
Qed.

Lemma setup_idempotent bcs nAll minc (s : mstate Rops) :
  setup Rops bcs nAll minc (setup Rops bcs nAll minc s) = setup Rops bcs nAll minc s.
Proof. unfold setup. destruct (isSetup Rops s) eqn:E; [rewrite E; reflexivity|reflexivity]. Qed.

Lemma setup_is_setup bcs nAll minc (s : mstate Rops) : isSetup Rops (setup Rops bcs nAll minc s) = true.
Proof. unfold setup. destruct (isSetup Rops s) eqn:E; [exact E|reflexivity]. Qed.

(* two consecutive solve calls are one call over the concatenated steps: nothing happens per call *)
Lemma solve_two_calls bcs dz nAll minc c1 c2 (s : mstate Rops) :
  solve_call Rops bcs dz nAll minc c2 (solve_call Rops bcs dz nAll minc c1 s)
    = solve_call Rops bcs dz nAll minc (c1 ++ c2) s.
Proof. unfold solve_call. rewrite run_app. reflexivity. Qed.

Lemma solve_calls_concat bcs dz nAll minc c cs (s : mstate Rops) :
  solve_calls Rops bcs dz nAll minc (c :: cs) s = solve_call Rops bcs dz nAll minc (concat (c :: cs)) s.
Proof.
  unfold solve_calls. cbn [fold_left concat]. revert c. induction cs as [|c2 cs IH]; intros c.
  - cbn [fold_left concat]. rewrite app_nil_r. reflexivity.
  - cbn [fold_left concat]. rewrite solve_two_calls. rewrite IH. cbn [concat]. rewrite app_assoc. reflexivity.
Qed.

(* initial profile: a composition condition installs its value at the end node *)
Lemma set_last_nth (l : vecR) v : l <> [] -> nthR (set_last Rops l v) (length l - 1) = v.
Proof.
  intros H. destruct (exists_last H) as (l' & a & ->). rewrite set_last_app, app_length. cbn [length].
  rewrite app_nth2 by lia. replace (length l' + 1 - 1 - length l')%nat with 0%nat by lia. reflexivity.
Qed.

Lemma set_last_length (l : vecR) v : length (set_last Rops l v) = length l.
Proof.
  destruct l as [|a l]; [reflexivity|]. destruct (exists_last (l:=a :: l) ltac:(discriminate)) as (l' & b & ->).
  rewrite set_last_app, !app_length. reflexivity.
Qed.

Lemma set_last_nth_other (l : vecR) v k : (k < length l - 1)%nat -> nthR (set_last Rops l v) k = nthR l k.
Proof.
  intros H. destruct l as [|a l]; [simpl in H; lia|].
  destruct (exists_last (l:=a :: l) ltac:(discriminate)) as (l' & b & E). rewrite E in *.
  rewrite set_last_app. rewrite app_length in H. cbn [length] in H. rewrite !app_nth1 by lia. reflexivity.
Qed.

Lemma init_bc_row_left b (row : vecR) : (2 <= length row)%nat -> ltype Rops b = CompBC ->
  nthR (init_bc_row Rops b row) 0 = lval Rops b.
Proof.
  intros H Hl. unfold init_bc_row. rewrite Hl.
  destruct row as [|a r]; [simpl in H; lia|]. cbn [set_first].
  destruct (rtype Rops b); [reflexivity|].
  rewrite set_last_nth_other by (cbn [length] in *; lia). reflexivity.
Qed.

Lemma init_bc_row_right b (row : vecR) : (2 <= length row)%nat -> rtype Rops b = CompBC ->
  nthR (init_bc_row Rops b row) (length row - 1) = rval Rops b.
Proof.
  intros H Hr. unfold init_bc_row. rewrite Hr.
  destruct (ltype Rops b).
  - apply set_last_nth. destruct row; [simpl in H; lia|discriminate].
  - rewrite <- (set_first_length row (lval Rops b)). apply set_last_nth.
    destruct row; [simpl in H; lia|discriminate].
Qed.

(* ---- volume-fixed frame ---------------------------------------------------------------------------------------------------- *)
Definition rows_len (n : nat) (A : matR) : Prop := Forall (fun r => length r = n) A.
Definition colR (A : matR) (i : nat) : vecR := map (fun r => nthR r i) A.

Lemma pick_Forall {A} (P : A -> Prop) mask (l : list A) : Forall P l -> Forall P (pick mask l).
Proof.
  intros H. revert mask. induction H as [|a l Ha Hl IH]; intros [|m ms]; simpl; auto.
  destruct m; auto.
Qed.

Lemma pick_map {A B} (f : A -> B) mask (l : list A) : pick mask (map f l) = map f (pick mask l).
Proof. revert l; induction mask as [|m ms IH]; intros [|a l]; simpl; auto. destruct m; simpl; rewrite IH; reflexivity. Qed.

Lemma colsum_length n (rows : matR) : rows_len n rows -> length (colsum Rops n rows) = n.
Proof.
  induction 1 as [|r rs Hr Hrs IH]; simpl; [apply repeat_length|].
  rewrite zipWith_length. cbn [T Rops] in *. rewrite IH, Hr. lia.
Qed.

Lemma nth_colsum n (rows : matR) i : rows_len n rows -> (i < n)%nat ->
  nthR (colsum Rops n rows) i = sumR (colR rows i).
Proof.
  intros H Hi. induction H as [|r rs Hr Hrs IH]; simpl.
  - rewrite nth_repeat. reflexivity.
  - rewrite (nth_zipWith _ _ _ _ _ 0 0); [| lia | rewrite colsum_length by assumption; lia].
    cbn [T Rops] in *. rewrite IH. reflexivity.
Qed.

Lemma vframe_col_sum mask (F U : matR) (S : vecR) n i :
  length F = length U -> rows_len n F -> rows_len n U -> length S = n -> (i < n)%nat ->
  sumR (colR (pick mask (zipWith (fun Fk uk => zipWith (sub Rops) Fk (zipWith (mul Rops) uk S)) F U)) i)
    = sumR (colR (pick mask F) i) - nthR S i * sumR (colR (pick mask U) i).
Proof.
  intros HL HF HU HS Hi. revert mask U HL HU.
  induction HF as [|f F Hf HF IH]; intros mask [|u U] HL HU; simpl in HL; try Lia.lia.
  - destruct mask; simpl; Rring.
  - inversion HU; subst. destruct mask as [|m ms]; [simpl; Rring|].
    cbn [zipWith pick]. destruct m.
    + unfold colR in *. cbn [map]. rewrite !sumR_cons. rewrite IH by (auto; Lia.lia).
      rewrite (nth_zipWith _ _ _ _ _ 0 0); [| lia | rewrite zipWith_length; lia].
      rewrite (nth_zipWith _ _ _ _ _ 0 0) by lia. Rring.
    + apply IH; auto; Lia.lia.
Qed.

Lemma vframe_rows_gen n (S : vecR) (F U : matR) : length S = n -> rows_len n F -> rows_len n U ->
  rows_len n (zipWith (fun Fk uk => zipWith (sub Rops) Fk (zipWith (mul Rops) uk S)) F U).
Proof.
  intros HS HF. revert U. induction HF as [|f F Hf HF IH]; intros [|u U] HU; simpl; try constructor.
  - inversion HU; subst. rewrite !zipWith_length. lia.
  - inversion HU; subst. apply IH; assumption.
Qed.

Lemma vframe_all_rows n mask (F U : matR) : rows_len n F -> rows_len n U ->
  rows_len n (vframe_all Rops n mask F U).
Proof.
  intros HF HU. unfold vframe_all. apply vframe_rows_gen; auto.
  apply colsum_length, pick_Forall; exact HF.
Qed.

(* in the volume-fixed frame the substitutional fluxes (reference element included) cancel at every face *)
Lemma volume_fixed_frame n mask (F U : matR) i :
  length F = length U -> rows_len n F -> rows_len n U -> (i < n)%nat ->
  nthR (colsum Rops n (pick mask U)) i = 1 ->
  nthR (colsum Rops n (pick mask (vframe_all Rops n mask F U))) i = 0.
Proof.
  intros HL HF HU Hi H1.
  rewrite nth_colsum by (auto; apply pick_Forall, vframe_all_rows; assumption).
  rewrite nth_colsum in H1 by (auto; apply pick_Forall; assumption).
  unfold vframe_all. rewrite (vframe_col_sum _ _ _ _ n) by (auto; apply colsum_length, pick_Forall; assumption).
  rewrite nth_colsum by (auto; apply pick_Forall; assumption). rewrite H1. Rring.
Qed.

(* u-fractions of the substitutional elements sum to one *)
Lemma colR_map_div (A : matR) (us : vecR) n i : rows_len n A -> length us = n -> (i < n)%nat ->
  sumR (colR (map (fun row => zipWith (dvd Rops) row us) A) i) = sumR (colR A i) / nthR us i.
Proof.
  intros HA Hu Hi. induction HA as [|r rs Hr Hrs IH]; unfold colR in *; cbn [map]; rewrite ?sumR_cons; [cbn; Rring|].
  cbn [T Rops] in *. rewrite IH. rewrite (nth_zipWith _ _ _ _ _ 0 0) by lia. Rring.
Qed.

Lemma u_frac_rows n mask (xf : matR) : rows_len n xf -> rows_len n (u_frac Rops n mask xf).
Proof.
  intros H. unfold u_frac, rows_len. apply Forall_map. eapply Forall_impl; [|exact H].
  intros r Hr. cbn beta. rewrite zipWith_length, colsum_length by (apply pick_Forall; exact H). lia.
Qed.

Lemma u_frac_sum n mask (xf : matR) i : rows_len n xf -> (i < n)%nat ->
  nthR (colsum Rops n (pick mask xf)) i <> 0 ->
  nthR (colsum Rops n (pick mask (u_frac Rops n mask xf))) i = 1.
Proof.
  intros H Hi Hnz.
  rewrite nth_colsum by (auto; apply pick_Forall, u_frac_rows; exact H).
  unfold u_frac. rewrite pick_map.
  rewrite (colR_map_div _ _ n) by (auto; try apply pick_Forall; auto; apply colsum_length, pick_Forall; exact H).
  rewrite <- (nth_colsum n) by (auto; apply pick_Forall; exact H).
  Rnorm. field. exact Hnz.
Qed.

Lemma colR_mids (A : matR) n i : rows_len n A -> (S i < n)%nat ->
  sumR (colR (map (mids Rops) A) i) = (sumR (colR A i) + sumR (colR A (S i))) / 2.
Proof.
  intros HA Hi. induction HA as [|r rs Hr Hrs IH]; unfold colR in *; cbn [map]; rewrite ?sumR_cons; [cbn; Rring|].
  cbn [T Rops] in *. rewrite IH. rewrite nth_mids by lia. Rring.
Qed.

Lemma mids_rows n (A : matR) : rows_len n A -> rows_len (n - 1) (map (mids Rops) A).
Proof.
  intros H. unfold rows_len. apply Forall_map. eapply Forall_impl; [|exact H].
  intros r Hr. cbn beta. rewrite mids_length. lia.
Qed.

(* ... and so do their face averages *)
Lemma avgU_sum n mask (u : matR) i : rows_len n u -> (S i < n)%nat ->
  nthR (colsum Rops n (pick mask u)) i = 1 -> nthR (colsum Rops n (pick mask u)) (S i) = 1 ->
  nthR (colsum Rops (n - 1) (pick mask (map (mids Rops) u))) i = 1.
Proof.
  intros H Hi H0 H1.
  rewrite nth_colsum by (try apply pick_Forall, mids_rows; auto; lia).
  rewrite pick_map. rewrite (colR_mids _ n) by (auto; apply pick_Forall; exact H).
  rewrite <- !(nth_colsum n) by (auto; try apply pick_Forall; auto; lia).
  cbn [T Rops] in *. rewrite H0, H1. field.
Qed.

(* ---- the two concrete flux models are admissible oracles -------------------------------------------------------------------- *)
Lemma shape_rows ne n (A : matR) : shape ne n A -> rows_len n A.
Proof.
  intros [H1 H2]. unfold rows_len. apply Forall_forall. intros r Hr.
  destruct (In_nth _ _ [] Hr) as (e & He & <-). apply H2. lia.
Qed.

Lemma rows_shape n (A : matR) : rows_len n A -> shape (length A) n A.
Proof.
  intros H. split; [reflexivity|]. intros e He.
  unfold rows_len in H. rewrite Forall_forall in H. apply H. apply nth_In. exact He.
Qed.

Lemma mid2_length (l : vecR) : length (mid2 Rops l) = (length l - 1)%nat.
Proof. induction l as [|a [|b l] IH]; simpl in *; auto. Lia.lia. Qed.

Lemma grad_length dz (row : vecR) : length (grad Rops dz row) = (length row - 1)%nat.
Proof. unfold grad. rewrite map_length. apply diffs_length. Qed.

Lemma mid2m_length (l : list matR) : length (mid2m Rops l) = (length l - 1)%nat.
Proof. induction l as [|a [|b l] IH]; simpl in *; auto. Lia.lia. Qed.

Lemma sp_interior_binary_shape dz (d : vecR) (x : matR) n : shape 1 n x -> length d = n ->
  shape 1 (n - 1) (sp_interior_binary Rops dz d x).
Proof.
  intros [X1 X2] Hd. destruct x as [|row [|r2 x]]; simpl in X1; try Lia.lia.
  specialize (X2 0%nat ltac:(Lia.lia)). simpl in X2.
  split; [reflexivity|]. intros e He. assert (e = 0)%nat as -> by Lia.lia. simpl.
  rewrite zipWith_length, mid2_length, grad_length. lia.
Qed.

Lemma sp_interior_multi_shape dz (D : list matR) (x : matR) ne n : shape ne n x -> length D = n ->
  shape ne (n - 1) (sp_interior_multi Rops dz D x).
Proof.
  intros [X1 X2] HD. unfold sp_interior_multi. split.
  - rewrite map_length, seq_length. exact X1.
  - intros e He. rewrite (nth_map_lt _ _ _ 0%nat) by (rewrite seq_length; lia).
    rewrite map_length, seq_length, mid2m_length. lia.
Qed.

Lemma zip4_length {A B C D E} (f : A -> B -> C -> D -> E) a b c d :
  length (zip4 f a b c d) = Nat.min (Nat.min (length a) (length b)) (Nat.min (length c) (length d)).
Proof.
  revert b c d; induction a as [|x a IH]; intros [|y b] [|z c] [|w d]; simpl; try rewrite IH; Lia.lia.
Qed.

Lemma map3_length {A B C D} (f : A -> B -> C -> D) a b c :
  length (map3 f a b c) = Nat.min (Nat.min (length a) (length b)) (length c).
Proof. revert b c; induction a as [|x a IH]; intros [|y b] [|z c]; simpl; auto. Qed.

Lemma map3_Forall {A B C D} (f : A -> B -> C -> D) (P1 : A -> Prop) (P2 : B -> Prop) (P3 : C -> Prop) (Q : D -> Prop) a b c :
  (forall x y z, P1 x -> P2 y -> P3 z -> Q (f x y z)) ->
  Forall P1 a -> Forall P2 b -> Forall P3 c -> Forall Q (map3 f a b c).
Proof.
  intros Hf Ha. revert b c. induction Ha as [|x a Hx Ha IH]; intros b c Hb Hc; simpl; [constructor|].
  destruct Hb as [|y b Hy Hb]; [constructor|]. destruct Hc as [|z c Hz Hc]; [constructor|].
  constructor; [apply Hf; assumption | apply IH; assumption].
Qed.

Lemma hom_row_length dz eps Rgas (Tmid M m ur : vecR) n : (1 <= n)%nat ->
  length Tmid = (n - 1)%nat -> length M = (n - 1)%nat -> length m = n -> length ur = n ->
  length (hom_row Rops dz eps Rgas Tmid M m ur) = (n - 1)%nat.
Proof.
  intros Hn HT HM Hm Hu. unfold hom_row.
  rewrite !zipWith_length, zip4_length, !grad_length, mids_length. lia.
Qed.

Lemma hom_lattice_rows dz eps Rgas (Mface mu u : matR) (Tn : vecR) n : (1 <= n)%nat -> length Tn = n ->
  rows_len (n - 1) Mface -> rows_len n mu -> rows_len n u ->
  rows_len (n - 1) (hom_lattice Rops dz eps Rgas Mface mu Tn u).
Proof.
  intros Hn HT HM Hm Hu. unfold hom_lattice, rows_len.
  apply (map3_Forall _ (fun r => length r = (n - 1)%nat) (fun r => length r = n) (fun r => length r = n)); auto.
  intros M m ur H1 H2 H3. apply (hom_row_length _ _ _ _ _ _ _ n); auto. rewrite mid2_length. lia.
Qed.

Lemma x_full_rows n (x : matR) : rows_len n x -> rows_len n (x_full Rops n x).
Proof.
  intros H. unfold x_full. constructor; [|exact H]. rewrite map_length. apply colsum_length. exact H.
Qed.

Section Hom.
Variables (dz eps Rgas : R) (subst : list bool) (Mface mu : matR) (Tn : vecR) (x : matR) (ne : nat).
Let n := length Tn.
Hypothesis Hn : (2 <= n)%nat.
Hypothesis Hx : shape ne n x.
Hypothesis HM : shape (S ne) (n - 1) Mface.
Hypothesis Hmu : shape (S ne) n mu.

Let u := u_frac Rops n subst (x_full Rops n x).
Let F := hom_lattice Rops dz eps Rgas Mface mu Tn u.
Let avgU := map (mids Rops) u.

Lemma hom_u_rows : rows_len n u.
Proof. unfold u. apply u_frac_rows, x_full_rows. apply (shape_rows ne). exact Hx. Qed.

Lemma hom_u_length : length u = S ne.
Proof. unfold u, u_frac, x_full. rewrite map_length. cbn [length]. destruct Hx as [E _]. lia. Qed.

Lemma hom_F_rows : rows_len (n - 1) F.
Proof.
  unfold F. apply hom_lattice_rows; auto; try lia.
  - apply (shape_rows (S ne)). exact HM.
  - apply (shape_rows (S ne)). exact Hmu.
  - apply hom_u_rows.
Qed.

Lemma hom_F_length : length F = S ne.
Proof.
  unfold F, hom_lattice. rewrite map3_length. pose proof hom_u_length as E3.
  destruct HM as [E1 _]. destruct Hmu as [E2 _]. lia.
Qed.

(* HomogenizationModel._getFluxes yields one row of n-1 interior faces per independent element *)
Lemma hom_interior_shape : shape ne (n - 1) (hom_interior Rops dz eps Rgas subst Mface mu Tn x).
Proof.
  change (shape ne (n - 1) (tl (vframe_all Rops (n - 1) subst F avgU))).
  pose proof (vframe_all_rows (n - 1) subst F avgU hom_F_rows (mids_rows n u hom_u_rows)) as HR.
  assert (HL : length (vframe_all Rops (n - 1) subst F avgU) = S ne).
  { unfold vframe_all. rewrite zipWith_length, hom_F_length. unfold avgU. rewrite map_length, hom_u_length. lia. }
  destruct (vframe_all Rops (n - 1) subst F avgU) as [|r0 rest] eqn:E; [simpl in HL; lia|].
  cbn [tl]. inversion HR; subst. simpl in HL.
  replace ne with (length rest) by lia. apply rows_shape. assumption.
Qed.

(* the volume-fixed fluxes of the substitutional elements (reference included) cancel at every face where
   the substitutional fractions of the two adjacent nodes do not vanish *)
Lemma hom_frame_closed i : (S i < n)%nat ->
  nthR (colsum Rops n (pick subst (x_full Rops n x))) i <> 0 ->
  nthR (colsum Rops n (pick subst (x_full Rops n x))) (S i) <> 0 ->
  nthR (colsum Rops (n - 1) (pick subst (vframe_all Rops (n - 1) subst F avgU))) i = 0.
Proof.
  intros Hi H0 H1. apply volume_fixed_frame.
  - pose proof hom_F_length as E1. pose proof hom_u_length as E2. unfold avgU. rewrite map_length. lia.
  - apply hom_F_rows.
  - apply mids_rows, hom_u_rows.
  - lia.
  - unfold avgU. apply (avgU_sum n); [apply hom_u_rows | exact Hi | |].
    + unfold u. apply u_frac_sum; [apply x_full_rows, (shape_rows ne), Hx | lia | exact H0].
    + unfold u. apply u_frac_sum; [apply x_full_rows, (shape_rows ne), Hx | lia | exact H1].
Qed.

End Hom.

(* ---- any number of consecutive solve calls ----------------------------------------------------------------------------------- *)
Section Calls.
Variables (bcs : list bcR) (dz minc : R) (nAll : Z) (ne n : nat).
Hypothesis Hn : (2 <= n)%nat.
Hypothesis Hb : length bcs = ne.

Lemma solve_calls_prescribed c cs (s : mstate Rops) e :
  let x0 := xs Rops (setup Rops bcs nAll minc s) in
  let steps := concat (c :: cs) in
  shape ne n x0 -> steps_ok ne n steps -> (e < ne)%nat -> noclip bcs dz minc steps x0 ->
  ltype Rops (bcOf bcs e) = FluxBC -> rtype Rops (bcOf bcs e) = FluxBC ->
  sumR (rowOf (xs Rops (solve_calls Rops bcs dz nAll minc (c :: cs) s)) e)
    = sumR (rowOf x0 e) + total_time steps * (lval Rops (bcOf bcs e) - rval Rops (bcOf bcs e)) / dz.
Proof.
  intros x0 steps Hx Hs He Hc Hl Hr. rewrite solve_calls_concat. unfold solve_call. cbn [xs].
  apply (run_flux_bc _ _ _ ne n); assumption.
Qed.

Lemma solve_calls_closed c cs (s : mstate Rops) e :
  let x0 := xs Rops (setup Rops bcs nAll minc s) in
  let steps := concat (c :: cs) in
  shape ne n x0 -> steps_ok ne n steps -> (e < ne)%nat -> noclip bcs dz minc steps x0 ->
  bcOf bcs e = bc0 ->
  sumR (rowOf (xs Rops (solve_calls Rops bcs dz nAll minc (c :: cs) s)) e) = sumR (rowOf x0 e).
Proof.
  intros x0 steps Hx Hs He Hc Hb0. rewrite solve_calls_concat. unfold solve_call. cbn [xs].
  apply (run_closed _ _ _ ne n); assumption.
Qed.

Lemma solve_calls_dirichlet_left c cs (s : mstate Rops) e :
  let x0 := xs Rops (setup Rops bcs nAll minc s) in
  let steps := concat (c :: cs) in
  shape ne n x0 -> steps_ok ne n steps -> (e < ne)%nat ->
  ltype Rops (bcOf bcs e) = CompBC -> within minc (nthR (rowOf x0 e) 0) ->
  nthR (rowOf (xs Rops (solve_calls Rops bcs dz nAll minc (c :: cs) s)) e) 0 = nthR (rowOf x0 e) 0.
Proof.
  intros x0 steps Hx Hs He Ht Hw. rewrite solve_calls_concat. unfold solve_call. cbn [xs].
  apply (run_dirichlet_left _ _ _ ne n); assumption.
Qed.

Lemma solve_calls_dirichlet_right c cs (s : mstate Rops) e :
  let x0 := xs Rops (setup Rops bcs nAll minc s) in
  let steps := concat (c :: cs) in
  shape ne n x0 -> steps_ok ne n steps -> (e < ne)%nat ->
  rtype Rops (bcOf bcs e) = CompBC -> within minc (nthR (rowOf x0 e) (n - 1)) ->
  nthR (rowOf (xs Rops (solve_calls Rops bcs dz nAll minc (c :: cs) s)) e) (n - 1) = nthR (rowOf x0 e) (n - 1).
Proof.
  intros x0 steps Hx Hs He Ht Hw. rewrite solve_calls_concat. unfold solve_call. cbn [xs].
  apply (run_dirichlet_right _ _ _ ne n); assumption.
Qed.

End Calls.

(* ---- statements in the form used by Properties.v ------------------------------------------------------------------------------- *)
Lemma clip_inactive_iff minc (x : matR) : minc <= 1 - minc ->
  (postProcess Rops minc x = x <-> inrange minc x).
Proof. intros H. split; [exact (postProcess_fix_inrange minc x H) | exact (postProcess_id minc x)]. Qed.

Lemma initial_boundary_values b (row : vecR) : (2 <= length row)%nat ->
  (ltype Rops b = CompBC -> nthR (init_bc_row Rops b row) 0 = lval Rops b) /\
  (rtype Rops b = CompBC -> nthR (init_bc_row Rops b row) (length row - 1) = rval Rops b).
Proof. intros H. split; [exact (init_bc_row_left b row H) | exact (init_bc_row_right b row H)]. Qed.

Lemma sp_binary_is_oracle dz (dfun : matR -> vecR) n :
  (forall y, length (dfun y) = n) -> flux_ok 1 n (fun y => sp_interior_binary Rops dz (dfun y) y).
Proof. intros H y Hy. exact (sp_interior_binary_shape dz (dfun y) y n Hy (H y)). Qed.

Lemma sp_multi_is_oracle dz (Dfun : matR -> list matR) ne n :
  (forall y, length (Dfun y) = n) -> flux_ok ne n (fun y => sp_interior_multi Rops dz (Dfun y) y).
Proof. intros H y Hy. exact (sp_interior_multi_shape dz (Dfun y) y ne n Hy (H y)). Qed.

Lemma hom_is_oracle dz eps Rgas subst (Mfun mufun : matR -> matR) (Tn : vecR) ne :
  (2 <= length Tn)%nat ->
  (forall y, shape (S ne) (length Tn - 1) (Mfun y)) -> (forall y, shape (S ne) (length Tn) (mufun y)) ->
  flux_ok ne (length Tn) (fun y => hom_interior Rops dz eps Rgas subst (Mfun y) (mufun y) Tn y).
Proof. intros Hn HM Hmu y Hy. exact (hom_interior_shape dz eps Rgas subst (Mfun y) (mufun y) Tn y ne Hn Hy (HM y) (Hmu y)). Qed.

(* ---- solve calls with boundary conditions and constraints edited in between ---------------------------------------------------- *)
Section CallEnv.
Variables (dz : R) (ne n : nat).
Hypothesis Hn : (2 <= n)%nat.

Definition call_ok (c : callenv Rops) : Prop :=
  length (c_bcs Rops c) = ne /\ steps_ok ne n (c_steps Rops c).
Definition calls_ok (cs : list (callenv Rops)) : Prop := Forall call_ok cs.

Lemma run_call_shape c (x : matR) : shape ne n x -> call_ok c -> shape ne n (run_call Rops dz c x).
Proof. intros Hx [Hb Hs]. unfold run_call. apply (run_shape _ _ _ ne n); assumption. Qed.

Lemma run_calls_shape cs (x : matR) : shape ne n x -> calls_ok cs -> shape ne n (run_calls Rops dz cs x).
Proof.
  revert x; induction cs as [|c r IH]; intros x Hx Hc; simpl; [exact Hx|].
  inversion Hc; subst. apply IH; [apply run_call_shape; assumption | assumption].
Qed.

(* accumulated boundary and clip terms, each call with its own conditions and limits *)
Fixpoint calls_btotal (e : nat) (cs : list (callenv Rops)) (x : matR) : R :=
  match cs with
  | [] => 0
  | c :: r => btotal (c_bcs Rops c) dz (c_minc Rops c) e (c_steps Rops c) x + calls_btotal e r (run_call Rops dz c x)
  end.
Fixpoint calls_ctotal (e : nat) (cs : list (callenv Rops)) (x : matR) : R :=
  match cs with
  | [] => 0
  | c :: r => ctotal (c_bcs Rops c) dz (c_minc Rops c) e (c_steps Rops c) x + calls_ctotal e r (run_call Rops dz c x)
  end.
Fixpoint calls_noclip (cs : list (callenv Rops)) (x : matR) : Prop :=
  match cs with
  | [] => True
  | c :: r => noclip (c_bcs Rops c) dz (c_minc Rops c) (c_steps Rops c) x /\ calls_noclip r (run_call Rops dz c x)
  end.

Lemma run_calls_balance cs (x : matR) e : shape ne n x -> calls_ok cs -> (e < ne)%nat ->
  sumR (rowOf (run_calls Rops dz cs x) e) = sumR (rowOf x e) + calls_btotal e cs x + calls_ctotal e cs x.
Proof.
  revert x; induction cs as [|c r IH]; intros x Hx Hc He; simpl; [lra|].
  inversion Hc as [|? ? Hc1 Hc2]; subst. rewrite IH by (auto; apply run_call_shape; assumption).
  destruct Hc1 as [Hb Hs]. unfold run_call at 1. rewrite (run_balance _ _ _ ne n) by assumption. lra.
Qed.

(* element e has prescribed fluxes in every call (the values may differ from call to call) *)
Fixpoint calls_flux_total (e : nat) (cs : list (callenv Rops)) : R :=
  match cs with
  | [] => 0
  | c :: r => total_time (c_steps Rops c) * (lval Rops (bcOf (c_bcs Rops c) e) - rval Rops (bcOf (c_bcs Rops c) e)) / dz
              + calls_flux_total e r
  end.
Definition calls_prescribed_bc (e : nat) (cs : list (callenv Rops)) : Prop :=
  Forall (fun c => ltype Rops (bcOf (c_bcs Rops c) e) = FluxBC /\ rtype Rops (bcOf (c_bcs Rops c) e) = FluxBC) cs.

Lemma run_calls_prescribed cs (x : matR) e : shape ne n x -> calls_ok cs -> (e < ne)%nat ->
  calls_noclip cs x -> calls_prescribed_bc e cs ->
  sumR (rowOf (run_calls Rops dz cs x) e) = sumR (rowOf x e) + calls_flux_total e cs.
Proof.
  revert x; induction cs as [|c r IH]; intros x Hx Hc He Hn0 Hp; simpl; [lra|].
  inversion Hc as [|? ? Hc1 Hc2]; subst. inversion Hp as [|? ? [Hl Hr] Hp2]; subst. destruct Hn0 as [N1 N2].
  rewrite IH by (auto; apply run_call_shape; assumption).
  destruct Hc1 as [Hb Hs]. unfold run_call at 1. rewrite (run_flux_bc _ _ _ ne n) by assumption. lra.
Qed.

(* closed in every call: constant, whatever else was edited between the calls *)
Lemma run_calls_closed cs (x : matR) e : shape ne n x -> calls_ok cs -> (e < ne)%nat ->
  calls_noclip cs x -> Forall (fun c => bcOf (c_bcs Rops c) e = bc0) cs ->
  sumR (rowOf (run_calls Rops dz cs x) e) = sumR (rowOf x e).
Proof.
  revert x; induction cs as [|c r IH]; intros x Hx Hc He Hn0 Hp; simpl; [reflexivity|].
  inversion Hc as [|? ? Hc1 Hc2]; subst. inversion Hp as [|? ? Hb0 Hp2]; subst. destruct Hn0 as [N1 N2].
  rewrite IH by (auto; apply run_call_shape; assumption).
  destruct Hc1 as [Hb Hs]. unfold run_call. apply (run_closed _ _ _ ne n); assumption.
Qed.

(* a node that carries a composition condition in every call keeps its value, provided the value lies
   within the limits of every call *)
Lemma run_calls_dirichlet_left cs (x : matR) e : shape ne n x -> calls_ok cs -> (e < ne)%nat ->
  Forall (fun c => ltype Rops (bcOf (c_bcs Rops c) e) = CompBC /\ within (c_minc Rops c) (nthR (rowOf x e) 0)) cs ->
  nthR (rowOf (run_calls Rops dz cs x) e) 0 = nthR (rowOf x e) 0.
Proof.
  revert x; induction cs as [|c r IH]; intros x Hx Hc He Hp; simpl; [reflexivity|].
  inversion Hc as [|? ? Hc1 Hc2]; subst. inversion Hp as [|? ? [Ht Hw] Hp2]; subst. destruct Hc1 as [Hb Hs].
  assert (E : nthR (rowOf (run_call Rops dz c x) e) 0 = nthR (rowOf x e) 0)
    by (unfold run_call; apply (run_dirichlet_left _ _ _ ne n); assumption).
  rewrite IH; [exact E | apply run_call_shape; [assumption | split; assumption] | assumption | assumption |].
  eapply Forall_impl; [|exact Hp2]. intros c' [H1 H2]. split; [exact H1|]. cbn [T Rops] in *. rewrite E. exact H2.
Qed.

Lemma run_calls_dirichlet_right cs (x : matR) e : shape ne n x -> calls_ok cs -> (e < ne)%nat ->
  Forall (fun c => rtype Rops (bcOf (c_bcs Rops c) e) = CompBC /\ within (c_minc Rops c) (nthR (rowOf x e) (n - 1))) cs ->
  nthR (rowOf (run_calls Rops dz cs x) e) (n - 1) = nthR (rowOf x e) (n - 1).
Proof.
  revert x; induction cs as [|c r IH]; intros x Hx Hc He Hp; simpl; [reflexivity|].
  inversion Hc as [|? ? Hc1 Hc2]; subst. inversion Hp as [|? ? [Ht Hw] Hp2]; subst. destruct Hc1 as [Hb Hs].
  assert (E : nthR (rowOf (run_call Rops dz c x) e) (n - 1) = nthR (rowOf x e) (n - 1))
    by (unfold run_call; apply (run_dirichlet_right _ _ _ ne n); assumption).
  rewrite IH; [exact E | apply run_call_shape; [assumption | split; assumption] | assumption | assumption |].
  eapply Forall_impl; [|exact Hp2]. intros c' [H1 H2]. split; [exact H1|]. cbn [T Rops] in *. rewrite E. exact H2.
Qed.

End CallEnv.

(* after a call that made at least one step every entry lies within the limits in force during THAT call *)
Lemma run_nonempty_inrange bcs dz minc steps (x : matR) : minc <= 1 - minc -> steps <> [] ->
  inrange minc (run Rops bcs dz minc steps x).
Proof.
  intros Hm. revert x; induction steps as [|s r IH]; intros x Hne; [congruence|].
  cbn [run]. destruct r as [|s2 r].
  - cbn [run]. unfold step. apply postProcess_bounds. exact Hm.
  - apply IH. discriminate.
Qed.

Lemma run_call_bounds dz (c : callenv Rops) (x : matR) : c_minc Rops c <= 1 - c_minc Rops c -> c_steps Rops c <> [] ->
  inrange (c_minc Rops c) (run_call Rops dz c x).
Proof. intros. unfold run_call. apply run_nonempty_inrange; assumption. Qed.
