(* C04 - faithful model of the conservative part of kawin's 1-D diffusion models:
     kawin/diffusion/Diffusion.py        getdXdt (427-432), setup (384-407), postProcess (437-447)
     kawin/diffusion/DiffusionParameters.py  BoundaryConditions.applyBoundaryConditionsToFluxes (199-215),
                                         applyBoundaryConditionsToInitialProfile (181-197)
     kawin/diffusion/SinglePhase.py      _getFluxes (5-58)     (interdiffusivity per node = oracle values)
     kawin/diffusion/Homogenization.py   _getFluxes (82-135)   (face mobility, chemical potentials = oracle values)
     kawin/solver/Iterators.py           ExplicitEulerIterator / RK4Iterator stage combination (written
                                         locally; the stage right-hand sides are arbitrary flux oracles)
   Executable definitions only (no proofs), polymorphic in the scalar record.
   Layout: a composition profile is a matrix  elements x nodes  (list of rows); a flux array is
   elements x (nodes+1) faces.  *)
From Coq Require Import List Bool ZArith Arith.
Require Import Kawin.Common.Ops Kawin.Common.Vec.
Import ListNotations.

Inductive bctype := FluxBC | CompBC.

Section C04.
Variable O : Ops.
Notation t := (T O).
Notation vec := (list t).
Notation mat := (list (list t)).

(* boundary condition of one element: (type, value) per side *)
Record bc := mkbc { ltype : bctype; lval : t; rtype : bctype; rval : t }.

(* ---- numpy-style single-entry assignments -------------------------------------------------- *)
(* a[0] = v *)
Definition set_first (l : vec) (v : t) : vec :=
  match l with [] => [] | _ :: r => v :: r end.
(* a[-1] = v *)
Fixpoint set_last (l : vec) (v : t) : vec :=
  match l with
  | [] => []
  | a :: r => match r with [] => [v] | _ :: _ => a :: set_last r v end
  end.

(* ---- fluxes ---------------------------------------------------------------------------------- *)
(* fluxes = np.zeros(N+1); fluxes[1:-1] = interior *)
Definition faces_of (Jint : vec) : vec := zero O :: Jint ++ [zero O].

(* applyBoundaryConditionsToFluxes, one row:
     fluxes[i,0]  = leftBC  if leftBCtype  == FLUX_BC else fluxes[i,1]
     fluxes[i,-1] = rightBC if rightBCtype == FLUX_BC else fluxes[i,-2]     (second reads the first's result) *)
Definition applyBC_row (b : bc) (J : vec) : vec :=
  let J1 := set_first J (match ltype b with FluxBC => lval b | CompBC => nth 1 J (zero O) end) in
  set_last J1 (match rtype b with FluxBC => rval b | CompBC => nth (length J1 - 2) J1 (zero O) end).

Definition applyBC (bcs : list bc) (J : mat) : mat := zipWith applyBC_row bcs J.

(* what _getFluxes returns for given interior face fluxes (rows of N-1 values) *)
Definition fluxes_of (bcs : list bc) (Jint : mat) : mat := applyBC bcs (map faces_of Jint).

(* getdXdt:  -(fluxes[:,1:] - fluxes[:,:-1]) / dz *)
Definition dXdt_row (dz : t) (J : vec) : vec :=
  zipWith (fun a b => dvd O (negT O (sub O a b)) dz) (tail_ J) (init_ J).
Definition dXdt_of (dz : t) (J : mat) : mat := map (dXdt_row dz) J.
Definition getdXdt (bcs : list bc) (dz : t) (Jint : mat) : mat := dXdt_of dz (fluxes_of bcs Jint).

(* ---- iterators (DESolver._updateX:  x + dxdt*dt) --------------------------------------------- *)
Definition mzip (f : t -> t -> t) (A B : mat) : mat := zipWith (zipWith f) A B.
Definition axpy (x d : mat) (h : t) : mat := mzip (fun a b => add O a (mul O b h)) x d.
Definition two : t := ofZ O 2.
Definition six : t := ofZ O 6.

(* a flux oracle: profile -> interior face fluxes.  Time, temperature field, diffusivities,
   homogenisation rule are all hidden in it; each stage has its own. *)
Definition oracle := mat -> mat.

Definition euler_pre (bcs : list bc) (dz : t) (F : oracle) (dt : t) (x : mat) : mat :=
  axpy x (getdXdt bcs dz (F x)) dt.

(* RK4Iterator:  k1 = f(x); k2 = f(x + k1 dt/2); k3 = f(x + k2 dt/2); k4 = f(x + k3 dt);
                 x + ((k1 + 2 k2 + 2 k3 + k4)/6) dt *)
Definition rk4_X1 bcs dz (F1 : oracle) dt x : mat := axpy x (getdXdt bcs dz (F1 x)) (dvd O dt two).
Definition rk4_X2 bcs dz (F1 F2 : oracle) dt x : mat :=
  axpy x (getdXdt bcs dz (F2 (rk4_X1 bcs dz F1 dt x))) (dvd O dt two).
Definition rk4_X3 bcs dz (F1 F2 F3 : oracle) dt x : mat :=
  axpy x (getdXdt bcs dz (F3 (rk4_X2 bcs dz F1 F2 dt x))) dt.
Definition rk4_sum (k1 k2 k3 k4 : mat) : mat :=
  mzip (add O) (mzip (add O) (mzip (add O) k1 (map (map (mul O two)) k2)) (map (map (mul O two)) k3)) k4.
Definition rk4_pre bcs dz (F1 F2 F3 F4 : oracle) dt x : mat :=
  let k1 := getdXdt bcs dz (F1 x) in
  let k2 := getdXdt bcs dz (F2 (rk4_X1 bcs dz F1 dt x)) in
  let k3 := getdXdt bcs dz (F3 (rk4_X2 bcs dz F1 F2 dt x)) in
  let k4 := getdXdt bcs dz (F4 (rk4_X3 bcs dz F1 F2 F3 dt x)) in
  axpy x (map (map (fun v => dvd O v six)) (rk4_sum k1 k2 k3 k4)) dt.

(* ---- postProcess: np.clip(x, minComposition, 1 - minComposition) ----------------------------- *)
Definition clipT (lo hi v : t) : t := minT O (maxT O v lo) hi.
Definition postProcess (minc : t) (x : mat) : mat := map (map (clipT minc (sub O (one O) minc))) x.

Inductive stepdesc :=
| Euler (F : oracle) (dt : t)
| RK4 (F1 F2 F3 F4 : oracle) (dt : t).

Definition pre_step bcs dz (s : stepdesc) (x : mat) : mat :=
  match s with
  | Euler F dt => euler_pre bcs dz F dt x
  | RK4 F1 F2 F3 F4 dt => rk4_pre bcs dz F1 F2 F3 F4 dt x
  end.
Definition step bcs dz minc (s : stepdesc) (x : mat) : mat := postProcess minc (pre_step bcs dz s x).
Fixpoint run bcs dz minc (steps : list stepdesc) (x : mat) : mat :=
  match steps with [] => x | s :: r => run bcs dz minc r (step bcs dz minc s x) end.

(* ---- setup ----------------------------------------------------------------------------------- *)
(* applyBoundaryConditionsToInitialProfile *)
Definition init_bc_row (b : bc) (row : vec) : vec :=
  let r1 := match ltype b with CompBC => set_first row (lval b) | FluxBC => row end in
  match rtype b with CompBC => set_last r1 (rval b) | FluxBC => r1 end.
Definition init_bc (bcs : list bc) (x : mat) : mat := zipWith init_bc_row bcs x.

(* x[x > min] = x[x > min] - len(allElements)*min ;  x[x < min] = min   (second mask on the updated array) *)
Definition shift1 (nAll : Z) (minc v : t) : t :=
  let v1 := if ltb O minc v then sub O v (mul O (ofZ O nAll) minc) else v in
  if ltb O v1 minc then minc else v1.
Definition setup_shift (nAll : Z) (minc : t) (x : mat) : mat := map (map (shift1 nAll minc)) x.

Record mstate := mkst { isSetup : bool; xs : mat }.

(* DiffusionModel.setup after the repair (fixes/C04-setup-once.patch): profile construction, boundary
   values, shift and clamp happen once, guarded by isSetup.  [xs] of a state that is not set up is the
   profile produced by CompositionProfile.buildProfile (an arbitrary input of the theorems). *)
Definition setup (bcs : list bc) (nAll : Z) (minc : t) (s : mstate) : mstate :=
  if isSetup s then s
  else mkst true (setup_shift nAll minc (init_bc bcs (xs s))).

(* the unrepaired code ran shift and clamp on every call *)
Definition setup_unrepaired (bcs : list bc) (nAll : Z) (minc : t) (s : mstate) : mstate :=
  mkst true (setup_shift nAll minc (if isSetup s then xs s else init_bc bcs (xs s))).

(* GenericModel.solve: setup, then the solver loop (any number of steps, any step sizes) *)
Definition solve_call bcs dz nAll minc (steps : list stepdesc) (s : mstate) : mstate :=
  mkst true (run bcs dz minc steps (xs (setup bcs nAll minc s))).
Definition solve_call_unrepaired bcs dz nAll minc (steps : list stepdesc) (s : mstate) : mstate :=
  mkst true (run bcs dz minc steps (xs (setup_unrepaired bcs nAll minc s))).
Definition solve_calls bcs dz nAll minc (calls : list (list stepdesc)) (s : mstate) : mstate :=
  fold_left (fun st c => solve_call bcs dz nAll minc c st) calls s.

(* consecutive solve calls between which the user edits the boundary conditions (setBC /
   setBoundaryCondition) and the constraints (constraints.minComposition): every call has its own
   boundary-condition table and its own clip limits, both read live by the code; setup ran before the
   first call and does nothing afterwards *)
Record callenv := mkcall { c_bcs : list bc; c_minc : t; c_steps : list stepdesc }.
Definition run_call (dz : t) (c : callenv) (x : mat) : mat := run (c_bcs c) dz (c_minc c) (c_steps c) x.
Fixpoint run_calls (dz : t) (cs : list callenv) (x : mat) : mat :=
  match cs with [] => x | c :: r => run_calls dz r (run_call dz c x) end.
Definition solve_calls_env (dz : t) (nAll : Z) (c0 : callenv) (cs : list callenv) (s : mstate) : mat :=
  run_calls dz (c0 :: cs) (xs (setup (c_bcs c0) nAll (c_minc c0) s)).

(* ---- SinglePhaseModel._getFluxes: interior fluxes from per-node interdiffusivities ----------- *)
(* binary: d (N,), dmid = (d[1:] + d[:-1])/2, dxdz = (x[1:] - x[:-1])/dz, flux = -dmid * dxdz *)
Fixpoint mid2 (l : vec) : vec :=
  match l with
  | a :: ((b :: _) as r) => dvd O (add O b a) two :: mid2 r
  | _ => []
  end.
Definition grad (dz : t) (row : vec) : vec := map (fun v => dvd O v dz) (diffs O row).
Definition sp_interior_binary (dz : t) (d : vec) (x : mat) : mat :=
  match x with
  | row :: _ => [zipWith (fun dm g => mul O (negT O dm) g) (mid2 d) (grad dz row)]
  | [] => []
  end.

(* multicomponent: D per node is an (e x e) matrix; flux[e,i] = -(sum_j dmid[i][e][j] * dxdz[j][i]) *)
Fixpoint mid2m (l : list mat) : list mat :=
  match l with
  | a :: ((b :: _) as r) => mzip (fun p q => dvd O (add O p q) two) b a :: mid2m r
  | _ => []
  end.
Definition col (A : mat) (i : nat) : vec := map (fun r => nthT O r i) A.
Definition dot (a b : vec) : t := sumT O (zipWith (mul O) a b).
Definition sp_interior_multi (dz : t) (D : list mat) (x : mat) : mat :=
  let g := map (grad dz) x in                      (* e x (N-1) *)
  let dm := mid2m D in                             (* (N-1) matrices *)
  map (fun e => map (fun i => negT O (dot (nth e (nth i dm []) []) (col g i))) (seq 0 (length dm)))
      (seq 0 (length x)).

(* ---- HomogenizationModel._getFluxes ---------------------------------------------------------- *)
(* np.sum(rows, axis=0) over rows of length n *)
Fixpoint colsum (n : nat) (rows : mat) : vec :=
  match rows with [] => repeat (zero O) n | r :: rs => zipWith (add O) r (colsum n rs) end.
(* rows of the substitutional elements ([elements[i] not in interstitials]) *)
Fixpoint pick {A} (mask : list bool) (rows : list A) : list A :=
  match mask, rows with
  | m :: ms, r :: rs => if m then r :: pick ms rs else pick ms rs
  | _, _ => []
  end.
(* x_full = concatenate(([1 - sum(x, axis=0)], x)) *)
Definition x_full (n : nat) (x : mat) : mat := map (fun s => sub O (one O) s) (colsum n x) :: x.
(* x_to_u_frac: u = x / sum(substitutional x) *)
Definition u_frac (n : nat) (subst : list bool) (xf : mat) : mat :=
  let us := colsum n (pick subst xf) in map (fun row => zipWith (dvd O) row us) xf.

Fixpoint zip4 {A B C D E} (f : A -> B -> C -> D -> E) (a : list A) (b : list B) (c : list C) (d : list D) : list E :=
  match a, b, c, d with
  | x :: a', y :: b', z :: c', w :: d' => f x y z w :: zip4 f a' b' c' d'
  | _, _, _, _ => []
  end.

Fixpoint map3 {A B C D} (f : A -> B -> C -> D) (a : list A) (b : list B) (c : list C) : list D :=
  match a, b, c with
  | x :: a', y :: b', z :: c' => f x y z :: map3 f a' b' c'
  | _, _, _ => []
  end.

(* lattice-frame fluxes, rows for ALL elements (reference first):
     F = -M * dmudz ;  where avgU != 0:  F += -eps * M * R * Tmid * dudz / avgU *)
Definition hom_row (dz eps Rgas : t) (Tmid : vec) (M m ur : vec) : vec :=
  let avgU := mids O ur in
  let dmu := grad dz m in
  let du := grad dz ur in
  zipWith (fun F0 idl => add O F0 idl)
    (zipWith (fun Mk g => mul O (negT O Mk) g) M dmu)
    (zip4 (fun Mk Tm g a =>
             if eqb O a (zero O) then zero O
             else dvd O (mul O (mul O (mul O (mul O (negT O eps) Mk) Rgas) Tm) g) a)
          M Tmid du avgU).
Definition hom_lattice (dz eps Rgas : t) (Mface mu : mat) (Tn : vec) (u : mat) : mat :=
  map3 (hom_row dz eps Rgas (mid2 Tn)) Mface mu u.

(* volume-fixed frame, rows for ALL elements:  Jv_k = J_k - avgU_k * sum_{j substitutional} J_j *)
Definition vframe_all (n : nat) (subst : list bool) (F avgU : mat) : mat :=
  let S := colsum n (pick subst F) in
  zipWith (fun Fk uk => zipWith (sub O) Fk (zipWith (mul O) uk S)) F avgU.

(* interior faces of vfluxes: rows of the independent elements (reference row dropped) *)
Definition hom_interior (dz eps Rgas : t) (subst : list bool) (Mface mu : mat) (Tn : vec) (x : mat) : mat :=
  let n := length Tn in
  let u := u_frac n subst (x_full n x) in
  let F := hom_lattice dz eps Rgas Mface mu Tn u in
  tl (vframe_all (n - 1) subst F (map (mids O) u)).

End C04.

Arguments pick {A} mask rows.
Arguments zip4 {A B C D E} f a b c d.
Arguments map3 {A B C D} f a b c.
