(* C15 - property theorems about the hand model (coq/C15/Model.v) of
   kawin/precipitation/parameters/ShapeFactors.py; the same statements about the text generated from
   the current source are in run/GenProperties.v (the generated text is proved equal to the hand model
   in run/Bridge.v).  Only theorems, each closed by [exact] of a lemma and followed by Print Assumptions.

   Aspect ratios are arbitrary reals subject to the stated guard (no upper bound 100 is needed);
   [normalRadii d], [eqRadiusFactor d], [kineticFactor d], [thermoFactor d] are the PUBLIC functions of
   a description (clamp below 1, `...Min` at 1, formula above 1). *)
From Coq Require Import Reals List Bool ZArith.
From Coquelicot Require Import Coquelicot.
Require Import Kawin.Common.Ops Kawin.Common.Vec Kawin.C15.Model Kawin.C15.Proofs Kawin.C15.Bisection Kawin.C15.Analysis Kawin.C15.Geometry Kawin.C15.Capacitance.
Open Scope R_scope.

(* ---- semi-axes: unit volume and the requested aspect ratio ------------------------------------ *)
Theorem C15_sphere_axes ar :
  let v := normalRadii Sphere ar in
  ellipsoid_volume (ax1 v) (ax2 v) (ax3 v) = 1 /\ ax1 v = ax2 v /\ ax2 v = ax3 v /\ 0 < ax1 v.
Proof. exact (sphere_axes_public ar). Qed.
Print Assumptions C15_sphere_axes.

Theorem C15_needle_axes ar : 1 <= ar ->
  let v := normalRadii Needle ar in
  ellipsoid_volume (ax1 v) (ax2 v) (ax3 v) = 1 /\ ax1 v = ax2 v /\ ax3 v = ar * ax1 v /\ 0 < ax1 v.
Proof. exact (needle_axes_public ar). Qed.
Print Assumptions C15_needle_axes.

Theorem C15_plate_axes ar : 1 <= ar ->
  let v := normalRadii Plate ar in
  ellipsoid_volume (ax1 v) (ax2 v) (ax3 v) = 1 /\ ax1 v = ax2 v /\ ax1 v = ar * ax3 v /\ 0 < ax3 v.
Proof. exact (plate_axes_public ar). Qed.
Print Assumptions C15_plate_axes.

(* cuboidal: the three numbers are edge lengths of a cuboid of unit volume *)
Theorem C15_cuboidal_axes ar : 1 <= ar ->
  let v := normalRadii Cuboidal ar in
  cuboid_volume (ax1 v) (ax2 v) (ax3 v) = 1 /\ ax1 v = ax2 v /\ ax3 v = ar * ax1 v /\ 0 < ax1 v.
Proof. exact (cuboidal_axes_public ar). Qed.
Print Assumptions C15_cuboidal_axes.

(* ---- the factors are the geometric ratios they are named after -------------------------------- *)
(* thermodynamic factor = surface area of the spheroid / surface area of the equal-volume sphere,
   for every size a of the short semi-axis *)
Theorem C15_needle_thermo_is_area_ratio a ar : 0 < a -> 1 < ar ->
  thermoFactor Needle ar =
  prolate_area a (ar * a) / sphere_area (eq_sphere_radius (ellipsoid_volume a a (ar * a))).
Proof. exact (needle_thermo_public_area a ar). Qed.
Print Assumptions C15_needle_thermo_is_area_ratio.

Theorem C15_plate_thermo_is_area_ratio c ar : 0 < c -> 1 < ar ->
  thermoFactor Plate ar =
  oblate_area (ar * c) c / sphere_area (eq_sphere_radius (ellipsoid_volume (ar * c) (ar * c) c)).
Proof. exact (plate_thermo_public_area c ar). Qed.
Print Assumptions C15_plate_thermo_is_area_ratio.

(* the closed-form areas ARE the surface-of-revolution integrals of the ellipse *)
Theorem C15_prolate_area_is_integral a c : 0 < a -> a < c ->
  is_RInt (spheroid_area_integrand a c) 0 PI (prolate_area a c).
Proof. exact (prolate_area_integral a c). Qed.
Print Assumptions C15_prolate_area_is_integral.

Theorem C15_oblate_area_is_integral a c : 0 < c -> c < a ->
  is_RInt (spheroid_area_integrand a c) 0 PI (oblate_area a c).
Proof. exact (oblate_area_integral a c). Qed.
Print Assumptions C15_oblate_area_is_integral.

(* kinetic factor = capacitance of the spheroid / radius of the equal-volume sphere *)
Theorem C15_needle_kinetic_is_capacitance_ratio a ar : 0 < a -> 1 < ar ->
  kineticFactor Needle ar =
  prolate_capacitance a (ar * a) / eq_sphere_radius (ellipsoid_volume a a (ar * a)).
Proof. exact (needle_kinetic_public_capacitance a ar). Qed.
Print Assumptions C15_needle_kinetic_is_capacitance_ratio.

Theorem C15_plate_kinetic_is_capacitance_ratio c ar : 0 < c -> 1 < ar ->
  kineticFactor Plate ar =
  oblate_capacitance (ar * c) c / eq_sphere_radius (ellipsoid_volume (ar * c) (ar * c) c).
Proof. exact (plate_kinetic_public_capacitance c ar). Qed.
Print Assumptions C15_plate_kinetic_is_capacitance_ratio.

(* the closed-form capacitances agree with the classical integral formula for the ellipsoid with semi-axes
   a, a, c:  2 / C = int_0^oo dt / ((a^2 + t) sqrt (c^2 + t))  (the integral over [0, b] exists and tends to 2/C) *)
Theorem C15_prolate_capacitance_is_integral a c : 0 < a -> a < c ->
  (forall b, 0 <= b -> ex_RInt (spheroid_capacitance_integrand a c) 0 b) /\
  is_lim (fun b => RInt (spheroid_capacitance_integrand a c) 0 b) p_infty (2 / prolate_capacitance a c).
Proof. exact (prolate_capacitance_integral a c). Qed.
Print Assumptions C15_prolate_capacitance_is_integral.

Theorem C15_oblate_capacitance_is_integral a c : 0 < c -> c < a ->
  (forall b, 0 <= b -> ex_RInt (spheroid_capacitance_integrand a c) 0 b) /\
  is_lim (fun b => RInt (spheroid_capacitance_integrand a c) 0 b) p_infty (2 / oblate_capacitance a c).
Proof. exact (oblate_capacitance_integral a c). Qed.
Print Assumptions C15_oblate_capacitance_is_integral.

(* equivalent-radius factor = radius of the equal-volume sphere in units of the short axis (edge) *)
Theorem C15_eqRadius_is_equal_volume_radius s ar : 0 < s -> 1 < ar ->
  eqRadiusFactor Needle ar = eq_sphere_radius (ellipsoid_volume s s (ar * s)) / s /\
  eqRadiusFactor Plate ar = eq_sphere_radius (ellipsoid_volume (ar * s) (ar * s) s) / s /\
  eqRadiusFactor Cuboidal ar = eq_sphere_radius (cuboid_volume s s (ar * s)) / s /\
  sphere_volume (eq_sphere_radius (ellipsoid_volume s s (ar * s))) = ellipsoid_volume s s (ar * s).
Proof. exact (eqRadius_public_geom s ar). Qed.
Print Assumptions C15_eqRadius_is_equal_volume_radius.

Theorem C15_cuboidal_thermo_is_area_ratio s ar : 0 < s -> 1 < ar ->
  thermoFactor Cuboidal ar =
  cuboid_area s s (ar * s) / sphere_area (eq_sphere_radius (cuboid_volume s s (ar * s))).
Proof. exact (cuboidal_thermo_public_area s ar). Qed.
Print Assumptions C15_cuboidal_thermo_is_area_ratio.

(* ---- value 1 at aspect ratio 1, strictly increasing above ---------------------------------------- *)
Theorem C15_factors_one_at_one ar : ar <= 1 ->
  forall d, In d (Sphere :: Needle :: Plate :: nil) ->
  eqRadiusFactor d ar = 1 /\ kineticFactor d ar = 1 /\ thermoFactor d ar = 1.
Proof. exact (factors_one_at_one ar). Qed.
Print Assumptions C15_factors_one_at_one.

Theorem C15_needle_eqRadius_increasing x y : 1 <= x -> x < y -> eqRadiusFactor Needle x < eqRadiusFactor Needle y.
Proof. exact (needle_eqRadius_incr x y). Qed.
Print Assumptions C15_needle_eqRadius_increasing.

Theorem C15_plate_eqRadius_increasing x y : 1 <= x -> x < y -> eqRadiusFactor Plate x < eqRadiusFactor Plate y.
Proof. exact (plate_eqRadius_incr x y). Qed.
Print Assumptions C15_plate_eqRadius_increasing.

Theorem C15_needle_kinetic_increasing x y : 1 <= x -> x < y -> kineticFactor Needle x < kineticFactor Needle y.
Proof. exact (needle_kineticFactor_incr x y). Qed.
Print Assumptions C15_needle_kinetic_increasing.

Theorem C15_plate_kinetic_increasing x y : 1 <= x -> x < y -> kineticFactor Plate x < kineticFactor Plate y.
Proof. exact (plate_kineticFactor_incr x y). Qed.
Print Assumptions C15_plate_kinetic_increasing.

Theorem C15_needle_thermo_increasing x y : 1 <= x -> x < y -> thermoFactor Needle x < thermoFactor Needle y.
Proof. exact (needle_thermoFactor_incr x y). Qed.
Print Assumptions C15_needle_thermo_increasing.

Theorem C15_plate_thermo_increasing x y : 1 <= x -> x < y -> thermoFactor Plate x < thermoFactor Plate y.
Proof. exact (plate_thermoFactor_incr x y). Qed.
Print Assumptions C15_plate_thermo_increasing.

(* ---- continuity at aspect ratio 1: every factor of every shape ---------------------------------- *)
Theorem C15_continuous_at_one :
  forall d, In d (Sphere :: Needle :: Plate :: Cuboidal :: nil) ->
  continuity_pt (eqRadiusFactor d) 1 /\ continuity_pt (kineticFactor d) 1 /\ continuity_pt (thermoFactor d) 1.
Proof. exact continuous_at_one_all. Qed.
Print Assumptions C15_continuous_at_one.

(* ---- aspect ratios below 1 are treated as 1 ------------------------------------------------------ *)
Theorem C15_below_one_as_one (d : description) ar : ar < 1 ->
  eqRadiusFactor d ar = eqRadiusFactor d 1 /\ kineticFactor d ar = kineticFactor d 1 /\
  thermoFactor d ar = thermoFactor d 1 /\ normalRadii d ar = normalRadii d 1.
Proof. exact (below_one_as_one d ar). Qed.
Print Assumptions C15_below_one_as_one.

(* ---- the critical-radius search ------------------------------------------------------------------- *)
(* for EVERY thermodynamic factor tf (any description, any aspect-ratio function of the radius): a value
   returned by the normal exit of the loop is a root of R = R_sphere * tf(R) to the tolerance, lies in
   [R_sphere, Rmax], and is the midpoint of a bracket of width (Rmax - R_sphere)/2^n that still carries
   a sign change if the initial bracket did *)
Theorem C15_findRcrit_root (tf : R -> R) (Rs tol Rmax r : R) n :
  findRcrit Rops tf Rs tol Rmax = Found Rops r n ->
  Rabs (r / (Rs * tf r) - 1) <= tol /\ (n <= 99)%nat /\
  (Rs <= Rmax -> Rs <= r <= Rmax) /\
  (Rs <= Rmax -> exists a b, Rs <= a /\ b <= Rmax /\ b - a = (Rmax - Rs) / 2 ^ n /\ r = (a + b) / 2) /\
  (0 <= tol -> objective Rops tf Rs Rs * objective Rops tf Rs Rmax < 0 ->
     exists a b, r = (a + b) / 2 /\ b - a = (Rmax - Rs) / 2 ^ n /\ objective Rops tf Rs a * objective Rops tf Rs b < 0).
Proof. exact (findRcrit_found_root tf Rs tol Rmax r n). Qed.
Print Assumptions C15_findRcrit_root.

Theorem C15_findRcrit_relative (tf : R -> R) (Rs tol Rmax r : R) n :
  findRcrit Rops tf Rs tol Rmax = Found Rops r n -> Rs * tf r <> 0 ->
  Rabs (r - Rs * tf r) <= tol * Rabs (Rs * tf r).
Proof. exact (findRcrit_found_relative tf Rs tol Rmax r n). Qed.
Print Assumptions C15_findRcrit_relative.

(* the only other exit returns R_sphere, after 100 iterations none of which met the tolerance *)
Theorem C15_findRcrit_gaveup (tf : R -> R) (Rs tol Rmax : R) :
  findRcrit Rops tf Rs tol Rmax = GaveUp Rops ->
  findRcrit_value Rops tf Rs tol Rmax = Rs /\
  forall j, (j <= 99)%nat -> tol < Rabs (objective Rops tf Rs (midR (biter Rops tf Rs j (binit Rops tf Rs Rmax)))).
Proof. exact (findRcrit_gaveup tf Rs tol Rmax). Qed.
Print Assumptions C15_findRcrit_gaveup.

(* a bracketed root is found: objective Lipschitz on the bracket, opposite signs at its ends *)
Theorem C15_findRcrit_converges (tf : R -> R) (Rs tol Rmax L : R) :
  Rs <= Rmax -> 0 <= tol ->
  (forall x y, Rs <= x <= Rmax -> Rs <= y <= Rmax ->
     Rabs (objective Rops tf Rs x - objective Rops tf Rs y) <= L * Rabs (x - y)) ->
  objective Rops tf Rs Rs * objective Rops tf Rs Rmax < 0 ->
  L * (Rmax - Rs) <= tol * 2 ^ 100 ->
  exists r n, findRcrit Rops tf Rs tol Rmax = Found Rops r n /\ (n <= 99)%nat /\
              Rs <= r <= Rmax /\ Rabs (objective Rops tf Rs r) <= tol /\ findRcrit_value Rops tf Rs tol Rmax = r.
Proof. exact (findRcrit_converges tf Rs tol Rmax L). Qed.
Print Assumptions C15_findRcrit_converges.

(* constant aspect ratio: the exact root *)
Theorem C15_findRcritScalar_root (d : description) (a Rs Rmax : R) :
  let tf := sf_thermoFactor d (scalarAspectRatio a) in
  let r := findRcritScalar tf Rs Rmax in
  r = Rs * tf r /\ (Rs * tf Rs <> 0 -> r / (Rs * tf r) - 1 = 0).
Proof. exact (findRcritScalar_exact d a Rs Rmax). Qed.
Print Assumptions C15_findRcritScalar_root.
