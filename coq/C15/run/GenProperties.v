(* C15 - property theorems about the GENERATED model of the code (build/C15/ShapeFactors_gen.v,
   regenerated from kawin/precipitation/parameters/ShapeFactors.py on every run): the statements of
   coq/C15/Properties.v with the generated definitions in place of the hand model.  Bridge.v proves the
   generated definitions EQUAL to the hand model (by conversion where the normalised text coincides, by small
   pointwise lemmas where an equivalent idiom is used: Rmax for the clamp, c for c * 1, the loop update in normal
   form) and transfers every theorem (lemmas gen_...); here each theorem is closed by [exact] of its transfer
   lemma and followed by Print Assumptions.
   Compiled by the check only (logical path KawinRun), never by the static make. *)
From Coq Require Import Reals List Bool ZArith.
Require Import Kawin.Common.Ops Kawin.Common.Vec Kawin.C15.Model Kawin.C15.Proofs Kawin.C15.Bisection Kawin.C15.Analysis.
Require Import KawinRun.ShapeFactors_gen KawinRun.Bridge.
Open Scope R_scope.

(* ---- the clamp builds a new array (the source does not use the in-place idiom) ------------------ *)
Theorem C15_gen_no_inplace_write : processAspectRatio_inplace_gen = false.
Proof. exact (gen_no_inplace_write). Qed.
Print Assumptions C15_gen_no_inplace_write.

(* ---- semi-axes ------------------------------------------------------------------------------------ *)
Theorem C15_gen_sphere_axes ar :
  let v := Sphere_normalRadii_public_gen ar in
  ellipsoid_volume (ax1 v) (ax2 v) (ax3 v) = 1 /\ ax1 v = ax2 v /\ ax2 v = ax3 v /\ 0 < ax1 v.
Proof. exact (gen_sphere_axes ar). Qed.
Print Assumptions C15_gen_sphere_axes.

Theorem C15_gen_needle_axes ar : 1 <= ar ->
  let v := Needle_normalRadii_public_gen ar in
  ellipsoid_volume (ax1 v) (ax2 v) (ax3 v) = 1 /\ ax1 v = ax2 v /\ ax3 v = ar * ax1 v /\ 0 < ax1 v.
Proof. exact (gen_needle_axes ar). Qed.
Print Assumptions C15_gen_needle_axes.

Theorem C15_gen_plate_axes ar : 1 <= ar ->
  let v := Plate_normalRadii_public_gen ar in
  ellipsoid_volume (ax1 v) (ax2 v) (ax3 v) = 1 /\ ax1 v = ax2 v /\ ax1 v = ar * ax3 v /\ 0 < ax3 v.
Proof. exact (gen_plate_axes ar). Qed.
Print Assumptions C15_gen_plate_axes.

Theorem C15_gen_cuboidal_axes ar : 1 <= ar ->
  let v := Cuboidal_normalRadii_public_gen ar in
  cuboid_volume (ax1 v) (ax2 v) (ax3 v) = 1 /\ ax1 v = ax2 v /\ ax3 v = ar * ax1 v /\ 0 < ax1 v.
Proof. exact (gen_cuboidal_axes ar). Qed.
Print Assumptions C15_gen_cuboidal_axes.

(* ---- geometric meaning of the factors -------------------------------------------------------------- *)
Theorem C15_gen_needle_thermo_is_area_ratio a ar : 0 < a -> 1 < ar ->
  Needle_thermoFactor_public_gen ar =
  prolate_area a (ar * a) / sphere_area (eq_sphere_radius (ellipsoid_volume a a (ar * a))).
Proof. exact (gen_needle_thermo_is_area_ratio a ar). Qed.
Print Assumptions C15_gen_needle_thermo_is_area_ratio.

Theorem C15_gen_plate_thermo_is_area_ratio c ar : 0 < c -> 1 < ar ->
  Plate_thermoFactor_public_gen ar =
  oblate_area (ar * c) c / sphere_area (eq_sphere_radius (ellipsoid_volume (ar * c) (ar * c) c)).
Proof. exact (gen_plate_thermo_is_area_ratio c ar). Qed.
Print Assumptions C15_gen_plate_thermo_is_area_ratio.

Theorem C15_gen_needle_kinetic_is_capacitance_ratio a ar : 0 < a -> 1 < ar ->
  Needle_kineticFactor_public_gen ar =
  prolate_capacitance a (ar * a) / eq_sphere_radius (ellipsoid_volume a a (ar * a)).
Proof. exact (gen_needle_kinetic_is_capacitance_ratio a ar). Qed.
Print Assumptions C15_gen_needle_kinetic_is_capacitance_ratio.

Theorem C15_gen_plate_kinetic_is_capacitance_ratio c ar : 0 < c -> 1 < ar ->
  Plate_kineticFactor_public_gen ar =
  oblate_capacitance (ar * c) c / eq_sphere_radius (ellipsoid_volume (ar * c) (ar * c) c).
Proof. exact (gen_plate_kinetic_is_capacitance_ratio c ar). Qed.
Print Assumptions C15_gen_plate_kinetic_is_capacitance_ratio.

Theorem C15_gen_eqRadius_is_equal_volume_radius s ar : 0 < s -> 1 < ar ->
  Needle_eqRadiusFactor_public_gen ar = eq_sphere_radius (ellipsoid_volume s s (ar * s)) / s /\
  Plate_eqRadiusFactor_public_gen ar = eq_sphere_radius (ellipsoid_volume (ar * s) (ar * s) s) / s /\
  Cuboidal_eqRadiusFactor_public_gen ar = eq_sphere_radius (cuboid_volume s s (ar * s)) / s /\
  sphere_volume (eq_sphere_radius (ellipsoid_volume s s (ar * s))) = ellipsoid_volume s s (ar * s).
Proof. exact (gen_eqRadius_is_equal_volume_radius s ar). Qed.
Print Assumptions C15_gen_eqRadius_is_equal_volume_radius.

Theorem C15_gen_cuboidal_thermo_is_area_ratio s ar : 0 < s -> 1 < ar ->
  Cuboidal_thermoFactor_public_gen ar =
  cuboid_area s s (ar * s) / sphere_area (eq_sphere_radius (cuboid_volume s s (ar * s))).
Proof. exact (gen_cuboidal_thermo_is_area_ratio s ar). Qed.
Print Assumptions C15_gen_cuboidal_thermo_is_area_ratio.

(* ---- 1 at aspect ratio 1, increasing ---------------------------------------------------------------- *)
Theorem C15_gen_factors_one_at_one ar : ar <= 1 ->
  (Sphere_eqRadiusFactor_public_gen ar = 1 /\ Sphere_kineticFactor_public_gen ar = 1 /\ Sphere_thermoFactor_public_gen ar = 1) /\
  (Needle_eqRadiusFactor_public_gen ar = 1 /\ Needle_kineticFactor_public_gen ar = 1 /\ Needle_thermoFactor_public_gen ar = 1) /\
  (Plate_eqRadiusFactor_public_gen ar = 1 /\ Plate_kineticFactor_public_gen ar = 1 /\ Plate_thermoFactor_public_gen ar = 1).
Proof. exact (gen_factors_one_at_one ar). Qed.
Print Assumptions C15_gen_factors_one_at_one.

Theorem C15_gen_needle_eqRadius_increasing x y : 1 <= x -> x < y ->
  Needle_eqRadiusFactor_public_gen x < Needle_eqRadiusFactor_public_gen y.
Proof. exact (gen_needle_eqRadius_increasing x y). Qed.
Print Assumptions C15_gen_needle_eqRadius_increasing.

Theorem C15_gen_plate_eqRadius_increasing x y : 1 <= x -> x < y ->
  Plate_eqRadiusFactor_public_gen x < Plate_eqRadiusFactor_public_gen y.
Proof. exact (gen_plate_eqRadius_increasing x y). Qed.
Print Assumptions C15_gen_plate_eqRadius_increasing.

Theorem C15_gen_needle_kinetic_increasing x y : 1 <= x -> x < y ->
  Needle_kineticFactor_public_gen x < Needle_kineticFactor_public_gen y.
Proof. exact (gen_needle_kinetic_increasing x y). Qed.
Print Assumptions C15_gen_needle_kinetic_increasing.

Theorem C15_gen_plate_kinetic_increasing x y : 1 <= x -> x < y ->
  Plate_kineticFactor_public_gen x < Plate_kineticFactor_public_gen y.
Proof. exact (gen_plate_kinetic_increasing x y). Qed.
Print Assumptions C15_gen_plate_kinetic_increasing.

Theorem C15_gen_needle_thermo_increasing x y : 1 <= x -> x < y ->
  Needle_thermoFactor_public_gen x < Needle_thermoFactor_public_gen y.
Proof. exact (gen_needle_thermo_increasing x y). Qed.
Print Assumptions C15_gen_needle_thermo_increasing.

Theorem C15_gen_plate_thermo_increasing x y : 1 <= x -> x < y ->
  Plate_thermoFactor_public_gen x < Plate_thermoFactor_public_gen y.
Proof. exact (gen_plate_thermo_increasing x y). Qed.
Print Assumptions C15_gen_plate_thermo_increasing.

(* ---- continuity at aspect ratio 1, every factor of every shape ------------------------------------- *)
Theorem C15_gen_continuous_at_one :
  (continuity_pt Sphere_eqRadiusFactor_public_gen 1 /\ continuity_pt Sphere_kineticFactor_public_gen 1 /\ continuity_pt Sphere_thermoFactor_public_gen 1) /\
  (continuity_pt Needle_eqRadiusFactor_public_gen 1 /\ continuity_pt Needle_kineticFactor_public_gen 1 /\ continuity_pt Needle_thermoFactor_public_gen 1) /\
  (continuity_pt Plate_eqRadiusFactor_public_gen 1 /\ continuity_pt Plate_kineticFactor_public_gen 1 /\ continuity_pt Plate_thermoFactor_public_gen 1) /\
  (continuity_pt Cuboidal_eqRadiusFactor_public_gen 1 /\ continuity_pt Cuboidal_kineticFactor_public_gen 1 /\ continuity_pt Cuboidal_thermoFactor_public_gen 1).
Proof. exact (gen_continuous_at_one). Qed.
Print Assumptions C15_gen_continuous_at_one.

(* ---- below 1 as 1 ------------------------------------------------------------------------------------ *)
Theorem C15_gen_below_one_as_one ar : ar < 1 ->
  forall d, In d (Sphere_gen :: Needle_gen :: Plate_gen :: Cuboidal_gen :: nil) ->
  eqRadiusFactor_wrapper_gen (eqMin d) (eqRaw d) ar = eqRadiusFactor_wrapper_gen (eqMin d) (eqRaw d) 1 /\
  kineticFactor_wrapper_gen (kinMin d) (kinRaw d) ar = kineticFactor_wrapper_gen (kinMin d) (kinRaw d) 1 /\
  thermoFactor_wrapper_gen (thMin d) (thRaw d) ar = thermoFactor_wrapper_gen (thMin d) (thRaw d) 1 /\
  normalRadii_wrapper_gen (radiiRaw d) ar = normalRadii_wrapper_gen (radiiRaw d) 1.
Proof. exact (gen_below_one_as_one ar). Qed.
Print Assumptions C15_gen_below_one_as_one.

(* ---- ShapeFactor: functions of the radius are the description's at the aspect ratio of that radius -- *)
Theorem C15_gen_shapefactor_composition (d : description) (aspect : R -> R) (r : R) :
  ShapeFactor_eqRadiusFactor_gen (eqRadiusFactor d) aspect r = eqRadiusFactor d (aspect r) /\
  ShapeFactor_kineticFactor_gen (kineticFactor d) aspect r = kineticFactor d (aspect r) /\
  ShapeFactor_thermoFactor_gen (thermoFactor d) aspect r = thermoFactor d (aspect r) /\
  ShapeFactor_normalRadii_gen (normalRadii d) aspect r = normalRadii d (aspect r) /\
  (forall a, scalarAspectRatio_gen a r = a * 1) /\ setAspectRatio_dispatch_gen = true.
Proof. exact (gen_shapefactor_composition d aspect r). Qed.
Print Assumptions C15_gen_shapefactor_composition.

(* ---- the critical-radius search (generated loop, real instance) -------------------------------------- *)
Theorem C15_gen_findRcrit_root (tf : R -> R) (Rs tol Rmax r : R) n :
  findRcrit_gen Rops tf Rs tol Rmax = Found Rops r n ->
  Rabs (r / (Rs * tf r) - 1) <= tol /\ (n <= 99)%nat /\
  (Rs <= Rmax -> Rs <= r <= Rmax) /\
  (Rs <= Rmax -> exists a b, Rs <= a /\ b <= Rmax /\ b - a = (Rmax - Rs) / 2 ^ n /\ r = (a + b) / 2) /\
  (0 <= tol -> (Rs / (Rs * tf Rs) - 1) * (Rmax / (Rs * tf Rmax) - 1) < 0 ->
     exists a b, r = (a + b) / 2 /\ b - a = (Rmax - Rs) / 2 ^ n /\ (a / (Rs * tf a) - 1) * (b / (Rs * tf b) - 1) < 0).
Proof. exact (gen_findRcrit_root tf Rs tol Rmax r n). Qed.
Print Assumptions C15_gen_findRcrit_root.

Theorem C15_gen_findRcrit_relative (tf : R -> R) (Rs tol Rmax r : R) n :
  findRcrit_gen Rops tf Rs tol Rmax = Found Rops r n -> Rs * tf r <> 0 ->
  Rabs (r - Rs * tf r) <= tol * Rabs (Rs * tf r).
Proof. exact (gen_findRcrit_relative tf Rs tol Rmax r n). Qed.
Print Assumptions C15_gen_findRcrit_relative.

Theorem C15_gen_findRcrit_gaveup (tf : R -> R) (Rs tol Rmax : R) :
  findRcrit_gen Rops tf Rs tol Rmax = GaveUp Rops ->
  findRcrit_value_gen Rops tf Rs tol Rmax = Rs /\
  forall j, (j <= 99)%nat ->
    tol < Rabs (objective Rops tf Rs (midR (biter Rops tf Rs j (findRcrit_init_gen Rops tf Rs Rmax)))).
Proof. exact (gen_findRcrit_gaveup tf Rs tol Rmax). Qed.
Print Assumptions C15_gen_findRcrit_gaveup.

Theorem C15_gen_findRcrit_converges (tf : R -> R) (Rs tol Rmax L : R) :
  Rs <= Rmax -> 0 <= tol ->
  (forall x y, Rs <= x <= Rmax -> Rs <= y <= Rmax ->
     Rabs ((x / (Rs * tf x) - 1) - (y / (Rs * tf y) - 1)) <= L * Rabs (x - y)) ->
  (Rs / (Rs * tf Rs) - 1) * (Rmax / (Rs * tf Rmax) - 1) < 0 ->
  L * (Rmax - Rs) <= tol * 2 ^ 100 ->
  exists r n, findRcrit_gen Rops tf Rs tol Rmax = Found Rops r n /\ (n <= 99)%nat /\
              Rs <= r <= Rmax /\ Rabs (r / (Rs * tf r) - 1) <= tol /\ findRcrit_value_gen Rops tf Rs tol Rmax = r.
Proof. exact (gen_findRcrit_converges tf Rs tol Rmax L). Qed.
Print Assumptions C15_gen_findRcrit_converges.

Theorem C15_gen_findRcritScalar_root (d : description) (a Rs Rmax : R) :
  let tf := ShapeFactor_thermoFactor_gen (thermoFactor d) (scalarAspectRatio_gen a) in
  let r := findRcritScalar_gen tf Rs Rmax in
  r = Rs * tf r /\ (Rs * tf Rs <> 0 -> r / (Rs * tf r) - 1 = 0).
Proof. exact (gen_findRcritScalar_root d a Rs Rmax). Qed.
Print Assumptions C15_gen_findRcritScalar_root.
