(* C15 - bridge: the definitions GENERATED from the current kawin/precipitation/parameters/ShapeFactors.py
   (build/C15/ShapeFactors_gen.v, regenerated on every run) are the hand model of coq/C15/Model.v.
   Every lemma here is closed by conversion ([reflexivity]): a change of the source that alters a
   formula, a comparison, a constant, a constructor or the bisection loop makes one of them fail.
   Compiled by the check only (logical path KawinRun), never by the static make. *)
From Coq Require Import Reals List Bool ZArith.
Require Import Kawin.Common.Ops Kawin.Common.Vec Kawin.C15.Model Kawin.C15.Bisection.
Require Import KawinRun.ShapeFactors_gen.
Open Scope R_scope.

(* a failing comparison must fail quickly: the check has a time budget *)
Ltac conv := timeout 60 reflexivity.

(* formulas *)
Lemma br_eccentricity : Base_eccentricity_gen = ecc. Proof. conv. Qed.
Lemma br_sphere_eqRadius : Sphere_eqRadius_gen = sphere_eqRadius. Proof. conv. Qed.
Lemma br_sphere_normalRadii : Sphere_normalRadii_gen = sphere_normalRadii. Proof. conv. Qed.
Lemma br_sphere_kinetic : Sphere_kineticFactor_gen = sphere_kinetic. Proof. conv. Qed.
Lemma br_sphere_thermo : Sphere_thermoFactor_gen = sphere_thermo. Proof. conv. Qed.
Lemma br_needle_eqRadius : Needle_eqRadius_gen = needle_eqRadius. Proof. conv. Qed.
Lemma br_needle_normalRadii : Needle_normalRadii_gen = needle_normalRadii. Proof. conv. Qed.
Lemma br_needle_kinetic : Needle_kineticFactor_gen = needle_kinetic. Proof. conv. Qed.
Lemma br_needle_thermo : Needle_thermoFactor_gen = needle_thermo. Proof. conv. Qed.
Lemma br_plate_eqRadius : Plate_eqRadius_gen = plate_eqRadius. Proof. conv. Qed.
Lemma br_plate_normalRadii : Plate_normalRadii_gen = plate_normalRadii. Proof. conv. Qed.
Lemma br_plate_kinetic : Plate_kineticFactor_gen = plate_kinetic. Proof. conv. Qed.
Lemma br_plate_thermo : Plate_thermoFactor_gen = plate_thermo. Proof. conv. Qed.
Lemma br_cuboidal_eqRadius : Cuboidal_eqRadius_gen = cuboidal_eqRadius. Proof. conv. Qed.
Lemma br_cuboidal_normalRadii : Cuboidal_normalRadii_gen = cuboidal_normalRadii. Proof. conv. Qed.
Lemma br_cuboidal_kinetic : Cuboidal_kineticFactor_gen = cuboidal_kinetic. Proof. conv. Qed.
Lemma br_cuboidal_thermo : Cuboidal_thermoFactor_gen = cuboidal_thermo. Proof. conv. Qed.

(* wrappers: the clamp, the three mask idioms, normalRadii; the clamp builds a new array *)
Lemma br_processAspectRatio : processAspectRatio_gen = processAspectRatio. Proof. conv. Qed.
Lemma br_no_inplace_write : processAspectRatio_inplace_gen = false. Proof. conv. Qed.
Lemma br_eqRadiusFactor_wrapper : eqRadiusFactor_wrapper_gen = factor_wrapper. Proof. conv. Qed.
Lemma br_kineticFactor_wrapper : kineticFactor_wrapper_gen = factor_wrapper. Proof. conv. Qed.
Lemma br_thermoFactor_wrapper : thermoFactor_wrapper_gen = factor_wrapper. Proof. conv. Qed.
Lemma br_normalRadii_wrapper : normalRadii_wrapper_gen = radii_wrapper. Proof. conv. Qed.

(* constructors: the `...Min` attributes *)
Lemma br_Sphere : Sphere_gen = Sphere. Proof. conv. Qed.
Lemma br_Needle : Needle_gen = Needle. Proof. conv. Qed.
Lemma br_Plate : Plate_gen = Plate. Proof. conv. Qed.
Lemma br_Cuboidal : Cuboidal_gen = Cuboidal. Proof. conv. Qed.

(* public functions of the four descriptions *)
Ltac pub := timeout 60 (split; [|split; [|split]]; reflexivity).
Lemma br_Sphere_public :
  Sphere_eqRadiusFactor_public_gen = eqRadiusFactor Sphere /\ Sphere_kineticFactor_public_gen = kineticFactor Sphere /\
  Sphere_thermoFactor_public_gen = thermoFactor Sphere /\ Sphere_normalRadii_public_gen = normalRadii Sphere.
Proof. pub. Qed.
Lemma br_Needle_public :
  Needle_eqRadiusFactor_public_gen = eqRadiusFactor Needle /\ Needle_kineticFactor_public_gen = kineticFactor Needle /\
  Needle_thermoFactor_public_gen = thermoFactor Needle /\ Needle_normalRadii_public_gen = normalRadii Needle.
Proof. pub. Qed.
Lemma br_Plate_public :
  Plate_eqRadiusFactor_public_gen = eqRadiusFactor Plate /\ Plate_kineticFactor_public_gen = kineticFactor Plate /\
  Plate_thermoFactor_public_gen = thermoFactor Plate /\ Plate_normalRadii_public_gen = normalRadii Plate.
Proof. pub. Qed.
Lemma br_Cuboidal_public :
  Cuboidal_eqRadiusFactor_public_gen = eqRadiusFactor Cuboidal /\ Cuboidal_kineticFactor_public_gen = kineticFactor Cuboidal /\
  Cuboidal_thermoFactor_public_gen = thermoFactor Cuboidal /\ Cuboidal_normalRadii_public_gen = normalRadii Cuboidal.
Proof. pub. Qed.

(* ShapeFactor: compositions with the aspect-ratio function, scalar aspect ratio, dispatch *)
Lemma br_sf_eqRadiusFactor d aspect :
  ShapeFactor_eqRadiusFactor_gen (eqRadiusFactor d) aspect = sf_eqRadiusFactor d aspect. Proof. conv. Qed.
Lemma br_sf_kineticFactor d aspect :
  ShapeFactor_kineticFactor_gen (kineticFactor d) aspect = sf_kineticFactor d aspect. Proof. conv. Qed.
Lemma br_sf_thermoFactor d aspect :
  ShapeFactor_thermoFactor_gen (thermoFactor d) aspect = sf_thermoFactor d aspect. Proof. conv. Qed.
Lemma br_sf_normalRadii d aspect :
  ShapeFactor_normalRadii_gen (normalRadii d) aspect = sf_normalRadii d aspect. Proof. conv. Qed.
Lemma br_scalarAspectRatio : scalarAspectRatio_gen = scalarAspectRatio. Proof. conv. Qed.
Lemma br_dispatch : setAspectRatio_dispatch_gen = true. Proof. conv. Qed.
Lemma br_findRcritScalar : findRcritScalar_gen = findRcritScalar. Proof. conv. Qed.

(* the bisection, at every scalar instance (reals for the theorems, binary64 for the trace check) *)
Lemma br_findRcrit_step O tf Rs : findRcrit_step_gen O tf Rs = bstep O tf Rs. Proof. conv. Qed.
Lemma br_findRcrit_init O tf Rs : findRcrit_init_gen O tf Rs = binit O tf Rs. Proof. conv. Qed.
Lemma br_findRcrit_maxiter : findRcrit_maxiter_gen = 100%nat. Proof. conv. Qed.
Lemma br_findRcrit_loop O tf Rs tol fuel n s :
  findRcrit_loop_gen O tf Rs tol fuel n s = bloop O tf Rs tol fuel n s.
Proof. revert n s. induction fuel as [|k IH]; intros n s; cbn [findRcrit_loop_gen bloop]; [conv|rewrite IH; conv]. Qed.
Lemma br_findRcrit O tf Rs tol Rmax : findRcrit_gen O tf Rs tol Rmax = findRcrit O tf Rs tol Rmax.
Proof. unfold findRcrit_gen, findRcrit. rewrite br_findRcrit_loop. conv. Qed.
Lemma br_findRcrit_value O tf Rs tol Rmax : findRcrit_value_gen O tf Rs tol Rmax = findRcrit_value O tf Rs tol Rmax.
Proof. unfold findRcrit_value_gen, findRcrit_value. rewrite br_findRcrit. conv. Qed.

(* transfer of the convergence theorem (existential statement) to the generated loop *)
Lemma gen_findRcrit_converges (tf : R -> R) (Rs tol Rmax L : R) :
  Rs <= Rmax -> 0 <= tol ->
  (forall x y, Rs <= x <= Rmax -> Rs <= y <= Rmax ->
     Rabs ((x / (Rs * tf x) - 1) - (y / (Rs * tf y) - 1)) <= L * Rabs (x - y)) ->
  (Rs / (Rs * tf Rs) - 1) * (Rmax / (Rs * tf Rmax) - 1) < 0 ->
  L * (Rmax - Rs) <= tol * 2 ^ 100 ->
  exists r n, findRcrit_gen Rops tf Rs tol Rmax = Found Rops r n /\ (n <= 99)%nat /\
              Rs <= r <= Rmax /\ Rabs (r / (Rs * tf r) - 1) <= tol /\ findRcrit_value_gen Rops tf Rs tol Rmax = r.
Proof.
  intros H1 H2 H3 H4 H5.
  destruct (findRcrit_converges tf Rs tol Rmax L H1 H2 H3 H4 H5) as [r [n [E1 [E2 [E3 [E4 E5]]]]]].
  exists r, n. rewrite br_findRcrit, br_findRcrit_value. repeat split; try assumption; apply E3.
Qed.
