(* C15 - bridge: the definitions GENERATED from the current kawin/precipitation/parameters/ShapeFactors.py
   (build/C15/ShapeFactors_gen.v, regenerated on every run; the translator emits the NORMAL FORM of each method:
   temporaries substituted, helpers inlined, idioms desugared) are EQUAL to the hand model of coq/C15/Model.v.
   Each equality is tried by conversion first ([reflexivity]); where the source uses an equivalent idiom the
   normal form differs from the model's text and the equality is proved pointwise:
     np.maximum(ar, 1)  ->  Rmax ar 1            = if ar < 1 then 1 else ar
     np.full(shape, c)  ->  c                     = c * 1
     the loop update    ->  one conditional per state field = the model's two-branch update
   A change of the source that alters a formula, a comparison, a constant, a constructor or the bisection makes
   one of the lemmas fail.  The second half transfers every theorem to the generated names (lemmas gen_...).
   Compiled by the check only (logical path KawinRun), never by the static make. *)
From Coq Require Import Reals List Bool ZArith Lra FunctionalExtensionality.
Require Import Kawin.Common.Ops Kawin.Common.Vec Kawin.C15.Model Kawin.C15.Proofs Kawin.C15.Bisection Kawin.C15.Analysis.
Require Import KawinRun.ShapeFactors_gen.
Open Scope R_scope.

(* a failing comparison must fail quickly: the check has a time budget *)
Ltac conv := timeout 60 reflexivity.
Ltac fe := repeat (apply functional_extensionality; intro).
Ltac decs :=
  repeat match goal with
  | |- context [Rlt_dec ?a ?b] => destruct (Rlt_dec a b)
  | |- context [Rle_dec ?a ?b] => destruct (Rle_dec a b)
  | |- context [Rgt_dec ?a ?b] => destruct (Rgt_dec a b)
  | |- context [Rge_dec ?a ?b] => destruct (Rge_dec a b)
  end.
Ltac close := first [ reflexivity | ring | (unfold Rgt, Rge in *; lra) | (exfalso; unfold Rgt, Rge in *; lra) ].
(* equality of two real functions: by conversion, else pointwise after deciding every comparison *)
Ltac feq := timeout 120 (first [ reflexivity | fe; gen_unfold; unfold processAspectRatio, factor_wrapper, radii_wrapper, scalarAspectRatio, Rmax, Rmin; cbv zeta; decs; close ]).

(* formulas (normal forms with the temporaries substituted: convertible) *)
Lemma br_eccentricity : Base_eccentricity_gen = ecc. Proof. conv. Qed.
Lemma br_sphere_eqRadius : Sphere_eqRadius_gen = sphere_eqRadius. Proof. conv. Qed.
Lemma br_sphere_normalRadii : Sphere_normalRadii_gen = sphere_normalRadii. Proof. conv. Qed.
Lemma br_sphere_kinetic : Sphere_kineticFactor_gen = sphere_kinetic. Proof. conv. Qed.
Lemma br_sphere_thermo : Sphere_thermoFactor_gen = sphere_thermo. Proof. conv. Qed.
Lemma br_needle_eqRadius : Needle_eqRadius_gen = needle_eqRadius. Proof. conv. Qed.
Lemma br_needle_normalRadii : Needle_normalRadii_gen = needle_normalRadii. Proof. conv. Qed.
Lemma br_needle_kinetic : Needle_kineticFactor_gen = needle_kinetic. Proof. conv. Qed.
Lemma br_needle_thermo : Needle_thermoFactor_gen = needle_thermo. Proof. conv. Qed.
Lemma br_plate_eqRadius : Plate_eqRadius_gen = plate_eqRadius. Proof. conv. Qed.
Lemma br_plate_normalRadii : Plate_normalRadii_gen = plate_normalRadii. Proof. conv. Qed.
Lemma br_plate_kinetic : Plate_kineticFactor_gen = plate_kinetic. Proof. conv. Qed.
Lemma br_plate_thermo : Plate_thermoFactor_gen = plate_thermo. Proof. conv. Qed.
Lemma br_cuboidal_eqRadius : Cuboidal_eqRadius_gen = cuboidal_eqRadius. Proof. conv. Qed.
Lemma br_cuboidal_normalRadii : Cuboidal_normalRadii_gen = cuboidal_normalRadii. Proof. conv. Qed.
Lemma br_cuboidal_kinetic : Cuboidal_kineticFactor_gen = cuboidal_kinetic. Proof. conv. Qed.
Lemma br_cuboidal_thermo : Cuboidal_thermoFactor_gen = cuboidal_thermo. Proof. conv. Qed.

(* wrappers: the clamp, the three mask idioms, normalRadii; the clamp builds a new array *)
Lemma br_processAspectRatio : processAspectRatio_gen = processAspectRatio. Proof. feq. Qed.
Lemma br_no_inplace_write : processAspectRatio_inplace_gen = false. Proof. conv. Qed.
Ltac wrap := timeout 120 (first [ reflexivity
  | fe; unfold eqRadiusFactor_wrapper_gen, kineticFactor_wrapper_gen, thermoFactor_wrapper_gen, normalRadii_wrapper_gen, factor_wrapper, radii_wrapper;
    rewrite ?br_processAspectRatio; cbv zeta; decs; close ]).
Lemma br_eqRadiusFactor_wrapper : eqRadiusFactor_wrapper_gen = factor_wrapper. Proof. wrap. Qed.
Lemma br_kineticFactor_wrapper : kineticFactor_wrapper_gen = factor_wrapper. Proof. wrap. Qed.
Lemma br_thermoFactor_wrapper : thermoFactor_wrapper_gen = factor_wrapper. Proof. wrap. Qed.
Lemma br_normalRadii_wrapper : normalRadii_wrapper_gen = radii_wrapper. Proof. wrap. Qed.

(* constructors: the `...Min` attributes *)
Lemma br_Sphere : Sphere_gen = Sphere. Proof. conv. Qed.
Lemma br_Needle : Needle_gen = Needle. Proof. conv. Qed.
Lemma br_Plate : Plate_gen = Plate. Proof. conv. Qed.
Lemma br_Cuboidal : Cuboidal_gen = Cuboidal. Proof. conv. Qed.

(* public functions of the four descriptions *)
Ltac pub := timeout 60 (first [ reflexivity
  | rewrite ?br_eqRadiusFactor_wrapper, ?br_kineticFactor_wrapper, ?br_thermoFactor_wrapper, ?br_normalRadii_wrapper; reflexivity ]).
Lemma br_Sphere_eq : Sphere_eqRadiusFactor_public_gen = eqRadiusFactor Sphere. Proof. unfold Sphere_eqRadiusFactor_public_gen. pub. Qed.
Lemma br_Sphere_kin : Sphere_kineticFactor_public_gen = kineticFactor Sphere. Proof. unfold Sphere_kineticFactor_public_gen. pub. Qed.
Lemma br_Sphere_th : Sphere_thermoFactor_public_gen = thermoFactor Sphere. Proof. unfold Sphere_thermoFactor_public_gen. pub. Qed.
Lemma br_Sphere_radii : Sphere_normalRadii_public_gen = normalRadii Sphere. Proof. unfold Sphere_normalRadii_public_gen. pub. Qed.
Lemma br_Needle_eq : Needle_eqRadiusFactor_public_gen = eqRadiusFactor Needle. Proof. unfold Needle_eqRadiusFactor_public_gen. pub. Qed.
Lemma br_Needle_kin : Needle_kineticFactor_public_gen = kineticFactor Needle. Proof. unfold Needle_kineticFactor_public_gen. pub. Qed.
Lemma br_Needle_th : Needle_thermoFactor_public_gen = thermoFactor Needle. Proof. unfold Needle_thermoFactor_public_gen. pub. Qed.
Lemma br_Needle_radii : Needle_normalRadii_public_gen = normalRadii Needle. Proof. unfold Needle_normalRadii_public_gen. pub. Qed.
Lemma br_Plate_eq : Plate_eqRadiusFactor_public_gen = eqRadiusFactor Plate. Proof. unfold Plate_eqRadiusFactor_public_gen. pub. Qed.
Lemma br_Plate_kin : Plate_kineticFactor_public_gen = kineticFactor Plate. Proof. unfold Plate_kineticFactor_public_gen. pub. Qed.
Lemma br_Plate_th : Plate_thermoFactor_public_gen = thermoFactor Plate. Proof. unfold Plate_thermoFactor_public_gen. pub. Qed.
Lemma br_Plate_radii : Plate_normalRadii_public_gen = normalRadii Plate. Proof. unfold Plate_normalRadii_public_gen. pub. Qed.
Lemma br_Cuboidal_eq : Cuboidal_eqRadiusFactor_public_gen = eqRadiusFactor Cuboidal. Proof. unfold Cuboidal_eqRadiusFactor_public_gen. pub. Qed.
Lemma br_Cuboidal_kin : Cuboidal_kineticFactor_public_gen = kineticFactor Cuboidal. Proof. unfold Cuboidal_kineticFactor_public_gen. pub. Qed.
Lemma br_Cuboidal_th : Cuboidal_thermoFactor_public_gen = thermoFactor Cuboidal. Proof. unfold Cuboidal_thermoFactor_public_gen. pub. Qed.
Lemma br_Cuboidal_radii : Cuboidal_normalRadii_public_gen = normalRadii Cuboidal. Proof. unfold Cuboidal_normalRadii_public_gen. pub. Qed.

(* ShapeFactor: compositions with the aspect-ratio function, scalar aspect ratio, dispatch *)
Lemma br_sf_eqRadiusFactor d aspect :
  ShapeFactor_eqRadiusFactor_gen (eqRadiusFactor d) aspect = sf_eqRadiusFactor d aspect. Proof. conv. Qed.
Lemma br_sf_kineticFactor d aspect :
  ShapeFactor_kineticFactor_gen (kineticFactor d) aspect = sf_kineticFactor d aspect. Proof. conv. Qed.
Lemma br_sf_thermoFactor d aspect :
  ShapeFactor_thermoFactor_gen (thermoFactor d) aspect = sf_thermoFactor d aspect. Proof. conv. Qed.
Lemma br_sf_normalRadii d aspect :
  ShapeFactor_normalRadii_gen (normalRadii d) aspect = sf_normalRadii d aspect. Proof. conv. Qed.
Lemma br_scalarAspectRatio : scalarAspectRatio_gen = scalarAspectRatio. Proof. feq. Qed.
Lemma br_dispatch : setAspectRatio_dispatch_gen = true. Proof. conv. Qed.
Lemma br_findRcritScalar : findRcritScalar_gen = findRcritScalar. Proof. conv. Qed.

(* the bisection, at every scalar instance (reals for the theorems, binary64 for the trace check): the
   generated update is in normal form (one conditional per field), the model's is a two-branch update *)
Lemma br_findRcrit_step O tf Rs s : findRcrit_step_gen O tf Rs s = bstep O tf Rs s.
Proof.
  timeout 60 (first [ reflexivity
    | unfold findRcrit_step_gen, bstep, two, objective;
      repeat match goal with |- context [if ?c then _ else _] => destruct c end; reflexivity ]).
Qed.
Lemma br_findRcrit_init O tf Rs Rmax : findRcrit_init_gen O tf Rs Rmax = binit O tf Rs Rmax. Proof. conv. Qed.
Lemma br_findRcrit_maxiter : findRcrit_maxiter_gen = 100%nat. Proof. conv. Qed.
Lemma br_findRcrit_loop O tf Rs tol fuel n s :
  findRcrit_loop_gen O tf Rs tol fuel n s = bloop O tf Rs tol fuel n s.
Proof.
  revert n s. induction fuel as [|k IH]; intros n s; cbn [findRcrit_loop_gen bloop]; [conv|].
  rewrite br_findRcrit_step, IH. conv.
Qed.
Lemma br_findRcrit O tf Rs tol Rmax : findRcrit_gen O tf Rs tol Rmax = findRcrit O tf Rs tol Rmax.
Proof. unfold findRcrit_gen, findRcrit. rewrite br_findRcrit_loop, br_findRcrit_init. conv. Qed.
Lemma br_findRcrit_value O tf Rs tol Rmax : findRcrit_value_gen O tf Rs tol Rmax = findRcrit_value O tf Rs tol Rmax.
Proof. unfold findRcrit_value_gen, findRcrit_value. rewrite br_findRcrit. conv. Qed.

(* ---- transfer: every statement about the generated names follows from the one about the model ------- *)
Ltac to_model :=
  rewrite ?br_Sphere_eq, ?br_Sphere_kin, ?br_Sphere_th, ?br_Sphere_radii, ?br_Needle_eq, ?br_Needle_kin, ?br_Needle_th, ?br_Needle_radii,
          ?br_Plate_eq, ?br_Plate_kin, ?br_Plate_th, ?br_Plate_radii, ?br_Cuboidal_eq, ?br_Cuboidal_kin, ?br_Cuboidal_th, ?br_Cuboidal_radii,
          ?br_eqRadiusFactor_wrapper, ?br_kineticFactor_wrapper, ?br_thermoFactor_wrapper, ?br_normalRadii_wrapper,
          ?br_Sphere, ?br_Needle, ?br_Plate, ?br_Cuboidal, ?br_processAspectRatio,
          ?br_findRcrit, ?br_findRcrit_value, ?br_findRcrit_init,
          ?br_sf_eqRadiusFactor, ?br_sf_kineticFactor, ?br_sf_thermoFactor, ?br_sf_normalRadii, ?br_scalarAspectRatio, ?br_dispatch, ?br_findRcritScalar.

Lemma gen_no_inplace_write : processAspectRatio_inplace_gen = false.
Proof. exact br_no_inplace_write. Qed.

Lemma gen_sphere_axes ar :
  let v := Sphere_normalRadii_public_gen ar in
  ellipsoid_volume (ax1 v) (ax2 v) (ax3 v) = 1 /\ ax1 v = ax2 v /\ ax2 v = ax3 v /\ 0 < ax1 v.
Proof. to_model. exact (sphere_axes_public ar). Qed.

Lemma gen_needle_axes ar : 1 <= ar ->
  let v := Needle_normalRadii_public_gen ar in
  ellipsoid_volume (ax1 v) (ax2 v) (ax3 v) = 1 /\ ax1 v = ax2 v /\ ax3 v = ar * ax1 v /\ 0 < ax1 v.
Proof. to_model. exact (needle_axes_public ar). Qed.

Lemma gen_plate_axes ar : 1 <= ar ->
  let v := Plate_normalRadii_public_gen ar in
  ellipsoid_volume (ax1 v) (ax2 v) (ax3 v) = 1 /\ ax1 v = ax2 v /\ ax1 v = ar * ax3 v /\ 0 < ax3 v.
Proof. to_model. exact (plate_axes_public ar). Qed.

Lemma gen_cuboidal_axes ar : 1 <= ar ->
  let v := Cuboidal_normalRadii_public_gen ar in
  cuboid_volume (ax1 v) (ax2 v) (ax3 v) = 1 /\ ax1 v = ax2 v /\ ax3 v = ar * ax1 v /\ 0 < ax1 v.
Proof. to_model. exact (cuboidal_axes_public ar). Qed.

Lemma gen_needle_thermo_is_area_ratio a ar : 0 < a -> 1 < ar ->
  Needle_thermoFactor_public_gen ar =
  prolate_area a (ar * a) / sphere_area (eq_sphere_radius (ellipsoid_volume a a (ar * a))).
Proof. to_model. exact (needle_thermo_public_area a ar). Qed.

Lemma gen_plate_thermo_is_area_ratio c ar : 0 < c -> 1 < ar ->
  Plate_thermoFactor_public_gen ar =
  oblate_area (ar * c) c / sphere_area (eq_sphere_radius (ellipsoid_volume (ar * c) (ar * c) c)).
Proof. to_model. exact (plate_thermo_public_area c ar). Qed.

Lemma gen_needle_kinetic_is_capacitance_ratio a ar : 0 < a -> 1 < ar ->
  Needle_kineticFactor_public_gen ar =
  prolate_capacitance a (ar * a) / eq_sphere_radius (ellipsoid_volume a a (ar * a)).
Proof. to_model. exact (needle_kinetic_public_capacitance a ar). Qed.

Lemma gen_plate_kinetic_is_capacitance_ratio c ar : 0 < c -> 1 < ar ->
  Plate_kineticFactor_public_gen ar =
  oblate_capacitance (ar * c) c / eq_sphere_radius (ellipsoid_volume (ar * c) (ar * c) c).
Proof. to_model. exact (plate_kinetic_public_capacitance c ar). Qed.

Lemma gen_eqRadius_is_equal_volume_radius s ar : 0 < s -> 1 < ar ->
  Needle_eqRadiusFactor_public_gen ar = eq_sphere_radius (ellipsoid_volume s s (ar * s)) / s /\
  Plate_eqRadiusFactor_public_gen ar = eq_sphere_radius (ellipsoid_volume (ar * s) (ar * s) s) / s /\
  Cuboidal_eqRadiusFactor_public_gen ar = eq_sphere_radius (cuboid_volume s s (ar * s)) / s /\
  sphere_volume (eq_sphere_radius (ellipsoid_volume s s (ar * s))) = ellipsoid_volume s s (ar * s).
Proof. to_model. exact (eqRadius_public_geom s ar). Qed.

Lemma gen_cuboidal_thermo_is_area_ratio s ar : 0 < s -> 1 < ar ->
  Cuboidal_thermoFactor_public_gen ar =
  cuboid_area s s (ar * s) / sphere_area (eq_sphere_radius (cuboid_volume s s (ar * s))).
Proof. to_model. exact (cuboidal_thermo_public_area s ar). Qed.

Lemma gen_factors_one_at_one ar : ar <= 1 ->
  (Sphere_eqRadiusFactor_public_gen ar = 1 /\ Sphere_kineticFactor_public_gen ar = 1 /\ Sphere_thermoFactor_public_gen ar = 1) /\
  (Needle_eqRadiusFactor_public_gen ar = 1 /\ Needle_kineticFactor_public_gen ar = 1 /\ Needle_thermoFactor_public_gen ar = 1) /\
  (Plate_eqRadiusFactor_public_gen ar = 1 /\ Plate_kineticFactor_public_gen ar = 1 /\ Plate_thermoFactor_public_gen ar = 1).
Proof. to_model. exact (fun H => conj (factors_one_at_one ar H Sphere (or_introl eq_refl))
               (conj (factors_one_at_one ar H Needle (or_intror (or_introl eq_refl)))
                     (factors_one_at_one ar H Plate (or_intror (or_intror (or_introl eq_refl)))))). Qed.

Lemma gen_needle_eqRadius_increasing x y : 1 <= x -> x < y ->
  Needle_eqRadiusFactor_public_gen x < Needle_eqRadiusFactor_public_gen y.
Proof. to_model. exact (needle_eqRadius_incr x y). Qed.

Lemma gen_plate_eqRadius_increasing x y : 1 <= x -> x < y ->
  Plate_eqRadiusFactor_public_gen x < Plate_eqRadiusFactor_public_gen y.
Proof. to_model. exact (plate_eqRadius_incr x y). Qed.

Lemma gen_needle_kinetic_increasing x y : 1 <= x -> x < y ->
  Needle_kineticFactor_public_gen x < Needle_kineticFactor_public_gen y.
Proof. to_model. exact (needle_kineticFactor_incr x y). Qed.

Lemma gen_plate_kinetic_increasing x y : 1 <= x -> x < y ->
  Plate_kineticFactor_public_gen x < Plate_kineticFactor_public_gen y.
Proof. to_model. exact (plate_kineticFactor_incr x y). Qed.

Lemma gen_needle_thermo_increasing x y : 1 <= x -> x < y ->
  Needle_thermoFactor_public_gen x < Needle_thermoFactor_public_gen y.
Proof. to_model. exact (needle_thermoFactor_incr x y). Qed.

Lemma gen_plate_thermo_increasing x y : 1 <= x -> x < y ->
  Plate_thermoFactor_public_gen x < Plate_thermoFactor_public_gen y.
Proof. to_model. exact (plate_thermoFactor_incr x y). Qed.

Lemma gen_continuous_at_one :
  (continuity_pt Sphere_eqRadiusFactor_public_gen 1 /\ continuity_pt Sphere_kineticFactor_public_gen 1 /\ continuity_pt Sphere_thermoFactor_public_gen 1) /\
  (continuity_pt Needle_eqRadiusFactor_public_gen 1 /\ continuity_pt Needle_kineticFactor_public_gen 1 /\ continuity_pt Needle_thermoFactor_public_gen 1) /\
  (continuity_pt Plate_eqRadiusFactor_public_gen 1 /\ continuity_pt Plate_kineticFactor_public_gen 1 /\ continuity_pt Plate_thermoFactor_public_gen 1) /\
  (continuity_pt Cuboidal_eqRadiusFactor_public_gen 1 /\ continuity_pt Cuboidal_kineticFactor_public_gen 1 /\ continuity_pt Cuboidal_thermoFactor_public_gen 1).
Proof. to_model. exact (conj (continuous_at_one_all Sphere (or_introl eq_refl))
        (conj (continuous_at_one_all Needle (or_intror (or_introl eq_refl)))
        (conj (continuous_at_one_all Plate (or_intror (or_intror (or_introl eq_refl))))
              (continuous_at_one_all Cuboidal (or_intror (or_intror (or_intror (or_introl eq_refl)))))))). Qed.

Lemma gen_below_one_as_one ar : ar < 1 ->
  forall d, In d (Sphere_gen :: Needle_gen :: Plate_gen :: Cuboidal_gen :: nil) ->
  eqRadiusFactor_wrapper_gen (eqMin d) (eqRaw d) ar = eqRadiusFactor_wrapper_gen (eqMin d) (eqRaw d) 1 /\
  kineticFactor_wrapper_gen (kinMin d) (kinRaw d) ar = kineticFactor_wrapper_gen (kinMin d) (kinRaw d) 1 /\
  thermoFactor_wrapper_gen (thMin d) (thRaw d) ar = thermoFactor_wrapper_gen (thMin d) (thRaw d) 1 /\
  normalRadii_wrapper_gen (radiiRaw d) ar = normalRadii_wrapper_gen (radiiRaw d) 1.
Proof. to_model. exact (fun H d _ => below_one_as_one d ar H). Qed.

Lemma gen_shapefactor_composition (d : description) (aspect : R -> R) (r : R) :
  ShapeFactor_eqRadiusFactor_gen (eqRadiusFactor d) aspect r = eqRadiusFactor d (aspect r) /\
  ShapeFactor_kineticFactor_gen (kineticFactor d) aspect r = kineticFactor d (aspect r) /\
  ShapeFactor_thermoFactor_gen (thermoFactor d) aspect r = thermoFactor d (aspect r) /\
  ShapeFactor_normalRadii_gen (normalRadii d) aspect r = normalRadii d (aspect r) /\
  (forall a, scalarAspectRatio_gen a r = a * 1) /\ setAspectRatio_dispatch_gen = true.
Proof. to_model. repeat split; reflexivity. Qed.

Lemma gen_findRcrit_root (tf : R -> R) (Rs tol Rmax r : R) n :
  findRcrit_gen Rops tf Rs tol Rmax = Found Rops r n ->
  Rabs (r / (Rs * tf r) - 1) <= tol /\ (n <= 99)%nat /\
  (Rs <= Rmax -> Rs <= r <= Rmax) /\
  (Rs <= Rmax -> exists a b, Rs <= a /\ b <= Rmax /\ b - a = (Rmax - Rs) / 2 ^ n /\ r = (a + b) / 2) /\
  (0 <= tol -> (Rs / (Rs * tf Rs) - 1) * (Rmax / (Rs * tf Rmax) - 1) < 0 ->
     exists a b, r = (a + b) / 2 /\ b - a = (Rmax - Rs) / 2 ^ n /\ (a / (Rs * tf a) - 1) * (b / (Rs * tf b) - 1) < 0).
Proof. to_model. exact (findRcrit_found_root tf Rs tol Rmax r n). Qed.

Lemma gen_findRcrit_relative (tf : R -> R) (Rs tol Rmax r : R) n :
  findRcrit_gen Rops tf Rs tol Rmax = Found Rops r n -> Rs * tf r <> 0 ->
  Rabs (r - Rs * tf r) <= tol * Rabs (Rs * tf r).
Proof. to_model. exact (findRcrit_found_relative tf Rs tol Rmax r n). Qed.

Lemma gen_findRcrit_gaveup (tf : R -> R) (Rs tol Rmax : R) :
  findRcrit_gen Rops tf Rs tol Rmax = GaveUp Rops ->
  findRcrit_value_gen Rops tf Rs tol Rmax = Rs /\
  forall j, (j <= 99)%nat ->
    tol < Rabs (objective Rops tf Rs (midR (biter Rops tf Rs j (findRcrit_init_gen Rops tf Rs Rmax)))).
Proof. to_model. exact (findRcrit_gaveup tf Rs tol Rmax). Qed.

Lemma gen_findRcrit_converges (tf : R -> R) (Rs tol Rmax L : R) :
  Rs <= Rmax -> 0 <= tol ->
  (forall x y, Rs <= x <= Rmax -> Rs <= y <= Rmax ->
     Rabs ((x / (Rs * tf x) - 1) - (y / (Rs * tf y) - 1)) <= L * Rabs (x - y)) ->
  (Rs / (Rs * tf Rs) - 1) * (Rmax / (Rs * tf Rmax) - 1) < 0 ->
  L * (Rmax - Rs) <= tol * 2 ^ 100 ->
  exists r n, findRcrit_gen Rops tf Rs tol Rmax = Found Rops r n /\ (n <= 99)%nat /\
              Rs <= r <= Rmax /\ Rabs (r / (Rs * tf r) - 1) <= tol /\ findRcrit_value_gen Rops tf Rs tol Rmax = r.
Proof. to_model. exact (findRcrit_converges tf Rs tol Rmax L). Qed.

Lemma gen_findRcritScalar_root (d : description) (a Rs Rmax : R) :
  let tf := ShapeFactor_thermoFactor_gen (thermoFactor d) (scalarAspectRatio_gen a) in
  let r := findRcritScalar_gen tf Rs Rmax in
  r = Rs * tf r /\ (Rs * tf Rs <> 0 -> r / (Rs * tf r) - 1 = 0).
Proof. to_model. exact (findRcritScalar_exact d a Rs Rmax). Qed.
