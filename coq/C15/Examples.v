(* C15 - non-vacuity examples (the hypotheses of the theorems are met by concrete non-trivial inputs,
   the conclusions are about non-trivial values) and the refuted continuity of the constructor that
   CuboidalDescription had before the repair (kept as [Cuboidal_legacy] in Model.v). *)
From Coq Require Import Reals QArith List Bool ZArith Lra.
From Interval Require Import Tactic.
Require Import Kawin.Common.Ops Kawin.Common.Vec Kawin.C15.Model Kawin.C15.Proofs Kawin.C15.Bisection Kawin.C15.Analysis.
Open Scope R_scope.

Ltac to_atan :=
  repeat match goal with
  | |- context [asin ?x] => rewrite (asin_atan x) by (split; interval)
  | |- context [acos ?x] => rewrite (acos_atan x) by interval
  end.
Ltac numeric := unfold needle_thermo, needle_kinetic, plate_thermo, plate_kinetic, cuboidal_thermo, cuboidal_kinetic,
                       cuboidal_eqRadius, ecc, cbrt, Rpower; cbv zeta; to_atan; unfold Rsqr; interval with (i_prec 60).

(* ---- the factors are not trivially 1: values at aspect ratio 2 (test_shapeFactors pins the same digits) *)
Example needle_thermo_2 : 1.07672 < thermoFactor Needle 2 < 1.07673.
Proof. unfold thermoFactor. rewrite wrapper_gt1 by lra. cbn [thRaw Needle]. split; numeric. Qed.
Example needle_kinetic_2 : 1.04386 < kineticFactor Needle 2 < 1.04387.
Proof. unfold kineticFactor. rewrite wrapper_gt1 by lra. cbn [kinRaw Needle]. split; numeric. Qed.
Example plate_thermo_2 : 1.09544 < thermoFactor Plate 2 < 1.09545.
Proof. unfold thermoFactor. rewrite wrapper_gt1 by lra. cbn [thRaw Plate]. split; numeric. Qed.
Example plate_kinetic_2 : 1.04194 < kineticFactor Plate 2 < 1.04195.
Proof. unfold kineticFactor. rewrite wrapper_gt1 by lra. cbn [kinRaw Plate]. split; numeric. Qed.
Example cuboidal_kinetic_2 : 0.99737 < kineticFactor Cuboidal 2 < 0.99738.
Proof. unfold kineticFactor. rewrite wrapper_gt1 by lra. cbn [kinRaw Cuboidal]. split; numeric. Qed.

(* the cuboidal factors at aspect ratio 1 after the repair: a cube is not a sphere *)
Example cuboidal_at_one :
  0.62035 < eqRadiusFactor Cuboidal 1 < 0.62036 /\ kineticFactor Cuboidal 1 = 0.968 /\ 1.24070 < thermoFactor Cuboidal 1 < 1.24071.
Proof.
  destruct (factors_at_one Cuboidal 1 ltac:(lra)) as [E1 [E2 E3]]. rewrite E1, E2, E3. cbn [eqMin kinMin thMin Cuboidal].
  repeat split; try numeric. lra.
Qed.

(* ---- the bisection: a run that finds the root, a run that gives up --------------------------------- *)
(* constant factor 3/2, R_sphere = 1, Rmax = 4, tol = 1/1000: root 3/2, found after 9 halvings (exact rationals) *)
Example findRcrit_finds :
  findRcrit Qops (fun _ => 3 # 2)%Q 1%Q (1 # 1000)%Q 4%Q = Found Qops (1537 # 1024)%Q 9.
Proof. vm_compute. reflexivity. Qed.

(* tolerance 0 and a root at the left end of the bracket: 100 iterations, then RcritSphere *)
Example findRcrit_gives_up :
  findRcrit Qops (fun _ => 1)%Q 1%Q 0%Q 4%Q = GaveUp Qops /\ findRcrit_value Qops (fun _ => 1)%Q 1%Q 0%Q 4%Q = 1%Q.
Proof. split; vm_compute; reflexivity. Qed.

(* the hypotheses of the convergence theorem are satisfiable (linear objective), its conclusion non-trivial *)
Example findRcrit_converges_nonvacuous :
  exists r n, findRcrit Rops (fun _ => 3 / 2) 1 (1 / 1000) 4 = Found Rops r n /\ (n <= 99)%nat /\
              1 <= r <= 4 /\ Rabs (r / (1 * (3 / 2)) - 1) <= 1 / 1000.
Proof.
  destruct (findRcrit_converges (fun _ => 3 / 2) 1 (1 / 1000) 4 (2 / 3)) as [r [n [H1 [H2 [H3 [H4 _]]]]]]; try lra.
  - intros x y _ _. unfold objective. Rnorm.
    replace (x / (1 * (3 / 2)) - 1 - (y / (1 * (3 / 2)) - 1)) with (2 / 3 * (x - y)) by field.
    rewrite Rabs_mult, (Rabs_right (2 / 3)) by lra. lra.
  - unfold objective. Rnorm. lra.
  - exists r, n. repeat split; try assumption; apply H3.
Qed.

(* ---- before the repair: the cuboidal factors were NOT continuous at aspect ratio 1 ---------------- *)
Lemma right_limit_unique f l1 l2 : right_limit_at_one f l1 -> right_limit_at_one f l2 -> l1 = l2.
Proof.
  intros H1 H2. destruct (Req_dec l1 l2) as [E|N]; [exact E|exfalso].
  assert (He : 0 < Rabs (l1 - l2) / 2) by (apply Rdiv_lt_0_compat; [apply Rabs_pos_lt; lra|lra]).
  destruct (H1 _ He) as [d1 [Hd1 B1]]. destruct (H2 _ He) as [d2 [Hd2 B2]].
  set (x := 1 + Rmin d1 d2 / 2). assert (0 < Rmin d1 d2) by (apply Rmin_glb_lt; lra).
  assert (Rmin d1 d2 <= d1) by apply Rmin_l. assert (Rmin d1 d2 <= d2) by apply Rmin_r.
  specialize (B1 x ltac:(unfold x; lra)). specialize (B2 x ltac:(unfold x; lra)).
  assert (Rabs (l1 - l2) <= Rabs (f x - l1) + Rabs (f x - l2)).
  { replace (l1 - l2) with (- (f x - l1) + (f x - l2)) by ring.
    apply Rle_trans with (1 := Rabs_triang _ _). rewrite Rabs_Ropp. lra. }
  lra.
Qed.

Lemma right_limit_of_wrapper_continuity fmin f : continuity_pt (factor_wrapper fmin f) 1 -> right_limit_at_one f fmin.
Proof.
  intros Hc eps Heps. destruct (Hc eps Heps) as [delta [Hd Hx]]. exists delta. split; [exact Hd|].
  intros x Hx1. specialize (Hx x). simpl in Hx. unfold R_dist in Hx.
  rewrite (wrapper_le1 _ _ 1) in Hx by lra. rewrite wrapper_gt1 in Hx by lra. apply Hx.
  split; [split; [exact I|lra]|]. rewrite Rabs_right; lra.
Qed.

Example cuboidal_legacy_discontinuous_refuted :
  ~ continuity_pt (eqRadiusFactor Cuboidal_legacy) 1 /\ ~ continuity_pt (kineticFactor Cuboidal_legacy) 1 /\
  ~ continuity_pt (thermoFactor Cuboidal_legacy) 1.
Proof.
  unfold eqRadiusFactor, kineticFactor, thermoFactor. cbn [eqMin kinMin thMin eqRaw kinRaw thRaw Cuboidal_legacy].
  rewrite !(wrapper_le1 1 _ 1) by lra. rewrite (wrapper_gt1 1 cuboidal_kinetic) by lra.
  repeat split; intros Hc; apply right_limit_of_wrapper_continuity in Hc.
  - assert (E := right_limit_unique _ _ _ Hc cuboidal_eqRadius_limit).
    assert (cuboidal_eqRadius 1 < 0.63) by numeric. lra.
  - assert (E := right_limit_unique _ _ _ Hc cuboidal_kinetic_limit).
    assert (cuboidal_kinetic (10001 / 10000) < 0.9679995) by numeric. lra.
  - assert (E := right_limit_unique _ _ _ Hc cuboidal_thermo_limit).
    assert (1.24 < cuboidal_thermo 1) by numeric. lra.
Qed.
