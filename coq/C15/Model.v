(* C15 - Precipitate shape factors match the geometry they describe.
   Definitional part only (no proofs).

   1. primitives shared with the GENERATED file build/C15/ShapeFactors_gen.v (cbrt, triples)
   2. geometry the property talks about, written from textbooks and NOT from the code: volumes,
      closed-form surface area and capacitance of spheroids, the equal-volume sphere, the surface-of-
      revolution integrand whose integral the closed-form areas are proved to be (Geometry.v), the
      integrand of the classical ellipsoid-capacitance formula (Capacitance.v)
   3. hand model of kawin/precipitation/parameters/ShapeFactors.py (the four descriptions, the
      wrappers `_processAspectRatio` / `factor[ar > 1] = ...`, the ShapeFactor compositions); the text
      generated from the current source is proved equal to these in run/Bridge.v, the deep theorems
      are about these
   4. hand model of ShapeFactor._findRcrit (bisection) over the scalar record [Ops]: theorems on
      the real instance, executed bit-exactly on binary64 (Corr.v) against the implementation *)
From Coq Require Import Reals List Bool ZArith Arith.
Require Import Kawin.Common.Ops Kawin.Common.Vec.
Import ListNotations.
Open Scope R_scope.

(* ---- 1. primitives ------------------------------------------------------------------------- *)
(* np.cbrt on positive arguments (every argument of np.cbrt in ShapeFactors.py is positive for
   aspect ratios >= 1; the theorems carry that guard).  x ** (p/q) is Rpower x (p/q). *)
Definition cbrt (x : R) : R := Rpower x (/ 3).

Definition triple := (R * R * R)%type.
(* scalar * np.array([a, b, c]).T *)
Definition smul3 (s : R) (v : triple) : triple := let '(a, b, c) := v in (s * a, s * b, s * c).
Definition ones3 : triple := (1, 1, 1).
Definition ax1 (v : triple) : R := fst (fst v).
Definition ax2 (v : triple) : R := snd (fst v).
Definition ax3 (v : triple) : R := snd v.

(* ---- 2. geometry (specification side) ------------------------------------------------------- *)
Definition ellipsoid_volume (a b c : R) : R := 4 / 3 * PI * a * b * c.
Definition cuboid_volume (a b c : R) : R := a * b * c.
Definition sphere_volume (r : R) : R := 4 / 3 * PI * r ^ 3.
Definition sphere_area (r : R) : R := 4 * PI * r ^ 2.
(* radius of the sphere of volume V *)
Definition eq_sphere_radius (V : R) : R := cbrt (3 * V / (4 * PI)).

(* prolate spheroid (needle): equatorial semi-axis a (twice), polar semi-axis c > a.
   oblate spheroid (plate): equatorial semi-axis a (twice), polar semi-axis c < a.
   Textbook closed forms (e.g. Landau & Lifshitz vol. 8 par. 4 for the capacitance, in units where a
   sphere of radius r has capacitance r). *)
Definition prolate_ecc (a c : R) : R := sqrt (1 - a ^ 2 / c ^ 2).
Definition oblate_ecc (a c : R) : R := sqrt (1 - c ^ 2 / a ^ 2).
Definition prolate_area (a c : R) : R :=
  let e := prolate_ecc a c in 2 * PI * a ^ 2 * (1 + c / (a * e) * asin e).
Definition oblate_area (a c : R) : R :=
  let e := oblate_ecc a c in 2 * PI * a ^ 2 + PI * c ^ 2 / e * ln ((1 + e) / (1 - e)).
Definition prolate_capacitance (a c : R) : R :=
  let e := prolate_ecc a c in 2 * c * e / ln ((1 + e) / (1 - e)).
Definition oblate_capacitance (a c : R) : R :=
  let e := oblate_ecc a c in a * e / asin e.
Definition cuboid_area (a b c : R) : R := 2 * (a * b + b * c + a * c).

(* surface of revolution of the ellipse (a sin t, c cos t), t in [0, PI], about the polar axis:
   dS = 2 PI * (a sin t) * sqrt (a^2 cos^2 t + c^2 sin^2 t) dt *)
Definition spheroid_area_integrand (a c t : R) : R :=
  2 * PI * (a * sin t) * sqrt (a ^ 2 * cos t ^ 2 + c ^ 2 * sin t ^ 2).

(* classical integral formula for the capacitance of the ellipsoid with semi-axes a, a, c (units in which a
   sphere of radius r has capacitance r):  C = 2 / int_0^oo dt / ((a^2 + t) sqrt (c^2 + t)) *)
Definition spheroid_capacitance_integrand (a c t : R) : R := 1 / ((a ^ 2 + t) * sqrt (c ^ 2 + t)).

(* ---- 3. hand model of ShapeFactors.py -------------------------------------------------------- *)
(* ShapeDescriptionBase.eccentricity *)
Definition ecc (ar : R) : R := sqrt (1 - 1 / ar ^ 2).

(* SphereDescription *)
Definition sphere_eqRadius (ar : R) : R := 1.
Definition sphere_normalRadii (ar : R) : triple := smul3 (cbrt (3 / (4 * PI))) ones3.
Definition sphere_kinetic (ar : R) : R := 1.
Definition sphere_thermo (ar : R) : R := 1.

(* NeedleDescription *)
Definition needle_eqRadius (ar : R) : R := cbrt ar.
Definition needle_normalRadii (ar : R) : triple :=
  let scale := cbrt (1 / ar) in
  smul3 (cbrt (3 / (4 * PI))) (scale, scale, scale * ar).
Definition needle_kinetic (ar : R) : R :=
  let ecc := ecc ar in
  2 * cbrt (ar ^ 2) * ecc / (ln (1 + ecc) - ln (1 - ecc)).
Definition needle_thermo (ar : R) : R :=
  let ecc := ecc ar in
  1 / (2 * Rpower ar (2 / 3)) * (1 + ar / ecc * asin ecc).

(* PlateDescription *)
Definition plate_eqRadius (ar : R) : R := cbrt (ar ^ 2).
Definition plate_normalRadii (ar : R) : triple :=
  let scale := cbrt (1 / ar ^ 2) in
  smul3 (cbrt (3 / (4 * PI))) (scale * ar, scale * ar, scale).
Definition plate_kinetic (ar : R) : R :=
  let ecc := ecc ar in
  ecc * cbrt ar / (PI / 2 - acos ecc).
Definition plate_thermo (ar : R) : R :=
  let ecc := ecc ar in
  1 / (2 * Rpower ar (4 / 3)) * (ar ^ 2 + 1 / (2 * ecc) * ln ((1 + ecc) / (1 - ecc))).

(* CuboidalDescription *)
Definition cuboidal_eqRadius (ar : R) : R := cbrt (3 * ar / (4 * PI)).
Definition cuboidal_normalRadii (ar : R) : triple :=
  let scale := cbrt (1 / ar) in
  (scale, scale, scale * ar).
Definition cuboidal_kinetic (ar : R) : R :=
  1 / 10 * exp (- (91 / 1000) * (ar - 1))
  + 217 / 125 * sqrt (ar ^ 2 - 1) / (cbrt ar * ln (2 * ar ^ 2 + 2 * ar * sqrt (ar ^ 2 - 1) - 1)).
Definition cuboidal_thermo (ar : R) : R :=
  (2 * ar + 1) / (2 * PI) * Rpower (4 * PI / (3 * ar)) (2 / 3).

(* _processAspectRatio: entries below 1 become 1 (the repaired code builds a new array; whether the
   source writes into its argument is a separate generated constant, see run/Bridge.v) *)
Definition processAspectRatio (ar : R) : R := if Rlt_dec ar 1 then 1 else ar.

(* eqRadiusFactor / kineticFactor / thermoFactor of ShapeDescriptionBase:
     ar = self._processAspectRatio(ar); factor = self.<x>Min * np.ones(ar.shape)
     factor[ar > 1] = self._<x>(ar[ar > 1]) *)
Definition factor_wrapper (fmin : R) (f : R -> R) (ar : R) : R :=
  let ar := processAspectRatio ar in
  if Rgt_dec ar 1 then f ar else fmin * 1.
(* normalRadii: np.squeeze(self._normalRadii(self._processAspectRatio(ar))) *)
Definition radii_wrapper (f : R -> triple) (ar : R) : triple := f (processAspectRatio ar).

(* a description = the three `...Min` attributes its constructor leaves + its four formula methods *)
Record description := mkDescr {
  eqMin : R; kinMin : R; thMin : R;
  eqRaw : R -> R; radiiRaw : R -> triple; kinRaw : R -> R; thRaw : R -> R }.

Definition eqRadiusFactor (d : description) : R -> R := factor_wrapper (eqMin d) (eqRaw d).
Definition kineticFactor (d : description) : R -> R := factor_wrapper (kinMin d) (kinRaw d).
Definition thermoFactor (d : description) : R -> R := factor_wrapper (thMin d) (thRaw d).
Definition normalRadii (d : description) : R -> triple := radii_wrapper (radiiRaw d).

(* ShapeDescriptionBase.__init__ leaves 1, 1, 1 *)
Definition Sphere : description :=
  mkDescr 1 1 1 sphere_eqRadius sphere_normalRadii sphere_kinetic sphere_thermo.
Definition Needle : description :=
  mkDescr 1 1 1 needle_eqRadius needle_normalRadii needle_kinetic needle_thermo.
Definition Plate : description :=
  mkDescr 1 1 1 plate_eqRadius plate_normalRadii plate_kinetic plate_thermo.
(* CuboidalDescription.__init__ (repaired): the values of the factors at aspect ratio 1 are the
   limits of the formulas there:  _eqRadius(1), 0.1 + 1.736 / 2, _thermoFactor(1) *)
Definition Cuboidal : description :=
  mkDescr (cuboidal_eqRadius 1) (1 / 10 + 217 / 125 / 2) (cuboidal_thermo 1)
          cuboidal_eqRadius cuboidal_normalRadii cuboidal_kinetic cuboidal_thermo.

(* what CuboidalDescription.__init__ computed before the repair (kept for Examples.v): the public
   wrappers were called while the `...Min` attributes still held the base-class value 1, so
   eqRadiusFactor(1) and thermoFactor(1) returned that 1, and the kinetic value was sampled at 1.0001 *)
Definition Cuboidal_legacy : description :=
  mkDescr (factor_wrapper 1 cuboidal_eqRadius 1) (factor_wrapper 1 cuboidal_kinetic (10001 / 10000))
          (factor_wrapper 1 cuboidal_thermo 1)
          cuboidal_eqRadius cuboidal_normalRadii cuboidal_kinetic cuboidal_thermo.

(* ShapeFactor: the description's functions composed with the aspect-ratio function of the radius *)
Definition sf_eqRadiusFactor (d : description) (aspect : R -> R) (r : R) : R := eqRadiusFactor d (aspect r).
Definition sf_kineticFactor (d : description) (aspect : R -> R) (r : R) : R := kineticFactor d (aspect r).
Definition sf_thermoFactor (d : description) (aspect : R -> R) (r : R) : R := thermoFactor d (aspect r).
Definition sf_normalRadii (d : description) (aspect : R -> R) (r : R) : triple := normalRadii d (aspect r).
(* _scalarAspectRatioEquation *)
Definition scalarAspectRatio (a : R) (r : R) : R := a * 1.
(* _findRcritScalar *)
Definition findRcritScalar (tf : R -> R) (RcritSphere Rmax : R) : R := RcritSphere * tf RcritSphere.

(* ---- 4. ShapeFactor._findRcrit over [Ops] ---------------------------------------------------- *)
Section Bisection.
Variable O : Ops.
Notation t := (T O).
Variable tf : t -> t.          (* self.thermoFactor, a function of the radius *)
Variable Rs : t.               (* RcritSphere *)
Variable tol : t.              (* self.tol *)

(* R / (RcritSphere * self.thermoFactor(R)) - 1 *)
Definition objective (r : t) : t := sub O (dvd O r (mul O Rs (tf r))) (one O).

(* Found r n: the loop ended after n iterations because |fMid| <= tol, returns midR = r.
   GaveUp: n reached 100, the code returns RcritSphere. *)
Inductive outcome := Found (r : t) (n : nat) | GaveUp.

Record bstate := mkB { minR : t; maxR : t; midR : t; fMin : t; fMax : t; fMid : t }.

Definition two : t := ofZ O 2.

Definition bstep (s : bstate) : bstate :=
  let '(mn, mx, fn, fx) :=
    if leb O (zero O) (mul O (fMin s) (fMid s))
    then (midR s, maxR s, fMid s, fMax s)
    else (minR s, midR s, fMin s, fMid s) in
  let md := dvd O (add O mn mx) two in
  mkB mn mx md fn fx (objective md).

(* `fuel` = iterations that may still complete before n == 100 *)
Fixpoint bloop (fuel : nat) (n : nat) (s : bstate) : outcome :=
  if ltb O tol (absT O (fMid s)) then
    match fuel with
    | 0%nat => GaveUp
    | S k => bloop k (S n) (bstep s)
    end
  else Found (midR s) n.

Definition binit (Rmax : t) : bstate :=
  let md := dvd O (add O Rs Rmax) two in
  mkB Rs Rmax md (objective Rs) (objective Rmax) (objective md).

(* the 100th iteration ends in `return RcritSphere`: 99 iterations may be followed by another test *)
Definition findRcrit (Rmax : t) : outcome := bloop 99%nat 0%nat (binit Rmax).

(* the value the Python function returns *)
Definition findRcrit_value (Rmax : t) : t :=
  match findRcrit Rmax with Found r _ => r | GaveUp => Rs end.

(* state after k iterations (for the invariants) *)
Fixpoint biter (k : nat) (s : bstate) : bstate :=
  match k with 0%nat => s | S k' => biter k' (bstep s) end.
End Bisection.

Arguments minR {O} _.
Arguments maxR {O} _.
Arguments midR {O} _.
Arguments fMin {O} _.
Arguments fMax {O} _.
Arguments fMid {O} _.
