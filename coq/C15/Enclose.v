(* C15 - harness-side support for the pointwise enclosures (translator validation): the check emits,
   for sampled exact inputs x and the value y the running Python function returned, goals
       Rabs (f x - y) <= tol
   about the GENERATED definitions, and Coq proves them by interval arithmetic.  Each goal is wrapped
   as  {goal} + {True}  and decided by [decide_enclosure]: a kernel-checked proof, or "not proved";
   verdicts are printed as booleans.  No theorem of Properties.v depends on this file. *)
From Coq Require Import Reals List Lra.
From Interval Require Import Tactic.
Require Import Kawin.C15.Model.
Open Scope R_scope.

Lemma if_Rlt_true (a b x y : R) : a < b -> (if Rlt_dec a b then x else y) = x.
Proof. intros H. destruct (Rlt_dec a b); [reflexivity|contradiction]. Qed.
Lemma if_Rlt_false (a b x y : R) : b <= a -> (if Rlt_dec a b then x else y) = y.
Proof. intros H. destruct (Rlt_dec a b); [lra|reflexivity]. Qed.
Lemma if_Rgt_true (a b x y : R) : b < a -> (if Rgt_dec a b then x else y) = x.
Proof. intros H. destruct (Rgt_dec a b) as [|n]; [reflexivity|exfalso; apply n; exact H]. Qed.
Lemma if_Rgt_false (a b x y : R) : a <= b -> (if Rgt_dec a b then x else y) = y.
Proof. intros H. destruct (Rgt_dec a b) as [g|]; [unfold Rgt in g; lra|reflexivity]. Qed.
Lemma if_Rle_true (a b x y : R) : a <= b -> (if Rle_dec a b then x else y) = x.
Proof. intros H. destruct (Rle_dec a b); [reflexivity|contradiction]. Qed.
Lemma if_Rle_false (a b x y : R) : b < a -> (if Rle_dec a b then x else y) = y.
Proof. intros H. destruct (Rle_dec a b); [lra|reflexivity]. Qed.
Lemma if_Rge_true (a b x y : R) : b <= a -> (if Rge_dec a b then x else y) = x.
Proof. intros H. destruct (Rge_dec a b) as [|n]; [reflexivity|exfalso; apply n; lra]. Qed.
Lemma if_Rge_false (a b x y : R) : a < b -> (if Rge_dec a b then x else y) = y.
Proof. intros H. destruct (Rge_dec a b) as [g|]; [lra|reflexivity]. Qed.

(* decide the masks on concrete rationals *)
Ltac unmask :=
  repeat first
    [ rewrite if_Rlt_true by lra | rewrite if_Rlt_false by lra
    | rewrite if_Rgt_true by lra | rewrite if_Rgt_false by lra
    | rewrite if_Rle_true by lra | rewrite if_Rle_false by lra
    | rewrite if_Rge_true by lra | rewrite if_Rge_false by lra
    | rewrite Rmax_left by lra | rewrite Rmax_right by lra
    | rewrite Rmin_left by lra | rewrite Rmin_right by lra ].

(* asin / acos -> atan (Interval has no asin / acos), side conditions discharged numerically *)
Ltac to_atan p :=
  repeat match goal with
  | |- context [asin ?x] => rewrite (asin_atan x) by (split; interval with (i_prec p))
  | |- context [acos ?x] => rewrite (acos_atan x) by (interval with (i_prec p))
  end.

Ltac enclose_core p :=
  cbv zeta; unfold smul3, ones3, ax1, ax2, ax3; cbn [fst snd]; unmask; cbv zeta;
  unfold smul3, ones3; cbn [fst snd]; unfold cbrt, Rpower, Rsqr; to_atan p; unfold Rsqr;
  interval with (i_prec p).

(* [u] unfolds the generated definitions (emitted by the translator as Ltac gen_unfold) *)
Ltac enclose u := timeout 120 (u; first [ enclose_core 70%positive | enclose_core 160%positive ]).

Ltac decide_enclosure tac := first [ left; abstract tac | right; exact I ].
Definition verdict {P : Prop} (d : {P} + {True}) : bool := if d then true else false.
