(* C15 - lemmas, part 1: cube roots, semi-axes, the closed-form area / capacitance ratios, the
   wrappers, the cuboidal factors at aspect ratio 1, the bisection. *)
From Coq Require Import Reals List Bool ZArith Arith Lra Lia.
Require Import Kawin.Common.Ops Kawin.Common.Vec Kawin.C15.Model.
Import ListNotations.
Open Scope R_scope.
Arguments cbrt : simpl never.

(* ---- cube roots and rational powers (positive arguments) ------------------------------------- *)
Lemma cbrt_pos x : 0 < cbrt x.
Proof. unfold cbrt, Rpower. apply exp_pos. Qed.

Lemma Rpower_pos x y : 0 < Rpower x y.
Proof. unfold Rpower. apply exp_pos. Qed.

Lemma cbrt_cube x : 0 < x -> cbrt x ^ 3 = x.
Proof.
  intros Hx. unfold cbrt. rewrite <- (Rpower_pow 3) by apply Rpower_pos.
  rewrite Rpower_mult. replace (/ 3 * INR 3) with 1 by (simpl; field). apply Rpower_1; exact Hx.
Qed.

Lemma cbrt_1 : cbrt 1 = 1.
Proof. unfold cbrt, Rpower. rewrite ln_1, Rmult_0_r. apply exp_0. Qed.

Lemma cbrt_mult x y : 0 < x -> 0 < y -> cbrt (x * y) = cbrt x * cbrt y.
Proof. intros Hx Hy. unfold cbrt. symmetry. apply Rpower_mult_distr; assumption. Qed.

Lemma cbrt_pow3 a : 0 < a -> cbrt (a ^ 3) = a.
Proof.
  intros Ha. unfold cbrt. rewrite <- (Rpower_pow 3) by exact Ha. rewrite Rpower_mult.
  replace (INR 3 * / 3) with 1 by (simpl; field). apply Rpower_1; exact Ha.
Qed.

Lemma cbrt_sqr x : 0 < x -> cbrt (x ^ 2) = cbrt x ^ 2.
Proof. intros Hx. replace (x ^ 2) with (x * x) by ring. rewrite cbrt_mult by assumption. ring. Qed.

Lemma cbrt_lt x y : 0 < x -> x < y -> cbrt x < cbrt y.
Proof. intros Hx Hxy. unfold cbrt. apply Rlt_Rpower_l; lra. Qed.

Lemma cbrt_gt_1 x : 1 < x -> 1 < cbrt x.
Proof. intros Hx. rewrite <- cbrt_1. apply cbrt_lt; lra. Qed.

Lemma cbrt_inv x : 0 < x -> cbrt (1 / x) = / cbrt x.
Proof.
  intros Hx. assert (Hc := cbrt_pos x).
  apply (Rmult_eq_reg_r (cbrt x)); [|lra]. rewrite <- cbrt_mult; [|apply Rdiv_lt_0_compat; lra|exact Hx].
  replace (1 / x * x) with 1 by (field; lra). rewrite cbrt_1. field; lra.
Qed.

(* x ** (2/3) = cbrt(x)^2 and x ** (4/3) = cbrt(x^2)^2 *)
Lemma Rpower_23 x : 0 < x -> Rpower x (2 / 3) = cbrt x ^ 2.
Proof.
  intros Hx. unfold cbrt. rewrite <- (Rpower_pow 2) by apply Rpower_pos. rewrite Rpower_mult.
  f_equal. simpl; field.
Qed.
Lemma Rpower_43 x : 0 < x -> Rpower x (4 / 3) = cbrt (x ^ 2) ^ 2.
Proof.
  intros Hx. unfold cbrt. rewrite <- (Rpower_pow 2 x) by exact Hx.
  rewrite <- (Rpower_pow 2) by apply Rpower_pos. rewrite !Rpower_mult. f_equal. simpl; field.
Qed.

Lemma ln_div_pos x y : 0 < x -> 0 < y -> ln (x / y) = ln x - ln y.
Proof.
  intros Hx Hy. unfold Rdiv. rewrite ln_mult; [|exact Hx|apply Rinv_0_lt_compat; exact Hy].
  rewrite ln_Rinv by exact Hy. ring.
Qed.

(* ---- eccentricity ---------------------------------------------------------------------------- *)
Lemma ecc_sqr ar : 1 <= ar -> ecc ar ^ 2 = 1 - 1 / ar ^ 2.
Proof.
  intros H. unfold ecc. rewrite <- Rsqr_pow2. apply Rsqr_sqrt.
  assert (0 < ar ^ 2) by nra. assert (1 / ar ^ 2 <= 1); [|lra].
  apply (Rmult_le_reg_r (ar ^ 2)); [lra|]. replace (1 / ar ^ 2 * ar ^ 2) with 1 by (field; lra). nra.
Qed.

Lemma ecc_range ar : 1 < ar -> 0 < ecc ar < 1.
Proof.
  intros H. assert (H2 : 0 < ar ^ 2) by nra.
  assert (Hi : 0 < 1 / ar ^ 2 < 1).
  { split; [apply Rdiv_lt_0_compat; lra|].
    apply (Rmult_lt_reg_r (ar ^ 2)); [lra|]. replace (1 / ar ^ 2 * ar ^ 2) with 1 by (field; lra). nra. }
  unfold ecc. split.
  - apply sqrt_lt_R0; lra.
  - apply Rlt_le_trans with (sqrt 1); [apply sqrt_lt_1; lra|rewrite sqrt_1; lra].
Qed.

Lemma ecc_one : ecc 1 = 0.
Proof. unfold ecc. replace (1 - 1 / 1 ^ 2) with 0 by field. apply sqrt_0. Qed.

Lemma ecc_lt x y : 1 <= x -> x < y -> ecc x < ecc y.
Proof.
  intros Hx Hxy. unfold ecc. assert (0 < x ^ 2) by nra. assert (0 < y ^ 2) by nra.
  assert (1 / y ^ 2 < 1 / x ^ 2).
  { unfold Rdiv. rewrite !Rmult_1_l. apply Rinv_lt_contravar; nra. }
  assert (1 / x ^ 2 <= 1).
  { apply (Rmult_le_reg_r (x ^ 2)); [lra|]. replace (1 / x ^ 2 * x ^ 2) with 1 by (field; lra). nra. }
  apply sqrt_lt_1; lra.
Qed.

(* ---- semi-axes -------------------------------------------------------------------------------- *)
Lemma r0_cube : cbrt (3 / (4 * PI)) ^ 3 = 3 / (4 * PI).
Proof. apply cbrt_cube. assert (H := PI_RGT_0). apply Rdiv_lt_0_compat; lra. Qed.

Ltac axes_unfold :=
  unfold sphere_normalRadii, needle_normalRadii, plate_normalRadii, cuboidal_normalRadii, smul3, ones3, ax1, ax2, ax3;
  cbv zeta; cbn [fst snd].

Lemma sphere_axes ar :
  let v := sphere_normalRadii ar in
  ellipsoid_volume (ax1 v) (ax2 v) (ax3 v) = 1 /\ ax1 v = ax2 v /\ ax2 v = ax3 v /\ 0 < ax1 v.
Proof.
  axes_unfold. assert (H := PI_RGT_0). assert (Hc := r0_cube). assert (Hp := cbrt_pos (3 / (4 * PI))).
  set (r0 := cbrt (3 / (4 * PI))) in *.
  repeat split; try lra. unfold ellipsoid_volume.
  transitivity (4 / 3 * PI * r0 ^ 3); [ring|]. rewrite Hc. field; lra.
Qed.

Lemma needle_axes ar : 0 < ar ->
  let v := needle_normalRadii ar in
  ellipsoid_volume (ax1 v) (ax2 v) (ax3 v) = 1 /\ ax1 v = ax2 v /\ ax3 v = ar * ax1 v /\ 0 < ax1 v.
Proof.
  intros Har. axes_unfold. assert (H := PI_RGT_0). assert (Hc := r0_cube). assert (Hp := cbrt_pos (3 / (4 * PI))).
  assert (Hs := cbrt_pos (1 / ar)).
  assert (Hs3 : cbrt (1 / ar) ^ 3 = 1 / ar) by (apply cbrt_cube, Rdiv_lt_0_compat; lra).
  set (r0 := cbrt (3 / (4 * PI))) in *. set (s := cbrt (1 / ar)) in *.
  repeat split; try ring; [|apply Rmult_lt_0_compat; assumption]. unfold ellipsoid_volume.
  transitivity (4 / 3 * PI * r0 ^ 3 * (s ^ 3 * ar)); [ring|]. rewrite Hc, Hs3. field; lra.
Qed.

Lemma plate_axes ar : 0 < ar ->
  let v := plate_normalRadii ar in
  ellipsoid_volume (ax1 v) (ax2 v) (ax3 v) = 1 /\ ax1 v = ax2 v /\ ax1 v = ar * ax3 v /\ 0 < ax3 v.
Proof.
  intros Har. axes_unfold. assert (H := PI_RGT_0). assert (Hc := r0_cube). assert (Hp := cbrt_pos (3 / (4 * PI))).
  assert (H2 : 0 < ar ^ 2) by nra.
  assert (Hs := cbrt_pos (1 / ar ^ 2)).
  assert (Hs3 : cbrt (1 / ar ^ 2) ^ 3 = 1 / ar ^ 2) by (apply cbrt_cube, Rdiv_lt_0_compat; lra).
  set (r0 := cbrt (3 / (4 * PI))) in *. set (s := cbrt (1 / ar ^ 2)) in *.
  repeat split; try ring; [|apply Rmult_lt_0_compat; assumption]. unfold ellipsoid_volume.
  transitivity (4 / 3 * PI * r0 ^ 3 * (s ^ 3 * ar ^ 2)); [ring|]. rewrite Hc, Hs3. field; lra.
Qed.

Lemma cuboidal_axes ar : 0 < ar ->
  let v := cuboidal_normalRadii ar in
  cuboid_volume (ax1 v) (ax2 v) (ax3 v) = 1 /\ ax1 v = ax2 v /\ ax3 v = ar * ax1 v /\ 0 < ax1 v.
Proof.
  intros Har. axes_unfold. assert (Hs := cbrt_pos (1 / ar)).
  assert (Hs3 : cbrt (1 / ar) ^ 3 = 1 / ar) by (apply cbrt_cube, Rdiv_lt_0_compat; lra).
  set (s := cbrt (1 / ar)) in *.
  repeat split; try ring; [|lra]. unfold cuboid_volume.
  transitivity (s ^ 3 * ar); [ring|]. rewrite Hs3. field; lra.
Qed.

(* ---- the equal-volume sphere ------------------------------------------------------------------- *)
Lemma eq_sphere_radius_volume V : 0 < V -> sphere_volume (eq_sphere_radius V) = V.
Proof.
  intros HV. assert (H := PI_RGT_0). unfold sphere_volume, eq_sphere_radius.
  rewrite cbrt_cube; [field; lra|]. apply Rdiv_lt_0_compat; lra.
Qed.

Lemma eq_radius_prolate a ar : 0 < a -> 0 < ar ->
  eq_sphere_radius (ellipsoid_volume a a (ar * a)) = a * cbrt ar.
Proof.
  intros Ha Har. assert (H := PI_RGT_0). unfold eq_sphere_radius, ellipsoid_volume.
  replace (3 * (4 / 3 * PI * a * a * (ar * a)) / (4 * PI)) with (a ^ 3 * ar) by (field; lra).
  rewrite cbrt_mult; [|apply pow_lt; lra|lra]. rewrite cbrt_pow3 by lra. reflexivity.
Qed.

Lemma eq_radius_oblate c ar : 0 < c -> 0 < ar ->
  eq_sphere_radius (ellipsoid_volume (ar * c) (ar * c) c) = c * cbrt (ar ^ 2).
Proof.
  intros Hc Har. assert (H := PI_RGT_0). unfold eq_sphere_radius, ellipsoid_volume.
  replace (3 * (4 / 3 * PI * (ar * c) * (ar * c) * c) / (4 * PI)) with (c ^ 3 * ar ^ 2) by (field; lra).
  rewrite cbrt_mult; [|apply pow_lt; lra|apply pow_lt; lra]. rewrite cbrt_pow3 by lra. reflexivity.
Qed.

Lemma eq_radius_cuboid s ar : 0 < s -> 0 < ar ->
  eq_sphere_radius (cuboid_volume s s (ar * s)) = s * cbrt (3 * ar / (4 * PI)).
Proof.
  intros Hs Har. assert (H := PI_RGT_0). unfold eq_sphere_radius, cuboid_volume.
  replace (3 * (s * s * (ar * s)) / (4 * PI)) with (s ^ 3 * (3 * ar / (4 * PI))) by (field; lra).
  rewrite cbrt_mult; [|apply pow_lt; lra|apply Rdiv_lt_0_compat; lra]. rewrite cbrt_pow3 by lra. reflexivity.
Qed.

(* the equivalent-radius factor is the radius of the equal-volume sphere in units of the short axis *)
Lemma needle_eqRadius_geom a ar : 0 < a -> 0 < ar ->
  needle_eqRadius ar = eq_sphere_radius (ellipsoid_volume a a (ar * a)) / a.
Proof. intros. rewrite eq_radius_prolate by assumption. unfold needle_eqRadius. field; lra. Qed.
Lemma plate_eqRadius_geom c ar : 0 < c -> 0 < ar ->
  plate_eqRadius ar = eq_sphere_radius (ellipsoid_volume (ar * c) (ar * c) c) / c.
Proof. intros. rewrite eq_radius_oblate by assumption. unfold plate_eqRadius. field; lra. Qed.
Lemma cuboidal_eqRadius_geom s ar : 0 < s -> 0 < ar ->
  cuboidal_eqRadius ar = eq_sphere_radius (cuboid_volume s s (ar * s)) / s.
Proof. intros. rewrite eq_radius_cuboid by assumption. unfold cuboidal_eqRadius. field; lra. Qed.

(* ---- closed forms: eccentricity of the spheroid with the requested aspect ratio --------------- *)
Lemma prolate_ecc_ar a ar : 0 < a -> 0 < ar -> prolate_ecc a (ar * a) = ecc ar.
Proof. intros. unfold prolate_ecc, ecc. f_equal. field; lra. Qed.
Lemma oblate_ecc_ar c ar : 0 < c -> 0 < ar -> oblate_ecc (ar * c) c = ecc ar.
Proof. intros. unfold oblate_ecc, ecc. f_equal. field; lra. Qed.

Lemma needle_thermo_is_area_ratio a ar : 0 < a -> 1 < ar ->
  needle_thermo ar =
  prolate_area a (ar * a) / sphere_area (eq_sphere_radius (ellipsoid_volume a a (ar * a))).
Proof.
  intros Ha Har. assert (H := PI_RGT_0). assert (He := ecc_range ar Har). assert (Hc := cbrt_pos ar).
  rewrite eq_radius_prolate by lra. unfold prolate_area, sphere_area, needle_thermo.
  rewrite prolate_ecc_ar by lra. cbv zeta. rewrite Rpower_23 by lra. field. repeat split; lra.
Qed.

Lemma plate_thermo_is_area_ratio c ar : 0 < c -> 1 < ar ->
  plate_thermo ar =
  oblate_area (ar * c) c / sphere_area (eq_sphere_radius (ellipsoid_volume (ar * c) (ar * c) c)).
Proof.
  intros Hc Har. assert (H := PI_RGT_0). assert (He := ecc_range ar Har). assert (Hq := cbrt_pos (ar ^ 2)).
  rewrite eq_radius_oblate by lra. unfold oblate_area, sphere_area, plate_thermo.
  rewrite oblate_ecc_ar by lra. cbv zeta. rewrite Rpower_43 by lra. field. repeat split; lra.
Qed.

Lemma needle_kinetic_is_capacitance_ratio a ar : 0 < a -> 1 < ar ->
  needle_kinetic ar =
  prolate_capacitance a (ar * a) / eq_sphere_radius (ellipsoid_volume a a (ar * a)).
Proof.
  intros Ha Har. assert (He := ecc_range ar Har). assert (Hc := cbrt_pos ar).
  assert (H3 := cbrt_cube ar ltac:(lra)).
  rewrite eq_radius_prolate by lra. unfold prolate_capacitance, needle_kinetic.
  rewrite prolate_ecc_ar by lra. cbv zeta. rewrite ln_div_pos by lra. rewrite cbrt_sqr by lra.
  assert (Hl : ln (1 - ecc ar) < ln (1 + ecc ar)) by (apply ln_increasing; lra).
  replace (2 * (ar * a) * ecc ar) with (2 * (cbrt ar ^ 3 * a) * ecc ar) by (rewrite H3; reflexivity).
  field. repeat split; lra.
Qed.

Lemma asin_pos e : 0 < e <= 1 -> 0 < asin e.
Proof.
  intros He. destruct (Rle_or_lt (asin e) 0) as [Hn|Hp]; [|exact Hp]. exfalso.
  assert (Hb := asin_bound e). assert (Hs : sin (asin e) = e) by (apply sin_asin; lra).
  assert (P := PI_RGT_0).
  assert (0 <= sin (- asin e)) by (apply sin_ge_0; lra).
  rewrite sin_neg in H. lra.
Qed.

Lemma plate_kinetic_is_capacitance_ratio c ar : 0 < c -> 1 < ar ->
  plate_kinetic ar =
  oblate_capacitance (ar * c) c / eq_sphere_radius (ellipsoid_volume (ar * c) (ar * c) c).
Proof.
  intros Hc Har. assert (He := ecc_range ar Har). assert (Hq := cbrt_pos ar).
  assert (H3 := cbrt_cube ar ltac:(lra)).
  rewrite eq_radius_oblate by lra. unfold oblate_capacitance, plate_kinetic.
  rewrite oblate_ecc_ar by lra. cbv zeta. rewrite cbrt_sqr by lra.
  rewrite <- asin_acos by lra. assert (Ha := asin_pos (ecc ar) ltac:(lra)).
  replace (ar * c * ecc ar) with (cbrt ar ^ 3 * c * ecc ar) by (rewrite H3; reflexivity).
  field. repeat split; lra.
Qed.

(* the cuboidal thermodynamic factor: surface of the s x s x (ar s) cuboid over that of the equal-volume sphere *)
Lemma cuboidal_thermo_is_area_ratio s ar : 0 < s -> 0 < ar ->
  cuboidal_thermo ar =
  cuboid_area s s (ar * s) / sphere_area (eq_sphere_radius (cuboid_volume s s (ar * s))).
Proof.
  intros Hs Har. assert (H := PI_RGT_0). rewrite eq_radius_cuboid by lra.
  unfold cuboid_area, sphere_area, cuboidal_thermo.
  assert (Hx : 0 < 3 * ar / (4 * PI)) by (apply Rdiv_lt_0_compat; lra).
  assert (Hc := cbrt_pos (3 * ar / (4 * PI))).
  rewrite Rpower_23 by (apply Rdiv_lt_0_compat; lra).
  replace (4 * PI / (3 * ar)) with (1 / (3 * ar / (4 * PI))) by (field; lra).
  rewrite cbrt_inv by exact Hx. field. repeat split; lra.
Qed.

(* ---- wrappers --------------------------------------------------------------------------------- *)
Lemma processAspectRatio_ge1 ar : 1 <= ar -> processAspectRatio ar = ar.
Proof. intros H. unfold processAspectRatio. destruct (Rlt_dec ar 1); [lra|reflexivity]. Qed.
Lemma processAspectRatio_lt1 ar : ar < 1 -> processAspectRatio ar = 1.
Proof. intros H. unfold processAspectRatio. destruct (Rlt_dec ar 1); [reflexivity|lra]. Qed.
Lemma processAspectRatio_ge ar : 1 <= processAspectRatio ar.
Proof. unfold processAspectRatio. destruct (Rlt_dec ar 1); lra. Qed.
Lemma processAspectRatio_idem ar : processAspectRatio (processAspectRatio ar) = processAspectRatio ar.
Proof. apply processAspectRatio_ge1, processAspectRatio_ge. Qed.

Lemma wrapper_gt1 fmin f ar : 1 < ar -> factor_wrapper fmin f ar = f ar.
Proof.
  intros H. unfold factor_wrapper. rewrite processAspectRatio_ge1 by lra.
  destruct (Rgt_dec ar 1) as [_|n]; [reflexivity|exfalso; apply n; exact H].
Qed.
Lemma wrapper_le1 fmin f ar : ar <= 1 -> factor_wrapper fmin f ar = fmin.
Proof.
  intros H. unfold factor_wrapper.
  assert (Hp : processAspectRatio ar = 1).
  { destruct H as [H|H]; [apply processAspectRatio_lt1; exact H|rewrite H; apply processAspectRatio_ge1; lra]. }
  rewrite Hp. destruct (Rgt_dec 1 1) as [g|_]; [unfold Rgt in g; lra|ring].
Qed.
Lemma wrapper_clamp fmin f ar : factor_wrapper fmin f ar = factor_wrapper fmin f (processAspectRatio ar).
Proof. unfold factor_wrapper. rewrite processAspectRatio_idem. reflexivity. Qed.
Lemma radii_clamp f ar : radii_wrapper f ar = radii_wrapper f (processAspectRatio ar).
Proof. unfold radii_wrapper. rewrite processAspectRatio_idem. reflexivity. Qed.

(* below 1 = at 1, for every public function of every description *)
Lemma below_one_as_one (d : description) ar : ar < 1 ->
  eqRadiusFactor d ar = eqRadiusFactor d 1 /\ kineticFactor d ar = kineticFactor d 1 /\
  thermoFactor d ar = thermoFactor d 1 /\ normalRadii d ar = normalRadii d 1.
Proof.
  intros H. unfold eqRadiusFactor, kineticFactor, thermoFactor, normalRadii.
  rewrite !(wrapper_le1 _ _ ar) by lra. rewrite !(wrapper_le1 _ _ 1) by lra.
  unfold radii_wrapper. rewrite processAspectRatio_lt1 by exact H. rewrite processAspectRatio_ge1 by lra.
  repeat split; reflexivity.
Qed.

(* value at aspect ratio 1 (and below) is the `...Min` attribute *)
Lemma factors_at_one (d : description) ar : ar <= 1 ->
  eqRadiusFactor d ar = eqMin d /\ kineticFactor d ar = kinMin d /\ thermoFactor d ar = thMin d.
Proof.
  intros H. unfold eqRadiusFactor, kineticFactor, thermoFactor.
  rewrite !wrapper_le1 by exact H. repeat split; reflexivity.
Qed.

(* for ar >= 1 the public normalRadii is the formula *)
Lemma normalRadii_ge1 (d : description) ar : 1 <= ar -> normalRadii d ar = radiiRaw d ar.
Proof. intros H. unfold normalRadii, radii_wrapper. rewrite processAspectRatio_ge1 by exact H. reflexivity. Qed.

(* the equivalent-radius factors increase *)
Lemma needle_eqRadius_incr x y : 1 <= x -> x < y -> eqRadiusFactor Needle x < eqRadiusFactor Needle y.
Proof.
  intros Hx Hxy. unfold eqRadiusFactor. cbn [eqMin eqRaw Needle].
  rewrite (wrapper_gt1 _ _ y) by lra. destruct Hx as [Hx|Hx].
  - rewrite wrapper_gt1 by lra. unfold needle_eqRadius. apply cbrt_lt; lra.
  - subst x. rewrite wrapper_le1 by lra. unfold needle_eqRadius. apply cbrt_gt_1; lra.
Qed.
Lemma plate_eqRadius_incr x y : 1 <= x -> x < y -> eqRadiusFactor Plate x < eqRadiusFactor Plate y.
Proof.
  intros Hx Hxy. unfold eqRadiusFactor. cbn [eqMin eqRaw Plate].
  rewrite (wrapper_gt1 _ _ y) by lra. destruct Hx as [Hx|Hx].
  - rewrite wrapper_gt1 by lra. unfold plate_eqRadius. apply cbrt_lt; nra.
  - subst x. rewrite wrapper_le1 by lra. unfold plate_eqRadius. apply cbrt_gt_1; nra.
Qed.

(* ---- continuity at aspect ratio 1: generic reduction ------------------------------------------- *)
(* the public wrapper is continuous at 1 as soon as the formula tends to the `...Min` value from the
   right; stated with an explicit modulus so that no filter machinery is needed downstream *)
Definition right_limit_at_one (f : R -> R) (l : R) : Prop :=
  forall eps, 0 < eps -> exists delta, 0 < delta /\ forall x, 1 < x < 1 + delta -> Rabs (f x - l) < eps.

Lemma wrapper_continuous_at_one fmin f :
  right_limit_at_one f fmin -> continuity_pt (factor_wrapper fmin f) 1.
Proof.
  intros Hl. unfold continuity_pt, continue_in, limit1_in, limit_in. simpl. unfold R_dist.
  intros eps Heps. destruct (Hl eps Heps) as [delta [Hd Hx]].
  exists delta. split; [exact Hd|]. intros x [_ Hdist].
  rewrite (wrapper_le1 _ _ 1) by lra.
  destruct (Rle_or_lt x 1) as [Hle|Hgt].
  - rewrite wrapper_le1 by exact Hle. replace (fmin - fmin) with 0 by ring. rewrite Rabs_R0. exact Heps.
  - rewrite wrapper_gt1 by exact Hgt. apply Hx. apply Rabs_def2 in Hdist. lra.
Qed.

(* a bound |f x - l| <= K (x - 1) + K' sqrt (x - 1) near 1 gives the right limit *)
Lemma right_limit_of_bound f l K K' d :
  0 <= K -> 0 <= K' -> 0 < d ->
  (forall x, 1 < x < 1 + d -> Rabs (f x - l) <= K * (x - 1) + K' * sqrt (x - 1)) ->
  right_limit_at_one f l.
Proof.
  intros HK HK' Hd Hb eps Heps.
  set (q := eps / (2 * (K + K' + 1))).
  assert (Hq : 0 < q) by (apply Rdiv_lt_0_compat; lra).
  assert (Hq1 : q * (K + K' + 1) = eps / 2) by (unfold q; field; lra).
  set (delta := Rmin d (Rmin 1 (Rmin q (q * q)))).
  assert (Hdelta : 0 < delta).
  { unfold delta. repeat apply Rmin_glb_lt; try lra. nra. }
  exists delta. split; [exact Hdelta|]. intros x Hx.
  assert (Hxd : x - 1 < d) by (unfold delta in Hx; assert (H1 := Rmin_l d (Rmin 1 (Rmin q (q * q)))); lra).
  assert (Hxq : x - 1 < q).
  { unfold delta in Hx. assert (H1 := Rmin_r d (Rmin 1 (Rmin q (q * q)))).
    assert (H2 := Rmin_r 1 (Rmin q (q * q))). assert (H3 := Rmin_l q (q * q)). lra. }
  assert (Hxqq : x - 1 < q * q).
  { unfold delta in Hx. assert (H1 := Rmin_r d (Rmin 1 (Rmin q (q * q)))).
    assert (H2 := Rmin_r 1 (Rmin q (q * q))). assert (H3 := Rmin_r q (q * q)). lra. }
  assert (Hs : sqrt (x - 1) < q).
  { rewrite <- (sqrt_square q) by lra. apply sqrt_lt_1; lra. }
  assert (Hs0 : 0 <= sqrt (x - 1)) by apply sqrt_pos.
  specialize (Hb x ltac:(lra)).
  apply Rle_lt_trans with (1 := Hb).
  assert (K * (x - 1) <= K * q) by (apply Rmult_le_compat_l; lra).
  assert (K' * sqrt (x - 1) <= K' * q) by (apply Rmult_le_compat_l; lra).
  nra.
Qed.

(* squeeze form: lo <= f <= hi with both bounds within K (x-1) + K' sqrt (x-1) of l *)
Lemma right_limit_of_squeeze f l lo hi K K' d :
  0 <= K -> 0 <= K' -> 0 < d ->
  (forall x, 1 < x < 1 + d -> lo x <= f x <= hi x) ->
  (forall x, 1 < x < 1 + d -> l - (K * (x - 1) + K' * sqrt (x - 1)) <= lo x) ->
  (forall x, 1 < x < 1 + d -> hi x <= l + (K * (x - 1) + K' * sqrt (x - 1))) ->
  right_limit_at_one f l.
Proof.
  intros HK HK' Hd Hf Hlo Hhi. apply (right_limit_of_bound f l K K' d); try assumption.
  intros x Hx. specialize (Hf x Hx). specialize (Hlo x Hx). specialize (Hhi x Hx).
  apply Rabs_le. lra.
Qed.

(* ---- cuboidal factors at aspect ratio 1: plain evaluation (equivalent radius, thermodynamic) --- *)
Lemma cbrt_continuous_bound x y : 0 < x -> x <= y -> cbrt y - cbrt x <= (y - x) / (3 * cbrt x ^ 2) .
Proof.
  (* a^3 - b^3 = (a - b)(a^2 + a b + b^2) with a = cbrt y >= b = cbrt x *)
  intros Hx Hxy. set (a := cbrt y). set (b := cbrt x).
  assert (Hb : 0 < b) by apply cbrt_pos. assert (Ha : 0 < a) by apply cbrt_pos.
  assert (Hab : b <= a).
  { destruct Hxy as [Hxy|Hxy]; [left; apply cbrt_lt; lra|subst; unfold a, b; lra]. }
  assert (Ha3 : a ^ 3 = y) by (apply cbrt_cube; lra). assert (Hb3 : b ^ 3 = x) by (apply cbrt_cube; lra).
  apply (Rmult_le_reg_r (3 * b ^ 2)); [nra|].
  replace ((y - x) / (3 * b ^ 2) * (3 * b ^ 2)) with (y - x) by (field; nra).
  rewrite <- Ha3, <- Hb3.
  assert (E : a ^ 3 - b ^ 3 - (a - b) * (3 * b ^ 2) = (a - b) * (a - b) * (a + 2 * b)) by ring.
  assert (0 <= (a - b) * (a - b) * (a + 2 * b)) by (apply Rmult_le_pos; [nra|lra]).
  lra.
Qed.

(* ---- the same facts about the PUBLIC functions of the four descriptions ------------------------- *)
Lemma sphere_axes_public ar :
  let v := normalRadii Sphere ar in
  ellipsoid_volume (ax1 v) (ax2 v) (ax3 v) = 1 /\ ax1 v = ax2 v /\ ax2 v = ax3 v /\ 0 < ax1 v.
Proof. exact (sphere_axes (processAspectRatio ar)). Qed.
Lemma needle_axes_public ar : 1 <= ar ->
  let v := normalRadii Needle ar in
  ellipsoid_volume (ax1 v) (ax2 v) (ax3 v) = 1 /\ ax1 v = ax2 v /\ ax3 v = ar * ax1 v /\ 0 < ax1 v.
Proof. intros H. rewrite normalRadii_ge1 by exact H. apply needle_axes. lra. Qed.
Lemma plate_axes_public ar : 1 <= ar ->
  let v := normalRadii Plate ar in
  ellipsoid_volume (ax1 v) (ax2 v) (ax3 v) = 1 /\ ax1 v = ax2 v /\ ax1 v = ar * ax3 v /\ 0 < ax3 v.
Proof. intros H. rewrite normalRadii_ge1 by exact H. apply plate_axes. lra. Qed.
Lemma cuboidal_axes_public ar : 1 <= ar ->
  let v := normalRadii Cuboidal ar in
  cuboid_volume (ax1 v) (ax2 v) (ax3 v) = 1 /\ ax1 v = ax2 v /\ ax3 v = ar * ax1 v /\ 0 < ax1 v.
Proof. intros H. rewrite normalRadii_ge1 by exact H. apply cuboidal_axes. lra. Qed.

Lemma needle_thermo_public_area a ar : 0 < a -> 1 < ar ->
  thermoFactor Needle ar =
  prolate_area a (ar * a) / sphere_area (eq_sphere_radius (ellipsoid_volume a a (ar * a))).
Proof. intros Ha Har. unfold thermoFactor. rewrite wrapper_gt1 by exact Har. apply needle_thermo_is_area_ratio; assumption. Qed.
Lemma plate_thermo_public_area c ar : 0 < c -> 1 < ar ->
  thermoFactor Plate ar =
  oblate_area (ar * c) c / sphere_area (eq_sphere_radius (ellipsoid_volume (ar * c) (ar * c) c)).
Proof. intros Hc Har. unfold thermoFactor. rewrite wrapper_gt1 by exact Har. apply plate_thermo_is_area_ratio; assumption. Qed.
Lemma needle_kinetic_public_capacitance a ar : 0 < a -> 1 < ar ->
  kineticFactor Needle ar =
  prolate_capacitance a (ar * a) / eq_sphere_radius (ellipsoid_volume a a (ar * a)).
Proof. intros Ha Har. unfold kineticFactor. rewrite wrapper_gt1 by exact Har. apply needle_kinetic_is_capacitance_ratio; assumption. Qed.
Lemma plate_kinetic_public_capacitance c ar : 0 < c -> 1 < ar ->
  kineticFactor Plate ar =
  oblate_capacitance (ar * c) c / eq_sphere_radius (ellipsoid_volume (ar * c) (ar * c) c).
Proof. intros Hc Har. unfold kineticFactor. rewrite wrapper_gt1 by exact Har. apply plate_kinetic_is_capacitance_ratio; assumption. Qed.
Lemma cuboidal_thermo_public_area s ar : 0 < s -> 1 < ar ->
  thermoFactor Cuboidal ar =
  cuboid_area s s (ar * s) / sphere_area (eq_sphere_radius (cuboid_volume s s (ar * s))).
Proof. intros Hs Har. unfold thermoFactor. rewrite wrapper_gt1 by exact Har. apply cuboidal_thermo_is_area_ratio; lra. Qed.

Lemma eqRadius_public_geom s ar : 0 < s -> 1 < ar ->
  eqRadiusFactor Needle ar = eq_sphere_radius (ellipsoid_volume s s (ar * s)) / s /\
  eqRadiusFactor Plate ar = eq_sphere_radius (ellipsoid_volume (ar * s) (ar * s) s) / s /\
  eqRadiusFactor Cuboidal ar = eq_sphere_radius (cuboid_volume s s (ar * s)) / s /\
  sphere_volume (eq_sphere_radius (ellipsoid_volume s s (ar * s))) = ellipsoid_volume s s (ar * s).
Proof.
  intros Hs Har. unfold eqRadiusFactor. rewrite !wrapper_gt1 by exact Har.
  repeat split.
  - apply needle_eqRadius_geom; lra.
  - apply plate_eqRadius_geom; lra.
  - apply cuboidal_eqRadius_geom; lra.
  - apply eq_sphere_radius_volume. unfold ellipsoid_volume. assert (P := PI_RGT_0).
    assert (0 < 4 / 3 * PI) by lra. assert (0 < ar * s) by (apply Rmult_lt_0_compat; lra).
    apply Rmult_lt_0_compat; [|assumption]. apply Rmult_lt_0_compat; [|assumption].
    apply Rmult_lt_0_compat; assumption.
Qed.

Lemma factors_one_at_one ar : ar <= 1 ->
  forall d, In d (Sphere :: Needle :: Plate :: nil) ->
  eqRadiusFactor d ar = 1 /\ kineticFactor d ar = 1 /\ thermoFactor d ar = 1.
Proof.
  intros H d Hd. destruct (factors_at_one d ar H) as [E1 [E2 E3]]. rewrite E1, E2, E3.
  destruct Hd as [<-|[<-|[<-|[]]]]; repeat split; reflexivity.
Qed.
