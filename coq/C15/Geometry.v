(* C15 - lemmas, part 4: the closed-form surface areas of the spheroids (Model.v, section 2) are the
   surface-of-revolution integrals  int_0^PI 2 PI (a sin t) sqrt (a^2 cos^2 t + c^2 sin^2 t) dt
   (Riemann integral of Coquelicot), by exhibiting antiderivatives. *)
From Coq Require Import Reals Lra.
From Coquelicot Require Import Coquelicot.
Require Import Kawin.C15.Model Kawin.C15.Proofs Kawin.C15.Analysis.
Open Scope R_scope.

Lemma is_derive_asin x : -1 < x < 1 -> is_derive asin x (/ sqrt (1 - x ^ 2)).
Proof.
  intros Hx. apply is_derive_Reals.
  apply (derive_pt_eq_1 asin x _ (derivable_pt_asin x Hx)).
  rewrite derive_pt_asin. unfold Rsqr. replace (x ^ 2) with (x * x) by ring. field.
  apply Rgt_not_eq, sqrt_lt_R0. nra.
Qed.

Lemma cos_sqr_le_1 t : cos t ^ 2 <= 1.
Proof. assert (H := COS_bound t). nra. Qed.

Lemma integrand_continuous a c t : 0 < a -> 0 < c -> continuous (spheroid_area_integrand a c) t.
Proof.
  intros Ha Hc. apply (ex_derive_continuous (spheroid_area_integrand a c) t).
  unfold spheroid_area_integrand. auto_derive.
  assert (E := sin2_cos2 t). unfold Rsqr in E.
  assert (0 < a * a) by nra. assert (0 < c * c) by nra.
  assert (0 <= sin t * sin t) by nra. assert (0 <= cos t * cos t) by nra.
  (* a^2 cos^2 + c^2 sin^2 >= min(a^2, c^2) (cos^2 + sin^2) > 0 *)
  destruct (Rle_or_lt (a * a) (c * c)); nra.
Qed.

(* ---- prolate: a < c ------------------------------------------------------------------------------ *)
Section Prolate.
Variables a c : R.
Hypothesis Ha : 0 < a.
Hypothesis Hac : a < c.

Let e := prolate_ecc a c.

Lemma prolate_e_sqr : e ^ 2 = 1 - a ^ 2 / c ^ 2.
Proof.
  unfold e, prolate_ecc. rewrite <- Rsqr_pow2. apply Rsqr_sqrt.
  assert (0 < c ^ 2) by nra. assert (a ^ 2 / c ^ 2 <= 1); [|lra].
  apply (Rmult_le_reg_r (c ^ 2)); [lra|]. replace (a ^ 2 / c ^ 2 * c ^ 2) with (a ^ 2) by (field; lra). nra.
Qed.

Lemma prolate_e_range : 0 < e < 1.
Proof.
  assert (H2 := prolate_e_sqr). assert (0 < c ^ 2) by nra.
  assert (Hq : 0 < a ^ 2 / c ^ 2 < 1).
  { split; [apply Rdiv_lt_0_compat; nra|]. apply (Rmult_lt_reg_r (c ^ 2)); [lra|].
    replace (a ^ 2 / c ^ 2 * c ^ 2) with (a ^ 2) by (field; lra). nra. }
  assert (0 <= e) by (unfold e, prolate_ecc; apply sqrt_pos).
  split; nra.
Qed.

Definition prolate_S (t : R) : R := sqrt (1 - e ^ 2 * cos t ^ 2).
Definition prolate_F (t : R) : R := - (PI * a * c) * (cos t * prolate_S t + asin (e * cos t) / e).

Lemma prolate_S_pos t : 0 < 1 - e ^ 2 * cos t ^ 2.
Proof. assert (He := prolate_e_range). assert (H := cos_sqr_le_1 t). assert (0 <= cos t ^ 2) by nra. nra. Qed.

Lemma prolate_root t : sqrt (a ^ 2 * cos t ^ 2 + c ^ 2 * sin t ^ 2) = c * prolate_S t.
Proof.
  unfold prolate_S. transitivity (sqrt (c * c * (1 - e ^ 2 * cos t ^ 2))).
  - f_equal. rewrite prolate_e_sqr. assert (E := sin2_cos2 t). unfold Rsqr in E.
    replace (sin t ^ 2) with (1 - cos t ^ 2) by (simpl; lra). field. lra.
  - rewrite sqrt_mult; [|nra|left; apply prolate_S_pos]. rewrite sqrt_square by lra. reflexivity.
Qed.

Lemma prolate_F_deriv t : is_derive prolate_F t (spheroid_area_integrand a c t).
Proof.
  assert (He := prolate_e_range). assert (Hp := prolate_S_pos t).
  assert (Hx : -1 < e * cos t < 1).
  { assert (H := COS_bound t). split; nra. }
  assert (Hd := is_derive_asin (e * cos t) Hx).
  unfold spheroid_area_integrand. rewrite prolate_root. unfold prolate_F, prolate_S.
  assert (Earg : 1 + - (e * (e * 1) * (cos t * (cos t * 1))) = 1 - e ^ 2 * cos t ^ 2) by ring.
  auto_derive.
  - rewrite Earg. repeat match goal with |- _ /\ _ => split end; try exact I.
    + exact Hp.
    + exists (/ sqrt (1 - (e * cos t) ^ 2)). exact Hd.
  - rewrite (is_derive_unique (fun x : R => asin x) (e * cos t) _ Hd). rewrite !Earg.
    replace (1 - (e * cos t) ^ 2) with (1 - e ^ 2 * cos t ^ 2) by ring.
    set (S := sqrt (1 - e ^ 2 * cos t ^ 2)).
    assert (HS : 0 < S) by (apply sqrt_lt_R0; exact Hp).
    assert (HSS : S * S = 1 - e ^ 2 * cos t ^ 2) by (apply sqrt_sqrt; lra).
    (* everything over the common denominator S, then S^2 is replaced *)
    apply (Rmult_eq_reg_r S); [|lra].
    transitivity (PI * a * c * sin t * (S * S + (1 - e ^ 2 * cos t ^ 2))); [field; split; lra|].
    rewrite <- HSS. ring.
Qed.

Lemma prolate_area_integral : is_RInt (spheroid_area_integrand a c) 0 PI (prolate_area a c).
Proof.
  assert (He := prolate_e_range). assert (P := PI_RGT_0).
  replace (prolate_area a c) with (minus (prolate_F PI) (prolate_F 0)).
  - apply (is_RInt_derive prolate_F (spheroid_area_integrand a c)).
    + intros t _. apply prolate_F_deriv.
    + intros t _. apply integrand_continuous; lra.
  - unfold minus, plus, opp; simpl. unfold prolate_F, prolate_S. rewrite cos_PI, cos_0.
    replace (e * -1) with (- e) by ring. rewrite asin_opp. replace ((-1) ^ 2) with 1 by ring. replace (1 ^ 2) with 1 by ring.
    rewrite !Rmult_1_r. rewrite prolate_e_sqr.
    replace (1 - (1 - a ^ 2 / c ^ 2)) with ((a / c) ^ 2) by (field; lra).
    rewrite <- Rsqr_pow2, sqrt_Rsqr by (apply Rlt_le, Rdiv_lt_0_compat; lra).
    unfold prolate_area. fold e. field. lra.
Qed.
End Prolate.

(* ---- oblate: c < a -------------------------------------------------------------------------------- *)
Section Oblate.
Variables a c : R.
Hypothesis Hc : 0 < c.
Hypothesis Hca : c < a.

Let e := oblate_ecc a c.
Let k := a * e.

Lemma oblate_e_sqr : e ^ 2 = 1 - c ^ 2 / a ^ 2.
Proof.
  unfold e, oblate_ecc. rewrite <- Rsqr_pow2. apply Rsqr_sqrt.
  assert (0 < a ^ 2) by nra. assert (c ^ 2 / a ^ 2 <= 1); [|lra].
  apply (Rmult_le_reg_r (a ^ 2)); [lra|]. replace (c ^ 2 / a ^ 2 * a ^ 2) with (c ^ 2) by (field; lra). nra.
Qed.

Lemma oblate_e_range : 0 < e < 1.
Proof.
  assert (H2 := oblate_e_sqr). assert (0 < a ^ 2) by nra.
  assert (Hq : 0 < c ^ 2 / a ^ 2 < 1).
  { split; [apply Rdiv_lt_0_compat; nra|]. apply (Rmult_lt_reg_r (a ^ 2)); [lra|].
    replace (c ^ 2 / a ^ 2 * a ^ 2) with (c ^ 2) by (field; lra). nra. }
  assert (0 <= e) by (unfold e, oblate_ecc; apply sqrt_pos).
  split; nra.
Qed.

Lemma oblate_k_sqr : k ^ 2 = a ^ 2 - c ^ 2.
Proof. unfold k. replace ((a * e) ^ 2) with (a ^ 2 * e ^ 2) by ring. rewrite oblate_e_sqr. field. lra. Qed.

Lemma oblate_k_pos : 0 < k.
Proof. unfold k. assert (He := oblate_e_range). apply Rmult_lt_0_compat; lra. Qed.

Definition oblate_R (u : R) : R := sqrt (c ^ 2 + k ^ 2 * u ^ 2).
Definition oblate_G (u : R) : R := / 2 * (u * oblate_R u + c ^ 2 / k * ln (k * u + oblate_R u)).
Definition oblate_F (t : R) : R := - (2 * PI * a) * oblate_G (cos t).

Lemma oblate_R_arg_pos u : 0 < c ^ 2 + k ^ 2 * u ^ 2.
Proof. assert (0 <= k ^ 2 * u ^ 2) by (apply Rmult_le_pos; apply pow2_ge_0). nra. Qed.

Lemma oblate_R_pos u : 0 < oblate_R u.
Proof. apply sqrt_lt_R0, oblate_R_arg_pos. Qed.

Lemma oblate_R_sqr u : oblate_R u * oblate_R u = c ^ 2 + k ^ 2 * u ^ 2.
Proof. apply sqrt_sqrt. left. apply oblate_R_arg_pos. Qed.

Lemma oblate_ln_arg_pos u : 0 < k * u + oblate_R u.
Proof.
  assert (HR := oblate_R_pos u). assert (HRR := oblate_R_sqr u). assert (Hk := oblate_k_pos).
  destruct (Rle_or_lt 0 (k * u)) as [H|H]; [lra|].
  (* R > |k u| because R^2 = c^2 + (k u)^2 *)
  assert ((- (k * u)) * (- (k * u)) < oblate_R u * oblate_R u) by (rewrite HRR; nra).
  assert (- (k * u) < oblate_R u); [|lra].
  destruct (Rlt_or_le (- (k * u)) (oblate_R u)) as [Hlt|Hge]; [exact Hlt|exfalso]. nra.
Qed.

Lemma oblate_root t : sqrt (a ^ 2 * cos t ^ 2 + c ^ 2 * sin t ^ 2) = oblate_R (cos t).
Proof.
  unfold oblate_R. f_equal. rewrite oblate_k_sqr. assert (E := sin2_cos2 t). unfold Rsqr in E.
  replace (sin t ^ 2) with (1 - cos t ^ 2) by (simpl; lra). ring.
Qed.

Lemma oblate_F_deriv t : is_derive oblate_F t (spheroid_area_integrand a c t).
Proof.
  assert (Hk := oblate_k_pos).
  assert (Hp := oblate_R_arg_pos (cos t)). assert (Hl := oblate_ln_arg_pos (cos t)).
  unfold spheroid_area_integrand. rewrite oblate_root. unfold oblate_F, oblate_G.
  assert (HR := oblate_R_pos (cos t)). assert (HRR := oblate_R_sqr (cos t)). unfold oblate_R in *.
  assert (Earg : c * (c * 1) + k * (k * 1) * (cos t * (cos t * 1)) = c ^ 2 + k ^ 2 * cos t ^ 2) by ring.
  auto_derive.
  - rewrite !Earg. repeat match goal with |- _ /\ _ => split end; try exact I; try lra.
  - rewrite !Earg.
    set (S := sqrt (c ^ 2 + k ^ 2 * cos t ^ 2)) in *.
    apply (Rmult_eq_reg_r (S * (k * cos t + S))); [|apply Rgt_not_eq, Rmult_lt_0_compat; lra].
    transitivity (PI * a * sin t * ((k * cos t + S) * (S * S + k ^ 2 * cos t ^ 2) + c ^ 2 * (S + k * cos t))); [field; split; lra|].
    rewrite HRR. ring_simplify. 
    transitivity (2 * PI * a * sin t * (S * S) * (k * cos t + S)); [rewrite HRR; ring|ring].
Qed.

Lemma oblate_area_integral : is_RInt (spheroid_area_integrand a c) 0 PI (oblate_area a c).
Proof.
  assert (He := oblate_e_range). assert (P := PI_RGT_0). assert (Hk := oblate_k_pos).
  replace (oblate_area a c) with (minus (oblate_F PI) (oblate_F 0)).
  - apply (is_RInt_derive oblate_F (spheroid_area_integrand a c)).
    + intros t _. apply oblate_F_deriv.
    + intros t _. apply integrand_continuous; lra.
  - unfold minus, plus, opp; simpl. unfold oblate_F, oblate_G, oblate_R. rewrite cos_PI, cos_0.
    replace ((-1) ^ 2) with 1 by ring. replace (1 ^ 2) with 1 by ring. rewrite !Rmult_1_r.
    replace (c ^ 2 + k ^ 2) with (a ^ 2) by (rewrite oblate_k_sqr; ring).
    rewrite <- Rsqr_pow2, sqrt_Rsqr by lra.
    (* ln (a + k) - ln (a - k) = ln ((1 + e) / (1 - e)) *)
    assert (Hak : 0 < a - k) by (unfold k; nra).
    replace (k * -1 + a) with (a - k) by ring.
    assert (Hln : ln (k + a) - ln (a - k) = ln ((1 + e) / (1 - e))).
    { rewrite <- ln_div_pos by lra. f_equal. unfold k in *. field. split; first [lra|nra]. }
    unfold oblate_area. fold e. rewrite <- Hln. unfold k. field. lra.
Qed.
End Oblate.
