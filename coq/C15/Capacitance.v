(* C15 - lemmas, part 5: the closed-form capacitances of the spheroids (Model.v, section 2) agree with the
   classical integral formula for the capacitance of an ellipsoid with semi-axes a, a, c
       C = 2 / int_0^oo dt / ((a^2 + t) sqrt (c^2 + t))
   (units in which a sphere of radius r has capacitance r): the integral over [0, b] exists for every
   b >= 0 and tends to 2 / C as b -> oo.  Antiderivatives and explicit bounds on the tails. *)
From Coq Require Import Reals Lra.
From Coquelicot Require Import Coquelicot.
Require Import Kawin.C15.Model Kawin.C15.Proofs Kawin.C15.Analysis Kawin.C15.Geometry.
Open Scope R_scope.

Lemma atan_lt_x x : 0 < x -> atan x < x.
Proof.
  intros Hx.
  assert (H := pos_of_deriv (fun y => y - atan y) (fun y => y ^ 2 / (1 + y ^ 2)) 0 x Hx).
  cbv beta in H. rewrite atan_0 in H. replace (0 - 0) with 0 in H by ring.
  assert (0 < x - atan x); [|lra]. apply H; [| |reflexivity].
  - intros y Hy. auto_derive; [exact I|]. unfold Rsqr. field. nra.
  - intros y Hy. apply Rdiv_lt_0_compat; nra.
Qed.

Lemma integrand_cap_continuous a c t : 0 < a -> 0 < c -> 0 <= t -> continuous (spheroid_capacitance_integrand a c) t.
Proof.
  intros Ha Hc Ht. apply (ex_derive_continuous (spheroid_capacitance_integrand a c) t).
  unfold spheroid_capacitance_integrand. auto_derive.
  assert (0 < a ^ 2 + t) by nra. assert (0 < c ^ 2 + t) by nra.
  repeat match goal with |- _ /\ _ => split end; try exact I.
  - replace (c * (c * 1) + t) with (c ^ 2 + t) by ring. lra.
  - replace (c * (c * 1) + t) with (c ^ 2 + t) by ring. replace (a * (a * 1) + t) with (a ^ 2 + t) by ring.
    apply Rgt_not_eq, Rmult_lt_0_compat; [lra|apply sqrt_lt_R0; lra].
Qed.

Lemma sqrt_ge_c c t : 0 < c -> 0 <= t -> c <= sqrt (c ^ 2 + t).
Proof.
  intros Hc Ht. rewrite <- (sqrt_square c) at 1 by lra. apply sqrt_le_1; nra.
Qed.

(* limit at infinity from an explicit bound  |f b - l| <= K / sqrt b *)
Lemma is_lim_of_tail_bound (f : R -> R) (l K : R) : 0 < K ->
  (forall b, 1 <= b -> Rabs (f b - l) <= K / sqrt b) -> is_lim f p_infty l.
Proof.
  intros HK Hb. apply is_lim_spec. intros eps. destruct eps as [eps Heps]. simpl.
  exists (Rmax 1 ((K / eps + 1) ^ 2)). intros b Hbm.
  assert (H1 : 1 < b) by (apply Rle_lt_trans with (2 := Hbm); apply Rmax_l).
  assert (H2 : (K / eps + 1) ^ 2 < b) by (apply Rle_lt_trans with (2 := Hbm); apply Rmax_r).
  assert (Hq : 0 < K / eps) by (apply Rdiv_lt_0_compat; lra).
  assert (Hs : K / eps + 1 < sqrt b).
  { rewrite <- (sqrt_pow2 (K / eps + 1)) by lra. apply sqrt_lt_1; [apply pow2_ge_0|lra|exact H2]. }
  apply Rle_lt_trans with (1 := Hb b ltac:(lra)).
  apply (Rmult_lt_reg_r (sqrt b)); [lra|]. replace (K / sqrt b * sqrt b) with K by (field; lra).
  apply Rlt_le_trans with (eps * (K / eps + 1)); [|apply Rmult_le_compat_l; lra].
  replace (eps * (K / eps + 1)) with (K + eps) by (field; lra). lra.
Qed.

(* ---- prolate: a < c --------------------------------------------------------------------------------- *)
Section ProlateC.
Variables a c : R.
Hypothesis Ha : 0 < a.
Hypothesis Hac : a < c.

Let e := prolate_ecc a c.
Let k := c * e.

Lemma prolateC_k_sqr : k ^ 2 = c ^ 2 - a ^ 2.
Proof. unfold k. replace ((c * e) ^ 2) with (c ^ 2 * e ^ 2) by ring. unfold e. rewrite (prolate_e_sqr a c Ha Hac). field. lra. Qed.
Lemma prolateC_k_range : 0 < k < c.
Proof. unfold k. assert (He := prolate_e_range a c Ha Hac). fold e in He. split; nra. Qed.

Definition prolate_G (t : R) : R := / k * ln ((sqrt (c ^ 2 + t) - k) / (sqrt (c ^ 2 + t) + k)).

Lemma prolate_G_deriv t : 0 <= t -> is_derive prolate_G t (spheroid_capacitance_integrand a c t).
Proof.
  intros Ht. assert (Hk := prolateC_k_range). assert (Hs := sqrt_ge_c c t ltac:(lra) Ht).
  assert (Hp : 0 < c ^ 2 + t) by nra.
  assert (HSS : sqrt (c ^ 2 + t) * sqrt (c ^ 2 + t) = c ^ 2 + t) by (apply sqrt_sqrt; lra).
  unfold prolate_G, spheroid_capacitance_integrand.
  assert (Earg : c * (c * 1) + t = c ^ 2 + t) by ring.
  auto_derive.
  - rewrite !Earg. set (s := sqrt (c ^ 2 + t)) in *.
    repeat match goal with |- _ /\ _ => split end; try exact I; try lra.
    apply Rdiv_lt_0_compat; lra.
  - rewrite !Earg. set (s := sqrt (c ^ 2 + t)) in *.
    assert (Ha2 : a ^ 2 + t = s * s - k ^ 2) by (rewrite HSS, prolateC_k_sqr; ring).
    rewrite Ha2. field. repeat split; try lra. nra.
Qed.

Lemma prolate_cap_RInt b : 0 <= b ->
  is_RInt (spheroid_capacitance_integrand a c) 0 b (prolate_G b - prolate_G 0).
Proof.
  intros Hb. apply (is_RInt_derive prolate_G (spheroid_capacitance_integrand a c)).
  - intros t Ht. rewrite Rmin_left, Rmax_right in Ht by lra. apply prolate_G_deriv; lra.
  - intros t Ht. rewrite Rmin_left, Rmax_right in Ht by lra. apply integrand_cap_continuous; lra.
Qed.

Lemma prolate_G_0 : - prolate_G 0 = 2 / prolate_capacitance a c.
Proof.
  assert (Hk := prolateC_k_range). assert (He := prolate_e_range a c Ha Hac). fold e in He.
  unfold prolate_G, prolate_capacitance. fold e. replace (c ^ 2 + 0) with (c ^ 2) by ring.
  rewrite <- Rsqr_pow2, sqrt_Rsqr by lra.
  assert (HL : 0 < ln ((1 + e) / (1 - e))).
  { rewrite ln_div_pos by lra. assert (H := Lf_pos e He). unfold Lf in H. exact H. }
  replace ((c - k) / (c + k)) with (/ ((1 + e) / (1 - e))) by (unfold k; field; repeat split; nra).
  rewrite ln_Rinv by (apply Rdiv_lt_0_compat; lra). unfold k. field. repeat split; lra.
Qed.

Lemma prolate_G_tail b : 1 <= b -> Rabs (prolate_G b - 0) <= (4 * (c + 1)) / sqrt b.
Proof.
  intros Hb. assert (Hk := prolateC_k_range).
  assert (Hs := sqrt_ge_c c b ltac:(lra) ltac:(lra)). set (s := sqrt (c ^ 2 + b)) in *.
  assert (Hsb : sqrt b <= s) by (unfold s; apply sqrt_le_1; nra).
  assert (Hb1 : 1 <= sqrt b) by (rewrite <- sqrt_1; apply sqrt_le_1; lra).
  unfold prolate_G. fold s. rewrite Rminus_0_r.
  (* ln ((s-k)/(s+k)) = - ln (1 + 2k/(s-k)),  0 < ln (1+w) < w *)
  set (w := 2 * k / (s - k)). assert (Hw : 0 < w) by (unfold w; apply Rdiv_lt_0_compat; lra).
  replace ((s - k) / (s + k)) with (/ (1 + w)) by (unfold w; field; lra).
  rewrite ln_Rinv by lra. assert (Hl := ln1p_lt w Hw).
  assert (Hl0 : 0 < ln (1 + w)) by (rewrite <- ln_1; apply ln_increasing; lra).
  replace (/ k * - ln (1 + w)) with (- (ln (1 + w) / k)) by (field; lra).
  rewrite Rabs_Ropp, Rabs_right by (apply Rle_ge, Rlt_le, Rdiv_lt_0_compat; lra).
  apply Rle_trans with (w / k); [apply Rmult_le_compat_r; [left; apply Rinv_0_lt_compat; lra|lra]|].
  replace (w / k) with (2 / (s - k)) by (unfold w; field; lra).
  (* s - k >= sqrt b / (c + 1): since s >= c > k and s >= sqrt b ... use s - k >= s (1 - k/c) ; simpler: (s-k)(c+1) >= sqrt b *)
  apply (Rmult_le_reg_r ((s - k) * sqrt b)); [apply Rmult_lt_0_compat; lra|].
  replace (2 / (s - k) * ((s - k) * sqrt b)) with (2 * sqrt b) by (field; lra).
  replace (4 * (c + 1) / sqrt b * ((s - k) * sqrt b)) with (4 * (c + 1) * (s - k)) by (field; lra).
  (* (c+1)(s-k) >= sqrt b: s - k = (s^2 - k^2)/(s + k) = (a^2 + b)/(s+k) >= b/(2 s) ... *)
  assert (HSS : s * s = c ^ 2 + b) by (unfold s; apply sqrt_sqrt; nra).
  assert (Hbb : sqrt b * sqrt b = b) by (apply sqrt_sqrt; lra).
  assert (Hk2 := prolateC_k_sqr).
  assert (Hdiff : (s - k) * (s + k) = a ^ 2 + b) by nra.
  (* s + k <= 2 s and s <= c + sqrt b <= (c + 1) sqrt b *)
  assert (Hs_le : s <= c + sqrt b).
  { destruct (Rle_or_lt s (c + sqrt b)); [assumption|exfalso]. assert ((c + sqrt b) * (c + sqrt b) < s * s) by nra. nra. }
  assert (0 < s - k) by lra.
  assert (b <= (s - k) * (2 * s)) by nra.
  assert (Hs2 : 2 * s <= 2 * (c + 1) * sqrt b) by nra.
  (* sqrt b * sqrt b = b <= (s - k) 2 s <= (s - k) 2 (c+1) sqrt b *)
  assert (H3 : sqrt b * sqrt b <= (s - k) * (2 * (c + 1) * sqrt b)).
  { rewrite Hbb. apply Rle_trans with ((s - k) * (2 * s)); [assumption|]. apply Rmult_le_compat_l; lra. }
  assert (sqrt b <= (s - k) * (2 * (c + 1))).
  { apply (Rmult_le_reg_r (sqrt b)); [lra|]. lra. }
  lra.
Qed.

Lemma prolate_capacitance_integral :
  (forall b, 0 <= b -> ex_RInt (spheroid_capacitance_integrand a c) 0 b) /\
  is_lim (fun b => RInt (spheroid_capacitance_integrand a c) 0 b) p_infty (2 / prolate_capacitance a c).
Proof.
  split; [intros b Hb; eexists; apply prolate_cap_RInt; exact Hb|].
  apply (is_lim_ext_loc (fun b => prolate_G b - prolate_G 0)).
  - exists 0. intros b Hb. symmetry. apply is_RInt_unique, prolate_cap_RInt. lra.
  - rewrite <- prolate_G_0.
    apply (is_lim_of_tail_bound _ _ (4 * (c + 1))); [lra|].
    intros b Hb. replace (prolate_G b - prolate_G 0 - - prolate_G 0) with (prolate_G b - 0) by ring.
    apply prolate_G_tail; exact Hb.
Qed.
End ProlateC.

(* ---- oblate: c < a ---------------------------------------------------------------------------------- *)
Section OblateC.
Variables a c : R.
Hypothesis Hc : 0 < c.
Hypothesis Hca : c < a.

Let e := oblate_ecc a c.
Let k := a * e.

Definition oblate_Gc (t : R) : R := 2 / k * atan (sqrt (c ^ 2 + t) / k).

Lemma oblate_Gc_deriv t : 0 <= t -> is_derive oblate_Gc t (spheroid_capacitance_integrand a c t).
Proof.
  intros Ht. assert (Hk := oblate_k_pos a c Hc Hca). fold e in Hk. fold k in Hk.
  assert (Hk2 := oblate_k_sqr a c Hc Hca). fold e in Hk2. fold k in Hk2.
  assert (Hp : 0 < c ^ 2 + t) by nra.
  assert (HSS : sqrt (c ^ 2 + t) * sqrt (c ^ 2 + t) = c ^ 2 + t) by (apply sqrt_sqrt; lra).
  assert (Hs : 0 < sqrt (c ^ 2 + t)) by (apply sqrt_lt_R0; lra).
  unfold oblate_Gc, spheroid_capacitance_integrand.
  assert (Earg : c * (c * 1) + t = c ^ 2 + t) by ring.
  auto_derive.
  - rewrite !Earg. repeat match goal with |- _ /\ _ => split end; try exact I; lra.
  - rewrite !Earg. set (s := sqrt (c ^ 2 + t)) in *.
    assert (Ha2 : a ^ 2 + t = s * s + k ^ 2) by (rewrite HSS, Hk2; ring).
    rewrite Ha2. unfold Rsqr. field. repeat split; try lra. nra.
Qed.

Lemma oblate_cap_RInt b : 0 <= b ->
  is_RInt (spheroid_capacitance_integrand a c) 0 b (oblate_Gc b - oblate_Gc 0).
Proof.
  intros Hb. apply (is_RInt_derive oblate_Gc (spheroid_capacitance_integrand a c)).
  - intros t Ht. rewrite Rmin_left, Rmax_right in Ht by lra. apply oblate_Gc_deriv; lra.
  - intros t Ht. rewrite Rmin_left, Rmax_right in Ht by lra. apply integrand_cap_continuous; lra.
Qed.

Lemma oblate_Gc_limit_value : PI / k - oblate_Gc 0 = 2 / oblate_capacitance a c.
Proof.
  assert (Hk := oblate_k_pos a c Hc Hca). fold e in Hk. fold k in Hk.
  assert (He := oblate_e_range a c Hc Hca). fold e in He.
  assert (He2 := oblate_e_sqr a c Hc Hca). fold e in He2.
  unfold oblate_Gc, oblate_capacitance. fold e. replace (c ^ 2 + 0) with (c ^ 2) by ring.
  rewrite <- Rsqr_pow2, sqrt_Rsqr by lra.
  (* asin e = atan (e / sqrt (1 - e^2)) = atan (k / c) = PI/2 - atan (c / k) *)
  assert (Hsq : sqrt (1 - e²) = c / a).
  { rewrite Rsqr_pow2, He2. replace (1 - (1 - c ^ 2 / a ^ 2)) with ((c / a) ^ 2) by (field; lra).
    rewrite <- Rsqr_pow2. apply sqrt_Rsqr. apply Rlt_le, Rdiv_lt_0_compat; lra. }
  assert (Hasin : asin e = PI / 2 - atan (c / k)).
  { rewrite asin_atan by lra. rewrite Hsq. replace (e / (c / a)) with (/ (c / k)) by (unfold k; field; repeat split; lra).
    apply atan_inv. apply Rdiv_lt_0_compat; lra. }
  assert (Ha := asin_pos e ltac:(lra)).
  rewrite Hasin in *. unfold k in *. field. repeat split; lra.
Qed.

Lemma oblate_Gc_tail b : 1 <= b -> Rabs (oblate_Gc b - PI / k) <= 2 / sqrt b.
Proof.
  intros Hb. assert (Hk := oblate_k_pos a c Hc Hca). fold e in Hk. fold k in Hk.
  assert (Hp : 0 < c ^ 2 + b) by nra. set (s := sqrt (c ^ 2 + b)).
  assert (Hs : 0 < s) by (apply sqrt_lt_R0; lra).
  assert (Hsb : sqrt b <= s) by (unfold s; apply sqrt_le_1; nra).
  assert (Hb1 : 1 <= sqrt b) by (rewrite <- sqrt_1; apply sqrt_le_1; lra).
  unfold oblate_Gc. fold s.
  assert (Hx : 0 < k / s) by (apply Rdiv_lt_0_compat; lra).
  assert (Hinv : atan (s / k) = PI / 2 - atan (k / s)).
  { replace (s / k) with (/ (k / s)) by (field; lra). apply atan_inv; exact Hx. }
  rewrite Hinv. replace (2 / k * (PI / 2 - atan (k / s)) - PI / k) with (- (2 / k * atan (k / s))) by (field; lra).
  assert (Hat := atan_lt_x (k / s) Hx).
  assert (Hat0 : 0 < atan (k / s)) by (rewrite <- atan_0; apply atan_increasing; exact Hx).
  rewrite Rabs_Ropp, Rabs_right by (apply Rle_ge, Rlt_le, Rmult_lt_0_compat; [apply Rdiv_lt_0_compat; lra|lra]).
  apply Rle_trans with (2 / k * (k / s)); [apply Rmult_le_compat_l; [left; apply Rdiv_lt_0_compat; lra|lra]|].
  replace (2 / k * (k / s)) with (2 / s) by (field; lra).
  apply (Rmult_le_reg_r (s * sqrt b)); [apply Rmult_lt_0_compat; lra|].
  replace (2 / s * (s * sqrt b)) with (2 * sqrt b) by (field; lra).
  replace (2 / sqrt b * (s * sqrt b)) with (2 * s) by (field; lra). lra.
Qed.

Lemma oblate_capacitance_integral :
  (forall b, 0 <= b -> ex_RInt (spheroid_capacitance_integrand a c) 0 b) /\
  is_lim (fun b => RInt (spheroid_capacitance_integrand a c) 0 b) p_infty (2 / oblate_capacitance a c).
Proof.
  split; [intros b Hb; eexists; apply oblate_cap_RInt; exact Hb|].
  apply (is_lim_ext_loc (fun b => oblate_Gc b - oblate_Gc 0)).
  - exists 0. intros b Hb. symmetry. apply is_RInt_unique, oblate_cap_RInt. lra.
  - rewrite <- oblate_Gc_limit_value.
    apply (is_lim_of_tail_bound _ _ 2); [lra|].
    intros b Hb. replace (oblate_Gc b - oblate_Gc 0 - (PI / k - oblate_Gc 0)) with (oblate_Gc b - PI / k) by ring.
    apply oblate_Gc_tail; exact Hb.
Qed.
End OblateC.
