(* C15 - harness-side driver of the bisection trace check: ShapeFactor._findRcrit uses only
   + - * / abs and comparisons of binary64 numbers around the calls of self.thermoFactor, so the model
   (hand-written or generated, both over [Ops]) is executed here on Coq's primitive floats, bit for
   bit, with thermoFactor replaced by the table of (radius, value) pairs the implementation's own
   calls produced.  A radius the table does not contain yields NaN, which ends the loop at once with
   a result the implementation did not return.  No theorem depends on this file. *)
From Coq Require Import List Bool ZArith Arith PrimFloat Uint63.
Require Import Kawin.Common.Ops Kawin.Common.Vec Kawin.C15.Model.
Import ListNotations.

Definition f64_ofZ (z : Z) : float :=
  match z with
  | Z0 => PrimFloat.zero
  | Zpos _ => PrimFloat.of_uint63 (Uint63.of_Z z)
  | Zneg p => PrimFloat.opp (PrimFloat.of_uint63 (Uint63.of_Z (Zpos p)))
  end.

Definition F64ops : Ops :=
  mkOps float PrimFloat.zero PrimFloat.one PrimFloat.add PrimFloat.sub PrimFloat.mul PrimFloat.div
        PrimFloat.ltb PrimFloat.leb PrimFloat.eqb f64_ofZ.

Fixpoint table_fun (tbl : list (float * float)) (x : float) : float :=
  match tbl with
  | [] => PrimFloat.nan
  | (k, v) :: r => if PrimFloat.eqb k x then v else table_fun r x
  end.

(* same number, and the same sign of zero *)
Definition same (a b : float) : bool :=
  PrimFloat.eqb a b && PrimFloat.eqb (PrimFloat.div PrimFloat.one a) (PrimFloat.div PrimFloat.one b)
  || (PrimFloat.eqb a b && negb (PrimFloat.eqb a PrimFloat.zero)).

(* F : the model (findRcrit F64ops, or the generated findRcrit_gen F64ops);
   impl: found?, returned value, number of loop iterations *)
Definition trace_check (F : (float -> float) -> float -> float -> float -> outcome F64ops)
    (tbl : list (float * float)) (Rs tol Rmax : float) (ifound : bool) (ir : float) (iters : nat) : bool :=
  match F (table_fun tbl) Rs tol Rmax with
  | Found _ r n => ifound && same r ir && Nat.eqb n iters
  | GaveUp _ => negb ifound && same ir Rs
  end.

(* number of iterations the model wants (diagnostics) *)
Definition trace_iters (F : (float -> float) -> float -> float -> float -> outcome F64ops)
    (tbl : list (float * float)) (Rs tol Rmax : float) : option nat :=
  match F (table_fun tbl) Rs tol Rmax with Found _ _ n => Some n | GaveUp _ => None end.
