(* C15 - lemmas, part 2: ShapeFactor._findRcrit (bisection) at the real instance of the scalar record.
   The thermodynamic factor as a function of the radius is an arbitrary function [tf] (Section
   variable): the statements hold for every description and every aspect-ratio function. *)
From Coq Require Import Reals List Bool ZArith Arith Lra Lia.
Require Import Kawin.Common.Ops Kawin.Common.Vec Kawin.C15.Model.
Open Scope R_scope.

Tactic Notation "lra" := (cbn [T Rops] in *; Lra.lra).
Tactic Notation "nra" := (cbn [T Rops] in *; Lra.nra).

Section BisectionR.
Variable tf : R -> R.
Variable Rs tol : R.

Notation obj := (objective Rops tf Rs).
Notation step := (bstep Rops tf Rs).
Notation loop := (bloop Rops tf Rs tol).
Notation iter := (biter Rops tf Rs).
Notation init := (binit Rops tf Rs).
Notation st := (bstate Rops).

Lemma obj_eq r : obj r = r / (Rs * tf r) - 1.
Proof. reflexivity. Qed.

Lemma absT_Rabs (x : R) : absT Rops x = Rabs x.
Proof.
  unfold absT. cbn [ltb sub zero Rops]. unfold Rltb. destruct (Rlt_dec x 0).
  - rewrite Rabs_left by exact r. lra.
  - rewrite Rabs_right by lra. reflexivity.
Qed.

(* the loop test *)
Definition continues (s : st) : Prop := tol < Rabs (fMid s).

Lemma loop_test s : ltb Rops tol (absT Rops (fMid s)) = true <-> continues s.
Proof. rewrite absT_Rabs. cbn [ltb Rops]. apply Rltb_true. Qed.
Lemma loop_test_false s : ltb Rops tol (absT Rops (fMid s)) = false <-> Rabs (fMid s) <= tol.
Proof. rewrite absT_Rabs. cbn [ltb Rops]. apply Rltb_false. Qed.

Lemma iter_S k s : iter (S k) s = step (iter k s).
Proof. revert s. induction k as [|k IH]; intros s; [reflexivity|]. cbn [biter]. rewrite <- IH. reflexivity. Qed.

(* ---- what the loop returns ---------------------------------------------------------------- *)
Lemma loop_found fuel n s (r : R) m : loop fuel n s = Found Rops r m ->
  exists k, (k <= fuel)%nat /\ m = (n + k)%nat /\ r = midR (iter k s) /\ Rabs (fMid (iter k s)) <= tol /\
            forall j, (j < k)%nat -> continues (iter j s).
Proof.
  revert n s. induction fuel as [|f IH]; intros n s H; cbn [bloop] in H.
  - destruct (ltb Rops tol (absT Rops (fMid s))) eqn:E; [discriminate|]. injection H as <- <-.
    exists 0%nat. repeat split; [lia|lia| |intros j Hj; lia]. apply loop_test_false; exact E.
  - destruct (ltb Rops tol (absT Rops (fMid s))) eqn:E.
    + apply IH in H. destruct H as [k [Hk [Hm [Hr [Ht Hc]]]]].
      exists (S k). repeat split; [lia|lia|exact Hr|exact Ht|].
      intros [|j] Hj; [apply loop_test; exact E|]. cbn [biter]. apply Hc. lia.
    + injection H as <- <-. exists 0%nat. repeat split; [lia|lia| |intros j Hj; lia]. apply loop_test_false; exact E.
Qed.

Lemma loop_gaveup fuel n s : loop fuel n s = GaveUp Rops -> forall j, (j <= fuel)%nat -> continues (iter j s).
Proof.
  revert n s. induction fuel as [|f IH]; intros n s H j Hj; cbn [bloop] in H;
    destruct (ltb Rops tol (absT Rops (fMid s))) eqn:E; try discriminate.
  - assert (j = 0)%nat by lia. subst. apply loop_test; exact E.
  - destruct j as [|j]; [apply loop_test; exact E|]. cbn [biter]. apply (IH _ _ H). lia.
Qed.

Lemma loop_total fuel n s :
  (exists r m, loop fuel n s = Found Rops r m) \/ loop fuel n s = GaveUp Rops.
Proof. destruct (loop fuel n s) as [r m|]; [left; exists r, m; reflexivity|right; reflexivity]. Qed.

(* ---- invariants ---------------------------------------------------------------------------- *)
(* the recorded objective values are those of the recorded radii; the middle is the midpoint *)
Definition consistent (s : st) : Prop :=
  fMin s = obj (minR s) /\ fMax s = obj (maxR s) /\ fMid s = obj (midR s) /\ midR s = (minR s + maxR s) / 2.

Lemma init_consistent (Rmax : R) : consistent (init Rmax).
Proof. unfold consistent, binit. cbn. repeat split; reflexivity. Qed.

Lemma step_consistent s : consistent s -> consistent (step s).
Proof.
  intros [H1 [H2 [H3 H4]]]. unfold consistent, bstep.
  destruct (leb Rops (zero Rops) (mul Rops (fMin s) (fMid s))); cbn; repeat split; try assumption; reflexivity.
Qed.

Lemma iter_consistent k s : consistent s -> consistent (iter k s).
Proof. revert s. induction k as [|k IH]; intros s H; [exact H|]. cbn [biter]. apply IH, step_consistent, H. Qed.

(* the bracket shrinks by halves and stays inside the initial one *)
Definition bracket (lo hi w : R) (s : st) : Prop :=
  lo <= minR s /\ maxR s <= hi /\ maxR s - minR s = w /\ midR s = (minR s + maxR s) / 2.

Lemma init_bracket (Rmax : R) : bracket Rs Rmax (Rmax - Rs) (init Rmax).
Proof. unfold bracket, binit. cbn. repeat split; try lra; reflexivity. Qed.

Lemma step_bracket lo hi w s : 0 <= w -> bracket lo hi w s -> bracket lo hi (w / 2) (step s).
Proof.
  intros Hw [H1 [H2 [H3 H4]]]. unfold bracket, bstep.
  destruct (leb Rops (zero Rops) (mul Rops (fMin s) (fMid s))); cbn; cbn in H4; rewrite ?H4; repeat split; try lra.
Qed.

Lemma iter_bracket k lo hi w s : 0 <= w -> bracket lo hi w s -> bracket lo hi (w / 2 ^ k) (iter k s).
Proof.
  revert w s. induction k as [|k IH]; intros w s Hw H.
  - cbn [biter pow]. replace (w / 1) with w by field. exact H.
  - cbn [biter]. replace (w / 2 ^ S k) with (w / 2 / 2 ^ k).
    + apply IH; [lra|]. apply step_bracket; assumption.
    + cbn [pow]. field. apply pow_nonzero; lra.
Qed.

(* the ends of the bracket carry opposite signs for as long as the loop goes on *)
Definition opposite (s : st) : Prop := fMin s * fMax s < 0.

Lemma step_opposite s : 0 <= tol -> continues s -> opposite s -> opposite (step s) /\
  (* and the end that was replaced is the one whose sign the midpoint shares *)
  (minR (step s) = midR s /\ maxR (step s) = maxR s \/ minR (step s) = minR s /\ maxR (step s) = midR s).
Proof.
  intros Ht Hc Ho. unfold continues in Hc. unfold opposite in *.
  assert (Hnz : fMid s <> 0). { intros E. rewrite E, Rabs_R0 in Hc. lra. }
  unfold bstep. cbn [leb zero mul Rops]. unfold Rleb. destruct (Rle_dec 0 (fMin s * fMid s)) as [Hge|Hlt]; cbn.
  - split; [|left; split; reflexivity].
    (* fMin and fMid share a sign, fMin and fMax do not: fMid * fMax < 0 *)
    assert (Hmin : fMin s <> 0) by (intros E; rewrite E in Ho; lra).
    destruct (Rlt_or_le 0 (fMin s)) as [Hp|Hn].
    + assert (0 < fMid s) by (destruct (Rlt_or_le 0 (fMid s)); [assumption|nra]). nra.
    + assert (fMin s < 0) by lra. assert (fMid s < 0) by (destruct (Rlt_or_le (fMid s) 0); [assumption|nra]). nra.
  - split; [|right; split; reflexivity]. lra.
Qed.

Lemma iter_opposite k s : 0 <= tol -> opposite s -> (forall j, (j < k)%nat -> continues (iter j s)) -> opposite (iter k s).
Proof.
  intros Ht Ho. induction k as [|k IH]; intros Hc; [exact Ho|].
  rewrite iter_S. apply step_opposite; [exact Ht|apply Hc; lia|apply IH; intros j Hj; apply Hc; lia].
Qed.

(* ---- the property: a normally returned value is a root to the tolerance --------------------- *)
Lemma findRcrit_found_root (Rmax r : R) n : findRcrit Rops tf Rs tol Rmax = Found Rops r n ->
  Rabs (obj r) <= tol /\ (n <= 99)%nat /\
  (Rs <= Rmax -> Rs <= r <= Rmax) /\
  (* r is the midpoint of a bracket of width (Rmax - Rs) / 2^n inside [Rs, Rmax] *)
  (Rs <= Rmax -> exists a b, Rs <= a /\ b <= Rmax /\ b - a = (Rmax - Rs) / 2 ^ n /\ r = (a + b) / 2) /\
  (* which still carries a sign change when the initial bracket did *)
  (0 <= tol -> obj Rs * obj Rmax < 0 ->
     exists a b, r = (a + b) / 2 /\ b - a = (Rmax - Rs) / 2 ^ n /\ obj a * obj b < 0).
Proof.
  unfold findRcrit. intros H. apply loop_found in H. destruct H as [k [Hk [Hn [Hr [Ht Hc]]]]].
  cbn in Hn. subst n.
  assert (Hcons := iter_consistent k _ (init_consistent Rmax)).
  destruct Hcons as [C1 [C2 [C3 C4]]].
  split; [rewrite Hr, <- C3; exact Ht|]. split; [exact Hk|].
  assert (Hb : Rs <= Rmax -> bracket Rs Rmax ((Rmax - Rs) / 2 ^ k) (iter k (init Rmax))).
  { intros Hle. apply iter_bracket; [lra|apply init_bracket]. }
  split; [|split].
  - intros Hle. destruct (Hb Hle) as [B1 [B2 [B3 B4]]].
    assert (0 <= (Rmax - Rs) / 2 ^ k).
    { apply Rmult_le_pos; [lra|]. left. apply Rinv_0_lt_compat, pow_lt; lra. }
    rewrite Hr. cbn in B4. rewrite B4. lra.
  - intros Hle. destruct (Hb Hle) as [B1 [B2 [B3 B4]]].
    exists (minR (iter k (init Rmax))), (maxR (iter k (init Rmax))). repeat split; try assumption.
    rewrite Hr. exact B4.
  - intros Htol Hopp.
    assert (Ho : opposite (iter k (init Rmax))).
    { apply iter_opposite; [exact Htol| |exact Hc]. unfold opposite, binit. cbn. exact Hopp. }
    exists (minR (iter k (init Rmax))), (maxR (iter k (init Rmax))).
    split; [rewrite Hr; exact C4|]. split.
    + clear Hb. assert (Hgen : forall (j : nat) (w : R) (s : st), maxR s - minR s = w -> midR s = (minR s + maxR s) / 2 ->
                          maxR (iter j s) - minR (iter j s) = w / 2 ^ j /\ midR (iter j s) = (minR (iter j s) + maxR (iter j s)) / 2).
      { induction j as [|j IH]; intros w s Hw Hm.
        - cbn [biter pow]. split; [lra|exact Hm].
        - cbn [biter]. replace (w / 2 ^ S j) with (w / 2 / 2 ^ j) by (cbn [pow]; field; apply pow_nonzero; lra).
          apply IH.
          + unfold bstep. destruct (leb Rops (zero Rops) (mul Rops (fMin s) (fMid s))); cbn; cbn in Hm; rewrite ?Hm; lra.
          + unfold bstep. destruct (leb Rops (zero Rops) (mul Rops (fMin s) (fMid s))); cbn; reflexivity. }
      apply (Hgen k (Rmax - Rs) (init Rmax)); unfold binit; cbn; reflexivity.
    + unfold opposite in Ho. rewrite C1, C2 in Ho. exact Ho.
Qed.

(* in the form "R = R_sphere * factor(aspect(R))" *)
Lemma findRcrit_found_relative (Rmax r : R) n : findRcrit Rops tf Rs tol Rmax = Found Rops r n ->
  Rs * tf r <> 0 -> Rabs (r - Rs * tf r) <= tol * Rabs (Rs * tf r).
Proof.
  intros H Hnz. apply findRcrit_found_root in H. destruct H as [H _].
  rewrite obj_eq in H.
  assert (Hnz2 : Rs <> 0 /\ tf r <> 0) by (split; intros E; apply Hnz; rewrite E; ring).
  replace (r - Rs * tf r) with ((r / (Rs * tf r) - 1) * (Rs * tf r)) by (field; tauto).
  rewrite Rabs_mult. apply Rmult_le_compat_r; [apply Rabs_pos|exact H].
Qed.

(* the other exit returns R_sphere, and is taken only after 100 iterations that all missed the tolerance *)
Lemma findRcrit_gaveup (Rmax : R) : findRcrit Rops tf Rs tol Rmax = GaveUp Rops ->
  findRcrit_value Rops tf Rs tol Rmax = Rs /\
  forall j, (j <= 99)%nat -> tol < Rabs (obj (midR (iter j (init Rmax)))).
Proof.
  intros H. split; [unfold findRcrit_value; rewrite H; reflexivity|].
  intros j Hj. unfold findRcrit in H. assert (Hc := loop_gaveup _ _ _ H j Hj). unfold continues in Hc.
  destruct (iter_consistent j _ (init_consistent Rmax)) as [_ [_ [C3 _]]]. rewrite <- C3. exact Hc.
Qed.

(* ---- convergence: a bracketed root of a Lipschitz objective is found ------------------------- *)
Section Convergence.
Variable Rmax L : R.
Hypothesis Hle : Rs <= Rmax.
Hypothesis Htol : 0 <= tol.
Hypothesis Hlip : forall x y, Rs <= x <= Rmax -> Rs <= y <= Rmax -> Rabs (obj x - obj y) <= L * Rabs (x - y).
Hypothesis Hbracketed : obj Rs * obj Rmax < 0.

Lemma mid_small k :
  (forall j, (j < k)%nat -> continues (iter j (init Rmax))) ->
  Rabs (fMid (iter k (init Rmax))) <= L * ((Rmax - Rs) / 2 ^ k / 2).
Proof.
  intros Hc. set (s := iter k (init Rmax)).
  assert (Ho : opposite s).
  { apply iter_opposite; [exact Htol| |exact Hc]. unfold opposite, binit. cbn. exact Hbracketed. }
  destruct (iter_consistent k _ (init_consistent Rmax)) as [C1 [C2 [C3 C4]]]. fold s in C1, C2, C3, C4.
  destruct (iter_bracket k Rs Rmax (Rmax - Rs) (init Rmax) ltac:(lra) (init_bracket Rmax)) as [B1 [B2 [B3 B4]]].
  fold s in B1, B2, B3, B4.
  assert (Hw : 0 <= (Rmax - Rs) / 2 ^ k).
  { apply Rmult_le_pos; [lra|]. left. apply Rinv_0_lt_compat, pow_lt; lra. }
  set (w := (Rmax - Rs) / 2 ^ k) in *.
  assert (Hmn : Rs <= minR s <= Rmax) by lra. assert (Hmx : Rs <= maxR s <= Rmax) by lra.
  assert (Hmd : Rs <= midR s <= Rmax) by (rewrite C4; lra).
  assert (D1 := Hlip (midR s) (minR s) Hmd Hmn). assert (D2 := Hlip (midR s) (maxR s) Hmd Hmx).
  rewrite <- C3, <- C1 in D1. rewrite <- C3, <- C2 in D2.
  assert (E1 : Rabs (midR s - minR s) = w / 2) by (rewrite C4, Rabs_right; lra).
  assert (E2 : Rabs (midR s - maxR s) = w / 2) by (rewrite C4, Rabs_left1; lra).
  rewrite E1 in D1. rewrite E2 in D2. unfold opposite in Ho.
  (* fMid differs in sign from one of the two ends (or is zero) *)
  destruct (Rle_or_lt 0 (fMid s)) as [Hp|Hn].
  - rewrite Rabs_right by lra.
    destruct (Rle_or_lt 0 (fMin s)) as [Hp1|Hn1].
    + assert (fMax s < 0) by nra. apply Rle_trans with (2 := D2). apply Rle_trans with (2 := Rle_abs _). lra.
    + apply Rle_trans with (2 := D1). apply Rle_trans with (2 := Rle_abs _). lra.
  - rewrite Rabs_left by lra.
    destruct (Rle_or_lt (fMin s) 0) as [Hp1|Hn1].
    + assert (0 < fMax s) by nra. apply Rle_trans with (2 := D2). rewrite <- Rabs_Ropp. apply Rle_trans with (2 := Rle_abs _). lra.
    + apply Rle_trans with (2 := D1). rewrite <- Rabs_Ropp. apply Rle_trans with (2 := Rle_abs _). lra.
Qed.

Lemma findRcrit_converges : L * (Rmax - Rs) <= tol * 2 ^ 100 ->
  exists r n, findRcrit Rops tf Rs tol Rmax = Found Rops r n /\ (n <= 99)%nat /\
              Rs <= r <= Rmax /\ Rabs (obj r) <= tol /\ findRcrit_value Rops tf Rs tol Rmax = r.
Proof.
  intros HL. destruct (loop_total 99 0 (init Rmax)) as [[r [n H]]|H].
  - exists r, n. assert (Hf : findRcrit Rops tf Rs tol Rmax = Found Rops r n) by exact H.
    destruct (findRcrit_found_root Rmax r n Hf) as [H1 [H2 [H3 _]]].
    repeat split; try assumption; try (apply H3; exact Hle). unfold findRcrit_value. rewrite Hf. reflexivity.
  - exfalso. assert (Hc := loop_gaveup _ _ _ H).
    assert (Hs := mid_small 99 ltac:(intros j Hj; apply Hc; lia)).
    assert (H99 := Hc 99%nat ltac:(lia)). unfold continues in H99.
    assert (L * ((Rmax - Rs) / 2 ^ 99 / 2) <= tol); [|lra].
    replace (L * ((Rmax - Rs) / 2 ^ 99 / 2)) with (L * (Rmax - Rs) / 2 ^ 100)
      by (change (2 ^ 100) with (2 * 2 ^ 99); field; apply pow_nonzero; lra).
    apply (Rmult_le_reg_r (2 ^ 100)); [apply pow_lt; lra|].
    replace (L * (Rmax - Rs) / 2 ^ 100 * 2 ^ 100) with (L * (Rmax - Rs)) by (field; apply pow_nonzero; lra).
    exact HL.
Qed.
End Convergence.

End BisectionR.

(* ---- _findRcritScalar: the exact root ------------------------------------------------------- *)
Lemma findRcritScalar_root (tf : R -> R) Rs Rmax : Rs * tf Rs <> 0 ->
  let r := findRcritScalar tf Rs Rmax in r / (Rs * tf Rs) - 1 = 0.
Proof.
  intros H. assert (Hnz2 : Rs <> 0 /\ tf Rs <> 0) by (split; intros E; apply H; rewrite E; ring).
  unfold findRcritScalar. cbv zeta. field. tauto.
Qed.

(* with a constant aspect ratio the factor does not depend on the radius, so the value is a root of
   R = R_sphere * factor(aspect(R)) *)
Lemma findRcritScalar_fixed_point (d : description) a Rs Rmax :
  let tf := sf_thermoFactor d (scalarAspectRatio a) in
  let r := findRcritScalar tf Rs Rmax in r = Rs * tf r.
Proof. unfold findRcritScalar, sf_thermoFactor, scalarAspectRatio. cbv zeta. reflexivity. Qed.

Lemma findRcritScalar_exact (d : description) (a Rs Rmax : R) :
  let tf := sf_thermoFactor d (scalarAspectRatio a) in
  let r := findRcritScalar tf Rs Rmax in
  r = Rs * tf r /\ (Rs * tf Rs <> 0 -> r / (Rs * tf r) - 1 = 0).
Proof.
  cbv zeta. split; [apply findRcritScalar_fixed_point|].
  intros H. unfold findRcritScalar, sf_thermoFactor, scalarAspectRatio in *.
  assert (Hnz2 : Rs <> 0 /\ thermoFactor d (a * 1) <> 0) by (split; intros E; apply H; rewrite E; ring).
  field. tauto.
Qed.
